"""Self-test wrapper: runs bin/check with the PROPOSED known-finding entries of the transfermw family added to the
committed ones (the shared known_findings.json is not modified)."""
import sys, os, json, importlib.machinery, importlib.util
VERIF = '/verif'
sys.path.insert(0, VERIF + '/lib'); sys.path.insert(0, VERIF + '/families')
import vk
PROPOSED = json.load(open(VERIF + '/docs/transfermw.known_findings.proposed.json'))["findings"]
_orig = vk.known_findings
vk.known_findings = lambda: _orig() + PROPOSED
_tk = vk.tree_key
vk.tree_key = lambda paths=(): _tk(paths) + "kf"
loader = importlib.machinery.SourceFileLoader('check', VERIF + '/bin/check')
spec = importlib.util.spec_from_loader('check', loader)
mod = importlib.util.module_from_spec(spec)
loader.exec_module(mod)
sys.exit(mod.main())
