package tmclient

import (
	"fmt"

	sdk "github.com/cosmos/cosmos-sdk/types"

	clienttypes "github.com/cosmos/ibc-go/v11/modules/core/02-client/types"
	commitmenttypes "github.com/cosmos/ibc-go/v11/modules/core/23-commitment/types"
	"github.com/cosmos/ibc-go/v11/modules/core/exported"
	ibctm "github.com/cosmos/ibc-go/v11/modules/light-clients/07-tendermint"
	ibctesting "github.com/cosmos/ibc-go/v11/testing"
)

// sendTx delivers msgs in one transaction = one block on the host chain at the current tick.
// result classes: ok | err | panic
func (w *World) sendTx(msgs ...sdk.Msg) (res string, errStr string) {
	defer func() {
		if r := recover(); r != nil {
			res, errStr = "panic", fmt.Sprint(r)
		}
	}()
	_, err := w.A.SendMsgs(msgs...)
	w.resyncSequence()
	if err != nil {
		return "err", err.Error()
	}
	return "ok", ""
}

// resyncSequence re-reads the relayer account's sequence from chain state: ibctesting bumps its local copy
// even when the transaction is rejected in the ante handler (where the chain does not).
func (w *World) resyncSequence() {
	acc := w.A.GetSimApp().AccountKeeper.GetAccount(w.A.GetContext(), w.A.SenderAccount.GetAddress())
	if acc != nil {
		_ = w.A.SenderAccount.SetSequence(acc.GetSequence())
	}
}

func (w *World) signer() string { return w.A.SenderAccount.GetAddress().String() }

// clientID maps the model's client index (creation order within the epoch) to the real identifier; indices
// that do not exist map to identifiers that do not exist.
func (w *World) clientID(i int) string {
	if i >= 1 && i <= len(w.clients) {
		return w.clients[i-1].id
	}
	return fmt.Sprintf("07-tendermint-%d", 900000+i)
}

func (w *World) nextClientSeq() uint64 {
	return w.A.App.GetIBCKeeper().ClientKeeper.GetNextClientSequence(w.A.GetContext())
}

func (w *World) emptyBlock() { w.A.NextBlock() }

// Exec executes one abstract action against the real chain and returns its result class.
func (w *World) Exec(a Action) (res string, errStr string) {
	w.now += a.Dt
	w.setTick(w.now)
	defer func() {
		if r := recover(); r != nil {
			// a panic outside a transaction (message construction): the block is still produced
			res, errStr = "panic", fmt.Sprint(r)
			w.setTick(w.now)
			w.emptyBlock()
		}
	}()

	switch a.A {
	case "Tick":
		w.emptyBlock()
		return "ok", ""

	case "Create":
		cs := w.clientState(*a.Par, *a.H)
		cons := ibctm.NewConsensusState(w.tickTime(a.Ts), commitmenttypes.NewMerkleRoot(w.rootBytes(*a.Root)), w.valset(a.Nv).Hash())
		seq := w.nextClientSeq()
		msg, err := clienttypes.NewMsgCreateClient(cs, cons, w.signer())
		if err != nil {
			w.emptyBlock()
			return "err", err.Error()
		}
		res, errStr = w.sendTx(msg)
		if res == "ok" {
			w.clients = append(w.clients, clientRef{typ: "07", id: fmt.Sprintf("%s-%d", exported.Tendermint, seq)})
		}
		return res, errStr

	case "CreateSolo":
		seq := w.nextClientSeq()
		solo := ibctesting.NewSolomachine(w.t, w.A.App.AppCodec(), "solomachine", "", 1)
		msg, err := clienttypes.NewMsgCreateClient(solo.ClientState(), solo.ConsensusState(), w.signer())
		if err != nil {
			w.emptyBlock()
			return "err", err.Error()
		}
		res, errStr = w.sendTx(msg)
		if res == "ok" {
			w.solo = solo
			w.clients = append(w.clients, clientRef{typ: "06", id: fmt.Sprintf("%s-%d", exported.Solomachine, seq)})
		}
		return res, errStr

	case "Update":
		msg, err := clienttypes.NewMsgUpdateClient(w.clientID(a.C), w.buildHeader(a.Hd), w.signer())
		if err != nil {
			w.emptyBlock()
			return "err", err.Error()
		}
		return w.sendTx(msg)

	case "Misb":
		mb := &ibctm.Misbehaviour{ClientId: w.clientID(a.C), Header1: w.buildHeader(a.H1), Header2: w.buildHeader(a.H2)}
		msg, err := clienttypes.NewMsgUpdateClient(w.clientID(a.C), mb, w.signer())
		if err != nil {
			w.emptyBlock()
			return "err", err.Error()
		}
		return w.sendTx(msg)

	case "Recover":
		return w.recover(a)

	case "Upgrade":
		return w.upgrade(a)
	}
	w.emptyBlock()
	return "err", "unknown action " + a.A
}

// recover executes MsgRecoverClient the way governance does: the message handler runs with the authority as
// signer on a branch of the block's state that is written only if the handler succeeds.
func (w *World) recover(a Action) (res string, errStr string) {
	k := w.A.App.GetIBCKeeper()
	msg := clienttypes.NewMsgRecoverClient(k.GetAuthority(), w.clientID(a.C), w.clientID(a.Sub))
	defer w.emptyBlock()
	defer func() {
		if r := recover(); r != nil {
			res, errStr = "panic", fmt.Sprint(r)
		}
	}()
	if err := msg.ValidateBasic(); err != nil {
		return "err", err.Error()
	}
	cacheCtx, write := w.A.GetContext().CacheContext()
	if _, err := k.RecoverClient(cacheCtx, msg); err != nil {
		return "err", err.Error()
	}
	write()
	return "ok", ""
}

// upgrade submits MsgUpgradeClient carrying the upgraded client / consensus state of plan variant a.V (with
// relayer-chosen custom fields) and real proofs from the plan snapshot a.Pv of the counterparty's upgrade store,
// at the key of the subject's latest height.
func (w *World) upgrade(a Action) (string, string) {
	id := w.clientID(a.C)
	ctx := w.A.GetContext()
	var cur *ibctm.ClientState
	if cs, ok := w.A.App.GetIBCKeeper().ClientKeeper.GetClientState(ctx, id); ok {
		cur, _ = cs.(*ibctm.ClientState)
	}
	claimed := w.upgradedClient(a.V)
	planTs := int64(0)
	planHeight := uint64(1)
	if cur != nil {
		planHeight = cur.LatestHeight.RevisionHeight
		if cons, ok := ibctm.GetConsensusState(w.A.App.GetIBCKeeper().ClientKeeper.ClientStore(ctx, id), w.A.App.AppCodec(), cur.LatestHeight); ok {
			// the plan time is part of the identity of the plan snapshot root (if the latest root is one)
			if r, ok := w.roots[hexOf(cons.Root.GetHash())]; ok && r.K == "plan" {
				planTs = r.Ts
			}
		}
		// custom fields chosen by the relayer
		claimed.TrustLevel, claimed.TrustingPeriod, claimed.MaxClockDrift = cur.TrustLevel, cur.TrustingPeriod, cur.MaxClockDrift
	}
	if a.Cust == "evil" || cur == nil {
		claimed.TrustLevel = ibctm.Fraction{Numerator: 1, Denominator: 1}
		claimed.TrustingPeriod = 1000 * tickDur
		claimed.MaxClockDrift = 777 * tickDur
	}
	p1, p2 := w.upgradeProofs(a.Pv, planTs, planHeight)
	switch a.Mut {
	case "cproof":
		p1 = append([]byte{}, p1...)
		p1[len(p1)/2] ^= 0x01
	case "sproof":
		p2 = append([]byte{}, p2...)
		p2[len(p2)/2] ^= 0x01
	}
	msg, err := clienttypes.NewMsgUpgradeClient(id, claimed, w.upgradedCons(planTs), p1, p2, w.signer())
	if err != nil {
		w.emptyBlock()
		return "err", err.Error()
	}
	return w.sendTx(msg)
}
