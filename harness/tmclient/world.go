// Package tmclient is the conformance driver of the TM light-client family (spec/tmclient/TMClient.tla).
//
// One World = a real ibctesting host chain A (02-client + 07-tendermint + 06-solomachine) and a second real
// chain B that only supplies committed upgrade plans and ICS-23 proofs from its upgrade store.  The
// counterparty whose headers the clients on A verify is virtual: its blocks are forged with the harness's
// own validator keys (really signed precommits), so every (height, time, app hash, validator set, signer
// subset, trusted height, ...) combination of the specification's header attribute vector is constructible.
//
// A schedule is executed in its own "epoch" of the world: time 0 / host height 0 / client index 1 are
// relative to the start of the epoch, so thousands of schedules share one pair of chains.
// The driver executes and records; it never judges.
package tmclient

import (
	"crypto/sha256"
	"encoding/json"
	"fmt"
	"testing"
	"time"

	upgradetypes "github.com/cosmos/cosmos-sdk/x/upgrade/types"

	"github.com/cometbft/cometbft/crypto/ed25519"
	"github.com/cometbft/cometbft/crypto/tmhash"
	cmtproto "github.com/cometbft/cometbft/proto/tendermint/types"
	cmtprotoversion "github.com/cometbft/cometbft/proto/tendermint/version"
	cmttypes "github.com/cometbft/cometbft/types"
	cmtversion "github.com/cometbft/cometbft/version"

	ics23 "github.com/cosmos/ics23/go"

	clienttypes "github.com/cosmos/ibc-go/v11/modules/core/02-client/types"
	commitmenttypes "github.com/cosmos/ibc-go/v11/modules/core/23-commitment/types"
	ibctm "github.com/cosmos/ibc-go/v11/modules/light-clients/07-tendermint"
	ibctesting "github.com/cosmos/ibc-go/v11/testing"

	"verif/harness/lib"
)

// ---- abstract values of spec/tmclient/TMClient.tla ------------------------------------------------

type Height [2]int64

type Root struct {
	K  string `json:"k"`
	V  string `json:"v"`
	Ts int64  `json:"ts"`
}

type Par struct {
	Tp    int64    `json:"tp"`
	Ubd   int64    `json:"ubd"`
	Drift int64    `json:"drift"`
	Lvl   [2]int64 `json:"lvl"`
	Rev   int64    `json:"rev"`
	Upath string   `json:"upath"`
	Specs string   `json:"specs"`
}

type Hdr struct {
	H    Height   `json:"h"`
	Th   Height   `json:"th"`
	Ts   int64    `json:"ts"`
	Root Root     `json:"root"`
	Vs   string   `json:"vs"`
	Nv   string   `json:"nv"`
	Tvs  string   `json:"tvs"`
	Sg   []string `json:"sg"`
	Sig  string   `json:"sig"`
	Cid  string   `json:"cid"`
	Vh   bool     `json:"vh"`
}

type Action struct {
	A    string  `json:"a"`
	C    int     `json:"c"`
	Sub  int     `json:"sub"`
	Dt   int64   `json:"dt"`
	Par  *Par    `json:"par,omitempty"`
	H    *Height `json:"h,omitempty"`
	Ts   int64   `json:"ts"`
	Root *Root   `json:"root,omitempty"`
	Nv   string  `json:"nv"`
	Hd   *Hdr    `json:"hd,omitempty"`
	H1   *Hdr    `json:"h1,omitempty"`
	H2   *Hdr    `json:"h2,omitempty"`
	V    string  `json:"v"`
	Pv   string  `json:"pv"`
	Cust string  `json:"cust"`
	Mut  string  `json:"mut"`
}

type Schedule struct {
	ID   string            `json:"id"`
	Ubd0 int64             `json:"ubd0"`
	Lay  string            `json:"lay"` // height layout (see layouts); "" = "slash"
	Acts []json.RawMessage `json:"acts"`
}

const tickDur = 500 * time.Millisecond

// model revision -> real revision number (0x2f = '/'), model height index -> real height
var revTable = map[int64]uint64{0: 1, 1: 47}
var heightTable = layouts["slash"]

// layouts: the real heights that stand for the model's height indices 0..8 in one epoch.  In every layout exactly the
// index pairs (1,2), (2,3), (4,5) (ADJ of the specification) are consecutive heights.
//
//	"slash": big-endian iteration keys contain '/' bytes in several positions
//	"dec":   decimal strings that are prefixes of each other ("4" of "40", "41", "47", "400", "4000"; "40" of "400", ...),
//	         so that the string keys consensusStates/<rev>-<height>[/...] of different heights share prefixes
var layouts = map[string][]uint64{
	"slash": {1, 46, 47, 48, 0x2f00, 0x2f01, 0x2f2f, 0x2f0000002f, 0x2f2f2f2f2f2f2f2f},
	"dec":   {1, 4, 5, 6, 40, 41, 47, 400, 4000},
}

func realRev(r int64) uint64 {
	if v, ok := revTable[r]; ok {
		return v
	}
	return 99
}

func realH(k int64) uint64 {
	if k >= 0 && int(k) < len(heightTable) {
		return heightTable[k]
	}
	return 5
}

func (h Height) real() clienttypes.Height { return clienttypes.NewHeight(realRev(h[0]), realH(h[1])) }

func absHeight(h clienttypes.Height) Height {
	out := Height{-9, -9}
	for r, v := range revTable {
		if v == h.RevisionNumber {
			out[0] = r
		}
	}
	for k, v := range heightTable {
		if v == h.RevisionHeight {
			out[1] = int64(k)
		}
	}
	return out
}

func chainID(name string, rev int64) string { return fmt.Sprintf("%s-%d", name, realRev(rev)) }

// ---- the world -------------------------------------------------------------------------------------

type clientRef struct {
	typ string // "07" | "06"
	id  string
}

type snapshot struct {
	root     []byte
	qheight  uint64 // height to pass to QueryUpgradeProof
	clientBz []byte
	consBz   []byte
}

type World struct {
	t     *testing.T
	coord *ibctesting.Coordinator
	A, B  *ibctesting.TestChain

	keys    map[string]ed25519.PrivKey
	valsets map[string]*cmttypes.ValidatorSet
	valName map[string]string // validator address -> name
	nvDict  map[string]string // hex(valset hash) -> valset id

	// epoch
	T0      time.Time
	now     int64
	H0      int64
	ubd0    int64
	clients []clientRef
	roots   map[string]Root      // hex(root bytes) -> abstract root
	snaps   map[string]*snapshot // "<v>/<ts>" -> plan snapshot of this epoch
	solo    *ibctesting.Solomachine
}

var validatorSets = map[string][]string{
	"V": {"a", "b", "c", "d"},
	"W": {"a", "b", "e", "f"},
	"X": {"e", "f", "g", "h"},
	"U": {"a", "b", "c", "d", "e", "f", "g"},
	"Y": {"c", "d", "g", "h"},
	"Z": {"h"},
}

func NewWorld(t *testing.T) *World {
	w := &World{t: t, keys: map[string]ed25519.PrivKey{}, valsets: map[string]*cmttypes.ValidatorSet{},
		valName: map[string]string{}, nvDict: map[string]string{}}
	ibctesting.TimeIncrement = time.Millisecond
	w.coord = ibctesting.NewCoordinator(t, 2)
	w.A = w.coord.GetChain(ibctesting.GetChainID(1))
	w.B = w.coord.GetChain(ibctesting.GetChainID(2))
	for _, n := range []string{"a", "b", "c", "d", "e", "f", "g", "h"} {
		k := ed25519.GenPrivKeyFromSecret([]byte("verif-tmclient-validator-" + n))
		w.keys[n] = k
		w.valName[k.PubKey().Address().String()] = n
	}
	for id, names := range validatorSets {
		vs := w.mkValset(names, nil)
		w.valsets[id] = vs
		w.nvDict[lib.Hex(vs.Hash())] = id
	}
	return w
}

func (w *World) mkValset(names []string, power map[string]int64) *cmttypes.ValidatorSet {
	vals := make([]*cmttypes.Validator, 0, len(names))
	for _, n := range names {
		p := int64(1)
		if v, ok := power[n]; ok {
			p = v
		}
		vals = append(vals, cmttypes.NewValidator(w.keys[n].PubKey(), p))
	}
	return cmttypes.NewValidatorSet(vals)
}

func (w *World) valset(id string) *cmttypes.ValidatorSet {
	if vs, ok := w.valsets[id]; ok {
		return vs
	}
	return w.valsets["V"]
}

// StartEpoch begins a fresh schedule: time 0, host height 0, no clients.
func (w *World) StartEpoch(ubd0 int64, lay string) {
	if t, ok := layouts[lay]; ok {
		heightTable = t
	} else {
		heightTable = layouts["slash"]
	}
	w.T0 = w.coord.CurrentTime.Truncate(time.Second).Add(2 * time.Second)
	w.now = 0
	w.ubd0 = ubd0
	w.clients = nil
	w.roots = map[string]Root{lib.Hex([]byte(ibctm.SentinelRoot)): {K: "sentinel", V: "", Ts: 0}}
	w.snaps = map[string]*snapshot{}
	w.solo = nil
	w.setTick(0)
	w.A.NextBlock() // a block at the epoch's time zero: relative host height 0
	w.H0 = w.A.App.LastBlockHeight()
	w.setTick(0)
}

func (w *World) tickTime(k int64) time.Time { return w.T0.Add(time.Duration(k) * tickDur) }
func (w *World) setTick(k int64)           { w.coord.SetTime(w.tickTime(k)) }

func (w *World) absTime(t time.Time) int64 {
	d := t.Sub(w.T0)
	if d%tickDur != 0 {
		return -999
	}
	return int64(d / tickDur)
}

func absDur(d time.Duration) int64 {
	if d%tickDur != 0 {
		return -1
	}
	return int64(d / tickDur)
}

// ---- roots -------------------------------------------------------------------------------------------

func (w *World) rootBytes(r Root) []byte {
	var bz []byte
	switch r.K {
	case "plain":
		h := sha256.Sum256([]byte("verif-root-" + r.V))
		bz = h[:]
	case "plan":
		bz = w.planSnapshot(r.V, r.Ts).root
	case "sentinel":
		bz = []byte(ibctm.SentinelRoot)
	default:
		h := sha256.Sum256([]byte("verif-unknown-root"))
		bz = h[:]
	}
	w.roots[lib.Hex(bz)] = r
	return bz
}

// ---- upgrade plans committed by the counterparty (real chain B) ------------------------------------------

func planNL(v string) Height {
	switch v {
	case "low":
		return Height{0, 1}
	case "same":
		return Height{0, 4}
	}
	return Height{1, 1}
}

func (w *World) planUbd(v string) int64 {
	switch v {
	case "lt":
		return w.ubd0 / 2
	case "gt":
		return 2 * w.ubd0
	case "sh":
		return (3 * w.ubd0) / 4
	}
	return w.ubd0
}

var stdUpgradePath = []string{"upgrade", "upgradedIBCState"}

// upgradedClient is the client state the counterparty commits for plan variant v (custom fields are zero).
func (w *World) upgradedClient(v string) *ibctm.ClientState {
	nl := planNL(v)
	return &ibctm.ClientState{
		ChainId:         chainID("verifchain", nl[0]),
		UnbondingPeriod: time.Duration(w.planUbd(v)) * tickDur,
		LatestHeight:    nl.real(),
		ProofSpecs:      commitmenttypes.GetSDKSpecs(),
		UpgradePath:     stdUpgradePath,
	}
}

func (w *World) upgradedCons(ts int64) *ibctm.ConsensusState {
	return &ibctm.ConsensusState{
		Timestamp:          w.tickTime(ts),
		Root:               commitmenttypes.NewMerkleRoot([]byte("verif-upgraded-root-not-usable")),
		NextValidatorsHash: w.valset("V").Hash(),
	}
}

// planSnapshot commits (once per epoch, variant and time) the upgraded client and consensus state of variant v
// under EVERY plan height of the height table in B's upgrade store and returns B's resulting app hash.
func (w *World) planSnapshot(v string, ts int64) *snapshot {
	key := fmt.Sprintf("%s/%d", v, ts)
	if s, ok := w.snaps[key]; ok {
		return s
	}
	cdc := w.B.App.AppCodec()
	clientBz, err := clienttypes.MarshalClientState(cdc, w.upgradedClient(v))
	if err != nil {
		w.t.Fatalf("marshal upgraded client: %v", err)
	}
	consBz, err := clienttypes.MarshalConsensusState(cdc, w.upgradedCons(ts))
	if err != nil {
		w.t.Fatalf("marshal upgraded consensus state: %v", err)
	}
	ctx := w.B.GetContext()
	uk := w.B.GetSimApp().UpgradeKeeper
	for _, h := range heightTable {
		if err := uk.SetUpgradedClient(ctx, int64(h), clientBz); err != nil {
			w.t.Fatalf("SetUpgradedClient: %v", err)
		}
		if err := uk.SetUpgradedConsensusState(ctx, int64(h), consBz); err != nil {
			w.t.Fatalf("SetUpgradedConsensusState: %v", err)
		}
	}
	w.B.NextBlock()
	s := &snapshot{root: append([]byte{}, w.B.ProposedHeader.AppHash...), qheight: uint64(w.B.ProposedHeader.Height),
		clientBz: clientBz, consBz: consBz}
	w.snaps[key] = s
	return s
}

func (w *World) upgradeProofs(pv string, ts int64, planHeight uint64) ([]byte, []byte) {
	s := w.planSnapshot(pv, ts)
	p1, _ := w.B.QueryUpgradeProof(upgradetypes.UpgradedClientKey(int64(planHeight)), s.qheight)
	p2, _ := w.B.QueryUpgradeProof(upgradetypes.UpgradedConsStateKey(int64(planHeight)), s.qheight)
	return p1, p2
}

// ---- forged, really signed headers --------------------------------------------------------------------------

var unusedHash = tmhash.Sum([]byte("verif-unused"))

func (w *World) cmtHeader(hd *Hdr, chain string, vs, nv *cmttypes.ValidatorSet, dataHash []byte) cmttypes.Header {
	return cmttypes.Header{
		Version:            cmtprotoversion.Consensus{Block: cmtversion.BlockProtocol, App: 2},
		ChainID:            chain,
		Height:             int64(realH(hd.H[1])),
		Time:               w.tickTime(hd.Ts).UTC(),
		LastBlockID:        ibctesting.MakeBlockID(make([]byte, tmhash.Size), 10_000, make([]byte, tmhash.Size)),
		LastCommitHash:     unusedHash,
		DataHash:           dataHash,
		ValidatorsHash:     vs.Hash(),
		NextValidatorsHash: nv.Hash(),
		ConsensusHash:      unusedHash,
		AppHash:            w.rootBytes(hd.Root),
		LastResultsHash:    unusedHash,
		EvidenceHash:       unusedHash,
		ProposerAddress:    vs.Validators[0].Address,
	}
}

func has(xs []string, x string) bool {
	for _, y := range xs {
		if y == x {
			return true
		}
	}
	return false
}

// buildHeader realises an abstract header attribute record as a signed 07-tendermint Header.
func (w *World) buildHeader(hd *Hdr) *ibctm.Header {
	name := "verifchain"
	if hd.Cid != "ok" {
		name = "otherchain"
	}
	chain := chainID(name, hd.H[0])
	vs, nv := w.valset(hd.Vs), w.valset(hd.Nv)
	header := w.cmtHeader(hd, chain, vs, nv, unusedHash)
	signedFor := header
	if hd.Sig == "block" { // the commit is for another block of the same height
		signedFor = w.cmtHeader(hd, chain, vs, nv, tmhash.Sum([]byte("verif-other-block")))
	}
	blockID := ibctesting.MakeBlockID(signedFor.Hash(), 3, unusedHash)
	signChain := chain
	if hd.Sig == "chain" {
		signChain = chainID("signedforanother", hd.H[0])
	}
	commit := &cmttypes.Commit{Height: header.Height, Round: 1, BlockID: blockID}
	flipped := false
	for i, val := range vs.Validators {
		n := w.valName[val.Address.String()]
		if !has(hd.Sg, n) {
			commit.Signatures = append(commit.Signatures, cmttypes.NewCommitSigAbsent())
			continue
		}
		vote := &cmttypes.Vote{Type: cmtproto.PrecommitType, Height: header.Height, Round: 1, BlockID: blockID,
			Timestamp: header.Time, ValidatorAddress: val.Address, ValidatorIndex: int32(i)}
		sig, err := w.keys[n].Sign(cmttypes.VoteSignBytes(signChain, vote.ToProto()))
		if err != nil {
			w.t.Fatalf("sign: %v", err)
		}
		if hd.Sig == "flip" && !flipped {
			sig[len(sig)/2] ^= 0x01
			flipped = true
		}
		commit.Signatures = append(commit.Signatures, cmttypes.CommitSig{BlockIDFlag: cmttypes.BlockIDFlagCommit,
			ValidatorAddress: val.Address, Timestamp: header.Time, Signature: sig})
	}
	supplied := vs
	if !hd.Vh { // a validator set that does not hash to the header's ValidatorsHash
		names := validatorSets[hd.Vs]
		if names == nil {
			names = validatorSets["V"]
		}
		supplied = w.mkValset(names, map[string]int64{names[0]: 2})
	}
	valSetProto, err := supplied.ToProto()
	if err != nil {
		w.t.Fatalf("valset proto: %v", err)
	}
	valSetProto.TotalVotingPower = supplied.TotalVotingPower()
	tvs := w.valset(hd.Tvs)
	trustedProto, err := tvs.ToProto()
	if err != nil {
		w.t.Fatalf("valset proto: %v", err)
	}
	trustedProto.TotalVotingPower = tvs.TotalVotingPower()
	return &ibctm.Header{
		SignedHeader:      &cmtproto.SignedHeader{Header: header.ToProto(), Commit: commit.ToProto()},
		ValidatorSet:      valSetProto,
		TrustedHeight:     hd.Th.real(),
		TrustedValidators: trustedProto,
	}
}

// ---- client parameters ------------------------------------------------------------------------------------------

func upgradePath(u string) []string {
	switch u {
	case "std":
		return stdUpgradePath
	case "alt":
		return []string{"upgrade", "otherIBCState"}
	}
	return []string{}
}

func absUpgradePath(p []string) string {
	switch {
	case len(p) == 0:
		return "none"
	case len(p) == 2 && p[0] == "upgrade" && p[1] == "upgradedIBCState":
		return "std"
	case len(p) == 2 && p[0] == "upgrade" && p[1] == "otherIBCState":
		return "alt"
	}
	return "?"
}

func proofSpecs(s string) []*ics23.ProofSpec {
	if s == "alt" {
		return []*ics23.ProofSpec{ics23.IavlSpec}
	}
	return commitmenttypes.GetSDKSpecs()
}

func absProofSpecs(p []*ics23.ProofSpec) string {
	switch len(p) {
	case 2:
		return "sdk"
	case 1:
		return "alt"
	}
	return "?"
}

func (w *World) clientState(p Par, latest Height) *ibctm.ClientState {
	return ibctm.NewClientState(chainID("verifchain", p.Rev), ibctm.Fraction{Numerator: uint64(p.Lvl[0]), Denominator: uint64(p.Lvl[1])},
		time.Duration(p.Tp)*tickDur, time.Duration(p.Ubd)*tickDur, time.Duration(p.Drift)*tickDur,
		latest.real(), proofSpecs(p.Specs), upgradePath(p.Upath))
}
