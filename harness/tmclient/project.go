package tmclient

import (
	"bytes"
	"encoding/hex"
	"encoding/json"
	"sort"
	"strconv"
	"strings"

	clienttypes "github.com/cosmos/ibc-go/v11/modules/core/02-client/types"
	host "github.com/cosmos/ibc-go/v11/modules/core/24-host"
	"github.com/cosmos/ibc-go/v11/modules/core/exported"
	solomachine "github.com/cosmos/ibc-go/v11/modules/light-clients/06-solomachine"
	ibctm "github.com/cosmos/ibc-go/v11/modules/light-clients/07-tendermint"

	"verif/harness/lib"
)

func hexOf(b []byte) string { return lib.Hex(b) }

// ---- logged projection ----------------------------------------------------------------------------------

type Cons struct {
	Ts   int64  `json:"ts"`
	Root Root   `json:"root"`
	Nv   string `json:"nv"`
}

type HC struct {
	K Height `json:"k"`
	V Cons   `json:"v"`
}

type HI struct {
	K Height `json:"k"`
	V int64  `json:"v"`
}

type ClientSt struct {
	Type   string   `json:"type"`
	Cons   []HC     `json:"cons"`
	Pt     []HI     `json:"pt"`
	Ph     []HI     `json:"ph"`
	Iter   []Height `json:"iter"` // heights decoded from the iteration keys, in raw store order
	Itv    []Height `json:"itv"`  // heights of the consensus keys the iteration entries point to, same order
	Stray  []string `json:"stray"`
	Latest Height   `json:"latest"`
	Frozen bool     `json:"frozen"`
	Par    Par      `json:"par"`
	Status string   `json:"status"`
	Llat   Height   `json:"llat"`
	Nx     []HC     `json:"nx"`
	Pv     []HC     `json:"pv"`
	Dig    string   `json:"dig"`
}

type State struct {
	Now int64      `json:"now"`
	Hh  int64      `json:"hh"`
	Cl  []ClientSt `json:"cl"`
}

type TraceLine struct {
	Tr   string          `json:"tr"`
	I    int             `json:"i"`
	Ubd0 int64           `json:"ubd0"`
	A    json.RawMessage `json:"a"` // the schedule's action, verbatim
	Res  string          `json:"res"`
	Err  string          `json:"err,omitempty"` // diagnostic only, never asserted
	St   State           `json:"st"`
	Diff []string        `json:"diff"` // IBC-store namespaces whose bytes changed in this step
}

var noCons = Cons{Ts: -1, Root: Root{K: "none", V: "", Ts: 0}, Nv: "none"}

func (w *World) absCons(cs *ibctm.ConsensusState) Cons {
	out := Cons{Ts: w.absTime(cs.Timestamp)}
	if r, ok := w.roots[hexOf(cs.Root.GetHash())]; ok {
		out.Root = r
	} else {
		out.Root = Root{K: "?", V: hexOf(cs.Root.GetHash())[:8]}
	}
	if n, ok := w.nvDict[hexOf(cs.NextValidatorsHash)]; ok {
		out.Nv = n
	} else {
		out.Nv = "?"
	}
	return out
}

func parseHeightKey(s string) (clienttypes.Height, bool) {
	h, err := clienttypes.ParseHeight(s)
	if err != nil {
		return clienttypes.Height{}, false
	}
	return h, true
}

func absStatus(s exported.Status) string {
	switch s {
	case exported.Active:
		return "Active"
	case exported.Frozen:
		return "Frozen"
	case exported.Expired:
		return "Expired"
	}
	return "Unknown"
}

var probeHeights = func() []Height {
	var out []Height
	for r := int64(0); r <= 1; r++ {
		for k := int64(1); k <= 8; k++ {
			out = append(out, Height{r, k})
		}
	}
	return out
}()

// projectClient reads the whole raw client store of one client.
func (w *World) projectClient(ref clientRef) ClientSt {
	ctx := w.A.GetContext()
	ck := w.A.App.GetIBCKeeper().ClientKeeper
	cdc := w.A.App.AppCodec()
	store := ck.ClientStore(ctx, ref.id)
	st := ClientSt{Type: ref.typ, Cons: []HC{}, Pt: []HI{}, Ph: []HI{}, Iter: []Height{}, Itv: []Height{}, Stray: []string{},
		Nx: []HC{}, Pv: []HC{}, Par: Par{Lvl: [2]int64{0, 1}, Upath: "none", Specs: "none"}}
	st.Status = absStatus(ck.GetClientStatus(ctx, ref.id))
	st.Dig = lib.StoreDigest(store)
	if ref.typ == "06" {
		if cs, ok := ck.GetClientState(ctx, ref.id); ok {
			if sm, ok := cs.(*solomachine.ClientState); ok {
				st.Latest = Height{-1, int64(sm.Sequence)}
				st.Frozen = sm.IsFrozen
			}
		}
		ll := ck.GetClientLatestHeight(ctx, ref.id)
		st.Llat = Height{-1, int64(ll.RevisionHeight)}
		return st
	}

	consPrefix := string(host.KeyConsensusStatePrefix) + "/"
	it := store.Iterator(nil, nil)
	defer it.Close()
	for ; it.Valid(); it.Next() {
		k, v := it.Key(), it.Value()
		ks := string(k)
		switch {
		case bytes.Equal(k, host.ClientStateKey()):
			cs, err := clienttypes.UnmarshalClientState(cdc, v)
			if err != nil {
				st.Stray = append(st.Stray, "undecodable-client-state")
				continue
			}
			tm, ok := cs.(*ibctm.ClientState)
			if !ok {
				st.Stray = append(st.Stray, "foreign-client-state")
				continue
			}
			st.Latest = absHeight(tm.LatestHeight)
			st.Frozen = !tm.FrozenHeight.IsZero()
			rev := int64(-2)
			if strings.HasPrefix(tm.ChainId, "verifchain-") {
				rev = absHeight(clienttypes.NewHeight(clienttypes.ParseChainID(tm.ChainId), 46))[0]
			}
			st.Par = Par{Tp: absDur(tm.TrustingPeriod), Ubd: absDur(tm.UnbondingPeriod), Drift: absDur(tm.MaxClockDrift),
				Lvl: [2]int64{int64(tm.TrustLevel.Numerator), int64(tm.TrustLevel.Denominator)}, Rev: rev,
				Upath: absUpgradePath(tm.UpgradePath), Specs: absProofSpecs(tm.ProofSpecs)}
		case bytes.Equal(k, clienttypes.CreatorKey()):
			// written by 02-client at creation, not part of the light client's state
		case strings.HasPrefix(ks, ibctm.KeyIterateConsensusStatePrefix) && len(k) == len(ibctm.KeyIterateConsensusStatePrefix)+16:
			hk, _ := ibctm.GetHeightFromIterationKey(k).(clienttypes.Height)
			st.Iter = append(st.Iter, absHeight(hk))
			tgt := Height{-8, -8}
			if strings.HasPrefix(string(v), consPrefix) {
				if h, ok := parseHeightKey(string(v)[len(consPrefix):]); ok {
					tgt = absHeight(h)
				}
			}
			st.Itv = append(st.Itv, tgt)
		case strings.HasPrefix(ks, consPrefix):
			rest := ks[len(consPrefix):]
			switch {
			case strings.HasSuffix(rest, string(ibctm.KeyProcessedTime)):
				if h, ok := parseHeightKey(strings.TrimSuffix(rest, string(ibctm.KeyProcessedTime))); ok && len(v) == 8 {
					ns := int64(0)
					for _, b := range v {
						ns = ns<<8 | int64(b)
					}
					st.Pt = append(st.Pt, HI{K: absHeight(h), V: w.absTime(timeFromNs(ns))})
				} else {
					st.Stray = append(st.Stray, hex.EncodeToString(k))
				}
			case strings.HasSuffix(rest, string(ibctm.KeyProcessedHeight)):
				h, ok := parseHeightKey(strings.TrimSuffix(rest, string(ibctm.KeyProcessedHeight)))
				ph, ok2 := parseHeightKey(string(v))
				if ok && ok2 {
					st.Ph = append(st.Ph, HI{K: absHeight(h), V: int64(ph.RevisionHeight) - w.H0})
				} else {
					st.Stray = append(st.Stray, hex.EncodeToString(k))
				}
			default:
				h, ok := parseHeightKey(rest)
				csi, err := clienttypes.UnmarshalConsensusState(cdc, v)
				tmc, ok2 := csi.(*ibctm.ConsensusState)
				if ok && err == nil && ok2 {
					st.Cons = append(st.Cons, HC{K: absHeight(h), V: w.absCons(tmc)})
				} else {
					st.Stray = append(st.Stray, hex.EncodeToString(k))
				}
			}
		default:
			st.Stray = append(st.Stray, hex.EncodeToString(k))
		}
	}
	st.Llat = absHeight(ck.GetClientLatestHeight(ctx, ref.id))
	for _, p := range probeHeights {
		if cs, ok := ibctm.GetNextConsensusState(store, cdc, p.real()); ok {
			st.Nx = append(st.Nx, HC{K: p, V: w.absCons(cs)})
		} else {
			st.Nx = append(st.Nx, HC{K: p, V: noCons})
		}
		if cs, ok := ibctm.GetPreviousConsensusState(store, cdc, p.real()); ok {
			st.Pv = append(st.Pv, HC{K: p, V: w.absCons(cs)})
		} else {
			st.Pv = append(st.Pv, HC{K: p, V: noCons})
		}
	}
	return st
}

// State projects every client of the current epoch.
func (w *World) State() State {
	w.setTick(w.now)
	st := State{Now: w.now, Hh: w.A.App.LastBlockHeight() - w.H0, Cl: []ClientSt{}}
	for _, ref := range w.clients {
		st.Cl = append(st.Cl, w.projectClient(ref))
	}
	return st
}

// ---- whole IBC store diff ------------------------------------------------------------------------------------

func (w *World) dumpIBC() map[string]string {
	return lib.StoreDump(w.A.GetContext().KVStore(w.A.GetSimApp().GetKey(exported.StoreKey)))
}

// diffNamespaces classifies every IBC-store key whose value was added, changed or removed.
func (w *World) diffNamespaces(before, after map[string]string) []string {
	set := map[string]bool{}
	note := func(hk string) {
		raw, _ := hex.DecodeString(hk)
		key := string(raw)
		ns := "other:" + strconv.Quote(trunc(key, 40))
		if strings.HasPrefix(key, "clients/") {
			rest := key[len("clients/"):]
			if i := strings.Index(rest, "/"); i > 0 {
				id := rest[:i]
				ns = "foreign-client:" + id
				for n, ref := range w.clients {
					if ref.id == id {
						ns = strconv.Itoa(n + 1)
					}
				}
			}
		}
		set[ns] = true
	}
	for k, v := range after {
		if b, ok := before[k]; !ok || b != v {
			note(k)
		}
	}
	for k := range before {
		if _, ok := after[k]; !ok {
			note(k)
		}
	}
	out := make([]string, 0, len(set))
	for k := range set {
		out = append(out, k)
	}
	sort.Strings(out)
	return out
}

func trunc(s string, n int) string {
	if len(s) > n {
		return s[:n]
	}
	return s
}
