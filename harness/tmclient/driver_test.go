package tmclient

import (
	"encoding/json"
	"testing"
	"time"

	"verif/harness/lib"
)

func timeFromNs(ns int64) time.Time { return time.Unix(0, ns).UTC() }

// TestDrive executes every schedule of $VERIF_SCHED (ndjson) in its own epoch of one pair of real chains and
// writes one trace line per step to $VERIF_TRACE.  It never judges: TLC does (spec/tmclient/Trace_TMClient.tla).
func TestDrive(t *testing.T) {
	schedPath := lib.EnvStr("VERIF_SCHED", "")
	tracePath := lib.EnvStr("VERIF_TRACE", "")
	if schedPath == "" || tracePath == "" {
		t.Skip("VERIF_SCHED / VERIF_TRACE not set")
	}
	scheds, err := lib.ReadNDJSON[Schedule](schedPath)
	if err != nil {
		t.Fatal(err)
	}
	tw, err := lib.NewTraceWriter(tracePath)
	if err != nil {
		t.Fatal(err)
	}
	defer tw.Close()
	w := NewWorld(t)
	for _, s := range scheds {
		w.StartEpoch(s.Ubd0, s.Lay)
		tw.Emit(TraceLine{Tr: s.ID, I: 0, Ubd0: s.Ubd0, A: json.RawMessage(`{"a":"Init","dt":0}`), Res: "ok", St: w.State(), Diff: []string{}})
		for i, raw := range s.Acts {
			var a Action
			if err := json.Unmarshal(raw, &a); err != nil {
				t.Fatalf("schedule %s step %d: %v", s.ID, i+1, err)
			}
			before := w.dumpIBC()
			res, errStr := w.Exec(a)
			st := w.State()
			diff := w.diffNamespaces(before, w.dumpIBC())
			tw.Emit(TraceLine{Tr: s.ID, I: i + 1, Ubd0: s.Ubd0, A: raw, Res: res, Err: errStr, St: st, Diff: diff})
		}
	}
}
