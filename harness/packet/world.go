package packet

import (
	"crypto/sha256"
	"encoding/binary"
	"encoding/json"
	"fmt"
	"sort"
	"strconv"
	"strings"
	"testing"
	"time"

	storetypes "github.com/cosmos/cosmos-sdk/store/v2/types"
	sdk "github.com/cosmos/cosmos-sdk/types"
	authzkeeper "github.com/cosmos/cosmos-sdk/x/authz/keeper"

	transfertypes "github.com/cosmos/ibc-go/v11/modules/apps/transfer/types"
	clienttypes "github.com/cosmos/ibc-go/v11/modules/core/02-client/types"
	channeltypes "github.com/cosmos/ibc-go/v11/modules/core/04-channel/types"
	channeltypesv2 "github.com/cosmos/ibc-go/v11/modules/core/04-channel/v2/types"
	"github.com/cosmos/ibc-go/v11/modules/core/exported"
	ibctm "github.com/cosmos/ibc-go/v11/modules/light-clients/07-tendermint"
	ibctesting "github.com/cosmos/ibc-go/v11/testing"
	ibcmock "github.com/cosmos/ibc-go/v11/testing/mock"
	mockv2 "github.com/cosmos/ibc-go/v11/testing/mock/v2"

	"verif/harness/lib"
)

// Pkt is the abstract packet of spec/packet/IBCPacket.tla.
type Pkt struct {
	Proto string   `json:"proto"`
	Src   string   `json:"src"`
	Seq   int64    `json:"seq"`
	ToH   int64    `json:"toH"`
	ToT   int64    `json:"toT"`
	Data  []string `json:"data"`
	Route string   `json:"route"`
}

func (p Pkt) Key() string { return fmt.Sprintf("%s/%d", p.Proto, p.Seq) }

// Action is one schedule step (spec action record).
type Action struct {
	A     string   `json:"a"`
	C     string   `json:"c"`
	Dt    int64    `json:"dt"`
	P     *int64   `json:"p,omitempty"`
	ToH   *int64   `json:"toH,omitempty"`
	ToT   *int64   `json:"toT,omitempty"`
	Data  []string `json:"data,omitempty"`
	Pkt   *Pkt     `json:"pkt,omitempty"`
	Ph    *int64   `json:"ph,omitempty"`
	Ack   []string `json:"ack,omitempty"`
	Canon *bool    `json:"canon,omitempty"`
	Nsr   *int64   `json:"nsr,omitempty"`
	// Direct: call the message handler on the block context without transaction-level rollback (as a module or a
	// caller that swallows the error would): a rejected handler must itself leave no state behind.
	Direct bool `json:"direct,omitempty"`
}

type Schedule struct {
	ID   string            `json:"id"`
	Kind string            `json:"kind"`
	TP   int64             `json:"tp"`
	Ska  int64             `json:"ska"` // clock skew of chain A / B in ticks
	Skb  int64             `json:"skb"`
	Opt  string            `json:"opt,omitempty"` // "sameids": V2 path whose two clients have the same identifier
	Acts []json.RawMessage `json:"acts"`
}

type KV struct {
	K string `json:"k"`
	V any    `json:"v"`
}

type LogEv struct {
	Ev string   `json:"ev"`
	P  Pkt      `json:"p"`
	A  []string `json:"a"`
}

type Prov struct {
	Chan    string   `json:"chan"`
	Ns      int64    `json:"ns"`
	Nr      int64    `json:"nr"`
	Na      int64    `json:"na"`
	Commit  []KV     `json:"commit"`
	Receipt []string `json:"receipt"`
	Ack     []KV     `json:"ack"`
	Async   []string `json:"async"`
}

type ChainSt struct {
	H      int64   `json:"h"`
	Bt     []int64 `json:"bt"` // block time (ticks) of relative heights 0..h
	Cur    Prov    `json:"cur"`
	Cons   []int64 `json:"cons"`
	Frozen bool    `json:"frozen"`
	Status string  `json:"status"`
	Log    []LogEv `json:"log"`
	App    []AppW  `json:"app"`
	Coins  int64   `json:"coins"`
	Dig    string  `json:"dig"`
	Meta   Meta    `json:"meta"`
}

// Meta is protocol-relevant module state outside the ICS-24 packet paths (C44).
type Meta struct {
	Creator      string `json:"creator"`
	Relayers     string `json:"relayers"`
	Counterparty string `json:"counterparty"`
	Alias        string `json:"alias"`
	ConnState    string `json:"conn"`
	NextIDs      string `json:"nextids"`
	ConsMeta     string `json:"consmeta"` // digest of the light client's store (consensus states + metadata)
	Reexport     string `json:"reexport"` // "same" | "differs" | "" (only set by ExportImport steps)
}

type State struct {
	Now int64              `json:"now"`
	Ch  map[string]ChainSt `json:"ch"`
}

type TraceLine struct {
	Tr   string          `json:"tr"`
	I    int             `json:"i"`
	Kind string          `json:"kind"`
	TP   int64           `json:"tp"`
	Ska  int64           `json:"ska"`
	Skb  int64           `json:"skb"`
	A    json.RawMessage `json:"a"` // the schedule's action, verbatim
	Res  string          `json:"res"`
	Err  string          `json:"err,omitempty"` // diagnostic only, never asserted
	St   State           `json:"st"`
	Det  *Det            `json:"det,omitempty"` // C45: byte-level observations compared between two processes
}

// Det holds observations below the abstraction: application hashes, exported genesis, raw query order.
type Det struct {
	AppHash map[string]string `json:"apphash"`
	Genesis map[string]string `json:"genesis"`
	Queries map[string]string `json:"queries"`
}

const tickDur = 500 * time.Millisecond

// World is one pair of real chains set up for a path of the given kind.
type World struct {
	t     *testing.T
	kind  string
	tp    int64
	coord *ibctesting.Coordinator
	ch    map[string]*ibctesting.TestChain
	ep    map[string]*ibctesting.Endpoint
	path  *ibctesting.Path

	T0  time.Time
	now int64
	H0  map[string]int64
	bt  map[string]map[int64]int64 // real height -> tick

	headers map[string]map[int64]*ibctm.Header // archived committed headers by real height

	commitDict map[string]Pkt      // key/hash -> packet
	ackDict    map[string][]string // hash -> abstract ack
	logs       map[string][]LogEv
	pending    map[string][]LogEv
	reexport   map[string]string
	skew       map[string]int64
}

func cp(c string) string {
	if c == "A" {
		return "B"
	}
	return "A"
}

func NewWorld(t *testing.T, kind string, tp int64, opt string, ska, skb int64) *World {
	w := &World{t: t, kind: kind, tp: tp,
		ch: map[string]*ibctesting.TestChain{}, ep: map[string]*ibctesting.Endpoint{},
		H0: map[string]int64{}, bt: map[string]map[int64]int64{"A": {}, "B": {}},
		headers:    map[string]map[int64]*ibctm.Header{"A": {}, "B": {}},
		commitDict: map[string]Pkt{}, ackDict: map[string][]string{},
		logs: map[string][]LogEv{"A": {}, "B": {}}, pending: map[string][]LogEv{"A": {}, "B": {}},
		reexport: map[string]string{}, skew: map[string]int64{"A": ska, "B": skb},
	}
	// keep set-up inside a few milliseconds of chain time so that nothing expires before the run starts
	ibctesting.TimeIncrement = time.Millisecond
	w.coord = ibctesting.NewCoordinator(t, 2)
	w.ch["A"] = w.coord.GetChain(ibctesting.GetChainID(1))
	w.ch["B"] = w.coord.GetChain(ibctesting.GetChainID(2))
	// move off the whole second the framework starts at, so that every consensus state the set-up creates has a
	// timestamp strictly inside (T0-1s, T0-0.5s): "tick -1" for every comparison with integer ticks
	w.coord.IncrementTimeBy(100 * time.Millisecond)
	w.coord.CommitBlock(w.ch["A"], w.ch["B"])
	w.path = ibctesting.NewPath(w.ch["A"], w.ch["B"])
	trusting := ibctesting.TrustingPeriod
	if tp > 0 && tp < 1000000 {
		trusting = time.Duration(tp) * tickDur
	}
	for _, e := range []*ibctesting.Endpoint{w.path.EndpointA, w.path.EndpointB} {
		if cfg, ok := e.ClientConfig.(*ibctesting.TendermintConfig); ok {
			cfg.TrustingPeriod = trusting
		}
	}
	// the two channel ends are bound to DIFFERENT port ids (both routed to the mock module by the port router's
	// prefix matching), and ibctesting already gives them different channel ids: a handler that mixes up source and
	// destination identifiers cannot go unnoticed
	w.path.EndpointB.ChannelConfig.PortID = "mockx"
	// channel identifiers: different on the two ends, and the same in every process that executes this schedule
	// (ibctesting's own uniqueness counter is process-global, which would make runs depend on what ran before)
	w.path.DisableUniqueChannelIDs()
	setupChannel := func() {
		w.path.SetupConnections()
		w.ch["A"].App.GetIBCKeeper().ChannelKeeper.SetNextChannelSequence(w.ch["A"].GetContext(), 1)
		w.ch["B"].App.GetIBCKeeper().ChannelKeeper.SetNextChannelSequence(w.ch["B"].GetContext(), 2)
		w.path.CreateChannels()
	}
	switch kind {
	case "UNORDERED":
		setupChannel()
	case "ORDERED":
		w.path.SetChannelOrdered()
		setupChannel()
	case "V2":
		if opt != "sameids" {
			// give the two light clients different identifiers (chain-local ids need not differ, but a pair
			// with equal ids is a separate, recorded case: KF-C44-2)
			dummy := ibctesting.NewPath(w.ch["A"], w.ch["B"])
			if err := dummy.EndpointB.CreateClient(); err != nil {
				t.Fatal(err)
			}
		}
		w.path.SetupV2()
	default:
		t.Fatalf("unknown kind %s", kind)
	}
	w.ep["A"], w.ep["B"] = w.path.EndpointA, w.path.EndpointB
	w.installApps()
	for _, a := range [][]string{{"ok"}, {"err"}} {
		w.registerAck("v1", a)
	}
	w.registerAck("v2", []string{"SENTINEL"})
	oks := []string{"ok", "ok1", "ok2"}
	for _, a := range oks {
		w.registerAck("v2", []string{a})
		for _, b := range oks {
			w.registerAck("v2", []string{a, b})
			for _, c := range oks {
				w.registerAck("v2", []string{a, b, c})
			}
		}
	}

	// final synchronisation: relative height 0 at tick 1, clients updated to it at tick 2
	// tick 0 = the next whole second: every set-up block lies in (T0-1s, T0-0.5s], i.e. "tick -1" for integer
	// comparisons (ibctesting starts at a whole second and set-up advances 1 ms per block)
	w.T0 = w.coord.CurrentTime.Truncate(time.Second).Add(time.Second)
	if w.coord.CurrentTime.Sub(w.coord.CurrentTime.Truncate(time.Second)) >= 500*time.Millisecond {
		t.Fatalf("set-up took too many blocks for the time model")
	}
	for _, c := range []string{"A", "B"} {
		w.setTick(c, 1)
		w.ch[c].NextBlock()
		w.archive(c)
		w.H0[c] = int64(w.ch[c].LatestCommittedHeader.GetHeight().GetRevisionHeight())
		w.bt[c][w.H0[c]] = 1 + w.skew[c]
	}
	for _, c := range []string{"A", "B"} {
		w.setTick(c, 2)
		res, errStr := w.updateClient(c, 0)
		if res != "ok" {
			t.Fatalf("initial client sync failed on %s: %s", c, errStr)
		}
		w.afterBlock(c, 2+w.skew[c])
	}
	w.now = 2
	w.syncClocks()
	return w
}

func (w *World) tickTime(k int64) time.Time { return w.T0.Add(time.Duration(k) * tickDur) }

// setTick sets the clock for the next block of chain c to global tick k (+ the chain's skew).
func (w *World) setTick(c string, k int64) {
	w.coord.CurrentTime = w.tickTime(k + w.skew[c]).UTC()
	w.ch[c].ProposedHeader.Time = w.coord.CurrentTime
}

// syncClocks gives every chain's pending header its own local time for the current global tick (read paths such
// as Status() evaluate expiry at that time).
func (w *World) syncClocks() {
	for _, c := range []string{"A", "B"} {
		w.ch[c].ProposedHeader.Time = w.tickTime(w.now + w.skew[c]).UTC()
	}
}

// archive stores the header of the block just committed on c together with its tick.
func (w *World) archive(c string) {
	h := w.ch[c].LatestCommittedHeader
	cpy := *h
	real := int64(h.GetHeight().GetRevisionHeight())
	w.headers[c][real] = &cpy
}

func (w *World) rel(c string, real uint64) int64 { return int64(real) - w.H0[c] }
func (w *World) real(c string, rel int64) uint64 {
	v := w.H0[c] + rel
	if v < 0 {
		return 0
	}
	return uint64(v)
}

func (w *World) height(c string) int64 { return w.rel(c, uint64(w.ch[c].App.LastBlockHeight())) }

// afterBlock must be called after every committed block on c at tick k.
func (w *World) afterBlock(c string, k int64) {
	w.archive(c)
	w.bt[c][w.ch[c].App.LastBlockHeight()] = k
}

func (w *World) clientID(c string) string { return w.ep[c].ClientID }

// pathID is the identifier under which v2 packet state is keyed on chain c.
func (w *World) pathID(c string) string {
	if w.kind == "V2" {
		return w.ep[c].ClientID
	}
	return w.ep[c].ChannelID
}

func revision(chain *ibctesting.TestChain) uint64 { return clienttypes.ParseChainID(chain.ChainID) }

// ---- concrete values for abstract packets --------------------------------------------------

func v1Data(d string) []byte {
	switch d {
	case "ok":
		return ibcmock.MockPacketData
	case "async":
		return ibcmock.MockAsyncPacketData
	case "fail":
		return ibcmock.MockFailPacketData
	}
	return []byte("verif-other-" + d)
}

func v2Payload(d string) channeltypesv2.Payload {
	switch d {
	case "ok":
		return mockv2.NewMockPayload(mockv2.ModuleNameA, mockv2.ModuleNameB)
	case "async":
		return mockv2.NewAsyncMockPayload(mockv2.ModuleNameA, mockv2.ModuleNameB)
	case "fail":
		return mockv2.NewErrorMockPayload(mockv2.ModuleNameA, mockv2.ModuleNameB)
	}
	p := mockv2.NewMockPayload(mockv2.ModuleNameA, mockv2.ModuleNameB)
	p.Value = []byte("verif-other-" + d)
	return p
}

func (w *World) v1TimeoutHeight(dst string, toH int64) clienttypes.Height {
	if toH == 0 {
		return clienttypes.ZeroHeight()
	}
	return clienttypes.NewHeight(revision(w.ch[dst]), w.real(dst, toH))
}

func (w *World) v1TimeoutTs(toT int64) uint64 {
	if toT == 0 {
		return 0
	}
	return uint64(w.tickTime(toT).UnixNano())
}

func (w *World) v2TimeoutSec(toT int64) uint64 { return uint64(w.T0.Unix() + toT) }

func (w *World) realV1(p Pkt) channeltypes.Packet {
	src, dst := p.Src, cp(p.Src)
	sp, sc := w.ep[src].ChannelConfig.PortID, w.ep[src].ChannelID
	dp, dc := w.ep[dst].ChannelConfig.PortID, w.ep[dst].ChannelID
	if p.Route != "ok" {
		sc, dc = "channel-77", "channel-78"
	}
	data := []byte("verif-multi")
	if len(p.Data) == 1 {
		data = v1Data(p.Data[0])
	}
	return channeltypes.NewPacket(data, uint64(p.Seq), sp, sc, dp, dc, w.v1TimeoutHeight(dst, p.ToH), w.v1TimeoutTs(p.ToT))
}

func (w *World) realV2(p Pkt) channeltypesv2.Packet {
	src, dst := p.Src, cp(p.Src)
	sid, did := w.pathID(src), w.pathID(dst)
	if p.Route != "ok" {
		sid, did = "channel-77", "channel-78"
	}
	pls := make([]channeltypesv2.Payload, 0, len(p.Data))
	for _, d := range p.Data {
		pls = append(pls, v2Payload(d))
	}
	return channeltypesv2.NewPacket(uint64(p.Seq), sid, did, w.v2TimeoutSec(p.ToT), pls...)
}

// ---- independent evaluation of the commitment terms of spec/func/Commitments.tla ------------

func be64(v uint64) []byte {
	var b [8]byte
	binary.BigEndian.PutUint64(b[:], v)
	return b[:]
}

func sh(b ...[]byte) []byte {
	h := sha256.New()
	for _, x := range b {
		h.Write(x)
	}
	return h.Sum(nil)
}

func commitV1(p channeltypes.Packet) []byte {
	return sh(be64(p.TimeoutTimestamp), be64(p.TimeoutHeight.RevisionNumber), be64(p.TimeoutHeight.RevisionHeight), sh(p.Data))
}

func commitV2(p channeltypesv2.Packet) []byte {
	var app []byte
	for _, pl := range p.Payloads {
		app = append(app, sh(sh([]byte(pl.SourcePort)), sh([]byte(pl.DestinationPort)), sh([]byte(pl.Version)), sh([]byte(pl.Encoding)), sh(pl.Value))...)
	}
	return sh([]byte{2}, sh([]byte(p.DestinationClient)), sh(be64(p.TimeoutTimestamp)), sh(app))
}

func commitAckV2(acks [][]byte) []byte {
	var buf []byte
	for _, a := range acks {
		buf = append(buf, sh(a)...)
	}
	return sh([]byte{2}, buf)
}

// register remembers the commitment of an abstract packet so that stored hashes can be projected back.
func (w *World) register(p Pkt) {
	q := p
	q.Route = "ok"
	var h []byte
	if q.Proto == "v1" {
		h = commitV1(w.realV1(q))
	} else {
		h = commitV2(w.realV2(q))
	}
	w.commitDict[q.Src+"/"+q.Key()+"/"+lib.Hex(h)] = q
}

func v1AckBytes(a []string, canon bool) []byte {
	var bz []byte
	switch {
	case len(a) == 1 && a[0] == "ok":
		bz = ibcmock.MockAcknowledgement.Acknowledgement()
	case len(a) == 1 && a[0] == "err":
		bz = ibcmock.MockFailAcknowledgement.Acknowledgement()
	case len(a) == 1 && a[0] == "hashok":
		return sh(ibcmock.MockAcknowledgement.Acknowledgement())
	case len(a) == 1 && a[0] == "hasherr":
		return sh(ibcmock.MockFailAcknowledgement.Acknowledgement())
	default:
		bz = channeltypes.NewResultAcknowledgement([]byte(fmt.Sprint("verif-ack-", a))).Acknowledgement()
	}
	if !canon {
		// same JSON value, different bytes
		bz = append([]byte(" "), bz...)
	}
	return bz
}

func ackOfPayload(d string) string {
	if d == "ok1" || d == "ok2" {
		return d
	}
	return "ok"
}

func v2AppAck(a string) []byte {
	switch a {
	case "ok1":
		return []byte("mock acknowledgement one")
	case "ok2":
		return []byte("mock acknowledgement two")
	case "ok":
		return mockv2.MockRecvPacketResult.Acknowledgement
	case "SENTINEL":
		return channeltypesv2.ErrorAcknowledgement[:]
	}
	return []byte("verif-ack-" + a)
}

func v2Ack(a []string) channeltypesv2.Acknowledgement {
	out := make([][]byte, 0, len(a))
	for _, x := range a {
		out = append(out, v2AppAck(x))
	}
	return channeltypesv2.Acknowledgement{AppAcknowledgements: out}
}

func (w *World) registerAck(proto string, a []string) {
	if proto == "v1" {
		w.ackDict["v1/"+lib.Hex(sh(v1AckBytes(a, true)))] = a
		return
	}
	w.ackDict["v2/"+lib.Hex(commitAckV2(v2Ack(a).AppAcknowledgements))] = a
}

// ---- application callbacks --------------------------------------------------------------------

func (w *World) chainOf(ctx sdk.Context) string {
	if ctx.ChainID() == w.ch["A"].ChainID {
		return "A"
	}
	return "B"
}

func (w *World) note(ctx sdk.Context, ev string, p Pkt, a []string) {
	if ctx.ExecMode() != sdk.ExecModeFinalize {
		return
	}
	c := w.chainOf(ctx)
	if a == nil {
		a = []string{}
	}
	w.pending[c] = append(w.pending[c], LogEv{Ev: ev, P: p, A: a})
}

// absV1 maps a real v1 packet seen by an application callback back to the abstract packet.
// absData maps packet data / payload value bytes back to the abstract behaviour name.
func absData(bz []byte) string {
	switch string(bz) {
	case string(ibcmock.MockPacketData):
		return "ok"
	case string(ibcmock.MockFailPacketData):
		return "fail"
	case string(ibcmock.MockAsyncPacketData):
		return "async"
	}
	if s := string(bz); strings.HasPrefix(s, "verif-other-") {
		return strings.TrimPrefix(s, "verif-other-")
	}
	return "other"
}

func outcomeOf(d string) string {
	switch d {
	case "ok", "ok1", "ok2", "oksent":
		return "ok"
	case "async", "async1", "async2":
		return "async"
	}
	return "fail"
}

func writesOf(d string) int {
	switch d {
	case "ok1", "fail1", "async1":
		return 1
	case "ok2", "fail2", "async2":
		return 2
	case "fail3":
		return 3
	}
	return 0
}

const appPrefix = "verif/app/"

var appAddr = sdk.AccAddress([]byte("verif-app-account---"))

// appWrite performs the application's state writes for payload i of the packet with the given key: a raw store
// write for every w and additionally a bank mint+send for even w.
func (w *World) appWrite(ctx sdk.Context, key string, i int, d string) {
	app := w.ch[w.chainOf(ctx)].GetSimApp()
	store := ctx.KVStore(app.GetKey(authzkeeper.StoreKey))
	for n := 1; n <= writesOf(d); n++ {
		store.Set([]byte(fmt.Sprintf("%s%s#%d#%d", appPrefix, key, i, n)), []byte{1})
		if n%2 == 0 {
			coins := sdk.NewCoins(sdk.NewInt64Coin("verifcoin", 1))
			if err := app.BankKeeper.MintCoins(ctx, transfertypes.ModuleName, coins); err != nil {
				panic(err)
			}
			if err := app.BankKeeper.SendCoinsFromModuleToAccount(ctx, transfertypes.ModuleName, appAddr, coins); err != nil {
				panic(err)
			}
		}
	}
}

type AppW struct {
	K string `json:"k"`
	I int    `json:"i"`
	W int    `json:"w"`
}

func (w *World) appState(c string) ([]AppW, int64) {
	app := w.ch[c].GetSimApp()
	ctx := w.ch[c].GetContext()
	store := ctx.KVStore(app.GetKey(authzkeeper.StoreKey))
	it := storetypes.KVStorePrefixIterator(store, []byte(appPrefix))
	defer it.Close()
	out := []AppW{}
	for ; it.Valid(); it.Next() {
		parts := strings.Split(strings.TrimPrefix(string(it.Key()), appPrefix), "#")
		if len(parts) != 3 {
			continue
		}
		i, _ := strconv.Atoi(parts[1])
		n, _ := strconv.Atoi(parts[2])
		out = append(out, AppW{K: parts[0], I: i, W: n})
	}
	return out, app.BankKeeper.GetBalance(ctx, appAddr, "verifcoin").Amount.Int64()
}

func (w *World) absV1(p channeltypes.Packet, src string) Pkt {
	d := absData(p.Data)
	toH := int64(0)
	if !p.TimeoutHeight.IsZero() {
		toH = w.rel(cp(src), p.TimeoutHeight.RevisionHeight)
	}
	toT := int64(0)
	if p.TimeoutTimestamp != 0 {
		toT = (int64(p.TimeoutTimestamp) - w.T0.UnixNano()) / int64(tickDur)
	}
	route := "ok"
	if p.SourceChannel != w.ep[src].ChannelID || p.DestinationChannel != w.ep[cp(src)].ChannelID {
		route = "bad"
	}
	return Pkt{Proto: "v1", Src: src, Seq: int64(p.Sequence), ToH: toH, ToT: toT, Data: []string{d}, Route: route}
}

func absV2Data(pl channeltypesv2.Payload) string { return absData(pl.Value) }

// v2 callbacks are per payload: the harness records one event per packet, at its first payload,
// and keeps the per-payload arguments for the acknowledgement.
type v2Call struct {
	src, dst string
	seq      uint64
}

func (w *World) installApps() {
	for _, c := range []string{"A", "B"} {
		app := w.ch[c].GetSimApp()
		m := app.IBCMockModule.IBCApp
		m.OnRecvPacket = func(ctx sdk.Context, _ string, p channeltypes.Packet, _ sdk.AccAddress) exported.Acknowledgement {
			me := w.chainOf(ctx)
			ap := w.absV1(p, cp(me))
			w.note(ctx, "recv", ap, nil)
			w.appWrite(ctx, ap.Key(), 1, ap.Data[0])
			switch outcomeOf(ap.Data[0]) {
			case "ok":
				return ibcmock.MockAcknowledgement
			case "async":
				return nil
			}
			return ibcmock.MockFailAcknowledgement
		}
		m.OnAcknowledgementPacket = func(ctx sdk.Context, _ string, p channeltypes.Packet, ack []byte, _ sdk.AccAddress) error {
			me := w.chainOf(ctx)
			a, ok := w.ackDict["v1/"+lib.Hex(sh(ack))]
			if !ok {
				a = []string{"?"}
			}
			w.note(ctx, "ack", w.absV1(p, me), a)
			return nil
		}
		m.OnTimeoutPacket = func(ctx sdk.Context, _ string, p channeltypes.Packet, _ sdk.AccAddress) error {
			w.note(ctx, "timeout", w.absV1(p, w.chainOf(ctx)), nil)
			return nil
		}
		for _, mv2 := range []*mockv2.IBCApp{app.MockModuleV2A.IBCApp, app.MockModuleV2B.IBCApp} {
			mv2.OnRecvPacket = func(ctx sdk.Context, srcID, dstID string, seq uint64, pl channeltypesv2.Payload, _ sdk.AccAddress) channeltypesv2.RecvPacketResult {
				idx := w.noteV2(ctx, "recv", srcID, dstID, seq, pl, nil)
				w.appWrite(ctx, fmt.Sprintf("v2/%d", seq), idx, absV2Data(pl))
				switch outcomeOf(absV2Data(pl)) {
				case "ok":
					if absV2Data(pl) == "oksent" {
						return channeltypesv2.RecvPacketResult{Status: channeltypesv2.PacketStatus_Success, Acknowledgement: channeltypesv2.ErrorAcknowledgement[:]}
					}
					return channeltypesv2.RecvPacketResult{Status: channeltypesv2.PacketStatus_Success, Acknowledgement: v2AppAck(ackOfPayload(absV2Data(pl)))}
				case "async":
					return channeltypesv2.RecvPacketResult{Status: channeltypesv2.PacketStatus_Async}
				}
				return channeltypesv2.RecvPacketResult{Status: channeltypesv2.PacketStatus_Failure}
			}
			mv2.OnAcknowledgementPacket = func(ctx sdk.Context, srcID, dstID string, seq uint64, pl channeltypesv2.Payload, ack []byte, _ sdk.AccAddress) error {
				w.noteV2(ctx, "ack", srcID, dstID, seq, pl, ack)
				return nil
			}
			mv2.OnTimeoutPacket = func(ctx sdk.Context, srcID, dstID string, seq uint64, pl channeltypesv2.Payload, _ sdk.AccAddress) error {
				w.noteV2(ctx, "timeout", srcID, dstID, seq, pl, nil)
				return nil
			}
		}
	}
}

// noteV2 accumulates per-payload callbacks of one packet into a single pending event whose
// data / ack lists grow in callback order.
func (w *World) noteV2(ctx sdk.Context, ev, srcID, dstID string, seq uint64, pl channeltypesv2.Payload, ack []byte) int {
	if ctx.ExecMode() != sdk.ExecModeFinalize {
		return 1
	}
	me := w.chainOf(ctx)
	src := me
	if ev == "recv" {
		src = cp(me)
	}
	route := "ok"
	if srcID != w.pathID(src) || dstID != w.pathID(cp(src)) {
		route = "bad"
	}
	var a string
	if ack != nil {
		switch string(ack) {
		case string(v2AppAck("ok1")):
			a = "ok1"
		case string(v2AppAck("ok2")):
			a = "ok2"
		case string(mockv2.MockRecvPacketResult.Acknowledgement):
			a = "ok"
		case string(channeltypesv2.ErrorAcknowledgement[:]):
			a = "SENTINEL"
		default:
			a = "?"
			if rest, ok := strings.CutPrefix(string(ack), "verif-ack-"); ok {
				a = rest // an application acknowledgement written by the harness's own WriteAck action
			}
		}
	}
	pend := w.pending[me]
	if n := len(pend); n > 0 && pend[n-1].Ev == ev && pend[n-1].P.Proto == "v2" && pend[n-1].P.Seq == int64(seq) && pend[n-1].P.Route == route && pend[n-1].P.ToT == -1 {
		pend[n-1].P.Data = append(pend[n-1].P.Data, absV2Data(pl))
		if ack != nil {
			pend[n-1].A = append(pend[n-1].A, a)
		}
		return len(pend[n-1].P.Data)
	}
	e := LogEv{Ev: ev, P: Pkt{Proto: "v2", Src: src, Seq: int64(seq), ToH: 0, ToT: -1, Data: []string{absV2Data(pl)}, Route: route}, A: []string{}}
	if ack != nil {
		e.A = []string{a}
	}
	w.pending[me] = append(pend, e)
	return 1
}

// flush moves the callbacks of the transaction just executed on c into the log (committed = true)
// or drops them. full is the abstract packet of the message (v2 callbacks do not see the timeout, and a
// receive that stops at a failing payload sees only a prefix of the payloads).
func (w *World) flush(c string, committed bool, full *Pkt) {
	if committed {
		for _, e := range w.pending[c] {
			if e.P.Proto == "v2" && e.P.ToT == -1 {
				if full != nil && full.Proto == "v2" && full.Seq == e.P.Seq && isPrefix(e.P.Data, full.Data) {
					e.P.ToT = full.ToT
					e.P.Data = append([]string{}, full.Data...)
				} else {
					e.P.ToT = -2
				}
			}
			w.logs[c] = append(w.logs[c], e)
		}
	}
	w.pending[c] = w.pending[c][:0]
}

func isPrefix(a, b []string) bool {
	if len(a) > len(b) {
		return false
	}
	for i := range a {
		if a[i] != b[i] {
			return false
		}
	}
	return true
}

func sortInt64(x []int64) { sort.Slice(x, func(i, j int) bool { return x[i] < x[j] }) }
