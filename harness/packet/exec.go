package packet

import (
	"fmt"
	"strings"

	"github.com/cosmos/gogoproto/proto"

	sdk "github.com/cosmos/cosmos-sdk/types"

	abci "github.com/cometbft/cometbft/abci/types"

	clienttypes "github.com/cosmos/ibc-go/v11/modules/core/02-client/types"
	channeltypes "github.com/cosmos/ibc-go/v11/modules/core/04-channel/types"
	channeltypesv2 "github.com/cosmos/ibc-go/v11/modules/core/04-channel/v2/types"
	host "github.com/cosmos/ibc-go/v11/modules/core/24-host"
	hostv2 "github.com/cosmos/ibc-go/v11/modules/core/24-host/v2"
	"github.com/cosmos/ibc-go/v11/modules/core/exported"
	ibctm "github.com/cosmos/ibc-go/v11/modules/light-clients/07-tendermint"
	ibcmock "github.com/cosmos/ibc-go/v11/testing/mock"

	"verif/harness/lib"
)

// result classes: ok | noop | err | panic
func classify(res *abci.ExecTxResult, err error) (string, string) {
	if err != nil {
		return "err", err.Error()
	}
	if res == nil {
		return "err", "nil result"
	}
	// a successful relay message may still report NOOP in its response
	var msgData sdk.TxMsgData
	if e := proto.Unmarshal(res.Data, &msgData); e == nil {
		for _, r := range msgData.MsgResponses {
			switch {
			case strings.HasSuffix(r.TypeUrl, "ibc.core.channel.v1.MsgRecvPacketResponse"):
				var x channeltypes.MsgRecvPacketResponse
				if proto.Unmarshal(r.Value, &x) == nil && x.Result == channeltypes.NOOP {
					return "noop", ""
				}
			case strings.HasSuffix(r.TypeUrl, "ibc.core.channel.v1.MsgAcknowledgementResponse"):
				var x channeltypes.MsgAcknowledgementResponse
				if proto.Unmarshal(r.Value, &x) == nil && x.Result == channeltypes.NOOP {
					return "noop", ""
				}
			case strings.HasSuffix(r.TypeUrl, "ibc.core.channel.v1.MsgTimeoutResponse"):
				var x channeltypes.MsgTimeoutResponse
				if proto.Unmarshal(r.Value, &x) == nil && x.Result == channeltypes.NOOP {
					return "noop", ""
				}
			case strings.HasSuffix(r.TypeUrl, "ibc.core.channel.v1.MsgTimeoutOnCloseResponse"):
				var x channeltypes.MsgTimeoutOnCloseResponse
				if proto.Unmarshal(r.Value, &x) == nil && x.Result == channeltypes.NOOP {
					return "noop", ""
				}
			case strings.HasSuffix(r.TypeUrl, "ibc.core.channel.v2.MsgRecvPacketResponse"):
				var x channeltypesv2.MsgRecvPacketResponse
				if proto.Unmarshal(r.Value, &x) == nil && x.Result == channeltypesv2.NOOP {
					return "noop", ""
				}
			case strings.HasSuffix(r.TypeUrl, "ibc.core.channel.v2.MsgAcknowledgementResponse"):
				var x channeltypesv2.MsgAcknowledgementResponse
				if proto.Unmarshal(r.Value, &x) == nil && x.Result == channeltypesv2.NOOP {
					return "noop", ""
				}
			case strings.HasSuffix(r.TypeUrl, "ibc.core.channel.v2.MsgTimeoutResponse"):
				var x channeltypesv2.MsgTimeoutResponse
				if proto.Unmarshal(r.Value, &x) == nil && x.Result == channeltypesv2.NOOP {
					return "noop", ""
				}
			}
		}
	}
	return "ok", ""
}

// sendTx delivers msgs in one transaction = one block on chain c at the current tick.
func (w *World) sendTx(c string, msgs ...sdk.Msg) (res string, errStr string) {
	defer func() {
		if r := recover(); r != nil {
			res, errStr = "panic", fmt.Sprint(r)
		}
	}()
	r, err := w.ch[c].SendMsgs(msgs...)
	w.resyncSequence(c)
	return classify(r, err)
}

// resyncSequence re-reads the relayer account's sequence from chain state: ibctesting bumps its local copy
// even when the transaction is rejected in the ante handler (where the chain does not).
func (w *World) resyncSequence(c string) {
	chain := w.ch[c]
	acc := chain.GetSimApp().AccountKeeper.GetAccount(chain.GetContext(), chain.SenderAccount.GetAddress())
	if acc != nil {
		_ = chain.SenderAccount.SetSequence(acc.GetSequence())
	}
}

func (w *World) signer(c string) string { return w.ch[c].SenderAccount.GetAddress().String() }

// consReal returns the real consensus heights held by c's light client (ascending).
func (w *World) consReal(c string) []uint64 {
	store := w.ch[c].App.GetIBCKeeper().ClientKeeper.ClientStore(w.ch[c].GetContext(), w.clientID(c))
	var out []uint64
	ibctm.IterateConsensusStateAscending(store, func(h exported.Height) bool {
		out = append(out, h.GetRevisionHeight())
		return false
	})
	return out
}

// proofAt queries a real ICS-23 proof of key on chain c at relative proof height ph.  When the height does
// not exist (adversarial claim) the proof at the latest height is used with the claimed height.
func (w *World) proofAt(c string, key []byte, ph int64) ([]byte, clienttypes.Height) {
	claimed := clienttypes.NewHeight(revision(w.ch[c]), w.real(c, ph))
	q := int64(w.real(c, ph))
	last := w.ch[c].App.LastBlockHeight()
	if q > last || q < 2 {
		q = last
	}
	proof, _ := w.ch[c].QueryProofAtHeight(key, q)
	return proof, claimed
}

func i64(p *int64) int64 {
	if p == nil {
		return 0
	}
	return *p
}

// Exec executes one abstract action against the real chains and returns its result class.
func (w *World) Exec(a Action) (res string, errStr string) {
	c := a.C
	chain := w.ch[c]
	w.now += a.Dt
	w.setTick(c, w.now)
	var full *Pkt
	if a.Pkt != nil {
		full = a.Pkt
		w.register(*a.Pkt)
	}
	if a.Ack != nil && a.Pkt != nil {
		w.registerAck(a.Pkt.Proto, a.Ack)
	}
	delete(w.reexport, c)
	defer func() {
		w.afterBlock(c, w.now+w.skew[c])
		w.flush(c, res == "ok", full)
		w.syncClocks()
	}()

	switch a.A {
	case "Block":
		chain.NextBlock()
		return "ok", ""

	case "Update":
		return w.updateClient(c, i64(a.P))

	case "Freeze":
		return w.freeze(c)

	case "SendV1":
		ctx := chain.GetContext()
		dst := cp(c)
		seq, err := chain.App.GetIBCKeeper().ChannelKeeper.SendPacket(ctx, w.ep[c].ChannelConfig.PortID, w.ep[c].ChannelID,
			w.v1TimeoutHeight(dst, i64(a.ToH)), w.v1TimeoutTs(i64(a.ToT)), v1Data(a.Data[0]))
		chain.NextBlock()
		if err != nil {
			return "err", err.Error()
		}
		w.register(Pkt{Proto: "v1", Src: c, Seq: int64(seq), ToH: i64(a.ToH), ToT: i64(a.ToT), Data: a.Data, Route: "ok"})
		return "ok", ""

	case "SendV2":
		pls := make([]channeltypesv2.Payload, 0, len(a.Data))
		for _, d := range a.Data {
			pls = append(pls, v2Payload(d))
		}
		msg := channeltypesv2.NewMsgSendPacket(w.pathID(c), w.v2TimeoutSec(i64(a.ToT)), w.signer(c), pls...)
		// sequence the packet will get if the send succeeds
		var ns uint64
		if w.kind == "V2" {
			ns, _ = chain.App.GetIBCKeeper().ChannelKeeperV2.GetNextSequenceSend(chain.GetContext(), w.pathID(c))
		} else {
			ns, _ = chain.App.GetIBCKeeper().ChannelKeeper.GetNextSequenceSend(chain.GetContext(), w.ep[c].ChannelConfig.PortID, w.ep[c].ChannelID)
		}
		w.register(Pkt{Proto: "v2", Src: c, Seq: int64(ns), ToH: 0, ToT: i64(a.ToT), Data: a.Data, Route: "ok"})
		if a.Direct {
			var err error
			func() {
				defer func() {
					if r := recover(); r != nil {
						err = fmt.Errorf("panic: %v", r)
					}
				}()
				if err = msg.ValidateBasic(); err == nil {
					_, err = chain.App.GetIBCKeeper().ChannelKeeperV2.SendPacket(chain.GetContext(), msg)
				}
			}()
			chain.NextBlock()
			if err != nil {
				return "err", err.Error()
			}
			return "ok", ""
		}
		return w.sendTx(c, msg)

	case "RecvV1":
		p := w.realV1(*a.Pkt)
		key := host.PacketCommitmentKey(p.SourcePort, p.SourceChannel, p.Sequence)
		proof, ph := w.proofAt(cp(c), key, i64(a.Ph))
		return w.sendTx(c, channeltypes.NewMsgRecvPacket(p, proof, ph, w.signer(c)))

	case "RecvV2":
		p := w.realV2(*a.Pkt)
		key := hostv2.PacketCommitmentKey(p.SourceClient, p.Sequence)
		proof, ph := w.proofAt(cp(c), key, i64(a.Ph))
		return w.sendTx(c, channeltypesv2.NewMsgRecvPacket(p, proof, ph, w.signer(c)))

	case "AckV1":
		p := w.realV1(*a.Pkt)
		key := host.PacketAcknowledgementKey(p.DestinationPort, p.DestinationChannel, p.Sequence)
		proof, ph := w.proofAt(cp(c), key, i64(a.Ph))
		canon := a.Canon == nil || *a.Canon
		return w.sendTx(c, channeltypes.NewMsgAcknowledgement(p, v1AckBytes(a.Ack, canon), proof, ph, w.signer(c)))

	case "AckV2":
		p := w.realV2(*a.Pkt)
		key := hostv2.PacketAcknowledgementKey(p.DestinationClient, p.Sequence)
		proof, ph := w.proofAt(cp(c), key, i64(a.Ph))
		return w.sendTx(c, channeltypesv2.NewMsgAcknowledgement(p, v2Ack(a.Ack), proof, ph, w.signer(c)))

	case "TimeoutV1", "TimeoutOnClose":
		p := w.realV1(*a.Pkt)
		var key []byte
		if w.kind == "ORDERED" {
			key = host.NextSequenceRecvKey(p.DestinationPort, p.DestinationChannel)
		} else {
			key = host.PacketReceiptKey(p.DestinationPort, p.DestinationChannel, p.Sequence)
		}
		proof, ph := w.proofAt(cp(c), key, i64(a.Ph))
		nsr := uint64(i64(a.Nsr))
		if a.A == "TimeoutV1" {
			return w.sendTx(c, channeltypes.NewMsgTimeout(p, nsr, proof, ph, w.signer(c)))
		}
		closedProof, _ := w.proofAt(cp(c), host.ChannelKey(p.DestinationPort, p.DestinationChannel), i64(a.Ph))
		return w.sendTx(c, channeltypes.NewMsgTimeoutOnClose(p, nsr, proof, closedProof, ph, w.signer(c)))

	case "TimeoutV2":
		p := w.realV2(*a.Pkt)
		key := hostv2.PacketReceiptKey(p.DestinationClient, p.Sequence)
		proof, ph := w.proofAt(cp(c), key, i64(a.Ph))
		return w.sendTx(c, channeltypesv2.NewMsgTimeout(p, proof, ph, w.signer(c)))

	case "ExportImport":
		return w.exportImport(c)

	case "CloseInit":
		return w.sendTx(c, channeltypes.NewMsgChannelCloseInit(w.ep[c].ChannelConfig.PortID, w.ep[c].ChannelID, w.signer(c)))

	case "CloseConfirm":
		key := host.ChannelKey(w.ep[cp(c)].ChannelConfig.PortID, w.ep[cp(c)].ChannelID)
		proof, ph := w.proofAt(cp(c), key, i64(a.Ph))
		return w.sendTx(c, channeltypes.NewMsgChannelCloseConfirm(w.ep[c].ChannelConfig.PortID, w.ep[c].ChannelID, proof, ph, w.signer(c)))

	case "WriteAckV1":
		// the application writes an acknowledgement outside the receive transaction
		p := w.realV1(*a.Pkt)
		ctx := chain.GetContext()
		var ack channeltypes.Acknowledgement
		switch {
		case len(a.Ack) == 1 && a.Ack[0] == "ok":
			ack = channeltypes.NewResultAcknowledgement([]byte("mock acknowledgement"))
		case len(a.Ack) == 1 && a.Ack[0] == "err":
			ack = ibcmock.MockFailAcknowledgement
		default:
			ack = channeltypes.NewResultAcknowledgement([]byte(fmt.Sprint("verif-ack-", a.Ack)))
		}
		// what the application writes here is, abstractly, a.Ack
		w.ackDict["v1/"+lib.Hex(sh(ack.Acknowledgement()))] = a.Ack
		cacheCtx, write := ctx.CacheContext()
		err := chain.App.GetIBCKeeper().ChannelKeeper.WriteAcknowledgement(cacheCtx, p, ack)
		if err == nil {
			write()
		}
		chain.NextBlock()
		if err != nil {
			return "err", err.Error()
		}
		return "ok", ""

	case "WriteAckV2":
		p := w.realV2(*a.Pkt)
		ctx := chain.GetContext()
		var err error
		if a.Direct {
			// as an application writing from its own block logic: no rollback around the call
			err = chain.App.GetIBCKeeper().ChannelKeeperV2.WriteAcknowledgement(ctx, p.DestinationClient, p.Sequence, v2Ack(a.Ack))
		} else {
			cacheCtx, write := ctx.CacheContext()
			err = chain.App.GetIBCKeeper().ChannelKeeperV2.WriteAcknowledgement(cacheCtx, p.DestinationClient, p.Sequence, v2Ack(a.Ack))
			if err == nil {
				write()
			}
		}
		chain.NextBlock()
		if err != nil {
			return "err", err.Error()
		}
		return "ok", ""
	}
	chain.NextBlock()
	return "err", "unknown action " + a.A
}

// updateClient submits the archived header of the counterparty at relative height p, trusted at the greatest
// consensus height below it.
func (w *World) updateClient(c string, p int64) (string, string) {
	o := cp(c)
	target := int64(w.real(o, p))
	hdr, ok := w.headers[o][target]
	if !ok {
		w.ch[c].NextBlock()
		return "err", "no such counterparty block"
	}
	var trusted uint64
	for _, h := range w.consReal(c) {
		if int64(h) < target && h > trusted {
			trusted = h
		}
	}
	if trusted == 0 {
		trusted = uint64(target) // no usable trusted height: the header cannot be newer than it
	}
	cpy := *hdr
	hh, err := w.ch[o].IBCClientHeader(&cpy, clienttypes.NewHeight(revision(w.ch[o]), trusted))
	if err != nil {
		w.ch[c].NextBlock()
		return "err", err.Error()
	}
	msg, err := clienttypes.NewMsgUpdateClient(w.clientID(c), hh, w.signer(c))
	if err != nil {
		w.ch[c].NextBlock()
		return "err", err.Error()
	}
	return w.sendTx(c, msg)
}

// freeze submits real misbehaviour evidence: two validly signed conflicting headers of the counterparty.
func (w *World) freeze(c string) (string, string) {
	o := cp(c)
	chainO := w.ch[o]
	cons := w.consReal(c)
	if len(cons) == 0 {
		w.ch[c].NextBlock()
		return "err", "no consensus state"
	}
	trusted := cons[len(cons)-1]
	trustedH := clienttypes.NewHeight(revision(chainO), trusted)
	trustedVals, ok := chainO.TrustedValidators[trusted]
	if !ok {
		w.ch[c].NextBlock()
		return "err", "no trusted validators"
	}
	height := int64(trusted) + 1
	t1 := w.tickTime(w.now + w.skew[c])
	h1 := chainO.CreateTMClientHeader(chainO.ChainID, height, trustedH, t1, chainO.Vals, chainO.NextVals, trustedVals, chainO.Signers)
	h2 := chainO.CreateTMClientHeader(chainO.ChainID, height, trustedH, t1.Add(-1), chainO.Vals, chainO.NextVals, trustedVals, chainO.Signers)
	mb := &ibctm.Misbehaviour{ClientId: w.clientID(c), Header1: h1, Header2: h2}
	msg, err := clienttypes.NewMsgUpdateClient(w.clientID(c), mb, w.signer(c))
	if err != nil {
		w.ch[c].NextBlock()
		return "err", err.Error()
	}
	return w.sendTx(c, msg)
}

// exportImport exports the genesis of the IBC core module and of every IBC application module, deletes every key
// of their stores and initialises the modules from the export, on the same chain (everything else untouched so
// that relaying continues), then commits a block.
var genesisModules = []string{"ibc", "transfer", "ratelimit", "packetfowardmiddleware", "interchainaccounts", "gmp"}

func (w *World) exportImport(c string) (res string, errStr string) {
	chain := w.ch[c]
	app := chain.GetSimApp()
	same, err := lib.ExportImportModules(chain.GetContext(), app, app.ModuleManager, genesisModules)
	chain.NextBlock()
	if err != nil {
		return "panic", err.Error()
	}
	w.reexport[c] = "same"
	for _, m := range genesisModules {
		// the rate-limit module re-derives an uninitialised hour epoch (epoch number 0, as in the default test
		// application) from the importing block's time/height, so its re-export legitimately differs here; the
		// transfermw family checks it with an initialised epoch
		if m == "ratelimit" {
			continue
		}
		if same[m] != "same" {
			w.reexport[c] = "differs:" + m
		}
	}
	return "ok", ""
}
