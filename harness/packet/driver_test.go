package packet

import (
	"encoding/json"
	"testing"

	"verif/harness/lib"
)

// TestDrive executes every schedule of $VERIF_SCHED (ndjson) on a fresh pair of real chains and writes
// one trace line per step to $VERIF_TRACE.  It never judges: TLC does (spec/packet/Trace_Packet.tla).
func TestDrive(t *testing.T) {
	schedPath := lib.EnvStr("VERIF_SCHED", "")
	tracePath := lib.EnvStr("VERIF_TRACE", "")
	if schedPath == "" || tracePath == "" {
		t.Skip("VERIF_SCHED / VERIF_TRACE not set")
	}
	scheds, err := lib.ReadNDJSON[Schedule](schedPath)
	if err != nil {
		t.Fatal(err)
	}
	tw, err := lib.NewTraceWriter(tracePath)
	if err != nil {
		t.Fatal(err)
	}
	defer tw.Close()
	det := lib.EnvStr("VERIF_DET", "") != ""
	for _, s := range scheds {
		lib.SeedCryptoRand(s.ID)
		w := NewWorld(t, s.Kind, s.TP, s.Opt, s.Ska, s.Skb)
		init := TraceLine{Tr: s.ID, I: 0, Kind: s.Kind, TP: s.TP, Ska: s.Ska, Skb: s.Skb, A: json.RawMessage(`{"a":"Init","c":"A","dt":0}`), Res: "ok", St: w.State()}
		if det {
			init.Det = w.Det()
		}
		tw.Emit(init)
		for i, raw := range s.Acts {
			var a Action
			if err := json.Unmarshal(raw, &a); err != nil {
				t.Fatalf("schedule %s step %d: %v", s.ID, i+1, err)
			}
			res, errStr := w.Exec(a)
			tl := TraceLine{Tr: s.ID, I: i + 1, Kind: s.Kind, TP: s.TP, Ska: s.Ska, Skb: s.Skb, A: raw, Res: res, Err: errStr, St: w.State()}
			if det {
				tl.Det = w.Det()
			}
			tw.Emit(tl)
		}
	}
}
