package packet

import (
	"fmt"
	"sort"

	ibc "github.com/cosmos/ibc-go/v11/modules/core"
	channeltypes "github.com/cosmos/ibc-go/v11/modules/core/04-channel/types"
	"github.com/cosmos/ibc-go/v11/modules/core/exported"
	ibctm "github.com/cosmos/ibc-go/v11/modules/light-clients/07-tendermint"

	"verif/harness/lib"
)

// project reads the abstract state of chain c through the public keeper API.
func (w *World) project(c string) ChainSt {
	chain := w.ch[c]
	ctx := chain.GetContext()
	k := chain.App.GetIBCKeeper()
	st := ChainSt{H: w.height(c), Log: append([]LogEv{}, w.logs[c]...)}
	for h := int64(0); h <= st.H; h++ {
		st.Bt = append(st.Bt, w.bt[c][w.H0[c]+h])
	}
	pv := Prov{Chan: "NONE", Ns: 1, Nr: 1, Na: 1, Commit: []KV{}, Receipt: []string{}, Ack: []KV{}, Async: []string{}}
	lookupCommit := func(key string, hash []byte) any {
		if p, ok := w.commitDict[c+"/"+key+"/"+lib.Hex(hash)]; ok {
			return p
		}
		return Pkt{Proto: "?", Src: c, Data: []string{lib.Hex(hash)[:8]}, Route: "?"}
	}
	lookupAck := func(proto string, hash []byte) any {
		if a, ok := w.ackDict[proto+"/"+lib.Hex(hash)]; ok {
			return a
		}
		return []string{"?" + lib.Hex(hash)[:8]}
	}
	if w.kind != "V2" {
		port, ch := w.ep[c].ChannelConfig.PortID, w.ep[c].ChannelID
		if chn, ok := k.ChannelKeeper.GetChannel(ctx, port, ch); ok {
			switch chn.State {
			case channeltypes.OPEN:
				pv.Chan = "OPEN"
			case channeltypes.CLOSED:
				pv.Chan = "CLOSED"
			default:
				pv.Chan = chn.State.String()
			}
		}
		if v, ok := k.ChannelKeeper.GetNextSequenceSend(ctx, port, ch); ok {
			pv.Ns = int64(v)
		}
		if v, ok := k.ChannelKeeper.GetNextSequenceRecv(ctx, port, ch); ok {
			pv.Nr = int64(v)
		}
		if v, ok := k.ChannelKeeper.GetNextSequenceAck(ctx, port, ch); ok {
			pv.Na = int64(v)
		}
		for _, ps := range k.ChannelKeeper.GetAllPacketCommitmentsAtChannel(ctx, port, ch) {
			key := Pkt{Proto: "v1", Seq: int64(ps.Sequence)}.Key()
			pv.Commit = append(pv.Commit, KV{K: key, V: lookupCommit(key, ps.Data)})
		}
		for _, ps := range k.ChannelKeeper.GetAllPacketReceipts(ctx) {
			if ps.PortId == port && ps.ChannelId == ch {
				pv.Receipt = append(pv.Receipt, Pkt{Proto: "v1", Seq: int64(ps.Sequence)}.Key())
			}
		}
		for _, ps := range k.ChannelKeeper.GetAllPacketAcks(ctx) {
			if ps.PortId == port && ps.ChannelId == ch {
				pv.Ack = append(pv.Ack, KV{K: Pkt{Proto: "v1", Seq: int64(ps.Sequence)}.Key(), V: lookupAck("v1", ps.Data)})
			}
		}
	}
	if w.kind != "ORDERED" {
		id := w.pathID(c)
		if w.kind == "V2" {
			if v, ok := k.ChannelKeeperV2.GetNextSequenceSend(ctx, id); ok {
				pv.Ns = int64(v)
			}
		}
		for _, ps := range k.ChannelKeeperV2.GetAllPacketCommitmentsForClient(ctx, id) {
			key := Pkt{Proto: "v2", Seq: int64(ps.Sequence)}.Key()
			pv.Commit = append(pv.Commit, KV{K: key, V: lookupCommit(key, ps.Data)})
		}
		for _, ps := range k.ChannelKeeperV2.GetAllPacketReceiptsForClient(ctx, id) {
			pv.Receipt = append(pv.Receipt, Pkt{Proto: "v2", Seq: int64(ps.Sequence)}.Key())
		}
		for _, ps := range k.ChannelKeeperV2.GetAllPacketAcknowledgementsForClient(ctx, id) {
			pv.Ack = append(pv.Ack, KV{K: Pkt{Proto: "v2", Seq: int64(ps.Sequence)}.Key(), V: lookupAck("v2", ps.Data)})
		}
		for _, ps := range k.ChannelKeeperV2.GetAllAsyncPacketsForClient(ctx, id) {
			pv.Async = append(pv.Async, Pkt{Proto: "v2", Seq: int64(ps.Sequence)}.Key())
		}
	}
	sort.Slice(pv.Commit, func(i, j int) bool { return pv.Commit[i].K < pv.Commit[j].K })
	sort.Slice(pv.Ack, func(i, j int) bool { return pv.Ack[i].K < pv.Ack[j].K })
	sort.Strings(pv.Receipt)
	sort.Strings(pv.Async)
	st.Cur = pv

	st.Cons = []int64{}
	for _, h := range w.consReal(c) {
		st.Cons = append(st.Cons, w.rel(cp(c), h))
	}
	sortInt64(st.Cons)
	if cs, ok := k.ClientKeeper.GetClientState(ctx, w.clientID(c)); ok {
		if tm, ok := cs.(*ibctm.ClientState); ok {
			st.Frozen = !tm.FrozenHeight.IsZero()
		}
	}
	switch k.ClientKeeper.GetClientStatus(ctx, w.clientID(c)) {
	case exported.Active:
		st.Status = "Active"
	case exported.Frozen:
		st.Status = "Frozen"
	case exported.Expired:
		st.Status = "Expired"
	default:
		st.Status = "Other"
	}
	st.App, st.Coins = w.appState(c)
	st.Meta = w.meta(c)
	st.Dig = lib.DigestOf(ctx, chain.GetSimApp().GetKey(exported.StoreKey))
	return st
}

func (w *World) State() State {
	return State{Now: w.now, Ch: map[string]ChainSt{"A": w.project("A"), "B": w.project("B")}}
}

// meta reads module state that is not part of the packet paths but that relaying depends on.
func (w *World) meta(c string) Meta {
	chain := w.ch[c]
	ctx := chain.GetContext()
	k := chain.App.GetIBCKeeper()
	m := Meta{Reexport: w.reexport[c]}
	m.Creator = k.ClientKeeper.GetClientCreator(ctx, w.clientID(c)).String()
	m.Relayers = fmt.Sprint(k.ClientV2Keeper.GetConfig(ctx, w.clientID(c)).AllowedRelayers)
	if cpi, ok := k.ClientV2Keeper.GetClientCounterparty(ctx, w.pathID(c)); ok {
		m.Counterparty = fmt.Sprintf("%s|%x", cpi.ClientId, cpi.MerklePrefix)
	}
	if base, ok := k.ChannelKeeperV2.GetClientForAlias(ctx, w.pathID(c)); ok {
		m.Alias = base
	}
	if w.kind != "V2" {
		if conn, ok := k.ConnectionKeeper.GetConnection(ctx, w.ep[c].ConnectionID); ok {
			m.ConnState = fmt.Sprintf("%s|%s|%s|%d|%v", conn.State, conn.ClientId, conn.Counterparty.ConnectionId, conn.DelayPeriod, conn.Versions)
		}
	}
	m.NextIDs = fmt.Sprintf("%d/%d/%d", k.ClientKeeper.GetNextClientSequence(ctx), k.ConnectionKeeper.GetNextConnectionSequence(ctx), k.ChannelKeeper.GetNextChannelSequence(ctx))
	m.ConsMeta = lib.StoreDigest(k.ClientKeeper.ClientStore(ctx, w.clientID(c)))
	return m
}

// Det records, for both chains, the application hash of the last block, the digest of the exported IBC genesis
// and a digest of list queries in the order the keepers return them (no sorting by the harness).
func (w *World) Det() *Det {
	d := &Det{AppHash: map[string]string{}, Genesis: map[string]string{}, Queries: map[string]string{}}
	for _, c := range []string{"A", "B"} {
		chain := w.ch[c]
		ctx := chain.GetContext()
		k := chain.App.GetIBCKeeper()
		d.AppHash[c] = lib.Hex(chain.App.LastCommitID().Hash)
		func() {
			defer func() {
				if r := recover(); r != nil {
					d.Genesis[c] = "panic"
				}
			}()
			d.Genesis[c] = lib.Hex(sh(chain.App.AppCodec().MustMarshalJSON(ibc.ExportGenesis(ctx, *k))))[:16]
		}()
		var q []byte
		for _, ch := range k.ChannelKeeper.GetAllChannels(ctx) {
			q = append(q, []byte(ch.PortId+"/"+ch.ChannelId+";")...)
		}
		for _, cn := range k.ConnectionKeeper.GetAllConnections(ctx) {
			q = append(q, []byte(cn.Id+";")...)
		}
		for _, cl := range k.ClientKeeper.GetAllGenesisClients(ctx) {
			q = append(q, []byte(cl.ClientId+";")...)
		}
		for _, ps := range k.ChannelKeeper.GetAllPacketCommitments(ctx) {
			q = append(q, []byte(fmt.Sprintf("%s/%s/%d;", ps.PortId, ps.ChannelId, ps.Sequence))...)
		}
		for _, ps := range k.ChannelKeeper.GetAllPacketAcks(ctx) {
			q = append(q, []byte(fmt.Sprintf("%s/%s/%d;", ps.PortId, ps.ChannelId, ps.Sequence))...)
		}
		for _, cs := range k.ClientKeeper.GetAllConsensusStates(ctx) {
			q = append(q, []byte(cs.ClientId+":")...)
			for _, h := range cs.ConsensusStates {
				q = append(q, []byte(h.Height.String()+",")...)
			}
		}
		for _, route := range chain.GetSimApp().IBCKeeper.PortKeeper.Router.Keys() {
			q = append(q, []byte(route+";")...)
		}
		d.Queries[c] = lib.Hex(sh(q))[:16]
	}
	return d
}
