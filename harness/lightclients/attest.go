package lightclients

import (
	"crypto/ecdsa"
	"crypto/sha256"
	"encoding/binary"
	"encoding/json"
	"fmt"
	"math/big"
	"testing"

	"github.com/ethereum/go-ethereum/crypto"

	sdk "github.com/cosmos/cosmos-sdk/types"

	clienttypes "github.com/cosmos/ibc-go/v11/modules/core/02-client/types"
	commitmenttypesv2 "github.com/cosmos/ibc-go/v11/modules/core/23-commitment/types/v2"
	host "github.com/cosmos/ibc-go/v11/modules/core/24-host"
	"github.com/cosmos/ibc-go/v11/modules/light-clients/attestations"

	"verif/harness/lib"
)

// ASig is the abstract signature of Attestations.tla.
type ASig struct {
	Signer string `json:"signer"` // a1 a2 a3 x
	Enc    string `json:"enc"`    // v01 v27 mall short long badrec
	Over   string `json:"over"`   // this | other
	Tag    string `json:"tag"`    // state | packet : the type tag mixed into the signed digest
}

type APkt struct {
	Path string `json:"path"` // P Q R
	Com  string `json:"com"`  // V W Z S
}

type AData struct {
	Kind string `json:"kind"` // state | packet
	H    uint64 `json:"h"`
	Ts   uint64 `json:"ts"`
	Pkts []APkt `json:"pkts"`
}

type AAction struct {
	A     string `json:"a"` // Update | VM | VNM
	H     uint64 `json:"h"`
	Sigs  []ASig `json:"sigs"`
	Data  AData  `json:"data"`
	Pathc string `json:"pathc"` // P1 | P2 | E
	Val   string `json:"val"`   // V W Z S31 E L33
}

type ACase struct {
	ID  string          `json:"id"`
	Q   int             `json:"q"`
	Pre string          `json:"pre"` // fresh | two | frozen
	Act json.RawMessage `json:"act"`
}

type AHist struct {
	ID   string            `json:"id"`
	Q    int               `json:"q"`
	Acts []json.RawMessage `json:"acts"`
}

type AState struct {
	Frozen bool   `json:"frozen"`
	Cons   []KV   `json:"cons"`
	Latest uint64 `json:"latest"`
	Quorum uint32 `json:"quorum"`
}

type ALine struct {
	Tr   string          `json:"tr"`
	I    int             `json:"i"`
	Mode string          `json:"mode"` // case | tx
	A    json.RawMessage `json:"a"`
	Res  string          `json:"res"`
	Err  string          `json:"err,omitempty"`
	Pre  AState          `json:"pre"`
	Post AState          `json:"post"`
}

const nanos = 1_000_000_000

var secp256k1N, _ = new(big.Int).SetString("fffffffffffffffffffffffffffffffebaaedce6af48a03bbfd25e8cd0364141", 16)

type AttestWorld struct {
	*Base
	keys    map[string]*ecdsa.PrivateKey
	addrs   []string
	clients map[string]string // "<q>/<pre>" -> client id
}

func attKey(name string) *ecdsa.PrivateKey {
	h := sha256.Sum256([]byte("verif-attestor-" + lib.EnvStr("VERIF_SEED", "1") + "-" + name))
	k, err := crypto.ToECDSA(h[:])
	if err != nil {
		panic(err)
	}
	return k
}

func NewAttestWorld(t *testing.T, b *Base) *AttestWorld {
	w := &AttestWorld{Base: b, keys: map[string]*ecdsa.PrivateKey{}, clients: map[string]string{}}
	for _, n := range []string{"a1", "a2", "a3", "x"} {
		w.keys[n] = attKey(n)
	}
	for _, n := range []string{"a1", "a2", "a3"} {
		w.addrs = append(w.addrs, crypto.PubkeyToAddress(w.keys[n].PublicKey).Hex())
	}
	// the harness's own ABI encoding must be what the client decodes
	if sa, err := attestations.ABIDecodeStateAttestation(encodeData(AData{Kind: "state", H: 7, Ts: 9})); err != nil || sa.Height != 7 || sa.Timestamp != 9*nanos {
		t.Fatalf("state attestation encoding is not understood by the client: %v %+v", err, sa)
	}
	if pa, err := attestations.ABIDecodePacketAttestation(encodeData(AData{Kind: "packet", H: 7, Pkts: []APkt{{"P", "V"}, {"Q", "Z"}}})); err != nil || pa.Height != 7 || len(pa.Packets) != 2 || string(pa.Packets[0].Path) != string(pathHash("P")) || string(pa.Packets[1].Commitment) != string(make([]byte, 32)) {
		t.Fatalf("packet attestation encoding is not understood by the client: %v", err)
	}
	return w
}

func (w *AttestWorld) newClient(q int) (string, error) {
	cs := attestations.NewClientState(w.addrs, uint32(q), 1)
	return w.createClient(cs, &attestations.ConsensusState{Timestamp: 1 * nanos})
}

var goodState = []ASig{{"a1", "v01", "this", "state"}, {"a2", "v01", "this", "state"}, {"a3", "v01", "this", "state"}}

// client returns the (shared, never modified by cases) client with quorum q in the given pre-state.
func (w *AttestWorld) client(q int, pre string) string {
	key := fmt.Sprintf("%d/%s", q, pre)
	if id, ok := w.clients[key]; ok {
		return id
	}
	id, err := w.newClient(q)
	if err != nil {
		w.t.Fatalf("create attestations client: %v", err)
	}
	upd := func(h, ts uint64) {
		if res, e := w.execTx(id, AAction{A: "Update", Sigs: goodState, Data: AData{Kind: "state", H: h, Ts: ts}}); res != "ok" {
			w.t.Fatalf("set-up update failed: %s", e)
		}
	}
	switch pre {
	case "two":
		upd(2, 2)
	case "frozen":
		upd(2, 2)
		upd(2, 3) // conflicting timestamp for the stored latest height (set-up only: conflicts below the latest height are cases, not set-up)
	}
	w.clients[key] = id
	return id
}

// ---- concrete values -------------------------------------------------------------------------------

func attKeyBytes(p string) []byte { return []byte("verif/att/key-" + p) }

func pathHash(p string) []byte {
	if p == "R" { // the raw, unhashed key of P (padded to 32 bytes)
		out := make([]byte, 32)
		copy(out, attKeyBytes("P"))
		return out
	}
	return crypto.Keccak256(attKeyBytes(p))
}

func valueBytes(v string) []byte {
	base := func(n string) []byte {
		h := sha256.Sum256([]byte("verif-att-value-" + n))
		h[31] = 0xAA
		return h[:]
	}
	switch v {
	case "V":
		return base("V")
	case "W":
		return base("W")
	case "Z":
		return make([]byte, 32)
	case "S", "S31":
		return base("V")[:31]
	case "L33":
		return append(base("V"), 0x01)
	}
	return []byte{}
}

func word(v uint64) []byte {
	out := make([]byte, 32)
	binary.BigEndian.PutUint64(out[24:], v)
	return out
}

func pad32(b []byte) []byte {
	out := make([]byte, 32)
	copy(out, b)
	return out
}

// encodeData is the harness's own ABI encoding (abi.encode(uint64,uint64) resp. abi.encode((uint64,(bytes32,bytes32)[]))).
func encodeData(d AData) []byte {
	if d.Kind == "state" {
		return append(word(d.H), word(d.Ts)...)
	}
	out := append([]byte{}, word(0x20)...)
	out = append(out, word(d.H)...)
	out = append(out, word(0x40)...)
	out = append(out, word(uint64(len(d.Pkts)))...)
	for _, p := range d.Pkts {
		out = append(out, pathHash(p.Path)...)
		out = append(out, pad32(valueBytes(p.Com))...)
	}
	return out
}

// digest = sha256(tag || sha256(data)), computed independently of the code under test.
func digest(data []byte, tag string) []byte {
	inner := sha256.Sum256(data)
	t := byte(0x01)
	if tag == "packet" {
		t = 0x02
	}
	outer := sha256.Sum256(append([]byte{t}, inner[:]...))
	return outer[:]
}

func (w *AttestWorld) sigBytes(s ASig, data []byte) []byte {
	msg := data
	if s.Over == "other" {
		msg = append(append([]byte{}, data...), 0x77)
	}
	sig, err := crypto.Sign(digest(msg, s.Tag), w.keys[s.Signer])
	if err != nil {
		panic(err)
	}
	switch s.Enc {
	case "v27":
		sig[64] += 27
	case "mall":
		sv := new(big.Int).SetBytes(sig[32:64])
		sv.Sub(secp256k1N, sv)
		copy(sig[32:64], pad32be(sv.Bytes()))
		sig[64] ^= 1
	case "badrec":
		sig[64] ^= 1
	case "short":
		sig = sig[:64]
	case "long":
		sig = append(sig, 0x00)
	}
	return sig
}

func pad32be(b []byte) []byte {
	out := make([]byte, 32)
	copy(out[32-len(b):], b)
	return out
}

func (w *AttestWorld) proofOf(a AAction) *attestations.AttestationProof {
	data := encodeData(a.Data)
	p := &attestations.AttestationProof{AttestationData: data}
	for _, s := range a.Sigs {
		p.Signatures = append(p.Signatures, w.sigBytes(s, data))
	}
	return p
}

func attPath(pc string) commitmenttypesv2.MerklePath {
	switch pc {
	case "P2":
		return commitmenttypesv2.NewMerklePath([]byte("ibc"), attKeyBytes("P"))
	case "E":
		return commitmenttypesv2.NewMerklePath()
	}
	return commitmenttypesv2.NewMerklePath(attKeyBytes("P"))
}

func (w *AttestWorld) stateOf(ctx sdk.Context, id string) AState {
	st := AState{Cons: []KV{}}
	ck := w.chain.App.GetIBCKeeper().ClientKeeper
	csI, ok := ck.GetClientState(ctx, id)
	if !ok {
		return st
	}
	cs := csI.(*attestations.ClientState)
	st.Frozen, st.Latest, st.Quorum = cs.IsFrozen, cs.LatestHeight, cs.MinRequiredSigs
	store := ck.ClientStore(ctx, id)
	for h := uint64(0); h <= 40; h++ {
		bz := store.Get(host.ConsensusStateKey(clienttypes.NewHeight(0, h)))
		if bz == nil {
			continue
		}
		c, err := clienttypes.UnmarshalConsensusState(w.chain.App.AppCodec(), bz)
		if err != nil {
			st.Cons = append(st.Cons, KV{K: h, V: -1})
			continue
		}
		ts := c.(*attestations.ConsensusState).Timestamp
		if ts%nanos == 0 {
			st.Cons = append(st.Cons, KV{K: h, V: ts / nanos})
		} else {
			st.Cons = append(st.Cons, KV{K: h, V: -int64(ts % nanos)})
		}
	}
	return st
}

// execOn performs the action with keeper calls on ctx, going through the same stateless validation a
// transaction would (MsgUpdateClient.ValidateBasic).
func (w *AttestWorld) execOn(ctx sdk.Context, id string, a AAction) (string, string) {
	ck := w.chain.App.GetIBCKeeper().ClientKeeper
	return runOn(ctx, func(ctx sdk.Context) error {
		proof := w.proofOf(a)
		switch a.A {
		case "Update":
			msg, err := clienttypes.NewMsgUpdateClient(id, proof, w.signer())
			if err != nil {
				return err
			}
			if err := msg.ValidateBasic(); err != nil {
				return err
			}
			return ck.UpdateClient(ctx, id, proof)
		case "VM", "VNM":
			bz, err := w.chain.App.AppCodec().Marshal(proof)
			if err != nil {
				return err
			}
			h := clienttypes.NewHeight(0, a.H)
			if a.A == "VM" {
				return ck.VerifyMembership(ctx, id, h, 0, 0, bz, attPath(a.Pathc), valueBytes(a.Val))
			}
			return ck.VerifyNonMembership(ctx, id, h, 0, 0, bz, attPath(a.Pathc))
		}
		return fmt.Errorf("unknown action %s", a.A)
	})
}

// execTx performs updates as real transactions (one block) and verifications as keeper calls on the next block's state.
func (w *AttestWorld) execTx(id string, a AAction) (string, string) {
	if a.A == "Update" {
		msg, err := clienttypes.NewMsgUpdateClient(id, w.proofOf(a), w.signer())
		if err != nil {
			return "err", err.Error()
		}
		return w.send(msg)
	}
	return w.direct(func(ctx sdk.Context) error {
		res, e := w.execOn(ctx, id, a)
		if res != "ok" {
			return fmt.Errorf("%s", e)
		}
		return nil
	})
}

func (w *AttestWorld) RunCase(c ACase, emit func(any)) {
	var a AAction
	if err := json.Unmarshal(c.Act, &a); err != nil {
		w.t.Fatalf("case %s: %v", c.ID, err)
	}
	id := w.client(c.Q, c.Pre)
	ctx, _ := w.chain.GetContext().CacheContext()
	line := ALine{Tr: c.ID, I: 1, Mode: "case", A: c.Act, Pre: w.stateOf(ctx, id)}
	line.Res, line.Err = w.execOn(ctx, id, a)
	if line.Res != "ok" {
		// what a failed transaction leaves behind: nothing
		ctx, _ = w.chain.GetContext().CacheContext()
	}
	line.Post = w.stateOf(ctx, id)
	emit(line)
}

func (w *AttestWorld) RunHist(h AHist, emit func(any)) {
	id, err := w.newClient(h.Q)
	if err != nil {
		w.t.Fatalf("history %s: %v", h.ID, err)
	}
	for i, raw := range h.Acts {
		var a AAction
		if err := json.Unmarshal(raw, &a); err != nil {
			w.t.Fatalf("history %s: %v", h.ID, err)
		}
		line := ALine{Tr: h.ID, I: i + 1, Mode: "tx", A: raw, Pre: w.stateOf(w.chain.GetContext(), id)}
		line.Res, line.Err = w.execTx(id, a)
		line.Post = w.stateOf(w.chain.GetContext(), id)
		emit(line)
	}
}
