package lightclients

import (
	"bytes"
	"encoding/json"
	"fmt"
	"testing"
	"time"

	codectypes "github.com/cosmos/cosmos-sdk/codec/types"
	"github.com/cosmos/cosmos-sdk/crypto/keys/secp256k1"
	sdk "github.com/cosmos/cosmos-sdk/types"

	clienttypes "github.com/cosmos/ibc-go/v11/modules/core/02-client/types"
	channeltypes "github.com/cosmos/ibc-go/v11/modules/core/04-channel/types"
	commitmenttypesv2 "github.com/cosmos/ibc-go/v11/modules/core/23-commitment/types/v2"
	host "github.com/cosmos/ibc-go/v11/modules/core/24-host"
	"github.com/cosmos/ibc-go/v11/modules/core/exported"
	solomachine "github.com/cosmos/ibc-go/v11/modules/light-clients/06-solomachine"
	ibctm "github.com/cosmos/ibc-go/v11/modules/light-clients/07-tendermint"
	localhost "github.com/cosmos/ibc-go/v11/modules/light-clients/09-localhost"
	"github.com/cosmos/ibc-go/v11/modules/light-clients/attestations"
	ibctesting "github.com/cosmos/ibc-go/v11/testing"
	ibcmock "github.com/cosmos/ibc-go/v11/testing/mock"

	"verif/harness/lib"
)

// ---------------------------------------------------------------------------------------------------
// C27: verification table and client messages
// ---------------------------------------------------------------------------------------------------

type LAction struct {
	A     string `json:"a"` // VM | VNM | ClientOp
	Key   string `json:"key,omitempty"`
	Val   string `json:"val"`
	Proof string `json:"proof,omitempty"`
	Plen  int    `json:"plen,omitempty"`
	Hc    string `json:"hc,omitempty"`
	Op    string `json:"op,omitempty"`
	Shape string `json:"shape,omitempty"`
	Via   string `json:"via,omitempty"`
}

type LCase struct {
	ID  string          `json:"id"`
	Pre json.RawMessage `json:"pre"` // store over the test keys: {"k1":"v1"} or [] when empty
	Act json.RawMessage `json:"act"`
}

type LLine struct {
	Tr    string          `json:"tr"`
	I     int             `json:"i"`
	Kind  string          `json:"kind"` // table
	A     json.RawMessage `json:"a"`
	Res   string          `json:"res"`
	Err   string          `json:"err,omitempty"`
	Store []KV            `json:"store"` // the IBC store as observed before the step (test keys + the real connection end)
	Dig0  string          `json:"dig0"`
	Dig1  string          `json:"dig1"`
}

type LocalWorld struct {
	*Base
	connVal  []byte
	realProof []byte
	tmClient string
}

func lhKey(k string) []byte {
	switch k {
	case "conn":
		return host.ConnectionKey(exported.LocalhostConnectionID)
	case "absentreal":
		return host.ConnectionKey("connection-999")
	}
	return []byte("verif/localhost/" + k)
}

var lhVals = map[string][]byte{"v1": []byte("value-one"), "v2": []byte("value-two"), "": {}}

func NewLocalWorld(t *testing.T, b *Base) *LocalWorld {
	w := &LocalWorld{Base: b}
	path := ibctesting.NewPath(b.chain, b.other)
	path.SetupClients()
	w.tmClient = path.EndpointA.ClientID
	ctx := b.chain.GetContext()
	w.connVal = ctx.KVStore(b.chain.GetSimApp().GetKey(exported.StoreKey)).Get(lhKey("conn"))
	if len(w.connVal) == 0 {
		t.Fatalf("the sentinel localhost connection is missing")
	}
	w.realProof, _ = b.chain.QueryProof(lhKey("conn"))
	return w
}

func (w *LocalWorld) valBytes(v string) []byte {
	if v == "R" {
		return w.connVal
	}
	return lhVals[v]
}

func (w *LocalWorld) absVal(bz []byte) string {
	for _, n := range []string{"v1", "v2", ""} {
		if bytes.Equal(bz, lhVals[n]) {
			return n
		}
	}
	if bytes.Equal(bz, w.connVal) {
		return "R"
	}
	return "0x" + lib.Hex(bz)
}

func (w *LocalWorld) observe(ctx sdk.Context) []KV {
	store := ctx.KVStore(w.chain.GetSimApp().GetKey(exported.StoreKey))
	out := []KV{}
	for _, k := range []string{"k1", "k2", "conn", "absentreal"} {
		if store.Has(lhKey(k)) {
			out = append(out, KV{K: k, V: w.absVal(store.Get(lhKey(k)))})
		}
	}
	return out
}

func lhProof(p string, real []byte) []byte {
	switch p {
	case "sentinel":
		return []byte{0x01}
	case "empty":
		return []byte{}
	case "nil":
		return nil
	case "other":
		return []byte{0x02}
	case "sentinelx":
		return []byte{0x01, 0x00}
	case "real":
		return real
	}
	return []byte("?")
}

func lhPath(key []byte, plen int) commitmenttypesv2.MerklePath {
	switch plen {
	case 1:
		return commitmenttypesv2.NewMerklePath(key)
	case 3:
		return commitmenttypesv2.NewMerklePath([]byte("ibc"), key, []byte("extra"))
	}
	return commitmenttypesv2.NewMerklePath([]byte("ibc"), key)
}

func (w *LocalWorld) height(ctx sdk.Context, hc string) clienttypes.Height {
	rev := clienttypes.ParseChainID(w.chain.ChainID)
	cur := uint64(ctx.BlockHeight())
	switch hc {
	case "zero":
		return clienttypes.ZeroHeight()
	case "past":
		return clienttypes.NewHeight(rev, 1)
	case "next":
		return clienttypes.NewHeight(rev, cur+1)
	case "future":
		return clienttypes.NewHeight(rev, cur+100000)
	}
	return clienttypes.NewHeight(rev, cur)
}

// RunTable: set the test keys of the chain's own IBC store as the case says (on a discarded branch), then verify.
func (w *LocalWorld) RunTable(c LCase, emit func(any)) {
	var a LAction
	if err := json.Unmarshal(c.Act, &a); err != nil {
		w.t.Fatalf("case %s: %v", c.ID, err)
	}
	pre := map[string]string{}
	if len(c.Pre) > 0 && c.Pre[0] == '{' {
		if err := json.Unmarshal(c.Pre, &pre); err != nil {
			w.t.Fatalf("case %s: %v", c.ID, err)
		}
	}
	ctx, _ := w.chain.GetContext().CacheContext()
	store := ctx.KVStore(w.chain.GetSimApp().GetKey(exported.StoreKey))
	for k, v := range pre {
		store.Set(lhKey(k), lhVals[v])
	}
	line := LLine{Tr: c.ID, I: 1, Kind: "table", A: c.Act, Store: w.observe(ctx), Dig0: w.ibcDigest(ctx)}
	ck := w.chain.App.GetIBCKeeper().ClientKeeper
	line.Res, line.Err = runOn(ctx, func(ctx sdk.Context) error {
		h := w.height(ctx, a.Hc)
		proof := lhProof(a.Proof, w.realProof)
		path := lhPath(lhKey(a.Key), a.Plen)
		if a.A == "VM" {
			return ck.VerifyMembership(ctx, exported.LocalhostClientID, h, 0, 0, proof, path, w.valBytes(a.Val))
		}
		return ck.VerifyNonMembership(ctx, exported.LocalhostClientID, h, 0, 0, proof, path)
	})
	line.Dig1 = w.ibcDigest(ctx)
	emit(line)
}

// RunOp: one client message addressed to the localhost client, as a real transaction, through the message server
// or through the 02-client keeper (then with a transaction's semantics: writes are kept only on success).
func (w *LocalWorld) RunOp(id string, raw json.RawMessage, emit func(any)) {
	var a LAction
	if err := json.Unmarshal(raw, &a); err != nil {
		w.t.Fatal(err)
	}
	line := LLine{Tr: id, I: 1, Kind: "table", A: raw, Store: w.observe(w.chain.GetContext()), Dig0: w.ibcDigest(w.chain.GetContext())}
	cdc := w.chain.App.AppCodec()
	ck := w.chain.App.GetIBCKeeper().ClientKeeper
	lh := exported.LocalhostClientID
	tmCS := w.chain.GetClientState(w.tmClient)
	tmCons, _ := w.chain.GetConsensusState(w.tmClient, tmCS.(*ibctm.ClientState).LatestHeight)
	keeperCall := func(fn func(ctx sdk.Context) error) { line.Res, line.Err = w.direct(fn) }
	tx := func(msg sdk.Msg, err error) {
		if err != nil {
			line.Res, line.Err = "err", err.Error()
			w.coord.CommitBlock(w.chain)
			return
		}
		line.Res, line.Err = w.send(msg)
	}
	switch a.Op {
	case "Create":
		var csBz, consBz []byte
		switch a.Shape {
		case "tmstate":
			csBz, _ = cdc.Marshal(tmCS)
			consBz, _ = cdc.Marshal(tmCons)
		case "garbage":
			csBz, consBz = []byte{0xff, 0x01}, []byte{0xfe}
		}
		keeperCall(func(ctx sdk.Context) error {
			_, err := ck.CreateClient(ctx, exported.Localhost, csBz, consBz)
			return err
		})
	case "Update":
		var cm exported.ClientMessage
		switch a.Shape {
		case "tmheader":
			cm = w.other.LatestCommittedHeader
		case "soloheader":
			pk, _ := codectypes.NewAnyWithValue(secp256k1.GenPrivKeyFromSecret([]byte("verif-lh")).PubKey())
			cm = &solomachine.Header{Timestamp: 5, Signature: []byte{1, 2, 3}, NewPublicKey: pk, NewDiversifier: "d"}
		case "tmmisb":
			cm = ibctm.NewMisbehaviour(lh, w.other.LatestCommittedHeader, w.other.LatestCommittedHeader)
		case "attest":
			cm = &attestations.AttestationProof{AttestationData: encodeData(AData{Kind: "state", H: 3, Ts: 3}), Signatures: [][]byte{make([]byte, 65)}}
		}
		if a.Via == "tx" {
			tx(clienttypes.NewMsgUpdateClient(lh, cm, w.signer()))
		} else {
			keeperCall(func(ctx sdk.Context) error { return ck.UpdateClient(ctx, lh, cm) })
		}
	case "Upgrade":
		var p1, p2 []byte
		if a.Shape != "empty" {
			p1, p2 = []byte("proof-client"), []byte("proof-consensus")
		}
		if a.Via == "tx" {
			tx(clienttypes.NewMsgUpgradeClient(lh, tmCS, tmCons, p1, p2, w.signer()))
		} else {
			csBz, _ := cdc.Marshal(tmCS)
			consBz, _ := cdc.Marshal(tmCons)
			if a.Shape == "garbage" {
				csBz, consBz = []byte{0xff}, []byte{0xfe}
			}
			keeperCall(func(ctx sdk.Context) error { return ck.UpgradeClient(ctx, lh, csBz, consBz, p1, p2) })
		}
	case "Recover":
		subst := lh
		switch a.Shape {
		case "tmsubstitute":
			subst = w.tmClient
		case "missing":
			subst = "07-tendermint-99"
		}
		if a.Via == "msgserver" {
			ibck := w.chain.App.GetIBCKeeper()
			keeperCall(func(ctx sdk.Context) error {
				_, err := ibck.RecoverClient(ctx, clienttypes.NewMsgRecoverClient(ibck.GetAuthority(), lh, subst))
				return err
			})
		} else {
			keeperCall(func(ctx sdk.Context) error { return ck.RecoverClient(ctx, lh, subst) })
		}
	default:
		line.Res, line.Err = "err", "unknown op"
	}
	line.Dig1 = w.ibcDigest(w.chain.GetContext())
	emit(line)
}

// ---------------------------------------------------------------------------------------------------
// C04 (localhost): loopback channel
// ---------------------------------------------------------------------------------------------------

type LoopAction struct {
	A   string `json:"a"` // LBlock | LSend | LRecv | LTimeout
	Dt  int64  `json:"dt"`
	ToH int64  `json:"toH"`
	ToT int64  `json:"toT"`
	Seq uint64 `json:"seq"`
	Ph  int64  `json:"ph"`
}

type LoopSchedule struct {
	ID   string            `json:"id"`
	Acts []json.RawMessage `json:"acts"`
}

type LoopEv struct {
	Ev  string `json:"ev"`
	Seq uint64 `json:"seq"`
}

type LoopState struct {
	H      int64    `json:"h"`
	Now    int64    `json:"now"`
	Commit []uint64 `json:"commit"`
	Rcpt   []uint64 `json:"rcpt"`
	Log    []LoopEv `json:"log"`
	// diagnostics (not read by TLC)
	RealHeight int64 `json:"real_height"`
}

type LoopLine struct {
	Tr   string          `json:"tr"`
	I    int             `json:"i"`
	Kind string          `json:"kind"` // loop
	A    json.RawMessage `json:"a"`
	Res  string          `json:"res"`
	Err  string          `json:"err,omitempty"`
	St   LoopState       `json:"st"`
	Info string          `json:"info,omitempty"`
}

// LoopWorld is a channel whose two ends live on the same chain over connection-localhost.
type LoopWorld struct {
	*Base
	chA, chB string
	H0       int64
	T0       time.Time
	now      int64
	sent     map[uint64]channeltypes.Packet
	log      []LoopEv
	pending  []LoopEv
}

var sentinel = localhost.SentinelProof

// NewLoopWorld opens a fresh loopback channel pair on the (shared) chain.
func NewLoopWorld(t *testing.T, b *Base) *LoopWorld {
	w := &LoopWorld{Base: b, sent: map[uint64]channeltypes.Packet{}}
	conn := []string{exported.LocalhostConnectionID}
	h := func() clienttypes.Height { return clienttypes.NewHeight(clienttypes.ParseChainID(b.chain.ChainID), uint64(b.chain.App.LastBlockHeight())) }
	must := func(step string, msg sdk.Msg) []string {
		r, err := b.chain.SendMsgs(msg)
		b.resync()
		if err != nil {
			t.Fatalf("loopback set-up %s: %v", step, err)
		}
		id, _ := ibctesting.ParseChannelIDFromEvents(r.Events)
		return []string{id}
	}
	w.chA = must("init", channeltypes.NewMsgChannelOpenInit(ibcmock.PortID, ibcmock.Version, channeltypes.UNORDERED, conn, ibcmock.PortID, b.signer()))[0]
	w.chB = must("try", channeltypes.NewMsgChannelOpenTry(ibcmock.PortID, ibcmock.Version, channeltypes.UNORDERED, conn, ibcmock.PortID, w.chA, ibcmock.Version, sentinel, h(), b.signer()))[0]
	must("ack", channeltypes.NewMsgChannelOpenAck(ibcmock.PortID, w.chA, w.chB, ibcmock.Version, sentinel, h(), b.signer()))
	must("confirm", channeltypes.NewMsgChannelOpenConfirm(ibcmock.PortID, w.chB, sentinel, h(), b.signer()))

	app := b.chain.GetSimApp().IBCMockModule.IBCApp
	app.OnRecvPacket = func(ctx sdk.Context, _ string, p channeltypes.Packet, _ sdk.AccAddress) exported.Acknowledgement {
		w.note(ctx, "recv", p)
		return ibcmock.MockAcknowledgement
	}
	app.OnTimeoutPacket = func(ctx sdk.Context, _ string, p channeltypes.Packet, _ sdk.AccAddress) error {
		w.note(ctx, "timeout", p)
		return nil
	}
	app.OnAcknowledgementPacket = func(ctx sdk.Context, _ string, p channeltypes.Packet, _ []byte, _ sdk.AccAddress) error {
		w.note(ctx, "ack", p)
		return nil
	}
	// relative height 0 / tick 0 = the block committed now
	w.T0 = b.coord.CurrentTime.Truncate(time.Second).Add(2 * time.Second)
	b.coord.SetTime(w.T0)
	b.chain.NextBlock()
	w.H0 = b.chain.App.LastBlockHeight()
	return w
}

func (w *LoopWorld) note(ctx sdk.Context, ev string, p channeltypes.Packet) {
	if ctx.ExecMode() != sdk.ExecModeFinalize {
		return
	}
	if p.SourceChannel != w.chA || p.DestinationChannel != w.chB {
		w.pending = append(w.pending, LoopEv{Ev: ev + "-foreign", Seq: p.Sequence})
		return
	}
	w.pending = append(w.pending, LoopEv{Ev: ev, Seq: p.Sequence})
}

func (w *LoopWorld) rev() uint64 { return clienttypes.ParseChainID(w.chain.ChainID) }

func (w *LoopWorld) State() LoopState {
	ctx := w.chain.GetContext()
	k := w.chain.App.GetIBCKeeper().ChannelKeeper
	st := LoopState{H: w.chain.App.LastBlockHeight() - w.H0, Now: w.now, Commit: []uint64{}, Rcpt: []uint64{}, Log: append([]LoopEv{}, w.log...),
		RealHeight: w.chain.App.LastBlockHeight()}
	for seq := uint64(1); seq <= uint64(len(w.sent))+2; seq++ {
		if len(k.GetPacketCommitment(ctx, ibcmock.PortID, w.chA, seq)) > 0 {
			st.Commit = append(st.Commit, seq)
		}
		if _, ok := k.GetPacketReceipt(ctx, ibcmock.PortID, w.chB, seq); ok {
			st.Rcpt = append(st.Rcpt, seq)
		}
	}
	return st
}

func (w *LoopWorld) Exec(a LoopAction) (res, errStr, info string) {
	w.now += a.Dt
	w.coord.SetTime(w.T0.Add(time.Duration(w.now) * time.Second))
	w.pending = nil
	switch a.A {
	case "LBlock":
		w.chain.NextBlock()
		res = "ok"
	case "LSend":
		toH := clienttypes.ZeroHeight()
		if a.ToH != 0 {
			toH = clienttypes.NewHeight(w.rev(), uint64(w.H0+a.ToH))
		}
		var toT uint64
		if a.ToT != 0 {
			toT = uint64(w.T0.Add(time.Duration(a.ToT) * time.Second).UnixNano())
		}
		var seq uint64
		// the application module sends (no message type exists for the mock application); the block is committed by direct
		w.chain.Coordinator.UpdateTimeForChain(w.chain)
		res, errStr = w.direct(func(ctx sdk.Context) error {
			var err error
			seq, err = w.chain.App.GetIBCKeeper().ChannelKeeper.SendPacket(ctx, ibcmock.PortID, w.chA, toH, toT, ibcmock.MockPacketData)
			return err
		})
		if res == "ok" {
			w.sent[seq] = channeltypes.NewPacket(ibcmock.MockPacketData, seq, ibcmock.PortID, w.chA, ibcmock.PortID, w.chB, toH, toT)
		}
	case "LRecv", "LTimeout":
		p, ok := w.sent[a.Seq]
		if !ok {
			p = channeltypes.NewPacket(ibcmock.MockPacketData, a.Seq, ibcmock.PortID, w.chA, ibcmock.PortID, w.chB, clienttypes.NewHeight(w.rev(), uint64(w.H0+1000)), 0)
		}
		if a.A == "LRecv" {
			ph := clienttypes.NewHeight(w.rev(), uint64(w.chain.App.LastBlockHeight()))
			res, errStr = w.send(channeltypes.NewMsgRecvPacket(p, sentinel, ph, w.signer()))
		} else {
			ph := clienttypes.NewHeight(w.rev(), uint64(w.H0+a.Ph))
			res, errStr = w.send(channeltypes.NewMsgTimeout(p, 1, sentinel, ph, w.signer()))
			info = fmt.Sprintf("chain height at execution %d, packet timeout height %s timestamp %d, claimed proof height %s, block time %d",
				w.chain.App.LastBlockHeight(), p.TimeoutHeight, p.TimeoutTimestamp, ph, w.T0.Add(time.Duration(w.now)*time.Second).UnixNano())
		}
	default:
		return "err", "unknown action", ""
	}
	if res == "ok" || res == "noop" {
		w.log = append(w.log, w.pending...)
	}
	return res, errStr, info
}

func RunLoop(t *testing.T, b *Base, s LoopSchedule, emit func(any)) {
	w := NewLoopWorld(t, b)
	emit(LoopLine{Tr: s.ID, I: 0, Kind: "loop", A: json.RawMessage(`{"a":"Init","dt":0}`), Res: "ok", St: w.State()})
	for i, raw := range s.Acts {
		var a LoopAction
		if err := json.Unmarshal(raw, &a); err != nil {
			t.Fatalf("schedule %s: %v", s.ID, err)
		}
		res, errStr, info := w.Exec(a)
		emit(LoopLine{Tr: s.ID, I: i + 1, Kind: "loop", A: raw, Res: res, Err: errStr, St: w.State(), Info: info})
	}
}
