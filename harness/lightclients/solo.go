package lightclients

import (
	"encoding/json"
	"fmt"
	"strconv"
	"testing"

	"github.com/cosmos/cosmos-sdk/codec"
	codectypes "github.com/cosmos/cosmos-sdk/codec/types"
	kmultisig "github.com/cosmos/cosmos-sdk/crypto/keys/multisig"
	"github.com/cosmos/cosmos-sdk/crypto/keys/secp256k1"
	cryptotypes "github.com/cosmos/cosmos-sdk/crypto/types"
	"github.com/cosmos/cosmos-sdk/crypto/types/multisig"
	sdk "github.com/cosmos/cosmos-sdk/types"
	"github.com/cosmos/cosmos-sdk/types/tx/signing"

	clienttypes "github.com/cosmos/ibc-go/v11/modules/core/02-client/types"
	commitmenttypesv2 "github.com/cosmos/ibc-go/v11/modules/core/23-commitment/types/v2"
	host "github.com/cosmos/ibc-go/v11/modules/core/24-host"
	solomachine "github.com/cosmos/ibc-go/v11/modules/light-clients/06-solomachine"

	"verif/harness/lib"
)

// SigTerm is the abstract signature of SoloMachine.tla: what was signed, by which key, in which form.
type SigTerm struct {
	Pk   int    `json:"pk"`
	Seq  uint64 `json:"seq"`
	Ts   uint64 `json:"ts"`
	Div  string `json:"div"`
	Path string `json:"path"`
	Data string `json:"data"`
	Enc  string `json:"enc"`  // raw | merkle : how the path is put into the sign bytes
	Form string `json:"form"` // full | partial | wrongtype
}

type SoloAction struct {
	A     string   `json:"a"`
	Sig   *SigTerm `json:"sig,omitempty"`
	Ts    uint64   `json:"ts,omitempty"`
	Npk   int      `json:"npk,omitempty"`
	Ndiv  string   `json:"ndiv,omitempty"`
	Path  string   `json:"path,omitempty"`
	Data  string   `json:"data,omitempty"`
	Plen  int      `json:"plen,omitempty"`
	Ph    uint64   `json:"ph,omitempty"` // claimed proof height of VM / VNM: 0 = zero height, n = revision height n
	Seq   uint64   `json:"seq,omitempty"`
	Pform string   `json:"pform,omitempty"`
	Sig1  *SigTerm `json:"sig1,omitempty"`
	Sig2  *SigTerm `json:"sig2,omitempty"`
	Ts1   uint64   `json:"ts1,omitempty"`
	Ts2   uint64   `json:"ts2,omitempty"`
	Path1 string   `json:"path1,omitempty"`
	Path2 string   `json:"path2,omitempty"`
	Data1 string   `json:"data1,omitempty"`
	Data2 string   `json:"data2,omitempty"`
}

type SoloSchedule struct {
	ID   string            `json:"id"`
	Kind string            `json:"kind"` // single | multi
	Acts []json.RawMessage `json:"acts"`
}

type SoloState struct {
	Seq    uint64 `json:"seq"`
	Ts     uint64 `json:"ts"`
	Pk     int    `json:"pk"` // 0 = a key the harness does not know
	Div    string `json:"div"`
	Frozen bool   `json:"frozen"`
}

type SoloLine struct {
	Tr   string          `json:"tr"`
	I    int             `json:"i"`
	Kind string          `json:"kind"`
	A    json.RawMessage `json:"a"`
	Res  string          `json:"res"`
	Err  string          `json:"err,omitempty"`
	St   SoloState       `json:"st"`
}

type soloKey struct {
	privs []cryptotypes.PrivKey
	pub   cryptotypes.PubKey
}

// SoloWorld is one solo machine client on a real chain.
type SoloWorld struct {
	*Base
	kind     string
	cdc      codec.BinaryCodec
	clientID string
	keys     map[int]soloKey
	byPub    map[string]int
}

func (w *SoloWorld) key(id int) soloKey {
	if k, ok := w.keys[id]; ok {
		return k
	}
	n := 1
	if w.kind == "multi" {
		n = 2
	}
	var k soloKey
	pubs := make([]cryptotypes.PubKey, n)
	for j := 0; j < n; j++ {
		p := secp256k1.GenPrivKeyFromSecret([]byte(fmt.Sprintf("verif-solo-%s-%s-%d-%d", lib.EnvStr("VERIF_SEED", "1"), w.kind, id, j)))
		k.privs = append(k.privs, p)
		pubs[j] = p.PubKey()
	}
	if n > 1 {
		k.pub = kmultisig.NewLegacyAminoPubKey(n, pubs)
	} else {
		k.pub = pubs[0]
	}
	w.keys[id] = k
	w.byPub[string(k.pub.Bytes())] = id
	return k
}

func NewSoloWorld(t *testing.T, b *Base, kind string) *SoloWorld {
	w := &SoloWorld{Base: b, kind: kind, cdc: b.chain.App.AppCodec(), keys: map[int]soloKey{}, byPub: map[string]int{}}
	for id := 1; id <= 4; id++ {
		w.key(id)
	}
	pkAny, err := codectypes.NewAnyWithValue(w.key(1).pub)
	if err != nil {
		t.Fatal(err)
	}
	cons := &solomachine.ConsensusState{PublicKey: pkAny, Diversifier: "d1", Timestamp: 1}
	id, err := b.createClient(solomachine.NewClientState(1, cons), cons)
	if err != nil {
		t.Fatalf("create solo machine client: %v", err)
	}
	w.clientID = id
	return w
}

func (w *SoloWorld) State() SoloState {
	csI, ok := w.chain.App.GetIBCKeeper().ClientKeeper.GetClientState(w.chain.GetContext(), w.clientID)
	if !ok {
		return SoloState{}
	}
	cs := csI.(*solomachine.ClientState)
	st := SoloState{Seq: cs.Sequence, Ts: cs.ConsensusState.Timestamp, Div: cs.ConsensusState.Diversifier, Frozen: cs.IsFrozen}
	if pk, err := cs.ConsensusState.GetPubKey(); err == nil {
		st.Pk = w.byPub[string(pk.Bytes())]
	}
	return st
}

// ---- concrete values of abstract terms -------------------------------------------------------------

// soloKeyBytes: the abstract store keys are real ICS-24 keys.
func soloKeyBytes(p string) []byte {
	switch p {
	case "hdr":
		return []byte(solomachine.SentinelHeaderPath)
	case "p1":
		return host.ChannelKey("transfer", "channel-0")
	case "p2":
		return host.PacketCommitmentKey("transfer", "channel-0", 1)
	}
	return []byte("verif/solo/" + p)
}

func merklePathOf(p string, plen int) commitmenttypesv2.MerklePath {
	k := soloKeyBytes(p)
	switch plen {
	case 1:
		return commitmenttypesv2.NewMerklePath(k)
	case 3:
		return commitmenttypesv2.NewMerklePath([]byte("ibc"), k, []byte("extra"))
	}
	return commitmenttypesv2.NewMerklePath([]byte("ibc"), k)
}

// signedPath is the Path field of the sign bytes: the raw key (what proof verification signs) or the proto-encoded
// MerklePath (what the misbehaviour handler additionally requires the path to decode as).
func (w *SoloWorld) signedPath(p, enc string) []byte {
	if enc == "merkle" {
		mp := merklePathOf(p, 2)
		bz, err := w.cdc.Marshal(&mp)
		if err != nil {
			panic(err)
		}
		return bz
	}
	return soloKeyBytes(p)
}

func (w *SoloWorld) dataBytes(d string) []byte {
	switch {
	case d == "none":
		return nil
	case len(d) >= 2 && d[0] == 'H': // header data: H<key id><diversifier>
		id, err := strconv.Atoi(d[1:2])
		if err != nil {
			return []byte("verif-data-" + d)
		}
		pkAny, err := codectypes.NewAnyWithValue(w.key(id).pub)
		if err != nil {
			panic(err)
		}
		bz, err := w.cdc.Marshal(&solomachine.HeaderData{NewPubKey: pkAny, NewDiversifier: d[2:]})
		if err != nil {
			panic(err)
		}
		return bz
	}
	return []byte("verif-data-" + d)
}

// signature builds the REAL signature described by a term: sign bytes from the term's own fields, signed with the
// term's key, encoded in the term's form.
func (w *SoloWorld) signature(s *SigTerm) []byte {
	sb := &solomachine.SignBytes{Sequence: s.Seq, Timestamp: s.Ts, Diversifier: s.Div, Path: w.signedPath(s.Path, s.Enc), Data: w.dataBytes(s.Data)}
	bz, err := w.cdc.Marshal(sb)
	if err != nil {
		panic(err)
	}
	k := w.key(s.Pk)
	single := func(p cryptotypes.PrivKey) signing.SignatureData {
		sig, err := p.Sign(bz)
		if err != nil {
			panic(err)
		}
		return &signing.SingleSignatureData{Signature: sig}
	}
	multi := func(n int) signing.SignatureData {
		m := multisig.NewMultisig(len(k.privs))
		for i := 0; i < n && i < len(k.privs); i++ {
			multisig.AddSignature(m, single(k.privs[i]), i)
		}
		return m
	}
	var sd signing.SignatureData
	isMulti := len(k.privs) > 1
	switch s.Form {
	case "partial":
		if isMulti {
			sd = multi(len(k.privs) - 1)
		} else { // a single key cannot sign partially: an empty signature
			sd = &signing.SingleSignatureData{Signature: []byte{}}
		}
	case "wrongtype":
		if isMulti {
			sd = single(k.privs[0])
		} else {
			m := multisig.NewMultisig(1)
			multisig.AddSignature(m, single(k.privs[0]), 0)
			sd = m
		}
	default:
		if isMulti {
			sd = multi(len(k.privs))
		} else {
			sd = single(k.privs[0])
		}
	}
	out, err := w.cdc.Marshal(signing.SignatureDataToProto(sd))
	if err != nil {
		panic(err)
	}
	return out
}

func (w *SoloWorld) Exec(a SoloAction) (string, string) {
	switch a.A {
	case "Header":
		pkAny, err := codectypes.NewAnyWithValue(w.key(a.Npk).pub)
		if err != nil {
			return "err", err.Error()
		}
		h := &solomachine.Header{Timestamp: a.Ts, Signature: w.signature(a.Sig), NewPublicKey: pkAny, NewDiversifier: a.Ndiv}
		msg, err := clienttypes.NewMsgUpdateClient(w.clientID, h, w.signer())
		if err != nil {
			return "err", err.Error()
		}
		return w.send(msg)
	case "VM", "VNM":
		proof, err := w.cdc.Marshal(&solomachine.TimestampedSignatureData{SignatureData: w.signature(a.Sig), Timestamp: a.Ts})
		if err != nil {
			return "err", err.Error()
		}
		path := merklePathOf(a.Path, a.Plen)
		ck := w.chain.App.GetIBCKeeper().ClientKeeper
		return w.direct(func(ctx sdk.Context) error {
			// the claimed proof height is part of the schedule (the caller's claim, not the client's latest height)
			h := clienttypes.NewHeight(0, a.Ph)
			if a.A == "VM" {
				val := w.dataBytes(a.Data)
				if val == nil {
					val = []byte{}
				}
				return ck.VerifyMembership(ctx, w.clientID, h, 0, 0, proof, path, val)
			}
			return ck.VerifyNonMembership(ctx, w.clientID, h, 0, 0, proof, path)
		})
	case "Misb":
		m := &solomachine.Misbehaviour{
			Sequence:     a.Seq,
			SignatureOne: &solomachine.SignatureAndData{Signature: w.signature(a.Sig1), Path: w.signedPath(a.Path1, a.Pform), Data: w.dataBytes(a.Data1), Timestamp: a.Ts1},
			SignatureTwo: &solomachine.SignatureAndData{Signature: w.signature(a.Sig2), Path: w.signedPath(a.Path2, a.Pform), Data: w.dataBytes(a.Data2), Timestamp: a.Ts2},
		}
		msg, err := clienttypes.NewMsgUpdateClient(w.clientID, m, w.signer())
		if err != nil {
			return "err", err.Error()
		}
		return w.send(msg)
	}
	return "err", "unknown action " + a.A
}

// RunSolo executes one schedule on a fresh client.
func RunSolo(t *testing.T, b *Base, s SoloSchedule, emit func(any)) {
	w := NewSoloWorld(t, b, s.Kind)
	emit(SoloLine{Tr: s.ID, I: 0, Kind: s.Kind, A: json.RawMessage(`{"a":"Init"}`), Res: "ok", St: w.State()})
	for i, raw := range s.Acts {
		var a SoloAction
		if err := json.Unmarshal(raw, &a); err != nil {
			t.Fatalf("schedule %s step %d: %v", s.ID, i+1, err)
		}
		res, errStr := w.Exec(a)
		emit(SoloLine{Tr: s.ID, I: i + 1, Kind: s.Kind, A: raw, Res: res, Err: errStr, St: w.State()})
	}
}
