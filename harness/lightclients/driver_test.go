package lightclients

import (
	"encoding/json"
	"fmt"
	"testing"

	"verif/harness/lib"
)

func open(t *testing.T) (*lib.TraceWriter, func(any)) {
	tracePath := lib.EnvStr("VERIF_TRACE", "")
	if tracePath == "" {
		t.Skip("VERIF_TRACE not set")
	}
	tw, err := lib.NewTraceWriter(tracePath)
	if err != nil {
		t.Fatal(err)
	}
	return tw, func(v any) { tw.Emit(v) }
}

// TestSolo executes solo machine schedules ($VERIF_SCHED, ndjson) -- C26.
func TestSolo(t *testing.T) {
	path := lib.EnvStr("VERIF_SCHED", "")
	if path == "" {
		t.Skip("VERIF_SCHED not set")
	}
	scheds, err := lib.ReadNDJSON[SoloSchedule](path)
	if err != nil {
		t.Fatal(err)
	}
	tw, emit := open(t)
	defer tw.Close()
	b := NewBase(t)
	for _, s := range scheds {
		RunSolo(t, b, s, emit)
	}
}

// TestAttest executes attestation cases ($VERIF_CASES) and transaction histories ($VERIF_HISTS) -- C28.
func TestAttest(t *testing.T) {
	tw, emit := open(t)
	defer tw.Close()
	w := NewAttestWorld(t, NewBase(t))
	if p := lib.EnvStr("VERIF_CASES", ""); p != "" {
		cases, err := lib.ReadNDJSON[ACase](p)
		if err != nil {
			t.Fatal(err)
		}
		for _, c := range cases {
			w.RunCase(c, emit)
		}
	}
	if p := lib.EnvStr("VERIF_HISTS", ""); p != "" {
		hists, err := lib.ReadNDJSON[AHist](p)
		if err != nil {
			t.Fatal(err)
		}
		for _, h := range hists {
			w.RunHist(h, emit)
		}
	}
}

// TestLocalhost executes the verification table ($VERIF_CASES) and the client messages ($VERIF_OPS) -- C27.
func TestLocalhost(t *testing.T) {
	tw, emit := open(t)
	defer tw.Close()
	w := NewLocalWorld(t, NewBase(t))
	if p := lib.EnvStr("VERIF_CASES", ""); p != "" {
		cases, err := lib.ReadNDJSON[LCase](p)
		if err != nil {
			t.Fatal(err)
		}
		for _, c := range cases {
			w.RunTable(c, emit)
		}
	}
	if p := lib.EnvStr("VERIF_OPS", ""); p != "" {
		ops, err := lib.ReadNDJSON[json.RawMessage](p)
		if err != nil {
			t.Fatal(err)
		}
		for i, raw := range ops {
			w.RunOp(fmt.Sprintf("op-%d", i), raw, emit)
		}
	}
}

// TestLoop executes loopback schedules ($VERIF_SCHED) -- C04, localhost part.
func TestLoop(t *testing.T) {
	path := lib.EnvStr("VERIF_SCHED", "")
	if path == "" {
		t.Skip("VERIF_SCHED not set")
	}
	scheds, err := lib.ReadNDJSON[LoopSchedule](path)
	if err != nil {
		t.Fatal(err)
	}
	tw, emit := open(t)
	defer tw.Close()
	b := NewBase(t)
	for _, s := range scheds {
		RunLoop(t, b, s, emit)
	}
}
