package ics20

import (
	"encoding/json"
	"fmt"
	"strings"
	"time"

	"github.com/cosmos/gogoproto/proto"

	sdkmath "cosmossdk.io/math"

	sdk "github.com/cosmos/cosmos-sdk/types"
	banktypes "github.com/cosmos/cosmos-sdk/x/bank/types"
	minttypes "github.com/cosmos/cosmos-sdk/x/mint/types"

	abci "github.com/cometbft/cometbft/abci/types"

	transfertypes "github.com/cosmos/ibc-go/v11/modules/apps/transfer/types"
	clienttypes "github.com/cosmos/ibc-go/v11/modules/core/02-client/types"
	channeltypes "github.com/cosmos/ibc-go/v11/modules/core/04-channel/types"
	channeltypesv2 "github.com/cosmos/ibc-go/v11/modules/core/04-channel/v2/types"
	host "github.com/cosmos/ibc-go/v11/modules/core/24-host"
	hostv2 "github.com/cosmos/ibc-go/v11/modules/core/24-host/v2"
	ibctesting "github.com/cosmos/ibc-go/v11/testing"

	"verif/harness/lib"
)

// result classes: ok | noop | err | panic
func classify(res *abci.ExecTxResult, err error) (string, string) {
	if err != nil {
		return "err", err.Error()
	}
	if res == nil {
		return "err", "nil result"
	}
	var msgData sdk.TxMsgData
	if e := proto.Unmarshal(res.Data, &msgData); e == nil {
		for _, r := range msgData.MsgResponses {
			switch {
			case strings.HasSuffix(r.TypeUrl, "ibc.core.channel.v1.MsgRecvPacketResponse"):
				var x channeltypes.MsgRecvPacketResponse
				if proto.Unmarshal(r.Value, &x) == nil && x.Result == channeltypes.NOOP {
					return "noop", ""
				}
			case strings.HasSuffix(r.TypeUrl, "ibc.core.channel.v1.MsgAcknowledgementResponse"):
				var x channeltypes.MsgAcknowledgementResponse
				if proto.Unmarshal(r.Value, &x) == nil && x.Result == channeltypes.NOOP {
					return "noop", ""
				}
			case strings.HasSuffix(r.TypeUrl, "ibc.core.channel.v1.MsgTimeoutResponse"):
				var x channeltypes.MsgTimeoutResponse
				if proto.Unmarshal(r.Value, &x) == nil && x.Result == channeltypes.NOOP {
					return "noop", ""
				}
			case strings.HasSuffix(r.TypeUrl, "ibc.core.channel.v2.MsgRecvPacketResponse"):
				var x channeltypesv2.MsgRecvPacketResponse
				if proto.Unmarshal(r.Value, &x) == nil && x.Result == channeltypesv2.NOOP {
					return "noop", ""
				}
			case strings.HasSuffix(r.TypeUrl, "ibc.core.channel.v2.MsgAcknowledgementResponse"):
				var x channeltypesv2.MsgAcknowledgementResponse
				if proto.Unmarshal(r.Value, &x) == nil && x.Result == channeltypesv2.NOOP {
					return "noop", ""
				}
			case strings.HasSuffix(r.TypeUrl, "ibc.core.channel.v2.MsgTimeoutResponse"):
				var x channeltypesv2.MsgTimeoutResponse
				if proto.Unmarshal(r.Value, &x) == nil && x.Result == channeltypesv2.NOOP {
					return "noop", ""
				}
			}
		}
	}
	return "ok", ""
}

// sendTx delivers msgs in one transaction = one block on chain c, signed by the named account.
func (w *World) sendTx(c, signer string, msgs ...sdk.Msg) (txres *abci.ExecTxResult, res string, errStr string) {
	defer func() {
		if r := recover(); r != nil {
			res, errStr = "panic", fmt.Sprint(r)
		}
	}()
	acc, ok := w.acct[c][signer]
	if !ok {
		return nil, "err", "unknown signer " + signer
	}
	r, err := w.ch[c].SendMsgsWithSender(acc, msgs...)
	w.resync(c, signer)
	res, errStr = classify(r, err)
	return r, res, errStr
}

// resync re-reads an account's sequence from chain state: ibctesting bumps its local copy even when the
// transaction is rejected in the ante handler (where the chain does not).
func (w *World) resync(c, name string) {
	chain := w.ch[c]
	sa := w.acct[c][name]
	acc := chain.GetSimApp().AccountKeeper.GetAccount(chain.GetContext(), sa.SenderAccount.GetAddress())
	if acc != nil {
		_ = sa.SenderAccount.SetSequence(acc.GetSequence())
	}
}

// updateClient brings the light client that chain c holds for the channel end e up to the counterparty's last
// committed header (after committing one more block there, so that the header carries the latest state root).
func (w *World) updateClient(e string) (string, string) {
	c, o := endChain(e), endChain(peer(e))
	w.block(o)
	clientID := w.ep[e].ClientID
	trusted, ok := w.ch[c].GetClientLatestHeight(clientID).(clienttypes.Height)
	if !ok {
		return "err", "client height"
	}
	hdr := *w.ch[o].LatestCommittedHeader
	h, err := w.ch[o].IBCClientHeader(&hdr, trusted)
	if err != nil {
		return "err", err.Error()
	}
	msg, err := clienttypes.NewMsgUpdateClient(clientID, h, w.addr[c]["rly"].String())
	if err != nil {
		return "err", err.Error()
	}
	_, res, es := w.sendTx(c, "rly", msg)
	return res, es
}

// ftpd is the harness' own view of the ICS-20 v1 packet data JSON.
type ftpd struct {
	Denom    string `json:"denom"`
	Amount   string `json:"amount"`
	Sender   string `json:"sender"`
	Receiver string `json:"receiver"`
	Memo     string `json:"memo,omitempty"`
}

func (w *World) timeouts(dst string, to string, proto string) (clienttypes.Height, uint64) {
	if to == "h" {
		return clienttypes.NewHeight(revision(w.ch[dst]), uint64(w.ch[dst].App.LastBlockHeight())+1), 0
	}
	end := w.epochEnd(w.epoch)
	if proto == "v1" {
		return clienttypes.ZeroHeight(), uint64(end.UnixNano())
	}
	return clienttypes.ZeroHeight(), uint64(end.Unix())
}

func i64str(n int64) string { return fmt.Sprintf("%d", n) }

// Exec executes one abstract action against the real chains and returns its result class.
func (w *World) Exec(a Action) (res string, errStr string) {
	defer func() {
		if r := recover(); r != nil {
			res, errStr = "panic", fmt.Sprint(r)
		}
	}()
	switch a.A {
	case "Tick":
		w.epoch++
		w.coord.SetTime(w.epochEnd(w.epoch - 1).Add(2 * time.Second))
		for _, c := range chainNames {
			w.block(c)
		}
		return "ok", ""

	case "Fund":
		chain := w.ch[a.C]
		d := Denom{Tr: []string{}, Base: a.Base}
		w.learn(a.C, d)
		res, errStr = func() (r string, es string) {
			defer func() {
				if x := recover(); x != nil {
					r, es = "err", fmt.Sprint(x)
				}
			}()
			coin := sdk.Coin{Denom: a.Base, Amount: sdkmath.NewInt(a.Amt)}
			if err := coin.Validate(); err != nil {
				return "err", err.Error()
			}
			if !coin.IsPositive() {
				return "err", "amount"
			}
			ctx := chain.GetContext()
			bk := chain.GetSimApp().BankKeeper
			if err := bk.MintCoins(ctx, minttypes.ModuleName, sdk.NewCoins(coin)); err != nil {
				return "err", err.Error()
			}
			if err := bk.SendCoinsFromModuleToAccount(ctx, minttypes.ModuleName, w.addr[a.C][a.Acct], sdk.NewCoins(coin)); err != nil {
				return "err", err.Error()
			}
			return "ok", ""
		}()
		w.block(a.C)
		return res, errStr

	case "Params":
		chain := w.ch[a.C]
		chain.GetSimApp().TransferKeeper.SetParams(chain.GetContext(), transfertypes.NewParams(a.Send == nil || *a.Send, a.Recv == nil || *a.Recv))
		w.block(a.C)
		return "ok", ""

	case "BankSend":
		w.learn(a.C, *a.Denom)
		coin := sdk.Coin{Denom: w.bankDenom(*a.Denom), Amount: sdkmath.NewInt(a.Amt)}
		to, ok := w.addr[a.C][a.To]
		if !ok {
			return "err", "unknown account"
		}
		msg := &banktypes.MsgSend{FromAddress: w.addr[a.C][a.From].String(), ToAddress: to.String(), Amount: sdk.Coins{coin}}
		_, res, errStr = w.sendTx(a.C, a.From, msg)
		return res, errStr

	case "ExportImport":
		chain := w.ch[a.C]
		app := chain.GetSimApp()
		_, err := lib.ExportImportModules(chain.GetContext(), app, app.ModuleManager, []string{"ibc", "transfer"})
		w.block(a.C)
		if err != nil {
			return "err", err.Error()
		}
		return "ok", ""

	case "Transfer":
		return w.transfer(a)

	case "Recv":
		return w.recv(a)

	case "Ack":
		return w.ack(a)

	case "Timeout":
		return w.timeout(a)
	}
	return "err", "unknown action " + a.A
}

func (w *World) transfer(a Action) (string, string) {
	c := a.C
	ep, ok := w.ep[a.E]
	if !ok || endChain(a.E) != c {
		return "err", "end does not belong to chain"
	}
	dst := endChain(peer(a.E))
	d := *a.Denom
	w.learn(c, d)
	coin := sdk.Coin{Denom: w.bankDenom(d), Amount: sdkmath.NewInt(a.Amt)}
	sender := w.addr[c][a.Sender].String()
	receiver := w.receiverString(dst, a.Receiver)
	toH, toT := w.timeouts(dst, a.To, a.Proto)
	var msg sdk.Msg
	switch a.Proto {
	case "v1":
		msg = transfertypes.NewMsgTransfer(ep.ChannelConfig.PortID, ep.ChannelID, coin, sender, receiver, toH, toT, "")
	case "alias":
		msg = transfertypes.NewMsgTransferAliased(ep.ChannelConfig.PortID, ep.ChannelID, coin, sender, receiver, clienttypes.ZeroHeight(), toT, "")
	case "v2":
		// a plain IBC v2 MsgSendPacket carrying an ICS-20 payload: the payload names its sender, the message its signer
		data, _ := json.Marshal(ftpd{Denom: w.render(d), Amount: i64str(a.Amt), Sender: sender, Receiver: receiver})
		pl := channeltypesv2.NewPayload(transfertypes.PortID, transfertypes.PortID, transfertypes.V1, transfertypes.EncodingJSON, data)
		msg = channeltypesv2.NewMsgSendPacket(ep.ChannelID, toT, w.addr[c][a.Signer].String(), pl)
	default:
		return "err", "unknown proto"
	}
	epochAtSend := w.epoch
	r, res, es := w.sendTx(c, a.Signer, msg)
	if res != "ok" || r == nil {
		return res, es
	}
	// the honest relayer learns the packet from the chain's events
	rp := &realPacket{}
	var raw []byte
	if a.Proto == "v1" {
		p, err := ibctesting.ParseV1PacketFromEvents(r.Events)
		if err != nil {
			return res, "no packet event: " + err.Error()
		}
		rp.v1 = p
		raw = p.Data
		rp.abs = PktSt{E: a.E, Seq: int64(p.Sequence), Proto: "v1"}
	} else {
		p, err := ibctesting.ParseV2PacketFromEvents(r.Events)
		if err != nil || len(p.Payloads) != 1 {
			return res, "no v2 packet event"
		}
		rp.v2 = p
		raw = p.Payloads[0].Value
		rp.abs = PktSt{E: a.E, Seq: int64(p.Sequence), Proto: "v2"}
	}
	var f ftpd
	_ = json.Unmarshal(raw, &f)
	rp.abs.Denom = w.absPath(c, f.Denom)
	var n int64
	fmt.Sscanf(f.Amount, "%d", &n)
	if i64str(n) != f.Amount {
		n = -1
	}
	rp.abs.Amt = n
	rp.abs.Sender = w.receiverName(c, f.Sender)
	rp.abs.Receiver = w.receiverName(dst, f.Receiver)
	rp.abs.Ep = epochAtSend
	rp.abs.To = a.To
	k := pktKey(rp.abs.E, rp.abs.Seq)
	w.pkts[k] = rp
	w.order = append(w.order, k)
	w.learn(c, rp.abs.Denom)
	return res, es
}

func (w *World) recv(a Action) (string, string) {
	rp, ok := w.pkts[pktKey(a.E, a.Seq)]
	de := peer(a.E)
	dst := endChain(de)
	if !ok || a.C != dst {
		return "err", "unknown packet"
	}
	src := endChain(a.E)
	if r, es := w.updateClient(de); r != "ok" {
		return "err", "client update: " + es
	}
	var msg sdk.Msg
	if rp.abs.Proto == "v1" {
		p := rp.v1
		proof, ph := w.ch[src].QueryProof(host.PacketCommitmentKey(p.SourcePort, p.SourceChannel, p.Sequence))
		msg = channeltypes.NewMsgRecvPacket(p, proof, ph, w.addr[dst][a.Rl].String())
	} else {
		p := rp.v2
		proof, ph := w.ch[src].QueryProof(hostv2.PacketCommitmentKey(p.SourceClient, p.Sequence))
		msg = channeltypesv2.NewMsgRecvPacket(p, proof, ph, w.addr[dst][a.Rl].String())
	}
	r, res, es := w.sendTx(dst, a.Rl, msg)
	if res == "ok" && r != nil {
		if rp.abs.Proto == "v1" {
			if bz, err := ibctesting.ParseAckFromEvents(r.Events); err == nil {
				rp.ack = bz
			}
		} else if bz, err := ibctesting.ParseAckV2FromEvents(r.Events); err == nil {
			var ack channeltypesv2.Acknowledgement
			if proto.Unmarshal(bz, &ack) == nil {
				rp.ackV2 = ack
				rp.ack = bz
			}
		}
	}
	return res, es
}

func (w *World) ack(a Action) (string, string) {
	rp, ok := w.pkts[pktKey(a.E, a.Seq)]
	src := endChain(a.E)
	if !ok || a.C != src {
		return "err", "unknown packet"
	}
	dst := endChain(peer(a.E))
	ackBz, ackV2 := rp.ack, rp.ackV2
	if ackBz == nil {
		// nothing was written on the destination (premature relay, or the packet timed out): the relayer
		// still submits the message, claiming a success acknowledgement, with the proof for the (empty) ack path
		ackBz = successAck
		ackV2 = channeltypesv2.Acknowledgement{AppAcknowledgements: [][]byte{successAck}}
	}
	if r, es := w.updateClient(a.E); r != "ok" {
		return "err", "client update: " + es
	}
	var msg sdk.Msg
	if rp.abs.Proto == "v1" {
		p := rp.v1
		proof, ph := w.ch[dst].QueryProof(host.PacketAcknowledgementKey(p.DestinationPort, p.DestinationChannel, p.Sequence))
		msg = channeltypes.NewMsgAcknowledgement(p, ackBz, proof, ph, w.addr[src][a.Rl].String())
	} else {
		p := rp.v2
		proof, ph := w.ch[dst].QueryProof(hostv2.PacketAcknowledgementKey(p.DestinationClient, p.Sequence))
		msg = channeltypesv2.NewMsgAcknowledgement(p, ackV2, proof, ph, w.addr[src][a.Rl].String())
	}
	_, res, es := w.sendTx(src, a.Rl, msg)
	return res, es
}

func (w *World) timeout(a Action) (string, string) {
	rp, ok := w.pkts[pktKey(a.E, a.Seq)]
	src := endChain(a.E)
	if !ok || a.C != src {
		return "err", "unknown packet"
	}
	dst := endChain(peer(a.E))
	if r, es := w.updateClient(a.E); r != "ok" {
		return "err", "client update: " + es
	}
	var msg sdk.Msg
	if rp.abs.Proto == "v1" {
		p := rp.v1
		proof, ph := w.ch[dst].QueryProof(host.PacketReceiptKey(p.DestinationPort, p.DestinationChannel, p.Sequence))
		msg = channeltypes.NewMsgTimeout(p, 1, proof, ph, w.addr[src][a.Rl].String())
	} else {
		p := rp.v2
		proof, ph := w.ch[dst].QueryProof(hostv2.PacketReceiptKey(p.DestinationClient, p.Sequence))
		msg = channeltypesv2.NewMsgTimeout(p, proof, ph, w.addr[src][a.Rl].String())
	}
	_, res, es := w.sendTx(src, a.Rl, msg)
	return res, es
}
