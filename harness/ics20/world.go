// Package ics20 drives the real ICS-20 transfer application (modules/apps/transfer of the repository under test)
// on three ibctesting chains joined by three transfer channels and records, after every step, the abstract state
// of spec/ics20/ICS20.tla as read through the public bank / transfer / channel keepers.  It never judges: TLC does
// (spec/ics20/Trace_ICS20.tla).
package ics20

import (
	"crypto/sha256"
	"encoding/hex"
	"encoding/json"
	"fmt"
	"sort"
	"strings"
	"testing"
	"time"

	sdk "github.com/cosmos/cosmos-sdk/types"
	authtypes "github.com/cosmos/cosmos-sdk/x/auth/types"
	distrtypes "github.com/cosmos/cosmos-sdk/x/distribution/types"

	transfertypes "github.com/cosmos/ibc-go/v11/modules/apps/transfer/types"
	clienttypes "github.com/cosmos/ibc-go/v11/modules/core/02-client/types"
	channeltypes "github.com/cosmos/ibc-go/v11/modules/core/04-channel/types"
	channeltypesv2 "github.com/cosmos/ibc-go/v11/modules/core/04-channel/v2/types"
	ibctesting "github.com/cosmos/ibc-go/v11/testing"
)

// ---- abstract values (JSON shapes shared with the TLA+ modules) ------------------------------------

// Denom is [tr |-> <<ends>>, base |-> string] of ICS20.tla.
type Denom struct {
	Tr   []string `json:"tr"`
	Base string   `json:"base"`
}

func (d Denom) key() string { return strings.Join(d.Tr, ",") + "|" + d.Base }

// Action is one schedule step (spec action record); unused fields stay empty.
type Action struct {
	A        string `json:"a"`
	C        string `json:"c,omitempty"`
	E        string `json:"e,omitempty"`
	Seq      int64  `json:"seq,omitempty"`
	Proto    string `json:"proto,omitempty"`
	Sender   string `json:"sender,omitempty"`
	Signer   string `json:"signer,omitempty"`
	Receiver string `json:"receiver,omitempty"`
	Denom    *Denom `json:"denom,omitempty"`
	Amt      int64  `json:"amt,omitempty"`
	To       string `json:"to,omitempty"`
	Rl       string `json:"rl,omitempty"`
	Acct     string `json:"acct,omitempty"`
	Base     string `json:"base,omitempty"`
	From     string `json:"from,omitempty"`
	Send     *bool  `json:"send,omitempty"`
	Recv     *bool  `json:"recv,omitempty"`
}

type Schedule struct {
	ID    string            `json:"id"`
	Kind  string            `json:"kind"`            // "walk" | "case"
	Uniq  bool              `json:"uniq"`            // ibctesting's unique channel ids (false: every chain counts from channel-0)
	Chan  map[string]uint64 `json:"chan,omitempty"`  // identifier layout: channel end -> N of its identifier channel-N (overrides uniq)
	Bases map[string]string `json:"bases,omitempty"` // placeholder -> concrete base denomination (filled by the runner)
	KF    string            `json:"kf,omitempty"`    // input class of a known finding (decided by TLC at generation)
	Acts  []json.RawMessage `json:"acts"`
}

type BalEntry struct {
	A string `json:"a"`
	D Denom  `json:"d"`
	N int64  `json:"n"`
}

type AmtEntry struct {
	D Denom `json:"d"`
	N int64 `json:"n"`
}

type RegEntry struct {
	D Denom  `json:"d"`
	K string `json:"k"` // store key (hash) under which the chain recorded the denomination
	H string `json:"h"` // SHA-256 of the full path, computed by the harness
}

type Params struct {
	Send bool `json:"send"`
	Recv bool `json:"recv"`
}

type ChainSt struct {
	Bal []BalEntry `json:"bal"`
	Sup []AmtEntry `json:"sup"`
	Esc []AmtEntry `json:"esc"`
	Reg []RegEntry `json:"reg"`
	Par Params     `json:"par"`
}

type PktSt struct {
	E        string `json:"e"`
	Seq      int64  `json:"seq"`
	Proto    string `json:"proto"`
	Denom    Denom  `json:"denom"`
	Amt      int64  `json:"amt"`
	Sender   string `json:"sender"`
	Receiver string `json:"receiver"`
	Ep       int64  `json:"ep"`
	To       string `json:"to"`
	Com      bool   `json:"com"`
	Rcv      bool   `json:"rcv"`
	Ack      string `json:"ack"`
}

type NsEntry struct {
	E string `json:"e"`
	N int64  `json:"n"`
}

type State struct {
	Ep int64              `json:"ep"`
	Ch map[string]ChainSt `json:"ch"`
	Ns []NsEntry          `json:"ns"`
	Pk []PktSt            `json:"pk"`
}

type TraceLine struct {
	Tr  string          `json:"tr"`
	I   int             `json:"i"`
	A   json.RawMessage `json:"a"`
	Res string          `json:"res"`
	Err string          `json:"err,omitempty"` // diagnostic only, never asserted
	St  State           `json:"st"`
}

// ---- the world: three real chains, three transfer channels ------------------------------------------

var chainNames = []string{"A", "B", "C"}
var allEnds = []string{"AB.A", "AB.B", "BC.B", "BC.C", "CA.C", "CA.A"}

func endChain(e string) string { return e[3:] }
func peer(e string) string {
	ch := e[:2]
	if e[3] == ch[0] {
		return ch + "." + string(ch[1])
	}
	return ch + "." + string(ch[0])
}

const epochDur = 3 * time.Hour

type realPacket struct {
	abs   PktSt
	v1    channeltypes.Packet
	v2    channeltypesv2.Packet
	ack   []byte // acknowledgement bytes as written by the receiving chain (from its events)
	ackV2 channeltypesv2.Acknowledgement
}

type World struct {
	t     *testing.T
	coord *ibctesting.Coordinator
	ch    map[string]*ibctesting.TestChain
	ep    map[string]*ibctesting.Endpoint // channel end -> endpoint
	T0    time.Time
	epoch int64

	acct     map[string]map[string]ibctesting.SenderAccount // chain -> name -> account (rly, u1..u3)
	addr     map[string]map[string]sdk.AccAddress           // chain -> tracked account name -> address
	addrName map[string]map[string]string                   // chain -> bech32 -> name
	rest     map[string][]sdk.AccAddress

	// dictionaries filled by the harness' own evaluation of names (never by the functions under test)
	pathDict map[string]map[string]Denom // chain -> full path string -> abstract denomination
	ibcDict  map[string]map[string]Denom // chain -> "ibc/HASH" -> abstract denomination

	pkts  map[string]*realPacket
	order []string
}

func pktKey(e string, seq int64) string { return fmt.Sprintf("%s#%d", e, seq) }

// NewWorld builds the three chains and the three transfer channels.  chanIDs (channel end -> N) fixes the channel
// identifiers deterministically (ibctesting's own uniqueness counter is process-global): the layouts used by the
// generators give the two ends of a channel different identifiers, let a chain's OTHER channel carry the counterparty's
// identifier, and make the two identifiers of a chain textual prefixes of one another (channel-1 / channel-10).
func NewWorld(t *testing.T, uniq bool, chanIDs map[string]uint64) *World {
	w := &World{t: t, ch: map[string]*ibctesting.TestChain{}, ep: map[string]*ibctesting.Endpoint{},
		acct: map[string]map[string]ibctesting.SenderAccount{}, addr: map[string]map[string]sdk.AccAddress{},
		addrName: map[string]map[string]string{}, rest: map[string][]sdk.AccAddress{},
		pathDict: map[string]map[string]Denom{}, ibcDict: map[string]map[string]Denom{}, pkts: map[string]*realPacket{}}
	ibctesting.TimeIncrement = time.Second
	w.coord = ibctesting.NewCoordinator(t, 3)
	for i, c := range chainNames {
		w.ch[c] = w.coord.GetChain(ibctesting.GetChainID(i + 1))
	}
	for _, pr := range [][2]string{{"A", "B"}, {"B", "C"}, {"C", "A"}} {
		path := ibctesting.NewTransferPath(w.ch[pr[0]], w.ch[pr[1]])
		ea, eb := pr[0]+pr[1]+"."+pr[0], pr[0]+pr[1]+"."+pr[1]
		if na, ok := chanIDs[ea]; ok {
			nb := chanIDs[eb]
			path.DisableUniqueChannelIDs()
			path.SetupConnections()
			w.ch[pr[0]].App.GetIBCKeeper().ChannelKeeper.SetNextChannelSequence(w.ch[pr[0]].GetContext(), na)
			w.ch[pr[1]].App.GetIBCKeeper().ChannelKeeper.SetNextChannelSequence(w.ch[pr[1]].GetContext(), nb)
			path.CreateChannels()
			if path.EndpointA.ChannelID != fmt.Sprintf("channel-%d", na) || path.EndpointB.ChannelID != fmt.Sprintf("channel-%d", nb) {
				t.Fatalf("channel identifier layout not obtained: %s/%s", path.EndpointA.ChannelID, path.EndpointB.ChannelID)
			}
		} else {
			if !uniq {
				path.DisableUniqueChannelIDs()
			}
			path.Setup()
		}
		w.ep[pr[0]+pr[1]+"."+pr[0]] = path.EndpointA
		w.ep[pr[0]+pr[1]+"."+pr[1]] = path.EndpointB
	}
	for _, c := range chainNames {
		chain := w.ch[c]
		w.acct[c] = map[string]ibctesting.SenderAccount{"rly": chain.SenderAccounts[0], "u1": chain.SenderAccounts[1],
			"u2": chain.SenderAccounts[2], "u3": chain.SenderAccounts[3]}
		w.addr[c] = map[string]sdk.AccAddress{}
		for n, a := range w.acct[c] {
			w.addr[c][n] = a.SenderAccount.GetAddress()
		}
		for _, a := range chain.SenderAccounts[4:] {
			w.rest[c] = append(w.rest[c], a.SenderAccount.GetAddress())
		}
		w.addr[c]["mod"] = authtypes.NewModuleAddress(transfertypes.ModuleName)
		w.addr[c]["blk"] = authtypes.NewModuleAddress(distrtypes.ModuleName)
		for _, e := range allEnds {
			if endChain(e) == c {
				w.addr[c]["esc:"+e] = escrowAddress(w.ep[e].ChannelConfig.PortID, w.ep[e].ChannelID)
			}
		}
		w.addrName[c] = map[string]string{}
		for n, a := range w.addr[c] {
			w.addrName[c][a.String()] = n
		}
		w.pathDict[c] = map[string]Denom{}
		w.ibcDict[c] = map[string]Denom{}
	}
	w.T0 = w.coord.CurrentTime
	return w
}

// escrowAddress evaluates the escrow address term of Denom.tla independently of the code under test:
// the first 20 bytes of SHA-256("ics20-1" 0x00 port "/" channel).
func escrowAddress(port, channel string) sdk.AccAddress {
	pre := append([]byte("ics20-1"), 0)
	pre = append(pre, []byte(port+"/"+channel)...)
	h := sha256.Sum256(pre)
	return sdk.AccAddress(h[:20])
}

func (w *World) chanID(e string) string { return w.ep[e].ChannelID }

// render is the harness' own rendering of an abstract denomination as an ICS-20 path on a real chain.
func (w *World) render(d Denom) string {
	var sb strings.Builder
	for _, e := range d.Tr {
		ep, ok := w.ep[e]
		if !ok {
			sb.WriteString("?/?/")
			continue
		}
		sb.WriteString(ep.ChannelConfig.PortID + "/" + ep.ChannelID + "/")
	}
	sb.WriteString(d.Base)
	return sb.String()
}

func ibcName(path string) string {
	h := sha256.Sum256([]byte(path))
	return "ibc/" + strings.ToUpper(hex.EncodeToString(h[:]))
}

// bankDenom is the name under which chain c must hold the abstract denomination d.
func (w *World) bankDenom(d Denom) string {
	if len(d.Tr) == 0 {
		return d.Base
	}
	return ibcName(w.render(d))
}

// learn registers d (as a denomination on chain c) and what it becomes on the neighbouring chains.
func (w *World) learn(c string, d Denom) {
	w.learn1(c, d)
	for _, e := range allEnds {
		if endChain(e) != c {
			continue
		}
		if len(d.Tr) > 0 && d.Tr[0] == e {
			w.learn1(endChain(peer(e)), Denom{Tr: append([]string{}, d.Tr[1:]...), Base: d.Base})
		} else {
			w.learn1(endChain(peer(e)), Denom{Tr: append([]string{peer(e)}, d.Tr...), Base: d.Base})
		}
	}
}

func (w *World) learn1(c string, d Denom) {
	if d.Tr == nil {
		d.Tr = []string{}
	}
	p := w.render(d)
	if _, ok := w.pathDict[c][p]; !ok {
		w.pathDict[c][p] = d
	}
	if len(d.Tr) > 0 {
		if _, ok := w.ibcDict[c][ibcName(p)]; !ok {
			w.ibcDict[c][ibcName(p)] = d
		}
	}
}

// absDenom maps a bank denomination of chain c back to the abstract denomination.
func (w *World) absDenom(c, bank string) Denom {
	if strings.HasPrefix(bank, "ibc/") {
		if d, ok := w.ibcDict[c][bank]; ok {
			return d
		}
		return Denom{Tr: []string{"?"}, Base: bank}
	}
	return Denom{Tr: []string{}, Base: bank}
}

// absPath maps a full path string seen on chain c (packet data, denomination record) back.
func (w *World) absPath(c, path string) Denom {
	if d, ok := w.pathDict[c][path]; ok {
		return d
	}
	if !strings.Contains(path, "/") {
		return Denom{Tr: []string{}, Base: path}
	}
	return Denom{Tr: []string{"?"}, Base: path}
}

func (w *World) receiverString(dst, name string) string {
	if a, ok := w.addr[dst][name]; ok {
		return a.String()
	}
	if name == "bad" {
		return "verif-not-a-bech32-address"
	}
	return name
}

func (w *World) receiverName(dst, s string) string {
	if n, ok := w.addrName[dst][s]; ok {
		return n
	}
	if s == "verif-not-a-bech32-address" {
		return "bad"
	}
	return s
}

// ---- time ------------------------------------------------------------------------------------------

// block commits an empty block on c and advances the global clock (every block gets a later time).
func (w *World) block(c string) {
	w.ch[c].NextBlock()
	w.coord.IncrementTime()
}

func (w *World) epochEnd(ep int64) time.Time { return w.T0.Add(time.Duration(ep+1) * epochDur) }

func revision(chain *ibctesting.TestChain) uint64 { return clienttypes.ParseChainID(chain.ChainID) }

func sortBal(x []BalEntry) {
	sort.Slice(x, func(i, j int) bool {
		if x[i].A != x[j].A {
			return x[i].A < x[j].A
		}
		return x[i].D.key() < x[j].D.key()
	})
}

func sortAmt(x []AmtEntry) { sort.Slice(x, func(i, j int) bool { return x[i].D.key() < x[j].D.key() }) }
