package ics20

import (
	"crypto/sha256"
	"encoding/hex"
	"fmt"
	"strings"

	transfertypes "github.com/cosmos/ibc-go/v11/modules/apps/transfer/types"
)

// evalPath calls the real ExtractDenomFromPath / Path / IBCDenom / Hash / Validate on one concrete path.
func evalPath(n int, segs, inst []string) (row tableRow) {
	s := strings.Join(inst, "/")
	row = tableRow{ID: fmt.Sprintf("path-%d", n), Kind: "path", Segs: segs, Inst: inst, S: s, Trace: [][]string{}, BSegs: []string{}}
	h := sha256.Sum256([]byte(s))
	row.XHash = strings.ToUpper(hex.EncodeToString(h[:]))
	row.XIBC = "ibc/" + row.XHash
	defer func() {
		if r := recover(); r != nil {
			row.Base = "PANIC: " + fmt.Sprint(r)
		}
	}()
	d := transfertypes.ExtractDenomFromPath(s)
	for _, hop := range d.Trace {
		row.Trace = append(row.Trace, []string{hop.PortId, hop.ChannelId})
	}
	row.Base = d.Base
	row.BSegs = strings.Split(d.Base, "/")
	if d.Base == "" && len(d.Trace) > 0 {
		row.BSegs = []string{}
	}
	row.Path = d.Path()
	row.IBC = d.IBCDenom()
	row.Hash = strings.ToUpper(hex.EncodeToString(d.Hash()))
	row.Valid = d.Validate() == nil
	return row
}

func evalEscrow(n int, cls []string, port, ch string) tableRow {
	row := tableRow{ID: fmt.Sprintf("esc-%d", n), Kind: "esc", Segs: cls, Inst: []string{port, ch}, S: port + "/" + ch, Trace: [][]string{}, BSegs: []string{}}
	row.Addr = hex.EncodeToString(transfertypes.GetEscrowAddress(port, ch))
	row.XAddr = hex.EncodeToString(escrowAddress(port, ch))
	return row
}
