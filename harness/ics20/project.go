package ics20

import (
	"bytes"
	"crypto/sha256"
	"strings"

	storetypes "github.com/cosmos/cosmos-sdk/store/v2/types"
	sdk "github.com/cosmos/cosmos-sdk/types"

	transfertypes "github.com/cosmos/ibc-go/v11/modules/apps/transfer/types"

	"verif/harness/lib"
)

// denominations that exist for reasons outside the model (staking token with inflation, genesis test coin)
func ignoredDenom(d string) bool { return d == sdk.DefaultBondDenom || d == "ufoo" }

func small(n sdk.Coin) int64 {
	if !n.Amount.IsInt64() || n.Amount.Int64() > 1<<30 {
		return 1 << 30
	}
	return n.Amount.Int64()
}

// own rendering of a stored denomination record (trace hops and base joined with '/')
func joinDenom(d transfertypes.Denom) string {
	var sb strings.Builder
	for _, h := range d.Trace {
		sb.WriteString(h.PortId + "/" + h.ChannelId + "/")
	}
	sb.WriteString(d.Base)
	return sb.String()
}

var successAck = []byte(`{"result":"AQ=="}`)

func sha(b ...[]byte) []byte {
	h := sha256.New()
	for _, x := range b {
		h.Write(x)
	}
	return h.Sum(nil)
}

// project reads the abstract bank / transfer state of chain c through the public keepers.
func (w *World) project(c string) ChainSt {
	chain := w.ch[c]
	ctx := chain.GetContext()
	app := chain.GetSimApp()
	st := ChainSt{Bal: []BalEntry{}, Sup: []AmtEntry{}, Esc: []AmtEntry{}, Reg: []RegEntry{}}

	tracked := map[string]int64{} // bank denom -> sum over tracked accounts
	for _, name := range lib.SortedKeys(w.addr[c]) {
		for _, coin := range app.BankKeeper.GetAllBalances(ctx, w.addr[c][name]) {
			if ignoredDenom(coin.Denom) {
				continue
			}
			st.Bal = append(st.Bal, BalEntry{A: name, D: w.absDenom(c, coin.Denom), N: small(coin)})
			tracked[coin.Denom] += small(coin)
		}
	}
	seen := map[string]bool{}
	app.BankKeeper.IterateTotalSupply(ctx, func(coin sdk.Coin) bool {
		if ignoredDenom(coin.Denom) || coin.IsZero() {
			return false
		}
		seen[coin.Denom] = true
		st.Sup = append(st.Sup, AmtEntry{D: w.absDenom(c, coin.Denom), N: small(coin)})
		// everything that is not in a tracked account is, by definition, in "rest"
		if rest := small(coin) - tracked[coin.Denom]; rest != 0 {
			st.Bal = append(st.Bal, BalEntry{A: "rest", D: w.absDenom(c, coin.Denom), N: rest})
		}
		return false
	})
	for d, n := range tracked {
		if !seen[d] && n != 0 { // balances without supply
			st.Bal = append(st.Bal, BalEntry{A: "rest", D: w.absDenom(c, d), N: -n})
		}
	}

	// tracked total escrow: the iteration and the per-denomination getter must tell the same story
	escSeen := map[string]bool{}
	for _, coin := range app.TransferKeeper.GetAllTotalEscrowed(ctx) {
		escSeen[coin.Denom] = true
	}
	for d := range seen {
		escSeen[d] = true
	}
	for d := range escSeen {
		coin := app.TransferKeeper.GetTotalEscrowForDenom(ctx, d)
		if !coin.IsZero() {
			st.Esc = append(st.Esc, AmtEntry{D: w.absDenom(c, d), N: small(coin)})
		}
	}

	// denomination records, with the raw store key they sit under
	store := ctx.KVStore(app.GetKey(transfertypes.StoreKey))
	it := storetypes.KVStorePrefixIterator(store, transfertypes.DenomKey)
	for ; it.Valid(); it.Next() {
		var d transfertypes.Denom
		if err := chain.Codec.Unmarshal(it.Value(), &d); err != nil {
			st.Reg = append(st.Reg, RegEntry{D: Denom{Tr: []string{"?"}, Base: "undecodable"}, K: lib.Hex(it.Key()), H: ""})
			continue
		}
		p := joinDenom(d)
		st.Reg = append(st.Reg, RegEntry{D: w.absPath(c, p), K: strings.ToUpper(lib.Hex(bytes.TrimPrefix(it.Key(), transfertypes.DenomKey))),
			H: strings.ToUpper(lib.Hex(sha([]byte(p))))})
	}
	it.Close()

	par := app.TransferKeeper.GetParams(ctx)
	st.Par = Params{Send: par.SendEnabled, Recv: par.ReceiveEnabled}
	sortBal(st.Bal)
	sortAmt(st.Sup)
	sortAmt(st.Esc)
	return st
}

// packet status as the core stores show it
func (w *World) pktStatus(rp *realPacket) PktSt {
	p := rp.abs
	src, dst := endChain(p.E), endChain(peer(p.E))
	ks, kd := w.ch[src].App.GetIBCKeeper(), w.ch[dst].App.GetIBCKeeper()
	cs, cd := w.ch[src].GetContext(), w.ch[dst].GetContext()
	p.Ack = "none"
	if p.Proto == "v1" {
		q := rp.v1
		p.Com = len(ks.ChannelKeeper.GetPacketCommitment(cs, q.SourcePort, q.SourceChannel, q.Sequence)) > 0
		_, p.Rcv = kd.ChannelKeeper.GetPacketReceipt(cd, q.DestinationPort, q.DestinationChannel, q.Sequence)
		if h, ok := kd.ChannelKeeper.GetPacketAcknowledgement(cd, q.DestinationPort, q.DestinationChannel, q.Sequence); ok {
			if bytes.Equal(h, sha(successAck)) {
				p.Ack = "ok"
			} else {
				p.Ack = "err"
			}
		}
	} else {
		q := rp.v2
		p.Com = len(ks.ChannelKeeperV2.GetPacketCommitment(cs, q.SourceClient, q.Sequence)) > 0
		p.Rcv = kd.ChannelKeeperV2.HasPacketReceipt(cd, q.DestinationClient, q.Sequence)
		if h := kd.ChannelKeeperV2.GetPacketAcknowledgement(cd, q.DestinationClient, q.Sequence); len(h) > 0 {
			// commitment of the v2 acknowledgement holding the single ICS-20 success acknowledgement
			if bytes.Equal(h, sha([]byte{2}, sha(successAck))) {
				p.Ack = "ok"
			} else {
				p.Ack = "err"
			}
		}
	}
	return p
}

func (w *World) State() State {
	st := State{Ep: w.epoch, Ch: map[string]ChainSt{}, Ns: []NsEntry{}, Pk: []PktSt{}}
	for _, c := range chainNames {
		st.Ch[c] = w.project(c)
	}
	for _, e := range allEnds {
		ep := w.ep[e]
		c := endChain(e)
		n, _ := w.ch[c].App.GetIBCKeeper().ChannelKeeper.GetNextSequenceSend(w.ch[c].GetContext(), ep.ChannelConfig.PortID, ep.ChannelID)
		st.Ns = append(st.Ns, NsEntry{E: e, N: int64(n)})
	}
	for _, k := range w.order {
		st.Pk = append(st.Pk, w.pktStatus(w.pkts[k]))
	}
	return st
}
