package ics20

import (
	"bytes"
	"encoding/json"
	"hash/fnv"
	"os"
	"strings"
	"testing"

	"verif/harness/lib"
)

// pick chooses an instance deterministically from the seed and a label.
func pick(seed int, label string, n int) int {
	h := fnv.New32a()
	h.Write([]byte(label))
	return int((uint32(seed)*2654435761 + h.Sum32()) % uint32(n))
}

// concrete strings for the segment classes of spec/ics20/Denom.tla when they are used inside NATIVE base denominations
// (sdk coin denom grammar: letter first, [a-zA-Z0-9/:._-], and every instance keeps its class predicates)
var baseInst = map[string][]string{
	"w":    {"uatom", "share", "gamm", "pool", "Tok.x_y", "pool-99999999999999999999"},
	"c1":   {"x", "u", "Z"},
	"port": {"transfer"},
	"chan": {"channel-0", "channel-1", "channel-12", "channel-007"},
	"sch":  {"ch-1", "a-0", "x_y-7"},
	"cli":  {"pooltoken-1", "Channel-1", "tendermint-07", "wasm-08-12"},
	"ibc":  {"ibc"},
	"e":    {""},
}

func instBase(seed int, label string, cls []string) string {
	segs := make([]string, len(cls))
	for i, c := range cls {
		xs := baseInst[c]
		segs[i] = xs[pick(seed, label+"/"+c+string(rune('0'+i)), len(xs))]
	}
	return strings.Join(segs, "/")
}

// TestDrive executes every schedule of $VERIF_SCHED (ndjson) on three fresh real chains and writes one trace line per
// step to $VERIF_TRACE.  It never judges: TLC does (spec/ics20/Trace_ICS20.tla).
func TestDrive(t *testing.T) {
	schedPath := lib.EnvStr("VERIF_SCHED", "")
	tracePath := lib.EnvStr("VERIF_TRACE", "")
	if schedPath == "" || tracePath == "" {
		t.Skip("VERIF_SCHED / VERIF_TRACE not set")
	}
	seed := lib.EnvInt("VERIF_SEED", 1)
	type sched struct {
		Schedule
		BaseCls []struct {
			Ph  string   `json:"ph"`
			Cls []string `json:"cls"`
		} `json:"basecls,omitempty"`
	}
	scheds, err := lib.ReadNDJSON[sched](schedPath)
	if err != nil {
		t.Fatal(err)
	}
	tw, err := lib.NewTraceWriter(tracePath)
	if err != nil {
		t.Fatal(err)
	}
	defer tw.Close()
	for _, s := range scheds {
		w := NewWorld(t, s.Uniq, s.Chan)
		bases := map[string]string{}
		for ph, b := range s.Bases {
			bases[ph] = b
		}
		for _, bc := range s.BaseCls {
			if _, ok := bases[bc.Ph]; !ok {
				bases[bc.Ph] = instBase(seed, s.ID+bc.Ph, bc.Cls)
			}
		}
		tw.Emit(TraceLine{Tr: s.ID, I: 0, A: json.RawMessage(`{"a":"Init"}`), Res: "ok", St: w.State()})
		for i, raw := range s.Acts {
			for ph, b := range bases {
				raw = bytes.ReplaceAll(raw, []byte(`"`+ph+`"`), []byte(`"`+b+`"`))
			}
			var a Action
			if err := json.Unmarshal(raw, &a); err != nil {
				t.Fatalf("schedule %s step %d: %v", s.ID, i+1, err)
			}
			res, errStr := w.Exec(a)
			tw.Emit(TraceLine{Tr: s.ID, I: i + 1, A: raw, Res: res, Err: errStr, St: w.State()})
		}
	}
}

// ---- C34 function table ------------------------------------------------------------------------------

// concrete strings for the segment classes of spec/ics20/Denom.tla in arbitrary paths; every instance keeps the
// class predicates (identifier format, usable as port id, usable as channel id)
var segInst = map[string][]string{
	"w": {"uatom", "share", "pool", "x2", "a.b_c", "pool-99999999999999999999", "channel-18446744073709551616", "channel-",
		"W" + strings.Repeat("w", 127), "tok#[1]<+>"},
	"c1":   {"x", "u", "7", "-"},
	"port": {"transfer"},
	"chan": {"channel-0", "channel-1", "channel-12", "channel-007", "channel-18446744073709551615"},
	"sch":  {"ch-1", "a-0", "x_y-7", "07-t-1", "c-12345", strings.Repeat("b", 63) + "-1"},
	"cli": {"07-tendermint-0", "pooltoken-1", "Channel-1", "08-wasm-12", "client-00000000000000000001",
		strings.Repeat("a", 62) + "-1"},
	"ibc": {"ibc"},
	"e":   {""},
}

var idInst = map[string][]string{
	"port": {"transfer"}, "portx": {"transferx", "transfer0"}, "portp": {"transfe", "tr"}, "w": {"icahost", "channel", "0channel"},
	"chan": {"channel-0", "channel-1"}, "chanx": {"channel-00", "channel-10", "channel-01"}, "cli": {"07-tendermint-0", "transfer-0"},
}

type tableRow struct {
	ID   string   `json:"id"`
	Kind string   `json:"kind"` // "path" | "esc"
	Segs []string `json:"segs"` // classes
	Inst []string `json:"inst"` // concrete segments chosen by the harness
	S    string   `json:"s"`    // the path string given to the code (inst joined with '/')
	// what the real functions returned
	Trace [][]string `json:"trace"`
	Base  string     `json:"base"`
	BSegs []string   `json:"bsegs"` // base split at '/', for comparison segment by segment
	Path  string     `json:"path"`
	IBC   string     `json:"ibc"`
	Hash  string     `json:"hash"`
	Valid bool       `json:"valid"`
	Addr  string     `json:"addr"`
	// the harness' own evaluation of the hash terms of Denom.tla
	XIBC  string `json:"xibc"`
	XHash string `json:"xhash"`
	XAddr string `json:"xaddr"`
}

// TestDenomTable evaluates the real denomination functions on every case of $VERIF_TABLE (paths.json and
// escrow.json written by TLC from DenomCases.tla), VERIF_VARIANTS instantiations each, and writes one ndjson row
// per evaluation.  TLC judges (spec/ics20/Trace_Denom.tla).
func TestDenomTable(t *testing.T) {
	dir := lib.EnvStr("VERIF_TABLE", "")
	out := lib.EnvStr("VERIF_TRACE", "")
	if dir == "" || out == "" {
		t.Skip("VERIF_TABLE / VERIF_TRACE not set")
	}
	seed := lib.EnvInt("VERIF_SEED", 1)
	variants := lib.EnvInt("VERIF_VARIANTS", 2)
	tw, err := lib.NewTraceWriter(out)
	if err != nil {
		t.Fatal(err)
	}
	defer tw.Close()
	n := 0
	if rowsPath := lib.EnvStr("VERIF_ROWS", ""); rowsPath != "" {
		// re-evaluation of given rows (replay of a reported case)
		rows, err := lib.ReadNDJSON[tableRow](rowsPath)
		if err != nil {
			t.Fatal(err)
		}
		for _, r := range rows {
			n++
			var row tableRow
			if r.Kind == "esc" && len(r.Inst) == 2 {
				row = evalEscrow(n, r.Segs, r.Inst[0], r.Inst[1])
			} else {
				row = evalPath(n, r.Segs, r.Inst)
			}
			row.ID = r.ID
			tw.Emit(row)
		}
		return
	}
	var paths [][]string
	var pairs [][]string
	mustRead(t, dir+"/paths.json", &paths)
	mustRead(t, dir+"/escrow.json", &pairs)
	for pi, segs := range paths {
		for v := 0; v < variants; v++ {
			inst := make([]string, len(segs))
			for i, c := range segs {
				xs := segInst[c]
				if v == 0 {
					inst[i] = xs[0]
				} else {
					inst[i] = xs[pick(seed+v, fmt3(pi, i, c), len(xs))]
				}
			}
			n++
			tw.Emit(evalPath(n, segs, inst))
		}
	}
	for _, pr := range pairs {
		for _, port := range idInst[pr[0]] {
			for _, ch := range idInst[pr[1]] {
				n++
				tw.Emit(evalEscrow(n, pr, port, ch))
			}
		}
	}
}

func fmt3(a, b int, c string) string {
	return strings.Join([]string{string(rune('a' + a%26)), string(rune('a' + (a/26)%26)), string(rune('a' + (a/676)%26)), string(rune('0' + b)), c}, "")
}

func mustRead(t *testing.T, path string, v any) {
	bz, err := os.ReadFile(path)
	if err != nil {
		t.Fatal(err)
	}
	if err := json.Unmarshal(bz, v); err != nil {
		t.Fatal(err)
	}
}
