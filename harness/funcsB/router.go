// Package funcsB holds the conformance drivers of the funcsB family (C16 store keys and client namespaces,
// C18 merkle proofs, C48 port routing).  The drivers execute TLC-generated cases on the real ibc-go code and
// record what it did as ndjson; they never judge -- TLC does (spec/funcsB/Trace_*.tla).
package funcsB

import (
	"encoding/json"
	"os"
	"strings"

	portkeeper "github.com/cosmos/ibc-go/v11/modules/core/05-port/keeper"
	porttypes "github.com/cosmos/ibc-go/v11/modules/core/05-port/types"
	"github.com/cosmos/ibc-go/v11/modules/core/api"
)

// Reg is a registration of spec/funcsB/Router.tla: mode "v1" | "route" | "prefix" and a name (characters).
type Reg struct {
	M string   `json:"m"`
	N []string `json:"n"`
}

func (r Reg) Name() string { return strings.Join(r.N, "") }
func (r Reg) Key() string  { return r.M + ":" + r.Name() }

type RouterCase struct {
	Regs  []Reg   `json:"regs"`
	Perms [][]Reg `json:"perms"`
	ID    string  `json:"id,omitempty"`
}

type RouterDoc struct {
	Version string       `json:"version"`
	Ports   [][]string   `json:"ports"`
	Cases   []RouterCase `json:"cases"`
}

// RouterRun is one registration order executed on a fresh real router.
//
//	O  the order, as 1-based indices into the case's canonical registration list
//	S  result of each attempt: 1 = accepted, 0 = refused (panic)
//	R  per port (in the order of the case table): the module the FIRST lookup resolved to (index of the registration
//	   that installed it, 0 = no route, -1 = the lookup panicked)
//	U  ports whose repeated lookups did not all agree: [port position, every distinct module seen]
type RouterRun struct {
	P int     `json:"p"`
	O []int   `json:"o"`
	S []int   `json:"s"`
	R []int   `json:"r"`
	U [][]int `json:"u"`
}

type RouterLine struct {
	Tr   string      `json:"tr"`
	I    int         `json:"i"`
	V    string      `json:"v"`
	Regs []Reg       `json:"regs"`
	Runs []RouterRun `json:"runs"`
}

// tagged modules: the embedded interface is nil (no callback is ever invoked), the tag is the identity
type modV1 struct {
	porttypes.IBCModule
	tag int
}

type modV2 struct {
	api.IBCModule
	tag int
}

func LoadRouterDoc(path string) (RouterDoc, error) {
	var d RouterDoc
	bz, err := os.ReadFile(path)
	if err != nil {
		return d, err
	}
	err = json.Unmarshal(bz, &d)
	return d, err
}

// guarded runs f and classifies its outcome.
func guarded(f func()) (res string) {
	defer func() {
		if r := recover(); r != nil {
			res = "panic"
		}
	}()
	f()
	return "ok"
}

func appendDistinct(xs []int, v int) []int {
	for _, x := range xs {
		if x == v {
			return xs
		}
	}
	return append(xs, v)
}

// RunRouterOrder builds a fresh real router, attempts the registrations in the given order and resolves every
// port `reps` times.  Module identities are the 1-based indices of the registrations in the case's canonical list.
func RunRouterOrder(version string, canon []Reg, order []Reg, ports []string, reps, proc int) RouterRun {
	idx := map[string]int{}
	for i, r := range canon {
		idx[r.Key()] = i + 1
	}
	run := RouterRun{P: proc, O: []int{}, S: []int{}, R: []int{}, U: [][]int{}}
	step := func(f func()) {
		if guarded(f) == "ok" {
			run.S = append(run.S, 1)
		} else {
			run.S = append(run.S, 0)
		}
	}
	var lookup func(p string) int
	if version == "v1" {
		pk := portkeeper.NewKeeper()
		pk.Router = porttypes.NewRouter()
		for _, r := range order {
			r := r
			run.O = append(run.O, idx[r.Key()])
			step(func() { pk.Router.AddRoute(r.Name(), modV1{tag: idx[r.Key()]}) })
		}
		lookup = func(p string) int {
			got := 0
			if guarded(func() {
				if m, ok := pk.Route(p); ok {
					got = m.(modV1).tag
				}
			}) != "ok" {
				return -1
			}
			return got
		}
	} else {
		rtr := api.NewRouter()
		for _, r := range order {
			r := r
			run.O = append(run.O, idx[r.Key()])
			step(func() {
				if r.M == "prefix" {
					rtr.AddPrefixRoute(r.Name(), modV2{tag: idx[r.Key()]})
				} else {
					rtr.AddRoute(r.Name(), modV2{tag: idx[r.Key()]})
				}
			})
		}
		lookup = func(p string) int {
			got := 0
			if guarded(func() {
				if rtr.HasRoute(p) {
					got = rtr.Route(p).(modV2).tag
				}
			}) != "ok" {
				return -1
			}
			return got
		}
	}
	for q, p := range ports {
		var seen []int
		for range reps {
			seen = appendDistinct(seen, lookup(p))
		}
		run.R = append(run.R, seen[0])
		if len(seen) > 1 {
			run.U = append(run.U, append([]int{q + 1}, seen...))
		}
	}
	return run
}
