package funcsB

import (
	"fmt"
	"strings"
	"testing"

	"verif/harness/lib"
)

// TestRouter executes every case of $VERIF_CASES (JSON written by TLC from MC_Router.tla) on real routers:
// one fresh router per registration order, every port resolved $VERIF_REPS times.
func TestRouter(t *testing.T) {
	casesPath := lib.EnvStr("VERIF_CASES", "")
	tracePath := lib.EnvStr("VERIF_TRACE", "")
	if casesPath == "" || tracePath == "" {
		t.Skip("VERIF_CASES / VERIF_TRACE not set")
	}
	doc, err := LoadRouterDoc(casesPath)
	if err != nil {
		t.Fatal(err)
	}
	tw, err := lib.NewTraceWriter(tracePath)
	if err != nil {
		t.Fatal(err)
	}
	defer tw.Close()
	reps := lib.EnvInt("VERIF_REPS", 6)
	proc := lib.EnvInt("VERIF_PROC", 0)
	ports := make([]string, len(doc.Ports))
	for i, p := range doc.Ports {
		ports[i] = strings.Join(p, "")
	}
	for i, c := range doc.Cases {
		id := c.ID
		if id == "" {
			id = fmt.Sprintf("%s-%d", doc.Version, i+1)
		}
		line := RouterLine{Tr: id, I: i + 1, V: doc.Version, Regs: c.Regs}
		for _, order := range c.Perms {
			line.Runs = append(line.Runs, RunRouterOrder(doc.Version, c.Regs, order, ports, reps, proc))
		}
		tw.Emit(line)
	}
}

// TestKeys evaluates the real key constructors on every tuple of $VERIF_CASES (JSON written by TLC from
// MC_StoreKeys.tla) and runs the real prefix iterations over a populated IBC store.
func TestKeys(t *testing.T) {
	casesPath := lib.EnvStr("VERIF_CASES", "")
	tracePath := lib.EnvStr("VERIF_TRACE", "")
	if casesPath == "" || tracePath == "" {
		t.Skip("VERIF_CASES / VERIF_TRACE not set")
	}
	doc, err := LoadKeyDoc(casesPath)
	if err != nil {
		t.Fatal(err)
	}
	tw, err := lib.NewTraceWriter(tracePath)
	if err != nil {
		t.Fatal(err)
	}
	defer tw.Close()
	RunKeys(t, doc, tw.Emit)
}

// TestMerkle executes every verification request of $VERIF_CASES (JSON written by TLC from MC_Merkle.tla) with real
// ICS-23 proofs of a real IAVL-backed chain store, on commitmenttypes.MerkleProof and through the 07-tendermint client.
func TestMerkle(t *testing.T) {
	casesPath := lib.EnvStr("VERIF_CASES", "")
	tracePath := lib.EnvStr("VERIF_TRACE", "")
	if casesPath == "" || tracePath == "" {
		t.Skip("VERIF_CASES / VERIF_TRACE not set")
	}
	doc, err := LoadMerkleDoc(casesPath)
	if err != nil {
		t.Fatal(err)
	}
	tw, err := lib.NewTraceWriter(tracePath)
	if err != nil {
		t.Fatal(err)
	}
	defer tw.Close()
	RunMerkle(t, doc, tw.Emit)
}
