package funcsB

import (
	"bytes"
	"encoding/json"
	"fmt"
	"math/rand"
	"os"
	"testing"

	ics23 "github.com/cosmos/ics23/go"

	clienttypes "github.com/cosmos/ibc-go/v11/modules/core/02-client/types"
	channelv2types "github.com/cosmos/ibc-go/v11/modules/core/04-channel/v2/types"
	commitmenttypes "github.com/cosmos/ibc-go/v11/modules/core/23-commitment/types"
	commitmenttypesv2 "github.com/cosmos/ibc-go/v11/modules/core/23-commitment/types/v2"
	host "github.com/cosmos/ibc-go/v11/modules/core/24-host"
	ibcexported "github.com/cosmos/ibc-go/v11/modules/core/exported"
	ibctm "github.com/cosmos/ibc-go/v11/modules/light-clients/07-tendermint"
	ibctesting "github.com/cosmos/ibc-go/v11/testing"

	"verif/harness/lib"
)

// ---- case table of spec/funcsB/MC_Merkle.tla -------------------------------------------------------------------

type MMut struct {
	M    string `json:"m"`
	Lvl  int    `json:"lvl"`
	Side string `json:"side"`
	Op   int    `json:"op"`
}

type MReq struct {
	Kind string `json:"kind"`
	Key  int    `json:"key"`
	Val  string `json:"val"`
	PKey int    `json:"pkey"`
	Mut  MMut   `json:"mut"`
}

type MContent struct {
	Vals []string `json:"vals"`
	Reqs []MReq   `json:"reqs"`
}

type BMPCase struct {
	N         int  `json:"n"`
	LastEmpty bool `json:"lastEmpty"`
	Spare     int  `json:"spare"`
	P1        int  `json:"p1"`
	P2        int  `json:"p2"`
}

type MerkleDoc struct {
	NK       int        `json:"nk"`
	Contents []MContent `json:"contents"`
	BMP      []BMPCase  `json:"bmp"`
}

type MerkleLine struct {
	Ty      string   `json:"ty"`
	Tr      string   `json:"tr"`
	I       int      `json:"i"`
	Vals    []string `json:"vals"`
	Req     MReq     `json:"req"`
	Applied bool     `json:"applied"`
	RD      string   `json:"rd"` // commitmenttypes.MerkleProof.Verify(Non)Membership
	RT      string   `json:"rt"` // 02-client keeper -> 07-tendermint light client module
	ErrD    string   `json:"errd,omitempty"`
}

type BMPLine struct {
	Ty      string     `json:"ty"`
	Tr      string     `json:"tr"`
	I       int        `json:"i"`
	C       BMPCase    `json:"c"`
	Res     string     `json:"res"`
	Before  [][]string `json:"before"`
	After   [][]string `json:"after"`
	P1      []string   `json:"p1"`
	P2      []string   `json:"p2"`
	R1      [][]string `json:"r1"`
	R1After [][]string `json:"r1after"`
	R2      [][]string `json:"r2"`
	Spare   bool       `json:"spareWritten"`
}

func LoadMerkleDoc(path string) (MerkleDoc, error) {
	var d MerkleDoc
	bz, err := os.ReadFile(path)
	if err != nil {
		return d, err
	}
	err = json.Unmarshal(bz, &d)
	return d, err
}

// ---- the real world: chain B proves, chain A holds a 07-tendermint client of B ---------------------------------

type merkleWorld struct {
	t      *testing.T
	coord  *ibctesting.Coordinator
	path   *ibctesting.Path
	nk     int
	height []clienttypes.Height // proof height of content i
	proofs map[string]*commitmenttypes.MerkleProof
}

// concrete keys: 0 below every key of the store, nk+2 above; universe keys are adjacent at the top of the store
func (w *merkleWorld) realKey(k int) []byte {
	switch {
	case k == 0:
		return []byte("!verif-below-all")
	case k == 1:
		return host.FullClientStateKey(w.path.EndpointB.ClientID) // always present (stands for KM in kind-swap)
	case k == w.nk+2:
		return []byte("~verif-above-all")
	default:
		return fmt.Appendf(nil, "verif/key-%d", k)
	}
}

func realValue(v string) []byte {
	switch v {
	case "v1":
		return []byte("value-one")
	case "v2":
		return []byte("value-two-is-longer")
	}
	return nil
}

func newMerkleWorld(t *testing.T, doc MerkleDoc) *merkleWorld {
	coord := ibctesting.NewCoordinator(t, 2)
	a, b := coord.GetChain(ibctesting.GetChainID(1)), coord.GetChain(ibctesting.GetChainID(2))
	path := ibctesting.NewPath(a, b)
	path.Setup()
	w := &merkleWorld{t: t, coord: coord, path: path, nk: doc.NK, proofs: map[string]*commitmenttypes.MerkleProof{}}
	// seed-driven extra entries below the universe keys: they change the shape of the IAVL tree (depth, rotations), not
	// the neighbourhood of the universe keys
	rng := rand.New(rand.NewSource(int64(lib.EnvInt("VERIF_SEED", 1))))
	if extra := lib.EnvInt("VERIF_EXTRA", 0); extra > 0 {
		store := b.GetContext().KVStore(b.GetSimApp().GetKey(ibcexported.StoreKey))
		for range extra {
			k := fmt.Appendf(nil, "u/%x", rng.Uint64()>>uint(rng.Intn(56)))
			v := make([]byte, 1+rng.Intn(40))
			rng.Read(v)
			store.Set(k, v)
		}
		coord.CommitBlock(b)
	}
	for _, c := range doc.Contents {
		ctx := b.GetContext()
		store := ctx.KVStore(b.GetSimApp().GetKey(ibcexported.StoreKey))
		for j, v := range c.Vals {
			key := w.realKey(j + 2)
			if v == "" {
				store.Delete(key)
			} else {
				store.Set(key, realValue(v))
			}
		}
		coord.CommitBlock(b) // the block with the writes
		if err := path.EndpointA.UpdateClient(); err != nil {
			t.Fatalf("update client: %v", err)
		}
		h, ok := path.EndpointA.GetClientLatestHeight().(clienttypes.Height)
		if !ok {
			t.Fatal("height type")
		}
		w.height = append(w.height, h)
	}
	return w
}

func (w *merkleWorld) proofOf(ci, k int) *commitmenttypes.MerkleProof {
	id := fmt.Sprintf("%d/%d", ci, k)
	if p, ok := w.proofs[id]; ok {
		return p
	}
	b := w.path.EndpointB.Chain
	bz, ph := b.QueryProofAtHeight(w.realKey(k), int64(w.height[ci].RevisionHeight))
	if !ph.EQ(w.height[ci]) {
		w.t.Fatalf("proof height %s, expected %s", ph, w.height[ci])
	}
	var mp commitmenttypes.MerkleProof
	if err := b.App.AppCodec().Unmarshal(bz, &mp); err != nil {
		w.t.Fatal(err)
	}
	w.proofs[id] = &mp
	return &mp
}

func (w *merkleWorld) rootAt(ci int) []byte {
	cs, ok := w.path.EndpointA.Chain.GetConsensusState(w.path.EndpointA.ClientID, w.height[ci])
	if !ok {
		w.t.Fatalf("no consensus state at %s", w.height[ci])
	}
	return bytes.Clone(cs.(*ibctm.ConsensusState).Root.Hash)
}

// verification arguments of one request
type vargs struct {
	proof  commitmenttypes.MerkleProof
	root   []byte
	path   [][]byte
	value  []byte
	specs  []*ics23.ProofSpec
	height clienttypes.Height
	tmNA   bool // the mutation has no counterpart on the light-client path (root / specs come from the client's own state)
}

func (w *merkleWorld) clone(p *commitmenttypes.MerkleProof) commitmenttypes.MerkleProof {
	cdc := w.path.EndpointA.Chain.App.AppCodec()
	bz, err := cdc.Marshal(p)
	if err != nil {
		w.t.Fatal(err)
	}
	var out commitmenttypes.MerkleProof
	if err := cdc.Unmarshal(bz, &out); err != nil {
		w.t.Fatal(err)
	}
	return out
}

func flip(b []byte, i int) []byte {
	if len(b) == 0 {
		return []byte{0x01}
	}
	if i < 0 || i >= len(b) {
		i = len(b) - 1
	}
	out := bytes.Clone(b)
	out[i] ^= 0x01
	return out
}

// target existence proof of a step mutation (nil: not applicable)
func targetExist(a *vargs, lvl int, side string) *ics23.ExistenceProof {
	if lvl < 0 || lvl >= len(a.proof.Proofs) || a.proof.Proofs[lvl] == nil {
		return nil
	}
	cp := a.proof.Proofs[lvl]
	switch side {
	case "x":
		return cp.GetExist()
	case "l":
		if ne := cp.GetNonexist(); ne != nil {
			return ne.Left
		}
	case "r":
		if ne := cp.GetNonexist(); ne != nil {
			return ne.Right
		}
	}
	return nil
}

// mutate applies the mutation; it reports false when the mutation does not apply to this proof.
func (w *merkleWorld) mutate(a *vargs, ci int, r MReq) bool {
	m := r.Mut
	switch m.M {
	case "none":
		return true
	case "root-flip":
		a.root = flip(a.root, 0)
		a.tmNA = true
	case "root-trunc":
		a.root = a.root[:len(a.root)-1]
		a.tmNA = true
	case "root-empty":
		a.root = []byte{}
		a.tmNA = true
	case "root-other":
		o := (ci + 1) % len(w.height)
		a.root = w.rootAt(o)
		a.height = w.height[o]
	case "path-store":
		a.path[0] = flip(a.path[0], -1)
	case "path-swap":
		a.path[0], a.path[1] = a.path[1], a.path[0]
	case "path-short":
		a.path = a.path[1:]
	case "path-long":
		a.path = append(a.path, []byte("x"))
	case "path-key-empty":
		a.path[1] = []byte{}
	case "path-key":
		a.path[1] = append(bytes.Clone(a.path[1]), 'x')
	case "val-flip":
		a.value = flip(a.value, 0)
	case "val-extra":
		a.value = append(bytes.Clone(a.value), 0x00)
	case "val-trunc":
		a.value = a.value[:len(a.value)-1]
	case "val-empty":
		a.value = []byte{}
	case "specs-short":
		a.specs = a.specs[:1]
		a.tmNA = true
	case "specs-long":
		a.specs = append(append([]*ics23.ProofSpec{}, a.specs...), ics23.TendermintSpec)
		a.tmNA = true
	case "specs-swap":
		a.specs = []*ics23.ProofSpec{a.specs[1], a.specs[0]}
		a.tmNA = true
	case "specs-nil":
		a.specs = append([]*ics23.ProofSpec{}, a.specs...)
		a.specs[m.Lvl] = nil
		a.tmNA = true
	case "proofs-swap":
		a.proof.Proofs[0], a.proof.Proofs[1] = a.proof.Proofs[1], a.proof.Proofs[0]
	case "proofs-drop0":
		a.proof.Proofs = a.proof.Proofs[1:]
	case "proofs-drop1":
		a.proof.Proofs = a.proof.Proofs[:1]
	case "proofs-dup":
		a.proof.Proofs = append(a.proof.Proofs, a.proof.Proofs[1])
	case "proofs-none":
		a.proof.Proofs = nil
	case "proofs-nil":
		a.proof.Proofs[m.Lvl] = &ics23.CommitmentProof{}
	case "kind-swap":
		// an honest proof of the opposite kind, from the same committed store
		var other *commitmenttypes.MerkleProof
		if r.Kind == "mem" {
			other = w.proofOf(ci, 0) // never stored: a non-existence proof
		} else {
			other = w.proofOf(ci, 1) // always stored: an existence proof
		}
		o := w.clone(other)
		a.proof.Proofs[0] = o.Proofs[0]
	case "drop-left", "drop-right", "swap-left-right":
		ne := a.proof.Proofs[0].GetNonexist()
		if ne == nil {
			return false
		}
		switch m.M {
		case "drop-left":
			if ne.Left == nil {
				return false
			}
			ne.Left = nil
		case "drop-right":
			if ne.Right == nil {
				return false
			}
			ne.Right = nil
		default:
			if ne.Left == nil && ne.Right == nil {
				return false
			}
			ne.Left, ne.Right = ne.Right, ne.Left
		}
	default:
		ep := targetExist(a, m.Lvl, m.Side)
		if ep == nil || ep.Leaf == nil {
			return false
		}
		switch m.M {
		case "leaf-prefix":
			ep.Leaf.Prefix = flip(ep.Leaf.Prefix, 0)
		case "leaf-hashop":
			ep.Leaf.Hash = ics23.HashOp_SHA512
		case "leaf-lengthop":
			ep.Leaf.Length = ics23.LengthOp_FIXED32_BIG
		case "ex-key":
			ep.Key = flip(ep.Key, -1)
		case "ex-value":
			ep.Value = flip(ep.Value, 0)
		default:
			if m.Op >= len(ep.Path) {
				return false
			}
			switch m.M {
			case "inner-prefix":
				ep.Path[m.Op].Prefix = flip(ep.Path[m.Op].Prefix, -1)
			case "inner-suffix":
				if len(ep.Path[m.Op].Suffix) == 0 {
					ep.Path[m.Op].Suffix = []byte{0x00}
				} else {
					ep.Path[m.Op].Suffix = flip(ep.Path[m.Op].Suffix, -1)
				}
			case "inner-hashop":
				ep.Path[m.Op].Hash = ics23.HashOp_SHA512
			case "inner-drop":
				ep.Path = append(append([]*ics23.InnerOp{}, ep.Path[:m.Op]...), ep.Path[m.Op+1:]...)
			case "inner-dup":
				np := append([]*ics23.InnerOp{}, ep.Path[:m.Op+1]...)
				np = append(np, ep.Path[m.Op])
				ep.Path = append(np, ep.Path[m.Op+1:]...)
			case "inner-swap":
				if m.Op+1 >= len(ep.Path) {
					return false
				}
				ep.Path[m.Op], ep.Path[m.Op+1] = ep.Path[m.Op+1], ep.Path[m.Op]
			default:
				panic("unknown mutation " + m.M)
			}
		}
	}
	return true
}

func classify(f func() error) (res, msg string) {
	defer func() {
		if r := recover(); r != nil {
			res, msg = "panic", fmt.Sprint(r)
		}
	}()
	if err := f(); err != nil {
		return "err", err.Error()
	}
	return "ok", ""
}

func (w *merkleWorld) fingerprint(a *vargs) []byte {
	cdc := w.path.EndpointA.Chain.App.AppCodec()
	bz, _ := cdc.Marshal(&a.proof)
	out := append([]byte{}, bz...)
	out = append(out, 0xff)
	out = append(out, a.root...)
	for _, p := range a.path {
		out = append(out, 0xfe)
		out = append(out, p...)
	}
	out = append(out, 0xfd)
	out = append(out, a.value...)
	out = append(out, byte(len(a.specs)))
	for i, s := range a.specs {
		if s == nil {
			out = append(out, 0xfc, byte(i))
		} else if s == ics23.IavlSpec {
			out = append(out, 0xfb, byte(i))
		} else {
			out = append(out, 0xfa, byte(i))
		}
	}
	out = append(out, []byte(a.height.String())...)
	return out
}

// RunMerkle executes every request of the case table and the BuildMerklePath cases.
func RunMerkle(t *testing.T, doc MerkleDoc, emit func(any)) {
	w := newMerkleWorld(t, doc)
	a := w.path.EndpointA
	cdc := a.Chain.App.AppCodec()
	n := 0
	for ci, c := range doc.Contents {
		tr := fmt.Sprintf("M%d", ci+1)
		for _, r := range c.Reqs {
			n++
			base := w.proofOf(ci, r.PKey)
			args := &vargs{
				proof:  w.clone(base),
				root:   w.rootAt(ci),
				path:   [][]byte{[]byte(ibcexported.StoreKey), w.realKey(r.Key)},
				value:  realValue(r.Val),
				specs:  commitmenttypes.GetSDKSpecs(),
				height: w.height[ci],
			}
			before := w.fingerprint(args)
			applied := false
			resM := guarded(func() { applied = w.mutate(args, ci, r) })
			if resM != "ok" {
				applied = false
			}
			line := MerkleLine{Ty: "req", Tr: tr, I: n, Vals: c.Vals, Req: r, RD: "na", RT: "na"}
			if applied && (r.Mut.M == "none" || !bytes.Equal(before, w.fingerprint(args))) {
				line.Applied = true
				mpath := commitmenttypesv2.NewMerklePath(args.path...)
				root := commitmenttypes.NewMerkleRoot(args.root)
				if r.Kind == "mem" {
					line.RD, line.ErrD = classify(func() error {
						return args.proof.VerifyMembership(args.specs, root, mpath, args.value)
					})
				} else {
					line.RD, line.ErrD = classify(func() error {
						return args.proof.VerifyNonMembership(args.specs, root, mpath)
					})
				}
				if !args.tmNA {
					bz, err := cdc.Marshal(&args.proof)
					if err != nil {
						t.Fatal(err)
					}
					ctx := a.Chain.GetContext()
					ck := a.Chain.App.GetIBCKeeper().ClientKeeper
					if r.Kind == "mem" {
						line.RT, _ = classify(func() error {
							return ck.VerifyMembership(ctx, a.ClientID, args.height, 0, 0, bz, mpath, args.value)
						})
					} else {
						line.RT, _ = classify(func() error {
							return ck.VerifyNonMembership(ctx, a.ClientID, args.height, 0, 0, bz, mpath)
						})
					}
				}
			}
			if line.RD != "err" || lib.EnvStr("VERIF_VERBOSE", "") == "" {
				line.ErrD = "" // error texts are never judged; kept only for debugging runs
			} else if len(line.ErrD) > 120 {
				line.ErrD = line.ErrD[:120]
			}
			emit(line)
		}
	}
	for i, c := range doc.BMP {
		emit(runBMP(i+1, c))
	}
}

func symsOf(xs [][]byte) [][]string {
	out := make([][]string, len(xs))
	for i, x := range xs {
		out[i] = BytesToSyms(x)
	}
	return out
}

func deep(xs [][]byte) [][]byte {
	out := make([][]byte, len(xs))
	for i, x := range xs {
		out[i] = bytes.Clone(x)
		if out[i] == nil {
			out[i] = []byte{}
		}
	}
	return out
}

func runBMP(i int, c BMPCase) BMPLine {
	var prefix [][]byte
	if c.N == 2 {
		prefix = append(prefix, []byte("ibc"))
	}
	content := []byte("pre/")
	if c.LastEmpty {
		content = []byte{}
	}
	last := make([]byte, len(content), len(content)+c.Spare)
	copy(last, content)
	prefix = append(prefix, last)
	p1 := bytes.Repeat([]byte("A"), c.P1)
	p2 := bytes.Repeat([]byte("B"), c.P2)
	line := BMPLine{Ty: "bmp", Tr: fmt.Sprintf("B%d", i), I: i, C: c, P1: BytesToSyms(p1), P2: BytesToSyms(p2)}
	line.Before = symsOf(deep(prefix))
	spareBefore := bytes.Clone(last[:cap(last)])
	line.Res = guarded(func() {
		r1 := channelv2types.BuildMerklePath(prefix, p1)
		line.R1 = symsOf(deep(r1.KeyPath))
		r2 := channelv2types.BuildMerklePath(prefix, p2)
		line.R2 = symsOf(deep(r2.KeyPath))
		line.R1After = symsOf(deep(r1.KeyPath))
	})
	line.After = symsOf(deep(prefix))
	line.Spare = !bytes.Equal(spareBefore, last[:cap(last)])
	return line
}
