package funcsB

import (
	"fmt"
	"sort"
	"testing"
	"time"

	abci "github.com/cometbft/cometbft/abci/types"

	upgradetypes "github.com/cosmos/cosmos-sdk/x/upgrade/types"

	codectypes "github.com/cosmos/cosmos-sdk/codec/types"
	sdk "github.com/cosmos/cosmos-sdk/types"

	clienttypes "github.com/cosmos/ibc-go/v11/modules/core/02-client/types"
	commitmenttypes "github.com/cosmos/ibc-go/v11/modules/core/23-commitment/types"
	ibcexported "github.com/cosmos/ibc-go/v11/modules/core/exported"
	ibctm "github.com/cosmos/ibc-go/v11/modules/light-clients/07-tendermint"
	ibctesting "github.com/cosmos/ibc-go/v11/testing"

	"verif/harness/lib"
)

// NSAction is an action of spec/funcsB/ClientNS.tla: clients are named by their creation order.
type NSAction struct {
	Op string `json:"op"`
	Ty string `json:"ty"`
	C  int    `json:"c"`
	S  int    `json:"s"`
}

type NSSchedule struct {
	ID   string     `json:"id"`
	Acts []NSAction `json:"acts"`
}

type NSLine struct {
	Tr      string     `json:"tr"`
	I       int        `json:"i"`
	A       NSAction   `json:"a"`
	Res     string     `json:"res"`
	Err     string     `json:"err,omitempty"`
	Diff    [][]string `json:"diff"`
	Created []string   `json:"created"`
}

type nsClient struct {
	id   string
	ty   string
	solo *ibctesting.Solomachine
}

type nsWorld struct {
	t       *testing.T
	coord   *ibctesting.Coordinator
	a, b    *ibctesting.TestChain
	clients []*nsClient
	nsolo   int
}

func newNSWorld(t *testing.T) *nsWorld {
	coord := ibctesting.NewCoordinator(t, 2)
	return &nsWorld{t: t, coord: coord, a: coord.GetChain(ibctesting.GetChainID(1)), b: coord.GetChain(ibctesting.GetChainID(2))}
}

func (w *nsWorld) client(i int) *nsClient {
	if i >= 1 && i <= len(w.clients) {
		return w.clients[i-1]
	}
	return &nsClient{id: "07-tendermint-999", ty: "tm"}
}

// exec runs one message handler of the IBC core keeper the way a transaction does (state is kept only if the handler
// succeeds) and returns the keys of the IBC store that were added, changed or deleted.
func (w *nsWorld) exec(h func(ctx sdk.Context) error) (res, errStr string, diff [][]string) {
	ctx := w.a.GetContext()
	key := w.a.GetSimApp().GetKey(ibcexported.StoreKey)
	before := lib.StoreDump(ctx.KVStore(key))
	cctx, write := ctx.CacheContext()
	res, errStr = classify(func() error { return h(cctx) })
	if res == "ok" {
		write()
	}
	after := lib.StoreDump(w.a.GetContext().KVStore(key))
	changed := map[string]bool{}
	for k, v := range after {
		if bv, ok := before[k]; !ok || bv != v {
			changed[k] = true
		}
	}
	for k := range before {
		if _, ok := after[k]; !ok {
			changed[k] = true
		}
	}
	ks := make([]string, 0, len(changed))
	for k := range changed {
		ks = append(ks, k)
	}
	sort.Strings(ks)
	diff = [][]string{}
	for _, hk := range ks {
		diff = append(diff, BytesToSyms(mustHex(hk)))
	}
	w.coord.CommitBlock(w.a)
	return res, errStr, diff
}

func mustHex(s string) []byte {
	out := make([]byte, len(s)/2)
	for i := range out {
		var b byte
		fmt.Sscanf(s[2*i:2*i+2], "%02x", &b)
		out[i] = b
	}
	return out
}

func (w *nsWorld) signer() string { return w.a.SenderAccount.GetAddress().String() }

// Exec executes one action and returns the trace lines it produced (an upgrade is preceded by the client update that
// brings the client to the height of the upgrade proofs; it is logged as an update step of its own).
func (w *nsWorld) Exec(a NSAction) []NSLine {
	k := w.a.App.GetIBCKeeper()
	line := func(act NSAction, res, e string, diff [][]string, created string) NSLine {
		if len(e) > 160 {
			e = e[:160]
		}
		c := []string{}
		if created != "" {
			c = BytesToSyms([]byte(created))
		}
		return NSLine{A: act, Res: res, Err: e, Diff: diff, Created: c}
	}
	switch a.Op {
	case "create":
		var cs ibcexported.ClientState
		var cons ibcexported.ConsensusState
		nc := &nsClient{ty: a.Ty}
		if a.Ty == "tm" {
			w.b.NextBlock()
			h := w.b.LatestCommittedHeader.GetHeight().(clienttypes.Height)
			cs = ibctm.NewClientState(w.b.ChainID, ibctm.DefaultTrustLevel, ibctesting.TrustingPeriod, ibctesting.UnbondingPeriod,
				ibctesting.MaxClockDrift, h, commitmenttypes.GetSDKSpecs(), ibctesting.UpgradePath)
			cons = w.b.LatestCommittedHeader.ConsensusState()
		} else {
			w.nsolo++
			nc.solo = ibctesting.NewSolomachine(w.t, w.a.Codec, fmt.Sprintf("solomachine-%d", w.nsolo), "", 1)
			cs, cons = nc.solo.ClientState(), nc.solo.ConsensusState()
		}
		msg, err := clienttypes.NewMsgCreateClient(cs, cons, w.signer())
		if err != nil {
			w.t.Fatal(err)
		}
		created := ""
		res, e, diff := w.exec(func(ctx sdk.Context) error {
			r, err := k.CreateClient(ctx, msg)
			if err == nil {
				created = r.ClientId
			}
			return err
		})
		if res == "ok" {
			nc.id = created
			w.clients = append(w.clients, nc)
		}
		return []NSLine{line(a, res, e, diff, created)}
	case "update":
		return []NSLine{w.update(a)}
	case "misbehaviour":
		c := w.client(a.C)
		var cm ibcexported.ClientMessage
		if c.ty == "tm" {
			w.coord.CommitBlock(w.b)
			trusted, ok := w.latestHeight(c.id)
			if !ok {
				trusted = clienttypes.NewHeight(1, 2)
			}
			tv, ok := w.b.TrustedValidators[trusted.RevisionHeight]
			if !ok {
				tv = w.b.Vals
			}
			hh := w.b.ProposedHeader.Height
			cm = &ibctm.Misbehaviour{
				Header1: w.b.CreateTMClientHeader(w.b.ChainID, hh, trusted, w.b.ProposedHeader.Time.Add(time.Minute), w.b.Vals, w.b.NextVals, tv, w.b.Signers),
				Header2: w.b.CreateTMClientHeader(w.b.ChainID, hh, trusted, w.b.ProposedHeader.Time, w.b.Vals, w.b.NextVals, tv, w.b.Signers),
			}
		} else {
			saved := *c.solo
			cm = c.solo.CreateMisbehaviour()
			*c.solo = saved
		}
		msg, err := clienttypes.NewMsgUpdateClient(c.id, cm, w.signer())
		if err != nil {
			w.t.Fatal(err)
		}
		res, e, diff := w.exec(func(ctx sdk.Context) error { _, err := k.UpdateClient(ctx, msg); return err })
		return []NSLine{line(a, res, e, diff, "")}
	case "upgrade":
		c := w.client(a.C)
		var lines []NSLine
		var msg *clienttypes.MsgUpgradeClient
		var cs *ibctm.ClientState
		if c.ty == "tm" && a.C >= 1 && a.C <= len(w.clients) {
			if got, found := k.ClientKeeper.GetClientState(w.a.GetContext(), c.id); found {
				cs, _ = got.(*ibctm.ClientState)
			}
		}
		if cs != nil {
			rev := clienttypes.ParseChainID(cs.ChainId)
			newChainID, err := clienttypes.SetRevisionNumber(cs.ChainId, rev+1)
			if err != nil {
				w.t.Fatal(err)
			}
			upgraded := ibctm.NewClientState(newChainID, ibctm.DefaultTrustLevel, ibctesting.TrustingPeriod, ibctesting.UnbondingPeriod+ibctesting.TrustingPeriod,
				ibctesting.MaxClockDrift, clienttypes.NewHeight(rev+1, cs.LatestHeight.GetRevisionHeight()+1), commitmenttypes.GetSDKSpecs(), ibctesting.UpgradePath)
			upgraded = upgraded.ZeroCustomFields()
			upgradedAny, err := codectypes.NewAnyWithValue(upgraded)
			if err != nil {
				w.t.Fatal(err)
			}
			consAny, err := codectypes.NewAnyWithValue(&ibctm.ConsensusState{NextValidatorsHash: []byte("nextValsHash")})
			if err != nil {
				w.t.Fatal(err)
			}
			planHeight := w.b.GetContext().BlockHeight() + 1
			uk := w.b.GetSimApp().UpgradeKeeper
			if err := uk.SetUpgradedClient(w.b.GetContext(), planHeight, w.b.Codec.MustMarshal(upgradedAny)); err != nil {
				w.t.Fatal(err)
			}
			if err := uk.SetUpgradedConsensusState(w.b.GetContext(), planHeight, w.b.Codec.MustMarshal(consAny)); err != nil {
				w.t.Fatal(err)
			}
			w.coord.CommitBlock(w.b)
			up := w.update(NSAction{Op: "update", C: a.C})
			lines = append(lines, up)
			lh, _ := w.latestHeight(c.id)
			pc := w.upgradeProof(upgradetypes.UpgradedClientKey(planHeight), lh.GetRevisionHeight())
			pcs := w.upgradeProof(upgradetypes.UpgradedConsStateKey(planHeight), lh.GetRevisionHeight())
			msg = &clienttypes.MsgUpgradeClient{ClientId: c.id, ClientState: upgradedAny, ConsensusState: consAny,
				ProofUpgradeClient: pc, ProofUpgradeConsensusState: pcs, Signer: w.signer()}
		} else {
			// solo machines (and unknown clients) cannot be upgraded: the attempt carries well-formed but unverifiable data
			anyCs, _ := codectypes.NewAnyWithValue(&ibctm.ClientState{ChainId: "x-2"})
			anyCons, _ := codectypes.NewAnyWithValue(&ibctm.ConsensusState{NextValidatorsHash: []byte("nextValsHash")})
			msg = &clienttypes.MsgUpgradeClient{ClientId: c.id, ClientState: anyCs, ConsensusState: anyCons,
				ProofUpgradeClient: []byte("p"), ProofUpgradeConsensusState: []byte("p"), Signer: w.signer()}
		}
		res, e, diff := w.exec(func(ctx sdk.Context) error { _, err := k.UpgradeClient(ctx, msg); return err })
		return append(lines, line(a, res, e, diff, ""))
	case "recover":
		subj, subst := w.client(a.C), w.client(a.S)
		if a.S < 1 || a.S > len(w.clients) {
			subst = &nsClient{id: "07-tendermint-998", ty: "tm"}
		}
		msg := &clienttypes.MsgRecoverClient{SubjectClientId: subj.id, SubstituteClientId: subst.id, Signer: k.GetAuthority()}
		res, e, diff := w.exec(func(ctx sdk.Context) error { _, err := k.RecoverClient(ctx, msg); return err })
		if res == "ok" && subj.ty == "solo" && subst.solo != nil {
			// the subject now carries the substitute's key material
			cp := *subst.solo
			subj.solo = &cp
		}
		return []NSLine{line(a, res, e, diff, "")}
	}
	w.t.Fatalf("unknown op %q", a.Op)
	return nil
}

// upgradeProof queries the counterparty's upgrade store like TestChain.QueryUpgradeProof, but a missing proof (the client
// could not be brought to the plan height, e.g. because it is frozen) yields placeholder bytes instead of a test failure:
// the upgrade attempt is then simply rejected by the real code.
func (w *nsWorld) upgradeProof(key []byte, height uint64) []byte {
	if height < 2 {
		return []byte("no-proof")
	}
	res, err := w.b.App.Query(w.b.GetContext().Context(), &abci.RequestQuery{Path: "store/upgrade/key", Height: int64(height - 1), Data: key, Prove: true})
	if err != nil || res == nil {
		return []byte("no-proof")
	}
	mp, err := commitmenttypes.ConvertProofs(res.ProofOps)
	if err != nil {
		return []byte("no-proof")
	}
	bz, err := w.b.App.AppCodec().Marshal(&mp)
	if err != nil {
		return []byte("no-proof")
	}
	return bz
}

func (w *nsWorld) latestHeight(id string) (clienttypes.Height, bool) {
	cs, ok := w.a.App.GetIBCKeeper().ClientKeeper.GetClientState(w.a.GetContext(), id)
	if !ok {
		return clienttypes.Height{}, false
	}
	if tm, ok := cs.(*ibctm.ClientState); ok {
		return tm.LatestHeight, true
	}
	return clienttypes.Height{}, false
}

func (w *nsWorld) update(a NSAction) NSLine {
	k := w.a.App.GetIBCKeeper()
	c := w.client(a.C)
	var cm ibcexported.ClientMessage
	var saved *ibctesting.Solomachine
	if c.ty == "tm" {
		w.coord.CommitBlock(w.b)
		trusted, ok := w.latestHeight(c.id)
		if !ok || trusted.RevisionNumber != clienttypes.ParseChainID(w.b.ChainID) {
			trusted = clienttypes.NewHeight(clienttypes.ParseChainID(w.b.ChainID), 2)
		}
		hdr := *w.b.LatestCommittedHeader
		h, err := w.b.IBCClientHeader(&hdr, trusted)
		if err != nil {
			// no trusted validators known for that height: use the current ones (the update will be rejected)
			tv, _ := w.b.Vals.ToProto()
			hdr.TrustedHeight = trusted
			hdr.TrustedValidators = tv
			h = &hdr
		}
		cm = h
	} else {
		cp := *c.solo
		saved = &cp
		cm = c.solo.CreateHeader(c.solo.Diversifier)
	}
	msg, err := clienttypes.NewMsgUpdateClient(c.id, cm, w.signer())
	if err != nil {
		w.t.Fatal(err)
	}
	res, e, diff := w.exec(func(ctx sdk.Context) error { _, err := k.UpdateClient(ctx, msg); return err })
	if res != "ok" && saved != nil {
		*c.solo = *saved
	}
	if len(e) > 160 {
		e = e[:160]
	}
	return NSLine{A: a, Res: res, Err: e, Diff: diff, Created: []string{}}
}

// RunNamespace executes the schedules on fresh chains.
func RunNamespace(t *testing.T, scheds []NSSchedule, emit func(any)) {
	for _, s := range scheds {
		w := newNSWorld(t)
		emit(NSLine{Tr: s.ID, I: 0, A: NSAction{Op: "init"}, Res: "ok", Diff: [][]string{}, Created: []string{}})
		i := 0
		for _, a := range s.Acts {
			for _, ln := range w.Exec(a) {
				i++
				ln.Tr, ln.I = s.ID, i
				emit(ln)
			}
		}
	}
}
