package funcsB

import (
	"encoding/binary"
	"encoding/json"
	"fmt"
	"os"
	"strconv"
	"testing"

	storetypes "github.com/cosmos/cosmos-sdk/store/v2/types"

	clienttypes "github.com/cosmos/ibc-go/v11/modules/core/02-client/types"
	clientv2types "github.com/cosmos/ibc-go/v11/modules/core/02-client/v2/types"
	channelv2types "github.com/cosmos/ibc-go/v11/modules/core/04-channel/v2/types"
	host "github.com/cosmos/ibc-go/v11/modules/core/24-host"
	hostv2 "github.com/cosmos/ibc-go/v11/modules/core/24-host/v2"
	ibcexported "github.com/cosmos/ibc-go/v11/modules/core/exported"
	ibctm "github.com/cosmos/ibc-go/v11/modules/light-clients/07-tendermint"
	ibctesting "github.com/cosmos/ibc-go/v11/testing"
)

// Symbols: a printable ASCII byte is the one-character string, any other byte b is "xHH" (spec/funcsB/StoreKeys.tla).
func SymsToBytes(syms []string) []byte {
	out := make([]byte, 0, len(syms))
	for _, s := range syms {
		if len(s) == 1 {
			out = append(out, s[0])
			continue
		}
		if len(s) == 3 && s[0] == 'x' {
			b, err := strconv.ParseUint(s[1:], 16, 8)
			if err == nil {
				out = append(out, byte(b))
				continue
			}
		}
		panic("bad symbol " + s)
	}
	return out
}

func BytesToSyms(bz []byte) []string {
	out := make([]string, 0, len(bz))
	for _, b := range bz {
		if b >= 0x20 && b <= 0x7e {
			out = append(out, string(rune(b)))
		} else {
			out = append(out, fmt.Sprintf("x%02x", b))
		}
	}
	return out
}

func digits(s string) []string {
	out := make([]string, 0, len(s))
	for _, c := range s {
		out = append(out, string(c))
	}
	return out
}

type SeqRec struct {
	Be  []string `json:"be"`
	Dec []string `json:"dec"`
}

// Value of the sequence: its big-endian bytes are authoritative (0 if absent).
func (s SeqRec) Value() uint64 {
	bz := SymsToBytes(s.Be)
	if len(bz) != 8 {
		return 0
	}
	return binary.BigEndian.Uint64(bz)
}

// DecOfBe renders the value denoted by the big-endian bytes in decimal (empty if there is no sequence).
func (s SeqRec) DecOfBe() []string {
	if len(s.Be) != 8 {
		return []string{}
	}
	return digits(strconv.FormatUint(s.Value(), 10))
}

type HeightRec struct {
	Rev SeqRec `json:"rev"`
	Ht  SeqRec `json:"ht"`
}

type Tuple struct {
	K string    `json:"k"`
	A []string  `json:"a"`
	B []string  `json:"b"`
	S SeqRec    `json:"s"`
	H HeightRec `json:"h"`
}

type KeyDoc struct {
	World  int               `json:"world"`
	Tuples []json.RawMessage `json:"tuples"`
}

type KeyLine struct {
	Ty   string          `json:"ty"`
	Tr   string          `json:"tr"`
	I    int             `json:"i"`
	T    json.RawMessage `json:"t"`
	Key  []string        `json:"key"`
	Sdec []string        `json:"sdec"`
	Hdec [][]string      `json:"hdec"`
	Res  string          `json:"res"`
}

type IterLine struct {
	Ty  string `json:"ty"`
	Tr  string `json:"tr"`
	I   int    `json:"i"`
	Via string `json:"via"`
	Res string `json:"res"`
	Got []int  `json:"got"`
}

func LoadKeyDoc(path string) (KeyDoc, error) {
	var d KeyDoc
	bz, err := os.ReadFile(path)
	if err != nil {
		return d, err
	}
	err = json.Unmarshal(bz, &d)
	return d, err
}

func isPrefixKind(k string) bool { return len(k) > 4 && k[:4] == "PFX-" }

// RealKey evaluates the real key constructor of ibc-go that corresponds to the tuple's kind.
func RealKey(t Tuple) []byte {
	a, b := string(SymsToBytes(t.A)), string(SymsToBytes(t.B))
	seq := t.S.Value()
	h := clienttypes.NewHeight(t.H.Rev.Value(), t.H.Ht.Value())
	switch t.K {
	case "chanEnd":
		return host.ChannelKey(a, b)
	case "nextRecv":
		return host.NextSequenceRecvKey(a, b)
	case "nextAck":
		return host.NextSequenceAckKey(a, b)
	case "recvStart":
		return host.RecvStartSequenceKey(a, b)
	case "commitV1":
		return host.PacketCommitmentKey(a, b, seq)
	case "ackV1":
		return host.PacketAcknowledgementKey(a, b, seq)
	case "receiptV1":
		return host.PacketReceiptKey(a, b, seq)
	case "conn":
		return host.ConnectionKey(a)
	case "clientState":
		return host.FullClientStateKey(a)
	case "clientConns":
		return host.ClientConnectionsKey(a)
	case "creator":
		return host.FullClientKey(a, clienttypes.CreatorKey())
	case "counterparty":
		return host.FullClientKey(a, clientv2types.CounterpartyKey())
	case "config":
		return host.FullClientKey(a, clientv2types.ConfigKey())
	case "consState":
		return host.FullConsensusStateKey(a, h)
	case "procTime":
		return host.FullClientKey(a, ibctm.ProcessedTimeKey(h))
	case "procHeight":
		return host.FullClientKey(a, ibctm.ProcessedHeightKey(h))
	case "iterKey":
		return host.FullClientKey(a, ibctm.IterationKey(h))
	case "nextClientSeq":
		return []byte(clienttypes.KeyNextClientSequence)
	case "nextConnSeq":
		return []byte("nextConnectionSequence")
	case "nextChanSeq":
		return []byte("nextChannelSequence")
	case "clientParams":
		return []byte(clienttypes.ParamsKey)
	case "connParams":
		return []byte("connectionParams")
	case "commitV2":
		return hostv2.PacketCommitmentKey(a, seq)
	case "receiptV2":
		return hostv2.PacketReceiptKey(a, seq)
	case "ackV2":
		return hostv2.PacketAcknowledgementKey(a, seq)
	case "asyncV2":
		return channelv2types.AsyncPacketKey(a, seq)
	case "aliasV2":
		return channelv2types.AliasKey(a)
	case "nextSend":
		return hostv2.NextSequenceSendKey(a)
	case "PFX-commitV1":
		return host.PacketCommitmentPrefixKey(a, b)
	case "PFX-ackV1":
		return host.PacketAcknowledgementPrefixKey(a, b)
	case "PFX-commitV2":
		return hostv2.PacketCommitmentPrefixKey(a)
	case "PFX-receiptV2":
		return hostv2.PacketReceiptPrefixKey(a)
	case "PFX-ackV2":
		return hostv2.PacketAcknowledgementPrefixKey(a)
	case "PFX-asyncV2":
		return channelv2types.AsyncPacketPrefixKey(a)
	case "PFX-clientStore":
		// 02-client keeper ClientStore uses exactly this prefix; the keeper's own prefix store is iterated below
		return host.FullClientKey(a, nil)
	}
	panic("unknown kind " + t.K)
}

func idxOfValue(v []byte) int {
	n, err := strconv.Atoi(string(v))
	if err != nil {
		return 0
	}
	return n
}

// RunKeys evaluates every tuple on the real constructors, then populates the IBC store of a real chain with all
// keys (value = row number) and runs the real prefix iterations.
func RunKeys(t *testing.T, doc KeyDoc, emit func(any)) {
	tr := fmt.Sprintf("K%d", doc.World)
	tuples := make([]Tuple, len(doc.Tuples))
	keys := make([][]byte, len(doc.Tuples))
	for i, raw := range doc.Tuples {
		if err := json.Unmarshal(raw, &tuples[i]); err != nil {
			t.Fatal(err)
		}
		tp := tuples[i]
		res := guarded(func() { keys[i] = RealKey(tp) })
		emit(KeyLine{Ty: "key", Tr: tr, I: i + 1, T: raw, Key: BytesToSyms(keys[i]), Sdec: tp.S.DecOfBe(),
			Hdec: [][]string{tp.H.Rev.DecOfBe(), tp.H.Ht.DecOfBe()}, Res: res})
	}

	coord := ibctesting.NewCoordinator(t, 1)
	chain := coord.GetChain(ibctesting.GetChainID(1))
	ctx := chain.GetContext()
	app := chain.GetSimApp()
	store := ctx.KVStore(app.GetKey(ibcexported.StoreKey))
	// the genesis entries of the store are not part of the table: they would be reported as row 0
	for i, tp := range tuples {
		if isPrefixKind(tp.K) || keys[i] == nil {
			continue
		}
		store.Set(keys[i], []byte(strconv.Itoa(i+1)))
	}
	// commit the population (iterating a write cache with thousands of dirty entries is quadratic) and read it
	// back through a fresh context: the iterations below run on the committed IAVL store
	chain.NextBlock()
	ctx = chain.GetContext()
	store = ctx.KVStore(app.GetKey(ibcexported.StoreKey))
	collect := func(it storetypes.Iterator) []int {
		defer it.Close()
		got := []int{}
		for ; it.Valid(); it.Next() {
			got = append(got, idxOfValue(it.Value()))
		}
		return got
	}
	k := app.GetIBCKeeper()
	for i, tp := range tuples {
		if !isPrefixKind(tp.K) {
			continue
		}
		a, b := string(SymsToBytes(tp.A)), string(SymsToBytes(tp.B))
		// (1) the raw store iterator with the real prefix key
		var got []int
		if tp.K == "PFX-clientStore" {
			res := guarded(func() { got = collect(k.ClientKeeper.ClientStore(ctx, a).Iterator(nil, nil)) })
			emit(IterLine{Ty: "iter", Tr: tr, I: i + 1, Via: "keeper", Res: res, Got: orEmpty(got)})
			got = nil
		}
		res := guarded(func() { got = collect(storetypes.KVStorePrefixIterator(store, keys[i])) })
		emit(IterLine{Ty: "iter", Tr: tr, I: i + 1, Via: "raw", Res: res, Got: orEmpty(got)})
		// (2) the keeper getters built on that prefix
		got = nil
		via := "keeper"
		switch tp.K {
		case "PFX-commitV1":
			res = guarded(func() {
				for _, ps := range k.ChannelKeeper.GetAllPacketCommitmentsAtChannel(ctx, a, b) {
					got = append(got, idxOfValue(ps.Data))
				}
			})
		case "PFX-commitV2":
			res = guarded(func() {
				for _, ps := range k.ChannelKeeperV2.GetAllPacketCommitmentsForClient(ctx, a) {
					got = append(got, idxOfValue(ps.Data))
				}
			})
		case "PFX-receiptV2":
			res = guarded(func() {
				for _, ps := range k.ChannelKeeperV2.GetAllPacketReceiptsForClient(ctx, a) {
					got = append(got, idxOfValue(ps.Data))
				}
			})
		case "PFX-ackV2":
			res = guarded(func() {
				for _, ps := range k.ChannelKeeperV2.GetAllPacketAcknowledgementsForClient(ctx, a) {
					got = append(got, idxOfValue(ps.Data))
				}
			})
		case "PFX-asyncV2":
			res = guarded(func() {
				for _, ps := range k.ChannelKeeperV2.GetAllAsyncPacketsForClient(ctx, a) {
					got = append(got, idxOfValue(ps.Data))
				}
			})
		default:
			continue
		}
		emit(IterLine{Ty: "iter", Tr: tr, I: i + 1, Via: via, Res: res, Got: orEmpty(got)})
	}
}

func orEmpty(x []int) []int {
	if x == nil {
		return []int{}
	}
	return x
}
