package lib

import (
	"bytes"
	"encoding/json"
	"fmt"

	"github.com/cosmos/cosmos-sdk/codec"
	sdk "github.com/cosmos/cosmos-sdk/types"
	"github.com/cosmos/cosmos-sdk/types/module"

	storetypes "github.com/cosmos/cosmos-sdk/store/v2/types"
)

// ModuleStores names the KV stores owned by the IBC-related modules of the test application, by module name.
var ModuleStores = map[string][]string{
	"ibc":                    {"ibc"},
	"transfer":               {"transfer"},
	"ratelimit":              {"ratelimit"},
	"packetfowardmiddleware": {"packetfowardmiddleware"},
	"interchainaccounts":     {"icacontroller", "icahost"},
	"gmp":                    {"gmp"},
}

// GenesisApp is what ExportImportModules needs from the test application.
type GenesisApp interface {
	GetKey(storeKey string) *storetypes.KVStoreKey
	AppCodec() codec.Codec
}

// ExportImportModules performs, for every named module of mm (in the given order): export the module's genesis
// through its AppModule, delete every key of the module's stores, run the module's InitGenesis on the export.
// It works on a cache of ctx and writes it only if nothing panicked.  It returns "same"/"differs" per module for
// the comparison re-export == export, or an error text when a step panicked (nothing is written then).
func ExportImportModules(ctx sdk.Context, app GenesisApp, mm *module.Manager, names []string) (res map[string]string, err error) {
	cctx, write := ctx.CacheContext()
	res = map[string]string{}
	defer func() {
		if r := recover(); r != nil {
			err = fmt.Errorf("panic: %v", r)
		}
	}()
	cdc := app.AppCodec()
	exports := map[string]json.RawMessage{}
	for _, name := range names {
		m, ok := mm.Modules[name]
		if !ok {
			return nil, fmt.Errorf("no module %q", name)
		}
		switch g := m.(type) {
		case module.HasGenesis:
			exports[name] = g.ExportGenesis(cctx, cdc)
		case module.HasABCIGenesis:
			exports[name] = g.ExportGenesis(cctx, cdc)
		default:
			return nil, fmt.Errorf("module %q has no genesis", name)
		}
	}
	for _, name := range names {
		for _, sk := range ModuleStores[name] {
			key := app.GetKey(sk)
			if key == nil {
				continue
			}
			store := cctx.KVStore(key)
			var keys [][]byte
			it := store.Iterator(nil, nil)
			for ; it.Valid(); it.Next() {
				keys = append(keys, append([]byte{}, it.Key()...))
			}
			it.Close()
			for _, k := range keys {
				store.Delete(k)
			}
		}
	}
	for _, name := range names {
		switch g := mm.Modules[name].(type) {
		case module.HasGenesis:
			g.InitGenesis(cctx, cdc, exports[name])
		case module.HasABCIGenesis:
			g.InitGenesis(cctx, cdc, exports[name])
		}
	}
	for _, name := range names {
		var again json.RawMessage
		switch g := mm.Modules[name].(type) {
		case module.HasGenesis:
			again = g.ExportGenesis(cctx, cdc)
		case module.HasABCIGenesis:
			again = g.ExportGenesis(cctx, cdc)
		}
		if bytes.Equal(again, exports[name]) {
			res[name] = "same"
		} else {
			res[name] = "differs"
		}
	}
	write()
	return res, nil
}
