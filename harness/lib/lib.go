// Package lib holds helpers shared by the conformance drivers: ndjson trace output,
// store digests, header archive and a few JSON conveniences.
package lib

import (
	"bufio"
	crand "crypto/rand"
	"crypto/sha256"
	"encoding/binary"
	"encoding/hex"
	"encoding/json"
	"fmt"
	"os"
	"sort"
	"strconv"
	"sync"

	storetypes "github.com/cosmos/cosmos-sdk/store/v2/types"

	sdk "github.com/cosmos/cosmos-sdk/types"
)

// TraceWriter appends one JSON document per line.
type TraceWriter struct {
	mu sync.Mutex
	f  *os.File
	w  *bufio.Writer
}

func NewTraceWriter(path string) (*TraceWriter, error) {
	f, err := os.Create(path)
	if err != nil {
		return nil, err
	}
	return &TraceWriter{f: f, w: bufio.NewWriterSize(f, 1<<20)}, nil
}

func (t *TraceWriter) Emit(v any) {
	t.mu.Lock()
	defer t.mu.Unlock()
	bz, err := json.Marshal(v)
	if err != nil {
		panic(err)
	}
	t.w.Write(bz)
	t.w.WriteByte('\n')
}

func (t *TraceWriter) Close() {
	t.w.Flush()
	t.f.Close()
}

// StoreDigest hashes every key/value pair of a KV store (in iteration order).
func StoreDigest(store storetypes.KVStore) string {
	h := sha256.New()
	it := store.Iterator(nil, nil)
	defer it.Close()
	var lb [8]byte
	for ; it.Valid(); it.Next() {
		k, v := it.Key(), it.Value()
		binary.BigEndian.PutUint64(lb[:], uint64(len(k)))
		h.Write(lb[:])
		h.Write(k)
		binary.BigEndian.PutUint64(lb[:], uint64(len(v)))
		h.Write(lb[:])
		h.Write(v)
	}
	return hex.EncodeToString(h.Sum(nil))[:16]
}

// StoreDump returns all key/value pairs of a store as hex strings (for diffs in diagnostics).
func StoreDump(store storetypes.KVStore) map[string]string {
	out := map[string]string{}
	it := store.Iterator(nil, nil)
	defer it.Close()
	for ; it.Valid(); it.Next() {
		out[hex.EncodeToString(it.Key())] = hex.EncodeToString(it.Value())
	}
	return out
}

// DigestOf returns the digest of the named store of a context's multistore.
func DigestOf(ctx sdk.Context, key storetypes.StoreKey) string {
	return StoreDigest(ctx.KVStore(key))
}

func EnvInt(name string, def int) int {
	if v := os.Getenv(name); v != "" {
		if n, err := strconv.Atoi(v); err == nil {
			return n
		}
	}
	return def
}

func EnvStr(name, def string) string {
	if v := os.Getenv(name); v != "" {
		return v
	}
	return def
}

// ReadNDJSON reads a file of one JSON document per line into out (a pointer to a slice).
func ReadNDJSON[T any](path string) ([]T, error) {
	f, err := os.Open(path)
	if err != nil {
		return nil, err
	}
	defer f.Close()
	sc := bufio.NewScanner(f)
	sc.Buffer(make([]byte, 1<<20), 1<<28)
	var out []T
	for sc.Scan() {
		line := sc.Bytes()
		if len(line) == 0 {
			continue
		}
		var v T
		if err := json.Unmarshal(line, &v); err != nil {
			return nil, fmt.Errorf("%s: %w", path, err)
		}
		out = append(out, v)
	}
	return out, sc.Err()
}

func SortedKeys[V any](m map[string]V) []string {
	ks := make([]string, 0, len(m))
	for k := range m {
		ks = append(ks, k)
	}
	sort.Strings(ks)
	return ks
}

func Hex(b []byte) string { return hex.EncodeToString(b) }

// detReader is a deterministic byte stream (SHA-256 in counter mode).
type detReader struct {
	mu   sync.Mutex
	seed [32]byte
	ctr  uint64
	buf  []byte
}

func (d *detReader) Read(p []byte) (int, error) {
	d.mu.Lock()
	defer d.mu.Unlock()
	n := 0
	for n < len(p) {
		if len(d.buf) == 0 {
			var c [8]byte
			binary.BigEndian.PutUint64(c[:], d.ctr)
			d.ctr++
			h := sha256.Sum256(append(d.seed[:], c[:]...))
			d.buf = h[:]
		}
		k := copy(p[n:], d.buf)
		d.buf = d.buf[k:]
		n += k
	}
	return n, nil
}

// SeedCryptoRand replaces crypto/rand.Reader by a deterministic stream derived from seed, so that the keys the
// test framework generates (validators, relayer accounts) are the same in every process that executes the same
// schedule: "the same history" then really is the same blocks and transactions (C45), and replays are exact.
func SeedCryptoRand(seed string) {
	crand.Reader = &detReader{seed: sha256.Sum256([]byte(seed))}
}
