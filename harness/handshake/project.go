package handshake

import (
	"sort"

	connectiontypes "github.com/cosmos/ibc-go/v11/modules/core/03-connection/types"
	channeltypes "github.com/cosmos/ibc-go/v11/modules/core/04-channel/types"
	host "github.com/cosmos/ibc-go/v11/modules/core/24-host"
	"github.com/cosmos/ibc-go/v11/modules/core/exported"
	ibctm "github.com/cosmos/ibc-go/v11/modules/light-clients/07-tendermint"

	"verif/harness/lib"
)

func connState(s connectiontypes.State) string {
	switch s {
	case connectiontypes.INIT:
		return "INIT"
	case connectiontypes.TRYOPEN:
		return "TRYOPEN"
	case connectiontypes.OPEN:
		return "OPEN"
	}
	return "NONE"
}

func chanState(s channeltypes.State) string {
	switch s {
	case channeltypes.INIT:
		return "INIT"
	case channeltypes.TRYOPEN:
		return "TRYOPEN"
	case channeltypes.OPEN:
		return "OPEN"
	case channeltypes.CLOSED:
		return "CLOSED"
	}
	return "NONE"
}

// project reads every connection end and channel end of chain c, the identifier counters and the light client
// through the public keeper API.
func (w *World) project(c string) ChainSt {
	chain := w.ch[c]
	ctx := chain.GetContext()
	k := chain.App.GetIBCKeeper()
	st := ChainSt{H: w.height(c)}
	for h := int64(0); h <= st.H; h++ {
		st.Bt = append(st.Bt, w.bt[c][w.H0[c]+h])
	}
	pv := Prov{Conns: []ConnJ{}, Chans: []ChanJ{}}
	for _, ic := range k.ConnectionKeeper.GetAllConnections(ctx) {
		if ic.Id == exported.LocalhostConnectionID {
			continue // sentinel written at genesis, not a generated identifier
		}
		n := int64(-1)
		if seq, err := connectiontypes.ParseConnectionSequence(ic.Id); err == nil && seq < 1<<31 {
			n = int64(seq)
		}
		pv.Conns = append(pv.Conns, ConnJ{
			ID: ic.Id, N: n, Valid: host.ConnectionIdentifierValidator(ic.Id) == nil,
			St: connState(ic.State), Cl: w.absClient(ic.ClientId), Cpcl: w.absClient(ic.Counterparty.ClientId),
			Cpconn: absSeq(ic.Counterparty.ConnectionId, "connection-"), Pfx: string(ic.Counterparty.Prefix.KeyPrefix),
			Vers: absVersions(ic.Versions), Delay: int64(ic.DelayPeriod),
		})
	}
	for _, ic := range k.ChannelKeeper.GetAllChannels(ctx) {
		n := int64(-1)
		if seq, err := channeltypes.ParseChannelSequence(ic.ChannelId); err == nil && seq < 1<<31 {
			n = int64(seq)
		}
		hops := []int64{}
		for _, h := range ic.ConnectionHops {
			hops = append(hops, absSeq(h, "connection-"))
		}
		seqs := []int64{-1, -1, -1}
		if v, ok := k.ChannelKeeper.GetNextSequenceSend(ctx, ic.PortId, ic.ChannelId); ok {
			seqs[0] = int64(v)
		}
		if v, ok := k.ChannelKeeper.GetNextSequenceRecv(ctx, ic.PortId, ic.ChannelId); ok {
			seqs[1] = int64(v)
		}
		if v, ok := k.ChannelKeeper.GetNextSequenceAck(ctx, ic.PortId, ic.ChannelId); ok {
			seqs[2] = int64(v)
		}
		pv.Chans = append(pv.Chans, ChanJ{
			ID: ic.ChannelId, N: n, Valid: host.ChannelIdentifierValidator(ic.ChannelId) == nil, Port: absPort(ic.PortId),
			St: chanState(ic.State), Ord: absOrder(ic.Ordering), Cpport: absPort(ic.Counterparty.PortId),
			Cpchan: absSeq(ic.Counterparty.ChannelId, "channel-"), Hops: hops, Ver: ic.Version, Seqs: seqs,
		})
	}
	sort.Slice(pv.Conns, func(i, j int) bool { return pv.Conns[i].ID < pv.Conns[j].ID })
	sort.Slice(pv.Chans, func(i, j int) bool { return pv.Chans[i].ID < pv.Chans[j].ID })
	pv.Nconn = int64(k.ConnectionKeeper.GetNextConnectionSequence(ctx))
	pv.Nchan = int64(k.ChannelKeeper.GetNextChannelSequence(ctx))
	pv.Ncl = int64(k.ClientKeeper.GetNextClientSequence(ctx))
	st.Cur = pv

	st.Cons = []int64{}
	for _, h := range w.consReal(c) {
		st.Cons = append(st.Cons, w.rel(cp(c), h))
	}
	sortInt64(st.Cons)
	if cs, ok := k.ClientKeeper.GetClientState(ctx, w.clientID(c)); ok {
		if tm, ok := cs.(*ibctm.ClientState); ok {
			st.Frozen = !tm.FrozenHeight.IsZero()
		}
	}
	switch k.ClientKeeper.GetClientStatus(ctx, w.clientID(c)) {
	case exported.Active:
		st.Status = "Active"
	case exported.Frozen:
		st.Status = "Frozen"
	case exported.Expired:
		st.Status = "Expired"
	default:
		st.Status = "Other"
	}
	st.Dig = lib.DigestOf(ctx, chain.GetSimApp().GetKey(exported.StoreKey))
	return st
}

func (w *World) State() State {
	return State{Now: w.now, Ch: map[string]ChainSt{"A": w.project("A"), "B": w.project("B")}}
}
