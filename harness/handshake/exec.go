package handshake

import (
	"encoding/json"
	"fmt"

	sdk "github.com/cosmos/cosmos-sdk/types"

	abci "github.com/cometbft/cometbft/abci/types"

	clienttypes "github.com/cosmos/ibc-go/v11/modules/core/02-client/types"
	connectiontypes "github.com/cosmos/ibc-go/v11/modules/core/03-connection/types"
	channeltypes "github.com/cosmos/ibc-go/v11/modules/core/04-channel/types"
	commitmenttypes "github.com/cosmos/ibc-go/v11/modules/core/23-commitment/types"
	host "github.com/cosmos/ibc-go/v11/modules/core/24-host"
	"github.com/cosmos/ibc-go/v11/modules/core/exported"
	ibctm "github.com/cosmos/ibc-go/v11/modules/light-clients/07-tendermint"
)

// result classes: ok | err | panic  (handshake messages have no no-op results)
func classify(res *abci.ExecTxResult, err error) (string, string) {
	if err != nil {
		return "err", err.Error()
	}
	if res == nil {
		return "err", "nil result"
	}
	return "ok", ""
}

// sendTx delivers msgs in one transaction = one block on chain c at the current tick.
func (w *World) sendTx(c string, msgs ...sdk.Msg) (res string, errStr string) {
	defer func() {
		if r := recover(); r != nil {
			res, errStr = "panic", fmt.Sprint(r)
		}
	}()
	r, err := w.ch[c].SendMsgs(msgs...)
	w.resyncSequence(c)
	return classify(r, err)
}

// resyncSequence re-reads the relayer account's sequence from chain state: ibctesting bumps its local copy
// even when the transaction is rejected before the ante handler incremented it.
func (w *World) resyncSequence(c string) {
	chain := w.ch[c]
	acc := chain.GetSimApp().AccountKeeper.GetAccount(chain.GetContext(), chain.SenderAccount.GetAddress())
	if acc != nil {
		_ = chain.SenderAccount.SetSequence(acc.GetSequence())
	}
}

func (w *World) signer(c string) string { return w.ch[c].SenderAccount.GetAddress().String() }

func (w *World) consReal(c string) []uint64 {
	store := w.ch[c].App.GetIBCKeeper().ClientKeeper.ClientStore(w.ch[c].GetContext(), w.clientID(c))
	var out []uint64
	ibctm.IterateConsensusStateAscending(store, func(h exported.Height) bool {
		out = append(out, h.GetRevisionHeight())
		return false
	})
	return out
}

// proofAt queries a real ICS-23 proof of key on chain c at relative proof height ph.  When the height does
// not exist (adversarial claim) the proof at the latest height is used with the claimed height.
func (w *World) proofAt(c string, key []byte, ph int64) ([]byte, clienttypes.Height) {
	claimed := clienttypes.NewHeight(revision(w.ch[c]), w.real(c, ph))
	q := int64(w.real(c, ph))
	last := w.ch[c].App.LastBlockHeight()
	if q > last || q < 2 {
		q = last
	}
	proof, _ := w.ch[c].QueryProofAtHeight(key, q)
	return proof, claimed
}

func i64(p *int64) int64 {
	if p == nil {
		return 0
	}
	return *p
}

func str(p *string) string {
	if p == nil {
		return ""
	}
	return *p
}

func hopIDs(hops []int64) []string {
	out := make([]string, 0, len(hops))
	for _, h := range hops {
		out = append(out, connID(h))
	}
	return out
}

// Exec executes one abstract action against the real chains and returns its result class.
func (w *World) Exec(a Action) (res string, errStr string) {
	c := a.C
	o := cp(c)
	chain := w.ch[c]
	w.now += a.Dt
	w.setTick(w.now)
	defer func() { w.afterBlock(c, w.now) }()

	switch a.A {
	case "Block":
		chain.NextBlock()
		return "ok", ""

	case "Update":
		return w.updateClient(c, i64(a.P))

	case "Freeze":
		return w.freeze(c)

	case "ConnOpenInit":
		var v *connectiontypes.Version
		if len(a.Ivers) > 0 {
			v = realVersion(a.Ivers[0])
		}
		msg := connectiontypes.NewMsgConnectionOpenInit(w.realClient(str(a.Cl)), w.realClient(str(a.Cpcl)),
			commitmenttypes.NewMerklePrefix([]byte(str(a.Pfx))), v, uint64(i64(a.Delay)), w.signer(c))
		return w.sendTx(c, msg)

	case "ConnOpenTry":
		cpconn := connID(i64(a.Cpconn))
		proof, ph := w.proofAt(o, host.ConnectionKey(cpconn), i64(a.Ph))
		msg := connectiontypes.NewMsgConnectionOpenTry(w.realClient(str(a.Cl)), cpconn, w.realClient(str(a.Cpcl)),
			commitmenttypes.NewMerklePrefix([]byte(str(a.Pfx))), realVersions(a.Cpvers), uint64(i64(a.Delay)),
			proof, ph, w.signer(c))
		return w.sendTx(c, msg)

	case "ConnOpenAck":
		cpconn := connID(i64(a.Cpconn))
		proof, ph := w.proofAt(o, host.ConnectionKey(cpconn), i64(a.Ph))
		var v *connectiontypes.Version
		if a.Ver != nil {
			v = realVersion(*a.Ver)
		}
		msg := connectiontypes.NewMsgConnectionOpenAck(connID(i64(a.Conn)), cpconn, proof, ph, v, w.signer(c))
		return w.sendTx(c, msg)

	case "ConnOpenConfirm":
		// the proof is taken for the counterparty connection the stored end names (what any relayer would do)
		cpconn := ""
		if e, ok := chain.App.GetIBCKeeper().ConnectionKeeper.GetConnection(chain.GetContext(), connID(i64(a.Conn))); ok {
			cpconn = e.Counterparty.ConnectionId
		}
		proof, ph := w.proofAt(o, host.ConnectionKey(cpconn), i64(a.Ph))
		msg := connectiontypes.NewMsgConnectionOpenConfirm(connID(i64(a.Conn)), proof, ph, w.signer(c))
		return w.sendTx(c, msg)

	case "ChanOpenInit":
		msg := channeltypes.NewMsgChannelOpenInit(realPort(str(a.Port)), str(a.Chver), realOrder(str(a.Ord)), hopIDs(a.Hops),
			realPort(str(a.Cpport)), w.signer(c))
		return w.sendTx(c, msg)

	case "ChanOpenTry":
		cpport, cpchan := realPort(str(a.Cpport)), chanID(i64(a.Cpchan))
		proof, ph := w.proofAt(o, host.ChannelKey(cpport, cpchan), i64(a.Ph))
		msg := channeltypes.NewMsgChannelOpenTry(realPort(str(a.Port)), "", realOrder(str(a.Ord)), hopIDs(a.Hops),
			cpport, cpchan, str(a.Cpver), proof, ph, w.signer(c))
		return w.sendTx(c, msg)

	case "ChanOpenAck":
		port, ch := realPort(str(a.Port)), chanID(i64(a.Chan))
		cpport := "nowhere"
		if e, ok := chain.App.GetIBCKeeper().ChannelKeeper.GetChannel(chain.GetContext(), port, ch); ok {
			cpport = e.Counterparty.PortId
		}
		cpchan := chanID(i64(a.Cpchan))
		proof, ph := w.proofAt(o, host.ChannelKey(cpport, cpchan), i64(a.Ph))
		msg := channeltypes.NewMsgChannelOpenAck(port, ch, cpchan, str(a.Cpver), proof, ph, w.signer(c))
		return w.sendTx(c, msg)

	case "ChanOpenConfirm", "ChanCloseConfirm":
		port, ch := realPort(str(a.Port)), chanID(i64(a.Chan))
		cpport, cpchan := "nowhere", ""
		if e, ok := chain.App.GetIBCKeeper().ChannelKeeper.GetChannel(chain.GetContext(), port, ch); ok {
			cpport, cpchan = e.Counterparty.PortId, e.Counterparty.ChannelId
		}
		proof, ph := w.proofAt(o, host.ChannelKey(cpport, cpchan), i64(a.Ph))
		if a.A == "ChanOpenConfirm" {
			return w.sendTx(c, channeltypes.NewMsgChannelOpenConfirm(port, ch, proof, ph, w.signer(c)))
		}
		return w.sendTx(c, channeltypes.NewMsgChannelCloseConfirm(port, ch, proof, ph, w.signer(c)))

	case "ChanCloseInit":
		return w.sendTx(c, channeltypes.NewMsgChannelCloseInit(realPort(str(a.Port)), chanID(i64(a.Chan)), w.signer(c)))

	case "ForeignConn", "ForeignChan":
		return w.foreignWrite(c, a)
	}
	chain.NextBlock()
	return "err", "unknown action " + a.A
}

// updateClient submits the archived header of the counterparty at relative height p, trusted at the greatest
// consensus height below it.
func (w *World) updateClient(c string, p int64) (string, string) {
	o := cp(c)
	target := int64(w.real(o, p))
	hdr, ok := w.headers[o][target]
	if !ok {
		w.ch[c].NextBlock()
		return "err", "no such counterparty block"
	}
	var trusted uint64
	for _, h := range w.consReal(c) {
		if int64(h) < target && h > trusted {
			trusted = h
		}
	}
	if trusted == 0 {
		trusted = uint64(target)
	}
	cpy := *hdr
	hh, err := w.ch[o].IBCClientHeader(&cpy, clienttypes.NewHeight(revision(w.ch[o]), trusted))
	if err != nil {
		w.ch[c].NextBlock()
		return "err", err.Error()
	}
	msg, err := clienttypes.NewMsgUpdateClient(w.clientID(c), hh, w.signer(c))
	if err != nil {
		w.ch[c].NextBlock()
		return "err", err.Error()
	}
	return w.sendTx(c, msg)
}

// freeze submits real misbehaviour evidence: two validly signed conflicting headers of the counterparty.
func (w *World) freeze(c string) (string, string) {
	o := cp(c)
	chainO := w.ch[o]
	cons := w.consReal(c)
	if len(cons) == 0 {
		w.ch[c].NextBlock()
		return "err", "no consensus state"
	}
	trusted := cons[len(cons)-1]
	trustedH := clienttypes.NewHeight(revision(chainO), trusted)
	trustedVals, ok := chainO.TrustedValidators[trusted]
	if !ok {
		w.ch[c].NextBlock()
		return "err", "no trusted validators"
	}
	height := int64(trusted) + 1
	t1 := w.tickTime(w.now)
	h1 := chainO.CreateTMClientHeader(chainO.ChainID, height, trustedH, t1, chainO.Vals, chainO.NextVals, trustedVals, chainO.Signers)
	h2 := chainO.CreateTMClientHeader(chainO.ChainID, height, trustedH, t1.Add(-1), chainO.Vals, chainO.NextVals, trustedVals, chainO.Signers)
	mb := &ibctm.Misbehaviour{ClientId: w.clientID(c), Header1: h1, Header2: h2}
	msg, err := clienttypes.NewMsgUpdateClient(w.clientID(c), mb, w.signer(c))
	if err != nil {
		w.ch[c].NextBlock()
		return "err", err.Error()
	}
	return w.sendTx(c, msg)
}

func realConnState(s string) connectiontypes.State {
	switch s {
	case "INIT":
		return connectiontypes.INIT
	case "TRYOPEN":
		return connectiontypes.TRYOPEN
	case "OPEN":
		return connectiontypes.OPEN
	}
	return connectiontypes.UNINITIALIZED
}

func realChanState(s string) channeltypes.State {
	switch s {
	case "INIT":
		return channeltypes.INIT
	case "TRYOPEN":
		return channeltypes.TRYOPEN
	case "OPEN":
		return channeltypes.OPEN
	case "CLOSED":
		return channeltypes.CLOSED
	}
	return channeltypes.UNINITIALIZED
}

// foreignWrite makes chain c play a counterparty that is not ibc-go: the next block of c commits the given value
// for one of its EXISTING connection / channel ends, written straight into c's store (no ibc-go handler of c is
// involved; nothing else of c changes).  The other chain is the code under test: it is later relayed genuine
// proofs of that end.  An end that does not exist (or another port) is left alone: empty block, "err".
func (w *World) foreignWrite(c string, a Action) (res string, errStr string) {
	chain := w.ch[c]
	defer func() {
		if r := recover(); r != nil {
			res, errStr = "panic", fmt.Sprint(r)
		}
	}()
	ctx := chain.GetContext()
	k := chain.App.GetIBCKeeper()
	switch a.A {
	case "ForeignConn":
		var e ForeignConnE
		id := connID(i64(a.Conn))
		_, found := k.ConnectionKeeper.GetConnection(ctx, id)
		if err := json.Unmarshal(a.E, &e); err != nil || !found || a.Conn == nil {
			chain.NextBlock()
			return "err", "no such connection end / bad end"
		}
		end := connectiontypes.NewConnectionEnd(realConnState(e.St), w.realClient(e.Cl),
			connectiontypes.NewCounterparty(w.realClient(e.Cpcl), connID(e.Cpconn), commitmenttypes.NewMerklePrefix([]byte(e.Pfx))),
			realVersions(e.Vers), uint64(e.Delay))
		k.ConnectionKeeper.SetConnection(ctx, id, end)
	case "ForeignChan":
		var e ForeignChanE
		if err := json.Unmarshal(a.E, &e); err != nil || a.Chan == nil {
			chain.NextBlock()
			return "err", "bad end"
		}
		id := chanID(i64(a.Chan))
		if _, found := k.ChannelKeeper.GetChannel(ctx, realPort(e.Port), id); !found {
			chain.NextBlock()
			return "err", "no such channel end"
		}
		end := channeltypes.NewChannel(realChanState(e.St), realOrder(e.Ord),
			channeltypes.NewCounterparty(realPort(e.Cpport), chanID(e.Cpchan)), hopIDs(e.Hops), e.Ver)
		k.ChannelKeeper.SetChannel(ctx, realPort(e.Port), id, end)
	}
	chain.NextBlock()
	return "ok", ""
}
