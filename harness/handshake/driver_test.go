package handshake

import (
	"encoding/json"
	"fmt"
	"testing"

	"verif/harness/lib"
)

// TestDrive executes every schedule of $VERIF_SCHED (ndjson) on a fresh pair of real chains and writes one
// trace line per step to $VERIF_TRACE.  It never judges: TLC does (spec/handshake/Trace_Handshake.tla).
func TestDrive(t *testing.T) {
	schedPath := lib.EnvStr("VERIF_SCHED", "")
	tracePath := lib.EnvStr("VERIF_TRACE", "")
	if schedPath == "" || tracePath == "" {
		t.Skip("VERIF_SCHED / VERIF_TRACE not set")
	}
	scheds, err := lib.ReadNDJSON[Schedule](schedPath)
	if err != nil {
		t.Fatal(err)
	}
	tw, err := lib.NewTraceWriter(tracePath)
	if err != nil {
		t.Fatal(err)
	}
	defer tw.Close()
	for _, s := range scheds {
		w := NewWorld(t, s.TP)
		tw.Emit(TraceLine{Tr: s.ID, I: 0, Kind: s.Kind, TP: s.TP, A: json.RawMessage(`{"a":"Init","c":"A","dt":0}`), Res: "ok", St: w.State()})
		for i, raw := range s.Acts {
			var a Action
			if err := json.Unmarshal(raw, &a); err != nil {
				t.Fatalf("schedule %s step %d: %v", s.ID, i+1, err)
			}
			res, errStr := w.Exec(a)
			tw.Emit(TraceLine{Tr: s.ID, I: i + 1, Kind: s.Kind, TP: s.TP, A: raw, Res: res, Err: errStr, St: w.State()})
		}
	}
}

// TestVersions evaluates the real version functions on every enumerated case of $VERIF_CASES (ndjson written
// by TLC) and writes case + result to $VERIF_TRACE (judged by spec/handshake/Trace_Versions.tla).
func TestVersions(t *testing.T) {
	casesPath := lib.EnvStr("VERIF_CASES", "")
	tracePath := lib.EnvStr("VERIF_TRACE", "")
	if casesPath == "" || tracePath == "" {
		t.Skip("VERIF_CASES / VERIF_TRACE not set")
	}
	cases, err := lib.ReadNDJSON[json.RawMessage](casesPath)
	if err != nil {
		t.Fatal(err)
	}
	tw, err := lib.NewTraceWriter(tracePath)
	if err != nil {
		t.Fatal(err)
	}
	defer tw.Close()
	for i, raw := range cases {
		var c VCase
		if err := json.Unmarshal(raw, &c); err != nil {
			t.Fatalf("case %d: %v", i+1, err)
		}
		tw.Emit(map[string]any{"tr": fmt.Sprintf("VT:%d", i+1), "i": i + 1, "in": raw, "out": EvalVersionCase(c)})
	}
}
