package handshake

import (
	"fmt"

	connectiontypes "github.com/cosmos/ibc-go/v11/modules/core/03-connection/types"
)

// VCase is one enumerated input of the version function table (spec/handshake/Cases_Versions.tla).
type VCase struct {
	Fn   string    `json:"fn"`
	F1   []string  `json:"f1,omitempty"`
	F2   []string  `json:"f2,omitempty"`
	V1   *Version  `json:"v1,omitempty"`
	V2   *Version  `json:"v2,omitempty"`
	Vs   []Version `json:"vs,omitempty"`
	Ws   []Version `json:"ws,omitempty"`
	Feat string    `json:"feat,omitempty"`
}

func nonNil(s []string) []string {
	if s == nil {
		return []string{}
	}
	return s
}

// EvalVersionCase evaluates the REAL function named by the case and returns its result in the vocabulary of
// Versions.tla.  Nothing is judged here.
func EvalVersionCase(c VCase) (out map[string]any) {
	defer func() {
		if r := recover(); r != nil {
			out = map[string]any{"panic": fmt.Sprint(r)}
		}
	}()
	switch c.Fn {
	case "inter":
		return map[string]any{"f": nonNil(connectiontypes.GetFeatureSetIntersection(c.F1, c.F2))}
	case "verify":
		err := realVersion(*c.V1).VerifyProposedVersion(realVersion(*c.V2))
		return map[string]any{"ok": err == nil}
	case "supported":
		return map[string]any{"ok": connectiontypes.IsSupportedVersion(realVersions(c.Vs), realVersion(*c.V2))}
	case "find":
		vs := realVersions(c.Vs)
		v, found := connectiontypes.FindSupportedVersion(realVersion(*c.V2), vs)
		idx := 0
		for i := range vs {
			if found && vs[i] == v {
				idx = i + 1
				break
			}
		}
		return map[string]any{"ok": found, "idx": idx}
	case "pick":
		v, err := connectiontypes.PickVersion(realVersions(c.Vs), realVersions(c.Ws))
		if err != nil {
			return map[string]any{"ok": false, "v": Version{ID: "", F: []string{}}}
		}
		return map[string]any{"ok": true, "v": absVersion(v)}
	case "valid":
		return map[string]any{"ok": connectiontypes.ValidateVersion(realVersion(*c.V2)) == nil}
	case "feature":
		return map[string]any{"ok": connectiontypes.VerifySupportedFeature(realVersion(*c.V2), c.Feat)}
	}
	return map[string]any{"unknown": c.Fn}
}
