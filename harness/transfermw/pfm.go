package transfermw

import (
	"encoding/json"
	"fmt"
	"sort"
	"strconv"
	"strings"
	"testing"
	"time"

	sdkmath "cosmossdk.io/math"

	sdk "github.com/cosmos/cosmos-sdk/types"
	authtypes "github.com/cosmos/cosmos-sdk/x/auth/types"

	packetforward "github.com/cosmos/ibc-go/v11/modules/apps/packet-forward-middleware"
	transfertypes "github.com/cosmos/ibc-go/v11/modules/apps/transfer/types"
	clienttypes "github.com/cosmos/ibc-go/v11/modules/core/02-client/types"
	channeltypes "github.com/cosmos/ibc-go/v11/modules/core/04-channel/types"
	ibctesting "github.com/cosmos/ibc-go/v11/testing"

	"verif/harness/lib"
)

// ---- abstract values of spec/transfermw/PFM.tla -------------------------------------------------

type PDenom struct {
	T []string `json:"t"`
	B string   `json:"b"`
}

type PHop struct {
	L    string `json:"L"`
	Rcv  string `json:"rcv"`
	To   int64  `json:"to"`
	Ret  int64  `json:"ret"`
	Chok bool   `json:"chok"`
}

type PPkt struct {
	Src  string `json:"src"`
	L    string `json:"L"`
	Seq  int64  `json:"seq"`
	D    PDenom `json:"d"`
	Amt  int64  `json:"amt"`
	Snd  string `json:"snd"`
	Rcv  string `json:"rcv"`
	Memo []PHop `json:"memo"`
	Exp  int64  `json:"exp"`
}

type PAction struct {
	A    string  `json:"a"`
	Dt   int64   `json:"dt"`
	C    string  `json:"c,omitempty"`
	L    string  `json:"L,omitempty"`
	D    *PDenom `json:"d,omitempty"`
	Amt  int64   `json:"amt,omitempty"`
	Rcv  string  `json:"rcv,omitempty"`
	Memo []PHop  `json:"memo,omitempty"`
	Exp  int64   `json:"exp,omitempty"`
	Pkt  *PPkt   `json:"pkt,omitempty"`
	On   *bool   `json:"on,omitempty"` // SetSend: new value of the transfer parameter SendEnabled of chain C
}

type PBal struct {
	C string `json:"c"`
	A string `json:"a"`
	D PDenom `json:"d"`
	V int64  `json:"v"`
}

type PSup struct {
	C string `json:"c"`
	D PDenom `json:"d"`
	V int64  `json:"v"`
}

type PInf struct {
	C      string `json:"c"`
	L      string `json:"L"`
	Seq    int64  `json:"seq"`
	RefL   string `json:"refL"`
	RefSeq int64  `json:"refSeq"`
	Ret    int64  `json:"ret"`
	To     int64  `json:"to"`
}

type PNs struct {
	C string `json:"c"`
	L string `json:"L"`
	N int64  `json:"n"`
}

type PState struct {
	Now int64  `json:"now"`
	Bal []PBal `json:"bal"`
	Sup []PSup `json:"sup"`
	Inf []PInf `json:"inf"`
	Ns  []PNs  `json:"ns"`
	Off []string `json:"off"` // chains whose transfer parameter SendEnabled is false
}

type PWAck struct {
	Pkt PPktID `json:"pkt"`
	Cls string `json:"cls"`
}

type PPktID struct {
	Src string `json:"src"`
	L   string `json:"L"`
	Seq int64  `json:"seq"`
}

type PLine struct {
	Tr   string          `json:"tr"`
	I    int             `json:"i"`
	Kind string          `json:"kind"`
	A    json.RawMessage `json:"a"`
	Res  string          `json:"res"`
	Err  string          `json:"err,omitempty"`
	Sent []PPkt          `json:"sent"` // packets committed in this step
	Wack []PWAck         `json:"wack"` // acknowledgements written in this step
	Xi   string          `json:"xi"`   // XImport: "same" or the modules whose re-export differs
	St   PState          `json:"st"`
}

const pfmTick = time.Minute

var pfmNative = map[string]string{"TA": "utoka", "TB": "utokb", "TC": "utokc", "TD": "utokd"}

type PFMWorld struct {
	*World
	endOfChan map[string]string // channel id -> "L@c"
	chanOfEnd map[string]string // "L@c" -> channel id
	pfmAddr   map[string][]string // chain -> override receiver addresses of the middleware (one per route prefix A -> .. -> chain)
	acctName  map[string]string // chain + "/" + address -> abstract account
	real      map[string]channeltypes.Packet
	acks      map[string][]byte
	sentH     map[string]int64
}

func pktKey(src, l string, seq int64) string { return fmt.Sprintf("%s/%s/%d", src, l, seq) }

func NewPFMWorld(t *testing.T) *PFMWorld {
	w := &PFMWorld{World: NewWorld(t, []string{"A", "B", "C", "D"}, []string{"AB", "BC", "CD", "BX"}, pfmTick),
		endOfChan: map[string]string{}, chanOfEnd: map[string]string{}, pfmAddr: map[string][]string{}, acctName: map[string]string{},
		real: map[string]channeltypes.Packet{}, acks: map[string][]byte{}, sentH: map[string]int64{}}
	for _, l := range w.links {
		for _, c := range []string{l.X, l.Y} {
			end := l.Name + "@" + c
			w.endOfChan[l.ep(c).ChannelID] = end
			w.chanOfEnd[end] = l.ep(c).ChannelID
		}
	}
	for tok, den := range pfmNative {
		c := string(tok[1])
		w.mintTo(c, w.user(c), den, 1000)
		w.denomOf[den] = tok
	}
	for _, c := range w.names {
		w.ch[c].NextBlock()
	}
	// the middleware's override receivers along every route A -> B -> .. of up to three forward hops (the address is
	// derived from the channel the packet arrives on and the sender of the packet)
	codec := w.ch["A"].GetSimApp().AccountKeeper.AddressCodec()
	var walk func(c, sender string, depth int)
	walk = func(c, sender string, depth int) {
		if depth > 3 {
			return
		}
		for _, ln := range lib.SortedKeys(w.links) {
			l := w.links[ln]
			if l.X != c && l.Y != c {
				continue
			}
			next := l.other(c)
			if depth == 0 && ln != "AB" {
				continue
			}
			addr, err := packetforward.GetReceiver(codec, w.chanOfEnd[ln+"@"+next], sender)
			if err != nil {
				t.Fatalf("override receiver: %v", err)
			}
			if _, seen := w.acctName[next+"/"+addr]; !seen {
				w.acctName[next+"/"+addr] = "pfm"
				w.pfmAddr[next] = append(w.pfmAddr[next], addr)
			}
			walk(next, addr, depth+1)
		}
	}
	for _, c := range w.names {
		w.acctName[c+"/"+w.user(c).String()] = "user"
		w.acctName[c+"/"+w.rcvr(c).String()] = "rcvr"
	}
	walk("A", w.user("A").String(), 0)
	// distribute half of TB, TC, TD hop by hop to the user of A (same order as PFMActions.SetUp)
	d := func(tr []string, b string) PDenom { return PDenom{T: tr, B: b} }
	plain := func(c, l string, den PDenom) {
		lk := w.links[l]
		w.voucher(lk.hop(lk.other(c)) + "/" + w.denomPath(den)) // pre-image of the voucher the receiver gets
		w.setupTransfer(lk, c, w.denomStr(den), 500, w.user(lk.other(c)).String())
	}
	plain("B", "AB", d(nil, "TB"))
	plain("C", "BC", d(nil, "TC"))
	plain("B", "AB", d([]string{"BC@B"}, "TC"))
	plain("D", "CD", d(nil, "TD"))
	plain("C", "BC", d([]string{"CD@C"}, "TD"))
	plain("B", "AB", d([]string{"BC@B", "CD@C"}, "TD"))
	// 300 more of TC reach A over the second channel between C and B
	plainN := func(c, l string, den PDenom, n int64) {
		lk := w.links[l]
		w.voucher(lk.hop(lk.other(c)) + "/" + w.denomPath(den))
		w.setupTransfer(lk, c, w.denomStr(den), n, w.user(lk.other(c)).String())
	}
	plainN("C", "BX", d(nil, "TC"), 300)
	plainN("B", "AB", d([]string{"BX@B"}, "TC"), 300)
	w.T0 = w.coord.CurrentTime.Truncate(time.Minute).Add(2 * time.Minute)
	w.now = 0
	w.beginStep(1)
	for _, c := range w.names {
		w.blockAt(c, w.finalTime())
	}
	return w
}

// denomPath is the ICS-20 denomination path of an abstract denomination.
func (w *PFMWorld) denomPath(d PDenom) string {
	parts := []string{}
	for _, e := range d.T {
		parts = append(parts, "transfer/"+w.chanOfEnd[e])
	}
	parts = append(parts, pfmNative[d.B])
	return strings.Join(parts, "/")
}

// denomStr is the bank denomination of an abstract denomination.
func (w *PFMWorld) denomStr(d PDenom) string {
	if len(d.T) == 0 {
		return pfmNative[d.B]
	}
	return w.voucher(w.denomPath(d))
}

func (w *PFMWorld) absPath(path string) PDenom {
	segs := strings.Split(path, "/")
	d := PDenom{T: []string{}}
	i := 0
	for ; i+2 < len(segs); i += 2 {
		end, ok := w.endOfChan[segs[i+1]]
		if !ok || segs[i] != "transfer" {
			break
		}
		d.T = append(d.T, end)
	}
	base := strings.Join(segs[i:], "/")
	if tok, ok := w.denomOf[base]; ok {
		d.B = tok
	} else {
		d.B = "?" + base
	}
	return d
}

func (w *PFMWorld) absDenom(bank string) PDenom {
	if tok, ok := w.denomOf[bank]; ok {
		return PDenom{T: []string{}, B: tok}
	}
	if p, ok := w.hashes[bank]; ok {
		return w.absPath(p)
	}
	return PDenom{T: []string{}, B: "?" + bank}
}

func (w *PFMWorld) acctAddr(c, name string) string {
	switch name {
	case "user":
		return w.user(c).String()
	case "rcvr":
		return w.rcvr(c).String()
	case "bad":
		return "not-a-valid-address"
	}
	return name // "pfm": placeholder receiver of an intermediate hop (overridden by the middleware)
}

func (w *PFMWorld) absAcct(c, addr string) string {
	if n, ok := w.acctName[c+"/"+addr]; ok {
		return n
	}
	if addr == "not-a-valid-address" {
		return "bad"
	}
	if addr == "pfm" {
		return "pfm"
	}
	return "?" + addr
}

const fakeChanPrefix = "channel-77"

var fakeChanOf = map[string]string{"AB": "01", "BC": "02", "CD": "03", "BX": "04"}

func (w *PFMWorld) memoJSON(c string, hops []PHop) string {
	if len(hops) == 0 {
		return ""
	}
	h := hops[0]
	next := w.links[h.L].other(c)
	chanID := w.chanOfEnd[h.L+"@"+c]
	if !h.Chok {
		chanID = fakeChanPrefix + fakeChanOf[h.L]
	}
	m := map[string]any{"receiver": w.acctAddr(next, h.Rcv), "port": "transfer", "channel": chanID,
		"timeout": fmt.Sprintf("%dm", h.To), "retries": h.Ret}
	if len(hops) > 1 {
		var inner map[string]any
		_ = json.Unmarshal([]byte(w.memoJSON(next, hops[1:])), &inner)
		m["next"] = inner
	}
	bz, _ := json.Marshal(map[string]any{"forward": m})
	return string(bz)
}

func (w *PFMWorld) absMemo(c string, memo string) []PHop {
	out := []PHop{}
	if memo == "" {
		return out
	}
	var top map[string]any
	if err := json.Unmarshal([]byte(memo), &top); err != nil {
		return out
	}
	for top != nil {
		f, ok := top["forward"].(map[string]any)
		if !ok {
			break
		}
		h := PHop{Chok: true}
		chanID, _ := f["channel"].(string)
		if end, ok := w.endOfChan[chanID]; ok {
			h.L = strings.SplitN(end, "@", 2)[0]
		} else if strings.HasPrefix(chanID, fakeChanPrefix) {
			h.Chok = false
			for l, code := range fakeChanOf {
				if chanID == fakeChanPrefix+code {
					h.L = l
				}
			}
		}
		next := c
		if l := w.links[h.L]; l != nil {
			next = l.other(c)
		}
		rcv, _ := f["receiver"].(string)
		h.Rcv = w.absAcct(next, rcv)
		switch v := f["timeout"].(type) {
		case string:
			if dd, err := time.ParseDuration(v); err == nil {
				h.To = int64(dd / pfmTick)
			}
		case float64:
			h.To = int64(time.Duration(v) / pfmTick)
		}
		if r, ok := f["retries"].(float64); ok {
			h.Ret = int64(r)
		}
		out = append(out, h)
		c = next
		switch n := f["next"].(type) {
		case map[string]any:
			top = n
		case string:
			top = nil
			_ = json.Unmarshal([]byte(n), &top)
		default:
			top = nil
		}
	}
	return out
}

func (w *PFMWorld) chainOfChan(chanID string) (string, string) {
	end, ok := w.endOfChan[chanID]
	if !ok {
		return "?", "?"
	}
	p := strings.SplitN(end, "@", 2)
	return p[1], p[0]
}

// absPacket maps a real packet back to the abstract packet record.
func (w *PFMWorld) absPacket(p channeltypes.Packet) PPkt {
	src, l := w.chainOfChan(p.SourceChannel)
	var data transfertypes.FungibleTokenPacketData
	_ = json.Unmarshal(p.Data, &data)
	amt, _ := strconv.ParseInt(data.Amount, 10, 64)
	dst := src
	if lk := w.links[l]; lk != nil {
		dst = lk.other(src)
	}
	exp := int64(0)
	if p.TimeoutTimestamp != 0 {
		dd := time.Unix(0, int64(p.TimeoutTimestamp)).Sub(w.T0)
		switch {
		case dd > 500*time.Hour:
			exp = 0
		case dd%pfmTick == 0:
			exp = int64(dd / pfmTick)
		default:
			exp = -1
		}
	}
	return PPkt{Src: src, L: l, Seq: int64(p.Sequence), D: w.absPath(data.Denom), Amt: amt,
		Snd: w.absAcct(src, data.Sender), Rcv: w.absAcct(dst, data.Receiver), Memo: w.absMemo(dst, data.Memo), Exp: exp}
}

func (w *PFMWorld) noteSent(c string, ev TxRes) []PPkt {
	out := []PPkt{}
	for _, p := range sentPackets(ev.Events) {
		a := w.absPacket(p)
		k := pktKey(a.Src, a.L, a.Seq)
		w.real[k] = p
		w.sentH[k] = w.ch[c].App.LastBlockHeight()
		// remember the pre-images of the vouchers this packet can create
		var data transfertypes.FungibleTokenPacketData
		_ = json.Unmarshal(p.Data, &data)
		w.voucher(p.DestinationPort + "/" + p.DestinationChannel + "/" + data.Denom)
		if pre := p.SourcePort + "/" + p.SourceChannel + "/"; strings.HasPrefix(data.Denom, pre) && strings.Contains(data.Denom[len(pre):], "/") {
			w.voucher(data.Denom[len(pre):])
		}
		out = append(out, a)
	}
	return out
}

func (w *PFMWorld) noteAcks(ev TxRes) []PWAck {
	out := []PWAck{}
	ps, err := ibctesting.ParseIBCV1Packets(channeltypes.EventTypeWriteAck, ev.Events)
	if err != nil {
		return out
	}
	acks := allAcks(ev)
	for i, p := range ps {
		src, l := w.chainOfChan(p.SourceChannel)
		if i >= len(acks) {
			break
		}
		w.acks[pktKey(src, l, int64(p.Sequence))] = acks[i]
		out = append(out, PWAck{Pkt: PPktID{Src: src, L: l, Seq: int64(p.Sequence)}, Cls: ackClass(acks[i])})
	}
	return out
}

// allAcks returns the acknowledgements of all write_acknowledgement events, in order.
func allAcks(ev TxRes) [][]byte {
	var out [][]byte
	for _, e := range ev.Events {
		if e.Type != channeltypes.EventTypeWriteAck {
			continue
		}
		for _, at := range e.Attributes {
			if at.Key == channeltypes.AttributeKeyAckHex {
				if bz, err := hexDecode(at.Value); err == nil {
					out = append(out, bz)
				}
			}
		}
	}
	return out
}

func (w *PFMWorld) Exec(a PAction) (line PLine) {
	w.beginStep(a.Dt)
	line.Sent, line.Wack = []PPkt{}, []PWAck{}
	defer func() { line.St = w.State() }()
	switch a.A {
	case "Block":
		w.blockAt("A", w.finalTime())
		line.Res = "ok"
		return line

	case "XImport":
		line.Res, line.Xi, line.Err = w.exportImport(a.C)
		return line

	case "SetSend":
		if w.ch[a.C] == nil || a.On == nil {
			w.blockAt("A", w.finalTime())
			line.Res, line.Err = "err", "bad SetSend"
			return line
		}
		cur := w.ch[a.C].GetSimApp().TransferKeeper.GetParams(w.ch[a.C].GetContext())
		m := transfertypes.NewMsgUpdateParams(authority(), transfertypes.NewParams(*a.On, cur.ReceiveEnabled))
		line.Res, line.Err = w.authorityTx(a.C, m, m.ValidateBasic)
		return line

	case "Transfer":
		l := w.links[a.L]
		e := l.ep(a.C)
		dst := l.other(a.C)
		toT := farFuture(w.finalTime())
		if a.Exp != 0 {
			toT = uint64(w.finalTime().Add(time.Duration(a.Exp) * pfmTick).UnixNano())
		}
		msg := transfertypes.NewMsgTransfer(e.ChannelConfig.PortID, e.ChannelID, sdk.NewCoin(w.denomStr(*a.D), sdkmath.NewInt(a.Amt)),
			w.user(a.C).String(), w.acctAddr(dst, a.Rcv), clienttypes.ZeroHeight(), toT, w.memoJSON(dst, a.Memo))
		r := w.txAt(a.C, 1, w.finalTime(), msg)
		line.Res, line.Err = r.Res, r.Err
		if r.Res == "ok" {
			line.Sent = w.noteSent(a.C, r)
		}
		return line

	case "Recv", "Ack", "Timeout":
		k := pktKey(a.Pkt.Src, a.Pkt.L, a.Pkt.Seq)
		p, ok := w.real[k]
		if ok {
			// the schedule must name the packet the chains really hold under this identifier
			r := w.absPacket(p)
			bz1, _ := json.Marshal(r)
			bz2, _ := json.Marshal(*a.Pkt)
			var n1, n2 any
			_ = json.Unmarshal(bz1, &n1)
			_ = json.Unmarshal(bz2, &n2)
			ok = fmt.Sprint(n1) == fmt.Sprint(n2)
		}
		if !ok {
			w.blockAt(a.Pkt.Src, w.finalTime())
			line.Res, line.Err = "err", "unknown packet"
			return line
		}
		src := a.Pkt.Src
		l := w.links[a.Pkt.L]
		dst := l.other(src)
		var r TxRes
		var actor string
		switch a.A {
		case "Recv":
			actor = dst
			if w.ch[src].App.LastBlockHeight() <= w.sentH[k] {
				w.helperBlock(src)
			}
			proof, ph := w.ch[src].QueryProof(hostCommitKey(p))
			r = w.txAt(dst, 0, w.finalTime(), w.withUpdate(l, dst, channeltypes.NewMsgRecvPacket(p, proof, ph, w.relayer(dst)))...)
		case "Ack":
			actor = src
			ack, have := w.acks[k]
			if !have {
				// no acknowledgement was written: submit a fabricated success acknowledgement with a proof of the (absent) key
				ack = channeltypes.NewResultAcknowledgement([]byte{1}).Acknowledgement()
			}
			r = w.txAt(src, 0, w.finalTime(), w.ackMsgs(src, p, ack)...)
		default:
			actor = src
			r = w.txAt(src, 0, w.finalTime(), w.timeoutMsgs(src, p)...)
		}
		line.Res, line.Err = r.Res, r.Err
		if r.Res == "ok" {
			line.Sent = w.noteSent(actor, r)
			line.Wack = w.noteAcks(r)
		}
		return line
	}
	w.blockAt("A", w.finalTime())
	line.Res, line.Err = "err", "unknown action "+a.A
	return line
}

// State projects balances of the tracked accounts, supplies, in-flight forward records and sequences of all chains.
func (w *PFMWorld) State() PState {
	st := PState{Now: w.now, Bal: []PBal{}, Sup: []PSup{}, Inf: []PInf{}, Ns: []PNs{}, Off: []string{}}
	skip := map[string]bool{sdk.DefaultBondDenom: true, ibctesting.SecondaryDenom: true}
	for _, c := range w.names {
		chain := w.ch[c]
		ctx := chain.GetContext()
		app := chain.GetSimApp()
		accts := []struct {
			name string
			addr sdk.AccAddress
		}{{"user", w.user(c)}, {"rcvr", w.rcvr(c)}, {"mod", authtypes.NewModuleAddress(transfertypes.ModuleName)}}
		for _, pa := range w.pfmAddr[c] {
			if addr, err := sdk.AccAddressFromBech32(pa); err == nil {
				accts = append(accts, struct {
					name string
					addr sdk.AccAddress
				}{"pfm", addr})
			}
		}
		for _, ln := range lib.SortedKeys(w.links) {
			l := w.links[ln]
			if l.X == c || l.Y == c {
				accts = append(accts, struct {
					name string
					addr sdk.AccAddress
				}{"esc:" + ln, w.escrowAddr(l, c)})
				e := l.ep(c)
				if v, ok := chain.App.GetIBCKeeper().ChannelKeeper.GetNextSequenceSend(ctx, e.ChannelConfig.PortID, e.ChannelID); ok {
					st.Ns = append(st.Ns, PNs{C: c, L: ln, N: int64(v)})
				}
			}
		}
		merged := map[string]int{} // account name + bank denomination -> index in st.Bal (the middleware has several accounts)
		for _, ac := range accts {
			for _, coin := range app.BankKeeper.GetAllBalances(ctx, ac.addr) {
				if skip[coin.Denom] || coin.Amount.IsZero() {
					continue
				}
				key := ac.name + "|" + coin.Denom
				if ix, ok := merged[key]; ok {
					st.Bal[ix].V += clampInt(coin.Amount)
					continue
				}
				merged[key] = len(st.Bal)
				st.Bal = append(st.Bal, PBal{C: c, A: ac.name, D: w.absDenom(coin.Denom), V: clampInt(coin.Amount)})
			}
		}
		app.BankKeeper.IterateTotalSupply(ctx, func(coin sdk.Coin) bool {
			if !skip[coin.Denom] && !coin.Amount.IsZero() {
				st.Sup = append(st.Sup, PSup{C: c, D: w.absDenom(coin.Denom), V: clampInt(coin.Amount)})
			}
			return false
		})
		if !app.TransferKeeper.GetParams(ctx).SendEnabled {
			st.Off = append(st.Off, c)
		}
		gs := app.PFMKeeper.ExportGenesis(ctx)
		for key, rec := range gs.InFlightPackets {
			parts := strings.Split(key, "/") // channel/port/sequence
			seq, _ := strconv.ParseInt(parts[len(parts)-1], 10, 64)
			_, l := w.chainOfChan(parts[0])
			_, rl := w.chainOfChan(rec.RefundChannelId)
			st.Inf = append(st.Inf, PInf{C: c, L: l, Seq: seq, RefL: rl, RefSeq: int64(rec.RefundSequence), Ret: int64(rec.RetriesRemaining),
				To: int64(time.Duration(rec.Timeout) / pfmTick)})
		}
	}
	sort.Slice(st.Bal, func(i, j int) bool { return fmt.Sprint(st.Bal[i]) < fmt.Sprint(st.Bal[j]) })
	sort.Slice(st.Sup, func(i, j int) bool { return fmt.Sprint(st.Sup[i]) < fmt.Sprint(st.Sup[j]) })
	sort.Slice(st.Inf, func(i, j int) bool { return fmt.Sprint(st.Inf[i]) < fmt.Sprint(st.Inf[j]) })
	return st
}

// DrivePFM executes one PFM schedule and emits its trace.
func DrivePFM(t *testing.T, s Schedule, tw *lib.TraceWriter) {
	w := NewPFMWorld(t)
	tw.Emit(PLine{Tr: s.ID, I: 0, Kind: "PFM", A: json.RawMessage(`{"a":"Init","dt":0}`), Res: "ok", Sent: []PPkt{}, Wack: []PWAck{}, St: w.State()})
	for i, raw := range s.Acts {
		var a PAction
		if err := json.Unmarshal(raw, &a); err != nil {
			t.Fatalf("schedule %s step %d: %v", s.ID, i+1, err)
		}
		line := w.Exec(a)
		line.Tr, line.I, line.Kind, line.A = s.ID, i+1, "PFM", raw
		tw.Emit(line)
	}
}
