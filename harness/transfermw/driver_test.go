package transfermw

import (
	"testing"

	"verif/harness/lib"
)

// TestDrive executes every schedule of $VERIF_SCHED (ndjson) on fresh real chains and writes one trace line per
// step to $VERIF_TRACE.  It never judges: TLC does (spec/transfermw/Trace_*.tla).
func TestDrive(t *testing.T) {
	schedPath := lib.EnvStr("VERIF_SCHED", "")
	tracePath := lib.EnvStr("VERIF_TRACE", "")
	if schedPath == "" || tracePath == "" {
		t.Skip("VERIF_SCHED / VERIF_TRACE not set")
	}
	scheds, err := lib.ReadNDJSON[Schedule](schedPath)
	if err != nil {
		t.Fatal(err)
	}
	tw, err := lib.NewTraceWriter(tracePath)
	if err != nil {
		t.Fatal(err)
	}
	defer tw.Close()
	for _, s := range scheds {
		switch s.Kind {
		case "RL":
			DriveRL(t, s, tw)
		case "PFM":
			DrivePFM(t, s, tw)
		case "DENOM":
			DriveDenom(t, s, tw)
		default:
			t.Fatalf("unknown schedule kind %q", s.Kind)
		}
	}
}
