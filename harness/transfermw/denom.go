package transfermw

import (
	"encoding/json"
	"fmt"
	"sort"
	"strings"
	"testing"
	"time"

	sdkmath "cosmossdk.io/math"

	sdk "github.com/cosmos/cosmos-sdk/types"

	rlkeeper "github.com/cosmos/ibc-go/v11/modules/apps/rate-limiting/keeper"
	rltypes "github.com/cosmos/ibc-go/v11/modules/apps/rate-limiting/types"
	transfertypes "github.com/cosmos/ibc-go/v11/modules/apps/transfer/types"
	clienttypes "github.com/cosmos/ibc-go/v11/modules/core/02-client/types"
	channeltypes "github.com/cosmos/ibc-go/v11/modules/core/04-channel/types"
	ibctesting "github.com/cosmos/ibc-go/v11/testing"

	"verif/harness/lib"
)

// ---- C42: which denomination is charged by the rate limiter, which one is moved by ICS-20 --------------------

type DHop struct {
	L    string `json:"L"`
	From string `json:"from"`
	M    string `json:"m"` // ok | badrcv | overdraw
}

type DAction struct {
	A     string   `json:"a"`
	Base  string   `json:"base,omitempty"`
	Segs  []string `json:"segs,omitempty"`
	Route string   `json:"route,omitempty"`
	Hops  []DHop   `json:"hops,omitempty"`
	Hop   int      `json:"hop,omitempty"`
	L     string   `json:"L,omitempty"`
	From  string   `json:"from,omitempty"`
	M     string   `json:"m,omitempty"`
}

type DMove struct {
	Acct  string `json:"acct"`
	D     string `json:"d"`
	Delta int64  `json:"delta"`
	bank  string // real bank denomination
}

type DCharge struct {
	D     string `json:"d"`
	Chan  string `json:"chan"`
	Dir   string `json:"dir"`
	Delta int64  `json:"delta"`
}

type DTopoEnd struct {
	L    string `json:"L"`
	C    string `json:"c"`
	Chan string `json:"chan"`
}

type DLine struct {
	Tr      string          `json:"tr"`
	I       int             `json:"i"`
	Kind    string          `json:"kind"`
	A       json.RawMessage `json:"a"`
	Res     string          `json:"res"` // ok | err | skip
	Ack     string          `json:"ack"`
	Err     string          `json:"err,omitempty"`
	Segs    []string        `json:"segs"`    // concrete segments of the native base denomination of the case
	Topo    []DTopoEnd      `json:"topo"`    // channel identifiers
	Moved   []DMove         `json:"moved"`   // bank balance changes of the tracked accounts on the acting chain
	Charged []DCharge       `json:"charged"` // rate-limit flow changes on the acting chain
	Parsed  string          `json:"parsed"`  // denomination returned by the exported ParsePacketInfo for the packet
	PChan   string          `json:"pchan"`   // channel returned by ParsePacketInfo
	Pkt     string          `json:"pkt"`     // denomination path in the packet
	Amt     int64           `json:"amt"`
}

const denomAmt = 10

type DenomWorld struct {
	*World
	ncase   int
	segs    []string
	coin    string // bank denomination currently held by the user of `holder`
	holder  string
	alive   bool
	pending *channeltypes.Packet
}

func NewDenomWorld(t *testing.T) *DenomWorld {
	w := &DenomWorld{World: NewWorld(t, []string{"A", "B", "C"}, nil, time.Minute)}
	w.addLink("AB", "A", "B")
	w.addLink("AB2", "A", "B")
	w.addLink("BC", "B", "C")
	w.T0 = w.coord.CurrentTime.Truncate(time.Minute).Add(2 * time.Minute)
	w.now = 0
	w.beginStep(1)
	for _, c := range w.names {
		w.blockAt(c, w.finalTime())
	}
	return w
}

func (w *DenomWorld) topo() []DTopoEnd {
	out := []DTopoEnd{}
	for _, n := range lib.SortedKeys(w.links) {
		l := w.links[n]
		out = append(out, DTopoEnd{L: n, C: l.X, Chan: l.ep(l.X).ChannelID}, DTopoEnd{L: n, C: l.Y, Chan: l.ep(l.Y).ChannelID})
	}
	return out
}

// abs renders a bank denomination for the trace: raw names as they are, vouchers as "ibc:" + hashed path.
func (w *DenomWorld) abs(bank string) string {
	if strings.HasPrefix(bank, "ibc/") {
		if p, ok := w.hashes[bank]; ok {
			return "ibc:" + p
		}
		return "ibc?" + bank[4:]
	}
	return bank
}

// pathOf is the denomination path ICS-20 puts into a packet for a held coin.
func (w *DenomWorld) pathOf(coin string) string {
	if strings.HasPrefix(coin, "ibc/") {
		return w.hashes[coin]
	}
	return coin
}

type balSnap map[string]map[string]int64 // account -> denom -> amount

func (w *DenomWorld) snap(c string, accts map[string]sdk.AccAddress) balSnap {
	out := balSnap{}
	chain := w.ch[c]
	ctx := chain.GetContext()
	skip := map[string]bool{sdk.DefaultBondDenom: true, ibctesting.SecondaryDenom: true}
	for name, addr := range accts {
		out[name] = map[string]int64{}
		for _, coin := range chain.GetSimApp().BankKeeper.GetAllBalances(ctx, addr) {
			if !skip[coin.Denom] {
				out[name][coin.Denom] = clampInt(coin.Amount)
			}
		}
	}
	out["supply"] = map[string]int64{}
	chain.GetSimApp().BankKeeper.IterateTotalSupply(ctx, func(coin sdk.Coin) bool {
		if !skip[coin.Denom] {
			out["supply"][coin.Denom] = clampInt(coin.Amount)
		}
		return false
	})
	return out
}

func (w *DenomWorld) diffBal(a, b balSnap) []DMove {
	out := []DMove{}
	for acct := range b {
		seen := map[string]bool{}
		for d, v := range b[acct] {
			seen[d] = true
			if v != a[acct][d] {
				out = append(out, DMove{Acct: acct, D: w.abs(d), Delta: v - a[acct][d], bank: d})
			}
		}
		for d, v := range a[acct] {
			if !seen[d] && v != 0 {
				out = append(out, DMove{Acct: acct, D: w.abs(d), Delta: -v, bank: d})
			}
		}
	}
	sort.Slice(out, func(i, j int) bool { return fmt.Sprint(out[i]) < fmt.Sprint(out[j]) })
	return out
}

type flowSnap map[string][2]int64 // denom|chan -> inflow, outflow

func (w *DenomWorld) flows(c string) flowSnap {
	out := flowSnap{}
	for _, r := range w.ch[c].GetSimApp().RateLimitKeeper.GetAllRateLimits(w.ch[c].GetContext()) {
		out[r.Path.Denom+"|"+r.Path.ChannelOrClientId] = [2]int64{clampInt(r.Flow.Inflow), clampInt(r.Flow.Outflow)}
	}
	return out
}

func (w *DenomWorld) diffFlows(a, b flowSnap) []DCharge {
	out := []DCharge{}
	for k, v := range b {
		p := strings.SplitN(k, "|", 2)
		if v[0] != a[k][0] {
			out = append(out, DCharge{D: w.abs(p[0]), Chan: p[1], Dir: "in", Delta: v[0] - a[k][0]})
		}
		if v[1] != a[k][1] {
			out = append(out, DCharge{D: w.abs(p[0]), Chan: p[1], Dir: "out", Delta: v[1] - a[k][1]})
		}
	}
	sort.Slice(out, func(i, j int) bool { return fmt.Sprint(out[i]) < fmt.Sprint(out[j]) })
	return out
}

// watch installs a 100 % rate limit (instrumentation: written directly, channel value 10^9) on every candidate
// denomination of the given channel so that the one the middleware charges becomes observable.
func (w *DenomWorld) watch(c, chanID string, denoms []string) {
	chain := w.ch[c]
	ctx := chain.GetContext()
	k := chain.GetSimApp().RateLimitKeeper
	for _, d := range denoms {
		if d == "" {
			continue
		}
		if _, found := k.GetRateLimit(ctx, d, chanID); found {
			continue
		}
		k.SetRateLimit(ctx, rltypes.RateLimit{
			Path:  &rltypes.Path{Denom: d, ChannelOrClientId: chanID},
			Quota: &rltypes.Quota{MaxPercentSend: sdkmath.NewInt(100), MaxPercentRecv: sdkmath.NewInt(100), DurationHours: 24},
			Flow:  &rltypes.Flow{Inflow: sdkmath.ZeroInt(), Outflow: sdkmath.ZeroInt(), ChannelValue: sdkmath.NewInt(1000000000)},
		})
	}
}

// variants are the bank denominations a parser could plausibly derive from a denomination path.
func (w *DenomWorld) variants(path string) []string {
	out := []string{w.voucher(path), w.voucher(path + "/")}
	if sdk.ValidateDenom(path) == nil {
		out = append(out, path)
	}
	return out
}

func (w *DenomWorld) Exec(a DAction) (line DLine) {
	w.beginStep(1)
	line.Moved, line.Charged, line.Topo = []DMove{}, []DCharge{}, w.topo()
	defer func() { line.Segs = append([]string{}, w.segs...) }()
	switch a.A {
	case "Case":
		// a fresh native token: the case number makes the base unique (appended to the last segment when that is a
		// plain word, otherwise to the first one)
		w.ncase++
		segs := append([]string{}, a.Segs...)
		last := len(segs) - 1
		if strings.Contains(segs[last], "-") && len(segs) > 1 {
			segs[0] = fmt.Sprintf("%s%d", segs[0], w.ncase)
		} else {
			segs[last] = fmt.Sprintf("%s%d", segs[last], w.ncase)
		}
		w.segs = segs
		origin := a.Hops[0].From
		w.coin, w.holder, w.alive, w.pending = strings.Join(segs, "/"), origin, true, nil
		w.mintTo(origin, w.user(origin), w.coin, 1000)
		w.blockAt(origin, w.finalTime())
		line.Res = "ok"
		return line

	case "XSend":
		if !w.alive || w.holder != a.From {
			w.blockAt(a.From, w.finalTime())
			line.Res = "skip"
			return line
		}
		l := w.links[a.L]
		src, dst := a.From, l.other(a.From)
		e := l.ep(src)
		path := w.pathOf(w.coin)
		data := transfertypes.FungibleTokenPacketData{Denom: path, Amount: fmt.Sprint(denomAmt), Sender: w.user(src).String(), Receiver: w.user(dst).String()}
		cands := append([]string{w.coin, rlkeeper.ParseDenomFromSendPacket(data)}, w.variants(path)...)
		w.watch(src, e.ChannelID, cands)
		accts := map[string]sdk.AccAddress{"user": w.user(src), "escrow": w.escrowAddr(l, src)}
		b0, f0 := w.snap(src, accts), w.flows(src)
		amt, receiver := int64(denomAmt), w.user(dst).String()
		switch a.M {
		case "overdraw":
			amt = 1000000
		case "badrcv":
			receiver = "not-a-valid-address"
		}
		msg := transfertypes.NewMsgTransfer(e.ChannelConfig.PortID, e.ChannelID, sdk.NewCoin(w.coin, sdkmath.NewInt(amt)),
			w.user(src).String(), receiver, clienttypes.ZeroHeight(), farFuture(w.finalTime()), "")
		r := w.txAt(src, 1, w.finalTime(), msg)
		line.Res, line.Err, line.Amt, line.Pkt = r.Res, r.Err, denomAmt, path
		line.Moved, line.Charged = w.diffBal(b0, w.snap(src, accts)), w.diffFlows(f0, w.flows(src))
		if r.Res != "ok" {
			w.alive = false
			return line
		}
		ps := sentPackets(r.Events)
		if len(ps) != 1 {
			w.alive = false
			line.Err = "no packet"
			return line
		}
		w.pending = &ps[0]
		if info, err := rlkeeper.ParsePacketInfo(ps[0], rltypes.PACKET_SEND); err == nil {
			line.Parsed, line.PChan = w.abs(info.Denom), info.ChannelID
		}
		return line

	case "XRecv":
		l := w.links[a.L]
		src, dst := a.From, l.other(a.From)
		if !w.alive || w.pending == nil || w.holder != src {
			w.blockAt(dst, w.finalTime())
			line.Res = "skip"
			return line
		}
		p := *w.pending
		w.pending = nil
		var data transfertypes.FungibleTokenPacketData
		_ = json.Unmarshal(p.Data, &data)
		path := data.Denom
		pre := p.DestinationPort + "/" + p.DestinationChannel + "/" + path
		cands := append([]string{rlkeeper.ParseDenomFromRecvPacket(p, data)}, w.variants(pre)...)
		cands = append(cands, w.variants(p.SourcePort+"/"+p.SourceChannel+"/"+path)...)
		cands = append(cands, w.variants(path)...)
		if sp := p.SourcePort + "/" + p.SourceChannel + "/"; strings.HasPrefix(path, sp) {
			cands = append(cands, w.variants(path[len(sp):])...)
		}
		w.watch(dst, p.DestinationChannel, cands)
		accts := map[string]sdk.AccAddress{"user": w.user(dst), "escrow": w.escrowAddr(l, dst)}
		b0, f0 := w.snap(dst, accts), w.flows(dst)
		_, msgs := w.recvMsgs(src, p)
		r := w.txAt(dst, 0, w.finalTime(), msgs...)
		line.Res, line.Err, line.Amt, line.Pkt = r.Res, r.Err, denomAmt, path
		line.Moved, line.Charged = w.diffBal(b0, w.snap(dst, accts)), w.diffFlows(f0, w.flows(dst))
		if info, err := rlkeeper.ParsePacketInfo(p, rltypes.PACKET_RECV); err == nil {
			line.Parsed, line.PChan = w.abs(info.Denom), info.ChannelID
		}
		if r.Res != "ok" {
			w.alive = false
			return line
		}
		line.Ack = ackClass(writtenAck(r.Events))
		if line.Ack != "ok" {
			w.alive = false
			return line
		}
		// the coin the receiver now holds: the denomination credited to the user
		w.alive = false
		for _, m := range line.Moved {
			if m.Acct == "user" && m.Delta > 0 {
				w.coin, w.holder, w.alive = m.bank, dst, true
			}
		}
		return line
	}
	w.blockAt("A", w.finalTime())
	line.Res, line.Err = "err", "unknown action "+a.A
	return line
}

// DriveDenom executes a list of cases (each a list of hop actions) and emits the trace.
func DriveDenom(t *testing.T, s Schedule, tw *lib.TraceWriter) {
	w := NewDenomWorld(t)
	tw.Emit(DLine{Tr: s.ID, I: 0, Kind: "DENOM", A: json.RawMessage(`{"a":"Init"}`), Res: "ok", Segs: []string{}, Topo: w.topo(),
		Moved: []DMove{}, Charged: []DCharge{}})
	for i, raw := range s.Acts {
		var a DAction
		if err := json.Unmarshal(raw, &a); err != nil {
			t.Fatalf("schedule %s step %d: %v", s.ID, i+1, err)
		}
		line := w.Exec(a)
		line.Tr, line.I, line.Kind, line.A = s.ID, i+1, "DENOM", raw
		tw.Emit(line)
	}
}
