package transfermw

import (
	"encoding/json"
	"fmt"
	"sort"
	"strconv"
	"strings"
	"testing"
	"time"

	sdkmath "cosmossdk.io/math"

	sdk "github.com/cosmos/cosmos-sdk/types"

	rltypes "github.com/cosmos/ibc-go/v11/modules/apps/rate-limiting/types"
	transfertypes "github.com/cosmos/ibc-go/v11/modules/apps/transfer/types"
	clienttypes "github.com/cosmos/ibc-go/v11/modules/core/02-client/types"
	channeltypes "github.com/cosmos/ibc-go/v11/modules/core/04-channel/types"

	"verif/harness/lib"
)

// ---- abstract values of spec/transfermw/RateLimit.tla ------------------------------------------

type RLPkt struct {
	Dir  string `json:"dir"`
	Ch   string `json:"ch"`
	Seq  int64  `json:"seq"`
	D    string `json:"d"`
	Amt  int64  `json:"amt"`
	Fate string `json:"fate"`
	Fw   int64  `json:"fw"`
}

type RLAction struct {
	A    string `json:"a"`
	Dt   int64  `json:"dt"`
	D    string `json:"d,omitempty"`
	Ch   string `json:"ch,omitempty"`
	Amt  int64  `json:"amt,omitempty"`
	Fate string `json:"fate,omitempty"`
	Qs   int64  `json:"qs,omitempty"`
	Qr   int64  `json:"qr,omitempty"`
	Dur  int64  `json:"dur,omitempty"`
	Pkt  *RLPkt `json:"pkt,omitempty"`
	W    int64  `json:"w,omitempty"`    // receiver variant of a transfer (0 | 1)
	Pair string `json:"pair,omitempty"` // WlAdd / WlDel: "snd>rcv" (abstract party names)
}

type RLRec struct {
	P       string `json:"p"` // denom/channel
	Qs      int64  `json:"qs"`
	Qr      int64  `json:"qr"`
	Dur     int64  `json:"dur"`
	Inflow  int64  `json:"inflow"`
	Outflow int64  `json:"outflow"`
	Cv      int64  `json:"cv"`
}

type RLMark struct {
	P   string `json:"p"`
	Seq int64  `json:"seq"`
}

type RLState struct {
	Now   int64    `json:"now"`
	EpNum int64    `json:"epnum"`
	EpSt  int64    `json:"epstart"` // ticks; -1000000 if not on a tick
	Rl    []RLRec  `json:"rl"`
	Ps    []RLMark `json:"ps"`
	Pr    []RLMark `json:"pr"`
	SupN  int64    `json:"supN"`
	SupV  int64    `json:"supV"`
	NsAB  int64    `json:"nsAB"`
	NsAC  int64    `json:"nsAC"`
	Nr    int64    `json:"nr"`
	Wl    []string `json:"wl"` // whitelisted address pairs "snd>rcv" (abstract party names)
	Bl    []string `json:"bl"` // blacklisted denominations (abstract names)
	Other int64    `json:"other"` // rate limits / markers / list entries that are not modelled
	Dig   string   `json:"dig"`
}

type RLLine struct {
	Tr   string          `json:"tr"`
	I    int             `json:"i"`
	Kind string          `json:"kind"`
	A    json.RawMessage `json:"a"`
	Res  string          `json:"res"`
	Ack  string          `json:"ack"` // acknowledgement written on A in this step: ok | err | none | ""
	Nb   int             `json:"nb"`  // blocks of A in this step
	Pk   *RLPkt          `json:"pk,omitempty"`
	Err  string          `json:"err,omitempty"`
	Xi   string          `json:"xi"` // XImport: "same" if the re-export of every module equals its export, else the modules that differ
	St   RLState         `json:"st"`
}

const (
	rlTick  = 5 * time.Minute
	realN   = "uverif"
	realP   = "upeer"
	supplyN = 4000
)

type RLWorld struct {
	*World
	realV string
	nOnB  string // voucher of N on B
	out   map[string]channeltypes.Packet // "ch/seq" -> packet sent by A
	abs   map[string]RLPkt               // "dir/ch/seq" -> abstract packet as reported when it was created
	fwd   map[int64]channeltypes.Packet  // inbound seq -> packet forwarded by A over AC
	sentH map[string]int64               // height of A at which the packet was committed
}

func NewRLWorld(t *testing.T) *RLWorld {
	w := &RLWorld{World: NewWorld(t, []string{"A", "B", "C"}, []string{"AB", "AC"}, rlTick),
		out: map[string]channeltypes.Packet{}, fwd: map[int64]channeltypes.Packet{}, sentH: map[string]int64{}, abs: map[string]RLPkt{}}
	ab := w.links["AB"]
	w.mintTo("A", w.user("A"), realN, supplyN)
	w.mintTo("B", w.user("B"), realP, 1000000)
	w.ch["A"].NextBlock()
	w.ch["B"].NextBlock()
	w.realV = w.voucher(ab.hop("A") + "/" + realP)
	w.nOnB = w.voucher(ab.hop("B") + "/" + realN)
	w.denomOf[realN] = "N"
	w.denomOf[w.realV] = "V"
	w.setupTransfer(ab, "A", realN, 2000, w.user("B").String())
	w.setupTransfer(ab, "B", realP, 1000, w.user("A").String())
	if got := w.bal("A", w.user("A"), w.realV); got != 1000 {
		t.Fatalf("set-up: user of A holds %d of %s", got, w.realV)
	}
	if got := w.bal("B", w.user("B"), w.nOnB); got != 2000 {
		t.Fatalf("set-up: user of B holds %d of %s", got, w.nOnB)
	}
	// tick 0 = start of A's hour epoch
	ep, err := w.ch["A"].GetSimApp().RateLimitKeeper.GetHourEpoch(w.ch["A"].GetContext())
	if err != nil {
		t.Fatalf("epoch: %v", err)
	}
	w.T0 = ep.EpochStartTime
	if !w.coord.CurrentTime.Before(w.tickTime(1).Add(-2 * time.Second)) {
		t.Fatalf("set-up took too much chain time: %s", w.coord.CurrentTime)
	}
	w.now = 0
	w.beginStep(1)
	for _, c := range w.names {
		w.blockAt(c, w.finalTime())
	}
	return w
}

func (w *RLWorld) chanName(channelID string) string {
	for _, n := range []string{"AB", "AC"} {
		if w.links[n].ep("A").ChannelID == channelID {
			return n
		}
	}
	return "?" + channelID
}

func (w *RLWorld) realDenom(d string) string {
	if d == "N" {
		return realN
	}
	return w.realV
}

// party maps an abstract party name of RateLimit.tla ("uA", "rB", "xA", "yC", ...) to the address string it stands
// for: u = user, r = second account, x / y = two strings that are not addresses (a receive naming them fails).
func (w *RLWorld) party(name string) (string, bool) {
	if len(name) != 2 || w.ch[name[1:]] == nil {
		return "", false
	}
	c := name[1:]
	switch name[0] {
	case 'u':
		return w.user(c).String(), true
	case 'r':
		return w.rcvr(c).String(), true
	case 'x':
		return "not-a-valid-address", true
	case 'y':
		return "not-a-valid-address-2", true
	}
	return "", false
}

// partyName is the inverse of party for the addresses of chain-independent strings and the accounts of all chains.
func (w *RLWorld) partyName(addr string) (string, bool) {
	for _, c := range w.names {
		for _, k := range []string{"u", "r"} {
			if a, _ := w.party(k + c); a == addr {
				return k + c, true
			}
		}
	}
	return "", false
}

// receiverOf is the receiver address of a transfer to chain c: valid (user / second account) unless the transfer is
// to fail on receive, variant v.
func (w *RLWorld) receiverOf(c string, fails bool, v int64) string {
	k := "u"
	switch {
	case fails && v == 1:
		k = "y"
	case fails:
		k = "x"
	case v == 1:
		k = "r"
	}
	a, _ := w.party(k + c)
	return a
}

func farFuture(at time.Time) uint64 { return uint64(at.Add(1000 * time.Hour).UnixNano()) }

// Exec executes one abstract action; the transaction on A is the last block of the step.
func (w *RLWorld) Exec(a RLAction) (line RLLine) {
	w.beginStep(a.Dt)
	nb0 := w.nblk["A"]
	defer func() {
		line.Nb = w.nblk["A"] - nb0
		line.St = w.State()
	}()
	A := w.ch["A"]
	switch a.A {
	case "Block":
		w.blockAt("A", w.finalTime())
		return RLLine{Res: "ok"}

	case "Send":
		l := w.links[a.Ch]
		if l == nil {
			w.blockAt("A", w.finalTime())
			return RLLine{Res: "err", Err: "no such channel"}
		}
		peer := l.other("A")
		receiver := w.receiverOf(peer, a.Fate == "err", a.W)
		toH, toT := clienttypes.ZeroHeight(), farFuture(w.finalTime())
		if a.Fate == "to" {
			toH = clienttypes.NewHeight(clienttypes.ParseChainID(w.ch[peer].ChainID), uint64(w.ch[peer].App.LastBlockHeight())+1)
			toT = 0
		}
		e := l.ep("A")
		msg := transfertypes.NewMsgTransfer(e.ChannelConfig.PortID, e.ChannelID, sdk.NewCoin(w.realDenom(a.D), sdkmath.NewInt(a.Amt)),
			w.user("A").String(), receiver, toH, toT, "")
		r := w.txAt("A", 1, w.finalTime(), msg)
		if r.Res != "ok" {
			return RLLine{Res: r.Res, Err: r.Err}
		}
		ps := sentPackets(r.Events)
		if len(ps) != 1 {
			return RLLine{Res: "ok", Err: fmt.Sprintf("%d packets sent", len(ps))}
		}
		key := fmt.Sprintf("%s/%d", a.Ch, ps[0].Sequence)
		w.out[key] = ps[0]
		w.sentH[key] = A.App.LastBlockHeight()
		pk := RLPkt{Dir: "out", Ch: a.Ch, Seq: int64(ps[0].Sequence), D: a.D, Amt: a.Amt, Fate: a.Fate}
		w.abs["out/"+key] = pk
		return RLLine{Res: "ok", Pk: &pk}

	case "Recv":
		ab := w.links["AB"]
		denom := realP
		if a.D == "N" {
			denom = w.nOnB
		}
		receiver, memo := w.receiverOf("A", a.Fate == "err", a.W), ""
		switch a.Fate {
		case "fok", "ferr", "fto":
			final := w.user("C").String()
			if a.Fate == "ferr" {
				final = "not-a-valid-address"
			}
			timeout := "8760h"
			if a.Fate == "fto" {
				timeout = "1ms"
			}
			ac := w.links["AC"].ep("A")
			memo = fmt.Sprintf(`{"forward":{"receiver":"%s","port":"%s","channel":"%s","timeout":"%s"}}`, final, ac.ChannelConfig.PortID, ac.ChannelID, timeout)
		}
		e := ab.ep("B")
		msg := transfertypes.NewMsgTransfer(e.ChannelConfig.PortID, e.ChannelID, sdk.NewCoin(denom, sdkmath.NewInt(a.Amt)),
			w.user("B").String(), receiver, clienttypes.ZeroHeight(), farFuture(w.finalTime()), memo)
		r := w.helperTx("B", 1, msg)
		if r.Res != "ok" || len(sentPackets(r.Events)) != 1 {
			w.blockAt("A", w.finalTime())
			return RLLine{Res: "err", Err: "peer send failed: " + r.Err}
		}
		p := sentPackets(r.Events)[0]
		_, msgs := w.recvMsgs("B", p)
		r2 := w.txAt("A", 0, w.finalTime(), msgs...)
		if r2.Res != "ok" {
			return RLLine{Res: r2.Res, Err: r2.Err}
		}
		pk := &RLPkt{Dir: "in", Ch: "AB", Seq: int64(p.Sequence), D: a.D, Amt: a.Amt, Fate: a.Fate}
		if f := sentPackets(r2.Events); len(f) == 1 {
			w.fwd[int64(p.Sequence)] = f[0]
			w.sentH[fmt.Sprintf("fwd/%d", p.Sequence)] = A.App.LastBlockHeight()
			pk.Fw = int64(f[0].Sequence)
			w.abs[fmt.Sprintf("in/AB/%d", p.Sequence)] = *pk
		}
		return RLLine{Res: "ok", Ack: ackClass(writtenAck(r2.Events)), Pk: pk}

	case "Ack", "Timeout":
		key := fmt.Sprintf("%s/%d", a.Pkt.Ch, a.Pkt.Seq)
		p, ok := w.out[key]
		if !ok || a.Pkt.Dir != "out" || w.abs["out/"+key] != *a.Pkt {
			w.blockAt("A", w.finalTime())
			return RLLine{Res: "err", Err: "unknown packet"}
		}
		return w.finish(p, w.sentH[key], a.A == "Timeout")

	case "Resolve":
		f, ok := w.fwd[a.Pkt.Seq]
		if !ok || a.Pkt.Dir != "in" || w.abs[fmt.Sprintf("in/AB/%d", a.Pkt.Seq)] != *a.Pkt {
			w.blockAt("A", w.finalTime())
			return RLLine{Res: "err", Err: "unknown packet"}
		}
		line := w.finish(f, w.sentH[fmt.Sprintf("fwd/%d", a.Pkt.Seq)], a.Pkt.Fate == "fto")
		return line

	case "XImport":
		res, xi, errStr := w.exportImport("A")
		return RLLine{Res: res, Xi: xi, Err: errStr}

	case "WlAdd", "WlDel", "BlAdd", "BlDel":
		// the module has no messages for its lists: genesis and upgrade handlers call these keeper functions
		k := A.GetSimApp().RateLimitKeeper
		var fn func(ctx sdk.Context) error
		switch a.A {
		case "WlAdd", "WlDel":
			parts := strings.SplitN(a.Pair, ">", 2)
			if len(parts) != 2 {
				w.blockAt("A", w.finalTime())
				return RLLine{Res: "err", Err: "bad pair"}
			}
			snd, ok1 := w.party(parts[0])
			rcv, ok2 := w.party(parts[1])
			if !ok1 || !ok2 {
				w.blockAt("A", w.finalTime())
				return RLLine{Res: "err", Err: "unknown party"}
			}
			if a.A == "WlAdd" {
				fn = func(ctx sdk.Context) error {
					k.SetWhitelistedAddressPair(ctx, rltypes.WhitelistedAddressPair{Sender: snd, Receiver: rcv})
					return nil
				}
			} else {
				fn = func(ctx sdk.Context) error { k.RemoveWhitelistedAddressPair(ctx, snd, rcv); return nil }
			}
		case "BlAdd":
			fn = func(ctx sdk.Context) error { k.AddDenomToBlacklist(ctx, w.realDenom(a.D)); return nil }
		default:
			fn = func(ctx sdk.Context) error { k.RemoveDenomFromBlacklist(ctx, w.realDenom(a.D)); return nil }
		}
		res, errStr := w.keeperTx("A", fn)
		return RLLine{Res: res, Err: errStr}

	case "Add", "Update", "Remove", "Reset":
		l := w.links[a.Ch]
		chanID := "channel-999"
		if l != nil {
			chanID = l.ep("A").ChannelID
		}
		var msg sdk.Msg
		var vb func() error
		switch a.A {
		case "Add":
			m := &rltypes.MsgAddRateLimit{Signer: authority(), Denom: w.realDenom(a.D), ChannelOrClientId: chanID,
				MaxPercentSend: sdkmath.NewInt(a.Qs), MaxPercentRecv: sdkmath.NewInt(a.Qr), DurationHours: uint64(a.Dur)}
			msg, vb = m, m.ValidateBasic
		case "Update":
			m := &rltypes.MsgUpdateRateLimit{Signer: authority(), Denom: w.realDenom(a.D), ChannelOrClientId: chanID,
				MaxPercentSend: sdkmath.NewInt(a.Qs), MaxPercentRecv: sdkmath.NewInt(a.Qr), DurationHours: uint64(a.Dur)}
			msg, vb = m, m.ValidateBasic
		case "Remove":
			m := &rltypes.MsgRemoveRateLimit{Signer: authority(), Denom: w.realDenom(a.D), ChannelOrClientId: chanID}
			msg, vb = m, m.ValidateBasic
		default:
			m := &rltypes.MsgResetRateLimit{Signer: authority(), Denom: w.realDenom(a.D), ChannelOrClientId: chanID}
			msg, vb = m, m.ValidateBasic
		}
		res, errStr := w.authorityTx("A", msg, vb)
		return RLLine{Res: res, Err: errStr}
	}
	w.blockAt("A", w.finalTime())
	return RLLine{Res: "err", Err: "unknown action " + a.A}
}

// finish relays packet p (sent by A at height sentH) to its destination and the acknowledgement back, or lets
// it time out; the MsgAcknowledgement / MsgTimeout on A is the last block of the step.
func (w *RLWorld) finish(p channeltypes.Packet, sentH int64, timeout bool) RLLine {
	if timeout {
		r := w.txAt("A", 0, w.finalTime(), w.timeoutMsgs("A", p)...)
		return RLLine{Res: r.Res, Err: r.Err, Ack: ackClass(writtenAck(r.Events))}
	}
	l := w.linkOfPacket("A", p, true)
	dst := l.other("A")
	// the commitment must be provable: A needs one block after the one that sent the packet
	if w.ch["A"].App.LastBlockHeight() <= sentH {
		w.helperBlock("A")
	}
	proof, ph := w.ch["A"].QueryProof(hostCommitKey(p))
	r := w.helperTx(dst, 0, w.withUpdate(l, dst, channeltypes.NewMsgRecvPacket(p, proof, ph, w.relayer(dst)))...)
	if r.Res != "ok" {
		w.blockAt("A", w.finalTime())
		return RLLine{Res: "err", Err: "peer receive failed: " + r.Err}
	}
	ack := writtenAck(r.Events)
	if ack == nil {
		w.blockAt("A", w.finalTime())
		return RLLine{Res: "err", Err: "peer wrote no acknowledgement"}
	}
	r2 := w.txAt("A", 0, w.finalTime(), w.ackMsgs("A", p, ack)...)
	return RLLine{Res: r2.Res, Err: r2.Err, Ack: ackClass(writtenAck(r2.Events))}
}

// authorityTx executes a message whose signer is the governance module account: an empty block first (so that
// the begin blocker of the step ran before the message, as for a transaction), then stateless validation and the
// registered message handler on a cached context that is written only on success.
func (w *World) authorityTx(c string, msg sdk.Msg, validateBasic func() error) (res string, errStr string) {
	chain := w.ch[c]
	w.helperBlock(c)
	w.coord.SetTime(w.finalTime())
	defer func() {
		if r := recover(); r != nil {
			res, errStr = "panic", fmt.Sprint(r)
		}
		w.nblk[c]++
		chain.NextBlock()
	}()
	if err := validateBasic(); err != nil {
		return "err", err.Error()
	}
	ctx := chain.GetContext()
	cacheCtx, write := ctx.CacheContext()
	h := chain.GetSimApp().MsgServiceRouter().Handler(msg)
	if h == nil {
		return "err", "no handler"
	}
	if _, err := h(cacheCtx, msg); err != nil {
		return "err", err.Error()
	}
	write()
	return "ok", ""
}

// keeperTx runs an administrative keeper call in a block of its own (an empty block first, as for authorityTx) on a
// cached context that is written only on success.
func (w *World) keeperTx(c string, fn func(ctx sdk.Context) error) (res string, errStr string) {
	chain := w.ch[c]
	w.helperBlock(c)
	w.coord.SetTime(w.finalTime())
	defer func() {
		if r := recover(); r != nil {
			res, errStr = "panic", fmt.Sprint(r)
		}
		w.nblk[c]++
		chain.NextBlock()
	}()
	cacheCtx, write := chain.GetContext().CacheContext()
	if err := fn(cacheCtx); err != nil {
		return "err", err.Error()
	}
	write()
	return "ok", ""
}

// State projects the rate-limit state of A.
func (w *RLWorld) State() RLState {
	A := w.ch["A"]
	ctx := A.GetContext()
	k := A.GetSimApp().RateLimitKeeper
	st := RLState{Now: w.now, Rl: []RLRec{}, Ps: []RLMark{}, Pr: []RLMark{}, Wl: []string{}, Bl: []string{}}
	if ep, err := k.GetHourEpoch(ctx); err == nil {
		st.EpNum = int64(ep.EpochNumber)
		d := ep.EpochStartTime.Sub(w.T0)
		if d%w.tick == 0 {
			st.EpSt = int64(d / w.tick)
		} else {
			st.EpSt = -1000000
		}
	}
	pathOf := func(denom, chanID string) (string, bool) {
		d, ok := w.denomOf[denom]
		c := w.chanName(chanID)
		if !ok || strings.HasPrefix(c, "?") {
			return "", false
		}
		return d + "/" + c, true
	}
	for _, r := range k.GetAllRateLimits(ctx) {
		p, ok := pathOf(r.Path.Denom, r.Path.ChannelOrClientId)
		if !ok {
			st.Other++
			continue
		}
		st.Rl = append(st.Rl, RLRec{P: p, Qs: clampInt(r.Quota.MaxPercentSend), Qr: clampInt(r.Quota.MaxPercentRecv), Dur: int64(r.Quota.DurationHours),
			Inflow: clampInt(r.Flow.Inflow), Outflow: clampInt(r.Flow.Outflow), Cv: clampInt(r.Flow.ChannelValue)})
	}
	marks := func(ids []string) []RLMark {
		out := []RLMark{}
		for _, id := range ids {
			parts := strings.SplitN(id, "/", 3)
			if len(parts) != 3 {
				st.Other++
				continue
			}
			seq, _ := strconv.ParseInt(parts[1], 10, 64)
			p, ok := pathOf(parts[2], parts[0])
			if !ok {
				st.Other++
				continue
			}
			out = append(out, RLMark{P: p, Seq: seq})
		}
		sort.Slice(out, func(i, j int) bool { return out[i].P < out[j].P || (out[i].P == out[j].P && out[i].Seq < out[j].Seq) })
		return out
	}
	if ids, err := k.GetAllPendingSendPackets(ctx); err == nil {
		st.Ps = marks(ids)
	}
	if ids, err := k.GetAllPendingReceivePackets(ctx); err == nil {
		st.Pr = marks(ids)
	}
	invalid := map[string]string{"not-a-valid-address": "x", "not-a-valid-address-2": "y"}
	for _, wp := range k.GetAllWhitelistedAddressPairs(ctx) {
		snd, ok1 := w.partyName(wp.Sender)
		rcv, ok2 := w.partyName(wp.Receiver)
		if !ok2 && ok1 && len(snd) == 2 {
			// an invalid receiver string stands for "a receiver on the chain the sender sends to"
			if kind, bad := invalid[wp.Receiver]; bad {
				peer := "A"
				if snd[1:] == "A" {
					peer = "B"
				}
				rcv, ok2 = kind+peer, true
			}
		}
		if !ok1 || !ok2 {
			st.Other++
			continue
		}
		st.Wl = append(st.Wl, snd+">"+rcv)
	}
	sort.Strings(st.Wl)
	for _, d := range k.GetAllBlacklistedDenoms(ctx) {
		if n, ok := w.denomOf[d]; ok {
			st.Bl = append(st.Bl, n)
		} else {
			st.Other++
		}
	}
	sort.Strings(st.Bl)
	sort.Slice(st.Rl, func(i, j int) bool { return st.Rl[i].P < st.Rl[j].P })
	st.SupN = w.supply("A", realN)
	st.SupV = w.supply("A", w.realV)
	ck := A.App.GetIBCKeeper().ChannelKeeper
	eab, eac := w.links["AB"].ep("A"), w.links["AC"].ep("A")
	if v, ok := ck.GetNextSequenceSend(ctx, eab.ChannelConfig.PortID, eab.ChannelID); ok {
		st.NsAB = int64(v)
	}
	if v, ok := ck.GetNextSequenceSend(ctx, eac.ChannelConfig.PortID, eac.ChannelID); ok {
		st.NsAC = int64(v)
	}
	eb := w.links["AB"].ep("B")
	if v, ok := w.ch["B"].App.GetIBCKeeper().ChannelKeeper.GetNextSequenceSend(w.ch["B"].GetContext(), eb.ChannelConfig.PortID, eb.ChannelID); ok {
		st.Nr = int64(v)
	}
	st.Dig = lib.DigestOf(ctx, A.GetSimApp().GetKey(rltypes.StoreKey))
	return st
}

// DriveRL executes one RL schedule and emits its trace.
func DriveRL(t *testing.T, s Schedule, tw *lib.TraceWriter) {
	w := NewRLWorld(t)
	tw.Emit(RLLine{Tr: s.ID, I: 0, Kind: "RL", A: json.RawMessage(`{"a":"Init","dt":0}`), Res: "ok", St: w.State()})
	for i, raw := range s.Acts {
		var a RLAction
		if err := json.Unmarshal(raw, &a); err != nil {
			t.Fatalf("schedule %s step %d: %v", s.ID, i+1, err)
		}
		line := w.Exec(a)
		line.Tr, line.I, line.Kind, line.A = s.ID, i+1, "RL", raw
		tw.Emit(line)
	}
}
