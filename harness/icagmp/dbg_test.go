package icagmp

import (
	"encoding/json"
	"fmt"
	"testing"
)

func TestDbgDel(t *testing.T) {
	w := NewGMPWorld(t)
	for i := 1; i <= 4; i++ {
		w.Exec(Action{A: "Send", Route: "call", Signer: "S1", Sender: "S1", Cl: pi(1), Salt: "", Enc: "proto", Msgs: []Msg{{"delegate", "self"}, {"send", "self"}}})
		fmt.Println(w.Exec(Action{A: "Recv", Cl: pi(1), Seq: pi(i)}))
		st := w.State()
		bz, _ := json.Marshal(st.Bal)
		bd, _ := json.Marshal(st.Del)
		fmt.Println(string(bz), string(bd))
	}
}
