package icagmp

import (
	"encoding/json"
	"fmt"
	"sort"
	"strconv"
	"strings"
	"testing"
	"time"

	"github.com/cosmos/gogoproto/proto"

	sdkmath "cosmossdk.io/math"

	sdk "github.com/cosmos/cosmos-sdk/types"
	authtypes "github.com/cosmos/cosmos-sdk/x/auth/types"
	banktypes "github.com/cosmos/cosmos-sdk/x/bank/types"
	distrtypes "github.com/cosmos/cosmos-sdk/x/distribution/types"
	stakingtypes "github.com/cosmos/cosmos-sdk/x/staking/types"

	abci "github.com/cometbft/cometbft/abci/types"

	icacontrollertypes "github.com/cosmos/ibc-go/v11/modules/apps/27-interchain-accounts/controller/types"
	icahosttypes "github.com/cosmos/ibc-go/v11/modules/apps/27-interchain-accounts/host/types"
	icatypes "github.com/cosmos/ibc-go/v11/modules/apps/27-interchain-accounts/types"
	clienttypes "github.com/cosmos/ibc-go/v11/modules/core/02-client/types"
	channeltypes "github.com/cosmos/ibc-go/v11/modules/core/04-channel/types"
	channeltypesv2 "github.com/cosmos/ibc-go/v11/modules/core/04-channel/v2/types"
	host "github.com/cosmos/ibc-go/v11/modules/core/24-host"
	ibctesting "github.com/cosmos/ibc-go/v11/testing"
	ibcmock "github.com/cosmos/ibc-go/v11/testing/mock"
)

const (
	fundAmount  = 100000
	hugeAmount  = 1000000000
	bOffset     = 7 // first channel sequence of the host chain (so that channel ids differ between the chains)
	shortRel    = 10 * time.Minute
	longRel     = 100 * time.Hour
	waitStep    = time.Hour
	mockPort    = ibcmock.ModuleName
	otherCpPort = "transfer"
)

var ownerNames = []string{"O1", "O2"}

var denom = sdk.DefaultBondDenom

// ICAWorld is a controller chain A and a host chain B.  An owner slot (O1, O2) is a pair (connection, owner account).
// Ordinary world: one connection, two owner accounts.  Crossed world: ONE owner account (hence one controller port) on two
// connections whose identifiers are crossed (slot O1: A connection-0 <-> B connection-1, slot O2: A connection-1 <-> B
// connection-0), so that the controller's and the host's identifier of a connection differ and the identifier one chain
// uses names the OTHER slot's connection on the other chain.
type ICAWorld struct {
	t       *testing.T
	coord   *ibctesting.Coordinator
	A, B    *ibctesting.TestChain
	path    *ibctesting.Path            // slot O1's path (also used to address channels that do not exist)
	paths   map[string]*ibctesting.Path // owner slot -> path
	crossed bool
	pktPath map[[2]int]*ibctesting.Path

	acc    map[string]ibctesting.SenderAccount // O1, O2, X on A
	port   map[string]string                   // owner slot -> controller port id
	other  sdk.AccAddress
	dest   sdk.AccAddress
	peerNo sdk.AccAddress
	val    sdk.ValAddress
	otherB sdkmath.Int // initial balance of "other"

	pkts     map[[2]int]channeltypes.Packet
	ackKind  map[[2]int]string
	addrName map[string]string
	nameAddr map[string]string
	noise    map[string]*Noise
	allow    string
	epoch    int
}

func classify(res *abci.ExecTxResult, err error) (string, string) {
	if err != nil {
		return "err", err.Error()
	}
	if res == nil {
		return "err", "nil result"
	}
	var msgData sdk.TxMsgData
	if e := proto.Unmarshal(res.Data, &msgData); e == nil {
		for _, r := range msgData.MsgResponses {
			switch {
			case strings.HasSuffix(r.TypeUrl, "ibc.core.channel.v1.MsgRecvPacketResponse"):
				var x channeltypes.MsgRecvPacketResponse
				if proto.Unmarshal(r.Value, &x) == nil && x.Result == channeltypes.NOOP {
					return "noop", ""
				}
			case strings.HasSuffix(r.TypeUrl, "ibc.core.channel.v1.MsgTimeoutResponse"):
				var x channeltypes.MsgTimeoutResponse
				if proto.Unmarshal(r.Value, &x) == nil && x.Result == channeltypes.NOOP {
					return "noop", ""
				}
			case strings.HasSuffix(r.TypeUrl, "ibc.core.channel.v2.MsgRecvPacketResponse"):
				var x channeltypesv2.MsgRecvPacketResponse
				if proto.Unmarshal(r.Value, &x) == nil && x.Result == channeltypesv2.NOOP {
					return "noop", ""
				}
			}
		}
	}
	return "ok", ""
}

// sendAs delivers msgs in one transaction = one block, signed by the given account.
func sendAs(chain *ibctesting.TestChain, acc ibctesting.SenderAccount, msgs ...sdk.Msg) (r *abci.ExecTxResult, res string, errStr string) {
	defer func() {
		if p := recover(); p != nil {
			r, res, errStr = nil, "panic", fmt.Sprint(p)
		}
		// ibctesting bumps its local sequence even when the ante handler rejected the transaction
		if a := chain.GetSimApp().AccountKeeper.GetAccount(chain.GetContext(), acc.SenderAccount.GetAddress()); a != nil {
			_ = acc.SenderAccount.SetSequence(a.GetSequence())
		}
	}()
	rr, err := chain.SendMsgsWithSender(acc, msgs...)
	res, errStr = classify(rr, err)
	return rr, res, errStr
}

func relayer(chain *ibctesting.TestChain) ibctesting.SenderAccount {
	return ibctesting.SenderAccount{SenderPrivKey: chain.SenderPrivKey, SenderAccount: chain.SenderAccount}
}

// zeroInflation switches block rewards off on a chain (environment, not code under test): with rewards every later
// delegation of an account would pay out an unpredictable amount to its withdraw address.
func zeroInflation(chain *ibctesting.TestChain) {
	mk := chain.GetSimApp().MintKeeper
	p, err := mk.Params.Get(chain.GetContext())
	if err != nil {
		panic(err)
	}
	p.InflationMax, p.InflationMin, p.InflationRateChange = sdkmath.LegacyZeroDec(), sdkmath.LegacyZeroDec(), sdkmath.LegacyZeroDec()
	if err := mk.Params.Set(chain.GetContext(), p); err != nil {
		panic(err)
	}
	chain.Coordinator.CommitBlock(chain)
	chain.Coordinator.CommitBlock(chain)
	chain.Coordinator.CommitBlock(chain)
}

func learnNoise(chain *ibctesting.TestChain) *Noise {
	n := newNoise()
	var rounds [][]string
	prev := snapshot(chain)
	for i := 0; i < 3; i++ {
		chain.Coordinator.CommitBlock(chain)
		cur := snapshot(chain)
		rounds = append(rounds, changed(prev, cur))
		prev = cur
	}
	n.learn(rounds)
	n.addExact(authtypes.StoreKey, append([]byte{1}, chain.SenderAccount.GetAddress().Bytes()...))
	return n
}

func must(t *testing.T, err error) {
	if err != nil {
		t.Fatalf("world set-up: %v", err)
	}
}

func NewICAWorld(t *testing.T, crossed bool) *ICAWorld {
	ibctesting.TimeIncrement = time.Millisecond
	w := &ICAWorld{t: t, acc: map[string]ibctesting.SenderAccount{}, port: map[string]string{}, crossed: crossed,
		paths: map[string]*ibctesting.Path{}, pktPath: map[[2]int]*ibctesting.Path{},
		pkts: map[[2]int]channeltypes.Packet{}, ackKind: map[[2]int]string{}, addrName: map[string]string{}, nameAddr: map[string]string{},
		noise: map[string]*Noise{}}
	w.coord = ibctesting.NewCoordinator(t, 2)
	w.A = w.coord.GetChain(ibctesting.GetChainID(1))
	w.B = w.coord.GetChain(ibctesting.GetChainID(2))
	w.path = ibctesting.NewPath(w.A, w.B)
	if !crossed {
		w.path.SetupConnections()
		w.paths["O1"], w.paths["O2"] = w.path, w.path
	} else {
		p2 := ibctesting.NewPath(w.A, w.B)
		w.path.SetupClients()
		p2.SetupClients()
		must(t, w.path.EndpointA.ConnOpenInit())
		must(t, p2.EndpointA.ConnOpenInit())
		must(t, p2.EndpointB.ConnOpenTry())
		must(t, w.path.EndpointB.ConnOpenTry())
		must(t, w.path.EndpointA.ConnOpenAck())
		must(t, p2.EndpointA.ConnOpenAck())
		must(t, w.path.EndpointB.ConnOpenConfirm())
		must(t, p2.EndpointB.ConnOpenConfirm())
		must(t, w.path.EndpointA.UpdateClient())
		must(t, p2.EndpointA.UpdateClient())
		w.paths["O1"], w.paths["O2"] = w.path, p2
		if w.path.EndpointA.ConnectionID != p2.EndpointB.ConnectionID || w.path.EndpointB.ConnectionID != p2.EndpointA.ConnectionID ||
			w.path.EndpointA.ConnectionID == w.path.EndpointB.ConnectionID {
			t.Fatalf("connection identifiers are not crossed: %s/%s %s/%s", w.path.EndpointA.ConnectionID, w.path.EndpointB.ConnectionID,
				p2.EndpointA.ConnectionID, p2.EndpointB.ConnectionID)
		}
	}
	for i, n := range []string{"O1", "O2", "X"} {
		w.acc[n] = w.A.SenderAccounts[i+1]
	}
	if crossed {
		w.acc["O2"] = w.acc["O1"] // one owner account, two connections
	}
	for _, n := range ownerNames {
		p, _ := icatypes.NewControllerPortID(w.acc[n].SenderAccount.GetAddress().String())
		w.port[n] = p
	}
	w.other = w.B.SenderAccounts[1].SenderAccount.GetAddress()
	w.dest = sdk.AccAddress([]byte("verif-dest-account--"))
	w.peerNo = sdk.AccAddress([]byte("verif-no-such-peer--"))
	w.name(w.other.String(), "other")
	w.name(w.dest.String(), "dest")
	w.name(authtypes.NewModuleAddress(stakingtypes.BondedPoolName).String(), "bonded")
	w.name(authtypes.NewModuleAddress(stakingtypes.NotBondedPoolName).String(), "notbonded")
	w.name(authtypes.NewModuleAddress(distrtypes.ModuleName).String(), "distribution")
	vals, err := w.B.GetSimApp().StakingKeeper.GetAllValidators(w.B.GetContext())
	if err != nil || len(vals) == 0 {
		t.Fatalf("no validators: %v", err)
	}
	va, err := sdk.ValAddressFromBech32(vals[0].GetOperator())
	if err != nil {
		t.Fatal(err)
	}
	w.val = va
	w.B.App.GetIBCKeeper().ChannelKeeper.SetNextChannelSequence(w.B.GetContext(), bOffset)
	w.setAllow("star")
	w.coord.CommitBlock(w.A, w.B)
	zeroInflation(w.B)
	w.otherB = w.B.GetSimApp().BankKeeper.GetBalance(w.B.GetContext(), w.other, denom).Amount
	w.noise["A"] = learnNoise(w.A)
	w.noise["B"] = learnNoise(w.B)
	return w
}

func (w *ICAWorld) name(addr, n string) { w.addrName[addr] = n; w.nameAddr[n] = addr }

func allowList(a string) []string {
	send, del := sdk.MsgTypeURL(&banktypes.MsgSend{}), sdk.MsgTypeURL(&stakingtypes.MsgDelegate{})
	switch a {
	case "star":
		return []string{"*"}
	case "specific":
		return []string{send, del}
	case "starplus":
		return []string{"*", send}
	case "nearmiss":
		// no entry equals a type URL in use: proper prefixes, package patterns, extensions, case variants
		wd := sdk.MsgTypeURL(&distrtypes.MsgSetWithdrawAddress{})
		pkg := func(u string) string { return u[:strings.LastIndex(u, ".")+1] }
		return []string{send[:len(send)-1], pkg(send), pkg(send) + "*", send + "2", strings.ToLower(send), "/cosmos.*", "/",
			del[:len(del)-3], pkg(del) + "*", del + "Response", wd[:len(wd)-7], pkg(wd) + "*", wd + "_", "/*", "**"}
	}
	return []string{}
}

func (w *ICAWorld) setAllow(a string) {
	w.B.GetSimApp().ICAHostKeeper.SetParams(w.B.GetContext(), icahosttypes.NewParams(true, allowList(a)))
	w.allow = a
}

func (w *ICAWorld) connA(o string) string { return w.pathOf(o).EndpointA.ConnectionID }
func (w *ICAWorld) connB(o string) string { return w.pathOf(o).EndpointB.ConnectionID }

func (w *ICAWorld) pathOf(o string) *ibctesting.Path {
	if p, ok := w.paths[o]; ok {
		return p
	}
	return w.path
}

func connOf(p *ibctesting.Path, onA bool) string {
	if onA {
		return p.EndpointA.ConnectionID
	}
	return p.EndpointB.ConnectionID
}

// slotOf returns the owner slot of (controller port, connection identifier on chain A / B).
func (w *ICAWorld) slotOf(port, conn string, onA bool) (string, bool) {
	for _, o := range ownerNames {
		if w.port[o] == port && connOf(w.paths[o], onA) == conn {
			return o, true
		}
	}
	return "", false
}

// pathOfConn returns the path of a connection identifier of chain A / B.
func (w *ICAWorld) pathOfConn(conn string, onA bool) *ibctesting.Path {
	for _, o := range ownerNames {
		if connOf(w.paths[o], onA) == conn {
			return w.paths[o]
		}
	}
	return w.path
}

// pathOfChan returns the path of the connection a channel end (by channel id) of chain A / B runs over.
func (w *ICAWorld) pathOfChan(id string, onA bool) *ibctesting.Path {
	chain := w.B
	if onA {
		chain = w.A
	}
	for _, c := range chain.App.GetIBCKeeper().ChannelKeeper.GetAllChannels(chain.GetContext()) {
		if c.ChannelId == id && len(c.ConnectionHops) > 0 {
			return w.pathOfConn(c.ConnectionHops[0], onA)
		}
	}
	return w.path
}

// pathOfPkt returns the path a recorded packet was sent over.
func (w *ICAWorld) pathOfPkt(ca, seq int) *ibctesting.Path {
	if p, ok := w.pktPath[[2]int{ca, seq}]; ok {
		return p
	}
	return w.path
}

func chanA(n int) string { return channeltypes.FormatChannelIdentifier(uint64(n)) }
func chanB(n int) string { return channeltypes.FormatChannelIdentifier(uint64(n + bOffset)) }

func chanNo(id string, off int) int {
	seq, err := channeltypes.ParseChannelSequence(id)
	if err != nil {
		return -1
	}
	return int(seq) - off
}

func orderOf(o string) channeltypes.Order {
	if o == "ORDERED" {
		return channeltypes.ORDERED
	}
	return channeltypes.UNORDERED
}

// version returns the version string an initialising message of slot o carries; "default" = the empty string.
func (w *ICAWorld) version(o, enc string) string {
	if enc == "default" {
		return ""
	}
	md := icatypes.NewMetadata(icatypes.Version, w.connA(o), w.connB(o), "", enc, icatypes.TxTypeSDKMultiMsg)
	return string(icatypes.ModuleCdc.MustMarshalJSON(&md))
}

// hostAddr returns the interchain account registered on the host for an owner ("" if none).
func (w *ICAWorld) hostAddr(o string) string {
	a, _ := w.B.GetSimApp().ICAHostKeeper.GetInterchainAccountAddress(w.B.GetContext(), w.connB(o), w.port[o])
	return a
}

func otherOwner(o string) string {
	if o == "O1" {
		return "O2"
	}
	return "O1"
}

func (w *ICAWorld) resolve(from, owner string) sdk.AccAddress {
	switch from {
	case "self", "peer":
		o := owner
		if from == "peer" {
			o = otherOwner(owner)
		}
		if a := w.hostAddr(o); a != "" {
			return sdk.MustAccAddressFromBech32(a)
		}
		return w.peerNo
	}
	return w.other
}

func (w *ICAWorld) concrete(m Msg, owner string) proto.Message {
	from := w.resolve(m.From, owner)
	one := sdk.NewCoin(denom, sdkmath.NewInt(1))
	switch m.K {
	case "fail":
		return banktypes.NewMsgSend(from, w.dest, sdk.NewCoins(sdk.NewCoin(denom, sdkmath.NewInt(hugeAmount))))
	case "delegate":
		return stakingtypes.NewMsgDelegate(from.String(), w.val.String(), one)
	case "setwd":
		return distrtypes.NewMsgSetWithdrawAddress(from, w.dest)
	}
	return banktypes.NewMsgSend(from, w.dest, sdk.NewCoins(one))
}

// activeEnc returns the encoding of the owner's active channel on the controller (default proto3).
func (w *ICAWorld) activeEnc(o string) string {
	k := w.A.GetSimApp().ICAControllerKeeper
	if id, ok := k.GetActiveChannelID(w.A.GetContext(), w.connA(o), w.port[o]); ok {
		if v, ok := k.GetAppVersion(w.A.GetContext(), w.port[o], id); ok {
			if md, err := icatypes.MetadataFromVersion(v); err == nil && md.Encoding != "" {
				return md.Encoding
			}
		}
	}
	return icatypes.EncodingProtobuf
}

func (w *ICAWorld) proofOn(chain *ibctesting.TestChain, key []byte) ([]byte, clienttypes.Height) {
	return chain.QueryProof(key)
}

// Exec executes one abstract action; returns transaction result class, ack kind, diagnostic error, diff classes.
func (w *ICAWorld) Exec(a Action) (res, ack, errStr string, diff []string) {
	ack = "none"
	var chain *ibctesting.TestChain
	var cname string
	var signer ibctesting.SenderAccount
	var msg sdk.Msg
	var after func(r *abci.ExecTxResult)
	relA, relB := relayer(w.A), relayer(w.B)
	addr := func(s ibctesting.SenderAccount) string { return s.SenderAccount.GetAddress().String() }
	upd := func(ep *ibctesting.Endpoint) bool {
		if err := ep.UpdateClient(); err != nil {
			errStr = "update client: " + err.Error()
			return false
		}
		return true
	}
	switch a.A {
	case "Wait":
		w.coord.IncrementTimeBy(waitStep)
		w.coord.CommitBlock(w.A, w.B)
		w.epoch++
		return "ok", ack, "", []string{}
	case "SetAllow":
		w.setAllow(a.Allow)
		w.coord.CommitBlock(w.B)
		return "ok", ack, "", []string{}
	case "Register":
		chain, cname, signer = w.A, "A", w.acc[a.Signer]
		msg = icacontrollertypes.NewMsgRegisterInterchainAccount(w.connA(a.Owner), addr(w.acc[a.Owner]), w.version(a.Owner, a.Enc), orderOf(a.Order))
	case "OpenInit":
		chain, cname, signer = w.A, "A", w.acc[a.Signer]
		cp := icatypes.HostPortID
		if a.CpPort != "icahost" {
			cp = otherCpPort
		}
		msg = channeltypes.NewMsgChannelOpenInit(w.port[a.Owner], w.version(a.Owner, a.Enc), orderOf(a.Order), []string{w.connA(a.Owner)}, cp, addr(signer))
	case "InitOnHost":
		chain, cname, signer = w.B, "B", relB
		msg = channeltypes.NewMsgChannelOpenInit(icatypes.HostPortID, w.version(a.Owner, a.Enc), orderOf(a.Order), []string{w.connB(a.Owner)}, w.port[a.Owner], addr(signer))
	case "ForeignInit":
		chain, cname, signer = w.B, "B", relB
		msg = channeltypes.NewMsgChannelOpenInit(mockPort, ibcmock.Version, channeltypes.UNORDERED, []string{w.connB(a.Owner)}, w.port[a.Owner], addr(signer))
	case "TryOnController":
		chain, cname, signer = w.A, "A", relA
		if !upd(w.pathOf(a.Owner).EndpointA) {
			return "err", ack, errStr, []string{}
		}
		proof, h := w.proofOn(w.B, host.ChannelKey(mockPort, chanB(ip(a.Cb))))
		msg = channeltypes.NewMsgChannelOpenTry(w.port[a.Owner], ibcmock.Version, channeltypes.UNORDERED, []string{w.connA(a.Owner)},
			mockPort, chanB(ip(a.Cb)), ibcmock.Version, proof, h, addr(signer))
	case "Try":
		chain, cname, signer = w.B, "B", relB
		ca := chanA(ip(a.Ca))
		pth := w.pathOfChan(ca, true)
		if !upd(pth.EndpointB) {
			return "err", ack, errStr, []string{}
		}
		port, order, ver := w.port["O1"], channeltypes.UNORDERED, ""
		for _, c := range w.A.App.GetIBCKeeper().ChannelKeeper.GetAllChannels(w.A.GetContext()) {
			if c.ChannelId == ca {
				port, order, ver = c.PortId, c.Ordering, c.Version
			}
		}
		proof, h := w.proofOn(w.A, host.ChannelKey(port, ca))
		msg = channeltypes.NewMsgChannelOpenTry(icatypes.HostPortID, "", order, []string{pth.EndpointB.ConnectionID}, port, ca, ver, proof, h, addr(signer))
		after = func(*abci.ExecTxResult) { w.fundNew() }
	case "Ack":
		chain, cname, signer = w.A, "A", relA
		ca, cb := chanA(ip(a.Ca)), chanB(ip(a.Cb))
		if !upd(w.pathOfChan(ca, true).EndpointA) {
			return "err", ack, errStr, []string{}
		}
		portA, portB, ver := w.port["O1"], icatypes.HostPortID, ""
		for _, c := range w.A.App.GetIBCKeeper().ChannelKeeper.GetAllChannels(w.A.GetContext()) {
			if c.ChannelId == ca {
				portA = c.PortId
			}
		}
		for _, c := range w.B.App.GetIBCKeeper().ChannelKeeper.GetAllChannels(w.B.GetContext()) {
			if c.ChannelId == cb {
				portB, ver = c.PortId, c.Version
			}
		}
		proof, h := w.proofOn(w.B, host.ChannelKey(portB, cb))
		msg = channeltypes.NewMsgChannelOpenAck(portA, ca, cb, ver, proof, h, addr(signer))
	case "Confirm", "CloseConfirm":
		chain, cname, signer = w.B, "B", relB
		cb := chanB(ip(a.Cb))
		if !upd(w.pathOfChan(cb, false).EndpointB) {
			return "err", ack, errStr, []string{}
		}
		portB, portA, ca := icatypes.HostPortID, w.port["O1"], chanA(0)
		for _, c := range w.B.App.GetIBCKeeper().ChannelKeeper.GetAllChannels(w.B.GetContext()) {
			if c.ChannelId == cb {
				portB, portA, ca = c.PortId, c.Counterparty.PortId, c.Counterparty.ChannelId
			}
		}
		proof, h := w.proofOn(w.A, host.ChannelKey(portA, ca))
		if a.A == "Confirm" {
			msg = channeltypes.NewMsgChannelOpenConfirm(portB, cb, proof, h, addr(signer))
		} else {
			msg = channeltypes.NewMsgChannelCloseConfirm(portB, cb, proof, h, addr(signer))
		}
	case "SendTx":
		chain, cname, signer = w.A, "A", w.acc[a.Signer]
		var ms []proto.Message
		for _, m := range a.Msgs {
			ms = append(ms, w.concrete(m, a.Owner))
		}
		data, err := icatypes.SerializeCosmosTx(w.A.GetSimApp().AppCodec(), ms, w.activeEnc(a.Owner))
		if err != nil {
			return "err", ack, "serialize: " + err.Error(), []string{}
		}
		rel := longRel
		if a.To == "short" {
			rel = shortRel
		}
		pd := icatypes.InterchainAccountPacketData{Type: icatypes.EXECUTE_TX, Data: data}
		msg = icacontrollertypes.NewMsgSendTx(addr(w.acc[a.Owner]), w.connA(a.Owner), uint64(rel.Nanoseconds()), pd)
		sendPath := w.pathOf(a.Owner)
		after = func(r *abci.ExecTxResult) {
			if r == nil || r.Code != 0 {
				return
			}
			if p, err := ibctesting.ParseV1PacketFromEvents(r.Events); err == nil {
				w.pkts[[2]int{chanNo(p.SourceChannel, 0), int(p.Sequence)}] = p
				w.pktPath[[2]int{chanNo(p.SourceChannel, 0), int(p.Sequence)}] = sendPath
			}
		}
	case "Recv":
		chain, cname, signer = w.B, "B", relB
		p, ok := w.pkts[[2]int{ip(a.Ca), ip(a.Seq)}]
		if !ok {
			return "err", ack, "unknown packet", []string{}
		}
		if !upd(w.pathOfPkt(ip(a.Ca), ip(a.Seq)).EndpointB) {
			return "err", ack, errStr, []string{}
		}
		proof, h := w.proofOn(w.A, host.PacketCommitmentKey(p.SourcePort, p.SourceChannel, p.Sequence))
		msg = channeltypes.NewMsgRecvPacket(p, proof, h, addr(signer))
		after = func(r *abci.ExecTxResult) {
			if r == nil || r.Code != 0 {
				return
			}
			if bz, err := ibctesting.ParseAckFromEvents(r.Events); err == nil {
				var x map[string]json.RawMessage
				if json.Unmarshal(bz, &x) == nil {
					if _, ok := x["result"]; ok {
						ack = "result"
					} else if _, ok := x["error"]; ok {
						ack = "error"
					}
				}
				w.ackKind[[2]int{chanNo(p.DestinationChannel, bOffset), int(p.Sequence)}] = ack
			}
		}
	case "Timeout":
		chain, cname, signer = w.A, "A", relA
		p, ok := w.pkts[[2]int{ip(a.Ca), ip(a.Seq)}]
		if !ok {
			return "err", ack, "unknown packet", []string{}
		}
		if !upd(w.pathOfPkt(ip(a.Ca), ip(a.Seq)).EndpointA) {
			return "err", ack, errStr, []string{}
		}
		key := host.PacketReceiptKey(p.DestinationPort, p.DestinationChannel, p.Sequence)
		ordered := false
		for _, c := range w.A.App.GetIBCKeeper().ChannelKeeper.GetAllChannels(w.A.GetContext()) {
			if c.ChannelId == p.SourceChannel && c.Ordering == channeltypes.ORDERED {
				ordered = true
			}
		}
		if ordered {
			key = host.NextSequenceRecvKey(p.DestinationPort, p.DestinationChannel)
		}
		nsr, _ := w.B.App.GetIBCKeeper().ChannelKeeper.GetNextSequenceRecv(w.B.GetContext(), p.DestinationPort, p.DestinationChannel)
		proof, h := w.proofOn(w.B, key)
		msg = channeltypes.NewMsgTimeout(p, nsr, proof, h, addr(signer))
	default:
		return "err", ack, "unknown action " + a.A, []string{}
	}
	pre := snapshot(chain)
	r, res, es := sendAs(chain, signer, msg)
	post := snapshot(chain)
	if after != nil {
		after(r)
	}
	return res, ack, es, w.classifyDiff(cname, changed(pre, post), a)
}

// delegated returns the tokens an account has delegated to the validator.
func delegated(chain *ibctesting.TestChain, acc sdk.AccAddress, val sdk.ValAddress) int64 {
	sk := chain.GetSimApp().StakingKeeper
	d, err := sk.GetDelegation(chain.GetContext(), acc, val)
	if err != nil {
		return 0
	}
	v, err := sk.GetValidator(chain.GetContext(), val)
	if err != nil {
		return -1
	}
	return v.TokensFromShares(d.Shares).RoundInt64()
}

// fundNew gives every interchain account that the host has just created its working balance.
func (w *ICAWorld) fundNew() {
	for _, o := range ownerNames {
		a := w.hostAddr(o)
		if a == "" {
			continue
		}
		if _, seen := w.addrName[a]; seen {
			continue
		}
		n := "ica:" + o
		if _, taken := w.nameAddr[n]; taken {
			n = fmt.Sprintf("ica:%s#%d", o, len(w.addrName))
		}
		w.name(a, n)
		_, res, es := sendAs(w.B, relayer(w.B), banktypes.NewMsgSend(w.B.SenderAccount.GetAddress(), sdk.MustAccAddressFromBech32(a),
			sdk.NewCoins(sdk.NewCoin(denom, sdkmath.NewInt(fundAmount)))))
		if res != "ok" {
			w.t.Fatalf("funding failed: %s", es)
		}
	}
}

// classifyDiff names the changed keys of a step (block noise removed).
func (w *ICAWorld) classifyDiff(cname string, keys []string, a Action) []string {
	set := map[string]bool{}
	var rk, ak, nk string
	if a.A == "Recv" {
		if p, ok := w.pkts[[2]int{ip(a.Ca), ip(a.Seq)}]; ok {
			rk = string(host.PacketReceiptKey(p.DestinationPort, p.DestinationChannel, p.Sequence))
			ak = string(host.PacketAcknowledgementKey(p.DestinationPort, p.DestinationChannel, p.Sequence))
			nk = string(host.NextSequenceRecvKey(p.DestinationPort, p.DestinationChannel))
		}
	}
	for _, sk := range keys {
		if w.noise[cname].is(sk) {
			continue
		}
		set[classKey(sk, rk, ak, nk, w.addrName)] = true
	}
	out := make([]string, 0, len(set))
	for k := range set {
		out = append(out, k)
	}
	sort.Strings(out)
	return out
}

func classKey(sk, rk, ak, nk string, names map[string]string) string {
	i := strings.IndexByte(sk, 0)
	store, key := sk[:i], sk[i+1:]
	switch store {
	case "ibc":
		switch key {
		case rk:
			return "receipt"
		case ak:
			return "ack"
		case nk:
			return "nextrecv"
		}
		return printable(sk)
	case banktypes.StoreKey:
		if len(key) > 2 && key[0] == banktypes.BalancesPrefix[0] {
			l := int(key[1])
			if len(key) >= 2+l {
				ad := sdk.AccAddress([]byte(key[2 : 2+l])).String()
				if n, ok := names[ad]; ok {
					return "bal:" + n
				}
				return "bal:" + ad
			}
		}
	}
	if len(key) == 0 {
		return store + ":"
	}
	return store + ":" + strconv.Itoa(int(key[0]))
}

// ---- projection ---------------------------------------------------------------------------------

type ChanSt struct {
	Port   string `json:"port"`   // ctrl | icahost | mock | raw port id
	CpPort string `json:"cpport"` // same classes, for the counterparty port
	Owner  string `json:"owner"`  // owner of the controller port of this channel (either side), "?" if none
	St     string `json:"st"`
	Order  string `json:"order"`
	Enc    string `json:"enc"`
	Tx     string `json:"tx"`
	Ver    string `json:"ver"`
	CConn  string `json:"cconn"`
	HConn  string `json:"hconn"`
	Addr   string `json:"addr"`
	Cp     int    `json:"cp"`
	Ns     int    `json:"ns"`
	Nr     int    `json:"nr"`
}

type SideSt struct {
	Nc      int            `json:"nc"`
	Chans   []ChanSt       `json:"chans"`
	Active  map[string]int `json:"active"`
	Addr    map[string]string `json:"addr"`
	XActive int            `json:"xactive"` // active-channel / account entries that belong to no known owner port
	Commits [][]int        `json:"commits"`
	Rcpts   [][]int        `json:"rcpts"`
	Acks    [][]any        `json:"acks"`
}

type ICAState struct {
	Epoch int               `json:"epoch"`
	Allow string            `json:"allow"`
	A     SideSt            `json:"A"`
	B     SideSt            `json:"B"`
	Bal   map[string]int64  `json:"bal"`
	Del   map[string]int64  `json:"del"`
	Wd    map[string]bool   `json:"wd"`
}

func (w *ICAWorld) portClass(p, conn string, onA bool) (string, string) {
	switch {
	case p == icatypes.HostPortID:
		return "icahost", "?"
	case p == mockPort:
		return "mock", "?"
	case strings.HasPrefix(p, icatypes.ControllerPortPrefix):
		if o, ok := w.slotOf(p, conn, onA); ok {
			return "ctrl", o
		}
		return "ctrl", "?"
	}
	return p, "?"
}

func (w *ICAWorld) nameOf(addr string) string {
	if addr == "" {
		return ""
	}
	if n, ok := w.addrName[addr]; ok {
		return n
	}
	return addr
}

func stName(s channeltypes.State) string {
	switch s {
	case channeltypes.INIT:
		return "INIT"
	case channeltypes.TRYOPEN:
		return "TRYOPEN"
	case channeltypes.OPEN:
		return "OPEN"
	case channeltypes.CLOSED:
		return "CLOSED"
	}
	return s.String()
}

func (w *ICAWorld) side(chain *ibctesting.TestChain, off int) SideSt {
	ctx := chain.GetContext()
	ck := chain.App.GetIBCKeeper().ChannelKeeper
	s := SideSt{Nc: int(ck.GetNextChannelSequence(ctx)) - off, Chans: []ChanSt{}, Active: map[string]int{}, Addr: map[string]string{},
		Commits: [][]int{}, Rcpts: [][]int{}, Acks: [][]any{}}
	chans := ck.GetAllChannels(ctx)
	byNo := map[int]channeltypes.IdentifiedChannel{}
	for _, c := range chans {
		byNo[chanNo(c.ChannelId, off)] = c
	}
	for n := 0; n < s.Nc; n++ {
		c, ok := byNo[n]
		if !ok {
			s.Chans = append(s.Chans, ChanSt{St: "NONE", Cp: -1})
			continue
		}
		hop := ""
		if len(c.ConnectionHops) > 0 {
			hop = c.ConnectionHops[0]
		}
		pc, o1 := w.portClass(c.PortId, hop, off == 0)
		cc, o2 := w.portClass(c.Counterparty.PortId, hop, off == 0)
		o := o1
		if o == "?" {
			o = o2
		}
		cs := ChanSt{Port: pc, CpPort: cc, Owner: o, St: stName(c.State), Order: "UNORDERED", Cp: -1}
		if c.Ordering == channeltypes.ORDERED {
			cs.Order = "ORDERED"
		}
		if c.Counterparty.ChannelId != "" {
			cs.Cp = chanNo(c.Counterparty.ChannelId, bOffset-off)
		}
		if md, err := icatypes.MetadataFromVersion(c.Version); err == nil {
			cs.Enc, cs.Tx, cs.Ver, cs.CConn, cs.HConn, cs.Addr = md.Encoding, md.TxType, md.Version, md.ControllerConnectionId, md.HostConnectionId, w.nameOf(md.Address)
		}
		if v, ok := ck.GetNextSequenceSend(ctx, c.PortId, c.ChannelId); ok {
			cs.Ns = int(v)
		}
		if v, ok := ck.GetNextSequenceRecv(ctx, c.PortId, c.ChannelId); ok {
			cs.Nr = int(v)
		}
		s.Chans = append(s.Chans, cs)
	}
	for _, c := range ck.GetAllPacketCommitments(ctx) {
		s.Commits = append(s.Commits, []int{chanNo(c.ChannelId, off), int(c.Sequence)})
	}
	for _, c := range ck.GetAllPacketReceipts(ctx) {
		s.Rcpts = append(s.Rcpts, []int{chanNo(c.ChannelId, off), int(c.Sequence)})
	}
	for _, c := range ck.GetAllPacketAcks(ctx) {
		n := chanNo(c.ChannelId, off)
		k := w.ackKind[[2]int{n, int(c.Sequence)}]
		if k == "" {
			k = "?"
		}
		s.Acks = append(s.Acks, []any{n, int(c.Sequence), k})
	}
	return s
}

func (w *ICAWorld) State() ICAState {
	st := ICAState{Epoch: w.epoch, Allow: w.allow, A: w.side(w.A, 0), B: w.side(w.B, bOffset),
		Bal: map[string]int64{}, Del: map[string]int64{}, Wd: map[string]bool{}}
	// controller keeper
	ka := w.A.GetSimApp().ICAControllerKeeper
	for _, o := range ownerNames {
		st.A.Active[o], st.B.Active[o] = -1, -1
		st.A.Addr[o], st.B.Addr[o] = "", ""
	}
	for _, ac := range ka.GetAllActiveChannels(w.A.GetContext()) {
		if o, ok := w.slotOf(ac.PortId, ac.ConnectionId, true); ok {
			st.A.Active[o] = chanNo(ac.ChannelId, 0)
		} else {
			st.A.XActive++
		}
	}
	for _, ia := range ka.GetAllInterchainAccounts(w.A.GetContext()) {
		if o, ok := w.slotOf(ia.PortId, ia.ConnectionId, true); ok {
			st.A.Addr[o] = w.nameOf(ia.AccountAddress)
		} else {
			st.A.XActive++
		}
	}
	kb := w.B.GetSimApp().ICAHostKeeper
	for _, ac := range kb.GetAllActiveChannels(w.B.GetContext()) {
		if o, ok := w.slotOf(ac.PortId, ac.ConnectionId, false); ok {
			st.B.Active[o] = chanNo(ac.ChannelId, bOffset)
		} else {
			st.B.XActive++
		}
	}
	for _, ia := range kb.GetAllInterchainAccounts(w.B.GetContext()) {
		if o, ok := w.slotOf(ia.PortId, ia.ConnectionId, false); ok {
			st.B.Addr[o] = w.nameOf(ia.AccountAddress)
		} else {
			st.B.XActive++
		}
	}
	// host chain bank / staking / distribution state of the tracked accounts
	ctx := w.B.GetContext()
	app := w.B.GetSimApp()
	for _, n := range []string{"ica:O1", "ica:O2", "other", "dest"} {
		st.Bal[n] = 0
		if n != "dest" {
			st.Del[n] = 0
		}
		ad, ok := w.nameAddr[n]
		if !ok {
			if strings.HasPrefix(n, "ica:") {
				st.Wd[n] = false
			}
			continue
		}
		acc := sdk.MustAccAddressFromBech32(ad)
		b := app.BankKeeper.GetBalance(ctx, acc, denom).Amount
		if n == "other" {
			b = b.Sub(w.otherB)
		}
		st.Bal[n] = b.Int64()
		if n != "dest" {
			st.Del[n] = delegated(w.B, acc, w.val)
		}
		if strings.HasPrefix(n, "ica:") {
			wa, err := app.DistrKeeper.GetDelegatorWithdrawAddr(ctx, acc)
			st.Wd[n] = err == nil && wa.Equals(w.dest)
		}
	}
	return st
}
