package icagmp

import (
	"encoding/json"
	"strings"
	"testing"

	"verif/harness/lib"
)

var initAction = json.RawMessage(`{"a":"Init"}`)

func dbalOf(diff []string) []string {
	out := []string{}
	for _, d := range diff {
		if strings.HasPrefix(d, "bal:") {
			out = append(out, strings.TrimPrefix(d, "bal:"))
		}
	}
	return out
}

// TestDrive executes every schedule of $VERIF_SCHED (ndjson) on fresh real chains and writes one trace line per
// step to $VERIF_TRACE.  It never judges: TLC does (spec/icagmp/Trace_*.tla).
func TestDrive(t *testing.T) {
	schedPath := lib.EnvStr("VERIF_SCHED", "")
	tracePath := lib.EnvStr("VERIF_TRACE", "")
	if schedPath == "" || tracePath == "" {
		t.Skip("VERIF_SCHED / VERIF_TRACE not set")
	}
	scheds, err := lib.ReadNDJSON[Schedule](schedPath)
	if err != nil {
		t.Fatal(err)
	}
	tw, err := lib.NewTraceWriter(tracePath)
	if err != nil {
		t.Fatal(err)
	}
	defer tw.Close()
	for _, s := range scheds {
		var exec func(a Action) (string, string, string, []string)
		var state func() any
		switch s.Kind {
		case "ICA":
			w := NewICAWorld(t, s.Cfg == "xconn")
			exec, state = w.Exec, func() any { return w.State() }
		case "GMP":
			w := NewGMPWorld(t)
			exec, state = w.Exec, func() any { return w.State() }
		case "DERIVE":
			w := NewDeriveWorld()
			exec, state = w.Exec, func() any { return w.State() }
		default:
			t.Fatalf("unknown schedule kind %q", s.Kind)
		}
		tw.Emit(TraceLine{Tr: s.ID, I: 0, Kind: s.Kind, Cfg: s.Cfg, A: initAction, Res: "ok", Ack: "none", Diff: []string{}, Dbal: []string{}, St: state()})
		for i, raw := range s.Acts {
			var a Action
			if err := json.Unmarshal(raw, &a); err != nil {
				t.Fatalf("schedule %s step %d: %v", s.ID, i+1, err)
			}
			res, ack, errStr, diff := exec(a)
			if diff == nil {
				diff = []string{}
			}
			tw.Emit(TraceLine{Tr: s.ID, I: i + 1, Kind: s.Kind, Cfg: s.Cfg, A: raw, Res: res, Ack: ack, Err: errStr, Diff: diff, Dbal: dbalOf(diff), St: state()})
		}
	}
}
