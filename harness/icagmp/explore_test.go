package icagmp

import (
	"encoding/json"
	"fmt"
	"testing"
	"time"
)

func pi(n int) *int { return &n }

func TestExplore(t *testing.T) {
	t0 := time.Now()
	w := NewICAWorld(t)
	fmt.Println("setup", time.Since(t0))
	show := func(a Action) {
		t1 := time.Now()
		res, ack, es, diff := w.Exec(a)
		st := w.State()
		bz, _ := json.Marshal(a)
		fmt.Printf("%s -> %s %s %.80s diff=%v (%v)\n", bz, res, ack, es, diff, time.Since(t1))
		sb, _ := json.Marshal(st)
		fmt.Printf("   %s\n", sb)
	}
	show(Action{A: "Register", Signer: "O1", Owner: "O1", Order: "ORDERED", Enc: "proto3"})
	show(Action{A: "OpenInit", Signer: "X", Owner: "O1", Order: "UNORDERED", Enc: "proto3json", CpPort: "icahost"})
	show(Action{A: "Try", Ca: pi(0)})
	show(Action{A: "Try", Ca: pi(1)})
	show(Action{A: "Ack", Ca: pi(0), Cb: pi(0)})
	show(Action{A: "Confirm", Cb: pi(0)})
	show(Action{A: "Ack", Ca: pi(1), Cb: pi(1)})
	show(Action{A: "SendTx", Signer: "O1", Owner: "O1", To: "long", Msgs: []Msg{{"send", "self"}, {"delegate", "self"}, {"setwd", "self"}}})
	show(Action{A: "Recv", Ca: pi(0), Seq: pi(1)})
	show(Action{A: "SendTx", Signer: "O1", Owner: "O1", To: "long", Msgs: []Msg{{"send", "self"}, {"fail", "self"}}})
	show(Action{A: "Recv", Ca: pi(0), Seq: pi(2)})
	show(Action{A: "SendTx", Signer: "O1", Owner: "O1", To: "long", Msgs: []Msg{{"send", "self"}, {"send", "other"}}})
	show(Action{A: "Recv", Ca: pi(0), Seq: pi(3)})
	show(Action{A: "SendTx", Signer: "X", Owner: "O1", To: "long", Msgs: []Msg{{"send", "self"}}})
	show(Action{A: "SendTx", Signer: "O1", Owner: "O1", To: "short", Msgs: []Msg{{"send", "self"}}})
	show(Action{A: "Wait"})
	show(Action{A: "Recv", Ca: pi(0), Seq: pi(4)})
	show(Action{A: "Timeout", Ca: pi(0), Seq: pi(4)})
	show(Action{A: "Ack", Ca: pi(1), Cb: pi(1)})
	show(Action{A: "Confirm", Cb: pi(1)})
	show(Action{A: "SendTx", Signer: "O1", Owner: "O1", To: "long", Msgs: []Msg{{"send", "self"}}})
	show(Action{A: "Recv", Ca: pi(1), Seq: pi(1)})
	show(Action{A: "CloseConfirm", Cb: pi(0)})
	show(Action{A: "InitOnHost", Owner: "O2", Order: "ORDERED", Enc: "proto3"})
	show(Action{A: "ForeignInit", Owner: "O2"})
	show(Action{A: "TryOnController", Owner: "O2", Cb: pi(2)})
	fmt.Println("total", time.Since(t0))
}

func TestExploreGMP(t *testing.T) {
	t0 := time.Now()
	w := NewGMPWorld(t)
	fmt.Println("setup", time.Since(t0))
	show := func(a Action) {
		t1 := time.Now()
		res, ack, es, diff := w.Exec(a)
		st := w.State()
		bz, _ := json.Marshal(a)
		fmt.Printf("%s -> %s %s %.100s diff=%v (%v)\n", bz, res, ack, es, diff, time.Since(t1))
		sb, _ := json.Marshal(st)
		fmt.Printf("   %s\n", sb)
	}
	show(Action{A: "Send", Route: "call", Signer: "S1", Sender: "S1", Cl: pi(1), Salt: "", Enc: "proto", Msgs: []Msg{{"send", "self"}, {"delegate", "self"}}})
	show(Action{A: "Recv", Cl: pi(1), Seq: pi(1)})
	show(Action{A: "Recv", Cl: pi(1), Seq: pi(1)})
	show(Action{A: "Send", Route: "raw", Signer: "S1", Sender: "S1", Cl: pi(2), Salt: "s", Enc: "json", Msgs: []Msg{{"send", "self"}, {"fail", "self"}}})
	show(Action{A: "Recv", Cl: pi(2), Seq: pi(1)})
	show(Action{A: "Send", Route: "raw", Signer: "X", Sender: "S1", Cl: pi(2), Salt: "s", Enc: "abi", Msgs: []Msg{{"send", "self"}}})
	show(Action{A: "Send", Route: "call", Signer: "X", Sender: "S1", Cl: pi(2), Salt: "s", Enc: "abi", Msgs: []Msg{{"send", "self"}}})
	show(Action{A: "Send", Route: "call", Signer: "S2", Sender: "S2", Cl: pi(2), Salt: "s", Enc: "abi", Msgs: []Msg{{"send", "peer"}}})
	show(Action{A: "Recv", Cl: pi(2), Seq: pi(2)})
	show(Action{A: "Send", Route: "call", Signer: "S2", Sender: "S2", Cl: pi(2), Salt: "s", Enc: "abi", Msgs: []Msg{}})
	show(Action{A: "Recv", Cl: pi(2), Seq: pi(3)})
	d := NewDeriveWorld()
	fmt.Println(d.Exec(Action{A: "Derive", Ts: []Triple{{C: []string{"1"}, S: []string{"1", "x"}, Z: []string{}}, {C: []string{"1", "1"}, S: []string{"x"}, Z: []string{}}}}))
	fmt.Println(d.State())
}
