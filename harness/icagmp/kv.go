package icagmp

import (
	"encoding/hex"
	"sort"
	"strings"

	storetypes "github.com/cosmos/cosmos-sdk/store/v2/types"

	ibctesting "github.com/cosmos/ibc-go/v11/testing"
)

// Snap is a full copy of every committed key/value pair of a chain: store name -> key -> value.
type Snap map[string]map[string]string

func snapshot(chain *ibctesting.TestChain) Snap {
	ctx := chain.GetContext()
	out := Snap{}
	for _, k := range chain.GetSimApp().GetStoreKeys() {
		kv, ok := k.(*storetypes.KVStoreKey)
		if !ok {
			continue
		}
		m := map[string]string{}
		it := ctx.KVStore(kv).Iterator(nil, nil)
		for ; it.Valid(); it.Next() {
			m[string(it.Key())] = string(it.Value())
		}
		it.Close()
		out[kv.Name()] = m
	}
	return out
}

// changed returns "store\x00key" for every key whose value differs between the two snapshots.
func changed(a, b Snap) []string {
	var out []string
	for s, mb := range b {
		ma := a[s]
		for k, v := range mb {
			if ov, ok := ma[k]; !ok || ov != v {
				out = append(out, s+"\x00"+k)
			}
		}
	}
	for s, ma := range a {
		mb := b[s]
		for k := range ma {
			if _, ok := mb[k]; !ok {
				out = append(out, s+"\x00"+k)
			}
		}
	}
	sort.Strings(out)
	return out
}

// Noise describes the keys every block changes irrespective of its transactions (mint, distribution,
// slashing bookkeeping ...).  It is learnt from empty blocks during set-up: exact keys, and for keys that are
// new in every block (height-indexed) their store and first key byte.
type Noise struct {
	exact  map[string]bool
	prefix map[string]bool
}

func newNoise() *Noise { return &Noise{exact: map[string]bool{}, prefix: map[string]bool{}} }

func pfx(sk string) string {
	i := strings.IndexByte(sk, 0)
	if i+1 < len(sk) {
		return sk[:i+2]
	}
	return sk
}

// learn records the changes of consecutive empty blocks.
func (n *Noise) learn(rounds [][]string) {
	count := map[string]int{}
	for _, r := range rounds {
		for _, k := range r {
			count[k]++
		}
	}
	for k, c := range count {
		if c == len(rounds) {
			n.exact[k] = true
		} else {
			n.prefix[pfx(k)] = true
		}
	}
}

func (n *Noise) addExact(store string, key []byte) { n.exact[store+"\x00"+string(key)] = true }

func (n *Noise) is(sk string) bool { return n.exact[sk] || n.prefix[pfx(sk)] }

// printable renders a changed key for diagnostics.
func printable(sk string) string {
	i := strings.IndexByte(sk, 0)
	store, key := sk[:i], sk[i+1:]
	for _, c := range []byte(key) {
		if c < 0x20 || c > 0x7e {
			return store + ":0x" + hex.EncodeToString([]byte(key))
		}
	}
	return store + ":" + key
}
