package icagmp

import (
	"bytes"
	"encoding/hex"
	"fmt"
	"sort"
	"strings"
	"testing"
	"time"

	"github.com/cosmos/gogoproto/proto"

	"cosmossdk.io/collections"
	sdkmath "cosmossdk.io/math"

	sdk "github.com/cosmos/cosmos-sdk/types"
	authtypes "github.com/cosmos/cosmos-sdk/x/auth/types"
	banktypes "github.com/cosmos/cosmos-sdk/x/bank/types"
	distrtypes "github.com/cosmos/cosmos-sdk/x/distribution/types"
	stakingtypes "github.com/cosmos/cosmos-sdk/x/staking/types"

	abci "github.com/cometbft/cometbft/abci/types"

	gmptypes "github.com/cosmos/ibc-go/v11/modules/apps/27-gmp/types"
	channeltypesv2 "github.com/cosmos/ibc-go/v11/modules/core/04-channel/v2/types"
	hostv2 "github.com/cosmos/ibc-go/v11/modules/core/24-host/v2"
	ibctesting "github.com/cosmos/ibc-go/v11/testing"
)

var (
	gmpSenders = []string{"S1", "S2"}
	gmpSalts   = []string{"", "s"}
	gmpClients = []int{1, 2}
)

// GMPWorld: chain A sends GMP packets over two IBC v2 client pairs to chain B.
type GMPWorld struct {
	t     *testing.T
	coord *ibctesting.Coordinator
	A, B  *ibctesting.TestChain
	paths map[int]*ibctesting.Path

	acc   map[string]ibctesting.SenderAccount // S1, S2, X on A
	other sdk.AccAddress
	dest  sdk.AccAddress
	val   sdk.ValAddress
	otherB sdkmath.Int

	pkts     map[[2]int]channeltypesv2.Packet
	ackKind  map[[2]int]string
	addrName map[string]string // hex address -> name
	noise    *Noise
}

func tid(cl int, sender, salt string) string { return fmt.Sprintf("%d:%s:%s", cl, sender, salt) }

func (w *GMPWorld) accountID(cl int, sender, salt string) gmptypes.AccountIdentifier {
	return gmptypes.NewAccountIdentifier(w.paths[cl].EndpointB.ClientID, w.acc[sender].SenderAccount.GetAddress().String(), []byte(salt))
}

func (w *GMPWorld) nameOf(a sdk.AccAddress, want string) string {
	h := hex.EncodeToString(a)
	if n, ok := w.addrName[h]; ok {
		return n
	}
	w.addrName[h] = want
	return want
}

func NewGMPWorld(t *testing.T) *GMPWorld {
	ibctesting.TimeIncrement = time.Millisecond
	w := &GMPWorld{t: t, paths: map[int]*ibctesting.Path{}, acc: map[string]ibctesting.SenderAccount{},
		pkts: map[[2]int]channeltypesv2.Packet{}, ackKind: map[[2]int]string{}, addrName: map[string]string{}}
	w.coord = ibctesting.NewCoordinator(t, 2)
	w.A = w.coord.GetChain(ibctesting.GetChainID(1))
	w.B = w.coord.GetChain(ibctesting.GetChainID(2))
	for _, cl := range gmpClients {
		p := ibctesting.NewPath(w.A, w.B)
		p.SetupV2()
		w.paths[cl] = p
	}
	for i, n := range []string{"S1", "S2", "X"} {
		w.acc[n] = w.A.SenderAccounts[i+1]
	}
	w.other = w.B.SenderAccounts[1].SenderAccount.GetAddress()
	w.dest = sdk.AccAddress([]byte("verif-dest-account--"))
	w.addrName[hex.EncodeToString(w.other)] = "other"
	w.addrName[hex.EncodeToString(w.dest)] = "dest"
	w.addrName[hex.EncodeToString(authtypes.NewModuleAddress(stakingtypes.BondedPoolName))] = "bonded"
	w.addrName[hex.EncodeToString(authtypes.NewModuleAddress(distrtypes.ModuleName))] = "distribution"
	vals, err := w.B.GetSimApp().StakingKeeper.GetAllValidators(w.B.GetContext())
	if err != nil || len(vals) == 0 {
		t.Fatalf("no validators: %v", err)
	}
	w.val, _ = sdk.ValAddressFromBech32(vals[0].GetOperator())
	zeroInflation(w.B)
	// working balance for every account a schedule may act for (address as the keeper computes it)
	var fund []sdk.Msg
	seen := map[string]bool{}
	for _, cl := range gmpClients {
		for _, s := range gmpSenders {
			for _, z := range gmpSalts {
				id := w.accountID(cl, s, z)
				as, err := w.B.GetSimApp().GMPKeeper.GetOrComputeICS27Address(w.B.GetContext(), &id)
				if err != nil {
					t.Fatalf("compute address: %v", err)
				}
				a := sdk.MustAccAddressFromBech32(as)
				w.nameOf(a, "g:"+tid(cl, s, z))
				if !seen[as] {
					seen[as] = true
					fund = append(fund, banktypes.NewMsgSend(w.B.SenderAccount.GetAddress(), a, sdk.NewCoins(sdk.NewCoin(denom, sdkmath.NewInt(fundAmount)))))
				}
			}
		}
	}
	if _, res, es := sendAs(w.B, relayer(w.B), fund...); res != "ok" {
		t.Fatalf("funding failed: %s", es)
	}
	w.coord.CommitBlock(w.A, w.B)
	w.otherB = w.B.GetSimApp().BankKeeper.GetBalance(w.B.GetContext(), w.other, denom).Amount
	w.noise = learnNoise(w.B)
	return w
}

func otherSender(s string) string {
	if s == "S1" {
		return "S2"
	}
	return "S1"
}

func (w *GMPWorld) computed(cl int, sender, salt string) sdk.AccAddress {
	id := w.accountID(cl, sender, salt)
	a, err := gmptypes.BuildAddressPredictable(&id)
	if err != nil {
		return sdk.AccAddress([]byte("verif-underivable---"))
	}
	return a
}

func (w *GMPWorld) concrete(m Msg, cl int, sender, salt string) proto.Message {
	var from sdk.AccAddress
	switch m.From {
	case "self":
		from = w.computed(cl, sender, salt)
	case "peer":
		from = w.computed(cl, otherSender(sender), salt)
	default:
		from = w.other
	}
	one := sdk.NewCoin(denom, sdkmath.NewInt(1))
	switch m.K {
	case "fail":
		return banktypes.NewMsgSend(from, w.dest, sdk.NewCoins(sdk.NewCoin(denom, sdkmath.NewInt(hugeAmount))))
	case "delegate":
		return stakingtypes.NewMsgDelegate(from.String(), w.val.String(), one)
	}
	return banktypes.NewMsgSend(from, w.dest, sdk.NewCoins(one))
}

func gmpEncoding(e string) string {
	switch e {
	case "json":
		return gmptypes.EncodingJSON
	case "abi":
		return gmptypes.EncodingABI
	}
	return gmptypes.EncodingProtobuf
}

func (w *GMPWorld) Exec(a Action) (res, ack, errStr string, diff []string) {
	ack = "none"
	cl := ip(a.Cl)
	switch a.A {
	case "Send":
		path, ok := w.paths[cl]
		if !ok {
			return "err", ack, "unknown client", []string{}
		}
		var ms []proto.Message
		for _, m := range a.Msgs {
			ms = append(ms, w.concrete(m, cl, a.Sender, a.Salt))
		}
		payload, err := gmptypes.SerializeCosmosTx(w.A.GetSimApp().AppCodec(), ms)
		if err != nil {
			return "err", ack, "serialize: " + err.Error(), []string{}
		}
		w.coord.UpdateTimeForChain(w.A)
		timeout := uint64(w.A.ProposedHeader.GetTime().Add(time.Hour).Unix())
		senderAddr := w.acc[a.Sender].SenderAccount.GetAddress().String()
		signer := w.acc[a.Signer]
		var msg sdk.Msg
		if a.Route == "raw" {
			data := gmptypes.NewGMPPacketData(senderAddr, "", []byte(a.Salt), payload, "")
			bz, err := gmptypes.MarshalPacketData(&data, gmptypes.Version, gmpEncoding(a.Enc))
			if err != nil {
				return "err", ack, "marshal: " + err.Error(), []string{}
			}
			pl := channeltypesv2.NewPayload(gmptypes.PortID, gmptypes.PortID, gmptypes.Version, gmpEncoding(a.Enc), bz)
			msg = channeltypesv2.NewMsgSendPacket(path.EndpointA.ClientID, timeout, signer.SenderAccount.GetAddress().String(), pl)
		} else {
			msg = gmptypes.NewMsgSendCall(path.EndpointA.ClientID, senderAddr, "", payload, []byte(a.Salt), timeout, gmpEncoding(a.Enc), "")
		}
		r, rs, es := sendAs(w.A, signer, msg)
		if rs == "ok" && r != nil {
			if p, err := ibctesting.ParseV2PacketFromEvents(r.Events); err == nil {
				w.pkts[[2]int{cl, int(p.Sequence)}] = p
			} else {
				es = "packet not found in events: " + err.Error()
			}
		}
		return rs, ack, es, []string{}
	case "Recv":
		p, ok := w.pkts[[2]int{cl, ip(a.Seq)}]
		if !ok {
			return "err", ack, "unknown packet", []string{}
		}
		path := w.paths[cl]
		if err := path.EndpointB.UpdateClient(); err != nil {
			return "err", ack, "update client: " + err.Error(), []string{}
		}
		proof, h := w.A.QueryProof(hostv2.PacketCommitmentKey(p.SourceClient, p.Sequence))
		msg := channeltypesv2.NewMsgRecvPacket(p, proof, h, w.B.SenderAccount.GetAddress().String())
		pre := snapshot(w.B)
		r, rs, es := sendAs(w.B, relayer(w.B), msg)
		post := snapshot(w.B)
		if rs == "ok" && r != nil {
			ack = w.ackOf(r)
			w.ackKind[[2]int{cl, int(p.Sequence)}] = ack
		}
		return rs, ack, es, w.classifyDiff(changed(pre, post), p)
	}
	return "err", ack, "unknown action " + a.A, []string{}
}

func (w *GMPWorld) ackOf(r *abci.ExecTxResult) string {
	bz, err := ibctesting.ParseAckV2FromEvents(r.Events)
	if err != nil {
		return "none"
	}
	var ack channeltypesv2.Acknowledgement
	if proto.Unmarshal(bz, &ack) != nil || len(ack.AppAcknowledgements) != 1 {
		return "?"
	}
	if bytes.Equal(ack.AppAcknowledgements[0], channeltypesv2.ErrorAcknowledgement[:]) {
		return "error"
	}
	return "result"
}

func (w *GMPWorld) classifyDiff(keys []string, p channeltypesv2.Packet) []string {
	rk := string(hostv2.PacketReceiptKey(p.DestinationClient, p.Sequence))
	ak := string(hostv2.PacketAcknowledgementKey(p.DestinationClient, p.Sequence))
	names := map[string]string{}
	for h, n := range w.addrName {
		bz, _ := hex.DecodeString(h)
		names[sdk.AccAddress(bz).String()] = n
	}
	set := map[string]bool{}
	for _, sk := range keys {
		if w.noise.is(sk) {
			continue
		}
		set[classKey(sk, rk, ak, "", names)] = true
	}
	out := make([]string, 0, len(set))
	for k := range set {
		out = append(out, k)
	}
	sort.Strings(out)
	return out
}

// ---- projection ---------------------------------------------------------------------------------

type GMPState struct {
	Stored   map[string]string `json:"stored"`   // triple -> name of the address stored for it ("" = no entry)
	Computed map[string]string `json:"computed"` // triple -> name of BuildAddressPredictable's result
	XStored  int               `json:"xstored"`  // stored entries of other triples
	Bal      map[string]int64  `json:"bal"`
	Del      map[string]int64  `json:"del"`
	Commits  [][]int           `json:"commits"`
	Rcpts    [][]int           `json:"rcpts"`
	Acks     [][]any           `json:"acks"`
}

func (w *GMPWorld) State() GMPState {
	st := GMPState{Stored: map[string]string{}, Computed: map[string]string{}, Bal: map[string]int64{}, Del: map[string]int64{},
		Commits: [][]int{}, Rcpts: [][]int{}, Acks: [][]any{}}
	ctx := w.B.GetContext()
	app := w.B.GetSimApp()
	known := map[string]bool{}
	bal := func(name string, a sdk.AccAddress) {
		b := app.BankKeeper.GetBalance(ctx, a, denom).Amount
		if name == "other" {
			b = b.Sub(w.otherB)
		}
		st.Bal[name] = b.Int64()
		if name != "dest" {
			st.Del[name] = delegated(w.B, a, w.val)
		}
	}
	for _, cl := range gmpClients {
		for _, s := range gmpSenders {
			for _, z := range gmpSalts {
				t := tid(cl, s, z)
				id := w.accountID(cl, s, z)
				known[id.ClientId+"\x00"+id.Sender+"\x00"+string(id.Salt)] = true
				ca := w.computed(cl, s, z)
				st.Computed[t] = w.nameOf(ca, "g:"+t+"#c")
				st.Stored[t] = ""
				if acc, err := app.GMPKeeper.Accounts.Get(ctx, collections.Join3(id.ClientId, id.Sender, id.Salt)); err == nil {
					if a, err := sdk.AccAddressFromBech32(acc.Address); err == nil {
						st.Stored[t] = w.nameOf(a, "g:"+t+"#s")
					} else {
						st.Stored[t] = "invalid:" + acc.Address
					}
				}
				bal("g:"+t, ca)
			}
		}
	}
	bal("other", w.other)
	bal("dest", w.dest)
	_ = app.GMPKeeper.Accounts.Walk(ctx, nil, func(k collections.Triple[string, string, []byte], _ gmptypes.ICS27Account) (bool, error) {
		if !known[k.K1()+"\x00"+k.K2()+"\x00"+string(k.K3())] {
			st.XStored++
		}
		return false, nil
	})
	ck := w.B.App.GetIBCKeeper().ChannelKeeperV2
	cka := w.A.App.GetIBCKeeper().ChannelKeeperV2
	for _, cl := range gmpClients {
		p := w.paths[cl]
		for k, pk := range w.pkts {
			if k[0] != cl {
				continue
			}
			if len(cka.GetPacketCommitment(w.A.GetContext(), p.EndpointA.ClientID, pk.Sequence)) != 0 {
				st.Commits = append(st.Commits, []int{cl, int(pk.Sequence)})
			}
			if ck.HasPacketReceipt(ctx, p.EndpointB.ClientID, pk.Sequence) {
				st.Rcpts = append(st.Rcpts, []int{cl, int(pk.Sequence)})
			}
			if ck.HasPacketAcknowledgement(ctx, p.EndpointB.ClientID, pk.Sequence) {
				kind := w.ackKind[k]
				if kind == "" {
					kind = "?"
				}
				st.Acks = append(st.Acks, []any{cl, int(pk.Sequence), kind})
			}
		}
	}
	sortPairs(st.Commits)
	sortPairs(st.Rcpts)
	sort.Slice(st.Acks, func(i, j int) bool { return fmt.Sprint(st.Acks[i]) < fmt.Sprint(st.Acks[j]) })
	return st
}

func sortPairs(x [][]int) {
	sort.Slice(x, func(i, j int) bool {
		if x[i][0] != x[j][0] {
			return x[i][0] < x[j][0]
		}
		return x[i][1] < x[j][1]
	})
}

// ---- derivation table ---------------------------------------------------------------------------

// DeriveWorld evaluates the account derivation on instantiated abstract triples (no chain needed).
type DeriveWorld struct {
	last [][]string
}

func NewDeriveWorld() *DeriveWorld { return &DeriveWorld{last: [][]string{}} }

// instantiate: client = "07-tendermint-" + symbols, sender = symbols, salt = symbols (as bytes).
func instantiate(t Triple) gmptypes.AccountIdentifier {
	return gmptypes.NewAccountIdentifier("07-tendermint-"+strings.Join(t.C, ""), strings.Join(t.S, ""), []byte(strings.Join(t.Z, "")))
}

func (w *DeriveWorld) Exec(a Action) (string, string, string, []string) {
	w.last = [][]string{}
	res := "ok"
	for _, t := range a.Ts {
		id := instantiate(t)
		out := []string{"", ""}
		for i := range out {
			cp := id
			ad, err := gmptypes.BuildAddressPredictable(&cp)
			if err != nil {
				out[i] = "error"
				res = "err"
				continue
			}
			out[i] = hex.EncodeToString(ad)
		}
		w.last = append(w.last, out)
	}
	return res, "none", "", []string{}
}

type DeriveState struct {
	Out [][]string `json:"out"` // per triple of the step's batch: the two evaluations of the derivation
}

func (w *DeriveWorld) State() DeriveState { return DeriveState{Out: w.last} }
