// Package icagmp is the conformance driver of the icagmp family (spec/icagmp: ICA.tla, GMP.tla).
// It executes TLC-generated schedules on real ibctesting chains and records, after every step, the
// protocol-observable state.  It never judges: TLC does (Trace_ICA.tla, Trace_GMP.tla).
package icagmp

import "encoding/json"

// Msg is one abstract message of an interchain-account / GMP transaction.
//
//	k    : send | fail (send of more than the balance) | delegate | setwd (distribution MsgSetWithdrawAddress)
//	from : self (the account the packet acts for) | other (an ordinary host account) | peer (another owner's /
//	       another sender's interchain account)
type Msg struct {
	K    string `json:"k"`
	From string `json:"from"`
}

// Action is one schedule step (spec action record, fields depend on the action name).
type Action struct {
	A      string `json:"a"`
	Signer string `json:"signer,omitempty"`
	Owner  string `json:"owner,omitempty"`
	Order  string `json:"order,omitempty"`
	Enc    string `json:"enc,omitempty"`
	CpPort string `json:"cpport,omitempty"`
	Ca     *int   `json:"ca,omitempty"`
	Cb     *int   `json:"cb,omitempty"`
	Seq    *int   `json:"seq,omitempty"`
	To     string `json:"to,omitempty"`
	Allow  string `json:"allow,omitempty"`
	Msgs   []Msg  `json:"msgs,omitempty"`
	// GMP
	Route  string   `json:"route,omitempty"`
	Sender string   `json:"sender,omitempty"`
	Cl     *int     `json:"cl,omitempty"`
	Salt   string   `json:"salt,omitempty"`
	T      *Triple  `json:"t,omitempty"`
	Ts     []Triple `json:"ts,omitempty"`
}

// Triple is an abstract (client, sender, salt) triple of the derivation table: sequences of symbols.
type Triple struct {
	C []string `json:"c"`
	S []string `json:"s"`
	Z []string `json:"z"`
}

type Schedule struct {
	ID   string            `json:"id"`
	Kind string            `json:"kind"` // ICA | GMP | DERIVE
	Cfg  string            `json:"cfg"`  // configuration label (coverage key prefix, trace grouping)
	Acts []json.RawMessage `json:"acts"`
}

type KV struct {
	K string `json:"k"`
	V any    `json:"v"`
}

type TraceLine struct {
	Tr   string          `json:"tr"`
	I    int             `json:"i"`
	Kind string          `json:"kind"`
	Cfg  string          `json:"cfg"`
	A    json.RawMessage `json:"a"`   // the schedule's action, verbatim
	Res  string          `json:"res"` // ok | noop | err | panic (transaction level)
	Ack  string          `json:"ack"` // result | error | none : acknowledgement written by a receive
	Err  string          `json:"err,omitempty"`
	Diff []string        `json:"diff"` // classes of the store keys changed by the step (block noise removed)
	Dbal []string        `json:"dbal"` // names of the accounts whose bank balance changed in the step
	St   any             `json:"st"`
}

func ip(p *int) int {
	if p == nil {
		return -1
	}
	return *p
}
