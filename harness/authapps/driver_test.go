package authapps

import (
	"encoding/json"
	"testing"

	"verif/harness/lib"
)

// TestDriveAuthz executes every schedule of $VERIF_SCHED (ndjson: one grant + a sequence of MsgExec requests) through
// the real authz module and writes one trace line per transaction to $VERIF_TRACE.
func TestDriveAuthz(t *testing.T) {
	schedPath, tracePath := lib.EnvStr("VERIF_SCHED", ""), lib.EnvStr("VERIF_TRACE", "")
	if schedPath == "" || tracePath == "" {
		t.Skip("VERIF_SCHED / VERIF_TRACE not set")
	}
	scheds, err := lib.ReadNDJSON[AzSchedule](schedPath)
	if err != nil {
		t.Fatal(err)
	}
	tw, err := lib.NewTraceWriter(tracePath)
	if err != nil {
		t.Fatal(err)
	}
	defer tw.Close()
	w := NewAuthzWorld(t)
	for _, s := range scheds {
		if err := w.Begin(s.Grant); err != nil {
			t.Fatalf("schedule %s: grant failed: %v", s.ID, err)
		}
		want, _ := json.Marshal(s.Grant)
		tw.Emit(AzLine{Tr: s.ID, I: 0, A: json.RawMessage(`{"a":"Init","want":` + string(want) + `}`), Res: "ok", St: w.State()})
		for i, raw := range s.Acts {
			var a AzAction
			if err := json.Unmarshal(raw, &a); err != nil {
				t.Fatalf("schedule %s step %d: %v", s.ID, i+1, err)
			}
			res, errStr := w.Exec(a)
			tw.Emit(AzLine{Tr: s.ID, I: i + 1, A: raw, Res: res, Err: errStr, St: w.State()})
		}
	}
}
