package authapps

import (
	"encoding/json"
	"testing"

	"verif/harness/lib"
)

// TestDriveAuthz executes every schedule of $VERIF_SCHED (ndjson: one grant + a sequence of MsgExec requests) through
// the real authz module and writes one trace line per transaction to $VERIF_TRACE.
func TestDriveAuthz(t *testing.T) {
	schedPath, tracePath := lib.EnvStr("VERIF_SCHED", ""), lib.EnvStr("VERIF_TRACE", "")
	if schedPath == "" || tracePath == "" {
		t.Skip("VERIF_SCHED / VERIF_TRACE not set")
	}
	scheds, err := lib.ReadNDJSON[AzSchedule](schedPath)
	if err != nil {
		t.Fatal(err)
	}
	tw, err := lib.NewTraceWriter(tracePath)
	if err != nil {
		t.Fatal(err)
	}
	defer tw.Close()
	w := NewAuthzWorld(t)
	for _, s := range scheds {
		if err := w.Begin(s.Grant); err != nil {
			t.Fatalf("schedule %s: grant failed: %v", s.ID, err)
		}
		want, _ := json.Marshal(s.Grant)
		tw.Emit(AzLine{Tr: s.ID, I: 0, A: json.RawMessage(`{"a":"Init","want":` + string(want) + `}`), Res: "ok", St: w.State()})
		for i, raw := range s.Acts {
			var a AzAction
			if err := json.Unmarshal(raw, &a); err != nil {
				t.Fatalf("schedule %s step %d: %v", s.ID, i+1, err)
			}
			res, errStr := w.Exec(a)
			tw.Emit(AzLine{Tr: s.ID, I: i + 1, A: raw, Res: res, Err: errStr, St: w.State()})
		}
	}
}

// TestDriveAuth replays every case of $VERIF_SCHED (ndjson: canonical path into a configuration + one action) on one
// real chain; each path step and the action are one real transaction signed by the account of the action's class.
func TestDriveAuth(t *testing.T) {
	schedPath, tracePath := lib.EnvStr("VERIF_SCHED", ""), lib.EnvStr("VERIF_TRACE", "")
	if schedPath == "" || tracePath == "" {
		t.Skip("VERIF_SCHED / VERIF_TRACE not set")
	}
	cases, err := lib.ReadNDJSON[AuCase](schedPath)
	if err != nil {
		t.Fatal(err)
	}
	tw, err := lib.NewTraceWriter(tracePath)
	if err != nil {
		t.Fatal(err)
	}
	defer tw.Close()
	w := NewAuthWorld(t)
	for _, c := range cases {
		var final AuAct
		if err := json.Unmarshal(c.Act, &final); err != nil {
			t.Fatalf("case %s: %v", c.ID, err)
		}
		prep := w.Begin(final)
		tw.Emit(AuLine{Tr: c.ID, I: 0, A: json.RawMessage(`{"op":"Init"}`), Res: "ok", Prep: prep, St: w.State()})
		if prep == "" {
			prep = w.AfterStep(final)
		}
		steps := append(append([]json.RawMessage{}, c.Path...), c.Act)
		for i, raw := range steps {
			var a AuAct
			if err := json.Unmarshal(raw, &a); err != nil {
				t.Fatalf("case %s step %d: %v", c.ID, i+1, err)
			}
			res, errStr := w.Exec(a)
			st := w.State()
			p := prep
			prep = ""
			if i < len(steps)-1 {
				if e := w.AfterStep(final); e != "" {
					prep = e
				}
			}
			tw.Emit(AuLine{Tr: c.ID, I: i + 1, A: raw, Res: res, Err: errStr, Prep: p, St: st})
		}
	}
}

// TestDriveCallbacks executes the transaction-level cases of $VERIF_SCHED on the callbacks test application (each case:
// honest set-up, then ONE transaction with the chosen gas limit that triggers the callback) and, if $VERIF_SCHED_FN is
// set, the function-level triples on types.GetCallbackData.
func TestDriveCallbacks(t *testing.T) {
	schedPath, tracePath := lib.EnvStr("VERIF_SCHED", ""), lib.EnvStr("VERIF_TRACE", "")
	if schedPath == "" || tracePath == "" {
		t.Skip("VERIF_SCHED / VERIF_TRACE not set")
	}
	cases, err := lib.ReadNDJSON[CbCase](schedPath)
	if err != nil {
		t.Fatal(err)
	}
	tw, err := lib.NewTraceWriter(tracePath)
	if err != nil {
		t.Fatal(err)
	}
	defer tw.Close()
	if fnPath := lib.EnvStr("VERIF_SCHED_FN", ""); fnPath != "" {
		fn, err := lib.ReadNDJSON[FnCase](fnPath)
		if err != nil {
			t.Fatal(err)
		}
		fw, err := lib.NewTraceWriter(lib.EnvStr("VERIF_TRACE_FN", tracePath+".fn"))
		if err != nil {
			t.Fatal(err)
		}
		RunFn(fn, func(l FnLine) { fw.Emit(l) })
		fw.Close()
	}
	if len(cases) == 0 {
		return
	}
	w := NewCbWorld(t)
	if err := w.Calibrate(cases); err != nil {
		t.Fatal(err)
	}
	for _, c := range cases {
		w.Run(c, func(l CbLine) { tw.Emit(l) })
	}
}
