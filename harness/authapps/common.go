// Package authapps holds the conformance drivers of the "authapps" family:
//
//	C36 TransferAuthz.tla  (TestDriveAuthz)     x/authz MsgGrant + MsgExec(MsgTransfer) on a real ibctesting chain
//	C40 Callbacks.tla      (TestDriveCallbacks) callbacks middleware on the callbacks test app, real transactions with chosen gas limits
//	C46 Auth.tla           (TestDriveAuth)      every (operation, signer class, configuration) as one real transaction
//
// The drivers only execute and record; TLC judges (spec/authapps/Trace_*.tla).
package authapps

import (
	"fmt"

	"github.com/cosmos/cosmos-sdk/crypto/keys/secp256k1"
	cryptotypes "github.com/cosmos/cosmos-sdk/crypto/types"
	sdk "github.com/cosmos/cosmos-sdk/types"
	banktypes "github.com/cosmos/cosmos-sdk/x/bank/types"

	abci "github.com/cometbft/cometbft/abci/types"

	ibctesting "github.com/cosmos/ibc-go/v11/testing"
)

// Acct is a key pair the harness can sign with.
type Acct struct {
	Priv cryptotypes.PrivKey
	Addr sdk.AccAddress
}

func NewAcct() Acct {
	priv := secp256k1.GenPrivKey()
	return Acct{Priv: priv, Addr: sdk.AccAddress(priv.PubKey().Address())}
}

func (a Acct) String() string { return a.Addr.String() }

// accountGetter reads an account from the chain's auth keeper (the two test apps are different Go types).
type accountGetter func(ctx sdk.Context, addr sdk.AccAddress) sdk.AccountI

// sendAs delivers msgs in ONE transaction = one block, signed by a.  The tx error is returned, never fatal.
func sendAs(chain *ibctesting.TestChain, get accountGetter, a Acct, msgs ...sdk.Msg) (res *abci.ExecTxResult, err error) {
	defer func() {
		if r := recover(); r != nil {
			res, err = nil, fmt.Errorf("panic: %v", r)
		}
	}()
	acc := get(chain.GetContext(), a.Addr)
	if acc == nil {
		chain.NextBlock()
		return nil, fmt.Errorf("account %s does not exist", a.Addr)
	}
	return chain.SendMsgsWithSender(ibctesting.SenderAccount{SenderPrivKey: a.Priv, SenderAccount: acc}, msgs...)
}

// resync re-reads the chain's default sender sequence (ibctesting bumps its copy even when the ante handler rejects).
func resync(chain *ibctesting.TestChain, get accountGetter) {
	acc := get(chain.GetContext(), chain.SenderAccount.GetAddress())
	if acc != nil {
		_ = chain.SenderAccount.SetSequence(acc.GetSequence())
	}
}

// fund sends coins from the chain's default sender account (setup only).
func fund(chain *ibctesting.TestChain, get accountGetter, to sdk.AccAddress, coins sdk.Coins) error {
	_, err := chain.SendMsgs(banktypes.NewMsgSend(chain.SenderAccount.GetAddress(), to, coins))
	resync(chain, get)
	return err
}

func resClass(err error) (string, string) {
	if err != nil {
		return "err", err.Error()
	}
	return "ok", ""
}

func capInt(v sdk.Coin) int64 { // small abstract numbers; anything else is clamped so that TLC's 32-bit ints hold it
	if !v.Amount.IsInt64() || v.Amount.Int64() > 1_000_000_000 {
		return 1_000_000_000
	}
	return v.Amount.Int64()
}

func strs(v []string) []string {
	if v == nil {
		return []string{}
	}
	return v
}
