package authapps

import (
	"crypto/sha256"
	"encoding/json"
	"fmt"
	"sort"
	"testing"
	"time"

	"github.com/cosmos/gogoproto/proto"

	sdkmath "cosmossdk.io/math"

	simtestutil "github.com/cosmos/cosmos-sdk/testutil/sims"
	sdk "github.com/cosmos/cosmos-sdk/types"
	upgradetypes "github.com/cosmos/cosmos-sdk/x/upgrade/types"

	icacontrollertypes "github.com/cosmos/ibc-go/v11/modules/apps/27-interchain-accounts/controller/types"
	icahosttypes "github.com/cosmos/ibc-go/v11/modules/apps/27-interchain-accounts/host/types"
	ratelimittypes "github.com/cosmos/ibc-go/v11/modules/apps/rate-limiting/types"
	transfertypes "github.com/cosmos/ibc-go/v11/modules/apps/transfer/types"
	clienttypes "github.com/cosmos/ibc-go/v11/modules/core/02-client/types"
	clientv2types "github.com/cosmos/ibc-go/v11/modules/core/02-client/v2/types"
	connectiontypes "github.com/cosmos/ibc-go/v11/modules/core/03-connection/types"
	channeltypesv2 "github.com/cosmos/ibc-go/v11/modules/core/04-channel/v2/types"
	hostv2 "github.com/cosmos/ibc-go/v11/modules/core/24-host/v2"
	ibcexported "github.com/cosmos/ibc-go/v11/modules/core/exported"
	ibctm "github.com/cosmos/ibc-go/v11/modules/light-clients/07-tendermint"
	ibctesting "github.com/cosmos/ibc-go/v11/testing"
	mockv2 "github.com/cosmos/ibc-go/v11/testing/mock/v2"

	"verif/harness/lib"
)

// ---- case / trace shapes (spec/authapps/Auth.tla) --------------------------------------------------

type AuAct struct {
	Op  string `json:"op"`
	By  string `json:"by"`
	Tgt string `json:"tgt"`
	Val string `json:"val"`
}

type AuCase struct {
	ID   string            `json:"id"`
	Path []json.RawMessage `json:"path"`
	Act  json.RawMessage   `json:"act"`
}

type AuState struct {
	Creator     string   `json:"creator"`
	Cp          bool     `json:"cp"`
	Rel         []string `json:"rel"`
	Rel0        []string `json:"rel0"`
	Allowed     bool     `json:"allowed"`
	Rl          bool     `json:"rl"`
	Ncl         int64    `json:"ncl"`
	LastCreator string   `json:"lastCreator"`
	Dig         string   `json:"dig"`
}

type AuLine struct {
	Tr   string          `json:"tr"`
	I    int             `json:"i"`
	A    json.RawMessage `json:"a"`
	Res  string          `json:"res"`
	Err  string          `json:"err,omitempty"`
	Prep string          `json:"prep"`
	St   AuState         `json:"st"`
}

// route: the identifiers under which v2 packets travel (client ids, or the alias channel ids) and the
// endpoints whose light clients verify them.
type route struct {
	idA, idB string
	epA, epB *ibctesting.Endpoint
}

type prepared struct {
	done    bool
	recv    *channeltypesv2.Packet // sent by B, unreceived on A
	ack     *channeltypesv2.Packet // sent by A, received on B
	ackVal  channeltypesv2.Acknowledgement
	timeout *channeltypesv2.Packet // sent by A, expired on B, unreceived
	height  uint64                 // consensus height of A's client that proves all of the above
}

type AuthWorld struct {
	t     *testing.T
	coord *ibctesting.Coordinator
	A, B  *ibctesting.TestChain
	get   accountGetter

	acct  map[string]Acct
	class map[string]string // address -> signer class

	path0 *ibctesting.Path // transfer channel-0 (alias) over cl0
	cur   *ibctesting.Path // fresh client pair of the current case
	subj  string           // frozen subject client for RecoverClient

	prepCl, prepAlias prepared
	bReg              bool // B's side of the fresh pair has its counterparty registered (needed by client-route relays only)
	last              AuState
}

var rlDenom = sdk.DefaultBondDenom

func NewAuthWorld(t *testing.T) *AuthWorld {
	w := &AuthWorld{t: t, acct: map[string]Acct{}, class: map[string]string{}}
	// the chain's authority is an account the harness holds the key of (consensus-params authority, SDK 0.55)
	w.acct["authority"] = NewAcct()
	simtestutil.DefaultConsensusParams.Authority.Authority = w.acct["authority"].String()
	w.coord = ibctesting.NewCoordinator(t, 2)
	w.A = w.coord.GetChain(ibctesting.GetChainID(1))
	w.B = w.coord.GetChain(ibctesting.GetChainID(2))
	w.get = func(ctx sdk.Context, addr sdk.AccAddress) sdk.AccountI {
		return w.A.GetSimApp().AccountKeeper.GetAccount(ctx, addr)
	}
	w.acct["creator"] = Acct{Priv: w.A.SenderPrivKey, Addr: w.A.SenderAccount.GetAddress()}
	w.acct["relayer"] = NewAcct()
	w.acct["stranger"] = NewAcct()
	for cls, a := range w.acct {
		w.class[a.String()] = cls
		if cls != "creator" {
			if err := fund(w.A, w.get, a.Addr, sdk.NewCoins(sdk.NewInt64Coin(sdk.DefaultBondDenom, 1_000_000))); err != nil {
				t.Fatalf("fund %s: %v", cls, err)
			}
		}
	}
	w.path0 = ibctesting.NewTransferPath(w.A, w.B)
	w.path0.Setup()
	return w
}

func (w *AuthWorld) send(by string, msgs ...sdk.Msg) (string, string) {
	_, err := sendAs(w.A, w.get, w.acct[by], msgs...)
	resync(w.A, w.get)
	return resClass(err)
}

func (w *AuthWorld) classOf(addr sdk.AccAddress) string {
	if len(addr) == 0 {
		return "none"
	}
	if c, ok := w.class[addr.String()]; ok {
		return c
	}
	return "other"
}

func (w *AuthWorld) classes(list []string) []string {
	out := []string{}
	for _, r := range list {
		if c, ok := w.class[r]; ok {
			out = append(out, c)
		} else {
			out = append(out, "other")
		}
	}
	sort.Strings(out)
	return out
}

func (w *AuthWorld) cl() string  { return w.cur.EndpointA.ClientID }
func (w *AuthWorld) cl0() string { return w.path0.EndpointA.ClientID }

func (w *AuthWorld) State() AuState {
	ctx := w.A.GetContext()
	app := w.A.GetSimApp()
	k := w.A.App.GetIBCKeeper()
	st := AuState{}
	st.Creator = w.classOf(k.ClientKeeper.GetClientCreator(ctx, w.cl()))
	_, st.Cp = k.ClientV2Keeper.GetClientCounterparty(ctx, w.cl())
	st.Rel = w.classes(k.ClientV2Keeper.GetConfig(ctx, w.cl()).AllowedRelayers)
	st.Rel0 = w.classes(k.ClientV2Keeper.GetConfig(ctx, w.cl0()).AllowedRelayers)
	st.Allowed = k.ClientKeeper.GetParams(ctx).IsAllowedClient(ibcexported.Tendermint)
	_, st.Rl = app.RateLimitKeeper.GetRateLimit(ctx, rlDenom, w.path0.EndpointA.ChannelID)
	n := k.ClientKeeper.GetNextClientSequence(ctx)
	st.Ncl = int64(n)
	st.LastCreator = "none"
	if n > 0 {
		st.LastCreator = w.classOf(k.ClientKeeper.GetClientCreator(ctx, clienttypes.FormatClientIdentifier(ibcexported.Tendermint, n-1)))
	}
	h := sha256.New()
	for _, key := range []string{ibcexported.StoreKey, transfertypes.StoreKey, icahosttypes.StoreKey, icacontrollertypes.StoreKey, upgradetypes.StoreKey} {
		h.Write([]byte(lib.DigestOf(ctx, app.GetKey(key))))
	}
	// only the administrator-controlled part of a rate limit: its flow is reset (and the channel value re-read from
	// the ever-growing supply) by the hourly epoch in BeginBlock, independently of any transaction
	for _, rl := range app.RateLimitKeeper.GetAllRateLimits(ctx) {
		if rl.Path != nil {
			bz, _ := proto.Marshal(rl.Path)
			h.Write(bz)
		}
		if rl.Quota != nil {
			bz, _ := proto.Marshal(rl.Quota)
			h.Write(bz)
		}
	}
	st.Dig = lib.Hex(h.Sum(nil))[:16]
	w.last = st
	return st
}

// reset brings the chain-wide configuration back to the initial one (set-up transactions of the authority).
func (w *AuthWorld) reset() error {
	auth := w.acct["authority"].String()
	ctx := w.A.GetContext()
	k := w.A.App.GetIBCKeeper()
	if !k.ClientKeeper.GetParams(ctx).IsAllowedClient(ibcexported.Tendermint) {
		if _, e := w.send("authority", clienttypes.NewMsgUpdateParams(auth, clienttypes.DefaultParams())); e != "" {
			return fmt.Errorf("reset params: %s", e)
		}
	}
	if _, found := w.A.GetSimApp().RateLimitKeeper.GetRateLimit(ctx, rlDenom, w.path0.EndpointA.ChannelID); found {
		m := ratelimittypes.NewMsgRemoveRateLimit(rlDenom, w.path0.EndpointA.ChannelID)
		m.Signer = auth
		if _, e := w.send("authority", m); e != "" {
			return fmt.Errorf("reset rate limit: %s", e)
		}
	}
	if len(k.ClientV2Keeper.GetConfig(ctx, w.cl0()).AllowedRelayers) != 0 {
		if _, e := w.send("authority", clientv2types.NewMsgUpdateClientConfig(w.cl0(), auth, clientv2types.NewConfig())); e != "" {
			return fmt.Errorf("reset cl0 config: %s", e)
		}
	}
	return nil
}

func payload() channeltypesv2.Payload {
	return mockv2.NewMockPayload(mockv2.ModuleNameA, mockv2.ModuleNameB)
}

func (w *AuthWorld) now() int64 { return w.coord.CurrentTime.Unix() }

// sendV2 submits MsgSendPacket on chain (signed by that chain's default account) and returns the packet.
func sendV2(chain *ibctesting.TestChain, src, dst string, timeout uint64) (*channeltypesv2.Packet, error) {
	pl := payload()
	res, err := chain.SendMsgs(channeltypesv2.NewMsgSendPacket(src, timeout, chain.SenderAccount.GetAddress().String(), pl))
	if err != nil {
		return nil, err
	}
	var msgData sdk.TxMsgData
	if err := proto.Unmarshal(res.Data, &msgData); err != nil {
		return nil, err
	}
	var resp channeltypesv2.MsgSendPacketResponse
	if err := proto.Unmarshal(msgData.MsgResponses[0].Value, &resp); err != nil {
		return nil, err
	}
	p := channeltypesv2.NewPacket(resp.Sequence, src, dst, timeout, pl)
	return &p, nil
}

// prepare creates, with honest set-up transactions, the packet an otherwise valid relay message needs.
// It must run while the client's allow list is empty and its type allowed.
func (w *AuthWorld) prepare(r route, op string) (pr prepared, err error) {
	defer func() {
		if x := recover(); x != nil {
			err = fmt.Errorf("panic: %v", x)
		}
		resync(w.A, w.get)
	}()
	far := uint64(w.now() + 3600)
	switch op {
	case "RecvV2":
		if pr.recv, err = sendV2(w.B, r.idB, r.idA, far); err != nil {
			return pr, err
		}
	case "AckV2":
		if pr.ack, err = sendV2(w.A, r.idA, r.idB, far); err != nil {
			return pr, err
		}
		if err = r.epB.UpdateClient(); err != nil {
			return pr, err
		}
		key := hostv2.PacketCommitmentKey(r.idA, pr.ack.Sequence)
		proof, ph := r.epA.QueryProof(key)
		res, e := w.B.SendMsgs(channeltypesv2.NewMsgRecvPacket(*pr.ack, proof, ph, w.B.SenderAccount.GetAddress().String()))
		if e != nil {
			return pr, e
		}
		ackBz, e := ibctesting.ParseAckV2FromEvents(res.Events)
		if e != nil {
			return pr, e
		}
		if e := proto.Unmarshal(ackBz, &pr.ackVal); e != nil {
			return pr, e
		}
	case "TimeoutV2":
		to := uint64(w.now() + 40)
		if pr.timeout, err = sendV2(w.A, r.idA, r.idB, to); err != nil {
			return pr, err
		}
		w.coord.IncrementTimeBy(90 * time.Second)
		w.B.NextBlock()
	}
	// A's client learns a height of B that shows all of the above
	if err = r.epA.UpdateClient(); err != nil {
		return pr, err
	}
	cs, ok := w.A.App.GetIBCKeeper().ClientKeeper.GetClientState(w.A.GetContext(), r.epA.ClientID)
	if !ok {
		return pr, fmt.Errorf("client state missing")
	}
	pr.height = cs.(*ibctm.ClientState).LatestHeight.RevisionHeight
	pr.done = true
	return pr, nil
}

// freezeSubject creates a client and freezes it with real misbehaviour evidence (two conflicting signed headers).
func (w *AuthWorld) freezeSubject() (id string, err error) {
	defer func() {
		if x := recover(); x != nil {
			err = fmt.Errorf("panic: %v", x)
		}
		resync(w.A, w.get)
	}()
	p := ibctesting.NewPath(w.A, w.B)
	if err := p.EndpointA.CreateClient(); err != nil {
		return "", err
	}
	id = p.EndpointA.ClientID
	cs, _ := w.A.App.GetIBCKeeper().ClientKeeper.GetClientState(w.A.GetContext(), id)
	trustedH := cs.(*ibctm.ClientState).LatestHeight
	trustedVals, ok := w.B.TrustedValidators[trustedH.RevisionHeight]
	if !ok {
		return id, fmt.Errorf("no trusted validators")
	}
	height := int64(trustedH.RevisionHeight) + 1
	t1 := w.coord.CurrentTime
	h1 := w.B.CreateTMClientHeader(w.B.ChainID, height, trustedH, t1, w.B.Vals, w.B.NextVals, trustedVals, w.B.Signers)
	h2 := w.B.CreateTMClientHeader(w.B.ChainID, height, trustedH, t1.Add(-time.Second), w.B.Vals, w.B.NextVals, trustedVals, w.B.Signers)
	msg, err := clienttypes.NewMsgUpdateClient(id, &ibctm.Misbehaviour{ClientId: id, Header1: h1, Header2: h2}, w.acct["creator"].String())
	if err != nil {
		return id, err
	}
	if _, err := w.A.SendMsgs(msg); err != nil {
		return id, err
	}
	return id, nil
}

func isRelay(op string) bool { return op == "RecvV2" || op == "AckV2" || op == "TimeoutV2" }

// Begin sets up the fresh client pair of a case; returns a description of any preparation failure.
func (w *AuthWorld) Begin(final AuAct) (prep string) {
	defer func() {
		if x := recover(); x != nil {
			prep = fmt.Sprintf("panic in set-up: %v", x)
		}
	}()
	if w.cur != nil {
		if err := w.reset(); err != nil {
			return err.Error()
		}
	}
	w.prepCl, w.prepAlias, w.subj = prepared{}, prepared{}, ""
	if final.Op == "RecoverClient" {
		id, err := w.freezeSubject()
		if err != nil {
			return "freeze subject: " + err.Error()
		}
		w.subj = id
	}
	p := ibctesting.NewPath(w.A, w.B)
	p.SetupClients()
	resync(w.A, w.get)
	w.cur = p
	w.bReg = false
	if isRelay(final.Op) && final.Tgt == "cl0" {
		pr, err := w.prepare(w.aliasRoute(), final.Op)
		if err != nil {
			return "alias preparation: " + err.Error()
		}
		w.prepAlias = pr
	}
	return ""
}

func (w *AuthWorld) aliasRoute() route {
	return route{idA: w.path0.EndpointA.ChannelID, idB: w.path0.EndpointB.ChannelID, epA: w.path0.EndpointA, epB: w.path0.EndpointB}
}

func (w *AuthWorld) clientRoute() route {
	return route{idA: w.cur.EndpointA.ClientID, idB: w.cur.EndpointB.ClientID, epA: w.cur.EndpointA, epB: w.cur.EndpointB}
}

// AfterStep performs the client-route preparation as soon as the counterparty of cl is registered.
func (w *AuthWorld) AfterStep(final AuAct) string {
	if !isRelay(final.Op) || final.Tgt != "cl" || w.prepCl.done {
		return ""
	}
	if !(w.last.Cp && len(w.last.Rel) == 0 && w.last.Allowed) {
		return ""
	}
	if !w.bReg {
		if err := w.cur.EndpointB.RegisterCounterparty(); err != nil {
			return "register counterparty on B: " + err.Error()
		}
		w.bReg = true
	}
	pr, err := w.prepare(w.clientRoute(), final.Op)
	if err != nil {
		return "client preparation: " + err.Error()
	}
	w.prepCl = pr
	return ""
}

func (w *AuthWorld) tmState(id string) *ibctm.ClientState {
	cs, ok := w.A.App.GetIBCKeeper().ClientKeeper.GetClientState(w.A.GetContext(), id)
	if !ok {
		return nil
	}
	tm, _ := cs.(*ibctm.ClientState)
	return tm
}

// Exec executes one action as ONE real transaction signed by the account of class a.By.
func (w *AuthWorld) Exec(a AuAct) (res string, errStr string) {
	defer func() {
		if x := recover(); x != nil {
			res, errStr = "err", fmt.Sprintf("harness panic: %v", x)
			resync(w.A, w.get)
		}
	}()
	signer := w.acct[a.By].String()
	tgt := w.cl()
	if a.Tgt == "cl0" {
		tgt = w.cl0()
	}
	ch0 := w.path0.EndpointA.ChannelID
	switch a.Op {
	case "CreateClient":
		w.B.NextBlock()
		hdr := w.B.LatestCommittedHeader
		cfg := ibctesting.NewTendermintConfig()
		height := hdr.GetHeight().(clienttypes.Height)
		cs := ibctm.NewClientState(w.B.ChainID, cfg.TrustLevel, cfg.TrustingPeriod, cfg.UnbondingPeriod, cfg.MaxClockDrift, height,
			w.tmState(w.cl0()).ProofSpecs, ibctesting.UpgradePath)
		msg, err := clienttypes.NewMsgCreateClient(cs, hdr.ConsensusState(), signer)
		if err != nil {
			return "err", err.Error()
		}
		return w.send(a.By, msg)
	case "RegisterCounterparty":
		return w.send(a.By, clientv2types.NewMsgRegisterCounterparty(tgt, w.cur.EndpointB.MerklePathPrefix.KeyPath, w.cur.EndpointB.ClientID, signer))
	case "UpdateClientConfig":
		cfg := clientv2types.NewConfig()
		if a.Val == "rel" {
			cfg = clientv2types.NewConfig(w.acct["relayer"].String())
		}
		return w.send(a.By, clientv2types.NewMsgUpdateClientConfig(tgt, signer, cfg))
	case "DeleteClientCreator":
		return w.send(a.By, clienttypes.NewMsgDeleteClientCreator(tgt, signer))
	case "UpdateClient":
		w.B.NextBlock()
		trusted := w.tmState(tgt).LatestHeight
		hdr, err := w.B.IBCClientHeader(w.B.LatestCommittedHeader, trusted)
		if err != nil {
			return "err", err.Error()
		}
		msg, err := clienttypes.NewMsgUpdateClient(tgt, hdr, signer)
		if err != nil {
			return "err", err.Error()
		}
		return w.send(a.By, msg)
	case "RecvV2", "AckV2", "TimeoutV2":
		r, pr := w.clientRoute(), w.prepCl
		if a.Tgt == "cl0" {
			r, pr = w.aliasRoute(), w.prepAlias
		}
		if !pr.done {
			// nothing could be prepared (no counterparty): a syntactically valid message about a packet that does not exist
			p := channeltypesv2.NewPacket(1, r.idA, r.idB, uint64(w.now()+3600), payload())
			if a.Op == "RecvV2" {
				p = channeltypesv2.NewPacket(1, r.idB, r.idA, uint64(w.now()+3600), payload())
			}
			ph := clienttypes.NewHeight(1, 2)
			switch a.Op {
			case "RecvV2":
				return w.send(a.By, channeltypesv2.NewMsgRecvPacket(p, []byte("no proof"), ph, signer))
			case "AckV2":
				return w.send(a.By, channeltypesv2.NewMsgAcknowledgement(p, channeltypesv2.NewAcknowledgement(mockv2.MockRecvPacketResult.Acknowledgement), []byte("no proof"), ph, signer))
			default:
				return w.send(a.By, channeltypesv2.NewMsgTimeout(p, []byte("no proof"), ph, signer))
			}
		}
		switch a.Op {
		case "RecvV2":
			proof, ph := w.B.QueryProofAtHeight(hostv2.PacketCommitmentKey(r.idB, pr.recv.Sequence), int64(pr.height))
			return w.send(a.By, channeltypesv2.NewMsgRecvPacket(*pr.recv, proof, ph, signer))
		case "AckV2":
			proof, ph := w.B.QueryProofAtHeight(hostv2.PacketAcknowledgementKey(r.idB, pr.ack.Sequence), int64(pr.height))
			return w.send(a.By, channeltypesv2.NewMsgAcknowledgement(*pr.ack, pr.ackVal, proof, ph, signer))
		default:
			proof, ph := w.B.QueryProofAtHeight(hostv2.PacketReceiptKey(r.idB, pr.timeout.Sequence), int64(pr.height))
			return w.send(a.By, channeltypesv2.NewMsgTimeout(*pr.timeout, proof, ph, signer))
		}
	case "RecoverClient":
		return w.send(a.By, clienttypes.NewMsgRecoverClient(signer, w.subj, w.cl()))
	case "IBCSoftwareUpgrade":
		plan := upgradetypes.Plan{Name: "verif-upgrade", Height: w.A.App.LastBlockHeight() + 1_000_000}
		msg, err := clienttypes.NewMsgIBCSoftwareUpgrade(signer, plan, w.tmState(w.cl0()))
		if err != nil {
			return "err", err.Error()
		}
		return w.send(a.By, msg)
	case "UpdateClientParams":
		params := clienttypes.DefaultParams()
		if a.Val == "solo" {
			params = clienttypes.NewParams(ibcexported.Solomachine)
		}
		return w.send(a.By, clienttypes.NewMsgUpdateParams(signer, params))
	case "UpdateConnectionParams":
		return w.send(a.By, connectiontypes.NewMsgUpdateParams(signer, connectiontypes.NewParams(uint64(connectiontypes.DefaultTimePerBlock))))
	case "TransferParams":
		return w.send(a.By, transfertypes.NewMsgUpdateParams(signer, transfertypes.DefaultParams()))
	case "ICAHostParams":
		return w.send(a.By, icahosttypes.NewMsgUpdateParams(signer, icahosttypes.DefaultParams()))
	case "ICAControllerParams":
		return w.send(a.By, icacontrollertypes.NewMsgUpdateParams(signer, icacontrollertypes.DefaultParams()))
	case "RLAdd":
		m := ratelimittypes.NewMsgAddRateLimit(rlDenom, ch0, sdkmath.NewInt(10), sdkmath.NewInt(10), 24)
		m.Signer = signer
		return w.send(a.By, m)
	case "RLUpdate":
		m := ratelimittypes.NewMsgUpdateRateLimit(rlDenom, ch0, sdkmath.NewInt(20), sdkmath.NewInt(20), 24)
		m.Signer = signer
		return w.send(a.By, m)
	case "RLRemove":
		m := ratelimittypes.NewMsgRemoveRateLimit(rlDenom, ch0)
		m.Signer = signer
		return w.send(a.By, m)
	case "RLReset":
		m := ratelimittypes.NewMsgResetRateLimit(rlDenom, ch0)
		m.Signer = signer
		return w.send(a.By, m)
	}
	w.A.NextBlock()
	return "err", "unknown operation " + a.Op
}
