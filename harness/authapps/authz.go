package authapps

import (
	"encoding/json"
	"sort"
	"testing"

	sdkmath "cosmossdk.io/math"

	sdk "github.com/cosmos/cosmos-sdk/types"
	"github.com/cosmos/cosmos-sdk/x/authz"

	transfertypes "github.com/cosmos/ibc-go/v11/modules/apps/transfer/types"
	clienttypes "github.com/cosmos/ibc-go/v11/modules/core/02-client/types"
	ibctesting "github.com/cosmos/ibc-go/v11/testing"
)

// ---- schedule / trace shapes (spec/authapps/TransferAuthz.tla) -------------------------------------

type AzAlloc struct {
	On    bool             `json:"on"`
	Lim   map[string]int64 `json:"lim"`
	Allow []string         `json:"allow"`
	Memos []string         `json:"memos"`
}

type AzGrant struct {
	Grant bool               `json:"grant"`
	Al    map[string]AzAlloc `json:"al"`
	Bal   map[string]int64   `json:"bal"`
}

type AzReq struct {
	Ch    string `json:"ch"`
	Denom string `json:"denom"`
	Amt   int64  `json:"amt"`
	Rcv   string `json:"rcv"`
	Memo  string `json:"memo"`
}

type AzAction struct {
	A    string  `json:"a"`
	Reqs []AzReq `json:"reqs"`
}

type AzSchedule struct {
	ID    string            `json:"id"`
	Grant AzGrant           `json:"grant"`
	Acts  []json.RawMessage `json:"acts"`
}

type AzLine struct {
	Tr  string          `json:"tr"`
	I   int             `json:"i"`
	A   json.RawMessage `json:"a"`
	Res string          `json:"res"`
	Err string          `json:"err,omitempty"`
	St  AzGrant         `json:"st"`
}

var azChans = []string{"c0", "c1"}
var azDenoms = []string{"x", "y"}

// AuthzWorld: chain A with two transfer channels to chain B; x and y are the vouchers of B's bond denomination
// over channel 0 and channel 1 (so that one is burned and the other escrowed whichever channel is used).
type AuthzWorld struct {
	t     *testing.T
	coord *ibctesting.Coordinator
	A, B  *ibctesting.TestChain
	paths []*ibctesting.Path
	get   accountGetter

	chanID   map[string]string // c0 -> channel-0
	chanAbs  map[string]string
	denom    map[string]string // x -> ibc/...
	denomAbs map[string]string
	rcv      map[string]string
	rcvAbs   map[string]string
	memo     map[string]string
	memoAbs  map[string]string

	grantee Acct
	granter Acct
}

func NewAuthzWorld(t *testing.T) *AuthzWorld {
	w := &AuthzWorld{t: t, chanID: map[string]string{}, chanAbs: map[string]string{}, denom: map[string]string{}, denomAbs: map[string]string{},
		rcv: map[string]string{}, rcvAbs: map[string]string{},
		memo:    map[string]string{"": "", "m1": "m1", "m2": "m2", "ws": "   ", "m1sp": " m1 ", "*": "*"},
		memoAbs: map[string]string{}}
	for k, v := range w.memo {
		w.memoAbs[v] = k
	}
	w.coord = ibctesting.NewCoordinator(t, 2)
	w.A = w.coord.GetChain(ibctesting.GetChainID(1))
	w.B = w.coord.GetChain(ibctesting.GetChainID(2))
	w.get = func(ctx sdk.Context, addr sdk.AccAddress) sdk.AccountI {
		return w.A.GetSimApp().AccountKeeper.GetAccount(ctx, addr)
	}
	for i, c := range azChans {
		p := ibctesting.NewTransferPath(w.A, w.B)
		p.Setup()
		w.paths = append(w.paths, p)
		w.chanID[c] = p.EndpointA.ChannelID
		w.chanAbs[p.EndpointA.ChannelID] = c
		// voucher of B's bond denomination over this channel, to A's default account
		amt := sdkmath.NewInt(1_000_000_000)
		msg := transfertypes.NewMsgTransfer(p.EndpointB.ChannelConfig.PortID, p.EndpointB.ChannelID, sdk.NewCoin(sdk.DefaultBondDenom, amt),
			w.B.SenderAccount.GetAddress().String(), w.A.SenderAccount.GetAddress().String(), clienttypes.NewHeight(1, 100000), 0, "")
		res, err := w.B.SendMsgs(msg)
		if err != nil {
			t.Fatalf("setup transfer: %v", err)
		}
		packet, err := ibctesting.ParseV1PacketFromEvents(res.Events)
		if err != nil {
			t.Fatalf("setup parse: %v", err)
		}
		if err := p.RelayPacket(packet); err != nil {
			t.Fatalf("setup relay: %v", err)
		}
		d := transfertypes.NewDenom(sdk.DefaultBondDenom, transfertypes.NewHop(p.EndpointA.ChannelConfig.PortID, p.EndpointA.ChannelID)).IBCDenom()
		w.denom[azDenoms[i]] = d
		w.denomAbs[d] = azDenoms[i]
	}
	for _, r := range []string{"r1", "r2", "r3"} {
		a := NewAcct()
		w.rcv[r] = a.String()
		w.rcvAbs[a.String()] = r
	}
	w.grantee = NewAcct()
	if err := fund(w.A, w.get, w.grantee.Addr, sdk.NewCoins(sdk.NewInt64Coin(sdk.DefaultBondDenom, 1_000_000))); err != nil {
		t.Fatalf("fund grantee: %v", err)
	}
	return w
}

func (w *AuthzWorld) coins(m map[string]int64) sdk.Coins {
	var cs sdk.Coins
	for _, d := range azDenoms {
		v := m[d]
		switch {
		case v < 0:
			cs = cs.Add(sdk.NewCoin(w.denom[d], transfertypes.UnboundedSpendLimit()))
		case v > 0:
			cs = cs.Add(sdk.NewInt64Coin(w.denom[d], v))
		}
	}
	return cs
}

// Begin creates a fresh granter with the scheduled balances and submits the real MsgGrant.
func (w *AuthzWorld) Begin(g AzGrant) error {
	w.granter = NewAcct()
	start := sdk.NewCoins(sdk.NewInt64Coin(sdk.DefaultBondDenom, 1000)).Add(w.coins(g.Bal)...)
	if err := fund(w.A, w.get, w.granter.Addr, start); err != nil {
		return err
	}
	var allocs []transfertypes.Allocation
	for _, c := range azChans {
		al := g.Al[c]
		if !al.On {
			continue
		}
		allow := make([]string, 0, len(al.Allow))
		for _, r := range al.Allow {
			allow = append(allow, w.rcv[r])
		}
		memos := make([]string, 0, len(al.Memos))
		for _, m := range al.Memos {
			memos = append(memos, w.memo[m])
		}
		allocs = append(allocs, transfertypes.Allocation{SourcePort: transfertypes.PortID, SourceChannel: w.chanID[c], SpendLimit: w.coins(al.Lim),
			AllowList: allow, AllowedPacketData: memos})
	}
	msg, err := authz.NewMsgGrant(w.granter.Addr, w.grantee.Addr, transfertypes.NewTransferAuthorization(allocs...), nil)
	if err != nil {
		return err
	}
	_, err = sendAs(w.A, w.get, w.granter, msg)
	return err
}

// Exec submits one MsgExec of the grantee wrapping the requested MsgTransfers of the granter.
func (w *AuthzWorld) Exec(a AzAction) (string, string) {
	var msgs []sdk.Msg
	for _, r := range a.Reqs {
		amt := sdkmath.NewInt(r.Amt)
		if r.Amt < 0 {
			amt = transfertypes.UnboundedSpendLimit()
		}
		msgs = append(msgs, transfertypes.NewMsgTransfer(transfertypes.PortID, w.chanID[r.Ch], sdk.Coin{Denom: w.denom[r.Denom], Amount: amt},
			w.granter.String(), w.rcv[r.Rcv], clienttypes.NewHeight(1, 1_000_000), 0, w.memo[r.Memo]))
	}
	ex := authz.NewMsgExec(w.grantee.Addr, msgs)
	_, err := sendAs(w.A, w.get, w.grantee, &ex)
	return resClass(err)
}

// State projects the stored authorization and the granter's balances.
func (w *AuthzWorld) State() AzGrant {
	ctx := w.A.GetContext()
	app := w.A.GetSimApp()
	st := AzGrant{Al: map[string]AzAlloc{}, Bal: map[string]int64{}}
	for _, c := range azChans {
		st.Al[c] = AzAlloc{Lim: map[string]int64{"x": 0, "y": 0}, Allow: []string{}, Memos: []string{}}
	}
	for _, d := range azDenoms {
		st.Bal[d] = capInt(app.BankKeeper.GetBalance(ctx, w.granter.Addr, w.denom[d]))
	}
	a, _ := app.AuthzKeeper.GetAuthorization(ctx, w.grantee.Addr, w.granter.Addr, sdk.MsgTypeURL(&transfertypes.MsgTransfer{}))
	ta, ok := a.(*transfertypes.TransferAuthorization)
	if a == nil || !ok {
		return st
	}
	st.Grant = true
	for _, al := range ta.Allocations {
		c, known := w.chanAbs[al.SourceChannel]
		if !known || al.SourcePort != transfertypes.PortID {
			c = "c?" // cannot be produced by the schedules; TLC's sanity monitor would flag it
		}
		out := AzAlloc{On: true, Lim: map[string]int64{"x": 0, "y": 0}, Allow: []string{}, Memos: []string{}}
		for _, coin := range al.SpendLimit {
			d, ok := w.denomAbs[coin.Denom]
			if !ok {
				continue
			}
			if coin.Amount.Equal(transfertypes.UnboundedSpendLimit()) {
				out.Lim[d] = -1
			} else {
				out.Lim[d] = capInt(coin)
			}
		}
		for _, r := range al.AllowList {
			if abs, ok := w.rcvAbs[r]; ok {
				out.Allow = append(out.Allow, abs)
			} else {
				out.Allow = append(out.Allow, "?"+r)
			}
		}
		for _, m := range al.AllowedPacketData {
			if abs, ok := w.memoAbs[m]; ok {
				out.Memos = append(out.Memos, abs)
			} else {
				out.Memos = append(out.Memos, "?"+m)
			}
		}
		sort.Strings(out.Allow)
		sort.Strings(out.Memos)
		st.Al[c] = out
	}
	return st
}
