package authapps

import (
	"bytes"
	"crypto/sha256"
	"encoding/json"
	"fmt"
	"math"
	"math/rand"
	"strconv"
	"strings"
	"testing"
	"time"

	dbm "github.com/cosmos/cosmos-db"
	"github.com/cosmos/gogoproto/proto"

	"cosmossdk.io/log/v2"
	sdkmath "cosmossdk.io/math"

	storetypes "github.com/cosmos/cosmos-sdk/store/v2/types"
	simtestutil "github.com/cosmos/cosmos-sdk/testutil/sims"
	sdk "github.com/cosmos/cosmos-sdk/types"

	abci "github.com/cometbft/cometbft/abci/types"
	cmtproto "github.com/cometbft/cometbft/proto/tendermint/types"

	cbsimapp "github.com/cosmos/ibc-go/v11/modules/apps/callbacks/testing/simapp"
	callbacktypes "github.com/cosmos/ibc-go/v11/modules/apps/callbacks/types"
	transfertypes "github.com/cosmos/ibc-go/v11/modules/apps/transfer/types"
	clienttypes "github.com/cosmos/ibc-go/v11/modules/core/02-client/types"
	channeltypes "github.com/cosmos/ibc-go/v11/modules/core/04-channel/types"
	channeltypesv2 "github.com/cosmos/ibc-go/v11/modules/core/04-channel/v2/types"
	host "github.com/cosmos/ibc-go/v11/modules/core/24-host"
	hostv2 "github.com/cosmos/ibc-go/v11/modules/core/24-host/v2"
	ibcexported "github.com/cosmos/ibc-go/v11/modules/core/exported"
	ibctesting "github.com/cosmos/ibc-go/v11/testing"
	ibcmock "github.com/cosmos/ibc-go/v11/testing/mock"

	"verif/harness/lib"
)

// ---- case / trace shapes (spec/authapps/Callbacks.tla) ---------------------------------------------

type CbCase struct {
	ID      string `json:"id"`
	Type    string `json:"type"`
	Beh     string `json:"beh"`
	Proto   string `json:"proto"`
	User    string `json:"user"`   // class: absent | empty | zero | lo | eq | eqp1 | hi
	RemCls  string `json:"remcls"` // below | above (relayer gas relative to the committed limit) | ample (above the requested limit)
	AckKind string `json:"ackKind"`
}

type CbAct struct {
	Type    string `json:"type"`
	Beh     string `json:"beh"`
	Proto   string `json:"proto"`
	UserCls string `json:"userCls"`
	RemCls  string `json:"remcls"`
	AckKind string `json:"ackKind"`
	User    int64  `json:"user"` // requested gas limit as written into the memo
	Max     int64  `json:"max"`  // maxCallbackGas of the test application
	Gas     int64  `json:"gas"`  // gas limit of the transaction chosen by the driver
}

type CbObs struct {
	Called  bool  `json:"called"`  // the contract was entered
	Lim     int64 `json:"lim"`     // gas limit of the context the contract ran in
	Rem     int64 `json:"rem"`     // gas remaining in the transaction when the callback was reached
	Charged int64 `json:"charged"` // gas charged to the transaction for the callback
	Calls   int   `json:"calls"`
}

type CbState struct {
	Commitment bool   `json:"commitment"`
	Sbal       int64  `json:"sbal"`
	Esc        int64  `json:"esc"`
	Receipt    bool   `json:"receipt"`
	Ack        string `json:"ack"`
	Rbal       int64  `json:"rbal"`
	CntA       int64  `json:"cntA"`
	CntB       int64  `json:"cntB"`
	DigA       string `json:"digA"`
	DigB       string `json:"digB"`
}

type CbLine struct {
	Tr   string  `json:"tr"`
	I    int     `json:"i"`
	A    any     `json:"a"`
	Res  string  `json:"res"`
	Err  string  `json:"err,omitempty"`
	Prep string  `json:"prep"`
	Obs  CbObs   `json:"obs"`
	St   CbState `json:"st"`
}

const (
	cbMax = 1_000_000 // maxCallbackGas hard-wired in modules/apps/callbacks/testing/simapp/app.go
	cbAmt = 100
)

// ---- observation: outer gas meter spy + contract hook ------------------------------------------------

type gasEvent struct {
	before, amount, limit uint64
	desc                  string
}

var spyLog = map[string][]gasEvent{} // chain id -> callback charges of the transaction being executed

// spyMeter wraps the transaction's gas meter and records the charge ProcessCallback makes for a callback.
type spyMeter struct {
	storetypes.GasMeter
	chain string
}

func (s *spyMeter) ConsumeGas(amount storetypes.Gas, descriptor string) {
	if strings.HasPrefix(descriptor, "ibc ") && strings.HasSuffix(descriptor, " callback") {
		spyLog[s.chain] = append(spyLog[s.chain], gasEvent{before: s.GasMeter.GasConsumed(), amount: amount, limit: s.GasMeter.Limit(), desc: descriptor})
	}
	s.GasMeter.ConsumeGas(amount, descriptor)
}

type hookEvent struct {
	chain string
	typ   string
	limit uint64
}

var hookLog []hookEvent

// directCall is set while the driver itself plays the transaction (write-ack cases): the context then has no exec mode
var directCall bool

// setupCbApp builds the callbacks test application; its ante handler chain is wrapped so that the gas meter the
// messages run with is observable (nothing else changes).
func setupCbApp() (ibctesting.TestingApp, map[string]json.RawMessage) {
	db := dbm.NewMemDB()
	app := cbsimapp.NewSimApp(log.NewNopLogger(), db, nil, false, simtestutil.EmptyAppOptions{})
	inner := app.AnteHandler()
	app.SetAnteHandler(func(ctx sdk.Context, tx sdk.Tx, simulate bool) (sdk.Context, error) {
		newCtx, err := inner(ctx, tx, simulate)
		if err == nil && !simulate {
			newCtx = newCtx.WithGasMeter(&spyMeter{GasMeter: newCtx.GasMeter(), chain: ctx.ChainID()})
		}
		return newCtx, err
	})
	if err := app.LoadLatestVersion(); err != nil {
		panic(err)
	}
	return app, app.DefaultGenesis()
}

func cbApp(chain *ibctesting.TestChain) *cbsimapp.SimApp { return chain.App.(*cbsimapp.SimApp) }

func absType(t callbacktypes.CallbackType) string {
	switch t {
	case callbacktypes.CallbackTypeSendPacket:
		return "send"
	case callbacktypes.CallbackTypeAcknowledgementPacket:
		return "ack"
	case callbacktypes.CallbackTypeTimeoutPacket:
		return "timeout"
	case callbacktypes.CallbackTypeReceivePacket:
		return "recv" // also the asynchronous write-ack callback
	}
	return string(t)
}

// contract is the per-address behaviour of the mock contract (testing/simapp/contract_keeper.go ProcessMockCallback),
// scoped to one callback type: the address is "<type>:<behaviour>".
func contract(k *cbsimapp.ContractKeeper, ctx sdk.Context, typ callbacktypes.CallbackType, addr string) (err error) {
	t := absType(typ)
	if ctx.ExecMode() == sdk.ExecModeFinalize || directCall {
		hookLog = append(hookLog, hookEvent{chain: ctx.ChainID(), typ: t, limit: ctx.GasMeter().Limit()})
	}
	gasRemaining := ctx.GasMeter().GasRemaining()
	k.IncrementStateEntryCounter(ctx) // the contract's own state write
	k.Counters[typ]++
	beh := "ok"
	if parts := strings.SplitN(addr, ":", 2); len(parts) == 2 && (parts[0] == t || (parts[0] == "writeAck" && t == "recv")) {
		beh = parts[1]
	}
	switch beh {
	case "err":
		ctx.GasMeter().ConsumeGas(gasRemaining/2, "mock callback error")
		return ibcmock.MockApplicationCallbackError
	case "oog":
		ctx.GasMeter().ConsumeGas(gasRemaining+1, "mock callback oog panic")
		return nil
	case "oogerr":
		defer func() {
			_ = recover()
			err = ibcmock.MockApplicationCallbackError
		}()
		ctx.GasMeter().ConsumeGas(gasRemaining+1, "mock callback oog error")
		return nil
	case "panic":
		ctx.GasMeter().ConsumeGas(gasRemaining/2, "mock callback panic")
		panic(ibcmock.MockApplicationCallbackError)
	}
	ctx.GasMeter().ConsumeGas(gasRemaining/2, "mock callback success")
	return nil
}

func installContract(chain *ibctesting.TestChain) {
	k := cbApp(chain).MockContractKeeper
	k.IBCSendPacketCallbackFn = func(ctx sdk.Context, _, _ string, _ clienttypes.Height, _ uint64, _ []byte, addr, _, _ string) error {
		return contract(k, ctx, callbacktypes.CallbackTypeSendPacket, addr)
	}
	k.IBCOnAcknowledgementPacketCallbackFn = func(ctx sdk.Context, _ channeltypes.Packet, _ []byte, _ sdk.AccAddress, addr, _, _ string) error {
		return contract(k, ctx, callbacktypes.CallbackTypeAcknowledgementPacket, addr)
	}
	k.IBCOnTimeoutPacketCallbackFn = func(ctx sdk.Context, _ channeltypes.Packet, _ sdk.AccAddress, addr, _, _ string) error {
		return contract(k, ctx, callbacktypes.CallbackTypeTimeoutPacket, addr)
	}
	k.IBCReceivePacketCallbackFn = func(ctx sdk.Context, _ ibcexported.PacketI, _ ibcexported.Acknowledgement, addr, _ string) error {
		return contract(k, ctx, callbacktypes.CallbackTypeReceivePacket, addr)
	}
}

// ---- world ---------------------------------------------------------------------------------------------

type CbWorld struct {
	t      *testing.T
	coord  *ibctesting.Coordinator
	A, B   *ibctesting.TestChain
	p1, p2 *ibctesting.Path // v1 transfer channel, v2 client pair
	getA   accountGetter
	getB   accountGetter

	prefix map[string]int64 // calibrated gas consumed before the callback, per type/proto/ackKind

	// current case
	proto    string
	sb0, rb0 sdkmath.Int
	eb0      sdkmath.Int
	escrow   sdk.AccAddress
	pktV1    *channeltypes.Packet
	pktV2    *channeltypesv2.Packet
	asyncSeq uint64
	voucher  string
}

func NewCbWorld(t *testing.T) *CbWorld {
	w := &CbWorld{t: t, prefix: map[string]int64{}, asyncSeq: 1000}
	w.coord = ibctesting.NewCustomAppCoordinator(t, 2, setupCbApp)
	w.A = w.coord.GetChain(ibctesting.GetChainID(1))
	w.B = w.coord.GetChain(ibctesting.GetChainID(2))
	w.getA = func(ctx sdk.Context, addr sdk.AccAddress) sdk.AccountI {
		return cbApp(w.A).AccountKeeper.GetAccount(ctx, addr)
	}
	w.getB = func(ctx sdk.Context, addr sdk.AccAddress) sdk.AccountI {
		return cbApp(w.B).AccountKeeper.GetAccount(ctx, addr)
	}
	w.p1 = ibctesting.NewTransferPath(w.A, w.B)
	w.p1.Setup()
	w.p2 = ibctesting.NewPath(w.A, w.B)
	w.p2.SetupV2()
	installContract(w.A)
	installContract(w.B)
	return w
}

func (w *CbWorld) sender() string   { return w.A.SenderAccount.GetAddress().String() }
func (w *CbWorld) receiver() string { return w.B.SenderAccount.GetAddress().String() }

func userValue(cls string) int64 {
	switch cls {
	case "lo":
		return 200_000
	case "eq":
		return cbMax
	case "eqp1":
		return cbMax + 1
	case "hi":
		return 2 * cbMax
	}
	return 0
}

func memoFor(c CbCase) string {
	key := "src_callback"
	if c.Type == "recv" || c.Type == "writeAck" {
		key = "dest_callback"
	}
	addr := c.Type + ":" + c.Beh
	switch c.User {
	case "absent":
		return fmt.Sprintf(`{"%s": {"address": "%s"}}`, key, addr)
	case "empty":
		return fmt.Sprintf(`{"%s": {"address": "%s", "gas_limit": ""}}`, key, addr)
	}
	return fmt.Sprintf(`{"%s": {"address": "%s", "gas_limit": "%d"}}`, key, addr, userValue(c.User))
}

// deliverGas delivers msgs as one transaction with the given gas limit, signed by the chain's default account,
// and commits the block (the bookkeeping of ibctesting's TestChain.commitBlock is repeated with public fields).
func deliverGas(chain *ibctesting.TestChain, get accountGetter, gas uint64, msgs ...sdk.Msg) (res *abci.ExecTxResult, err error) {
	defer func() {
		if r := recover(); r != nil {
			res, err = nil, fmt.Errorf("panic: %v", r)
		}
	}()
	acc := get(chain.GetContext(), chain.SenderAccount.GetAddress())
	chain.Coordinator.UpdateTimeForChain(chain)
	tx, err := simtestutil.GenSignedMockTx(rand.New(rand.NewSource(7)), chain.TxConfig, msgs, sdk.Coins{sdk.NewInt64Coin(sdk.DefaultBondDenom, 0)},
		gas, chain.ChainID, []uint64{acc.GetAccountNumber()}, []uint64{acc.GetSequence()}, chain.SenderPrivKey)
	if err != nil {
		return nil, err
	}
	bz, err := chain.TxConfig.TxEncoder()(tx)
	if err != nil {
		return nil, err
	}
	resp, err := chain.App.GetBaseApp().FinalizeBlock(&abci.RequestFinalizeBlock{
		Height: chain.App.LastBlockHeight() + 1, Time: chain.ProposedHeader.GetTime(), NextValidatorsHash: chain.NextVals.Hash(), Txs: [][]byte{bz}})
	if err != nil {
		return nil, err
	}
	if _, err := chain.App.Commit(); err != nil {
		return nil, err
	}
	chain.LatestCommittedHeader = chain.CurrentTMClientHeader()
	chain.TrustedValidators[uint64(chain.ProposedHeader.Height)] = chain.NextVals
	chain.Vals = chain.NextVals
	chain.NextVals = ibctesting.ApplyValSetChanges(chain, chain.Vals, resp.ValidatorUpdates)
	chain.Vals.IncrementProposerPriority(1)
	chain.ProposedHeader = cmtproto.Header{
		ChainID: chain.ChainID, Height: chain.App.LastBlockHeight() + 1, AppHash: chain.App.LastCommitID().Hash,
		Time: chain.ProposedHeader.Time, ValidatorsHash: chain.Vals.Hash(), NextValidatorsHash: chain.NextVals.Hash(),
		ProposerAddress: chain.Vals.Proposer.Address,
	}
	chain.Coordinator.IncrementTime()
	// an empty block through ibctesting resets its private "next block context" flag
	chain.NextBlock()
	resync(chain, get)
	if len(resp.TxResults) != 1 {
		return nil, fmt.Errorf("expected one tx result")
	}
	r := resp.TxResults[0]
	if r.Code != 0 {
		return r, fmt.Errorf("%s/%d: %q", r.Codespace, r.Code, r.Log)
	}
	return r, nil
}

func sha(b ...[]byte) []byte {
	h := sha256.New()
	for _, x := range b {
		h.Write(x)
	}
	return h.Sum(nil)
}

var successAckBytes = channeltypes.NewResultAcknowledgement([]byte{byte(1)}).Acknowledgement()

func (w *CbWorld) digest(chain *ibctesting.TestChain) string {
	ctx := chain.GetContext()
	app := cbApp(chain)
	h := sha256.New()
	// (the bank store changes in every block through minting: balances are projected individually instead)
	for _, key := range []string{ibcexported.StoreKey, transfertypes.StoreKey} {
		h.Write([]byte(lib.DigestOf(ctx, app.GetKey(key))))
	}
	h.Write([]byte(lib.DigestOf(ctx, app.GetMemKey(ibcmock.MemStoreKey))))
	return lib.Hex(h.Sum(nil))[:16]
}

func rel(a, b sdkmath.Int) int64 {
	d := a.Sub(b)
	if !d.IsInt64() {
		return math.MaxInt32
	}
	return d.Int64()
}

// State projects the life cycle of the current packet, the balances and the contract counters.
func (w *CbWorld) State() CbState {
	ctxA, ctxB := w.A.GetContext(), w.B.GetContext()
	appA, appB := cbApp(w.A), cbApp(w.B)
	st := CbState{Ack: "none"}
	st.Sbal = rel(appA.BankKeeper.GetBalance(ctxA, w.A.SenderAccount.GetAddress(), sdk.DefaultBondDenom).Amount, w.sb0)
	st.Esc = rel(appA.BankKeeper.GetBalance(ctxA, w.escrow, sdk.DefaultBondDenom).Amount, w.eb0)
	st.Rbal = rel(appB.BankKeeper.GetBalance(ctxB, w.B.SenderAccount.GetAddress(), w.voucher).Amount, w.rb0)
	st.CntA = int64(appA.MockContractKeeper.GetStateEntryCounter(ctxA))
	st.CntB = int64(appB.MockContractKeeper.GetStateEntryCounter(ctxB))
	var stored []byte
	switch {
	case w.pktV1 != nil:
		p := w.pktV1
		st.Commitment = appA.IBCKeeper.ChannelKeeper.HasPacketCommitment(ctxA, p.SourcePort, p.SourceChannel, p.Sequence)
		_, st.Receipt = appB.IBCKeeper.ChannelKeeper.GetPacketReceipt(ctxB, p.DestinationPort, p.DestinationChannel, p.Sequence)
		stored, _ = appB.IBCKeeper.ChannelKeeper.GetPacketAcknowledgement(ctxB, p.DestinationPort, p.DestinationChannel, p.Sequence)
		if len(stored) > 0 {
			st.Ack = "err"
			if bytes.Equal(stored, sha(successAckBytes)) {
				st.Ack = "succ"
			}
		}
	case w.pktV2 != nil:
		p := w.pktV2
		st.Commitment = len(appA.IBCKeeper.ChannelKeeperV2.GetPacketCommitment(ctxA, p.SourceClient, p.Sequence)) > 0
		st.Receipt = appB.IBCKeeper.ChannelKeeperV2.HasPacketReceipt(ctxB, p.DestinationClient, p.Sequence)
		stored = appB.IBCKeeper.ChannelKeeperV2.GetPacketAcknowledgement(ctxB, p.DestinationClient, p.Sequence)
		if len(stored) > 0 {
			st.Ack = "err"
			if bytes.Equal(stored, sha([]byte{2}, sha(successAckBytes))) {
				st.Ack = "succ"
			}
		}
	}
	st.DigA, st.DigB = w.digest(w.A), w.digest(w.B)
	return st
}

func commitOf(user int64) int64 { // the driver's own choice of inputs (which gas class to aim at), not a judgement
	if user == 0 || user > cbMax {
		return cbMax
	}
	return user
}

func (w *CbWorld) gasFor(c CbCase) int64 {
	pre, ok := w.prefix[c.Type+"/"+c.Proto+"/"+c.AckKind]
	if !ok {
		return 10_000_000
	}
	commit := commitOf(userValue(c.User))
	switch c.RemCls {
	case "below":
		return pre + commit/2
	case "ample": // above the REQUESTED limit (which may exceed the chain maximum): max < user <= remaining
		return pre + max(commit, userValue(c.User)) + 300_000
	}
	return pre + commit + 300_000
}

func (w *CbWorld) transferMsgV1(memo, receiver string, timeoutNs uint64) *transfertypes.MsgTransfer {
	th := clienttypes.NewHeight(1, 1_000_000)
	if timeoutNs != 0 {
		th = clienttypes.ZeroHeight()
	}
	return transfertypes.NewMsgTransfer(w.p1.EndpointA.ChannelConfig.PortID, w.p1.EndpointA.ChannelID, sdk.NewInt64Coin(sdk.DefaultBondDenom, cbAmt),
		w.sender(), receiver, th, timeoutNs, memo)
}

func (w *CbWorld) sendMsgV2(memo, receiver string, timeoutSec uint64) *channeltypesv2.MsgSendPacket {
	data := transfertypes.NewFungibleTokenPacketData(sdk.DefaultBondDenom, strconv.Itoa(cbAmt), w.sender(), receiver, memo)
	bz, err := transfertypes.MarshalPacketData(data, transfertypes.V1, transfertypes.EncodingJSON)
	if err != nil {
		panic(err)
	}
	pl := channeltypesv2.NewPayload(transfertypes.PortID, transfertypes.PortID, transfertypes.V1, transfertypes.EncodingJSON, bz)
	return channeltypesv2.NewMsgSendPacket(w.p2.EndpointA.ClientID, timeoutSec, w.sender(), pl)
}

func v2PacketOf(msg *channeltypesv2.MsgSendPacket, res *abci.ExecTxResult, dst string) (*channeltypesv2.Packet, error) {
	var msgData sdk.TxMsgData
	if err := proto.Unmarshal(res.Data, &msgData); err != nil {
		return nil, err
	}
	var resp channeltypesv2.MsgSendPacketResponse
	if err := proto.Unmarshal(msgData.MsgResponses[0].Value, &resp); err != nil {
		return nil, err
	}
	p := channeltypesv2.NewPacket(resp.Sequence, msg.SourceClient, dst, msg.TimeoutTimestamp, msg.Payloads...)
	return &p, nil
}

func (w *CbWorld) observe(chain *ibctesting.TestChain, typ string) CbObs {
	o := CbObs{}
	for _, h := range hookLog {
		if h.chain == chain.ChainID && h.typ == typ {
			o.Called = true
			o.Calls++
			o.Lim = clamp(h.limit)
		}
	}
	for _, e := range spyLog[chain.ChainID] {
		o.Rem = clamp(e.limit - e.before)
		o.Charged = clamp(e.amount)
	}
	return o
}

func clamp(v uint64) int64 {
	if v > 2_000_000_000 {
		return 2_000_000_000
	}
	return int64(v)
}

func clearObs() {
	hookLog = nil
	for k := range spyLog {
		delete(spyLog, k)
	}
}

// Run executes one case: honest set-up transactions bring the packet to the point where the transaction under test
// triggers the callback; `emit` receives the Init line (pre-state) and the line of the transaction under test.
func (w *CbWorld) Run(c CbCase, emit func(CbLine)) {
	prep := ""
	fail := func(stage string, err error) {
		prep = stage + ": " + err.Error()
	}
	w.proto = c.Proto
	w.pktV1, w.pktV2 = nil, nil
	ctxA, ctxB := w.A.GetContext(), w.B.GetContext()
	ep := w.p1
	if c.Proto == "v2" {
		ep = w.p2
		w.voucher = transfertypes.NewDenom(sdk.DefaultBondDenom, transfertypes.NewHop(transfertypes.PortID, ep.EndpointB.ClientID)).IBCDenom()
	} else {
		w.voucher = transfertypes.NewDenom(sdk.DefaultBondDenom, transfertypes.NewHop(ep.EndpointB.ChannelConfig.PortID, ep.EndpointB.ChannelID)).IBCDenom()
	}
	w.escrow = transfertypes.GetEscrowAddress(transfertypes.PortID, ep.EndpointA.ChannelID)
	if c.Proto == "v2" {
		w.escrow = transfertypes.GetEscrowAddress(transfertypes.PortID, ep.EndpointA.ClientID)
	}
	w.eb0 = cbApp(w.A).BankKeeper.GetBalance(ctxA, w.escrow, sdk.DefaultBondDenom).Amount
	w.sb0 = cbApp(w.A).BankKeeper.GetBalance(ctxA, w.A.SenderAccount.GetAddress(), sdk.DefaultBondDenom).Amount
	w.rb0 = cbApp(w.B).BankKeeper.GetBalance(ctxB, w.B.SenderAccount.GetAddress(), w.voucher).Amount

	memo := memoFor(c)
	receiver := w.receiver()
	if c.Type == "ack" && c.AckKind == "err" {
		receiver = "not-a-bech32-address" // the receive fails on B: error acknowledgement, refund on A
	}
	gas := w.gasFor(c)
	act := CbAct{Type: c.Type, Beh: c.Beh, Proto: c.Proto, UserCls: c.User, RemCls: c.RemCls, AckKind: c.AckKind, User: userValue(c.User), Max: cbMax, Gas: gas}

	var (
		chain  = w.A
		get    = w.getA
		msg    sdk.Msg
		direct func() (string, string) // write-ack: no message type reaches it in this application
	)
	func() {
		defer func() {
			if r := recover(); r != nil {
				prep = fmt.Sprintf("panic in set-up: %v", r)
			}
			resync(w.A, w.getA)
			resync(w.B, w.getB)
		}()
		timeoutNs, timeoutSec := uint64(0), uint64(w.coord.CurrentTime.Unix()+3600)
		if c.Type == "timeout" {
			timeoutNs = uint64(w.coord.CurrentTime.Add(40 * time.Second).UnixNano())
			timeoutSec = uint64(w.coord.CurrentTime.Unix() + 40)
		}
		var sendMsg sdk.Msg
		var v2msg *channeltypesv2.MsgSendPacket
		if c.Proto == "v1" {
			sendMsg = w.transferMsgV1(memo, receiver, timeoutNs)
		} else {
			v2msg = w.sendMsgV2(memo, receiver, timeoutSec)
			sendMsg = v2msg
		}
		if c.Type == "send" {
			msg = sendMsg
			return
		}
		if c.Type == "writeAck" {
			// a packet B received asynchronously: the application writes the acknowledgement later through the callbacks middleware
			w.asyncSeq++
			data := transfertypes.NewFungibleTokenPacketData(sdk.DefaultBondDenom, strconv.Itoa(cbAmt), w.sender(), receiver, memo)
			p := channeltypes.NewPacket(data.GetBytes(), w.asyncSeq, ep.EndpointA.ChannelConfig.PortID, ep.EndpointA.ChannelID,
				ep.EndpointB.ChannelConfig.PortID, ep.EndpointB.ChannelID, clienttypes.NewHeight(1, 1_000_000), 0)
			w.pktV1 = &p
			chain, get = w.B, w.getB
			direct = func() (string, string) { return w.writeAckDirect(p, uint64(gas)) }
			return
		}
		// send honestly (the send callback of this packet succeeds: the contract address targets another type)
		res, err := w.A.SendMsgs(sendMsg)
		if err != nil {
			fail("send", err)
			return
		}
		if c.Proto == "v1" {
			p, err := ibctesting.ParseV1PacketFromEvents(res.Events)
			if err != nil {
				fail("parse packet", err)
				return
			}
			w.pktV1 = &p
		} else {
			p, err := v2PacketOf(v2msg, res, ep.EndpointB.ClientID)
			if err != nil {
				fail("parse packet", err)
				return
			}
			w.pktV2 = p
		}
		signerA, signerB := w.sender(), w.receiver()
		switch c.Type {
		case "recv":
			if err := ep.EndpointB.UpdateClient(); err != nil {
				fail("update client B", err)
				return
			}
			chain, get = w.B, w.getB
			if c.Proto == "v1" {
				proof, ph := ep.EndpointA.QueryProof(host.PacketCommitmentKey(w.pktV1.SourcePort, w.pktV1.SourceChannel, w.pktV1.Sequence))
				msg = channeltypes.NewMsgRecvPacket(*w.pktV1, proof, ph, signerB)
			} else {
				proof, ph := ep.EndpointA.QueryProof(hostv2.PacketCommitmentKey(w.pktV2.SourceClient, w.pktV2.Sequence))
				msg = channeltypesv2.NewMsgRecvPacket(*w.pktV2, proof, ph, signerB)
			}
		case "ack":
			if err := ep.EndpointB.UpdateClient(); err != nil {
				fail("update client B", err)
				return
			}
			if c.Proto == "v1" {
				r, err := ep.EndpointB.RecvPacketWithResult(*w.pktV1)
				if err != nil {
					fail("recv", err)
					return
				}
				ack, err := ibctesting.ParseAckFromEvents(r.Events)
				if err != nil {
					fail("parse ack", err)
					return
				}
				if err := ep.EndpointA.UpdateClient(); err != nil {
					fail("update client A", err)
					return
				}
				proof, ph := ep.EndpointB.QueryProof(host.PacketAcknowledgementKey(w.pktV1.DestinationPort, w.pktV1.DestinationChannel, w.pktV1.Sequence))
				msg = channeltypes.NewMsgAcknowledgement(*w.pktV1, ack, proof, ph, signerA)
			} else {
				ack, err := ep.EndpointB.MsgRecvPacketWithAck(*w.pktV2) // also updates A's client
				if err != nil {
					fail("recv", err)
					return
				}
				proof, ph := ep.EndpointB.QueryProof(hostv2.PacketAcknowledgementKey(w.pktV2.DestinationClient, w.pktV2.Sequence))
				msg = channeltypesv2.NewMsgAcknowledgement(*w.pktV2, ack, proof, ph, signerA)
			}
		case "timeout":
			w.coord.IncrementTimeBy(90 * time.Second)
			w.B.NextBlock()
			if err := ep.EndpointA.UpdateClient(); err != nil {
				fail("update client A", err)
				return
			}
			if c.Proto == "v1" {
				proof, ph := ep.EndpointB.QueryProof(host.PacketReceiptKey(w.pktV1.DestinationPort, w.pktV1.DestinationChannel, w.pktV1.Sequence))
				msg = channeltypes.NewMsgTimeout(*w.pktV1, 1, proof, ph, signerA)
			} else {
				proof, ph := ep.EndpointB.QueryProof(hostv2.PacketReceiptKey(w.pktV2.DestinationClient, w.pktV2.Sequence))
				msg = channeltypesv2.NewMsgTimeout(*w.pktV2, proof, ph, signerA)
			}
		}
	}()

	emit(CbLine{Tr: c.ID, I: 0, A: map[string]string{"type": "Init", "for": c.Type, "ackKind": c.AckKind}, Res: "ok", Prep: prep, St: w.State()})
	if prep != "" {
		return
	}
	clearObs()
	var res, errStr string
	var r *abci.ExecTxResult
	if direct != nil {
		res, errStr = direct()
	} else {
		var err error
		r, err = deliverGas(chain, get, uint64(gas), msg)
		res, errStr = resClass(err)
	}
	// for a send the packet only exists now
	if c.Type == "send" && r != nil && res == "ok" {
		if c.Proto == "v1" {
			if p, err := ibctesting.ParseV1PacketFromEvents(r.Events); err == nil {
				w.pktV1 = &p
			}
		} else if p, err := v2PacketOf(msg.(*channeltypesv2.MsgSendPacket), r, ep.EndpointB.ClientID); err == nil {
			w.pktV2 = p
		}
	}
	obsType := c.Type
	if obsType == "writeAck" {
		obsType = "recv"
	}
	emit(CbLine{Tr: c.ID, I: 1, A: act, Res: res, Err: errStr, Obs: w.observe(chain, obsType), St: w.State()})
}

// writeAckDirect plays the role of a transaction of B's application that acknowledges an asynchronously received packet:
// gas-limited context, cached store, out-of-gas panic recovered and everything discarded (as baseapp.runTx does).
func (w *CbWorld) writeAckDirect(p channeltypes.Packet, gas uint64) (res string, errStr string) {
	ctx := w.B.GetContext()
	meter := &spyMeter{GasMeter: storetypes.NewGasMeter(gas), chain: w.B.ChainID}
	cctx, write := ctx.WithGasMeter(meter).CacheContext()
	ics4 := cbApp(w.B).TransferKeeper.GetICS4Wrapper()
	directCall = true
	func() {
		defer func() {
			directCall = false
			if r := recover(); r != nil {
				res, errStr = "err", fmt.Sprintf("panic: %v", r)
			}
		}()
		if err := ics4.WriteAcknowledgement(cctx, p, channeltypes.NewResultAcknowledgement([]byte{byte(1)})); err != nil {
			res, errStr = "err", err.Error()
			return
		}
		res = "ok"
	}()
	if res == "ok" {
		write()
	}
	w.B.NextBlock()
	return res, errStr
}

// Calibrate measures, with one successful callback per (type, protocol, acknowledgement kind), how much gas the
// transaction has consumed when the callback is reached, so that the driver can aim below / above the committed limit.
func (w *CbWorld) Calibrate(cases []CbCase) error {
	seen := map[string]bool{}
	for _, c := range cases {
		key := c.Type + "/" + c.Proto + "/" + c.AckKind
		if seen[key] {
			continue
		}
		seen[key] = true
		cal := CbCase{ID: "calibration", Type: c.Type, Beh: "ok", Proto: c.Proto, User: "absent", RemCls: "above", AckKind: c.AckKind}
		var last CbLine
		w.Run(cal, func(l CbLine) { last = l })
		if last.Prep != "" || !last.Obs.Called || last.Res != "ok" {
			return fmt.Errorf("calibration of %s failed: prep=%q res=%s err=%s obs=%+v", key, last.Prep, last.Res, last.Err, last.Obs)
		}
		w.prefix[key] = 10_000_000 - last.Obs.Rem
	}
	return nil
}

// ---- function level: types.GetCallbackData over scaled (remaining, user, max) triples -------------------

type FnCase struct {
	ID   string `json:"id"`
	Rem  int    `json:"rem"`
	User int    `json:"user"`
	Max  int    `json:"max"`
}

type FnLine struct {
	Tr     string `json:"tr"`
	I      int    `json:"i"`
	Rem    int    `json:"rem"`
	User   int    `json:"user"`
	Max    int    `json:"max"`
	Scale  int    `json:"scale"`
	Enc    string `json:"enc"`
	Res    string `json:"res"`
	Exec   int    `json:"exec"`   // rank of the returned ExecutionGasLimit in the scale (-1: not a value of the scale)
	Commit int    `json:"commit"` // rank of the returned CommitGasLimit
	Retry  bool   `json:"retry"`  // CallbackData.AllowRetry()
}

// increasing scales instantiating the abstract ranks 0..4 (adjacent values and 64-bit boundaries included)
var fnScales = [][]uint64{
	{0, 1, 2, 3, 4},
	{0, 99_999, 100_000, 100_001, 1 << 62},
	{0, 1<<53 - 1, 1 << 53, 1<<53 + 1, math.MaxUint64},
	{0, 1, 1_000_000, 1_000_001, math.MaxUint64 - 1},
	{0, 1<<63 - 1, 1 << 63, 1<<63 + 1, math.MaxUint64},
}

type fnPacketData struct{ cb map[string]any }

func (d fnPacketData) GetCustomPacketData(key string) any {
	if key == callbacktypes.SourceCallbackKey {
		return d.cb
	}
	return nil
}

func rank(scale []uint64, v uint64) int {
	for i, x := range scale {
		if x == v {
			return i
		}
	}
	return -1
}

func RunFn(cases []FnCase, emit func(FnLine)) {
	for _, c := range cases {
		n := 0
		for si, scale := range fnScales {
			if c.Rem >= len(scale) || c.User >= len(scale) || c.Max >= len(scale) {
				continue
			}
			encs := []string{"decimal"}
			if c.User == 0 {
				encs = []string{"decimal", "absent", "empty"}
			}
			for _, enc := range encs {
				cb := map[string]any{callbacktypes.CallbackAddressKey: "contract"}
				switch enc {
				case "decimal":
					cb[callbacktypes.UserDefinedGasLimitKey] = strconv.FormatUint(scale[c.User], 10)
				case "empty":
					cb[callbacktypes.UserDefinedGasLimitKey] = ""
				}
				n++
				line := FnLine{Tr: c.ID, I: n, Rem: c.Rem, User: c.User, Max: c.Max, Scale: si, Enc: enc, Exec: -1, Commit: -1}
				func() {
					defer func() {
						if r := recover(); r != nil {
							line.Res = "panic"
						}
					}()
					data, isCb, err := callbacktypes.GetCallbackData(fnPacketData{cb}, "ics20-1", "transfer", scale[c.Rem], scale[c.Max], callbacktypes.SourceCallbackKey)
					if err != nil || !isCb {
						line.Res = "err"
						return
					}
					line.Res = "ok"
					line.Exec, line.Commit, line.Retry = rank(scale, data.ExecutionGasLimit), rank(scale, data.CommitGasLimit), data.AllowRetry()
				}()
				emit(line)
			}
		}
	}
}
