package funcsA

import (
	"crypto/sha256"
	"encoding/binary"
	"encoding/hex"
	"encoding/json"
	"fmt"

	clienttypes "github.com/cosmos/ibc-go/v11/modules/core/02-client/types"
	channeltypes "github.com/cosmos/ibc-go/v11/modules/core/04-channel/types"
	channeltypesv2 "github.com/cosmos/ibc-go/v11/modules/core/04-channel/v2/types"
)

// ---- C07: commitments ------------------------------------------------------------------------
//
// Every case carries the commitment TERM computed by TLC from spec/funcsA/Commitments.tla.  The term is
// evaluated here by an evaluator that shares nothing with the functions under test (crypto/sha256,
// encoding/binary, append); the real CommitPacket / CommitAcknowledgement are called on the same field
// values.  Both byte strings are recorded; TLC compares them.

// Term is a commitment term: H(x) | BE64(n) | Bytes(s) | Byte(b) | Cat(xs).
type Term struct {
	K  string  `json:"k"`
	X  *Term   `json:"x,omitempty"`
	N  Num     `json:"n,omitempty"`
	S  *string `json:"s,omitempty"`
	B  int     `json:"b,omitempty"`
	Xs []Term  `json:"xs,omitempty"`
}

func (t Term) eval() []byte {
	switch t.K {
	case "H":
		if t.X == nil {
			panic("H without argument")
		}
		h := sha256.Sum256(t.X.eval())
		return h[:]
	case "BE64":
		var b [8]byte
		binary.BigEndian.PutUint64(b[:], t.N.MustU64())
		return b[:]
	case "Bytes":
		if t.S == nil {
			panic("Bytes without argument")
		}
		return expand(*t.S)
	case "Byte":
		return []byte{byte(t.B)}
	case "Cat":
		out := []byte{}
		for _, x := range t.Xs {
			out = append(out, x.eval()...)
		}
		return out
	}
	panic(fmt.Sprintf("unknown term constructor %q", t.K))
}

// expand turns the case alphabet's byte-string names into bytes (see Gen_Commitments.tla).
func expand(s string) []byte {
	switch s {
	case "@empty":
		return []byte{}
	case "@zero8":
		return make([]byte, 8)
	case "@one8":
		return []byte{0, 0, 0, 0, 0, 0, 0, 1}
	case "@hash_a":
		h := sha256.Sum256([]byte("a"))
		return h[:]
	case "@two":
		return []byte{2}
	case "@ff40":
		b := make([]byte, 40)
		for i := range b {
			b[i] = 0xff
		}
		return b
	case "@long":
		b := make([]byte, 70000)
		for i := range b {
			b[i] = byte(i % 251)
		}
		return b
	}
	return []byte(s)
}

type expTerm struct {
	Term Term `json:"term"`
}

func commitOut(real, again []byte, exp json.RawMessage) (any, error) {
	var e expTerm
	if err := json.Unmarshal(exp, &e); err != nil {
		return nil, err
	}
	return map[string]any{"real": hex.EncodeToString(real), "again": hex.EncodeToString(again), "len": len(real),
		"term": hex.EncodeToString(e.Term.eval())}, nil
}

type payloadJ struct {
	Sp, Dp, Ver, Enc, Val string
}

func init() {
	registerExp("CommitV1", func(raw, exp json.RawMessage) (any, error) {
		var in struct {
			Ts, Rn, Rh, Seq     Num
			Data, Sp, Sc, Dp, Dc string
		}
		if err := json.Unmarshal(raw, &in); err != nil {
			return nil, err
		}
		mk := func() channeltypes.Packet {
			return channeltypes.NewPacket(expand(in.Data), in.Seq.MustU64(), in.Sp, in.Sc, in.Dp, in.Dc,
				clienttypes.NewHeight(in.Rn.MustU64(), in.Rh.MustU64()), in.Ts.MustU64())
		}
		return commitOut(channeltypes.CommitPacket(mk()), channeltypes.CommitPacket(mk()), exp)
	})
	registerExp("CommitV2", func(raw, exp json.RawMessage) (any, error) {
		var in struct {
			Dest, Src string
			Ts, Seq   Num
			Pls       []payloadJ
		}
		if err := json.Unmarshal(raw, &in); err != nil {
			return nil, err
		}
		mk := func() channeltypesv2.Packet {
			pls := make([]channeltypesv2.Payload, 0, len(in.Pls))
			for _, p := range in.Pls {
				pls = append(pls, channeltypesv2.Payload{SourcePort: string(expand(p.Sp)), DestinationPort: string(expand(p.Dp)),
					Version: string(expand(p.Ver)), Encoding: string(expand(p.Enc)), Value: expand(p.Val)})
			}
			return channeltypesv2.NewPacket(in.Seq.MustU64(), in.Src, string(expand(in.Dest)), in.Ts.MustU64(), pls...)
		}
		return commitOut(channeltypesv2.CommitPacket(mk()), channeltypesv2.CommitPacket(mk()), exp)
	})
	registerExp("AckV1", func(raw, exp json.RawMessage) (any, error) {
		var in struct{ Ack string }
		if err := json.Unmarshal(raw, &in); err != nil {
			return nil, err
		}
		return commitOut(channeltypes.CommitAcknowledgement(expand(in.Ack)), channeltypes.CommitAcknowledgement(expand(in.Ack)), exp)
	})
	registerExp("AckV2", func(raw, exp json.RawMessage) (any, error) {
		var in struct{ Acks []string }
		if err := json.Unmarshal(raw, &in); err != nil {
			return nil, err
		}
		mk := func() channeltypesv2.Acknowledgement {
			a := channeltypesv2.Acknowledgement{}
			for _, s := range in.Acks {
				a.AppAcknowledgements = append(a.AppAcknowledgements, expand(s))
			}
			return a
		}
		return commitOut(channeltypesv2.CommitAcknowledgement(mk()), channeltypesv2.CommitAcknowledgement(mk()), exp)
	})
}
