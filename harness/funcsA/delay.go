package funcsA

import (
	"encoding/json"
	"fmt"
	"math/big"
	"testing"
	"time"

	sdk "github.com/cosmos/cosmos-sdk/types"

	clienttypes "github.com/cosmos/ibc-go/v11/modules/core/02-client/types"
	connectiontypes "github.com/cosmos/ibc-go/v11/modules/core/03-connection/types"
	channeltypes "github.com/cosmos/ibc-go/v11/modules/core/04-channel/types"
	commitmenttypes "github.com/cosmos/ibc-go/v11/modules/core/23-commitment/types"
	host "github.com/cosmos/ibc-go/v11/modules/core/24-host"
	"github.com/cosmos/ibc-go/v11/modules/core/exported"
	ibctm "github.com/cosmos/ibc-go/v11/modules/light-clients/07-tendermint"
	ibctesting "github.com/cosmos/ibc-go/v11/testing"
	ibcmock "github.com/cosmos/ibc-go/v11/testing/mock"
)

// ---- C19 -------------------------------------------------------------------------------------
//
// getBlockDelay (03-connection/keeper/verify.go) and verifyDelayPeriodPassed (07-tendermint) are unexported.
// They are observed through exported entry points only:
//   * a spy light-client module registered with ClientKeeper.AddRoute records the delayTimePeriod /
//     delayBlockPeriod that ConnectionKeeper.VerifyPacketCommitment / VerifyPacketAcknowledgement /
//     VerifyPacketReceiptAbsence / VerifyNextSequenceRecv pass down ("BlockDelay" cases);
//   * ClientKeeper.VerifyMembership / VerifyNonMembership ("DelayTM") and ConnectionKeeper.VerifyPacketCommitment
//     ("DelayConn") are called on a real 07-tendermint client with a real ICS-23 proof and a context whose block
//     time / height is placed relative to the processed time / height of the consensus state;
//   * real MsgRecvPacket transactions at controlled block times / heights (TestDelayHist).

const spyType = "99-spy"
const spyClientID = "99-spy-0"

type spyCall struct {
	Fn string `json:"fn"`
	Dt Num    `json:"dt"`
	Db Num    `json:"db"`
}

// spyModule is a light-client module that accepts everything and records the delay arguments.
type spyModule struct {
	calls []spyCall
	cur   string
}

var _ exported.LightClientModule = (*spyModule)(nil)

func (*spyModule) Initialize(sdk.Context, string, []byte, []byte) error                  { return nil }
func (*spyModule) VerifyClientMessage(sdk.Context, string, exported.ClientMessage) error { return nil }
func (*spyModule) CheckForMisbehaviour(sdk.Context, string, exported.ClientMessage) bool { return false }
func (*spyModule) UpdateStateOnMisbehaviour(sdk.Context, string, exported.ClientMessage) {}
func (*spyModule) UpdateState(sdk.Context, string, exported.ClientMessage) []exported.Height {
	return nil
}

func (s *spyModule) VerifyMembership(_ sdk.Context, _ string, _ exported.Height, dt, db uint64, _ []byte, _ exported.Path, _ []byte) error {
	s.calls = append(s.calls, spyCall{Fn: s.cur, Dt: FromU64(dt), Db: FromU64(db)})
	return nil
}

func (s *spyModule) VerifyNonMembership(_ sdk.Context, _ string, _ exported.Height, dt, db uint64, _ []byte, _ exported.Path) error {
	s.calls = append(s.calls, spyCall{Fn: s.cur, Dt: FromU64(dt), Db: FromU64(db)})
	return nil
}
func (*spyModule) Status(sdk.Context, string) exported.Status { return exported.Active }
func (*spyModule) LatestHeight(sdk.Context, string) exported.Height {
	return clienttypes.NewHeight(1, 1000)
}
func (*spyModule) TimestampAtHeight(sdk.Context, string, exported.Height) (uint64, error) {
	return 1, nil
}
func (*spyModule) RecoverClient(sdk.Context, string, string) error { return nil }
func (*spyModule) VerifyUpgradeAndUpdateState(sdk.Context, string, []byte, []byte, []byte, []byte) error {
	return nil
}

// delayWorld: two real chains, a real 07-tendermint client of A on B (long trusting period so that the
// client stays Active for block times far in the future), one packet sent on A and proven at the
// client's latest consensus height.
type delayWorld struct {
	t      *testing.T
	coord  *ibctesting.Coordinator
	a, b   *ibctesting.TestChain
	path   *ibctesting.Path
	spy    *spyModule
	packet channeltypes.Packet

	consH      clienttypes.Height
	procT      uint64
	procH      uint64
	maxNow     uint64 // last block time at which the client is still Active (and representable)
	memProof   []byte
	memPath    exported.Path
	memValue   []byte
	nonProof   []byte
	nonPath    exported.Path
	prefix     commitmenttypes.MerklePrefix
	commitment []byte
}

const maxInt63 = uint64(1<<63 - 1)

func newDelayWorld(t *testing.T, connDelay uint64) *delayWorld {
	w := &delayWorld{t: t}
	ibctesting.TimeIncrement = time.Millisecond
	w.coord = ibctesting.NewCoordinator(t, 2)
	w.a = w.coord.GetChain(ibctesting.GetChainID(1))
	w.b = w.coord.GetChain(ibctesting.GetChainID(2))
	w.path = ibctesting.NewPath(w.a, w.b)
	for _, e := range []*ibctesting.Endpoint{w.path.EndpointA, w.path.EndpointB} {
		if cfg, ok := e.ClientConfig.(*ibctesting.TendermintConfig); ok {
			cfg.TrustingPeriod = 200 * 365 * 24 * time.Hour
			cfg.UnbondingPeriod = 250 * 365 * 24 * time.Hour
		}
		e.ConnectionConfig.DelayPeriod = connDelay
	}
	w.path.Setup()
	w.spy = &spyModule{}
	w.b.App.GetIBCKeeper().ClientKeeper.AddRoute(spyType, w.spy)
	w.prefix = w.a.GetPrefix()
	return w
}

// arm sends n packets on A in one block and updates B's client to the height that proves them.  It returns
// the packets; processed time/height of the new consensus state are read back from the client store.
func (w *delayWorld) arm(n int) []channeltypes.Packet {
	epA, epB := w.path.EndpointA, w.path.EndpointB
	timeoutHeight := clienttypes.NewHeight(clienttypes.ParseChainID(w.b.ChainID), 100000000)
	var pkts []channeltypes.Packet
	for i := 0; i < n; i++ {
		seq, err := w.a.App.GetIBCKeeper().ChannelKeeper.SendPacket(w.a.GetContext(), epA.ChannelConfig.PortID, epA.ChannelID, timeoutHeight, 0, ibcmock.MockPacketData)
		if err != nil {
			w.t.Fatalf("send packet: %v", err)
		}
		pkts = append(pkts, channeltypes.NewPacket(ibcmock.MockPacketData, seq, epA.ChannelConfig.PortID, epA.ChannelID,
			epB.ChannelConfig.PortID, epB.ChannelID, timeoutHeight, 0))
	}
	w.coord.CommitBlock(w.a)
	if err := epB.UpdateClient(); err != nil {
		w.t.Fatalf("update client: %v", err)
	}
	w.consH = epB.GetClientLatestHeight().(clienttypes.Height)
	store := w.b.App.GetIBCKeeper().ClientKeeper.ClientStore(w.b.GetContext(), epB.ClientID)
	pt, ok1 := ibctm.GetProcessedTime(store, w.consH)
	ph, ok2 := ibctm.GetProcessedHeight(store, w.consH)
	if !ok1 || !ok2 {
		w.t.Fatalf("processed time/height missing for %s", w.consH)
	}
	w.procT, w.procH = pt, ph.GetRevisionHeight()
	return pkts
}

func (w *delayWorld) prepareProofs() {
	pkts := w.arm(1)
	w.packet = pkts[0]
	epB := w.path.EndpointB
	key := host.PacketCommitmentKey(w.packet.SourcePort, w.packet.SourceChannel, w.packet.Sequence)
	w.memProof, _ = w.a.QueryProofAtHeight(key, int64(w.consH.RevisionHeight))
	w.commitment = channeltypes.CommitPacket(w.packet)
	w.memValue = w.commitment
	mp, err := commitmenttypes.ApplyPrefix(w.prefix, commitmenttypes.NewMerklePath(key))
	if err != nil {
		w.t.Fatal(err)
	}
	w.memPath = mp
	nkey := host.PacketReceiptKey(w.packet.SourcePort, w.packet.SourceChannel, 987654)
	w.nonProof, _ = w.a.QueryProofAtHeight(nkey, int64(w.consH.RevisionHeight))
	np, err := commitmenttypes.ApplyPrefix(w.prefix, commitmenttypes.NewMerklePath(nkey))
	if err != nil {
		w.t.Fatal(err)
	}
	w.nonPath = np
	// the client is Active strictly before latest consensus timestamp + trusting period
	cs, _ := w.b.GetConsensusState(epB.ClientID, w.consH)
	tmcs := w.b.GetClientState(epB.ClientID).(*ibctm.ClientState)
	exp := new(big.Int).SetUint64(cs.GetTimestamp())
	exp.Add(exp, big.NewInt(int64(tmcs.TrustingPeriod)))
	exp.Sub(exp, big.NewInt(1))
	w.maxNow = maxInt63
	if exp.IsUint64() && exp.Uint64() < maxInt63 {
		w.maxNow = exp.Uint64()
	}
}

func (e *env) delayWorld() *delayWorld {
	if e.delay == nil {
		e.delay = newDelayWorld(e.t, 0)
		e.delay.prepareProofs()
	}
	return e.delay
}

// Placement of a block time / height relative to the processed one (see Gen_Delay.tla).
type Placement struct {
	M   string `json:"m"`
	Off int64  `json:"off"`
}

// resolve returns clip(base + off) to [lo, hi] where base is processed+delay ("valid"), processed ("proc") or hi ("max", minus off).
func (p Placement) resolve(proc, delay, lo, hi uint64) uint64 {
	v := new(big.Int)
	switch p.M {
	case "valid":
		v.SetUint64(proc)
		v.Add(v, new(big.Int).SetUint64(delay))
		v.Add(v, big.NewInt(p.Off))
	case "proc":
		v.SetUint64(proc)
		v.Add(v, big.NewInt(p.Off))
	case "max":
		v.SetUint64(hi)
		v.Sub(v, big.NewInt(p.Off))
	default:
		panic("unknown placement " + p.M)
	}
	if v.Cmp(new(big.Int).SetUint64(lo)) < 0 {
		return lo
	}
	if v.Cmp(new(big.Int).SetUint64(hi)) > 0 {
		return hi
	}
	return v.Uint64()
}

func (w *delayWorld) ctxAt(now, nowH uint64) sdk.Context {
	return w.b.GetContext().WithBlockTime(time.Unix(0, int64(now)).UTC()).WithBlockHeight(int64(nowH))
}

func (w *delayWorld) observed(now, nowH uint64, ctx sdk.Context, err error) map[string]any {
	out := map[string]any{
		"procT": FromU64(w.procT), "procH": FromU64(w.procH), "now": FromU64(now), "nowH": FromU64(nowH),
		"accepted": err == nil,
		"status":   w.b.App.GetIBCKeeper().ClientKeeper.GetClientStatus(ctx, w.path.EndpointB.ClientID).String(),
		// what the context really shows (sanity: the placement reached the code under test)
		"ctxNow": FromU64(uint64(ctx.BlockTime().UnixNano())), "ctxH": FromU64(clienttypes.GetSelfHeight(ctx).RevisionHeight),
	}
	if err != nil {
		out["err"] = err.Error()
	}
	return out
}

func init() {
	// getBlockDelay through the four packet verification entry points of the connection keeper, observed by the spy
	register("BlockDelay", func(raw json.RawMessage) (any, error) {
		var in struct{ Td, P Num }
		if err := json.Unmarshal(raw, &in); err != nil {
			return nil, err
		}
		w := theEnv.delayWorld()
		ctx := w.b.GetContext()
		ck := w.b.App.GetIBCKeeper().ConnectionKeeper
		ck.SetParams(ctx, connectiontypes.NewParams(in.P.MustU64()))
		conn := connectiontypes.NewConnectionEnd(connectiontypes.OPEN, spyClientID,
			connectiontypes.NewCounterparty("07-tendermint-0", "connection-0", w.prefix), connectiontypes.GetCompatibleVersions(), in.Td.MustU64())
		h := clienttypes.NewHeight(1, 10)
		w.spy.calls = nil
		errs := []string{}
		note := func(name string, err error) {
			if err != nil {
				errs = append(errs, name+": "+err.Error())
			}
		}
		w.spy.cur = "VerifyPacketCommitment"
		note(w.spy.cur, ck.VerifyPacketCommitment(ctx, conn, h, []byte{1}, "mock", "channel-0", 1, []byte{1}))
		w.spy.cur = "VerifyPacketAcknowledgement"
		note(w.spy.cur, ck.VerifyPacketAcknowledgement(ctx, conn, h, []byte{1}, "mock", "channel-0", 1, []byte{1}))
		w.spy.cur = "VerifyPacketReceiptAbsence"
		note(w.spy.cur, ck.VerifyPacketReceiptAbsence(ctx, conn, h, []byte{1}, "mock", "channel-0", 1))
		w.spy.cur = "VerifyNextSequenceRecv"
		note(w.spy.cur, ck.VerifyNextSequenceRecv(ctx, conn, h, []byte{1}, "mock", "channel-0", 1))
		calls := w.spy.calls
		if calls == nil {
			calls = []spyCall{}
		}
		return map[string]any{"calls": calls, "errs": errs, "tdDec": in.Td.Big().String(), "pDec": in.P.Big().String()}, nil
	})

	// verifyDelayPeriodPassed of a real 07-tendermint client through ClientKeeper.Verify(Non)Membership
	register("DelayTM", func(raw json.RawMessage) (any, error) {
		var in struct {
			Dt, Db Num
			Tm, Hm Placement
			Kind   string
		}
		if err := json.Unmarshal(raw, &in); err != nil {
			return nil, err
		}
		w := theEnv.delayWorld()
		dt, db := in.Dt.MustU64(), in.Db.MustU64()
		now := in.Tm.resolve(w.procT, dt, w.procT, w.maxNow)
		nowH := in.Hm.resolve(w.procH, db, w.procH, maxInt63)
		ctx := w.ctxAt(now, nowH)
		ck := w.b.App.GetIBCKeeper().ClientKeeper
		var err error
		if in.Kind == "membership" {
			err = ck.VerifyMembership(ctx, w.path.EndpointB.ClientID, w.consH, dt, db, w.memProof, w.memPath, w.memValue)
		} else {
			err = ck.VerifyNonMembership(ctx, w.path.EndpointB.ClientID, w.consH, dt, db, w.nonProof, w.nonPath)
		}
		out := w.observed(now, nowH, ctx, err)
		out["maxNow"] = FromU64(w.maxNow)
		return out, nil
	})

	// the same through the connection keeper: block delay computed by the real getBlockDelay from (td, p)
	register("DelayConn", func(raw json.RawMessage) (any, error) {
		var in struct {
			Td, P, Bd Num
			Tm, Hm    Placement
		}
		if err := json.Unmarshal(raw, &in); err != nil {
			return nil, err
		}
		w := theEnv.delayWorld()
		td, p, bd := in.Td.MustU64(), in.P.MustU64(), in.Bd.MustU64()
		now := in.Tm.resolve(w.procT, td, w.procT, w.maxNow)
		nowH := in.Hm.resolve(w.procH, bd, w.procH, maxInt63)
		ctx := w.ctxAt(now, nowH)
		ck := w.b.App.GetIBCKeeper().ConnectionKeeper
		ck.SetParams(ctx, connectiontypes.NewParams(p))
		conn := connectiontypes.NewConnectionEnd(connectiontypes.OPEN, w.path.EndpointB.ClientID,
			connectiontypes.NewCounterparty(w.path.EndpointA.ClientID, w.path.EndpointA.ConnectionID, w.prefix),
			connectiontypes.GetCompatibleVersions(), td)
		err := ck.VerifyPacketCommitment(ctx, conn, w.consH, w.memProof, w.packet.SourcePort, w.packet.SourceChannel, w.packet.Sequence, w.commitment)
		out := w.observed(now, nowH, ctx, err)
		out["maxNow"] = FromU64(w.maxNow)
		return out, nil
	})
}

// ---- history part: real transactions at controlled block times ---------------------------------

type HistAct struct {
	A  string `json:"a"`
	Dt int64  `json:"dt"`
}

type HistSchedule struct {
	ID   string            `json:"id"`
	TD   int64             `json:"td"`
	P    int64             `json:"p"`
	Acts []json.RawMessage `json:"acts"`
}

type HistState struct {
	T int64 `json:"t"`
	H int64 `json:"h"`
	N int64 `json:"n"`
}

type HistLine struct {
	Tr  string          `json:"tr"`
	I   int             `json:"i"`
	Fn  string          `json:"fn"`
	TD  int64           `json:"td"`
	P   int64           `json:"p"`
	A   json.RawMessage `json:"a"`
	Res string          `json:"res"`
	Err string          `json:"err,omitempty"`
	St  HistState       `json:"st"`
}

func (w *delayWorld) histState(pkts []channeltypes.Packet) HistState {
	ctx := w.b.GetContext()
	var n int64
	for _, p := range pkts {
		if _, ok := w.b.App.GetIBCKeeper().ChannelKeeper.GetPacketReceipt(ctx, p.DestinationPort, p.DestinationChannel, p.Sequence); ok {
			n++
		}
	}
	last := w.b.LatestCommittedHeader.GetTime().UnixNano()
	return HistState{T: last - int64(w.procT), H: w.b.App.LastBlockHeight() - int64(w.procH), N: n}
}

func (w *delayWorld) resyncSequence() {
	acc := w.b.GetSimApp().AccountKeeper.GetAccount(w.b.GetContext(), w.b.SenderAccount.GetAddress())
	if acc != nil {
		_ = w.b.SenderAccount.SetSequence(acc.GetSequence())
	}
}

func (w *delayWorld) runHist(s HistSchedule, emit func(HistLine)) {
	nrecv := 0
	acts := make([]HistAct, len(s.Acts))
	for i, raw := range s.Acts {
		if err := json.Unmarshal(raw, &acts[i]); err != nil {
			w.t.Fatalf("%s: %v", s.ID, err)
		}
		if acts[i].A == "Recv" {
			nrecv++
		}
	}
	if nrecv == 0 {
		nrecv = 1
	}
	pkts := w.arm(nrecv)
	emit(HistLine{Tr: s.ID, I: 0, Fn: "DelayHist", TD: s.TD, P: s.P, A: json.RawMessage(`{"a":"Init","dt":0}`), Res: "ok", St: w.histState(pkts)})
	t := int64(0)
	for i, a := range acts {
		t += a.Dt
		w.coord.SetTime(time.Unix(0, int64(w.procT)+t).UTC())
		res, errStr := "ok", ""
		switch a.A {
		case "Block":
			w.b.NextBlock()
		case "Recv":
			next := w.histState(pkts).N
			if int(next) >= len(pkts) {
				w.t.Fatalf("%s: no packet left", s.ID)
			}
			p := pkts[next]
			key := host.PacketCommitmentKey(p.SourcePort, p.SourceChannel, p.Sequence)
			proof, _ := w.a.QueryProofAtHeight(key, int64(w.consH.RevisionHeight))
			msg := channeltypes.NewMsgRecvPacket(p, proof, w.consH, w.b.SenderAccount.GetAddress().String())
			func() {
				defer func() {
					if r := recover(); r != nil {
						res, errStr = "panic", fmt.Sprint(r)
					}
				}()
				_, err := w.b.SendMsgs(msg)
				if err != nil {
					res, errStr = "err", err.Error()
				}
			}()
			w.resyncSequence()
		default:
			w.t.Fatalf("%s: unknown action %s", s.ID, a.A)
		}
		emit(HistLine{Tr: s.ID, I: i + 1, Fn: "DelayHist", TD: s.TD, P: s.P, A: s.Acts[i], Res: res, Err: errStr, St: w.histState(pkts)})
	}
}

// setTimePerBlock sets the MaxExpectedTimePerBlock parameter of chain B (a chain parameter, as genesis or
// governance would) and commits it.
func (w *delayWorld) setTimePerBlock(p uint64) {
	w.b.App.GetIBCKeeper().ConnectionKeeper.SetParams(w.b.GetContext(), connectiontypes.NewParams(p))
	w.coord.CommitBlock(w.b)
}
