package funcsA

import (
	"encoding/json"
	"errors"
	"fmt"
	"sort"
	"testing"
	"time"

	abci "github.com/cometbft/cometbft/abci/types"

	sdk "github.com/cosmos/cosmos-sdk/types"

	clienttypes "github.com/cosmos/ibc-go/v11/modules/core/02-client/types"
	connectiontypes "github.com/cosmos/ibc-go/v11/modules/core/03-connection/types"
	channeltypes "github.com/cosmos/ibc-go/v11/modules/core/04-channel/types"
	commitmenttypes "github.com/cosmos/ibc-go/v11/modules/core/23-commitment/types"
	host "github.com/cosmos/ibc-go/v11/modules/core/24-host"
	ibctm "github.com/cosmos/ibc-go/v11/modules/light-clients/07-tendermint"
	ibctesting "github.com/cosmos/ibc-go/v11/testing"
)

// ---- C15, history part: identifiers issued by real transactions ---------------------------------

type IdentAct struct {
	A    string `json:"a"`
	Kind string `json:"kind"`
}

type IdentSchedule struct {
	ID   string            `json:"id"`
	Acts []json.RawMessage `json:"acts"`
}

type IdentState struct {
	Nc      uint64   `json:"nc"`
	Nconn   uint64   `json:"nconn"`
	Nchan   uint64   `json:"nchan"`
	Clients []string `json:"clients"`
	Conns   []string `json:"conns"`
	Chans   []string `json:"chans"`
}

type IdentChk struct {
	Hostok bool   `json:"hostok"`
	Pok    bool   `json:"pok"`
	Pt     string `json:"pt"`
	Pn     uint64 `json:"pn"`
	Rt     string `json:"rt"`
}

type IdentLine struct {
	Tr     string          `json:"tr"`
	I      int             `json:"i"`
	Fn     string          `json:"fn"`
	A      json.RawMessage `json:"a"`
	Res    string          `json:"res"`
	Err    string          `json:"err,omitempty"`
	Issued string          `json:"issued"`
	Chk    IdentChk        `json:"chk"`
	St     IdentState      `json:"st"`
}

type identWorld struct {
	t     *testing.T
	coord *ibctesting.Coordinator
	a, b  *ibctesting.TestChain
	path  *ibctesting.Path
	nsolo int
}

func newIdentWorld(t *testing.T) *identWorld {
	w := &identWorld{t: t}
	ibctesting.TimeIncrement = time.Second
	w.coord = ibctesting.NewCoordinator(t, 2)
	w.a = w.coord.GetChain(ibctesting.GetChainID(1))
	w.b = w.coord.GetChain(ibctesting.GetChainID(2))
	w.path = ibctesting.NewPath(w.a, w.b)
	w.path.SetupConnections()
	return w
}

func (w *identWorld) state() IdentState {
	ctx := w.a.GetContext()
	k := w.a.App.GetIBCKeeper()
	st := IdentState{Nc: k.ClientKeeper.GetNextClientSequence(ctx), Nconn: k.ConnectionKeeper.GetNextConnectionSequence(ctx),
		Nchan: k.ChannelKeeper.GetNextChannelSequence(ctx), Clients: []string{}, Conns: []string{}, Chans: []string{}}
	for _, c := range k.ClientKeeper.GetAllGenesisClients(ctx) {
		st.Clients = append(st.Clients, c.ClientId)
	}
	for _, c := range k.ConnectionKeeper.GetAllConnections(ctx) {
		st.Conns = append(st.Conns, c.Id)
	}
	for _, c := range k.ChannelKeeper.GetAllChannels(ctx) {
		st.Chans = append(st.Chans, c.ChannelId)
	}
	sort.Strings(st.Clients)
	sort.Strings(st.Conns)
	sort.Strings(st.Chans)
	return st
}

func (w *identWorld) signer() string { return w.a.SenderAccount.GetAddress().String() }

func (w *identWorld) msgFor(a IdentAct) (sdk.Msg, func(), error) {
	restore := func() {}
	switch a.A {
	case "CreateClient":
		cfg := w.path.EndpointA.ClientConfig.(*ibctesting.TendermintConfig)
		hdr := w.b.LatestCommittedHeader
		height := hdr.GetHeight().(clienttypes.Height)
		switch a.Kind {
		case "tm", "expired", "badmsg":
			trusting := cfg.TrustingPeriod
			if a.Kind == "badmsg" {
				trusting = 0
			}
			cs := ibctm.NewClientState(w.b.ChainID, cfg.TrustLevel, trusting, cfg.UnbondingPeriod, cfg.MaxClockDrift, height,
				commitmenttypes.GetSDKSpecs(), ibctesting.UpgradePath)
			cons := hdr.ConsensusState()
			if a.Kind == "expired" {
				// a consensus state older than the trusting period: the client is Expired right after Initialize,
				// i.e. CreateClient fails AFTER the identifier was generated and the client written
				cons = ibctm.NewConsensusState(hdr.GetTime().Add(-cfg.TrustingPeriod-time.Hour), cons.Root, cons.NextValidatorsHash)
			}
			m, err := clienttypes.NewMsgCreateClient(cs, cons, w.signer())
			return m, restore, err
		case "solo":
			w.nsolo++
			solo := ibctesting.NewSolomachine(w.t, w.a.Codec, fmt.Sprintf("solomachine-%d", w.nsolo), "", 1)
			m, err := clienttypes.NewMsgCreateClient(solo.ClientState(), solo.ConsensusState(), w.signer())
			return m, restore, err
		}
	case "ConnInit":
		clientID, version := w.path.EndpointA.ClientID, ibctesting.DefaultOpenInitVersion
		switch a.Kind {
		case "noclient":
			clientID = "07-tendermint-999999"
		case "badversion":
			version = connectiontypes.NewVersion("9", []string{"ORDER_ORDERED"})
		}
		return connectiontypes.NewMsgConnectionOpenInit(clientID, w.path.EndpointB.ClientID, w.b.GetPrefix(), version, 0, w.signer()), restore, nil
	case "ChanInit":
		port, conn := ibctesting.MockPort, w.path.EndpointA.ConnectionID
		switch a.Kind {
		case "noconn":
			conn = "connection-999999"
		case "badport":
			port = "unroutedport"
		case "appreject":
			app := w.a.GetSimApp().IBCMockModule.IBCApp
			old := app.OnChanOpenInit
			app.OnChanOpenInit = func(sdk.Context, channeltypes.Order, []string, string, string, channeltypes.Counterparty, string) (string, error) {
				return "", errors.New("application rejects the channel")
			}
			restore = func() { app.OnChanOpenInit = old }
		}
		return channeltypes.NewMsgChannelOpenInit(port, "mock-version", channeltypes.UNORDERED, []string{conn}, ibctesting.MockPort, w.signer()), restore, nil
	}
	return nil, restore, fmt.Errorf("unknown action %s/%s", a.A, a.Kind)
}

func issuedID(a IdentAct, events []abci.Event) string {
	var id string
	var err error
	switch a.A {
	case "CreateClient":
		id, err = ibctesting.ParseClientIDFromEvents(events)
	case "ConnInit":
		id, err = ibctesting.ParseConnectionIDFromEvents(events)
	case "ChanInit":
		id, err = ibctesting.ParseChannelIDFromEvents(events)
	}
	if err != nil {
		return ""
	}
	return id
}

// check asks the chain's own validators / parsers about an issued identifier.
func check(a IdentAct, id string) IdentChk {
	c := IdentChk{}
	switch a.A {
	case "CreateClient":
		c.Hostok = host.ClientIdentifierValidator(id) == nil && clienttypes.IsValidClientID(id)
		t, n, err := clienttypes.ParseClientIdentifier(id)
		c.Pok, c.Pt, c.Pn = err == nil, t, n
		c.Rt = clienttypes.FormatClientIdentifier(t, n)
	case "ConnInit":
		c.Hostok = host.ConnectionIdentifierValidator(id) == nil && connectiontypes.IsValidConnectionID(id)
		n, err := connectiontypes.ParseConnectionSequence(id)
		c.Pok, c.Pt, c.Pn = err == nil, "connection", n
		c.Rt = connectiontypes.FormatConnectionIdentifier(n)
	case "ChanInit":
		c.Hostok = host.ChannelIdentifierValidator(id) == nil && channeltypes.IsValidChannelID(id)
		n, err := channeltypes.ParseChannelSequence(id)
		c.Pok, c.Pt, c.Pn = err == nil, "channel", n
		c.Rt = channeltypes.FormatChannelIdentifier(n)
	}
	return c
}

func (w *identWorld) run(s IdentSchedule, emit func(IdentLine)) {
	emit(IdentLine{Tr: s.ID, I: 0, Fn: "IdentHist", A: json.RawMessage(`{"a":"Init","kind":""}`), Res: "ok", St: w.state()})
	for i, raw := range s.Acts {
		var a IdentAct
		if err := json.Unmarshal(raw, &a); err != nil {
			w.t.Fatalf("%s step %d: %v", s.ID, i+1, err)
		}
		line := IdentLine{Tr: s.ID, I: i + 1, Fn: "IdentHist", A: raw, Res: "ok"}
		msg, restore, err := w.msgFor(a)
		if err != nil {
			w.t.Fatalf("%s step %d: %v", s.ID, i+1, err)
		}
		func() {
			defer restore()
			defer func() {
				if r := recover(); r != nil {
					line.Res, line.Err = "panic", fmt.Sprint(r)
				}
			}()
			res, err := w.a.SendMsgs(msg)
			if err != nil {
				line.Res, line.Err = "err", err.Error()
				return
			}
			line.Issued = issuedID(a, res.Events)
			line.Chk = check(a, line.Issued)
		}()
		acc := w.a.GetSimApp().AccountKeeper.GetAccount(w.a.GetContext(), w.a.SenderAccount.GetAddress())
		if acc != nil {
			_ = w.a.SenderAccount.SetSequence(acc.GetSequence())
		}
		line.St = w.state()
		emit(line)
	}
}
