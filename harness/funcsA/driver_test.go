package funcsA

import (
	"encoding/json"
	"fmt"
	"testing"

	"verif/harness/lib"
)

// Case is one line of a TLC-generated case file.
type Case struct {
	ID  string          `json:"id"`
	Fn  string          `json:"fn"`
	In  json.RawMessage `json:"in"`
	Exp json.RawMessage `json:"exp,omitempty"`
}

// Line is what the driver records for one evaluated case.
type Line struct {
	Tr  string          `json:"tr"`
	I   int             `json:"i"`
	Fn  string          `json:"fn"`
	In  json.RawMessage `json:"in"`  // verbatim
	Exp json.RawMessage `json:"exp"` // verbatim (TLC re-derives it; a mismatch is a harness sanity failure)
	Res string          `json:"res"` // ok | err | panic  (did the evaluation itself complete)
	Out any             `json:"out"`
	Err string          `json:"err,omitempty"` // diagnostic only
}

// an evaluator gets the case input (and, for C07, the expected term it has to evaluate independently)
type evaluator func(raw, exp json.RawMessage) (any, error)

var evaluators = map[string]evaluator{}

func register(fn string, e func(raw json.RawMessage) (any, error)) {
	evaluators[fn] = func(raw, _ json.RawMessage) (any, error) { return e(raw) }
}

func registerExp(fn string, e evaluator) { evaluators[fn] = e }

func evalCase(c Case) (line Line) {
	line = Line{Tr: c.ID, I: 1, Fn: c.Fn, In: c.In, Exp: c.Exp, Res: "ok", Out: map[string]any{}}
	if len(line.Exp) == 0 {
		line.Exp = json.RawMessage(`{}`)
	}
	e, ok := evaluators[c.Fn]
	if !ok {
		line.Res, line.Err = "err", "no evaluator for "+c.Fn
		return line
	}
	defer func() {
		if r := recover(); r != nil {
			line.Res, line.Err, line.Out = "panic", fmt.Sprint(r), map[string]any{}
		}
	}()
	out, err := e(c.In, c.Exp)
	if err != nil {
		line.Res, line.Err = "err", err.Error()
		return line
	}
	line.Out = out
	return line
}

// TestCases evaluates every case of $VERIF_CASES with the real functions and writes $VERIF_TRACE.
func TestCases(t *testing.T) {
	casesPath := lib.EnvStr("VERIF_CASES", "")
	tracePath := lib.EnvStr("VERIF_TRACE", "")
	if casesPath == "" || tracePath == "" {
		t.Skip("VERIF_CASES / VERIF_TRACE not set")
	}
	cases, err := lib.ReadNDJSON[Case](casesPath)
	if err != nil {
		t.Fatal(err)
	}
	tw, err := lib.NewTraceWriter(tracePath)
	if err != nil {
		t.Fatal(err)
	}
	defer tw.Close()
	env := newEnv(t, cases)
	defer env.close()
	for _, c := range cases {
		tw.Emit(evalCase(c))
	}
}

// TestDelayHist executes the C19 history schedules of $VERIF_SCHED (ndjson: id, td, p, acts) with real
// transactions on a connection whose delay period is td and writes one line per step to $VERIF_TRACE.
func TestDelayHist(t *testing.T) {
	schedPath := lib.EnvStr("VERIF_SCHED", "")
	tracePath := lib.EnvStr("VERIF_TRACE", "")
	if schedPath == "" || tracePath == "" {
		t.Skip("VERIF_SCHED / VERIF_TRACE not set")
	}
	scheds, err := lib.ReadNDJSON[HistSchedule](schedPath)
	if err != nil {
		t.Fatal(err)
	}
	tw, err := lib.NewTraceWriter(tracePath)
	if err != nil {
		t.Fatal(err)
	}
	defer tw.Close()
	worlds := map[[2]int64]*delayWorld{}
	for _, s := range scheds {
		k := [2]int64{s.TD, s.P}
		w, ok := worlds[k]
		if !ok {
			w = newDelayWorld(t, uint64(s.TD))
			w.setTimePerBlock(uint64(s.P))
			worlds[k] = w
		}
		w.runHist(s, func(l HistLine) { tw.Emit(l) })
	}
}

// TestIdentHist executes the C15 history schedules of $VERIF_SCHED (ndjson: id, acts) as real transactions
// on one chain and writes one line per step to $VERIF_TRACE.
func TestIdentHist(t *testing.T) {
	schedPath := lib.EnvStr("VERIF_SCHED", "")
	tracePath := lib.EnvStr("VERIF_TRACE", "")
	if schedPath == "" || tracePath == "" {
		t.Skip("VERIF_SCHED / VERIF_TRACE not set")
	}
	scheds, err := lib.ReadNDJSON[IdentSchedule](schedPath)
	if err != nil {
		t.Fatal(err)
	}
	tw, err := lib.NewTraceWriter(tracePath)
	if err != nil {
		t.Fatal(err)
	}
	defer tw.Close()
	w := newIdentWorld(t)
	for _, s := range scheds {
		w.run(s, func(l IdentLine) { tw.Emit(l) })
	}
}
