package funcsA

import "testing"

// env holds what the chain-backed evaluators need (created lazily, only when a case asks for it).
type env struct {
	t     *testing.T
	delay *delayWorld
}

var theEnv *env

func newEnv(t *testing.T, cases []Case) *env {
	theEnv = &env{t: t}
	return theEnv
}

func (e *env) close() {}
