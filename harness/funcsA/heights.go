package funcsA

import (
	"encoding/json"

	clienttypes "github.com/cosmos/ibc-go/v11/modules/core/02-client/types"
	channeltypes "github.com/cosmos/ibc-go/v11/modules/core/04-channel/types"
)

// ---- C17: Height order, text round trip, Timeout.Elapsed ------------------------------------

type HeightJ struct {
	Rn Num `json:"rn"`
	Rh Num `json:"rh"`
}

func (h HeightJ) real() clienttypes.Height {
	return clienttypes.NewHeight(h.Rn.MustU64(), h.Rh.MustU64())
}

func heightJ(h clienttypes.Height) HeightJ {
	return HeightJ{Rn: FromU64(h.RevisionNumber), Rh: FromU64(h.RevisionHeight)}
}

type PointJ struct {
	H  HeightJ `json:"h"`
	Ts Num     `json:"ts"`
}

func init() {
	register("HCmp", func(raw json.RawMessage) (any, error) {
		var in struct{ A, B HeightJ }
		if err := json.Unmarshal(raw, &in); err != nil {
			return nil, err
		}
		a, b := in.A.real(), in.B.real()
		return map[string]any{
			"cmp": a.Compare(b), "lt": a.LT(b), "lte": a.LTE(b), "gt": a.GT(b), "gte": a.GTE(b), "eq": a.EQ(b),
		}, nil
	})
	register("HFmt", func(raw json.RawMessage) (any, error) {
		var in struct{ H HeightJ }
		if err := json.Unmarshal(raw, &in); err != nil {
			return nil, err
		}
		s := in.H.real().String()
		parsed, err := clienttypes.ParseHeight(s)
		out := map[string]any{"s": Chars(s), "ok": err == nil, "parsed": heightJ(parsed)}
		return out, nil
	})
	register("Elapsed", func(raw json.RawMessage) (any, error) {
		var in struct {
			To   PointJ
			P, Q PointJ
		}
		if err := json.Unmarshal(raw, &in); err != nil {
			return nil, err
		}
		to := channeltypes.NewTimeout(in.To.H.real(), in.To.Ts.MustU64())
		return map[string]any{
			"ep": to.Elapsed(in.P.H.real(), in.P.Ts.MustU64()),
			"eq": to.Elapsed(in.Q.H.real(), in.Q.Ts.MustU64()),
			"tp": to.TimestampElapsed(in.P.Ts.MustU64()),
			"tq": to.TimestampElapsed(in.Q.Ts.MustU64()),
		}, nil
	})
}
