package funcsA

import (
	"encoding/json"
	"fmt"

	clienttypes "github.com/cosmos/ibc-go/v11/modules/core/02-client/types"
	connectiontypes "github.com/cosmos/ibc-go/v11/modules/core/03-connection/types"
	channeltypes "github.com/cosmos/ibc-go/v11/modules/core/04-channel/types"
	host "github.com/cosmos/ibc-go/v11/modules/core/24-host"
)

// ---- C15: identifier format / parse / validation (function tables) ------------------------------

func noChars(cs []string) []string {
	if cs == nil {
		return []string{}
	}
	return cs
}

func init() {
	register("ClientRT", func(raw json.RawMessage) (any, error) {
		var in struct {
			T []string
			N Num
		}
		if err := json.Unmarshal(raw, &in); err != nil {
			return nil, err
		}
		t := Join(in.T)
		id := clienttypes.FormatClientIdentifier(t, in.N.MustU64())
		pt, pn, err := clienttypes.ParseClientIdentifier(id)
		return map[string]any{
			"id":      noChars(Chars(id)),
			"reg":     clienttypes.ValidateClientType(t) == nil,
			"pok":     err == nil,
			"pt":      noChars(Chars(pt)),
			"pn":      FromU64(pn),
			"isvalid": clienttypes.IsValidClientID(id),
			"hostok":  host.ClientIdentifierValidator(id) == nil,
		}, nil
	})
	register("ClientParse", func(raw json.RawMessage) (any, error) {
		var in struct{ S []string }
		if err := json.Unmarshal(raw, &in); err != nil {
			return nil, err
		}
		s := Join(in.S)
		pt, pn, err := clienttypes.ParseClientIdentifier(s)
		return map[string]any{"pok": err == nil, "pt": noChars(Chars(pt)), "pn": FromU64(pn), "isvalid": clienttypes.IsValidClientID(s)}, nil
	})
	register("SeqRT", func(raw json.RawMessage) (any, error) {
		var in struct {
			Kind string
			N    Num
		}
		if err := json.Unmarshal(raw, &in); err != nil {
			return nil, err
		}
		n := in.N.MustU64()
		var id string
		var pn uint64
		var err, herr error
		var isvalid bool
		switch in.Kind {
		case "channel":
			id = channeltypes.FormatChannelIdentifier(n)
			pn, err = channeltypes.ParseChannelSequence(id)
			isvalid = channeltypes.IsValidChannelID(id)
			herr = host.ChannelIdentifierValidator(id)
		case "connection":
			id = connectiontypes.FormatConnectionIdentifier(n)
			pn, err = connectiontypes.ParseConnectionSequence(id)
			isvalid = connectiontypes.IsValidConnectionID(id)
			herr = host.ConnectionIdentifierValidator(id)
		default:
			return nil, fmt.Errorf("unknown kind %s", in.Kind)
		}
		return map[string]any{"id": noChars(Chars(id)), "pok": err == nil, "pn": FromU64(pn), "isvalid": isvalid, "hostok": herr == nil}, nil
	})
	register("SeqParse", func(raw json.RawMessage) (any, error) {
		var in struct {
			Kind string
			S    []string
		}
		if err := json.Unmarshal(raw, &in); err != nil {
			return nil, err
		}
		s := Join(in.S)
		var pn uint64
		var err error
		var isvalid bool
		switch in.Kind {
		case "channel":
			pn, err = channeltypes.ParseChannelSequence(s)
			isvalid = channeltypes.IsValidChannelID(s)
		case "connection":
			pn, err = connectiontypes.ParseConnectionSequence(s)
			isvalid = connectiontypes.IsValidConnectionID(s)
		default:
			return nil, fmt.Errorf("unknown kind %s", in.Kind)
		}
		return map[string]any{"pok": err == nil, "pn": FromU64(pn), "isvalid": isvalid}, nil
	})
}
