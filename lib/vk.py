"""Verification kit: shared plumbing for the family runners (TLC, Go harness, caching, evidence).

Verdict policy (DESIGN.md section 3): a family run returns, per property, the list of monitor
failures TLC reported on traces recorded from the real code.  Everything else that goes wrong
(build, TLC crash, vacuity, harness sanity) raises Infra and ends in exit code 2, never a verdict.
"""
import concurrent.futures as cf
import glob
import hashlib
import json
import os
import re
import shutil
import subprocess
import sys
import tempfile
import time

VERIF = os.path.dirname(os.path.dirname(os.path.abspath(__file__)))
REPO = os.environ.get("VERIF_REPO", "/repo")
CACHE = os.path.join(VERIF, ".cache")
SPEC = os.path.join(VERIF, "spec")
HARNESS = os.path.join(VERIF, "harness")
NCPU = os.cpu_count() or 8


class Infra(Exception):
    pass


def log(*a):
    print("[verif]", *a, file=sys.stderr, flush=True)


def go_env():
    env = dict(os.environ)
    env["GOFLAGS"] = "-mod=mod"
    env["GOPROXY"] = "off"
    # the repository needs the cached go1.26.5 toolchain: leave the automatic switch on
    env.pop("GOTOOLCHAIN", None)
    env.pop("GOSUMDB", None)
    env["GONOSUMDB"] = "*"
    env["GONOSUMCHECK"] = "1"
    env["GOFLAGS"] = "-mod=mod"
    return env


def sh(cmd, cwd=None, env=None, timeout=None, check=True):
    p = subprocess.run(cmd, cwd=cwd, env=env, timeout=timeout, stdout=subprocess.PIPE, stderr=subprocess.STDOUT,
                       text=True, shell=isinstance(cmd, str))
    if check and p.returncode != 0:
        raise Infra("command failed (%d): %s\n%s" % (p.returncode, cmd, p.stdout[-4000:]))
    return p


# ------------------------------------------------------------------------------------------ tree hash

def tree_key(extra_paths=()):
    """Hash of /repo's working tree state (HEAD + uncommitted changes) and of the given /verif paths."""
    h = hashlib.sha256()
    head = sh(["git", "-C", REPO, "rev-parse", "HEAD"]).stdout.strip()
    h.update(head.encode())
    st = sh(["git", "-C", REPO, "status", "--porcelain=v1", "-uall"]).stdout
    for line in sorted(st.splitlines()):
        h.update(line.encode())
        path = line[3:].split(" -> ")[-1].strip().strip('"')
        fp = os.path.join(REPO, path)
        if os.path.isfile(fp):
            with open(fp, "rb") as f:
                h.update(hashlib.sha256(f.read()).digest())
    for p in extra_paths:
        files = [p] if os.path.isfile(p) else sorted(
            f for f in glob.glob(os.path.join(p, "**"), recursive=True) if os.path.isfile(f))
        for f in files:
            if "/.cache/" in f or f.endswith(".test") or "__pycache__" in f or f.endswith(".pyc"):
                continue
            h.update(f.encode())
            with open(f, "rb") as fh:
                h.update(hashlib.sha256(fh.read()).digest())
    return h.hexdigest()[:24]


# ------------------------------------------------------------------------------------------ Go harness

def repo_tag():
    """Distinguishes work directories / binaries of runs against different repository trees (VERIF_REPO)."""
    return "" if REPO == "/repo" else "_" + hashlib.sha256(REPO.encode()).hexdigest()[:8]


def build_harness(pkg, tags="verif", module="harness"):
    """go test -c of <module>/<pkg> against the current working tree of /repo (or $VERIF_REPO, a scratch
    worktree used for self-tests: then an alternate go.mod with the replace directive pointed there is used)."""
    moddir = os.path.join(VERIF, module)
    out = os.path.join(CACHE, "bin", module + "_" + pkg.replace("/", "_") + repo_tag() + ".test")
    os.makedirs(os.path.dirname(out), exist_ok=True)
    t0 = time.time()
    extra = []
    if REPO == "/repo":
        try:
            shutil.copyfile(os.path.join(REPO, "go.sum"), os.path.join(moddir, "go.sum"))
        except OSError:
            pass
    else:
        alt = os.path.join(moddir, "go" + repo_tag() + ".mod")
        txt = open(os.path.join(moddir, "go.mod")).read().replace("=> /repo", "=> " + REPO)
        with open(alt, "w") as f:
            f.write(txt)
        shutil.copyfile(os.path.join(moddir, "go.sum"), alt[:-4] + ".sum")
        extra = ["-modfile", alt]
    # -trimpath: object files do not embed source directories, so the Go build cache is shared between /repo and
    # scratch worktrees (only packages whose sources differ are recompiled)
    p = sh(["go", "test", "-c", "-trimpath", "-tags", tags] + extra + ["-o", out, "./" + pkg + "/"], cwd=moddir, env=go_env(), timeout=3600,
           check=False)
    if p.returncode != 0:
        raise Infra("harness build failed for %s:\n%s" % (pkg, p.stdout[-6000:]))
    log("built %s in %.1fs" % (pkg, time.time() - t0))
    return out


def run_driver(binary, test, env_extra, timeout=1800):
    env = dict(os.environ)
    env.update(env_extra)
    p = subprocess.run([binary, "-test.run", "^" + test + "$", "-test.timeout", "%ds" % timeout], env=env,
                       stdout=subprocess.PIPE, stderr=subprocess.STDOUT, text=True, timeout=timeout + 60)
    return p.returncode, p.stdout


# ------------------------------------------------------------------------------------------ TLC

def _tlc(args, cwd, timeout, extra_env=None):
    os.makedirs(os.path.join(CACHE, "tmp"), exist_ok=True)
    md = tempfile.mkdtemp(prefix="tlcmd_", dir=os.path.join(CACHE, "tmp"))
    env = dict(os.environ)
    if extra_env:
        env.update(extra_env)
    try:
        p = subprocess.run(["timeout", str(timeout), "tlc", "-metadir", md] + args, cwd=cwd, env=env,
                           stdout=subprocess.PIPE, stderr=subprocess.STDOUT, text=True)
    finally:
        shutil.rmtree(md, ignore_errors=True)
        for f in glob.glob(os.path.join(cwd, "*_TTrace_*")):
            try:
                os.remove(f)
            except OSError:
                pass
    return p.returncode, p.stdout


def write_cfg(path, spec, constants, invariants=(), properties=(), constraint=None, view=None, extra=""):
    lines = ["SPECIFICATION %s" % spec, "CONSTANTS"]
    for k, v in constants.items():
        lines.append("  %s = %s" % (k, tla_val(v)))
    if constraint:
        lines.append("CONSTRAINT %s" % constraint)
    if view:
        lines.append("VIEW %s" % view)
    for i in invariants:
        lines.append("INVARIANT %s" % i)
    if properties:
        lines.append("PROPERTIES " + " ".join(properties))
    lines.append("CHECK_DEADLOCK FALSE")
    if extra:
        lines.append(extra)
    with open(path, "w") as f:
        f.write("\n".join(lines) + "\n")


def tla_val(v):
    if isinstance(v, bool):
        return "TRUE" if v else "FALSE"
    if isinstance(v, int):
        return str(v)
    if isinstance(v, str):
        return json.dumps(v)
    if isinstance(v, (set, frozenset, list, tuple)):
        return "{" + ", ".join(tla_val(x) for x in (sorted(v, key=str) if isinstance(v, (set, frozenset)) else v)) + "}"
    raise ValueError(v)


def scratch_spec(family_dir):
    """TLC litters its working directory: run it in a scratch copy of the family's spec directory."""
    os.makedirs(os.path.join(CACHE, "tmp"), exist_ok=True)
    d = tempfile.mkdtemp(prefix="spec_", dir=os.path.join(CACHE, "tmp"))
    for f in glob.glob(os.path.join(family_dir, "*.tla")):
        shutil.copy(f, d)
    return d


def tlc_mc(spec_dir, module, cfg_path, workers=8, timeout=1200, coverage=False, reuse=False, deps=None):
    """Exhaustive model check.  Returns dict(generated, distinct, depth, ok, out, reused).

    The result is a pure function of the specification and the configuration (it does not depend on /repo), so
    it may be memoised (reuse=True; never for runs that exist for a side effect such as JsonSerialize) under .cache/mc keyed by the hash of every .tla file of the spec directory and of the cfg;
    `reused` says whether this invocation actually ran TLC."""
    h = hashlib.sha256()
    # deps: the modules the checked module (transitively) EXTENDS/INSTANCEs; default: every module of the directory
    mods = sorted(glob.glob(os.path.join(spec_dir, "*.tla"))) if deps is None else [os.path.join(spec_dir, d + ".tla") for d in sorted(set(deps) | {module})]
    for f in mods + [cfg_path]:
        h.update(os.path.basename(f).encode())
        h.update(open(f, "rb").read())
    h.update(module.encode())
    memo = os.path.join(CACHE, "mc", h.hexdigest()[:32] + ".json")
    if reuse and os.path.exists(memo):
        try:
            r = json.load(open(memo))
            r["reused"] = True
            return r
        except Exception:
            pass
    r = _tlc_mc(spec_dir, module, cfg_path, workers, timeout, coverage)
    r["reused"] = False
    os.makedirs(os.path.dirname(memo), exist_ok=True)
    with open(memo + ".tmp", "w") as f:
        json.dump(r, f)
    os.replace(memo + ".tmp", memo)
    return r


def _tlc_mc(spec_dir, module, cfg_path, workers, timeout, coverage):
    args = ["-workers", str(workers), "-config", cfg_path]
    if coverage:
        args += ["-coverage", "1"]
    args.append(module + ".tla")
    rc, out = _tlc(args, spec_dir, timeout)
    m = re.search(r"(\d+) states generated, (\d+) distinct states found, (\d+) states left on queue", out)
    d = re.search(r"depth of the complete state graph search is (\d+)", out)
    res = {"rc": rc, "generated": int(m.group(1)) if m else 0, "distinct": int(m.group(2)) if m else 0,
           "left": int(m.group(3)) if m else -1, "depth": int(d.group(1)) if d else 0,
           "ok": rc == 0 and "No error has been found" in out, "out": out}
    if not res["ok"]:
        raise Infra("model check of %s (%s) did not pass -- this is a specification/infrastructure problem, "
                    "not a verdict about the code:\n%s" % (module, os.path.basename(cfg_path), out[-3000:]))
    return res


def tlc_simulate(spec_dir, module, cfg_path, num, depth, seed, workers=4, timeout=900):
    per = max(1, (num + workers - 1) // workers)
    rc, out = _tlc(["-workers", str(workers), "-simulate", "num=%d" % per, "-depth", str(depth), "-seed", str(seed),
                    "-config", cfg_path, module + ".tla"], spec_dir, timeout)
    if rc != 0 and "Error" in out:
        raise Infra("schedule generation failed (%s):\n%s" % (module, out[-3000:]))
    return out


def tlc_trace(spec_dir, module, cfg_path, timeout=1800):
    """Trace validation run: returns (monfails, consumed, out); monfails = [(trace, step, prop, clause)]."""
    rc, out = _tlc(["-workers", "1", "-config", cfg_path, module + ".tla"], spec_dir, timeout,
                   extra_env={"JAVA_TOOL_OPTIONS": os.environ.get("JAVA_TOOL_OPTIONS", "") + " -Xss256m"})
    fails = []
    # TLC wraps long tuples over several lines: match across arbitrary whitespace
    for m in re.finditer(r'<<\s*"MONFAIL",\s*"([^"]*)",\s*(\d+),\s*<<\s*"([^"]*)",\s*"([^"]*)"\s*>>\s*>>', out):
        fails.append((m.group(1), int(m.group(2)), m.group(3), m.group(4)))
    if out.count('"MONFAIL"') != len(fails):
        raise Infra("could not parse every MONFAIL line of the trace validation output (%d of %d)" % (len(fails), out.count('"MONFAIL"')))
    c = re.search(r'<<\s*"CONSUMED",\s*(\d+)\s*>>', out)
    consumed = int(c.group(1)) if c else 0
    if rc != 0 or "No error has been found" not in out:
        raise Infra("trace validation run of %s failed (TLC error, not a verdict):\n%s" % (module, out[-4000:]))
    return fails, consumed, out


# ------------------------------------------------------------------------------------------ evidence / results

def write_evidence(pid, tier, seed, level, coverage, wall, violations, assumptions):
    os.makedirs(os.path.join(VERIF, "evidence"), exist_ok=True)
    ev = {"property_id": pid, "tier": tier, "seed": int(seed), "level": level, "coverage": coverage,
          "assumptions": assumptions, "wall_s": round(wall, 2), "violations": int(violations)}
    path = os.path.join(VERIF, "evidence", pid + ".json")
    with open(path + ".tmp", "w") as f:
        json.dump(ev, f, indent=1)
    os.replace(path + ".tmp", path)
    return path


def known_findings():
    p = os.path.join(VERIF, "known_findings.json")
    if not os.path.exists(p):
        return []
    return json.load(open(p)).get("findings", [])


def shard(items, n):
    n = max(1, min(n, len(items)))
    return [items[i::n] for i in range(n)]


def pmap(fn, items, workers):
    with cf.ThreadPoolExecutor(max_workers=max(1, workers)) as ex:
        return list(ex.map(fn, items))


def cache_get(family, key):
    p = os.path.join(CACHE, "results", family, key + ".json")
    if os.path.exists(p):
        try:
            return json.load(open(p))
        except Exception:
            return None
    return None


def cache_put(family, key, value):
    d = os.path.join(CACHE, "results", family)
    os.makedirs(d, exist_ok=True)
    # keep the directory small
    olds = sorted(glob.glob(os.path.join(d, "*.json")), key=os.path.getmtime)
    for f in olds[:-12]:
        try:
            os.remove(f)
        except OSError:
            pass
    with open(os.path.join(d, key + ".json.tmp"), "w") as f:
        json.dump(value, f)
    os.replace(os.path.join(d, key + ".json.tmp"), os.path.join(d, key + ".json"))


def clean_tmp():
    shutil.rmtree(os.path.join(CACHE, "tmp"), ignore_errors=True)
    os.makedirs(os.path.join(CACHE, "tmp"), exist_ok=True)
