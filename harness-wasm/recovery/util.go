package recovery

import (
	"bufio"
	"crypto/sha256"
	"encoding/binary"
	"encoding/hex"
	"encoding/json"
	"hash"
	"os"
)

type digest struct{ h hash.Hash }

func newDigest() *digest { return &digest{h: sha256.New()} }

func (d *digest) add(k, v []byte) {
	var lb [8]byte
	binary.BigEndian.PutUint64(lb[:], uint64(len(k)))
	d.h.Write(lb[:])
	d.h.Write(k)
	binary.BigEndian.PutUint64(lb[:], uint64(len(v)))
	d.h.Write(lb[:])
	d.h.Write(v)
}

func (d *digest) sum() string { return hex.EncodeToString(d.h.Sum(nil))[:16] }

func readCases(path string) ([]Case, error) {
	f, err := os.Open(path)
	if err != nil {
		return nil, err
	}
	defer f.Close()
	sc := bufio.NewScanner(f)
	sc.Buffer(make([]byte, 1<<20), 1<<28)
	var out []Case
	for sc.Scan() {
		if len(sc.Bytes()) == 0 {
			continue
		}
		var c Case
		if err := json.Unmarshal(sc.Bytes(), &c); err != nil {
			return nil, err
		}
		out = append(out, c)
	}
	return out, sc.Err()
}
