// Package recovery drives the REAL 08-wasm ClientRecoveryStore (modules/light-clients/08-wasm/internal/types/store.go)
// with operation sequences enumerated by TLC (spec/lightclients/WasmRecoveryStore.tla).
//
// The store type lives in an `internal` package, so it is reached the way a contract reaches it:
// ClientKeeper.RecoverClient -> 08-wasm LightClientModule.RecoverClient builds the recovery store over the two real
// client stores and hands it (wrapped in the StoreAdapter) to the VM's Sudo entry point; the repository's mock wasm
// engine lets the harness play the contract: its MigrateClientStore callback performs the operation sequence.
// The underlying subject / substitute client stores are observed independently through ClientKeeper.ClientStore.
//
// Go only executes and records; TLC judges (Trace_WasmRecoveryStore.tla).
package recovery

import (
	"encoding/json"
	"fmt"
	"strings"
	"testing"

	wasmvm "github.com/CosmWasm/wasmvm/v3"
	wasmvmtypes "github.com/CosmWasm/wasmvm/v3/types"
	dbm "github.com/cosmos/cosmos-db"

	"cosmossdk.io/log/v2"

	storetypes "github.com/cosmos/cosmos-sdk/store/v2/types"
	simtestutil "github.com/cosmos/cosmos-sdk/testutil/sims"
	sdk "github.com/cosmos/cosmos-sdk/types"
	authtypes "github.com/cosmos/cosmos-sdk/x/auth/types"
	govtypes "github.com/cosmos/cosmos-sdk/x/gov/types"

	wasmtesting "github.com/cosmos/ibc-go/modules/light-clients/08-wasm/v11/testing"
	"github.com/cosmos/ibc-go/modules/light-clients/08-wasm/v11/testing/simapp"
	"github.com/cosmos/ibc-go/modules/light-clients/08-wasm/v11/types"
	clienttypes "github.com/cosmos/ibc-go/v11/modules/core/02-client/types"
	host "github.com/cosmos/ibc-go/v11/modules/core/24-host"
	"github.com/cosmos/ibc-go/v11/modules/core/exported"
	ibctm "github.com/cosmos/ibc-go/v11/modules/light-clients/07-tendermint"
	ibctesting "github.com/cosmos/ibc-go/v11/testing"
)

// Bound is an abstract iterator bound: prefix class + position in the test key range (or nil / empty slice).
type Bound struct {
	P   string `json:"p"`   // "S" | "T" | "N" | "nil" | "empty"
	Pos int    `json:"pos"` // 0: before all test keys, i: key number i (a, b, c), 9: after all test keys
}

// Op is one store operation (the spec's action record, verbatim from TLC).
type Op struct {
	Op string `json:"op"` // Get | Has | Set | Delete | Iter | RIter
	P  string `json:"p,omitempty"`
	K  string `json:"k,omitempty"`
	V  string `json:"v,omitempty"`
	S  *Bound `json:"s,omitempty"`
	E  *Bound `json:"e,omitempty"`
}

type Case struct {
	ID  string            `json:"id"`
	Pre []json.RawMessage `json:"pre"`
	Op  json.RawMessage   `json:"op"`
}

type KV struct {
	K string `json:"k"`
	V string `json:"v"`
}

type Obs struct {
	Sub       []KV   `json:"sub"`
	Subst     []KV   `json:"subst"`
	SubRest   string `json:"subrest"`
	SubstRest string `json:"substrest"`
}

type Out struct {
	Found bool `json:"found"`
	V     string `json:"v"`
	Items []KV `json:"items"`
}

type Line struct {
	Tr   string          `json:"tr"`
	I    int             `json:"i"`
	Mode string          `json:"mode"` // "contract" (through RecoverClient + mock VM) | "direct" | "cachewrap" (hook only)
	A    json.RawMessage `json:"a"`
	Res  string          `json:"res"` // ok | panic
	Err  string          `json:"err,omitempty"`
	Out  Out             `json:"out"`
	Pre  Obs             `json:"pre"`
	Post Obs             `json:"post"`
}

const testKeyPrefix = "k/"

func prefixStr(p string) string {
	switch p {
	case "S":
		return "subject/"
	case "T":
		return "substitute/"
	case "M":
		return "subject" // near miss: no slash
	default:
		return ""
	}
}

func concreteKey(p, k string) []byte { return []byte(prefixStr(p) + testKeyPrefix + k) }

var posStr = map[int]string{0: "k/", 1: "k/a", 2: "k/b", 3: "k/c", 9: "k/~"}

func concreteBound(b *Bound) []byte {
	if b == nil || b.P == "nil" {
		return nil
	}
	if b.P == "empty" {
		return []byte{}
	}
	return []byte(prefixStr(b.P) + posStr[b.Pos])
}

// World is one real chain (08-wasm simapp with the mock VM) with a frozen subject and an active substitute wasm client.
type World struct {
	t        *testing.T
	coord    *ibctesting.Coordinator
	chain    *ibctesting.TestChain
	app      *simapp.SimApp
	vm       *wasmtesting.MockWasmEngine
	subject  string
	subst    string
	nInst    uint64
	baseCtx  sdk.Context
	checksum types.Checksum
}

func NewWorld(t *testing.T) *World {
	w := &World{t: t}
	w.coord = ibctesting.NewCustomAppCoordinator(t, 1, w.setupApp)
	w.chain = w.coord.GetChain(ibctesting.GetChainID(1))
	w.app = w.chain.App.(*simapp.SimApp)

	ctx := w.chain.GetContext().WithBlockGasMeter(storetypes.NewInfiniteGasMeter())
	resp, err := w.app.WasmClientKeeper.StoreCode(ctx, types.NewMsgStoreCode(authtypes.NewModuleAddress(govtypes.ModuleName).String(), wasmtesting.Code))
	if err != nil {
		t.Fatalf("store code: %v", err)
	}
	w.checksum = resp.Checksum

	w.subject = w.createClient()
	w.subst = w.createClient()

	// initial contents of the test key range (the two stores differ on every key, so a misrouted read is visible)
	base := w.chain.GetContext()
	w.app.IBCKeeper.ClientKeeper.ClientStore(base, w.subject).Set([]byte(testKeyPrefix+"b"), []byte("1"))
	w.app.IBCKeeper.ClientKeeper.ClientStore(base, w.subst).Set([]byte(testKeyPrefix+"a"), []byte("x"))
	w.coord.CommitBlock(w.chain)
	w.baseCtx = w.chain.GetContext().WithGasMeter(storetypes.NewInfiniteGasMeter())
	return w
}

func (w *World) setupApp() (ibctesting.TestingApp, map[string]json.RawMessage) {
	w.vm = wasmtesting.NewMockWasmEngine()
	w.vm.InstantiateFn = func(checksum wasmvm.Checksum, env wasmvmtypes.Env, info wasmvmtypes.MessageInfo, initMsg []byte, store wasmvm.KVStore, goapi wasmvm.GoAPI, querier wasmvm.Querier, gasMeter wasmvm.GasMeter, gasLimit uint64, deserCost wasmvmtypes.UFraction) (*wasmvmtypes.ContractResult, uint64, error) {
		var payload types.InstantiateMessage
		if err := json.Unmarshal(initMsg, &payload); err != nil {
			return nil, 0, err
		}
		cdc := w.chain.App.AppCodec()
		wrapped := clienttypes.MustUnmarshalClientState(cdc, payload.ClientState).(*ibctm.ClientState)
		// every new client is a little higher than the previous one, so that the later one can be a substitute
		w.nInst++
		h := clienttypes.NewHeight(wrapped.LatestHeight.RevisionNumber, wrapped.LatestHeight.RevisionHeight+w.nInst)
		cs := types.NewClientState(payload.ClientState, payload.Checksum, h)
		store.Set(host.ClientStateKey(), clienttypes.MustMarshalClientState(cdc, cs))
		cons := types.NewConsensusState(payload.ConsensusState)
		store.Set(host.ConsensusStateKey(h), clienttypes.MustMarshalConsensusState(cdc, cons))
		resp, _ := json.Marshal(types.EmptyResult{})
		return &wasmvmtypes.ContractResult{Ok: &wasmvmtypes.Response{Data: resp}}, 0, nil
	}
	w.vm.RegisterQueryCallback(types.StatusMsg{}, func(checksum wasmvm.Checksum, env wasmvmtypes.Env, queryMsg []byte, store wasmvm.KVStore, goapi wasmvm.GoAPI, querier wasmvm.Querier, gasMeter wasmvm.GasMeter, gasLimit uint64, deserCost wasmvmtypes.UFraction) (*wasmvmtypes.QueryResult, uint64, error) {
		st := exported.Active
		if w.subject != "" && env.Contract.Address == w.subject && w.subst != "" {
			st = exported.Frozen
		}
		resp, _ := json.Marshal(types.StatusResult{Status: st.String()})
		return &wasmvmtypes.QueryResult{Ok: resp}, wasmtesting.DefaultGasUsed, nil
	})
	app := simapp.NewUnitTestSimApp(log.NewNopLogger(), dbm.NewMemDB(), true, simtestutil.EmptyAppOptions{}, w.vm)
	return app, app.DefaultGenesis()
}

func (w *World) createClient() string {
	cdc := w.chain.App.AppCodec()
	wrappedCS := clienttypes.MustMarshalClientState(cdc, wasmtesting.CreateMockTendermintClientState(clienttypes.NewHeight(1, 5)))
	wrappedCons := clienttypes.MustMarshalConsensusState(cdc, wasmtesting.MockTendermintClientConsensusState)
	cs := types.NewClientState(wrappedCS, w.checksum, clienttypes.NewHeight(0, 1))
	cons := types.NewConsensusState(wrappedCons)
	msg, err := clienttypes.NewMsgCreateClient(cs, cons, w.chain.SenderAccount.GetAddress().String())
	if err != nil {
		w.t.Fatalf("msg create client: %v", err)
	}
	res, err := w.chain.SendMsgs(msg)
	if err != nil {
		w.t.Fatalf("create wasm client: %v", err)
	}
	id, err := ibctesting.ParseClientIDFromEvents(res.Events)
	if err != nil {
		w.t.Fatalf("client id: %v", err)
	}
	return id
}

// observe reads the two underlying client stores (not through the store under test).
func (w *World) observe(ctx sdk.Context) Obs {
	sub, subRest := splitDump(w.app.IBCKeeper.ClientKeeper.ClientStore(ctx, w.subject))
	subst, substRest := splitDump(w.app.IBCKeeper.ClientKeeper.ClientStore(ctx, w.subst))
	return Obs{Sub: sub, Subst: subst, SubRest: subRest, SubstRest: substRest}
}

func splitDump(store storetypes.KVStore) ([]KV, string) {
	kvs := []KV{}
	rest := newDigest()
	it := store.Iterator(nil, nil)
	defer it.Close()
	for ; it.Valid(); it.Next() {
		k, v := it.Key(), it.Value()
		if strings.HasPrefix(string(k), testKeyPrefix) {
			kvs = append(kvs, KV{K: strings.TrimPrefix(string(k), testKeyPrefix), V: string(v)})
		} else {
			rest.add(k, v)
		}
	}
	return kvs, rest.sum()
}

// kvStore is what both a contract (wasmvm.KVStore via StoreAdapter) and the direct modes can do.
type kvStore interface {
	Get(key []byte) []byte
	Set(key, value []byte)
	Delete(key []byte)
}

type iterLike interface {
	Valid() bool
	Next()
	Key() []byte
	Value() []byte
	Close() error
}

type opStore struct {
	kv    kvStore
	iter  func(s, e []byte) iterLike
	riter func(s, e []byte) iterLike
	has   func(k []byte) bool // nil when unreachable (contract mode)
}

func applyOp(st opStore, op Op) (out Out, res string, errStr string) {
	out.Items = []KV{}
	res = "ok"
	defer func() {
		if r := recover(); r != nil {
			res = "panic"
			errStr = fmt.Sprint(r)
		}
	}()
	switch op.Op {
	case "Get":
		bz := st.kv.Get(concreteKey(op.P, op.K))
		out.Found = bz != nil
		out.V = string(bz)
	case "Has":
		if st.has == nil {
			return out, "unsupported", "Has is not reachable through the contract interface"
		}
		out.Found = st.has(concreteKey(op.P, op.K))
	case "Set":
		st.kv.Set(concreteKey(op.P, op.K), []byte(op.V))
	case "Delete":
		st.kv.Delete(concreteKey(op.P, op.K))
	case "Iter", "RIter":
		var it iterLike
		if op.Op == "Iter" {
			it = st.iter(concreteBound(op.S), concreteBound(op.E))
		} else {
			it = st.riter(concreteBound(op.S), concreteBound(op.E))
		}
		for ; it.Valid(); it.Next() {
			out.Items = append(out.Items, KV{K: strings.TrimPrefix(string(it.Key()), testKeyPrefix), V: string(it.Value())})
		}
		it.Close()
	default:
		return out, "unsupported", "unknown op " + op.Op
	}
	return out, res, ""
}

// RunContract executes one case through ClientKeeper.RecoverClient on a branch of the committed state: the mock
// contract performs c.Pre silently and then c.Op, which is recorded with the underlying stores before and after.
func (w *World) RunContract(c Case) (Line, error) {
	ctx, _ := w.baseCtx.CacheContext()
	line := Line{Tr: c.ID, I: len(c.Pre) + 1, Mode: "contract", A: c.Op}
	var cbErr error
	called := false
	w.vm.RegisterSudoCallback(types.MigrateClientStoreMsg{}, func(_ wasmvm.Checksum, _ wasmvmtypes.Env, _ []byte, store wasmvm.KVStore, _ wasmvm.GoAPI, _ wasmvm.Querier, _ wasmvm.GasMeter, _ uint64, _ wasmvmtypes.UFraction) (*wasmvmtypes.ContractResult, uint64, error) {
		called = true
		st := opStore{kv: store,
			iter:  func(s, e []byte) iterLike { return store.Iterator(s, e) },
			riter: func(s, e []byte) iterLike { return store.ReverseIterator(s, e) }}
		for _, raw := range c.Pre {
			var op Op
			if err := json.Unmarshal(raw, &op); err != nil {
				cbErr = err
				break
			}
			applyOp(st, op)
		}
		var op Op
		if err := json.Unmarshal(c.Op, &op); err != nil {
			cbErr = err
		}
		line.Pre = w.observe(ctx)
		line.Out, line.Res, line.Err = applyOp(st, op)
		line.Post = w.observe(ctx)
		resp, _ := json.Marshal(types.EmptyResult{})
		return &wasmvmtypes.ContractResult{Ok: &wasmvmtypes.Response{Data: resp}}, wasmtesting.DefaultGasUsed, nil
	})
	err := w.app.IBCKeeper.ClientKeeper.RecoverClient(ctx, w.subject, w.subst)
	if cbErr != nil {
		return line, cbErr
	}
	if !called {
		return line, fmt.Errorf("RecoverClient did not reach the contract: %v", err)
	}
	if err != nil {
		return line, fmt.Errorf("RecoverClient failed after the contract ran: %v", err)
	}
	return line, nil
}
