package recovery

import (
	"bufio"
	"encoding/json"
	"os"
	"testing"
)

// TestRecovery executes every case of $VERIF_CASES (ndjson: {id, pre:[ops], op}) against the real recovery store
// and writes one line per case to $VERIF_TRACE.  It never judges: TLC does (Trace_WasmRecoveryStore.tla).
func TestRecovery(t *testing.T) {
	casesPath, tracePath := os.Getenv("VERIF_CASES"), os.Getenv("VERIF_TRACE")
	if casesPath == "" || tracePath == "" {
		t.Skip("VERIF_CASES / VERIF_TRACE not set")
	}
	cases, err := readCases(casesPath)
	if err != nil {
		t.Fatal(err)
	}
	f, err := os.Create(tracePath)
	if err != nil {
		t.Fatal(err)
	}
	defer f.Close()
	bw := bufio.NewWriterSize(f, 1<<20)
	defer bw.Flush()
	emit := func(l Line) {
		bz, err := json.Marshal(l)
		if err != nil {
			t.Fatal(err)
		}
		bw.Write(bz)
		bw.WriteByte('\n')
	}
	w := NewWorld(t)
	for _, c := range cases {
		var op Op
		if err := json.Unmarshal(c.Op, &op); err != nil {
			t.Fatalf("case %s: %v", c.ID, err)
		}
		if op.Op != "Has" { // a contract has no Has
			l, err := w.RunContract(c)
			if err != nil {
				t.Fatalf("case %s: %v", c.ID, err)
			}
			emit(l)
		}
		for _, l := range w.RunDirect(c) { // only with the add-only export (build tag verifhook)
			emit(l)
		}
	}
}

// TestHookAvailable reports whether this binary was built with the add-only constructor export.
func TestHookAvailable(t *testing.T) {
	if hookAvailable {
		t.Log("HOOK=1")
	} else {
		t.Log("HOOK=0")
	}
}
