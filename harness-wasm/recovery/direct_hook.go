//go:build verifhook

package recovery

import (
	"encoding/json"

	storetypes "github.com/cosmos/cosmos-sdk/store/v2/types"

	wasm "github.com/cosmos/ibc-go/modules/light-clients/08-wasm/v11"
)

const hookAvailable = true

// RunDirect drives the store built by the exported constructor wrapper: once directly (this also reaches Has) and
// once through its CacheWrap (writes must reach the subject only after Write, and never the substitute).
func (w *World) RunDirect(c Case) []Line {
	var lines []Line
	for _, mode := range []string{"direct", "cachewrap"} {
		ctx, _ := w.baseCtx.CacheContext()
		var store storetypes.KVStore = wasm.NewClientRecoveryStoreForVerif(
			w.app.IBCKeeper.ClientKeeper.ClientStore(ctx, w.subject), w.app.IBCKeeper.ClientKeeper.ClientStore(ctx, w.subst))
		var flush func()
		if mode == "cachewrap" {
			cw := store.CacheWrap()
			store = cw.(storetypes.KVStore)
			flush = cw.Write
		}
		st := opStore{kv: store,
			iter:  func(s, e []byte) iterLike { return store.Iterator(s, e) },
			riter: func(s, e []byte) iterLike { return store.ReverseIterator(s, e) },
			has:   store.Has}
		for _, raw := range c.Pre {
			var op Op
			if json.Unmarshal(raw, &op) == nil {
				applyOp(st, op)
			}
		}
		if flush != nil {
			flush()
		}
		var op Op
		_ = json.Unmarshal(c.Op, &op)
		line := Line{Tr: c.ID, I: len(c.Pre) + 1, Mode: mode, A: c.Op}
		line.Pre = w.observe(ctx)
		line.Out, line.Res, line.Err = applyOp(st, op)
		if flush != nil {
			flush()
		}
		line.Post = w.observe(ctx)
		lines = append(lines, line)
	}
	return lines
}
