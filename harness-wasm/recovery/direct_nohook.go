//go:build !verifhook

package recovery

const hookAvailable = false

// RunDirect needs the add-only export modules/light-clients/08-wasm/recovery_store_verif.go (build tags verif,verifhook).
func (w *World) RunDirect(c Case) []Line { return nil }
