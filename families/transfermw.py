"""Transfer-middleware family: rate limiting (C41, C42) and packet forwarding (C43) of /repo, as wired in the test
application (core -> rate-limit -> packet-forward -> transfer).

Three specifications under spec/transfermw share one Go driver (harness/transfermw):
  RL     RateLimit.tla   C41  flows = in-window accepted transfers  (MC_RateLimit / Sched_RateLimit / Trace_RateLimit)
  DENOM  RLDenom.tla     C42  charged denomination = denomination ICS-20 moves (function table + real stack)
  PFM    PFM.tla         C43  forwarding is all-or-nothing and conserves tokens

Pipeline per specification (FRAMEWORK.md section 1): (a) exhaustive TLC model check with vacuity witnesses,
(b) TLC generates behaviours / the case table, (c) the Go driver executes them on real ibctesting chains,
(d) TLC validates the recorded traces with property-scoped monitors and prints MONFAIL lines.
"""
import collections
import glob
import json
import os
import re
import shutil
import threading
import time

import vk

FAMILY = "transfermw"
SPEC_DIR = os.path.join(vk.SPEC, "transfermw")
PROPS = ["C41", "C42", "C43"]

# state of the real chains after the set-up of harness/transfermw/rl.go (checked by the trace spec's X monitors)
RL_INIT = dict(SUPN=4000, SUPV=1000, NS_AB=2, NS_AC=1, NR=2)
RL_HOUR = 12  # ticks of 5 minutes


def open_known(pid):
    return [k for k in vk.known_findings() if k.get("property") == pid and k.get("status", "open") == "open"
            and k.get("family", FAMILY) == FAMILY]


# ------------------------------------------------------------------------------------------ RL (C41)

RL_MC_WITNESS = {
    "quick": ["Block", "Send:ok", "Send:err", "Recv:ok", "Recv:err", "Recv:none", "Ack:ok", "Ack:undo", "Timeout:undo",
              "Resolve:undo", "Add:ok", "Add:err", "Update:ok", "Remove:ok", "Reset:ok", "EpochReset",
              "EpochResetWhilePending", "AdminWhilePending", "UndoOutsideWindow", "ExactQuota", "QuotaRefused",
              "RecvRefusedByQuota"],
}
RL_MC_WITNESS["thorough"] = RL_MC_WITNESS["quick"] + ["Resolve:ok", "NetFlowOffsets"]


def rl_mc_constants(tier):
    if tier == "quick":
        return dict(HOUR=4, PATHS={"N/AB"}, AMTS={40, 41}, QSS={2}, QRS={2}, DURS={1}, DTS={1, 3}, BDTS={1, 3},
                    FATES_OUT={"ok", "err", "to"}, FATES_IN={"ok", "err", "ferr"}, SEND_CH={"AB"}, MaxPk=2, MaxT=7,
                    SUPN=4000, SUPV=1000)
    return dict(HOUR=4, PATHS={"N/AB", "V/AB"}, AMTS={40, 41}, QSS={2}, QRS={2, 5}, DURS={1, 2}, DTS={1, 3}, BDTS={1, 3},
                FATES_OUT={"ok", "err", "to"}, FATES_IN={"ok", "err", "fok", "ferr"}, SEND_CH={"AB"}, MaxPk=3, MaxT=7,
                SUPN=4000, SUPV=1000)


def rl_sched_constants(tier, depth, outdir, excl):
    c = dict(HOUR=RL_HOUR, PATHS={"N/AB", "V/AB", "V/AC"}, AMTS={15, 40, 41, 100}, QSS={0, 1, 2, 10, 100},
             QRS={0, 1, 2, 10, 100}, DURS={1, 2}, DTS={1, 2}, BDTS={1, 5, 12},
             FATES_OUT={"ok", "err", "to"}, FATES_IN={"ok", "err", "fok", "ferr", "fto"}, SEND_CH={"AB"},
             MaxPk=1000, MaxT=1000000, Depth=depth, OutDir=outdir, EXCL_KF=bool(excl), MACRO_PCT=35)
    c.update(RL_INIT)
    return c


def sizes(tier):
    if tier == "quick":
        return dict(rl_n=36, rl_depth=30, shards=12)
    return dict(rl_n=400, rl_depth=45, shards=16)


def run_mc_rl(tier, d):
    cfg = os.path.join(d, "MC_RL.cfg")
    consts = rl_mc_constants(tier)
    vk.write_cfg(cfg, "Spec", consts, invariants=["Inv"], properties=["AcceptedWithinQuota", "UndoneOnce"], constraint="Bound")
    r = vk.tlc_mc(d, "MC_RateLimit", cfg, workers=4, timeout=600 if tier == "quick" else 3000)
    seen = set(re.findall(r'<<"WITNESS", "([A-Za-z0-9:]+)">>', r["out"]))
    missing = [w for w in RL_MC_WITNESS[tier] if w not in seen]
    if missing:
        raise vk.Infra("vacuous model check (RateLimit): never witnessed %s" % missing)
    return {"distinct": r["distinct"], "generated": r["generated"], "depth": r["depth"], "witnessed": sorted(seen),
            "constants": {k: (sorted(v) if isinstance(v, set) else v) for k, v in consts.items()}}


# canonical boundary schedules (always executed; the first three are the input class of KF-C41-1 and are only part of
# the general exploration while that finding is not listed as open)
def _pk(ch, seq, d, amt, fate, dir_="out", fw=0):
    return {"dir": dir_, "ch": ch, "seq": seq, "d": d, "amt": amt, "fate": fate, "fw": fw}


def rl_kf_schedules():
    ns, nr, nac = RL_INIT["NS_AB"], RL_INIT["NR"], RL_INIT["NS_AC"]
    add = {"a": "Add", "dt": 1, "d": "N", "ch": "AB", "qs": 10, "qr": 10, "dur": 1}
    upd = {"a": "Update", "dt": 1, "d": "N", "ch": "AB", "qs": 10, "qr": 10, "dur": 1}
    return [
        {"id": "RL-kf1", "kind": "RL", "acts": [
            add, {"a": "Send", "dt": 1, "d": "N", "ch": "AB", "amt": 100, "fate": "to"}, upd,
            {"a": "Send", "dt": 1, "d": "N", "ch": "AB", "amt": 50, "fate": "ok"},
            {"a": "Timeout", "dt": 1, "pkt": _pk("AB", ns, "N", 100, "to"), "kf": True}]},
        {"id": "RL-kf2", "kind": "RL", "acts": [
            add, {"a": "Send", "dt": 1, "d": "N", "ch": "AB", "amt": 100, "fate": "err"},
            {"a": "Remove", "dt": 1, "d": "N", "ch": "AB"}, add,
            {"a": "Send", "dt": 1, "d": "N", "ch": "AB", "amt": 50, "fate": "ok"},
            {"a": "Ack", "dt": 1, "pkt": _pk("AB", ns, "N", 100, "err"), "kf": True}]},
        {"id": "RL-kf3", "kind": "RL", "acts": [
            add, {"a": "Recv", "dt": 1, "d": "N", "ch": "AB", "amt": 100, "fate": "ferr"}, upd,
            {"a": "Recv", "dt": 1, "d": "N", "ch": "AB", "amt": 50, "fate": "ok"},
            {"a": "Resolve", "dt": 1, "pkt": _pk("AB", nr, "N", 100, "ferr", "in", nac), "kf": True}]},
    ]


def rl_boundary_schedules():
    ns = RL_INIT["NS_AB"]
    add = {"a": "Add", "dt": 1, "d": "N", "ch": "AB", "qs": 10, "qr": 10, "dur": 1}
    return [
        # reset between send and refund: the refund is outside the window and must not be subtracted
        {"id": "RL-b1", "kind": "RL", "acts": [
            add, {"a": "Send", "dt": 1, "d": "N", "ch": "AB", "amt": 100, "fate": "to"},
            {"a": "Reset", "dt": 1, "d": "N", "ch": "AB"},
            {"a": "Send", "dt": 1, "d": "N", "ch": "AB", "amt": 50, "fate": "ok"},
            {"a": "Timeout", "dt": 1, "pkt": _pk("AB", ns, "N", 100, "to")}]},
        # exactly at the quota (400 of 4000 at 10 %), one above, refund, again
        {"id": "RL-b2", "kind": "RL", "acts": [
            add, {"a": "Send", "dt": 1, "d": "N", "ch": "AB", "amt": 400, "fate": "err"},
            {"a": "Send", "dt": 1, "d": "N", "ch": "AB", "amt": 1, "fate": "ok"},
            {"a": "Ack", "dt": 1, "pkt": _pk("AB", ns, "N", 400, "err")},
            {"a": "Send", "dt": 1, "d": "N", "ch": "AB", "amt": 401, "fate": "ok"},
            {"a": "Recv", "dt": 1, "d": "N", "ch": "AB", "amt": 400, "fate": "ok"},
            {"a": "Recv", "dt": 1, "d": "N", "ch": "AB", "amt": 1, "fate": "ok"},
            {"a": "Send", "dt": 1, "d": "N", "ch": "AB", "amt": 800, "fate": "ok"},
            {"a": "Send", "dt": 1, "d": "N", "ch": "AB", "amt": 1, "fate": "ok"}]},
        # epoch boundary exactly at the hour (tick 12): no reset at 12, reset at 13
        {"id": "RL-b3", "kind": "RL", "acts": [
            add, {"a": "Send", "dt": 1, "d": "N", "ch": "AB", "amt": 100, "fate": "to"},
            {"a": "Send", "dt": 9, "d": "N", "ch": "AB", "amt": 30, "fate": "err"},
            {"a": "Timeout", "dt": 1, "pkt": _pk("AB", ns, "N", 100, "to")},
            {"a": "Send", "dt": 1, "d": "N", "ch": "AB", "amt": 20, "fate": "ok"},
            {"a": "Ack", "dt": 1, "pkt": _pk("AB", ns + 1, "N", 30, "err")}]},
    ]


def gen_rl(tier, seed, workdir, excl):
    sz = sizes(tier)
    d = vk.scratch_spec(SPEC_DIR)
    try:
        outdir = os.path.join(workdir, "sched_RL")
        os.makedirs(outdir, exist_ok=True)
        cfg = os.path.join(d, "Sched_RL.cfg")
        vk.write_cfg(cfg, "Spec", rl_sched_constants(tier, sz["rl_depth"], outdir, excl))
        vk.tlc_simulate(d, "Sched_RateLimit", cfg, sz["rl_n"], sz["rl_depth"] + 1, seed * 11 + 1, workers=1,
                        timeout=600 if tier == "quick" else 2400)
        out = []
        for i, f in enumerate(sorted(glob.glob(os.path.join(outdir, "*.json")))):
            s = json.load(open(f))
            s["id"] = "RL-%d-%d" % (seed, i)
            out.append(s)
    finally:
        shutil.rmtree(d, ignore_errors=True)
    out = out[: sz["rl_n"]]
    if len(out) < 3:
        raise vk.Infra("schedule generation (RL) produced only %d schedules" % len(out))
    out += rl_boundary_schedules()
    if not excl:
        out += rl_kf_schedules()
    return out


def rl_class_steps(acts):
    """Input class of KF-C41-1: 1-based indices of the steps the schedule generator (Sched_RateLimit.InClass, decided from
    the history of inputs) or the author of a canonical schedule marked with kf = true: the undo (timeout, error
    acknowledgement, failed forward) of a packet whose pending marker existed on its path when the path was updated or
    removed, with no reset of the path and no terminal event of the packet in between."""
    return [i for i, a in enumerate(acts, 1) if a.get("kf")]


# ------------------------------------------------------------------------------------------ driving / validation

def drive(binary, scheds, workdir, tag, nshards):
    """Execute schedules on the real code; returns {kind: [trace lines]}."""
    shards = vk.shard(scheds, nshards)

    def one(ix):
        sp = os.path.join(workdir, "%s_sched_%d.ndjson" % (tag, ix))
        tp = os.path.join(workdir, "%s_trace_%d.ndjson" % (tag, ix))
        with open(sp, "w") as f:
            for s in shards[ix]:
                f.write(json.dumps(s) + "\n")
        rc, out = vk.run_driver(binary, "TestDrive", {"VERIF_SCHED": sp, "VERIF_TRACE": tp})
        if rc != 0:
            raise vk.Infra("driver failed (rc=%d):\n%s" % (rc, out[-3000:]))
        return tp
    files = vk.pmap(one, list(range(len(shards))), len(shards))
    groups = collections.defaultdict(list)
    for f in files:
        for line in open(f):
            if line.strip():
                groups[json.loads(line)["kind"]].append(line)
    return groups


TRACE_MODULE = {"RL": "Trace_RateLimit", "DENOM": "Trace_RLDenom", "PFM": "Trace_PFM"}


def trace_constants(kind, tf):
    if kind == "RL":
        return dict(HOUR=RL_HOUR, TraceFile=tf)
    return dict(TraceFile=tf)


def validate(groups, workdir, tag, chunk=6000):
    d = vk.scratch_spec(SPEC_DIR)
    fails, steps = [], 0
    items = []
    for kind, lines in groups.items():
        # split on trace boundaries so that several TLC runs share the work
        cur = []
        for ln in lines:
            if '"a":{"a":"Init"' in ln.replace(" ", "") and len(cur) >= chunk:
                items.append((kind, cur))
                cur = []
            cur.append(ln)
        if cur:
            items.append((kind, cur))

    def one(ix_item):
        ix, (kind, lines) = ix_item
        tf = os.path.join(workdir, "%s_%s_%d.ndjson" % (tag, kind, ix))
        with open(tf, "w") as f:
            f.writelines(lines)
        cfg = os.path.join(d, "Trace_%s_%d.cfg" % (kind, ix))
        vk.write_cfg(cfg, "TraceSpec", trace_constants(kind, tf))
        fl, consumed, out = vk.tlc_trace(d, TRACE_MODULE[kind], cfg)
        if consumed != len(lines):
            raise vk.Infra("trace validation consumed %d of %d lines (%s)\n%s" % (consumed, len(lines), kind, out[-2000:]))
        return fl, len(lines)
    try:
        for fl, n in vk.pmap(one, list(enumerate(items)), 4):
            fails.extend(fl)
            steps += n
    finally:
        shutil.rmtree(d, ignore_errors=True)
    return fails, steps


def coverage_of(groups):
    cov = collections.Counter()
    sigs = collections.defaultdict(set)
    for kind, lines in groups.items():
        for line in lines:
            d = json.loads(line)
            a = d["a"]
            if a["a"] == "Init":
                continue
            if kind == "RL":
                name = a["a"]
                fate = a.get("fate") or (a.get("pkt") or {}).get("fate") or ""
                key = "RL:%s:%s" % (name, d["res"])
                cov[key] += 1
                if name in ("Recv", "Resolve") and d["res"] == "ok":
                    cov["RL:%s/ack-%s:ok" % (name, d.get("ack"))] += 1
                if name in ("Ack", "Timeout", "Resolve") and d["res"] == "ok":
                    cov["RL:%s/fate-%s:ok" % (name, fate)] += 1
                if d["st"]["rl"]:
                    cov["RL:limited:%s:%s" % (name, d["res"])] += 1
                sigs["C41"].add((name, d["res"], d.get("ack"), fate, a.get("d"), a.get("ch"), bool(d["st"]["rl"]), d.get("nb")))
    return cov, {p: len(s) for p, s in sigs.items()}


FLOORS = {
    "C41": ["RL:Send:ok", "RL:Send:err", "RL:Recv/ack-ok:ok", "RL:Recv/ack-err:ok", "RL:Recv/ack-none:ok",
            "RL:Ack/fate-err:ok", "RL:Ack/fate-ok:ok", "RL:Timeout/fate-to:ok", "RL:Resolve/ack-err:ok", "RL:Resolve/ack-ok:ok",
            "RL:Add:ok", "RL:Update:ok", "RL:Remove:ok", "RL:Reset:ok", "RL:Add:err", "RL:limited:Send:err"],
}


def run_family(tier, seed, binary=None):
    t0 = time.time()
    workdir = os.path.join(vk.CACHE, "work", FAMILY + vk.repo_tag())
    shutil.rmtree(workdir, ignore_errors=True)
    os.makedirs(workdir)
    result, errors = {"mc": {}}, []

    def mc_thread():
        try:
            d = vk.scratch_spec(SPEC_DIR)
            try:
                result["mc"]["RateLimit"] = run_mc_rl(tier, d)
            finally:
                shutil.rmtree(d, ignore_errors=True)
        except Exception as e:  # noqa
            errors.append(e)
    th = threading.Thread(target=mc_thread)
    th.start()
    if binary is None:
        binary = vk.build_harness("transfermw")
    excl41 = bool(open_known("C41"))
    scheds = gen_rl(tier, seed, workdir, excl41)
    vk.log("generated %d schedules in %.1fs" % (len(scheds), time.time() - t0))
    groups = drive(binary, scheds, workdir, "main", sizes(tier)["shards"])
    vk.log("drove %d schedules (%.1fs)" % (len(scheds), time.time() - t0))
    fails, steps = validate(groups, workdir, "main")
    vk.log("validated %d steps, %d monitor failures (%.1fs)" % (steps, len(fails), time.time() - t0))
    th.join()
    if errors:
        raise errors[0]
    cov, sigs = coverage_of(groups)
    sanity = [f for f in fails if f[2] == "X"]
    if sanity:
        raise vk.Infra("harness sanity monitors failed (infrastructure): %s" % sanity[:5])
    by_id = {s["id"]: s for s in scheds}
    failing = {}
    for tr, step, prop, clause in fails:
        if prop in PROPS:
            failing.setdefault(tr, by_id.get(tr))
    conf = collections.Counter(f[3] for f in fails if f[2] == "CONF")
    sample = None
    for kind, lines in sorted(groups.items()):
        first = json.loads(lines[0])["tr"]
        sample = {"schedule_id": first, "kind": kind, "trace_prefix": [slim(json.loads(l)) for l in lines[:8] if json.loads(l)["tr"] == first]}
        break
    result.update({"tier": tier, "seed": seed, "traces": len(scheds), "steps": steps,
                   "fails": [f for f in fails if f[2] in PROPS], "conformance_diagnostics": dict(conf),
                   "coverage": dict(cov), "sigs": sigs, "failing_schedules": failing, "sample": sample,
                   "excluded_known_classes": {"C41": excl41}, "wall": time.time() - t0})
    return result


def slim(d):
    return {"i": d["i"], "a": d["a"], "res": d["res"], "ack": d.get("ack"), "st": d.get("st")}


def replay(schedule, binary=None):
    """Execute one schedule and return its monitor failures."""
    workdir = os.path.join(vk.CACHE, "work", FAMILY + "_replay" + vk.repo_tag())
    shutil.rmtree(workdir, ignore_errors=True)
    os.makedirs(workdir)
    if binary is None:
        binary = vk.build_harness("transfermw")
    groups = drive(binary, [schedule], workdir, "replay", 1)
    fails, _ = validate(groups, workdir, "replay")
    return [f for f in fails if f[2] in PROPS], groups


# ------------------------------------------------------------------------------------------ known findings

def match_known(fail, schedule, known):
    """Is this monitor failure inside a listed input class?  Decided from the schedule (inputs) only."""
    if not schedule:
        return None
    tr, step, prop, clause = fail
    for k in known:
        sig = k.get("signature", {})
        if prop == "C41" and sig.get("class") == "undo-of-packet-whose-marker-survived-update-or-remove" and schedule.get("kind") == "RL":
            hits = rl_class_steps(schedule["acts"])
            if hits and step >= hits[0]:
                return k
    return None


def probe_known(pid, known, result):
    lines = []
    for k in known:
        sig = k.get("signature", {})
        if pid == "C41" and sig.get("class") == "undo-of-packet-whose-marker-survived-update-or-remove":
            hit = []
            for s in rl_kf_schedules():
                fails, _ = replay(s)
                mine = [f for f in fails if f[2] == "C41"]
                if mine:
                    hit.append("%s step %d %s" % (s["id"], mine[0][1], mine[0][3]))
            if hit:
                lines.append("KNOWN-FINDING: property=C41 id=%s rate-limit flow no longer equals the in-window accepted transfers after "
                             "the refund of a packet whose pending marker survived UpdateRateLimit/RemoveRateLimit (%s)" % (k.get("id"), "; ".join(hit)))
            else:
                lines.append("NOTICE: property=C41 id=%s the canonical failing schedules no longer fail (defect fixed?) -- "
                             "the entry can be dropped, the class is then explored again" % k.get("id"))
    return lines
