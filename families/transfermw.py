"""Transfer-middleware family: rate limiting (C41, C42) and packet forwarding (C43) of /repo, as wired in the test
application (core -> rate-limit -> packet-forward -> transfer).

Three specifications under spec/transfermw share one Go driver (harness/transfermw):
  RL     RateLimit.tla   C41  flows = in-window accepted transfers  (MC_RateLimit / Sched_RateLimit / Trace_RateLimit)
  DENOM  RLDenom.tla     C42  charged denomination = denomination ICS-20 moves (function table + real stack)
  PFM    PFM.tla         C43  forwarding is all-or-nothing and conserves tokens

Pipeline per specification (FRAMEWORK.md section 1): (a) exhaustive TLC model check with vacuity witnesses,
(b) TLC generates behaviours / the case table, (c) the Go driver executes them on real ibctesting chains,
(d) TLC validates the recorded traces with property-scoped monitors and prints MONFAIL lines.
"""
import collections
import glob
import json
import os
import re
import shutil
import threading
import time

import vk

FAMILY = "transfermw"
SPEC_DIR = os.path.join(vk.SPEC, "transfermw")
PROPS = ["C41", "C42", "C43"]
# monitor failures of these ids are reported too (judged by another family's property via "also" in its registry entry)
# C30 (ICS-20 conservation): the per-channel balance / native supply clauses of Trace_PFM along forward routes; the ics20
# family's registry entry for C30 lists this family under "also".  The denominations of the PFM world (utoka..utokd) are never
# hop-shaped, so the input class of KF-C30-1 cannot occur here and match_known never matches a C30 failure.
DIAG_PROPS = ["C44", "C30"]

# state of the real chains after the set-up of harness/transfermw/rl.go (checked by the trace spec's X monitors)
RL_INIT = dict(SUPN=4000, SUPV=1000, NS_AB=2, NS_AC=1, NR=2)
RL_HOUR = 12  # ticks of 5 minutes


def open_known(pid):
    return [k for k in vk.known_findings() if k.get("property") == pid and k.get("status", "open") == "open"
            and k.get("family", FAMILY) == FAMILY]


# ------------------------------------------------------------------------------------------ RL (C41)

RL_MC_WITNESS = {
    "quick": ["Block", "Send:ok", "Send:err", "Recv:ok", "Recv:err", "Recv:none", "Ack:ok", "Ack:undo", "Timeout:undo",
              "Resolve:undo", "Add:ok", "Add:err", "Update:ok", "Remove:ok", "Reset:ok", "EpochReset",
              "EpochResetWhilePending", "AdminWhilePending", "UndoOutsideWindow", "ExactQuota", "QuotaRefused",
              "RecvRefusedByQuota",
              "Wl:SendBeyondQuota", "Wl:SendNotCounted", "Wl:UndoLeavesFlow", "Wl:Del", "Wl:OtherPairCounted"],
}
RL_MC_WITNESS["thorough"] = RL_MC_WITNESS["quick"] + ["Resolve:ok", "NetFlowOffsets", "Wl:RecvNotCounted", "Bl:SendRefused",
                                                      "Bl:RecvRefused", "Bl:UndoWhileBlacklisted", "Bl:Del"]


def rl_mc_constants(tier):
    if tier == "quick":
        return dict(HOUR=4, PATHS={"N/AB"}, AMTS={40, 41}, QSS={2}, QRS={2}, DURS={1}, DTS={1}, BDTS={3},
                    FATES_OUT={"ok", "err", "to"}, FATES_IN={"ok", "err", "ferr"}, SEND_CH={"AB"}, MaxPk=2, MaxT=7,
                    WS={0, 1}, WLPAIRS={"uA>rB"}, BLS=set(), SUPN=4000, SUPV=1000)
    return dict(HOUR=4, PATHS={"N/AB", "V/AB"}, AMTS={40, 41}, QSS={2}, QRS={2}, DURS={1, 2}, DTS={1}, BDTS={3},
                FATES_OUT={"ok", "err", "to"}, FATES_IN={"ok", "err", "fok", "ferr"}, SEND_CH={"AB"}, MaxPk=3, MaxT=7,
                WS={0, 1}, WLPAIRS={"uA>rB", "uA>yB", "uB>rA"}, BLS={"N"}, SUPN=4000, SUPV=1000)


def rl_sched_constants(tier, depth, outdir, excl):
    c = dict(HOUR=RL_HOUR, PATHS={"N/AB", "V/AB", "V/AC"}, AMTS={15, 40, 41, 100}, QSS={0, 1, 2, 10, 100},
             QRS={0, 1, 2, 10, 100}, DURS={1, 2}, DTS={1, 2}, BDTS={1, 5, 12},
             FATES_OUT={"ok", "err", "to"}, FATES_IN={"ok", "err", "fok", "ferr", "fto"}, SEND_CH={"AB"},
             MaxPk=1000, MaxT=1000000, Depth=depth, OutDir=outdir, EXCL_KF=bool(excl), MACRO_PCT=45,
             WS={0, 1}, WLPAIRS={"uA>rB", "uA>yB", "uB>rA", "uB>yA", "rB>uA", "uB>rB"}, BLS={"N", "V"}, QPCTS={1, 3, 10, 25, 50})
    c.update(RL_INIT)
    return c


def sizes(tier):
    if tier == "quick":
        return dict(rl_n=18, rl_depth=26, pfm_n=10, pfm_depth=22, denom_chunk=9, shards=12)
    return dict(rl_n=400, rl_depth=45, pfm_n=300, pfm_depth=36, denom_chunk=6, shards=16)


def run_mc_rl(tier, d):
    cfg = os.path.join(d, "MC_RL.cfg")
    consts = rl_mc_constants(tier)
    vk.write_cfg(cfg, "Spec", consts, invariants=["Inv"], properties=["AcceptedWithinQuota", "UndoneOnce"], constraint="Bound")
    r = vk.tlc_mc(d, "MC_RateLimit", cfg, workers=4, timeout=600 if tier == "quick" else 3000)
    seen = set(re.findall(r'<<"WITNESS", "([A-Za-z0-9:]+)">>', r["out"]))
    missing = [w for w in RL_MC_WITNESS[tier] if w not in seen]
    if missing:
        raise vk.Infra("vacuous model check (RateLimit): never witnessed %s" % missing)
    return {"distinct": r["distinct"], "generated": r["generated"], "depth": r["depth"], "witnessed": sorted(seen),
            "constants": {k: (sorted(v) if isinstance(v, set) else v) for k, v in consts.items()}}


# canonical boundary schedules (always executed; the first three are the input class of KF-C41-1 and are only part of
# the general exploration while that finding is not listed as open)
def _pk(ch, seq, d, amt, fate, dir_="out", fw=0):
    return {"dir": dir_, "ch": ch, "seq": seq, "d": d, "amt": amt, "fate": fate, "fw": fw}


def rl_kf_schedules():
    ns, nr, nac = RL_INIT["NS_AB"], RL_INIT["NR"], RL_INIT["NS_AC"]
    add = {"a": "Add", "dt": 1, "d": "N", "ch": "AB", "qs": 10, "qr": 10, "dur": 1}
    upd = {"a": "Update", "dt": 1, "d": "N", "ch": "AB", "qs": 10, "qr": 10, "dur": 1}
    return [
        {"id": "RL-kf1", "kind": "RL", "acts": [
            add, {"a": "Send", "dt": 1, "d": "N", "ch": "AB", "amt": 100, "fate": "to"}, upd,
            {"a": "Send", "dt": 1, "d": "N", "ch": "AB", "amt": 50, "fate": "ok"},
            {"a": "Timeout", "dt": 1, "pkt": _pk("AB", ns, "N", 100, "to"), "kf": True}]},
        {"id": "RL-kf2", "kind": "RL", "acts": [
            add, {"a": "Send", "dt": 1, "d": "N", "ch": "AB", "amt": 100, "fate": "err"},
            {"a": "Remove", "dt": 1, "d": "N", "ch": "AB"}, add,
            {"a": "Send", "dt": 1, "d": "N", "ch": "AB", "amt": 50, "fate": "ok"},
            {"a": "Ack", "dt": 1, "pkt": _pk("AB", ns, "N", 100, "err"), "kf": True}]},
        {"id": "RL-kf3", "kind": "RL", "acts": [
            add, {"a": "Recv", "dt": 1, "d": "N", "ch": "AB", "amt": 100, "fate": "ferr"}, upd,
            {"a": "Recv", "dt": 1, "d": "N", "ch": "AB", "amt": 50, "fate": "ok"},
            {"a": "Resolve", "dt": 1, "pkt": _pk("AB", nr, "N", 100, "ferr", "in", nac), "kf": True}]},
    ]


def rl_boundary_schedules():
    ns = RL_INIT["NS_AB"]
    add = {"a": "Add", "dt": 1, "d": "N", "ch": "AB", "qs": 10, "qr": 10, "dur": 1}
    return [
        # reset between send and refund: the refund is outside the window and must not be subtracted
        # (a second limited path keeps a pending marker throughout, so that Reset / Update / a refused Add happen
        # while markers are pending: vacuity floors RL:pending:Reset, RL:pending:Update, RL:Add:err)
        {"id": "RL-b1", "kind": "RL", "acts": [
            add, {"a": "Add", "dt": 1, "d": "V", "ch": "AB", "qs": 10, "qr": 10, "dur": 2},
            {"a": "Send", "dt": 1, "d": "N", "ch": "AB", "amt": 100, "fate": "to"},
            {"a": "Send", "dt": 1, "d": "V", "ch": "AB", "amt": 15, "fate": "ok"},
            {"a": "Reset", "dt": 1, "d": "N", "ch": "AB"},
            {"a": "Send", "dt": 1, "d": "N", "ch": "AB", "amt": 50, "fate": "ok"},
            {"a": "Timeout", "dt": 1, "pkt": _pk("AB", ns, "N", 100, "to")},
            add,
            {"a": "Update", "dt": 1, "d": "N", "ch": "AB", "qs": 10, "qr": 10, "dur": 1},
            {"a": "Ack", "dt": 1, "pkt": _pk("AB", ns + 2, "N", 50, "ok")}]},
        # exactly at the quota (400 of 4000 at 10 %), one above, refund, again
        {"id": "RL-b2", "kind": "RL", "acts": [
            add, {"a": "Send", "dt": 1, "d": "N", "ch": "AB", "amt": 400, "fate": "err"},
            {"a": "Send", "dt": 1, "d": "N", "ch": "AB", "amt": 1, "fate": "ok"},
            {"a": "Ack", "dt": 1, "pkt": _pk("AB", ns, "N", 400, "err")},
            {"a": "Send", "dt": 1, "d": "N", "ch": "AB", "amt": 401, "fate": "ok"},
            {"a": "Recv", "dt": 1, "d": "N", "ch": "AB", "amt": 400, "fate": "ok"},
            {"a": "Recv", "dt": 1, "d": "N", "ch": "AB", "amt": 1, "fate": "ok"},
            {"a": "Send", "dt": 1, "d": "N", "ch": "AB", "amt": 800, "fate": "ok"},
            {"a": "Send", "dt": 1, "d": "N", "ch": "AB", "amt": 1, "fate": "ok"}]},
        # asynchronously acknowledged (forwarded) receives resolved inside the window: failed forwards are undone, a
        # successful one stays counted
        {"id": "RL-b4", "kind": "RL", "acts": [
            add, {"a": "Recv", "dt": 1, "d": "N", "ch": "AB", "amt": 100, "fate": "ferr"},
            {"a": "Recv", "dt": 1, "d": "N", "ch": "AB", "amt": 60, "fate": "fok"},
            {"a": "Recv", "dt": 1, "d": "N", "ch": "AB", "amt": 30, "fate": "fto"},
            {"a": "Resolve", "dt": 1, "pkt": _pk("AB", RL_INIT["NR"], "N", 100, "ferr", "in", RL_INIT["NS_AC"])},
            {"a": "Resolve", "dt": 1, "pkt": _pk("AB", RL_INIT["NR"] + 2, "N", 30, "fto", "in", RL_INIT["NS_AC"] + 2)},
            {"a": "Resolve", "dt": 1, "pkt": _pk("AB", RL_INIT["NR"] + 1, "N", 60, "fok", "in", RL_INIT["NS_AC"] + 1)},
            {"a": "Recv", "dt": 1, "d": "N", "ch": "AB", "amt": 340, "fate": "ok"},
            {"a": "Recv", "dt": 1, "d": "N", "ch": "AB", "amt": 1, "fate": "ok"}]},
        # epoch boundary exactly at the hour (tick 12): no reset at 12, reset at 13
        {"id": "RL-b3", "kind": "RL", "acts": [
            add, {"a": "Send", "dt": 1, "d": "N", "ch": "AB", "amt": 100, "fate": "to"},
            {"a": "Send", "dt": 9, "d": "N", "ch": "AB", "amt": 30, "fate": "err"},
            {"a": "Timeout", "dt": 1, "pkt": _pk("AB", ns, "N", 100, "to")},
            {"a": "Send", "dt": 1, "d": "N", "ch": "AB", "amt": 20, "fate": "ok"},
            {"a": "Ack", "dt": 1, "pkt": _pk("AB", ns + 1, "N", 30, "err")}]},
    ]


def rl_list_schedules():
    """Canonical schedules for the whitelist / blacklist class (always executed): a counted transfer and a whitelisted one
    (address pair snd>rcv; w = 1 names the second receiver account) that fails in the same window -- send side with a
    timeout and with an error acknowledgement, receive side with failed forwards (async ack) --, a whitelisted transfer
    beyond the quota, removal from the whitelist, refused transfers of a blacklisted denomination and the refund of a
    counted packet while its denomination is blacklisted, a packet sent before its path got a limit."""
    ns, nr, nac = RL_INIT["NS_AB"], RL_INIT["NR"], RL_INIT["NS_AC"]
    add = {"a": "Add", "dt": 1, "d": "N", "ch": "AB", "qs": 10, "qr": 10, "dur": 1}

    def snd(amt, fate, w=0, d="N"):
        return {"a": "Send", "dt": 1, "d": d, "ch": "AB", "amt": amt, "fate": fate, "w": w}

    def rcv(amt, fate, w=0, d="N"):
        return {"a": "Recv", "dt": 1, "d": d, "ch": "AB", "amt": amt, "fate": fate, "w": w}

    def wl(name, pair):
        return {"a": name, "dt": 1, "pair": pair}

    def bl(name, d):
        return {"a": name, "dt": 1, "d": d}
    return [
        {"id": "RL-w1", "kind": "RL", "acts": [
            add, wl("WlAdd", "uA>rB"), snd(100, "ok"), snd(80, "to", 1),
            {"a": "Timeout", "dt": 1, "pkt": _pk("AB", ns + 1, "N", 80, "to")},        # never counted: outflow stays 100
            snd(300, "ok"), snd(1, "ok"),                                               # 400 = the quota, one above refused
            snd(500, "ok", 1),                                                          # whitelisted: beyond the quota
            {"a": "Ack", "dt": 1, "pkt": _pk("AB", ns, "N", 100, "ok")}]},
        {"id": "RL-w2", "kind": "RL", "acts": [
            add, wl("WlAdd", "uA>yB"), snd(100, "to"), snd(80, "err", 1),
            {"a": "Ack", "dt": 1, "pkt": _pk("AB", ns + 1, "N", 80, "err")},           # never counted
            wl("WlDel", "uA>yB"), snd(70, "err", 1),                                    # counted again
            {"a": "Ack", "dt": 1, "pkt": _pk("AB", ns + 2, "N", 70, "err")},
            {"a": "Timeout", "dt": 1, "pkt": _pk("AB", ns, "N", 100, "to")}]},
        {"id": "RL-w3", "kind": "RL", "acts": [
            add, wl("WlAdd", "uB>rA"), rcv(100, "ok"), rcv(80, "ferr", 1),
            {"a": "Resolve", "dt": 1, "pkt": _pk("AB", nr + 1, "N", 80, "ferr", "in", nac)},
            rcv(60, "fto", 1),
            {"a": "Resolve", "dt": 1, "pkt": _pk("AB", nr + 2, "N", 60, "fto", "in", nac + 1)},
            rcv(300, "ok"), rcv(1, "ok"), rcv(500, "ok", 1)]},
        # pairs that must not match (reversed, same sender only) and a voucher path
        {"id": "RL-w4", "kind": "RL", "acts": [
            {"a": "Add", "dt": 1, "d": "V", "ch": "AB", "qs": 10, "qr": 10, "dur": 1},
            wl("WlAdd", "rB>uA"), wl("WlAdd", "uB>rB"), wl("WlAdd", "uA>rB"),
            snd(40, "ok", 0, "V"), snd(30, "to", 1, "V"), rcv(20, "ok", 0, "V"), rcv(25, "ok", 1, "V"),
            {"a": "Timeout", "dt": 1, "pkt": _pk("AB", ns + 1, "V", 30, "to")},
            snd(80, "ok", 0, "V"), snd(1, "ok", 0, "V")]},                             # 40 + 80 - 45 = 75... below 100: accepted
        {"id": "RL-bl1", "kind": "RL", "acts": [
            add, snd(100, "to"), bl("BlAdd", "N"), snd(50, "ok"), rcv(50, "ok"),
            {"a": "Timeout", "dt": 1, "pkt": _pk("AB", ns, "N", 100, "to")},           # undone while blacklisted
            bl("BlDel", "N"), snd(400, "ok"), snd(1, "ok")]},
        # sent / received while the path had no limit, refunded after the limit was added
        {"id": "RL-n1", "kind": "RL", "acts": [
            snd(100, "to"), rcv(70, "ferr"), add, snd(50, "ok"), rcv(30, "ok"),
            {"a": "Timeout", "dt": 1, "pkt": _pk("AB", ns, "N", 100, "to")},
            {"a": "Resolve", "dt": 1, "pkt": _pk("AB", nr, "N", 70, "ferr", "in", nac)},
            snd(380, "ok"), snd(1, "ok")]},                                             # 50 - 30 + 380 = 400 = the quota
    ]


def rl_quota_schedules():
    """Canonical schedules for the quota arithmetic (always executed): the voucher supply (1000 after the set-up) is moved
    to values whose  value * percent / 100  has a fractional part above one half (10.6, 10.7), exactly one half with an odd
    / even integer part (11.5, 10.5), just above / below one half (30.51, 32.49); then flows exactly at the truncated
    threshold and exactly one unit above it: in one transfer and in two, sends, receives (net of the opposite flow) and
    forwarded receives (quota of the forward path)."""
    ns, nr, nac = RL_INIT["NS_AB"], RL_INIT["NR"], RL_INIT["NS_AC"]

    def snd(amt, fate="ok"):
        return {"a": "Send", "dt": 1, "d": "V", "ch": "AB", "amt": amt, "fate": fate}

    def rcv(amt, fate="ok"):
        return {"a": "Recv", "dt": 1, "d": "V", "ch": "AB", "amt": amt, "fate": fate}

    def lim(name, pct, ch="AB"):
        return {"a": name, "dt": 1, "d": "V", "ch": ch, "qs": pct, "qr": pct, "dur": 3}   # no epoch reset before tick 25
    adm = lambda name, ch="AB": {"a": name, "dt": 1, "d": "V", "ch": ch}  # noqa
    return [
        {"id": "RL-q1", "kind": "RL", "acts": [
            rcv(60), lim("Add", 1),                       # channel value 1060 at 1 %: 10.6 -> 10
            snd(10), snd(1),                              # at the threshold; one above
            rcv(20), rcv(1),                              # net inflow 20 - 10 = 10; one above
            adm("Reset"),                                 # channel value 1070: 10.7 -> 10
            snd(11), snd(10, "err"),
            {"a": "Ack", "dt": 1, "pkt": _pk("AB", ns + 1, "V", 10, "err")}, rcv(11), rcv(10)]},
        {"id": "RL-q2", "kind": "RL", "acts": [
            rcv(150), lim("Add", 1),                      # 1150 at 1 %: 11.5 -> 11 (odd integer part)
            snd(11), snd(1),
            adm("Remove"), snd(89),                       # supply 1050
            lim("Add", 1),                                # 10.5 -> 10 (even integer part)
            snd(10), snd(1), rcv(21), rcv(20)]},
        {"id": "RL-q3", "kind": "RL", "acts": [
            rcv(17), lim("Add", 3),                       # 1017 at 3 %: 30.51 -> 30
            snd(31), snd(30, "to"), rcv(61), rcv(60),
            {"a": "Timeout", "dt": 1, "pkt": _pk("AB", ns, "V", 30, "to")},
            adm("Remove"), rcv(6),                        # supply 1017 + 60 + 6 = 1083
            lim("Add", 3),                                # 32.49 -> 32
            snd(33), snd(32), rcv(65), rcv(64)]},
        {"id": "RL-q4", "kind": "RL", "acts": [
            rcv(60), lim("Add", 1, "AC"),                 # forward path V/AC: 1060 at 1 %: 10.6 -> 10
            rcv(11, "fok"), rcv(10, "fok"), rcv(1, "fok"),
            {"a": "Resolve", "dt": 1, "pkt": _pk("AB", nr + 2, "V", 10, "fok", "in", nac)},
            lim("Update", 25, "AC"),                      # channel value 1070 at 25 %: 267.5 -> 267 (odd)
            rcv(268, "ferr"), rcv(267, "ferr"),
            {"a": "Resolve", "dt": 1, "pkt": _pk("AB", nr + 5, "V", 267, "ferr", "in", nac + 1)},
            rcv(267, "fto"), rcv(1, "fok")]},
    ]


def gen_rl(tier, seed, workdir, excl):
    sz = sizes(tier)
    d = vk.scratch_spec(SPEC_DIR)
    try:
        outdir = os.path.join(workdir, "sched_RL")
        os.makedirs(outdir, exist_ok=True)
        cfg = os.path.join(d, "Sched_RL.cfg")
        vk.write_cfg(cfg, "Spec", rl_sched_constants(tier, sz["rl_depth"], outdir, excl))
        vk.tlc_simulate(d, "Sched_RateLimit", cfg, sz["rl_n"], sz["rl_depth"] + 1, seed * 11 + 1, workers=1,
                        timeout=600 if tier == "quick" else 2400)
        out = []
        for i, f in enumerate(sorted(glob.glob(os.path.join(outdir, "*.json")))):
            s = json.load(open(f))
            s["id"] = "RL-%d-%d" % (seed, i)
            out.append(s)
    finally:
        shutil.rmtree(d, ignore_errors=True)
    out = out[: sz["rl_n"]]
    if len(out) < 3:
        raise vk.Infra("schedule generation (RL) produced only %d schedules" % len(out))
    out += rl_boundary_schedules() + rl_list_schedules() + rl_quota_schedules()
    if not excl:
        out += rl_kf_schedules()
    return out


def rl_class_steps(acts):
    """Input class of KF-C41-1: 1-based indices of the steps the schedule generator (Sched_RateLimit.InClass, decided from
    the history of inputs) or the author of a canonical schedule marked with kf = true: the undo (timeout, error
    acknowledgement, failed forward) of a packet whose pending marker existed on its path when the path was updated or
    removed, with no reset of the path and no terminal event of the packet in between."""
    return [i for i, a in enumerate(acts, 1) if a.get("kf")]


# ------------------------------------------------------------------------------------------ DENOM (C42)

DENOM_BASES = ["plain", "pool3", "lp3", "vouchershape", "two-id", "two-plain", "even-id", "lp5", "shortport", "single-id"]
DENOM_ROUTES = {
    "quick": ["ab", "ab-ba", "ab-ba2", "ab-bc-cb-ba", "b:ba-ab2", "ab-badrcv", "ab-overdraw"],
    "thorough": ["ab", "ab-ba", "ab-ba2", "ab-bc", "ab-bc-cb", "ab-bc-cb-ba", "ab-ba2-ab2", "b:bc-cb", "b:ba-ab2",
                 "ab-badrcv", "ab-overdraw", "ab-ba-badrcv"],
}
DENOM_KF_BASES = ["lp3", "vouchershape", "lp5", "two-id"]    # canonical failing members of the class of KF-C42-1
DENOM_MC_WITNESS = ["send-escrow", "send-burn", "recv-mint", "recv-unescrow", "recv-unescrow-fails", "send-invalid",
                    "class-send-differs", "class-recv-differs", "multi-hop-voucher", "full-unwind", "second-channel"]


def run_mc_denom(tier, d):
    cfg = os.path.join(d, "MC_DENOM.cfg")
    vk.write_cfg(cfg, "Spec", {}, invariants=["Agree"])
    # write_cfg emits an empty CONSTANTS section
    txt = open(cfg).read().replace("CONSTANTS\n", "")
    open(cfg, "w").write(txt)
    r = vk.tlc_mc(d, "MC_RLDenom", cfg, workers=2, timeout=600)
    seen = set(re.findall(r'<<"WITNESS", "([A-Za-z0-9:-]+)">>', r["out"]))
    missing = [w for w in DENOM_MC_WITNESS if w not in seen]
    if missing:
        raise vk.Infra("vacuous model check (RLDenom): never witnessed %s" % missing)
    return {"distinct": r["distinct"], "generated": r["generated"], "depth": r["depth"], "witnessed": sorted(seen),
            "constants": {"bases": DENOM_BASES, "routes": DENOM_ROUTES["thorough"]}}


_BIN = {}


def harness_binary():
    """Build the driver once per process (replays and probes reuse it)."""
    if "bin" not in _BIN:
        _BIN["bin"] = vk.build_harness("transfermw")
    return _BIN["bin"]


def denom_table(workdir, bases, routes, excl, tag):
    """TLC enumerates the case table (RLDenom.BaseSegs x RouteOf) once; returns the list of cases."""
    d = vk.scratch_spec(SPEC_DIR)
    try:
        out = os.path.join(workdir, "denom_table_%s.json" % tag)
        cfg = os.path.join(d, "Sched_DENOM.cfg")
        vk.write_cfg(cfg, "Spec", dict(OutFile=out, EXCL_KF=bool(excl), BASES=set(bases), ROUTES=set(routes)))
        rc, o = vk._tlc(["-workers", "1", "-config", cfg, "Sched_RLDenom.tla"], d, 300)
        if rc != 0 or not os.path.exists(out):
            raise vk.Infra("case table generation (RLDenom) failed:\n%s" % o[-3000:])
        table = json.load(open(out))
    finally:
        shutil.rmtree(d, ignore_errors=True)
    table.sort(key=lambda c: (c["base"], c["route"]))
    return table


def gen_denom(tier, seed, workdir, excl):
    table = denom_table(workdir, DENOM_BASES, DENOM_ROUTES[tier], excl, "main")
    if len(table) < 10:
        raise vk.Infra("case table (RLDenom) has only %d cases" % len(table))
    # the seed only permutes the order in which the cases share chains
    import random
    rnd = random.Random(seed)
    rnd.shuffle(table)
    chunk = sizes(tier)["denom_chunk"]
    scheds = []
    for i in range(0, len(table), chunk):
        acts = []
        for c in table[i:i + chunk]:
            acts += c["acts"]
        scheds.append({"id": "DN-%d-%d" % (seed, i // chunk), "kind": "DENOM", "acts": acts})
    return scheds


def denom_kf_schedules(workdir):
    table = denom_table(workdir, DENOM_KF_BASES, ["ab", "ab-ba"], False, "kf")
    acts = []
    for c in table:
        acts += c["acts"]
    return [{"id": "DN-kf", "kind": "DENOM", "acts": acts}]


def denom_case_of_step(acts, step):
    """The Case action (inputs of the journey) a 1-based step index belongs to."""
    cur = None
    for i, a in enumerate(acts, 1):
        if a.get("a") == "Case":
            cur = a
        if i == step:
            return cur
    return cur


# ------------------------------------------------------------------------------------------ PFM (C43)

PFM_MC_WITNESS = ["Transfer", "Recv:final", "Recv:forward", "Recv:err", "Ack:ok", "Ack:err", "Ack:fwd-ok", "Ack:fwd-err",
                  "Timeout:plain", "Timeout:giveup", "Timeout:retry", "Terminal:delivered", "Terminal:refunded",
                  "Refund:move", "Refund:burn", "Refund:mint", "Unwind:2", "Depth:3", "BadChannel",
                  "Refund:move-voucher", "Refund:move-voucher-timeout", "Route:x", "Forward:third-channel", "Mid:valid"]
PFM_MC_WITNESS_THOROUGH = ["Route:xb", "SendOff:retry-fails", "SendOff:forward-fails", "SendOff:retry-after-on"]


def pfm_mc_constants(tier):
    if tier == "quick":
        return dict(TOKENS={"TA", "TC", "TX"}, ROUTES={"std", "x"}, DEPTHS={2, 3}, AMTS={7}, RETS={0, 1}, TOS={10},
                    FINS={"rcvr", "bad"}, MIDS={"rcvr"}, BADHOPS={0, 2}, EXPS={0, 5}, MaxJ=1, MaxOff=0)
    return dict(TOKENS={"TA", "TB", "TC", "TD", "TX"}, ROUTES={"std", "x", "xb"}, DEPTHS={1, 2, 3}, AMTS={7}, RETS={0, 1}, TOS={10},
                FINS={"rcvr", "bad"}, MIDS={"pfm", "rcvr"}, BADHOPS={0, 1, 2}, EXPS={0, 5}, MaxJ=1, MaxOff=1)


def pfm_sched_constants(tier, depth, outdir):
    return dict(TOKENS={"TA", "TB", "TC", "TD", "TX"}, ROUTES={"std", "x", "xb"}, DEPTHS={1, 2, 3} if tier != "quick" else {2, 3},
                AMTS={7, 13}, RETS={0, 1}, TOS={10, 3}, FINS={"rcvr", "bad"}, MIDS={"pfm", "rcvr"}, BADHOPS={0, 1, 2}, EXPS={0, 5},
                Depth=depth, OutDir=outdir, OFF_PCT=15,
                ADV_PCT=12, TIMEOUT_PCT=35, XI_PCT=8)


def run_mc_pfm(tier, d):
    cfg = os.path.join(d, "MC_PFM.cfg")
    consts = pfm_mc_constants(tier)
    vk.write_cfg(cfg, "Spec", consts, invariants=["Inv"], properties=["AllOrNothing"])
    r = vk.tlc_mc(d, "MC_PFM", cfg, workers=4, timeout=900 if tier == "quick" else 3000)
    seen = set(re.findall(r'<<"WITNESS", "([A-Za-z0-9:-]+)">>', r["out"]))
    missing = [w for w in PFM_MC_WITNESS + (PFM_MC_WITNESS_THOROUGH if tier != "quick" else []) if w not in seen]
    if missing:
        raise vk.Infra("vacuous model check (PFM): never witnessed %s" % missing)
    return {"distinct": r["distinct"], "generated": r["generated"], "depth": r["depth"], "witnessed": sorted(seen),
            "constants": {k: (sorted(v) if isinstance(v, set) else v) for k, v in consts.items()}}


def _hop(L, rcv, to=10, ret=0, chok=True):
    return {"L": L, "rcv": rcv, "to": to, "ret": ret, "chok": chok}


def pfm_boundary_schedules():
    """Fixed journeys: the three refund cases of the middleware, a retry that succeeds, a retry that gives up, a
    receive one tick before / exactly at the timeout.  Packet records are those the specification predicts
    (sequence numbers after the set-up: A/AB 1.., B/BC 1.., C/CD 1..)."""
    TA = {"t": [], "b": "TA"}
    TC = {"t": ["AB@A", "BC@B"], "b": "TC"}

    def tr(d, amt, memo, rcv="pfm"):
        return {"a": "Transfer", "dt": 1, "c": "A", "L": "AB", "d": d, "amt": amt, "rcv": rcv, "memo": memo, "exp": 0}

    def pkt(src, L, seq, d, amt, snd, rcv, memo, exp):
        return {"src": src, "L": L, "seq": seq, "d": d, "amt": amt, "snd": snd, "rcv": rcv, "memo": memo, "exp": exp}
    out = []
    # 1. native token, depth 2, retries 1: first forward times out (retry), the retry is delivered
    m = [_hop("BC", "rcvr", 10, 1)]
    p1 = pkt("A", "AB", 1, TA, 7, "user", "pfm", m, 0)
    f1 = pkt("B", "BC", 1, {"t": ["AB@B"], "b": "TA"}, 7, "pfm", "rcvr", [], 13)     # forwarded at tick 3
    f2 = pkt("B", "BC", 2, {"t": ["AB@B"], "b": "TA"}, 7, "pfm", "rcvr", [], 24)     # retried at tick 14
    out.append({"id": "PF-b1", "kind": "PFM", "acts": [
        tr(TA, 7, m), {"a": "Recv", "dt": 1, "pkt": p1},
        {"a": "Recv", "dt": 10, "pkt": f1},                   # exactly at the timeout: must be rejected
        {"a": "Timeout", "dt": 1, "pkt": f1},                  # tick 14 > 13: retry
        {"a": "Recv", "dt": 9, "pkt": f2},                     # tick 23 = one tick before the timeout: last chance
        {"a": "Ack", "dt": 1, "pkt": f2}, {"a": "Ack", "dt": 1, "pkt": p1}]})
    # 2. token of C unwinding twice, depth 2, retries 1, both attempts time out: give up, mint back, refund
    m = [_hop("BC", "rcvr", 3, 1)]
    p1 = pkt("A", "AB", 1, TC, 13, "user", "pfm", m, 0)
    f1 = pkt("B", "BC", 1, {"t": ["BC@B"], "b": "TC"}, 13, "pfm", "rcvr", [], 6)
    f2 = pkt("B", "BC", 2, {"t": ["BC@B"], "b": "TC"}, 13, "pfm", "rcvr", [], 10)
    out.append({"id": "PF-b2", "kind": "PFM", "acts": [
        tr(TC, 13, m), {"a": "Recv", "dt": 1, "pkt": p1},
        {"a": "Timeout", "dt": 3, "pkt": f1},                  # tick 6 = timeout: too early, rejected
        {"a": "Timeout", "dt": 1, "pkt": f1},                  # tick 7: retry
        {"a": "Timeout", "dt": 4, "pkt": f2},                  # tick 11 > 10: give up
        {"a": "Ack", "dt": 1, "pkt": p1}]})
    # vouchers that reached B over a THIRD channel (neither the channel the packet arrived on nor the one it is forwarded
    # over): on failure the funds are moved from the forward escrow back to the refund escrow, never burned
    TX = {"t": ["AB@A", "BX@B"], "b": "TC"}
    TD = {"t": ["AB@A", "BC@B", "CD@C"], "b": "TD"}
    # 3. TC that came over BX, forwarded over BC, error acknowledgement on the last hop
    m = [_hop("BC", "bad", 10, 0)]
    p1 = pkt("A", "AB", 1, TX, 7, "user", "pfm", m, 0)
    f1 = pkt("B", "BC", 1, {"t": ["BX@B"], "b": "TC"}, 7, "pfm", "bad", [], 13)
    out.append({"id": "PF-b3", "kind": "PFM", "acts": [
        tr(TX, 7, m), {"a": "Recv", "dt": 1, "pkt": p1}, {"a": "Recv", "dt": 1, "pkt": f1},
        {"a": "Ack", "dt": 1, "pkt": f1}, {"a": "Ack", "dt": 1, "pkt": p1},
        # and the same token delivered, so that the escrows are exercised in the success direction too
        tr(TX, 13, [_hop("BC", "rcvr", 10, 0)]),
        {"a": "Recv", "dt": 1, "pkt": pkt("A", "AB", 2, TX, 13, "user", "pfm", [_hop("BC", "rcvr", 10, 0)], 0)},
        {"a": "Recv", "dt": 1, "pkt": pkt("B", "BC", 2, {"t": ["BX@B"], "b": "TC"}, 13, "pfm", "rcvr", [], 18)},
        {"a": "Ack", "dt": 1, "pkt": pkt("B", "BC", 2, {"t": ["BX@B"], "b": "TC"}, 13, "pfm", "rcvr", [], 18)},
        {"a": "Ack", "dt": 1, "pkt": pkt("A", "AB", 2, TX, 13, "user", "pfm", [_hop("BC", "rcvr", 10, 0)], 0)}]})
    # 4. TC that came over BC, forwarded over BX, timeout without retries
    m = [_hop("BX", "rcvr", 3, 0)]
    p1 = pkt("A", "AB", 1, TC, 13, "user", "pfm", m, 0)
    f1 = pkt("B", "BX", 1, {"t": ["BC@B"], "b": "TC"}, 13, "pfm", "rcvr", [], 6)
    out.append({"id": "PF-b4", "kind": "PFM", "acts": [
        tr(TC, 13, m), {"a": "Recv", "dt": 1, "pkt": p1}, {"a": "Timeout", "dt": 4, "pkt": f1}, {"a": "Ack", "dt": 1, "pkt": p1}]})
    # 5. TD (two hops of trace on B) over BX and on to D, invalid final receiver: burn on C, move on B
    m = [_hop("BX", "pfm", 10, 0), _hop("CD", "bad", 10, 0)]
    p1 = pkt("A", "AB", 1, TD, 7, "user", "pfm", m, 0)
    f1 = pkt("B", "BX", 1, {"t": ["BC@B", "CD@C"], "b": "TD"}, 7, "pfm", "pfm", m[1:], 13)
    f2 = pkt("C", "CD", 1, {"t": ["BX@C", "BC@B", "CD@C"], "b": "TD"}, 7, "pfm", "bad", [], 14)
    out.append({"id": "PF-b5", "kind": "PFM", "acts": [
        tr(TD, 7, m), {"a": "Recv", "dt": 1, "pkt": p1}, {"a": "Recv", "dt": 1, "pkt": f1}, {"a": "Recv", "dt": 1, "pkt": f2},
        {"a": "Ack", "dt": 1, "pkt": f2}, {"a": "Ack", "dt": 1, "pkt": f1}, {"a": "Ack", "dt": 1, "pkt": p1}]})
    # 6. three hops, VALID receivers named for the intermediate hops, the first forward times out and is retried: the retried
    #    packet must carry the rest of the route and the tokens must reach the final receiver on D
    m = [_hop("BC", "rcvr", 3, 1), _hop("CD", "rcvr", 10, 0)]
    TAB = {"t": ["AB@B"], "b": "TA"}
    p1 = pkt("A", "AB", 1, TA, 7, "user", "rcvr", m, 0)
    f1 = pkt("B", "BC", 1, TAB, 7, "pfm", "rcvr", m[1:], 6)
    f2 = pkt("B", "BC", 2, TAB, 7, "pfm", "rcvr", m[1:], 10)
    g1 = pkt("C", "CD", 1, {"t": ["BC@C", "AB@B"], "b": "TA"}, 7, "pfm", "rcvr", [], 18)
    out.append({"id": "PF-b6", "kind": "PFM", "acts": [
        tr(TA, 7, m, "rcvr"), {"a": "Recv", "dt": 1, "pkt": p1}, {"a": "Timeout", "dt": 4, "pkt": f1},
        {"a": "Recv", "dt": 1, "pkt": f2}, {"a": "Recv", "dt": 1, "pkt": g1},
        {"a": "Ack", "dt": 1, "pkt": g1}, {"a": "Ack", "dt": 1, "pkt": f2}, {"a": "Ack", "dt": 1, "pkt": p1}]})
    # 7. the retry of a timed-out forward cannot be sent (transfer parameter SendEnabled of B is false): the timeout
    #    transaction fails as a whole; after sends are enabled again it is processed and the retry is delivered.
    #    Native token of B (refund case "move"; the BC escrow holds funds of an earlier, delivered journey)
    TB = {"t": ["AB@A"], "b": "TB"}
    TBn = {"t": [], "b": "TB"}
    m1, m2 = [_hop("BC", "rcvr", 10, 0)], [_hop("BC", "rcvr", 3, 1)]
    p1 = pkt("A", "AB", 1, TB, 13, "user", "pfm", m1, 0)
    f1 = pkt("B", "BC", 1, TBn, 13, "pfm", "rcvr", [], 13)
    p2 = pkt("A", "AB", 2, TB, 7, "user", "pfm", m2, 0)
    f2 = pkt("B", "BC", 2, TBn, 7, "pfm", "rcvr", [], 11)
    f3 = pkt("B", "BC", 3, TBn, 7, "pfm", "rcvr", [], 17)
    out.append({"id": "PF-b7", "kind": "PFM", "acts": [
        tr(TB, 13, m1), {"a": "Recv", "dt": 1, "pkt": p1}, {"a": "Recv", "dt": 1, "pkt": f1}, {"a": "Ack", "dt": 1, "pkt": f1},
        {"a": "Ack", "dt": 1, "pkt": p1},
        tr(TB, 7, m2), {"a": "Recv", "dt": 1, "pkt": p2}, {"a": "SetSend", "dt": 1, "c": "B", "on": False},
        {"a": "Timeout", "dt": 3, "pkt": f2},                  # tick 12 > 11, retry impossible: rejected, nothing moves
        {"a": "SetSend", "dt": 1, "c": "B", "on": True},
        {"a": "Timeout", "dt": 1, "pkt": f2},                  # retried
        {"a": "Recv", "dt": 1, "pkt": f3}, {"a": "Ack", "dt": 1, "pkt": f3}, {"a": "Ack", "dt": 1, "pkt": p2}]})
    # 8. the same with a token that unwinds over the forward channel (refund case "mint"), the retry times out as well;
    #    and a forward that cannot be sent at all (error acknowledgement, the receive is discarded)
    m = [_hop("BC", "rcvr", 3, 1)]
    TCB = {"t": ["BC@B"], "b": "TC"}
    p1 = pkt("A", "AB", 1, TC, 13, "user", "pfm", m, 0)
    f1 = pkt("B", "BC", 1, TCB, 13, "pfm", "rcvr", [], 6)
    f2 = pkt("B", "BC", 2, TCB, 13, "pfm", "rcvr", [], 12)
    p2 = pkt("A", "AB", 2, TC, 7, "user", "pfm", m, 0)
    out.append({"id": "PF-b8", "kind": "PFM", "acts": [
        tr(TC, 13, m), {"a": "Recv", "dt": 1, "pkt": p1}, {"a": "SetSend", "dt": 1, "c": "B", "on": False},
        {"a": "Timeout", "dt": 3, "pkt": f1}, {"a": "SetSend", "dt": 1, "c": "B", "on": True},
        {"a": "Timeout", "dt": 1, "pkt": f1}, {"a": "Timeout", "dt": 4, "pkt": f2}, {"a": "Ack", "dt": 1, "pkt": p1},
        {"a": "SetSend", "dt": 1, "c": "B", "on": False}, tr(TC, 7, m), {"a": "Recv", "dt": 1, "pkt": p2},
        {"a": "Ack", "dt": 1, "pkt": p2}, {"a": "SetSend", "dt": 1, "c": "B", "on": True}]})
    return out


def gen_pfm(tier, seed, workdir):
    sz = sizes(tier)
    d = vk.scratch_spec(SPEC_DIR)
    try:
        outdir = os.path.join(workdir, "sched_PFM")
        os.makedirs(outdir, exist_ok=True)
        cfg = os.path.join(d, "Sched_PFM.cfg")
        vk.write_cfg(cfg, "Spec", pfm_sched_constants(tier, sz["pfm_depth"], outdir))
        vk.tlc_simulate(d, "Sched_PFM", cfg, sz["pfm_n"], sz["pfm_depth"] + 1, seed * 13 + 2, workers=1,
                        timeout=600 if tier == "quick" else 2400)
        out = []
        for i, f in enumerate(sorted(glob.glob(os.path.join(outdir, "*.json")))):
            s = json.load(open(f))
            s["id"] = "PF-%d-%d" % (seed, i)
            out.append(s)
    finally:
        shutil.rmtree(d, ignore_errors=True)
    out = out[: sz["pfm_n"]]
    if len(out) < 3:
        raise vk.Infra("schedule generation (PFM) produced only %d schedules" % len(out))
    return out + pfm_boundary_schedules()


# ------------------------------------------------------------------------------------------ driving / validation

def drive(binary, scheds, workdir, tag, nshards):
    """Execute schedules on the real code; returns {kind: [trace lines]}."""
    shards = vk.shard(scheds, nshards)

    def one(ix):
        sp = os.path.join(workdir, "%s_sched_%d.ndjson" % (tag, ix))
        tp = os.path.join(workdir, "%s_trace_%d.ndjson" % (tag, ix))
        with open(sp, "w") as f:
            for s in shards[ix]:
                f.write(json.dumps(s) + "\n")
        rc, out = vk.run_driver(binary, "TestDrive", {"VERIF_SCHED": sp, "VERIF_TRACE": tp})
        if rc != 0:
            raise vk.Infra("driver failed (rc=%d):\n%s" % (rc, out[-3000:]))
        return tp
    files = vk.pmap(one, list(range(len(shards))), len(shards))
    groups = collections.defaultdict(list)
    for f in files:
        for line in open(f):
            if line.strip():
                groups[json.loads(line)["kind"]].append(line)
    return groups


TRACE_MODULE = {"RL": "Trace_RateLimit", "DENOM": "Trace_RLDenom", "PFM": "Trace_PFM"}


def trace_constants(kind, tf):
    if kind == "RL":
        return dict(HOUR=RL_HOUR, TraceFile=tf)
    if kind == "PFM":   # the journey constants are not used by the trace specification
        return dict(TOKENS={"TA"}, ROUTES={"std"}, DEPTHS={1}, AMTS={1}, RETS={0}, TOS={1}, FINS={"rcvr"}, MIDS={"pfm"}, BADHOPS={0},
                    EXPS={0}, TraceFile=tf)
    return dict(TraceFile=tf)


MONFAIL_RE = re.compile(r'<<\s*"MONFAIL",\s*"([^"]*)",\s*(\d+),\s*<<\s*"([^"]*)",\s*"([^"]*)"\s*>>\s*>>')


def validate(groups, workdir, tag, chunk=6000):
    d = vk.scratch_spec(SPEC_DIR)
    fails, steps = [], 0
    items = []
    for kind, lines in groups.items():
        # split on trace boundaries so that several TLC runs share the work
        cur = []
        for ln in lines:
            if '"a":{"a":"Init"' in ln.replace(" ", "") and len(cur) >= chunk:
                items.append((kind, cur))
                cur = []
            cur.append(ln)
        if cur:
            items.append((kind, cur))

    def one(ix_item):
        ix, (kind, lines) = ix_item
        tf = os.path.join(workdir, "%s_%s_%d.ndjson" % (tag, kind, ix))
        with open(tf, "w") as f:
            f.writelines(lines)
        cfg = os.path.join(d, "Trace_%s_%d.cfg" % (kind, ix))
        vk.write_cfg(cfg, "TraceSpec", trace_constants(kind, tf))
        fl, consumed, out = vk.tlc_trace(d, TRACE_MODULE[kind], cfg)
        # TLC wraps tuples longer than 80 characters over several lines: parse again, tolerant of line breaks
        fl = [(m.group(1), int(m.group(2)), m.group(3), m.group(4)) for m in MONFAIL_RE.finditer(out)]
        if consumed != len(lines):
            raise vk.Infra("trace validation consumed %d of %d lines (%s)\n%s" % (consumed, len(lines), kind, out[-2000:]))
        return fl, len(lines)
    try:
        for fl, n in vk.pmap(one, list(enumerate(items)), 4):
            fails.extend(fl)
            steps += n
    finally:
        shutil.rmtree(d, ignore_errors=True)
    return fails, steps


def coverage_of(groups):
    cov = collections.Counter()
    sigs = collections.defaultdict(set)
    for kind, lines in groups.items():
        case = None
        for line in lines:
            d = json.loads(line)
            a = d["a"]
            name = a["a"]
            if name == "Init":
                continue
            if kind == "RL":
                fate = a.get("fate") or (a.get("pkt") or {}).get("fate") or ""
                cov["RL:%s:%s" % (name, d["res"])] += 1
                if name in ("Recv", "Resolve") and d["res"] == "ok":
                    cov["RL:%s/ack-%s:ok" % (name, d.get("ack"))] += 1
                if name in ("Ack", "Timeout", "Resolve") and d["res"] == "ok":
                    cov["RL:%s/fate-%s:ok" % (name, fate)] += 1
                if d["st"]["rl"]:
                    cov["RL:limited:%s:%s" % (name, d["res"])] += 1
                if d["st"]["ps"] or d["st"]["pr"]:
                    cov["RL:pending:%s:%s" % (name, d["res"])] += 1
                if name == "XImport":
                    cov["RL:XImport/%s:%s" % (d.get("xi"), d["res"])] += 1
                if name in ("Send", "Recv"):
                    kind_ = ("y" if a.get("w") else "x") if fate == "err" else ("r" if a.get("w") else "u")
                    pair = ("uA>%sB" if name == "Send" else "uB>%sA") % kind_
                    if pair in d["st"].get("wl", []):
                        cov["RL:%s/whitelisted:%s" % (name, d["res"])] += 1
                    if a.get("d") in d["st"].get("bl", []):
                        cov["RL:%s/blacklisted:%s%s" % (name, d["res"], "/ack-" + d.get("ack", "") if name == "Recv" else "")] += 1
                sigs["C41"].add((name, d["res"], d.get("ack"), fate, a.get("d"), a.get("ch"), bool(d["st"]["rl"]), d.get("nb")))
            elif kind == "DENOM":
                if name == "Case":
                    case = a
                    continue
                cls = d["res"] if name == "XSend" or d["res"] != "ok" else "ack-" + d.get("ack", "")
                cov["DENOM:%s:%s" % (name, cls)] += 1
                if d["charged"]:
                    cov["DENOM:%s/charged:%s" % (name, cls)] += 1
                if any(m["acct"] == "supply" for m in d["moved"]):
                    cov["DENOM:%s/mint-or-burn:%s" % (name, cls)] += 1
                if any(m["acct"] == "escrow" for m in d["moved"]):
                    cov["DENOM:%s/escrow:%s" % (name, cls)] += 1
                sigs["C42"].add((case and case["base"], case and case["route"], name, a.get("hop"), cls))
            elif kind == "PFM":
                pk = a.get("pkt") or {}
                fwd = bool(pk.get("memo")) or bool(a.get("memo"))
                cov["PFM:%s:%s" % (name, d["res"])] += 1
                if name == "XImport":
                    cov["PFM:XImport/%s:%s" % (d.get("xi"), d["res"])] += 1
                if d["res"] == "ok":
                    if d["sent"] and name in ("Recv", "Timeout"):
                        cov["PFM:%s/%s:ok" % (name, "forward" if name == "Recv" else "retry")] += 1
                    for wa in d["wack"]:
                        cov["PFM:%s/wrote-%s:ok" % (name, wa["cls"])] += 1
                    if name == "Transfer":
                        cov["PFM:Transfer/depth-%d:ok" % (len(a.get("memo") or []) + 1)] += 1
                    tr_ = (pk.get("d") or {}).get("t") or []
                    if name in ("Ack", "Timeout") and pk.get("src") == "B" and tr_ and tr_[0] not in (pk.get("L", "") + "@B", "AB@B") \
                            and any(wa["cls"] == "err" for wa in d["wack"]):
                        cov["PFM:%s/refund-third-channel:ok" % name] += 1
                sigs["C43"].add((name, d["res"], pk.get("src"), pk.get("L"), len(pk.get("d", {}).get("t", [])) if pk else None,
                                 len(pk.get("memo") or []), bool(d["sent"]), tuple(wa["cls"] for wa in d["wack"]),
                                 json.dumps(a.get("d")), len(a.get("memo") or [])))
    return cov, {p: len(s) for p, s in sigs.items()}


FLOORS = {
    "C41": ["RL:Send:ok", "RL:Send:err", "RL:Recv/ack-ok:ok", "RL:Recv/ack-err:ok", "RL:Recv/ack-none:ok",
            "RL:Ack/fate-err:ok", "RL:Ack/fate-ok:ok", "RL:Timeout/fate-to:ok", "RL:Resolve/ack-err:ok", "RL:Resolve/ack-ok:ok",
            "RL:Add:ok", "RL:Update:ok", "RL:Remove:ok", "RL:Reset:ok", "RL:Add:err", "RL:limited:Send:err",
            "RL:pending:Update:ok", "RL:pending:Reset:ok", "RL:WlAdd:ok", "RL:WlDel:ok", "RL:BlAdd:ok", "RL:BlDel:ok",
            "RL:Send/whitelisted:ok", "RL:Recv/whitelisted:ok", "RL:Send/blacklisted:err", "RL:Recv/blacklisted:ok/ack-err"],
    "C42": ["DENOM:XSend:ok", "DENOM:XSend:err", "DENOM:XRecv:ack-ok", "DENOM:XRecv:ack-err", "DENOM:XSend/charged:ok",
            "DENOM:XRecv/charged:ack-ok", "DENOM:XSend/mint-or-burn:ok", "DENOM:XSend/escrow:ok",
            "DENOM:XRecv/mint-or-burn:ack-ok", "DENOM:XRecv/escrow:ack-ok"],
    "C43": ["PFM:Transfer:ok", "PFM:Recv/forward:ok", "PFM:Timeout/retry:ok", "PFM:Ack/wrote-ok:ok", "PFM:Ack/wrote-err:ok",
            "PFM:Timeout/wrote-err:ok", "PFM:Recv/wrote-err:ok", "PFM:Recv/wrote-ok:ok", "PFM:Recv:err", "PFM:Timeout:err",
            "PFM:Transfer/depth-2:ok", "PFM:Transfer/depth-3:ok", "PFM:Ack/refund-third-channel:ok",
            "PFM:Timeout/refund-third-channel:ok"],
}

KIND_OF_PROP = {"C41": "RL", "C42": "DENOM", "C43": "PFM"}
SPEC_OF_PROP = {"C41": "RateLimit", "C42": "RLDenom", "C43": "PFM"}


def run_family(tier, seed, binary=None):
    t0 = time.time()
    workdir = os.path.join(vk.CACHE, "work", FAMILY + vk.repo_tag())
    shutil.rmtree(workdir, ignore_errors=True)
    os.makedirs(workdir)
    result, errors = {"mc": {}}, []
    excl = {"C41": bool(open_known("C41")), "C42": bool(open_known("C42"))}

    def guarded(fn):
        def run():
            try:
                fn()
            except Exception as e:  # noqa
                errors.append(e)
        th = threading.Thread(target=run)
        th.start()
        return th

    def mc_one(name, fn):
        d = vk.scratch_spec(SPEC_DIR)
        try:
            result["mc"][name] = fn(tier, d)
        finally:
            shutil.rmtree(d, ignore_errors=True)
    # self-tests (mutants) may restrict the run to one specification: VERIF_TMW_ONLY=RL|DENOM|PFM (never set by the
    # registered commands; the vacuity floors of the other properties then fail, as they should)
    only = os.environ.get("VERIF_TMW_ONLY", "")
    scheds = {"RL": [], "PFM": [], "DENOM": []}
    threads = [guarded(lambda: mc_one("RateLimit", run_mc_rl) if only in ("", "RL") else None),
               guarded(lambda: mc_one("PFM", run_mc_pfm) if only in ("", "PFM") else None),
               guarded(lambda: mc_one("RLDenom", run_mc_denom) if only in ("", "DENOM") else None),
               guarded(lambda: scheds.__setitem__("RL", gen_rl(tier, seed, workdir, excl["C41"])) if only in ("", "RL") else None),
               guarded(lambda: scheds.__setitem__("PFM", gen_pfm(tier, seed, workdir)) if only in ("", "PFM") else None),
               guarded(lambda: scheds.__setitem__("DENOM", gen_denom(tier, seed, workdir, excl["C42"])) if only in ("", "DENOM") else None)]
    if binary is None:
        binary = harness_binary()
    for th in threads[3:]:
        th.join()
    if errors:
        raise errors[0]
    allsched = scheds["PFM"] + scheds["DENOM"] + scheds["RL"]
    vk.log("generated %d schedules (RL %d, PFM %d, DENOM %d) in %.1fs" % (len(allsched), len(scheds["RL"]), len(scheds["PFM"]),
                                                                            len(scheds["DENOM"]), time.time() - t0))
    groups = drive(binary, allsched, workdir, "main", sizes(tier)["shards"])
    vk.log("drove %d schedules (%.1fs)" % (len(allsched), time.time() - t0))
    fails, steps = validate(groups, workdir, "main")
    vk.log("validated %d steps, %d monitor lines (%.1fs)" % (steps, len(fails), time.time() - t0))
    for th in threads[:3]:
        th.join()
    if errors:
        raise errors[0]
    cov, sigs = coverage_of(groups)
    sanity = [f for f in fails if f[2] == "X"]
    if sanity:
        raise vk.Infra("harness sanity monitors failed (infrastructure): %s" % sanity[:5])
    by_id = {s["id"]: s for s in allsched}
    failing = {}
    for tr, step, prop, clause in fails:
        if prop in PROPS + DIAG_PROPS:
            failing.setdefault(tr, by_id.get(tr))
    conf = collections.Counter("%s:%s" % (f[0].split("-")[0], f[3]) for f in fails if f[2] == "CONF")
    samples = {}
    for kind, lines in sorted(groups.items()):
        first = json.loads(lines[0])["tr"]
        samples[kind] = {"schedule_id": first, "kind": kind,
                         "trace_prefix": [slim(json.loads(l)) for l in lines[:6] if json.loads(l)["tr"] == first]}
    per_kind = {k: {"traces": len(scheds[k]), "steps": len(groups.get(k, []))} for k in scheds}
    result.update({"tier": tier, "seed": seed, "traces": len(allsched), "steps": steps,
                   "fails": [list(f) for f in fails if f[2] in PROPS + DIAG_PROPS], "conformance_diagnostics": dict(conf),
                   "coverage": dict(cov), "sigs": sigs, "failing_schedules": failing, "sample": samples.get("RL"),
                   "samples": samples, "per_kind": per_kind, "excluded_known_classes": excl, "wall": time.time() - t0})
    return result


def slim(d):
    out = {"i": d["i"], "a": d["a"], "res": d["res"]}
    for k in ("ack", "nb", "pk", "sent", "wack", "moved", "charged", "parsed"):
        if k in d:
            out[k] = d[k]
    if d.get("kind") == "RL":
        out["st"] = d.get("st")
    return out


def evidence(pid, res):
    kind = KIND_OF_PROP[pid]
    mc = {SPEC_OF_PROP[pid]: res.get("mc", {}).get(SPEC_OF_PROP[pid], {})}
    pk = res.get("per_kind", {}).get(kind, {})
    cov = {k: v for k, v in sorted(res.get("coverage", {}).items()) if k.startswith(kind + ":")}
    return {
        "states": sum(v.get("distinct", 0) for v in mc.values()),
        "transitions": sum(v.get("generated", 0) for v in mc.values()),
        "traces_validated_against_impl": pk.get("traces", 0),
        "samples": [res.get("samples", {}).get(kind)],
        "evaluations": pk.get("steps", 0),
        "distinct_nontrivial": res.get("sigs", {}).get(pid, 0),
        "rule": "one evaluation = one abstract step executed on the real chains (one transaction on the chain under test plus its "
                "relaying) and judged by TLC; distinct_nontrivial = distinct (action, result class, acknowledgement class, "
                "denomination/route/packet shape) signatures among the steps of this property's specification",
        "model_check": mc,
        "coverage_by_action": cov,
        "conformance_diagnostics": {k: v for k, v in res.get("conformance_diagnostics", {}).items()},
        "excluded_known_class": res.get("excluded_known_classes", {}).get(pid, False),
        "exhaustive": pid == "C42",
    }


def replay(schedule, binary=None):
    """Execute one schedule and return its monitor failures."""
    workdir = os.path.join(vk.CACHE, "work", FAMILY + "_replay" + vk.repo_tag())
    shutil.rmtree(workdir, ignore_errors=True)
    os.makedirs(workdir)
    if binary is None:
        binary = harness_binary()
    groups = drive(binary, [schedule], workdir, "replay", 1)
    fails, _ = validate(groups, workdir, "replay")
    return [f for f in fails if f[2] in PROPS + DIAG_PROPS], groups


# ------------------------------------------------------------------------------------------ known findings

KF_C41_CLASS = "undo-of-packet-whose-marker-survived-update-or-remove"
KF_C42_CLASS = "native-base-denom-with-identifier-like-second-segment"


def match_known(fail, schedule, known):
    """Is this monitor failure inside a listed input class?  Decided from the schedule (inputs) only."""
    if not schedule:
        return None
    tr, step, prop, clause = fail
    for k in known:
        sig = k.get("signature", {})
        if prop == "C41" and sig.get("class") == KF_C41_CLASS and schedule.get("kind") == "RL":
            hits = rl_class_steps(schedule["acts"])
            if hits and step >= hits[0]:
                return k
        if prop == "C42" and sig.get("class") == KF_C42_CLASS and schedule.get("kind") == "DENOM":
            case = denom_case_of_step(schedule["acts"], step)
            if case and case.get("kf"):
                return k
    return None


def probe_known(pid, known, result):
    lines = []
    for k in known:
        sig = k.get("signature", {})
        if pid == "C41" and sig.get("class") == KF_C41_CLASS:
            hit = []
            for s in rl_kf_schedules():
                fails, _ = replay(s)
                mine = [f for f in fails if f[2] == "C41"]
                if mine:
                    hit.append("%s step %d %s" % (s["id"], mine[0][1], mine[0][3]))
            if hit:
                lines.append("KNOWN-FINDING: property=C41 id=%s rate-limit flow differs from the in-window accepted transfers after the "
                             "refund of a packet whose pending marker survived UpdateRateLimit/RemoveRateLimit (%s)" % (k.get("id"), "; ".join(hit)))
            else:
                lines.append("NOTICE: property=C41 id=%s the canonical failing schedules no longer fail (defect fixed?); the entry "
                             "can be dropped, the class is then explored again" % k.get("id"))
        if pid == "C42" and sig.get("class") == KF_C42_CLASS:
            workdir = os.path.join(vk.CACHE, "work", FAMILY + "_probe" + vk.repo_tag())
            shutil.rmtree(workdir, ignore_errors=True)
            os.makedirs(workdir)
            hit = collections.OrderedDict()
            for s in denom_kf_schedules(workdir):
                fails, _ = replay(s)
                for f in fails:
                    if f[2] == "C42":
                        case = denom_case_of_step(s["acts"], f[1])
                        hit.setdefault("%s:%s" % (case["base"], f[3]), 0)
                        hit["%s:%s" % (case["base"], f[3])] += 1
            if hit:
                lines.append("KNOWN-FINDING: property=C42 id=%s the rate limiter charges a denomination other than the one ICS-20 moved for "
                             "native base denominations whose second segment looks like a channel/client id (%s)"
                             % (k.get("id"), ", ".join("%s x%d" % kv for kv in hit.items())))
            else:
                lines.append("NOTICE: property=C42 id=%s the canonical failing cases no longer fail (defect fixed?); the entry "
                             "can be dropped, the class is then explored again" % k.get("id"))
    return lines
