"""funcsA family: function-table properties C07 (commitments), C15 (identifiers), C17 (heights), C19 (delay periods).

Pipeline per part (FRAMEWORK.md section 1):
  (a) exhaustive TLC model checks of the specification's own obligations (MC_*.tla, scaled word) with vacuity witnesses,
  (b) TLC generates the case table / schedules from the TLA+ definitions (Gen_*.tla: 64-bit operands as BigNat limbs,
      Sched_*.tla: tlc -simulate walks), expected values included,
  (c) harness/funcsA evaluates the REAL ibc-go functions on every case (records, never judges),
  (d) TLC validates the records against the specification (Trace_*.tla) and prints MONFAIL lines.
Verdicts come only from (d).
"""
import collections
import glob
import json
import os
import re
import shutil
import subprocess
import tempfile
import threading
import time

import vk

FAMILY = "funcsA"
SPEC_DIR = os.path.join(vk.SPEC, "funcsA")
PROPS = ["C07", "C15", "C17", "C19"]
LIMB = 32768

# ------------------------------------------------------------------------------------------ TLC launcher
# The BigNat operators recurse through TLC's interpreter; with the JVM's default thread stack this overflows
# now and then (also on TLC's main thread, which JAVA_TOOL_OPTIONS=-Xss does not reach).  The `tlc` wrapper
# takes no JVM options, so the family starts the same java command with an explicit -Xss.


def _java_cmd():
    try:
        path = shutil.which("tlc")
        for line in open(path):
            line = line.strip()
            if line.startswith("exec java") and "tlc2.TLC" in line:
                parts = line[len("exec "):].replace('"$@"', "").split()
                return [parts[0], "-Xss512m"] + parts[1:]
    except Exception:  # noqa
        pass
    return None


_JAVA = _java_cmd()


def _tlc(args, cwd, timeout, extra_env=None):
    os.makedirs(os.path.join(vk.CACHE, "tmp"), exist_ok=True)
    md = tempfile.mkdtemp(prefix="tlcmd_", dir=os.path.join(vk.CACHE, "tmp"))
    env = dict(os.environ)
    if extra_env:
        env.update(extra_env)
    env["JAVA_TOOL_OPTIONS"] = (os.environ.get("JAVA_TOOL_OPTIONS", "") + " -Xss512m").strip()
    cmd = (_JAVA if _JAVA else ["tlc"]) + ["-metadir", md] + args
    try:
        p = subprocess.run(["timeout", str(timeout)] + cmd, cwd=cwd, env=env, stdout=subprocess.PIPE, stderr=subprocess.STDOUT, text=True)
    finally:
        shutil.rmtree(md, ignore_errors=True)
        for f in glob.glob(os.path.join(cwd, "*_TTrace_*")):
            try:
                os.remove(f)
            except OSError:
                pass
    return p.returncode, p.stdout


vk._tlc = _tlc  # only this family's process is affected (bin/check loads one family per run)


# ------------------------------------------------------------------------------------------ helpers

def big(limbs):
    v = 0
    for x in reversed(limbs or []):
        v = v * LIMB + int(x)
    return v


def limbs(v):
    out = []
    while v > 0:
        out.append(v % LIMB)
        v //= LIMB
    return out


def read_ndjson(path):
    return [json.loads(l) for l in open(path) if l.strip()]


def write_ndjson(path, items):
    with open(path, "w") as f:
        for it in items:
            f.write(json.dumps(it) + "\n")


def witnesses(out):
    return set(re.findall(r'<<"WITNESS", "([^"]+)">>', out))


def mc(d, module, name, constants, invariants=(), properties=(), constraint=None, need=(), workers=4, timeout=900):
    cfg = os.path.join(d, "MC_%s.cfg" % name.replace(":", "_").replace("/", "_"))
    vk.write_cfg(cfg, "Spec", constants, invariants=invariants, properties=properties, constraint=constraint)
    r = vk.tlc_mc(d, module, cfg, workers=workers, timeout=timeout)
    seen = witnesses(r["out"])
    missing = [w for w in need if w not in seen]
    if missing:
        raise vk.Infra("vacuous model check %s: no witness for %s" % (name, missing))
    return {"distinct": r["distinct"], "generated": r["generated"], "depth": r["depth"], "witnesses": sorted(seen),
            "constants": {k: (sorted(v, key=str) if isinstance(v, (set, frozenset)) else v) for k, v in constants.items()},
            "checked": list(invariants) + list(properties)}


class Bg:
    """Runs fn in a thread; .get() re-raises its exception."""

    def __init__(self, fn):
        self.val, self.err = None, None

        def run():
            try:
                self.val = fn()
            except Exception as e:  # noqa
                self.err = e
        self.th = threading.Thread(target=run)
        self.th.start()

    def get(self):
        self.th.join()
        if self.err:
            raise self.err
        return self.val


def gen_cases(d, module, seed, tier, out_path, timeout=1800):
    """Runs a Gen_*.tla module (two behaviour steps: build the table, check the obligations over it and write it)."""
    cfg = os.path.join(d, module + ".cfg")
    vk.write_cfg(cfg, "Spec", dict(Seed=int(seed), Tier=tier, OutFile=out_path))
    rc, out = vk._tlc(["-workers", "1", "-config", cfg, module + ".tla"], d, timeout)
    if rc != 0 or "No error has been found" not in out or not os.path.exists(out_path):
        raise vk.Infra("case generation %s failed (specification/infrastructure, not a verdict):\n%s" % (module, out[-3000:]))
    m = re.search(r'<<"GENERATED", ([0-9, ]+)>>', out)
    cases = read_ndjson(out_path)
    if not cases:
        raise vk.Infra("case generation %s produced no cases" % module)
    return cases, ([int(x) for x in m.group(1).split(",")] if m else [])


def drive_cases(binary, cases, workdir, tag, nshards=4, test="TestCases", in_env="VERIF_CASES"):
    shards = vk.shard(cases, nshards)

    def one(ix):
        cp = os.path.join(workdir, "%s_cases_%d.ndjson" % (tag, ix))
        tp = os.path.join(workdir, "%s_trace_%d.ndjson" % (tag, ix))
        write_ndjson(cp, shards[ix])
        rc, out = vk.run_driver(binary, test, {in_env: cp, "VERIF_TRACE": tp})
        if rc != 0:
            raise vk.Infra("driver %s failed (rc=%d):\n%s" % (test, rc, out[-3000:]))
        return read_ndjson(tp)
    lines = []
    for part in vk.pmap(one, list(range(len(shards))), len(shards)):
        lines.extend(part)
    return lines


def validate(d, module, lines, workdir, tag, constants=None, nshards=4, keep_together=None):
    """TLC trace validation of recorded lines (sharded; lines of one trace stay together)."""
    if keep_together:
        groups = collections.OrderedDict()
        for ln in lines:
            groups.setdefault(ln[keep_together], []).append(ln)
        units = list(groups.values())
    else:
        units = [[ln] for ln in lines]
    shards = [s for s in vk.shard(units, nshards) if s]

    def one(ix):
        flat = [ln for u in shards[ix] for ln in u]
        tf = os.path.join(workdir, "%s_val_%d.ndjson" % (tag, ix))
        write_ndjson(tf, flat)
        cfg = os.path.join(d, "%s_%s_%d.cfg" % (module, tag, ix))
        c = dict(constants or {})
        c["TraceFile"] = tf
        vk.write_cfg(cfg, "TraceSpec", c)
        fl, consumed, out = vk.tlc_trace(d, module, cfg)
        if consumed != len(flat):
            raise vk.Infra("trace validation %s consumed %d of %d lines\n%s" % (module, consumed, len(flat), out[-2000:]))
        return fl
    fails = []
    for fl in vk.pmap(one, list(range(len(shards))), len(shards)):
        fails.extend(fl)
    return [list(f) for f in fails]


# ------------------------------------------------------------------------------------------ part: heights (C17)

def part_heights(tier, seed, workdir, binary, only=None):
    d = vk.scratch_spec(SPEC_DIR)
    res = {"mc": {}}
    try:
        if only is None:
            w = 3 if tier == "quick" else 5
            wk = 2 if tier == "quick" else 4
            bg = [Bg(lambda: ("C17:HeightsOrder", mc(d, "MC_HeightsOrder", "C17:HeightsOrder", dict(W=w), invariants=["Inv"], properties=["SuccIncreases"], workers=wk, timeout=3000,
                                                     need=["lt-by-revision", "lt-by-height", "equal", "gt-by-revision", "gt-by-height", "rollover"]))),
                  Bg(lambda: ("C17:HeightsElapsed", mc(d, "MC_HeightsElapsed", "C17:HeightsElapsed", dict(W=w), invariants=["Inv", "MonotonePairs"],
                                                       properties=["StaysElapsed"], workers=wk, timeout=3000,
                                                       need=["elapsed-by-height", "elapsed-by-timestamp", "not-elapsed", "zero-timeout",
                                                             "zero-height-only", "zero-timestamp-only"])))]
            cases, counts = gen_cases(d, "Gen_Heights", seed, tier, os.path.join(workdir, "heights_cases.ndjson"))
            res["generated"] = counts
        else:
            cases = only
        lines = drive_cases(binary, cases, workdir, "heights", nshards=1 if tier == "quick" else 6)
        fails = validate(d, "Trace_Heights", lines, workdir, "heights", nshards=1 if tier == "quick" else 8)
        if only is None:
            for b in bg:
                k, v = b.get()
                res["mc"][k] = v
    finally:
        shutil.rmtree(d, ignore_errors=True)
    cov = collections.Counter()
    sig = set()
    for ln in lines:
        o = ln.get("out") or {}
        if ln["fn"] == "HCmp":
            cov["heights:HCmp:%s" % o.get("cmp")] += 1
        elif ln["fn"] == "HFmt":
            cov["heights:HFmt:%s" % ("ok" if o.get("ok") else "err")] += 1
        elif ln["fn"] == "Elapsed":
            cov["heights:Elapsed:%s" % ("elapsed" if o.get("ep") else "not-elapsed")] += 1
        if ln["res"] != "ok":
            cov["heights:%s:%s" % (ln["fn"], ln["res"])] += 1
        js = json.dumps(ln["in"], sort_keys=True)
        if re.search(r"\[[0-9]", js):  # at least one non-zero operand
            sig.add((ln["fn"], js))
    res.update({"lines": lines, "fails": fails, "coverage": cov, "sigs": {"C17": len(sig)}, "cases": {c["id"]: c for c in cases}})
    return res


# ------------------------------------------------------------------------------------------ part: delay (C19)

HIST_CONFIGS = {"quick": [(50, 20), (40, 20), (7, 0)], "thorough": [(50, 20), (40, 20), (7, 0), (30, 100), (0, 20), (61, 3)]}


def part_delay(tier, seed, workdir, binary, only=None):
    d = vk.scratch_spec(SPEC_DIR)
    res = {"mc": {}}
    try:
        if only is None:
            bg = [Bg(lambda: ("C19:Delay", mc(d, "MC_Delay", "C19:Delay", dict(W=10 if tier == "quick" else 28), invariants=["Lemmas"], properties=["Monotone"],
                                              workers=2 if tier == "quick" else 4, timeout=3000,
                                              need=["exact-division", "remainder-one", "remainder-max", "p-zero", "td-zero", "p-greater-than-td"])))]
            cases, counts = gen_cases(d, "Gen_Delay", seed, tier, os.path.join(workdir, "delay_cases.ndjson"))
            res["generated"] = counts
        else:
            cases = only
        lines = drive_cases(binary, cases, workdir, "delay", nshards=1 if tier == "quick" else 6)
        fails = validate(d, "Trace_Delay", lines, workdir, "delay", nshards=1 if tier == "quick" else 8)
        if only is None:
            for b in bg:
                k, v = b.get()
                res["mc"][k] = v
    finally:
        shutil.rmtree(d, ignore_errors=True)
    cov = collections.Counter()
    sig = set()
    for ln in lines:
        o = ln.get("out") or {}
        if ln["fn"] == "BlockDelay":
            td, p = big(ln["in"]["td"]), big(ln["in"]["p"])
            cls = "p-zero" if p == 0 else "td-zero" if td == 0 else "td-above-2^53" if td > 2 ** 53 else "exact-division" if td % p == 0 else "with-remainder"
            cov["delay:BlockDelay:%s" % cls] += 1
            sig.add(("BlockDelay", td, p))
        else:
            cov["delay:%s:%s" % (ln["fn"], "accepted" if o.get("accepted") else "rejected")] += 1
            sig.add((ln["fn"], json.dumps(ln["in"], sort_keys=True)))
        if ln["res"] != "ok":
            cov["delay:%s:%s" % (ln["fn"], ln["res"])] += 1
    res.update({"lines": lines, "fails": fails, "coverage": cov, "sigs": {"C19": len(sig)}, "cases": {c["id"]: c for c in cases}})
    return res


def gen_hist(d, tier, seed, workdir):
    n = 8 if tier == "quick" else 120
    depth = 7 if tier == "quick" else 9
    cfgs = HIST_CONFIGS[tier]
    outdir = os.path.join(workdir, "hist_sched")
    os.makedirs(outdir, exist_ok=True)
    cfg = os.path.join(d, "Sched_DelayHist.cfg")
    vk.write_cfg(cfg, "Spec", dict(CONFIGS={td * 1000 + p for td, p in cfgs}, Depth=depth, OutDir=outdir))
    vk.tlc_simulate(d, "Sched_DelayHist", cfg, n * len(cfgs), depth + 1, seed * 13 + 1, workers=1)
    scheds, per = [], collections.Counter()
    for f in sorted(glob.glob(os.path.join(outdir, "*.json"))):
        s = json.load(open(f))
        k = (s["td"], s["p"])
        if per[k] >= n:
            continue
        s["id"] = "DH-%d-%d-%d-%d" % (s["td"], s["p"], seed, per[k])
        per[k] += 1
        scheds.append(s)
    if len(per) < len(cfgs):
        raise vk.Infra("history schedule generation covered only the configurations %s" % sorted(per))
    return scheds


def part_delayhist(tier, seed, workdir, binary, only=None):
    d = vk.scratch_spec(SPEC_DIR)
    res = {"mc": {}}
    try:
        if only is None:
            cfgs = HIST_CONFIGS[tier]
            need = ["accepted-at-exact-time", "rejected-one-ns-early", "accepted-at-exact-height", "rejected-one-block-early", "no-block-delay"]
            if any(td == 0 for td, _ in cfgs):
                need.append("no-delay-at-all")
            bg = Bg(lambda: {"C19:DelayHist": mc(d, "MC_DelayHist", "C19:DelayHist", dict(CONFIGS={td * 1000 + p for td, p in cfgs}),
                                                 properties=["OnlyAfterBothDelays"], constraint="Bound", need=need, workers=2, timeout=3000)})
            scheds = gen_hist(d, tier, seed, workdir)
        else:
            scheds = only
        lines = drive_cases(binary, scheds, workdir, "delayhist", nshards=1 if tier == "quick" else 6, test="TestDelayHist", in_env="VERIF_SCHED")
        fails = validate(d, "Trace_DelayHist", lines, workdir, "delayhist", nshards=1 if tier == "quick" else 6, keep_together="tr")
        if only is None:
            res["mc"].update(bg.get())
    finally:
        shutil.rmtree(d, ignore_errors=True)
    cov = collections.Counter()
    sig = set()
    for ln in lines:
        a = ln["a"]
        if a["a"] == "Init":
            continue
        cov["delayhist:%s:%s" % (a["a"], ln["res"])] += 1
        st = ln["st"]
        bd = 0 if ln["p"] == 0 else -(-ln["td"] // ln["p"])
        sig.add((ln["td"], ln["p"], a["a"], ln["res"], max(-2, min(2, st["t"] - ln["td"])), max(-2, min(2, st["h"] - bd))))
    res.update({"lines": lines, "fails": fails, "coverage": cov, "sigs": {"C19": len(sig)}, "cases": {s["id"]: s for s in scheds}})
    return res



# ------------------------------------------------------------------------------------------ part: commitments (C07)

def part_commit(tier, seed, workdir, binary, only=None):
    d = vk.scratch_spec(SPEC_DIR)
    res = {"mc": {}}
    try:
        if only is None:
            deep = tier != "quick"
            need = ["%s:%s" % (w, k) for k, ws in {
                "v1": ["same-fields", "one-field-differs", "uncommitted-field-differs", "negative-control-collides"],
                "payload": ["same-fields", "one-field-differs", "boundary-moved", "negative-control-collides"],
                "v2": ["same-fields", "one-field-differs", "uncommitted-field-differs", "order-differs", "negative-control-collides"],
                "ack": ["same-fields", "one-field-differs", "boundary-moved", "order-differs", "negative-control-collides"]}.items() for w in ws]
            bg = Bg(lambda: mc(d, "MC_Commitments", "C07:Commitments", dict(KINDS={"v1", "payload", "v2", "ack"}, DEEP=deep, HLEN=2, WLEN=2),
                               invariants=["Injective", "FixedLength"], need=need, workers=3 if tier == "quick" else 4, timeout=6000))
            cases, counts = gen_cases(d, "Gen_Commitments", seed, tier, os.path.join(workdir, "commit_cases.ndjson"))
            res["generated"] = counts
        else:
            cases = only
        lines = drive_cases(binary, cases, workdir, "commit", nshards=1 if tier == "quick" else 4)
        fails = validate(d, "Trace_Commit", lines, workdir, "commit", nshards=1 if tier == "quick" else 4)
        if only is None:
            res["mc"]["C07:Commitments"] = bg.get()
    finally:
        shutil.rmtree(d, ignore_errors=True)
    cov = collections.Counter()
    sig = set()
    for ln in lines:
        cov["commit:%s:%s" % (ln["fn"], ln["res"])] += 1
        js = json.dumps(ln["in"], sort_keys=True)
        sig.add((ln["fn"], js))
    res.update({"lines": lines, "fails": fails, "coverage": cov, "sigs": {"C07": len(sig)}, "cases": {c["id"]: c for c in cases}})
    return res


# ------------------------------------------------------------------------------------------ part: identifiers (C15)

def part_ident(tier, seed, workdir, binary, only=None):
    d = vk.scratch_spec(SPEC_DIR)
    res = {"mc": {}}
    try:
        if only is None:
            bg = Bg(lambda: mc(d, "MC_Identifiers", "C15:Identifiers",
                               dict(W=12, MD=2, L=4 if tier == "quick" else 5, ALPHA={"a", "1", "0", "-", "_", "/"}),
                               invariants=["Inv", "Unique"], timeout=3000, workers=3 if tier == "quick" else 4,
                               need=["accepted", "rejected-overflow", "rejected-too-many-digits", "leading-zero", "not-a-type",
                                     "type-ending-in-number"]))
            cases, counts = gen_cases(d, "Gen_Identifiers", seed, tier, os.path.join(workdir, "ident_cases.ndjson"))
            res["generated"] = counts
        else:
            cases = only
        lines = drive_cases(binary, cases, workdir, "ident", nshards=1 if tier == "quick" else 4)
        fails = validate(d, "Trace_Ident", lines, workdir, "ident", nshards=1 if tier == "quick" else 8)
        if only is None:
            res["mc"]["C15:Identifiers"] = bg.get()
    finally:
        shutil.rmtree(d, ignore_errors=True)
    cov = collections.Counter()
    sig = set()
    for ln in lines:
        o = ln.get("out") or {}
        if ln["fn"] == "ClientRT":
            cov["ident:ClientRT:%s" % ("registrable" if o.get("reg") else "not-registrable")] += 1
        else:
            cov["ident:%s:%s" % (ln["fn"], "accepted" if o.get("pok") else "rejected")] += 1
        if ln["res"] != "ok":
            cov["ident:%s:%s" % (ln["fn"], ln["res"])] += 1
        sig.add((ln["fn"], json.dumps(ln["in"], sort_keys=True)))
    res.update({"lines": lines, "fails": fails, "coverage": cov, "sigs": {"C15": len(sig)}, "cases": {c["id"]: c for c in cases}})
    return res


def part_identhist(tier, seed, workdir, binary, only=None):
    d = vk.scratch_spec(SPEC_DIR)
    res = {"mc": {}}
    try:
        if only is None:
            bg = Bg(lambda: mc(d, "MC_IdentHist", "C15:IdentHist", dict(MaxIssued=3 if tier == "quick" else 5), invariants=["Inv"],
                               properties=["FailedAttemptIssuesNothing", "CountersNeverDecrease"], constraint="Bound", workers=2, timeout=3000,
                               need=["CreateClient:ok", "CreateClient:err", "ConnInit:ok", "ConnInit:err", "ChanInit:ok", "ChanInit:err",
                                     "two-client-types"]))
            n = 10 if tier == "quick" else 150
            depth = 14 if tier == "quick" else 24
            outdir = os.path.join(workdir, "identhist_sched")
            os.makedirs(outdir, exist_ok=True)
            cfg = os.path.join(d, "Sched_IdentHist.cfg")
            vk.write_cfg(cfg, "Spec", dict(Depth=depth, OutDir=outdir))
            vk.tlc_simulate(d, "Sched_IdentHist", cfg, n, depth + 1, seed * 17 + 3, workers=1)
            scheds = []
            for i, f in enumerate(sorted(glob.glob(os.path.join(outdir, "*.json")))[:n]):
                s = json.load(open(f))
                s["id"] = "IH-%d-%d" % (seed, i)
                scheds.append(s)
            if len(scheds) < 2:
                raise vk.Infra("identifier history generation produced only %d schedules" % len(scheds))
        else:
            scheds = only
        lines = drive_cases(binary, scheds, workdir, "identhist", nshards=1 if tier == "quick" else 6, test="TestIdentHist", in_env="VERIF_SCHED")
        fails = validate(d, "Trace_IdentHist", lines, workdir, "identhist", nshards=1 if tier == "quick" else 6, keep_together="tr")
        if only is None:
            res["mc"]["C15:IdentHist"] = bg.get()
    finally:
        shutil.rmtree(d, ignore_errors=True)
    cov = collections.Counter()
    sig = set()
    for ln in lines:
        a = ln["a"]
        if a["a"] == "Init":
            continue
        cov["identhist:%s:%s:%s" % (a["a"], a["kind"], ln["res"])] += 1
        sig.add((a["a"], a["kind"], ln["res"], ln["issued"]))
    res.update({"lines": lines, "fails": fails, "coverage": cov, "sigs": {"C15": len(sig)}, "cases": {s["id"]: s for s in scheds}})
    return res

# ------------------------------------------------------------------------------------------ BigNat lemma (shared by all parts)

def part_bignat(tier, seed, workdir, binary, only=None):
    if only is not None:
        return None
    d = vk.scratch_spec(SPEC_DIR)
    res = {"mc": {}}
    try:
        n = 14 if tier == "quick" else 90
        for b, scale in ((4, 1), (10, 1), (32768, 3001 if tier == "quick" else 509)):
            res["mc"]["BigNat(B=%d)" % b] = mc(d, "MC_BigNat", "BigNat_%d" % b, dict(B=b, N=n, SCALE=scale), invariants=["Laws"],
                                               workers=2 if tier == "quick" else 4, timeout=3000)
    finally:
        shutil.rmtree(d, ignore_errors=True)
    res.update({"lines": [], "fails": [], "coverage": collections.Counter(), "sigs": {}, "cases": {}})
    return res


PARTS = collections.OrderedDict([
    ("bignat", (part_bignat, None)),
    ("heights", (part_heights, "C17")),
    ("delay", (part_delay, "C19")),
    ("delayhist", (part_delayhist, "C19")),
    ("commit", (part_commit, "C07")),
    ("ident", (part_ident, "C15")),
    ("identhist", (part_identhist, "C15")),
])

FLOORS = {
    "C15": ["ident:ClientRT:registrable", "ident:ClientRT:not-registrable", "ident:ClientParse:accepted", "ident:ClientParse:rejected",
            "ident:SeqRT:accepted", "ident:SeqParse:accepted", "ident:SeqParse:rejected",
            "identhist:CreateClient:tm:ok", "identhist:CreateClient:solo:ok", "identhist:CreateClient:expired:err", "identhist:ConnInit:ok:ok",
            "identhist:ConnInit:noclient:err", "identhist:ChanInit:ok:ok", "identhist:ChanInit:appreject:err"],
    "C07": ["commit:CommitV1:ok", "commit:CommitV2:ok", "commit:AckV1:ok", "commit:AckV2:ok"],
    "C17": ["heights:HCmp:-1", "heights:HCmp:0", "heights:HCmp:1", "heights:HFmt:ok", "heights:Elapsed:elapsed", "heights:Elapsed:not-elapsed"],
    "C19": ["delay:BlockDelay:exact-division", "delay:BlockDelay:with-remainder", "delay:BlockDelay:p-zero", "delay:BlockDelay:td-above-2^53",
            "delay:DelayTM:accepted", "delay:DelayTM:rejected", "delay:DelayConn:accepted", "delay:DelayConn:rejected",
            "delayhist:Recv:ok", "delayhist:Recv:err", "delayhist:Block:ok"],
}


def part_of_trace(tr):
    if tr.startswith("DH-"):
        return "delayhist"
    if tr.startswith("IH-"):
        return "identhist"
    return {"H": "heights", "D": "delay", "K": "commit", "I": "ident", "IH": "identhist"}.get(re.match(r"[A-Z]+", tr).group(0))


def run_family(tier, seed, binary=None):
    t0 = time.time()
    workdir = os.path.join(vk.CACHE, "work", FAMILY + vk.repo_tag())
    shutil.rmtree(workdir, ignore_errors=True)
    os.makedirs(workdir)
    if binary is None:
        binary = vk.build_harness("funcsA")
    results, errors = {}, {}

    def run(name):
        try:
            t1 = time.time()
            r = PARTS[name][0](tier, seed, workdir, binary)
            sanity = [f for f in r["fails"] if f[2] == "X"]
            if sanity:
                raise vk.Infra("harness sanity monitors failed (infrastructure): %s" % sanity[:5])
            results[name] = r
            vk.log("part %s done in %.1fs" % (name, time.time() - t1))
        except Exception as e:  # noqa
            errors[name] = e
            vk.log("part %s FAILED (infrastructure): %s" % (name, str(e)[:300]))
    threads = [threading.Thread(target=run, args=(n,)) for n in PARTS]
    for th in threads:
        th.start()
    for th in threads:
        th.join()
    # A part that could not run (build/TLC/driver problem, e.g. because an edit of the tree breaks chain set-up) is an
    # infrastructure failure of ITS property only: its coverage is missing, so bin/check ends in exit 2 for that property
    # (vacuity floors), while the other properties are still judged.  The shared BigNat lemma is needed by all.
    if "bignat" in errors or len(errors) == len(PARTS):
        raise list(errors.values())[0]
    out = {"tier": tier, "seed": seed, "mc": {}, "traces": 0, "steps": 0, "fails": [], "coverage": {}, "sigs": collections.Counter(),
           "failing_schedules": {}, "sample": {}, "samples": {}, "generated": {}, "part_stats": {}, "probes": {},
           "part_errors": {n: str(e)[-1500:] for n, e in errors.items()}}
    for name, r in results.items():
        out["mc"].update(r["mc"])
        lines = r["lines"]
        out["steps"] += len(lines)
        ntr = len({ln["tr"] for ln in lines})
        out["traces"] += ntr
        out["part_stats"][name] = {"traces": ntr, "lines": len(lines)}
        out["fails"] += r["fails"]
        out["coverage"].update(r["coverage"])
        for p, n in r["sigs"].items():
            out["sigs"][p] += n
        if "generated" in r:
            out["generated"][name] = r["generated"]
        by_tr = collections.defaultdict(list)
        for ln in lines:
            by_tr[ln["tr"]].append(ln)
        for f in r["fails"]:
            tr = f[0]
            if tr not in out["failing_schedules"]:
                out["failing_schedules"][tr] = {"part": name, "case": r["cases"].get(tr), "lines": by_tr.get(tr, [])[:40]}
        prop = PARTS[name][1]
        if prop and lines:
            out["samples"].setdefault(prop, [])
            seen_fn = set()
            for ln in lines:
                key = ln["fn"] + ":" + str(ln.get("a", {}).get("a", "")) if isinstance(ln.get("a"), dict) else ln["fn"]
                if key not in seen_fn and len(seen_fn) < 6:
                    seen_fn.add(key)
                    out["samples"][prop].append(slim(ln))
        if name == "delay":
            out["probes"].update(delay_probes(lines, r["fails"]))
    out["sigs"] = dict(out["sigs"])
    out["sample"] = {p: s[:1] for p, s in out["samples"].items()}
    out["wall"] = time.time() - t0
    return out


def slim(ln):
    s = json.dumps(ln)
    if len(s) > 3000:
        ln = dict(ln)
        ln["out"] = "(omitted: %d bytes)" % len(s)
    return ln


def replay(schedule, binary=None):
    """Re-executes one failing case / schedule on the real code and validates it again."""
    workdir = os.path.join(vk.CACHE, "work", FAMILY + "_replay" + vk.repo_tag())
    shutil.rmtree(workdir, ignore_errors=True)
    os.makedirs(workdir)
    if binary is None:
        binary = vk.build_harness("funcsA")
    part = schedule["part"]
    r = PARTS[part][0]("quick", 1, workdir, binary, only=[schedule["case"]])
    fails = [tuple(f) for f in r["fails"]]
    return fails, {part: r["lines"]}


# ------------------------------------------------------------------------------------------ known findings (C19)
# Input classes (decided from the inputs of the step only):
#   float-ceiling : a block delay computed by the connection keeper for a time delay above 2^53 ns
#   uint64-wrap   : processed time + time delay or processed height + block delay does not fit in 64 bits

def input_classes(sched):
    if not sched or not sched.get("lines"):
        return set()
    ln = sched["lines"][0]
    fn, i, o = ln.get("fn"), ln.get("in") or {}, ln.get("out") or {}
    cls = set()
    if fn in ("BlockDelay", "DelayConn") and big(i.get("td")) > 2 ** 53:
        cls.add("float-ceiling")
    if fn == "DelayTM" and isinstance(o, dict):
        if big(o.get("procT")) + big(i.get("dt")) >= 2 ** 64 or big(o.get("procH")) + big(i.get("db")) >= 2 ** 64:
            cls.add("uint64-wrap")
    if fn == "DelayConn" and isinstance(o, dict):
        if big(o.get("procT")) + big(i.get("td")) >= 2 ** 64 or big(o.get("procH")) + big(i.get("bd")) >= 2 ** 64:
            cls.add("uint64-wrap")
    return cls


def _listed(known, pid):
    """Entries of /verif/known_findings.json for this property (passed in by bin/check).  For the family's self-test a
    candidate file can be named in VERIF_FUNCSA_KNOWN (same format); it is never consulted otherwise."""
    extra = os.environ.get("VERIF_FUNCSA_KNOWN")
    out = list(known)
    if extra and os.path.exists(extra):
        for k in json.load(open(extra)).get("findings", []):
            if k.get("property") == pid and k.get("status", "open") == "open" and k not in out:
                out.append(k)
    return out


def match_known(fail, sched, known):
    if fail[2] != "C19":
        return None
    cls = input_classes(sched)
    for k in _listed(known, "C19"):
        if k.get("family", FAMILY) == FAMILY and (k.get("signature") or {}).get("class") in cls:
            return k
    return None


def delay_probes(lines, fails):
    """Canonical failing cases of the C19 input classes, looked up among the cases of this run (they are part of every tier)."""
    failed = collections.defaultdict(list)
    for f in fails:
        failed[f[0]].append(f[3])
    probes = {}
    for ln in lines:
        i, o = ln["in"], ln.get("out") or {}
        if ln["fn"] == "BlockDelay" and big(i["td"]) == 2 ** 53 + 1 and big(i["p"]) == 1:
            got = sorted({big(c["db"]) for c in o.get("calls", [])})
            probes["float-ceiling"] = {"case": ln["tr"], "fails": failed.get(ln["tr"], []),
                                       "what": "getBlockDelay(delay=2^53+1 ns, MaxExpectedTimePerBlock=1 ns) passed block delay %s to the light client, exact ceiling is %d"
                                               % (got, 2 ** 53 + 1)}
        if ln["fn"] == "DelayTM" and big(i["dt"]) == 2 ** 64 - 1 and big(i["db"]) == 0 and i["tm"] == {"m": "proc", "off": 0} and i["kind"] == "membership":
            probes["uint64-wrap"] = {"case": ln["tr"], "fails": failed.get(ln["tr"], []),
                                     "what": "07-tendermint VerifyMembership with delayTimePeriod=2^64-1 ns at block time = processed time (%d) was %s (processedTime + delay wraps)"
                                             % (big(o.get("procT")), "ACCEPTED" if o.get("accepted") else "rejected")}
    return probes


def probe_known(pid, known, result):
    if pid != "C19":
        return []
    out = []
    for k in _listed(known, "C19"):
        if k.get("family", FAMILY) != FAMILY:
            continue
        cls = (k.get("signature") or {}).get("class")
        pr = (result.get("probes") or {}).get(cls)
        if pr is None:
            out.append("NOTICE: property=C19 %s: the canonical case of class %s was not part of this run" % (k.get("id"), cls))
        elif pr["fails"]:
            out.append("KNOWN-FINDING: property=C19 %s %s [clauses: %s]" % (k.get("id"), pr["what"], ", ".join(sorted(set(pr["fails"])))))
        else:
            out.append("NOTICE: property=C19 %s no longer fails on its canonical case (%s)" % (k.get("id"), pr["what"]))
    return out


# ------------------------------------------------------------------------------------------ evidence

RULES = {
    "C17": "cases = every pair of heights / (timeout, point, point) triple of the TLC-generated 64-bit table; distinct_nontrivial = distinct (function, operands) with at least one non-zero operand",
    "C19": "cases = TLC-generated (td, p) pairs, (delay, placement) submissions to a real 07-tendermint client, and steps of real-transaction histories; "
           "distinct_nontrivial = distinct (td, p) pairs + distinct submissions + distinct (config, action, result, distance to either boundary clipped to +-2) history steps",
    "C07": "cases = TLC-enumerated packets / acknowledgements; distinct_nontrivial = distinct (function, input) with a non-empty field",
    "C15": "cases = TLC-enumerated identifier strings / (type, sequence) pairs and steps of create/open histories; distinct_nontrivial = distinct inputs",
}


def evidence(pid, res):
    mcs = {k: v for k, v in res.get("mc", {}).items() if k.startswith(pid + ":") or k.startswith("BigNat")}
    parts = [n for n, (_, p) in PARTS.items() if p == pid]
    traces = sum(res.get("part_stats", {}).get(n, {}).get("traces", 0) for n in parts)
    lines = sum(res.get("part_stats", {}).get(n, {}).get("lines", 0) for n in parts)
    return {
        "states": sum(v["distinct"] for v in mcs.values()),
        "transitions": sum(v["generated"] for v in mcs.values()),
        "traces_validated_against_impl": traces,
        "samples": res.get("samples", {}).get(pid) or [res.get("sample")],
        "evaluations": lines,
        "distinct_nontrivial": res.get("sigs", {}).get(pid, 0),
        "rule": RULES.get(pid, ""),
        "model_check": mcs,
        "generated_tables": {n: res.get("generated", {}).get(n) for n in parts},
        "coverage_by_action": {k: v for k, v in sorted(res.get("coverage", {}).items()) if k.split(":")[0] in parts},
        "exhaustive": False,
        "parts_not_run_infrastructure": {n: e for n, e in res.get("part_errors", {}).items() if n in parts},
        "obligations_checked_on_spec": sorted({c for v in mcs.values() for c in v.get("checked", [])}),
    }
