"""funcsB family: function-table / small-state-machine properties bound to the real ibc-go code.

  C16  StoreKeys.tla + KeyTrie.tla (key constructors -> symbol sequences, explored as a trie) and ClientNS.tla
       (client operations write only inside clients/<target>/)
  C18  Merkle.tla (two-level store, VerifyOK written from the property; every store content x statement x proof-of-key x
       single mutation) and BuildMerklePath
  C48  Router.tla (v1 port router + PortKeeper.Route, v2 api router: every subset and registration order)

Pipeline per part (FRAMEWORK.md section 1): (a) exhaustive TLC run of the specification (states / transitions, vacuity
witnesses) that also serialises the case table, (b) the Go driver (harness/funcsB) evaluates the REAL code on every case
and records ndjson, (c) TLC validates the record with Trace_*.tla and prints MONFAIL lines.  Python only moves files.
"""
import collections
import glob
import hashlib
import json
import os
import re
import shutil
import threading
import time

import vk

# VERIF_FUNCSB_ONLY=<property id> restricts a run to the parts that decide that property (used by the self-tests; such a
# partial result is cached under its own name so that it is never taken for a full family result)
ONLY = os.environ.get("VERIF_FUNCSB_ONLY", "")
FAMILY = "funcsB" if ONLY not in ("C16", "C18", "C48") else "funcsB_" + ONLY
SPEC_DIR = os.path.join(vk.SPEC, "funcsB")
PROPS = ["C16", "C18", "C48"]

# canonical failing pair of known finding KF-C16-1 (world 0 of StoreKeys.tla)
KF_C16_CLIENT = "abcd"
KF_C16_ALIAS = "abcdasync_packetaaa"
KF_C16_SEQ = "7016996765478510963"


# ------------------------------------------------------------------------------------------ sizes

def sizes(tier):
    if tier == "quick":
        return dict(
            router=[("router-v2", dict(CHARS={"a", "b"}, MaxName=2, MaxPort=4, MaxRegs=3, ODD=True, VERSION="v2")),
                    ("router-v1", dict(CHARS={"a", "b"}, MaxName=2, MaxPort=4, MaxRegs=4, ODD=True, VERSION="v1"))],
            router_procs=1, router_reps=8, router_shards=2,
            worlds=[0, 3],
            merkle=dict(NK=2, MaxOp=2), merkle_extra=24, merkle_shards=2,
            ns_mc=dict(MaxClients=2, STARTS={9, 99}, MaxClock=4), ns_scheds=10, ns_depth=12, ns_shards=4)
    return dict(
        router=[("router-v2", dict(CHARS={"a", "b"}, MaxName=2, MaxPort=4, MaxRegs=4, ODD=True, VERSION="v2")),
                ("router-v2-deep", dict(CHARS={"a", "b"}, MaxName=3, MaxPort=4, MaxRegs=3, ODD=False, VERSION="v2")),
                ("router-v1", dict(CHARS={"a", "b"}, MaxName=3, MaxPort=4, MaxRegs=4, ODD=True, VERSION="v1"))],
        router_procs=4, router_reps=8, router_shards=6,
        worlds=[0, 1, 2, 3],
        merkle=dict(NK=3, MaxOp=5), merkle_extra=300, merkle_shards=6,
        ns_mc=dict(MaxClients=3, STARTS={0, 9, 99}, MaxClock=5), ns_scheds=80, ns_depth=16, ns_shards=8)


ROUTER_WITNESS = {"v2": ["RouteRefusedByPrefix", "PrefixRefusedByRoute", "PrefixRefusedByPrefix", "RouteAndPrefixCoexist", "FullSetAccepted"],
                  "v1": ["NonAlnumRefused", "TwoKeysContained", "FullSetAccepted"]}
KEYS_WITNESS = ["NoSeparatorCollision", "NoSeparatorPrefixCapture", "InvalidIdCollision", "PrefixOwnsEntries", "V1V2SharedPrefix"]
MERKLE_WITNESS = ["MemOK", "NonMemOK", "NeighbourProofCovers", "WrongValueRejected", "LeftMostNonMem", "RightMostNonMem",
                  "MemOfAbsentRejected", "NonMemOfPresentRejected", "MutationRejected"]
NS_WITNESS = ["create", "update", "misbehaviour", "upgrade", "recover", "rejected", "TwoDigitId", "ThreeDigitId"]


def witnesses(out):
    return set(re.findall(r'<<"WITNESS", "([A-Za-z0-9]+)">>', out))


def need_witnesses(what, out, names):
    seen = witnesses(out)
    missing = [w for w in names if w not in seen]
    if missing:
        raise vk.Infra("vacuous model check (%s): no witness for %s" % (what, missing))
    return sorted(seen)


def jconst(c):
    return {k: (sorted(v) if isinstance(v, (set, frozenset)) else v) for k, v in c.items()}


def mc_with_cases(d, module, name, consts, invariants, properties=(), workers=3, timeout=1200):
    """Exhaustive model check that also serialises the case table (OutFile).  vk.tlc_mc memoises model-check results per
    (specification, cfg), so the table is kept in a cache of its own, keyed by the same inputs: when it exists the
    check runs (or is reused) with OutFile = "", otherwise TLC is forced to run and writes it."""
    h = hashlib.sha256()
    for f in sorted(glob.glob(os.path.join(SPEC_DIR, "*.tla"))):
        h.update(os.path.basename(f).encode())
        h.update(open(f, "rb").read())
    h.update(json.dumps([module, name, jconst(consts)], sort_keys=True).encode())
    cdir = os.path.join(vk.CACHE, "funcsB_cases")
    os.makedirs(cdir, exist_ok=True)
    cases = os.path.join(cdir, "%s-%s.json" % (name, h.hexdigest()[:24]))
    have = os.path.exists(cases)
    tmp = cases + ".%d.tmp" % os.getpid()
    c = dict(consts)
    c["OutFile"] = "" if have else tmp
    cfg = os.path.join(d, name + ("" if have else "_gen") + ".cfg")
    vk.write_cfg(cfg, "Spec", c, invariants=invariants, properties=properties)
    r = vk.tlc_mc(d, module, cfg, workers=workers, timeout=timeout, reuse=have)
    if not have:
        if not os.path.exists(tmp):
            raise vk.Infra("%s: the model check did not write the case table" % name)
        os.replace(tmp, cases)
        for old in sorted(glob.glob(os.path.join(cdir, name + "-*.json")), key=os.path.getmtime)[:-3]:
            try:
                os.remove(old)
            except OSError:
                pass
    return r, cases


def run_go(binary, test, env, what):
    rc, out = vk.run_driver(binary, test, env)
    if rc != 0:
        raise vk.Infra("driver %s failed (rc=%d):\n%s" % (what, rc, out[-3000:]))


def read_lines(path):
    return [l for l in open(path) if l.strip()]


def validate_shards(module, consts, lines, workdir, tag, nshards, group_key=None):
    """TLC trace validation of independent lines, split over several TLC processes."""
    d = vk.scratch_spec(SPEC_DIR)
    if group_key is None:
        shards = vk.shard(lines, nshards)
    else:  # keep lines of one group (one trace) together and in order
        groups = collections.OrderedDict()
        for l in lines:
            groups.setdefault(group_key(l), []).append(l)
        shards = [[l for g in part for l in g] for part in vk.shard(list(groups.values()), nshards)]
    shards = [s for s in shards if s]

    def one(ix):
        tf = os.path.join(workdir, "%s_%d.ndjson" % (tag, ix))
        with open(tf, "w") as f:
            f.writelines(shards[ix])
        cfg = os.path.join(d, "%s_%d.cfg" % (tag, ix))
        c = dict(consts)
        c["TraceFile"] = tf
        vk.write_cfg(cfg, "TraceSpec", c)
        fl, consumed, out = vk.tlc_trace(d, module, cfg)
        if consumed != len(shards[ix]):
            raise vk.Infra("%s: trace validation consumed %d of %d lines\n%s" % (tag, consumed, len(shards[ix]), out[-2000:]))
        return fl
    fails = []
    for fl in vk.pmap(one, list(range(len(shards))), min(len(shards), 4)):
        fails.extend(fl)
    shutil.rmtree(d, ignore_errors=True)
    return fails


# ------------------------------------------------------------------------------------------ C48 router

def router_part(tier, seed, binary, workdir, name, consts, sz, only_case=None):
    """MC + case table + real routers + validation for one router configuration."""
    part = {"mc": {}, "fails": [], "cov": collections.Counter(), "sigs": set(), "failing": {}, "cases": 0, "evals": 0}
    d = vk.scratch_spec(SPEC_DIR)
    cases_path = os.path.join(workdir, name + "_cases.json")
    version = consts["VERSION"]
    if only_case is None:
        r, cases_path = mc_with_cases(d, "MC_Router", name, consts, ["Inv"],
                                      ["OnlyGrows", "RefusalJustified", "AmbiguousNeverAccepted"], workers=3,
                                      timeout=900 if tier == "quick" else 3000)
        seen = need_witnesses(name, r["out"], ROUTER_WITNESS[version])
        part["mc"][name] = {"distinct": r["distinct"], "generated": r["generated"], "depth": r["depth"], "witnesses": seen,
                            "constants": jconst(consts)}
        doc = json.load(open(cases_path))
    else:
        doc = only_case
        json.dump(doc, open(cases_path, "w"))
    shutil.rmtree(d, ignore_errors=True)
    # real routers, in one or several fresh processes (map seeds differ per process)
    procs = sz["router_procs"]
    merged = collections.OrderedDict()

    def one(p):
        tp = os.path.join(workdir, "%s_trace_p%d.ndjson" % (name, p))
        run_go(binary, "TestRouter", {"VERIF_CASES": cases_path, "VERIF_TRACE": tp, "VERIF_PROC": str(p),
                                      "VERIF_REPS": str(sz["router_reps"]), "VERIF_SEED": str(seed)}, name)
        return tp
    for tp in vk.pmap(one, list(range(procs)), procs):
        for l in read_lines(tp):
            ln = json.loads(l)
            if ln["tr"] in merged:
                merged[ln["tr"]]["runs"].extend(ln["runs"])   # same case, other process: more runs of the same case
            else:
                merged[ln["tr"]] = ln
    lines = [json.dumps(ln, separators=(",", ":")) + "\n" for ln in merged.values()]
    fails = validate_shards("Trace_Router", consts, lines, workdir, name + "_val", sz["router_shards"])
    part["fails"] = fails
    ports = ["".join(p) for p in doc["ports"]]
    by_id = {}
    for i, c in enumerate(doc["cases"]):
        by_id[c.get("id") or "%s-%d" % (version, i + 1)] = c
    for ln in merged.values():
        part["cases"] += 1
        regs = ln["regs"]
        for run in ln["runs"]:
            part["evals"] += len(run["s"]) + len(run["r"]) * sz["router_reps"]
            for ix, ok in zip(run["o"], run["s"]):
                part["cov"]["%s:%s:%s" % (name, regs[ix - 1]["m"], "ok" if ok else "panic")] += 1
            for q, g in enumerate(run["r"]):
                if g <= 0:
                    cls = "none"
                else:
                    reg = regs[g - 1]
                    cls = reg["m"] if reg["m"] != "v1" else ("exact" if "".join(reg["n"]) == ports[q] else "contained")
                part["cov"]["%s:resolve:%s" % (name, cls)] += 1
            if run["u"]:
                part["cov"]["%s:resolve:unstable" % name] += 1
            if len(regs) >= 2:
                part["sigs"].add((version, ln["tr"], tuple(run["o"]), tuple(run["s"])))
    for tr, step, prop, clause in fails:
        if tr not in part["failing"] and tr in by_id:
            c = dict(by_id[tr])
            c["id"] = tr
            part["failing"][tr] = {"kind": "router", "name": name, "consts": jconst(consts),
                                   "doc": {"version": version, "ports": doc["ports"], "cases": [c]}}
    first = next(iter(merged.values()))
    for ln in merged.values():
        if len(ln["regs"]) >= 2 and any(0 in r["s"] for r in ln["runs"]):
            first = ln
            break
    names = [r["m"] + ":" + "".join(r["n"]) for r in first["regs"]]
    part["sample"] = {"case": first["tr"], "registrations": names,
                      "runs": [{"order": [names[i - 1] for i in run["o"]], "accepted": run["s"],
                                "resolution": {p: (names[g - 1] if g > 0 else None) for p, g in zip(ports, run["r"])},
                                "unstable_ports": run["u"]} for run in first["runs"][:2]]}
    return part


# ------------------------------------------------------------------------------------------ C16 keys

def keys_part(tier, seed, binary, workdir, world, only_tuples=None):
    name = "keys-w%d" % world
    part = {"mc": {}, "fails": [], "cov": collections.Counter(), "sigs": set(), "failing": {}, "cases": 0, "evals": 0}
    d = vk.scratch_spec(SPEC_DIR)
    cases_path = os.path.join(workdir, name + "_cases.json")
    if only_tuples is None:
        r, cases_path = mc_with_cases(d, "MC_StoreKeys", name, dict(WORLD=world, TraceFile=""), ["Inv"], workers=3, timeout=1200)
        seen = need_witnesses(name, r["out"], KEYS_WITNESS)
        m = re.search(r'<<"TABLE", (\d+)>>', r["out"])
        part["mc"][name] = {"distinct": r["distinct"], "generated": r["generated"], "depth": r["depth"], "witnesses": seen,
                            "table_rows": int(m.group(1)) if m else 0, "constants": {"WORLD": world}}
    else:
        json.dump({"world": world, "tuples": only_tuples}, open(cases_path, "w"))
    tp = os.path.join(workdir, name + "_trace.ndjson")
    run_go(binary, "TestKeys", {"VERIF_CASES": cases_path, "VERIF_TRACE": tp, "VERIF_SEED": str(seed)}, name)
    cfg = os.path.join(d, name + "_trace.cfg")
    vk.write_cfg(cfg, "TraceSpec", dict(WORLD=world, TraceFile=tp, OutFile=""))
    fails, consumed, out = vk.tlc_trace(d, "Trace_StoreKeys", cfg)
    shutil.rmtree(d, ignore_errors=True)
    lines = [json.loads(l) for l in read_lines(tp)]
    if consumed != len(lines):
        raise vk.Infra("%s: trace validation consumed %d of %d lines" % (name, consumed, len(lines)))
    m = re.search(r"(\d+) states generated, (\d+) distinct states found", out)
    part["real_trie"] = {"generated": int(m.group(1)) if m else 0, "distinct": int(m.group(2)) if m else 0}
    part["fails"] = fails
    rows = [ln for ln in lines if ln["ty"] == "key"]
    for ln in rows:
        part["cases"] += 1
        part["evals"] += 1
        t = ln["t"]
        part["cov"]["%s:key:%s" % (name, t["k"])] += 1
        part["sigs"].add((world, t["k"], "".join(t["a"]), "".join(t["b"])))
    for ln in lines:
        if ln["ty"] == "iter":
            part["evals"] += 1
            part["cov"]["%s:iter:%s:%s" % (name, ln["via"], ln["res"])] += 1
            if ln["got"]:
                part["cov"]["%s:iter:nonempty" % name] += 1
    for tr, step, prop, clause in fails:
        mm = re.match(r"K(\d+)-(\d+)-(\d+)$", tr)
        if not mm or tr in part["failing"]:
            continue
        ts = [rows[int(x) - 1]["t"] for x in (mm.group(2), mm.group(3)) if 0 < int(x) <= len(rows)]
        part["failing"][tr] = {"kind": "keys", "world": world, "tuples": ts}
    # the canonical pair of known finding KF-C16-1
    if world == 0:
        col = [f for f in fails if f[2] == "C16" and f[3].startswith("injective") and is_canonical(part["failing"].get(f[0]))]
        part["kf_c16_1"] = {"present": canonical_present(rows), "collides": bool(col)}
    sample_row = next((ln for ln in rows if ln["t"]["k"] == "commitV2"), rows[0])
    part["sample"] = {"world": world, "tuple": {"kind": sample_row["t"]["k"], "a": "".join(sample_row["t"]["a"]),
                                                "b": "".join(sample_row["t"]["b"]), "seq": "".join(sample_row["t"]["s"]["dec"])},
                      "real_key_symbols": sample_row["key"]}
    return part


def tuple_str(t):
    return (t["k"], "".join(t["a"]), "".join(t["s"]["dec"]))


def is_canonical(sched):
    if not sched or sched.get("kind") != "keys":
        return False
    got = {tuple_str(t) for t in sched["tuples"]}
    return got == {("asyncV2", KF_C16_CLIENT, KF_C16_SEQ), ("aliasV2", KF_C16_ALIAS, "")}


def canonical_present(rows):
    have = {tuple_str(r["t"]) for r in rows}
    return ("asyncV2", KF_C16_CLIENT, KF_C16_SEQ) in have and ("aliasV2", KF_C16_ALIAS, "") in have


# ------------------------------------------------------------------------------------------ C16 namespaces

def ns_part(tier, seed, binary, workdir, sz, only_sched=None):
    name = "clientns"
    part = {"mc": {}, "fails": [], "cov": collections.Counter(), "sigs": set(), "failing": {}, "cases": 0, "evals": 0}
    d = vk.scratch_spec(SPEC_DIR)
    if only_sched is None:
        cfg = os.path.join(d, "ns_mc.cfg")
        c = dict(WORLD=0)
        c.update(sz["ns_mc"])
        vk.write_cfg(cfg, "Spec", c, invariants=["Inv"])
        r = vk.tlc_mc(d, "MC_ClientNS", cfg, workers=2, timeout=1200)
        seen = need_witnesses(name, r["out"], NS_WITNESS)
        part["mc"][name] = {"distinct": r["distinct"], "generated": r["generated"], "depth": r["depth"], "witnesses": seen,
                            "constants": jconst(c)}
        outdir = os.path.join(workdir, "ns_sched")
        os.makedirs(outdir, exist_ok=True)
        cfg = os.path.join(d, "ns_sched.cfg")
        vk.write_cfg(cfg, "Spec", dict(WORLD=0, MaxClients=4, Depth=sz["ns_depth"], OutDir=outdir, HONEST_PCT=80))
        vk.tlc_simulate(d, "Sched_ClientNS", cfg, sz["ns_scheds"], sz["ns_depth"] + 1, seed * 11 + 3, workers=1)
        scheds = []
        for i, f in enumerate(sorted(glob.glob(os.path.join(outdir, "*.json")))):
            s = json.load(open(f))
            s["id"] = "N%d-%d" % (seed, i)
            s["kind"] = "ns"
            scheds.append(s)
        scheds = scheds[: sz["ns_scheds"]]
        if len(scheds) < 3:
            raise vk.Infra("namespace schedule generation produced only %d schedules" % len(scheds))
    else:
        scheds = [only_sched]
    shutil.rmtree(d, ignore_errors=True)
    shards = [s for s in vk.shard(scheds, sz["ns_shards"]) if s]

    def one(ix):
        sp = os.path.join(workdir, "ns_sched_%d.ndjson" % ix)
        tp = os.path.join(workdir, "ns_trace_%d.ndjson" % ix)
        with open(sp, "w") as f:
            for s in shards[ix]:
                f.write(json.dumps(s) + "\n")
        run_go(binary, "TestNamespace", {"VERIF_SCHED": sp, "VERIF_TRACE": tp, "VERIF_SEED": str(seed)}, name)
        return tp
    lines = []
    for tp in vk.pmap(one, list(range(len(shards))), len(shards)):
        lines.extend(read_lines(tp))
    fails = validate_shards("Trace_ClientNS", dict(WORLD=0), lines, workdir, "ns_val", min(4, len(shards)),
                            group_key=lambda l: json.loads(l)["tr"])
    part["fails"] = fails
    by_id = {s["id"]: s for s in scheds}
    part["cases"] = len(scheds)
    for l in lines:
        ln = json.loads(l)
        if ln["a"]["op"] == "init":
            continue
        part["evals"] += 1
        part["cov"]["ns:%s:%s" % (ln["a"]["op"], ln["res"])] += 1
        if ln["diff"]:
            part["cov"]["ns:%s:wrote" % ln["a"]["op"]] += 1
        part["sigs"].add(("ns", ln["a"]["op"], ln["res"], len(ln["diff"]) > 0, "".join(ln["created"])[:5]))
    for tr, step, prop, clause in fails:
        part["failing"].setdefault(tr, by_id.get(tr))
    first = json.loads(lines[1]) if len(lines) > 1 else {}
    part["sample"] = {"schedule": scheds[0]["id"], "actions": scheds[0]["acts"][:6],
                      "first_step": {"a": first.get("a"), "res": first.get("res"),
                                     "diff_keys": ["".join(k) for k in first.get("diff", [])]}}
    return part


# ------------------------------------------------------------------------------------------ C18 merkle

def merkle_part(tier, seed, binary, workdir, sz, only_doc=None):
    name = "merkle"
    part = {"mc": {}, "fails": [], "cov": collections.Counter(), "sigs": set(), "failing": {}, "cases": 0, "evals": 0}
    d = vk.scratch_spec(SPEC_DIR)
    consts = dict(sz["merkle"])
    cases_path = os.path.join(workdir, "merkle_cases.json")
    if only_doc is None:
        r, cases_path = mc_with_cases(d, "MC_Merkle", name, consts, ["Inv"], workers=3, timeout=1800)
        seen = need_witnesses(name, r["out"], MERKLE_WITNESS)
        part["mc"][name] = {"distinct": r["distinct"], "generated": r["generated"], "depth": r["depth"], "witnesses": seen,
                            "constants": jconst(consts)}
    else:
        json.dump(only_doc, open(cases_path, "w"))
    shutil.rmtree(d, ignore_errors=True)
    tp = os.path.join(workdir, "merkle_trace.ndjson")
    run_go(binary, "TestMerkle", {"VERIF_CASES": cases_path, "VERIF_TRACE": tp, "VERIF_SEED": str(seed),
                                  "VERIF_EXTRA": str(sz["merkle_extra"])}, name)
    lines = read_lines(tp)
    fails = validate_shards("Trace_Merkle", consts, lines, workdir, "merkle_val", sz["merkle_shards"])
    part["fails"] = fails
    sample = None
    for l in lines:
        ln = json.loads(l)
        part["cases"] += 1
        if ln["ty"] == "bmp":
            part["evals"] += 2
            part["cov"]["merkle:bmp:%s" % ln["res"]] += 1
            if ln["r1after"] != ln["r1"]:
                part["cov"]["merkle:bmp:results-alias"] += 1
            part["sigs"].add(("bmp", ln["c"]["n"], ln["c"]["lastEmpty"], ln["c"]["spare"] > 0))
            continue
        q = ln["req"]
        mut = "none" if q["mut"]["m"] == "none" else "mut"
        if not ln["applied"]:
            part["cov"]["merkle:%s:%s:na" % (q["kind"], mut)] += 1
            continue
        part["evals"] += (ln["rd"] != "na") + (ln["rt"] != "na")
        part["cov"]["merkle:%s:%s:%s" % (q["kind"], mut, ln["rd"])] += 1
        if ln["rt"] != "na":
            part["cov"]["merkle:tm:%s:%s:%s" % (q["kind"], mut, ln["rt"])] += 1
        if q["pkey"] != q["key"]:
            part["cov"]["merkle:%s:other-key-proof:%s" % (q["kind"], ln["rd"])] += 1
        part["sigs"].add((q["kind"], q["mut"]["m"], q["mut"]["lvl"], q["mut"]["side"], q["mut"]["op"], q["pkey"] == q["key"], ln["rd"], ln["rt"]))
        if sample is None and mut == "mut" and q["mut"]["m"].startswith("inner"):
            sample = {"store": ln["vals"], "request": q, "result_23_commitment": ln["rd"], "result_07_tendermint": ln["rt"]}
    doc = json.load(open(cases_path))
    for tr, step, prop, clause in fails:
        if tr in part["failing"]:
            continue
        if tr.startswith("B"):
            part["failing"][tr] = {"kind": "merkle", "consts": jconst(consts), "extra": sz["merkle_extra"],
                                   "doc": {"nk": doc["nk"], "contents": [], "bmp": [doc["bmp"][int(tr[1:]) - 1]]}}
        else:
            ci = int(tr[1:]) - 1
            bad = [json.loads(l)["req"] for l in lines if json.loads(l)["tr"] == tr and
                   any(f[0] == tr and f[1] == json.loads(l)["i"] for f in fails)]
            # all contents are kept (the heights of the committed stores are part of the case), only the failing requests
            contents = [{"vals": c["vals"], "reqs": (bad if j == ci else [])} for j, c in enumerate(doc["contents"])]
            part["failing"][tr] = {"kind": "merkle", "consts": jconst(consts), "extra": sz["merkle_extra"],
                                   "doc": {"nk": doc["nk"], "contents": contents, "bmp": []}}
    part["sample"] = sample or {}
    return part


# ------------------------------------------------------------------------------------------ family

FLOORS = {
    "C16": ["keys-w0:key:commitV1", "keys-w0:key:asyncV2", "keys-w0:key:aliasV2", "keys-w0:key:consState", "keys-w0:iter:raw:ok",
            "keys-w0:iter:keeper:ok", "keys-w0:iter:nonempty", "keys-w3:key:commitV2",
            "ns:create:ok", "ns:update:ok", "ns:misbehaviour:ok", "ns:upgrade:ok", "ns:recover:ok", "ns:recover:wrote", "ns:update:err"],
    "C18": ["merkle:mem:none:ok", "merkle:nonmem:none:ok", "merkle:mem:none:err", "merkle:nonmem:none:err", "merkle:mem:mut:err",
            "merkle:nonmem:mut:err", "merkle:tm:mem:none:ok", "merkle:tm:nonmem:none:ok", "merkle:tm:mem:mut:err",
            "merkle:nonmem:other-key-proof:ok", "merkle:bmp:ok"],
    "C48": ["router-v2:route:ok", "router-v2:route:panic", "router-v2:prefix:ok", "router-v2:prefix:panic", "router-v2:resolve:prefix",
            "router-v2:resolve:route", "router-v2:resolve:none", "router-v1:v1:ok", "router-v1:v1:panic", "router-v1:resolve:contained",
            "router-v1:resolve:exact"],
}

PARTS_OF = {"C16": ("keys-", "clientns"), "C18": ("merkle",), "C48": ("router-",)}


def run_family(tier, seed, binary=None):
    t0 = time.time()
    workdir = os.path.join(vk.CACHE, "work", FAMILY + vk.repo_tag())
    shutil.rmtree(workdir, ignore_errors=True)
    os.makedirs(workdir)
    if binary is None:
        binary = vk.build_harness("funcsB")
    sz = sizes(tier)
    jobs = []
    for name, consts in sz["router"]:
        jobs.append(("router", name, lambda n=name, c=consts: router_part(tier, seed, binary, workdir, n, c, sz)))
    for w in sz["worlds"]:
        jobs.append(("keys", "keys-w%d" % w, lambda w=w: keys_part(tier, seed, binary, workdir, w)))
    jobs.append(("ns", "clientns", lambda: ns_part(tier, seed, binary, workdir, sz)))
    jobs.append(("merkle", "merkle", lambda: merkle_part(tier, seed, binary, workdir, sz)))
    if FAMILY != "funcsB":
        jobs = [j for j in jobs if j[1].startswith(PARTS_OF[ONLY])]
    results, errors = {}, []

    def runner(job):
        kind, name, fn = job
        try:
            t1 = time.time()
            results[name] = fn()
            results[name]["wall"] = time.time() - t1
            vk.log("%s: %d cases, %d monitor failures (%.1fs)" % (name, results[name]["cases"], len(results[name]["fails"]), time.time() - t1))
        except Exception as e:  # noqa
            errors.append(e)
    # at most 4 parts at a time (each runs TLC with a few workers)
    sem = threading.Semaphore(6)

    def guarded(th_job):
        with sem:
            runner(th_job)
    threads = [threading.Thread(target=guarded, args=(j,)) for j in jobs]
    for th in threads:
        th.start()
    for th in threads:
        th.join()
    if errors:
        infra = [e for e in errors if isinstance(e, vk.Infra)]
        raise (infra[0] if infra else errors[0])
    result = {"tier": tier, "seed": seed, "mc": {}, "traces": 0, "steps": 0, "fails": [], "coverage": {}, "sigs": {},
              "failing_schedules": {}, "sample": {}, "parts": {}}
    sig_sets = collections.defaultdict(set)
    for name, part in results.items():
        result["mc"].update(part["mc"])
        result["traces"] += part["cases"]
        result["steps"] += part["evals"]
        result["fails"].extend([list(f) for f in part["fails"]])
        for k, v in part["cov"].items():
            result["coverage"][k] = result["coverage"].get(k, 0) + v
        result["failing_schedules"].update(part["failing"])
        result["sample"][name] = part.get("sample")
        result["parts"][name] = {"cases": part["cases"], "evaluations": part["evals"], "wall": round(part["wall"], 1),
                                 "real_trie": part.get("real_trie")}
        for pid, prefixes in PARTS_OF.items():
            if name.startswith(prefixes):
                sig_sets[pid] |= {json.dumps(s, default=str) for s in part["sigs"]}
        if "kf_c16_1" in part:
            result["kf_c16_1"] = part["kf_c16_1"]
    result["sigs"] = {p: len(s) for p, s in sig_sets.items()}
    sanity = [f for f in result["fails"] if f[2] == "X"]
    if sanity:
        raise vk.Infra("harness sanity monitors failed (infrastructure): %s" % sanity[:5])
    result["wall"] = time.time() - t0
    return result


def replay(schedule, binary=None):
    """Re-executes one failing case on the real code and validates it again; returns (fails, record)."""
    workdir = os.path.join(vk.CACHE, "work", FAMILY + "_replay" + vk.repo_tag())
    shutil.rmtree(workdir, ignore_errors=True)
    os.makedirs(workdir)
    if binary is None:
        binary = vk.build_harness("funcsB")
    sz = sizes("quick")
    sz.update(router_shards=1, merkle_shards=1, ns_shards=1)
    kind = schedule.get("kind")
    if kind == "router":
        consts = dict(schedule["consts"])
        consts["CHARS"] = set(consts["CHARS"])
        sz["router_procs"] = 3
        part = router_part("quick", 1, binary, workdir, schedule["name"], consts, sz, only_case=schedule["doc"])
    elif kind == "keys":
        part = keys_part("quick", 1, binary, workdir, schedule["world"], only_tuples=schedule["tuples"])
    elif kind == "ns":
        part = ns_part("quick", 1, binary, workdir, sz, only_sched=schedule)
    elif kind == "merkle":
        sz["merkle"] = dict(schedule["consts"])
        sz["merkle_extra"] = schedule.get("extra", sz["merkle_extra"])
        part = merkle_part("quick", 1, binary, workdir, sz, only_doc=schedule["doc"])
    else:
        raise vk.Infra("unknown schedule kind %r" % kind)
    return [tuple(f) for f in part["fails"] if f[2] != "X"], part.get("sample")


# ------------------------------------------------------------------------------------------ known findings

def match_known(fail, sched, known):
    """Is this monitor failure inside a listed input class?  Decided from the inputs of the failing case only."""
    if not sched or sched.get("kind") != "keys":
        return None
    kinds = {t["k"] for t in sched.get("tuples", [])}
    for k in known:
        sig = k.get("signature", {})
        if sig.get("class") == "no-separator-key" and kinds & set(sig.get("kinds", [])) \
                and (fail[3].startswith("injective") or fail[3].startswith("prefix-iteration")):
            return k
    return None


def probe_known(pid, known, result):
    lines = []
    for k in known:
        if k.get("signature", {}).get("class") != "no-separator-key":
            continue
        st = result.get("kf_c16_1")
        if st is None:
            continue
        if st.get("collides"):
            lines.append("KNOWN-FINDING: property=%s %s AsyncPacketKey(%s, %s) = AliasKey(%s) on the real constructors "
                         "(04-channel/v2/types/keys.go: identifier and literal joined without separator)"
                         % (pid, k.get("id"), KF_C16_CLIENT, KF_C16_SEQ, KF_C16_ALIAS))
        else:
            lines.append("NOTICE: known finding %s of %s no longer reproduces (the canonical pair does not collide)" % (k.get("id"), pid))
    return lines


# ------------------------------------------------------------------------------------------ evidence

RULES = {
    "C16": "TLC enumerates every tuple (kind, identifiers, sequence/height) of StoreKeys.tla for each WORLD of concrete "
           "representatives; the real key constructors are evaluated on every tuple and TLC explores the trie of the REAL keys "
           "(state = trie node) for collisions and foreign entries under prefix keys; real prefix iterations run on a populated "
           "IAVL store; client-operation histories are TLC random walks of ClientNS.tla executed on real chains with the IBC "
           "store diff of every operation judged by TLC.  distinct_nontrivial = distinct (world, kind, identifiers) tuples plus "
           "distinct (operation, result, wrote?, created type) namespace steps",
    "C18": "TLC enumerates every store content x statement x proof-of-key x single mutation of Merkle.tla; every request is "
           "executed with real ICS-23 proofs of a real IAVL multistore on MerkleProof.Verify(Non)Membership and through the "
           "07-tendermint light client; distinct_nontrivial = distinct (kind, mutation, level, side, op, own-key proof?, result, "
           "light-client result) signatures among the applied requests, plus BuildMerklePath shapes",
    "C48": "TLC enumerates every subset of at most MaxRegs registrations over the name alphabet and every registration order; "
           "real routers are built per order (fresh processes in the thorough tier) and every port identifier is resolved "
           "repeatedly; distinct_nontrivial = distinct (version, registration order, accept/refuse pattern) runs with at least "
           "two registrations",
}


def evidence(pid, res):
    pre = PARTS_OF[pid]
    mc = {k: v for k, v in res.get("mc", {}).items() if k.startswith(pre)}
    parts = {k: v for k, v in res.get("parts", {}).items() if k.startswith(pre)}
    states = sum(v["distinct"] for v in mc.values())
    trans = sum(v["generated"] for v in mc.values())
    for p in parts.values():
        if p.get("real_trie"):
            states += p["real_trie"]["distinct"]
            trans += p["real_trie"]["generated"]
    samples = [v for k, v in res.get("sample", {}).items() if k.startswith(pre) and v]
    return {
        "states": states,
        "transitions": trans,
        "traces_validated_against_impl": sum(p["cases"] for p in parts.values()),
        "samples": samples[:4] or [{}],
        "evaluations": sum(p["evaluations"] for p in parts.values()),
        "distinct_nontrivial": res.get("sigs", {}).get(pid, 0),
        "rule": RULES[pid],
        "model_check": mc,
        "parts": parts,
        "coverage_by_action": {k: v for k, v in sorted(res.get("coverage", {}).items())
                               if k.split(":")[0].startswith(pre) or (pid == "C16" and k.startswith("ns:"))},
        "exhaustive": pid in ("C18", "C48"),
    }
