"""Handshake family: Handshake.tla + Versions.tla (spec/handshake) bound to modules/core/03-connection and
modules/core/04-channel (handshake.go, msg server, version.go) of /repo.  Properties C12, C13 (C15 / C21 clauses
are diagnostics here).

Pipeline (DESIGN.md 2.1):
 (a) exhaustive TLC model check of the handshake design (three configurations: conn, chan, close) and exhaustive enumeration of
     the version-function inputs (Cases_Versions.tla, which also checks the transcription against its own contract);
 (b) TLC -simulate behaviour generation (Sched_Handshake.tla) -> schedules; the enumerated version cases;
 (c) the Go driver harness/handshake executes every schedule on real ibctesting chains (clients only, every
     handshake message built by hand with real ICS-23 proofs at the chosen heights) and evaluates the real version
     functions on every case;
 (d) TLC trace validation (Trace_Handshake.tla, Trace_Versions.tla) prints MONFAIL lines: the only source of verdicts.
"""
import collections
import glob
import hashlib
import json
import os
import re
import shutil
import threading
import time

import vk

FAMILY = "handshake"
SPEC_DIR = os.path.join(vk.SPEC, "handshake")
BIG_TP = 2419200  # 14 days in ticks
SMALL_TP = 30     # trusting period of the few schedules in which clients expire

PROPS = ["C12", "C13", "C15", "C21"]
MC_PROPS = ["ChanTransitions", "ConnTransitions", "CountersMonotone", "ChanFieldsStable"]


# ------------------------------------------------------------------------------------------ (a) model check

def mc_configs(tier):
    base = dict(TP=1000000, MaxH=1000, DTS={1}, FREEZE=False, ADV=True)
    if tier == "quick":
        return {
            # connection handshakes from empty chains, crossing INITs and duplicate TRYs (2 attempts per side)
            "conn": dict(base, PRE="none", MaxConn=2, MaxChan=0, CLOSE=False, IVERS={"none"}, DELAYS={0},
                         ORDS={"UNORDERED"}, CHVERS={"v2"}, PORTS={"mock"}),
            # channel handshakes over an OPEN connection, crossing INITs (2 attempts per side)
            # (the application on the TRY side negotiates another -- the empty -- version: AppTryVersion)
            "chan": dict(base, PRE="conn", MaxConn=0, MaxChan=2, CLOSE=False, IVERS={"none"}, DELAYS={0},
                         ORDS={"UNORDERED"}, CHVERS={"neg:"}, PORTS={"mock"}),
            # one channel attempt per side with both ports and closing in every state
            "close": dict(base, PRE="conn", MaxConn=0, MaxChan=1, CLOSE=True, IVERS={"none"}, DELAYS={0},
                          ORDS={"ORDERED"}, CHVERS={"v2"}, PORTS={"mock", "mock2"}),
        }
    return {
        "conn": dict(base, PRE="none", MaxConn=2, MaxChan=0, CLOSE=False, IVERS={"none", "U"}, DELAYS={0, 1},
                     ORDS={"UNORDERED"}, CHVERS={"v2"}, PORTS={"mock"}),
        "chan": dict(base, PRE="conn", MaxConn=0, MaxChan=2, CLOSE=False, IVERS={"none"}, DELAYS={0},
                     ORDS={"ORDERED", "UNORDERED"}, CHVERS={"neg:"}, PORTS={"mock"}),
        "close": dict(base, PRE="conn", MaxConn=0, MaxChan=1, CLOSE=True, IVERS={"none"}, DELAYS={0},
                      ORDS={"ORDERED", "UNORDERED"}, CHVERS={"v2", "neg:v3"}, PORTS={"mock", "mock2"}),
    }


MC_WITNESS = {
    "conn": ["ConnOpenInit", "ConnOpenTry", "ConnOpenAck", "ConnOpenConfirm", "Update", "Block", "BothConnOpen",
             "CrossingConnInit", "DuplicateTry", "PreConn", "StaleProof"],
    "chan": ["ChanOpenInit", "ChanOpenTry", "ChanOpenAck", "ChanOpenConfirm", "Update", "Block", "BothChanOpen",
             "CrossingChanInit", "StaleProof", "ChanInitOnInitConn"],
    "close": ["ChanOpenInit", "ChanOpenTry", "ChanOpenAck", "ChanOpenConfirm", "ChanCloseInit", "ChanCloseConfirm",
              "BothChanOpen", "BothChanClosed"],
}


def jsonable(c):
    return {k: (sorted(v) if isinstance(v, set) else v) for k, v in c.items()}


MC_FILES = ["Versions.tla", "Handshake.tla", "HandshakeActions.tla", "MC_Handshake.tla"]
CASES_FILES = ["Versions.tla", "Cases_Versions.tla"]


def spec_key(files, what):
    """The exhaustive TLC runs depend only on these specification files and their constants (never on /repo, the
    seed or the harness): their results are reused while those are unchanged (marked `reused` in the evidence)."""
    h = hashlib.sha256()
    for name in files:
        h.update(name.encode())
        with open(os.path.join(SPEC_DIR, name), "rb") as fh:
            h.update(hashlib.sha256(fh.read()).digest())
    h.update(json.dumps(what, sort_keys=True, default=sorted).encode())
    return h.hexdigest()[:24]


def run_mc(tier, result, errors):
    try:
        d = vk.scratch_spec(SPEC_DIR)
        cfgs = mc_configs(tier)

        def one(name):
            key = spec_key(MC_FILES, ["mc", name, jsonable(cfgs[name]), MC_PROPS, MC_WITNESS[name]])
            hit = vk.cache_get(FAMILY + "_mc", key)
            if hit is not None:
                hit["reused"] = True
                return name, hit
            cfg = os.path.join(d, "MC_%s.cfg" % name)
            vk.write_cfg(cfg, "Spec", cfgs[name], invariants=["Inv"], properties=MC_PROPS, constraint="Bound", view="View")
            r = vk.tlc_mc(d, "MC_Handshake", cfg, workers=4, timeout=3000 if tier == "quick" else 7200)
            seen = set(re.findall(r'<<"WITNESS", "([A-Za-z0-9]+)">>', r["out"]))
            missing = [w for w in MC_WITNESS[name] if w not in seen]
            if missing:
                raise vk.Infra("vacuous model check (%s): never witnessed %s" % (name, missing))
            res = {"distinct": r["distinct"], "generated": r["generated"], "depth": r["depth"],
                   "witnessed": sorted(seen), "constants": jsonable(cfgs[name]), "reused": False}
            vk.cache_put(FAMILY + "_mc", key, res)
            return name, res
        out = {}
        for name, r in vk.pmap(one, list(cfgs), 2):
            out[name] = r
        result["mc_handshake"] = out
        shutil.rmtree(d, ignore_errors=True)
    except Exception as e:  # noqa
        errors.append(e)


# ------------------------------------------------------------------------------------------ version function table

def gen_version_cases(tier, workdir):
    """TLC enumerates the inputs of the version functions (and checks the transcription against its own contract).
    The enumeration depends only on the specification: it is kept while the spec files are unchanged."""
    key = spec_key(CASES_FILES, ["cases", tier])
    keep = os.path.join(vk.CACHE, "results", FAMILY + "_cases")
    os.makedirs(keep, exist_ok=True)
    kept = os.path.join(keep, key + ".ndjson")
    if os.path.exists(kept):
        return [l for l in open(kept) if l.strip()]
    d = vk.scratch_spec(SPEC_DIR)
    out = os.path.join(workdir, "vcases.ndjson")
    cfg = os.path.join(d, "Cases.cfg")
    vk.write_cfg(cfg, "Spec", dict(TIER=tier, OutFile=out))
    r = vk.tlc_mc(d, "Cases_Versions", cfg, workers=1, timeout=3000 if tier == "quick" else 7200)
    m = re.search(r'<<"CASES", (\d+)>>', r["out"])
    shutil.rmtree(d, ignore_errors=True)
    if not m or not os.path.exists(out):
        raise vk.Infra("version case enumeration wrote nothing:\n%s" % r["out"][-2000:])
    n = int(m.group(1))
    lines = [l for l in open(out) if l.strip()]
    if len(lines) != n:
        raise vk.Infra("version case enumeration: %d cases announced, %d written" % (n, len(lines)))
    for f in sorted(glob.glob(os.path.join(keep, "*.ndjson")), key=os.path.getmtime)[:-3]:
        os.remove(f)
    shutil.copyfile(out, kept + ".tmp")
    os.replace(kept + ".tmp", kept)
    return lines


def run_version_cases(binary, lines, workdir, tag):
    """Evaluate the real functions on the cases (ndjson lines) and let TLC compare. -> (fails, table lines)"""
    cp = os.path.join(workdir, "%s_vcases.ndjson" % tag)
    tp = os.path.join(workdir, "%s_vtable.ndjson" % tag)
    with open(cp, "w") as f:
        f.writelines(l if l.endswith("\n") else l + "\n" for l in lines)
    rc, out = vk.run_driver(binary, "TestVersions", {"VERIF_CASES": cp, "VERIF_TRACE": tp})
    if rc != 0:
        raise vk.Infra("version driver failed (rc=%d):\n%s" % (rc, out[-3000:]))
    d = vk.scratch_spec(SPEC_DIR)
    cfg = os.path.join(d, "TV_%s.cfg" % tag)
    vk.write_cfg(cfg, "TraceSpec", dict(TraceFile=tp))
    fails, consumed, tout = vk.tlc_trace(d, "Trace_Versions", cfg)
    shutil.rmtree(d, ignore_errors=True)
    if consumed != len(lines):
        raise vk.Infra("version table validation consumed %d of %d lines\n%s" % (consumed, len(lines), tout[-2000:]))
    return fails, [l for l in open(tp) if l.strip()]


def versions_thread(tier, binary_box, workdir, result, errors):
    try:
        lines = gen_version_cases(tier, workdir)
        binary_box["ready"].wait()
        if binary_box.get("binary") is None:
            return
        fails, table = run_version_cases(binary_box["binary"], lines, workdir, "main")
        cov = collections.Counter()
        sigs = set()
        for l in table:
            d = json.loads(l)
            o = d["out"]
            cls = "panic" if "panic" in o else ("ok" if o.get("ok", True) else "no")
            cov["VT:%s:%s" % (d["in"]["fn"], cls)] += 1
            sigs.add(json.dumps([d["in"], o], sort_keys=True))
        failset = {f[0] for f in fails}
        flines = {}
        if failset:
            for l in table:
                d = json.loads(l)
                if d["tr"] in failset:
                    flines[d["tr"]] = d["in"]
        result["vt"] = {"cases": len(lines), "fails": fails, "coverage": dict(cov), "distinct": len(sigs), "lines": flines,
                        "sample": [json.loads(l) for l in table[:1] + table[len(table) // 2:len(table) // 2 + 1] + table[-1:]]}
    except Exception as e:  # noqa
        errors.append(e)


# ------------------------------------------------------------------------------------------ (b) schedules

def sched_constants(tier, depth, outdir, tp):
    return dict(TP=tp, MaxH=3 * depth, MaxConn=4, MaxChan=4, DTS={1, 2}, FREEZE=True, CLOSE=True,
                IVERS={"none", "OU", "U", "O", "UO"}, DELAYS={0, 1}, ORDS={"ORDERED", "UNORDERED"},
                CHVERS={"", "v2", "mock-version", "neg:", "neg:v3"}, PORTS={"mock", "mock2"},
                Depth=depth, OutDir=outdir, HONEST_PCT=55, FULL_PCT=12, MACRO_PCT=28, MUT_PCT=15, OOO_PCT=8)


def sizes(tier):
    """(trusting period, number of walks, seed offset) batches -- each batch is one TLC simulation process."""
    if tier == "quick":
        return dict(n=[(BIG_TP, 22, 0), (SMALL_TP, 4, 5)], depth=60, shards=8)
    return dict(n=[(BIG_TP, 70, 0), (BIG_TP, 70, 1), (BIG_TP, 70, 2), (SMALL_TP, 24, 5)], depth=80, shards=12)


def gen_schedules(tier, seed, workdir):
    sz = sizes(tier)
    d = vk.scratch_spec(SPEC_DIR)

    def one(item):
        tp, n, off = item
        outdir = os.path.join(workdir, "sched_%d_%d" % (tp, off))
        os.makedirs(outdir, exist_ok=True)
        cfg = os.path.join(d, "Sched_%d_%d.cfg" % (tp, off))
        vk.write_cfg(cfg, "Spec", sched_constants(tier, sz["depth"], outdir, tp))
        vk.tlc_simulate(d, "Sched_Handshake", cfg, n, sz["depth"] + 1, seed * 11 + off, workers=1, timeout=2400)
        out = []
        for i, f in enumerate(sorted(glob.glob(os.path.join(outdir, "*.json")))):
            s = json.load(open(f))
            s["id"] = "HS%s%d-%d-%d" % ("" if tp == BIG_TP else "x", off, seed, i)
            out.append(s)
        return out[:n]
    scheds = []
    for lst in vk.pmap(one, sz["n"], 4):
        scheds.extend(lst)
    shutil.rmtree(d, ignore_errors=True)
    if len(scheds) < 3:
        raise vk.Infra("schedule generation produced only %d schedules" % len(scheds))
    return scheds



# ------------------------------------------------------------------------------------------ canonical schedules

ORD_F, UNORD_F = "ORDER_ORDERED", "ORDER_UNORDERED"


def _ver(*f, **kw):
    return {"id": kw.get("id", "1"), "f": list(f)}


def _other(c):
    return "B" if c == "A" else "A"


class _Canon:
    """Builder of hand-written canonical schedules, executed on every run in front of the random walks: directed
    boundary cases of input classes the walks reach rarely or never (a counterparty that is not ibc-go, applications
    that negotiate another channel version, restricted connection versions).  It only tracks heights and identifier
    counters to build well-formed messages; it predicts no result -- every step is judged by TLC like any other."""

    def __init__(self, sid):
        self.s = {"id": sid, "kind": "HS", "tp": BIG_TP, "acts": []}
        self.h = {"A": 1, "B": 1}
        self.nconn = {"A": 0, "B": 0}
        self.nchan = {"A": 0, "B": 0}

    def act(self, a, c, **kw):
        self.h[c] += 1
        self.s["acts"].append(dict({"a": a, "c": c, "dt": 1}, **kw))

    def sync(self, c):
        """block on the counterparty, update c's client to it -> proof height showing the counterparty's current state"""
        o = _other(c)
        self.act("Block", o)
        p = self.h[o]
        self.act("Update", c, p=p)
        return p

    # connection ends / messages
    def conn_end(self, c, st, cpconn, vers, delay=0):
        return {"st": st, "cl": "cl" + c, "cpcl": "cl" + _other(c), "cpconn": cpconn, "pfx": "ibc", "vers": vers, "delay": delay}

    def conn_init(self, c, ivers):
        n = self.nconn[c]
        self.act("ConnOpenInit", c, cl="cl" + c, cpcl="cl" + _other(c), pfx="ibc", ivers=ivers, delay=0)
        self.nconn[c] += 1
        return n

    def conn_try(self, c, cpconn, cpvers):
        m = self.nconn[c]
        ph = self.sync(c)
        self.act("ConnOpenTry", c, cl="cl" + c, cpcl="cl" + _other(c), cpconn=cpconn, pfx="ibc", cpvers=cpvers, delay=0, ph=ph)
        self.nconn[c] += 1
        return m

    def conn_ack(self, c, conn, cpconn, ver):
        ph = self.sync(c)
        self.act("ConnOpenAck", c, conn=conn, ver=ver, cpconn=cpconn, ph=ph)

    def conn_confirm(self, c, conn):
        ph = self.sync(c)
        self.act("ConnOpenConfirm", c, conn=conn, ph=ph)

    def full_conn(self, ivers, picked):
        """honest handshake A -> B; ivers = [] (default list) or [v]; picked = the version B must pick.  A stray INIT
        end on B first: the two ends of the connection get different identifiers (A: connection-0, B: connection-1)"""
        self.conn_init("B", [])
        n = self.conn_init("A", ivers)
        m = self.conn_try("B", n, ivers if ivers else [_ver(ORD_F, UNORD_F)])
        self.conn_ack("A", n, m, picked)
        self.conn_confirm("B", m)
        return n, m

    # channel ends / messages
    def chan_end(self, port, st, ordr, cpport, cpchan, hop, ver):
        return {"port": port, "st": st, "ord": ordr, "cpport": cpport, "cpchan": cpchan, "hops": [hop], "ver": ver}

    def chan_init(self, c, ordr, hop, chver, ok=True, port="mock", cpport="mock"):
        n = self.nchan[c]
        self.act("ChanOpenInit", c, port=port, ord=ordr, hops=[hop], cpport=cpport, chver=chver)
        if ok:
            self.nchan[c] += 1
        return n

    def chan_try(self, c, ordr, hop, cpchan, cpver, ok=True, port="mock", cpport="mock"):
        m = self.nchan[c]
        ph = self.sync(c)
        self.act("ChanOpenTry", c, port=port, ord=ordr, hops=[hop], cpport=cpport, cpchan=cpchan, cpver=cpver, ph=ph)
        if ok:
            self.nchan[c] += 1
        return m

    def chan_ack(self, c, chan, cpchan, cpver, port="mock"):
        ph = self.sync(c)
        self.act("ChanOpenAck", c, port=port, chan=chan, cpchan=cpchan, cpver=cpver, ph=ph)

    def chan_relay(self, name, c, chan, port="mock"):
        ph = self.sync(c)
        self.act(name, c, port=port, chan=chan, ph=ph)


def canon_schedules():
    out = []
    DEF = _ver(ORD_F, UNORD_F)
    U, O, UO = _ver(UNORD_F), _ver(ORD_F), _ver(UNORD_F, ORD_F)

    # (1) ACK side of the version negotiation against a counterparty that is not ibc-go: the counterparty's TRYOPEN end
    #     carries a version that is not within the INIT proposal (wider / disjoint / reordered / other identifier), or
    #     is in another state; the proofs are genuine.  Last: a version inside the proposal (accepted).
    for name, ivers, picked, forged, inside in [
            ("U", [U], U, [DEF, O, UO, _ver(ORD_F, UNORD_F, id="2")], U),
            ("O", [O], O, [DEF, U, UO, _ver(ORD_F, id="2")], O),
            ("default", [], DEF, [_ver(ORD_F, UNORD_F, id="2"), _ver(ORD_F, "X"), _ver()], U)]:
        k = _Canon("CANON-ackver-%s" % name)
        n = k.conn_init("A", ivers)
        m = k.conn_try("B", n, ivers if ivers else [DEF])
        for st in ("INIT", "OPEN"):                       # counterparty end in the wrong handshake state
            k.act("ForeignConn", "B", conn=m, e=k.conn_end("B", st, n, [picked]))
            k.conn_ack("A", n, m, picked)
        for fv in forged:
            k.act("ForeignConn", "B", conn=m, e=k.conn_end("B", "TRYOPEN", n, [fv]))
            k.conn_ack("A", n, m, fv)
        k.act("ForeignConn", "B", conn=m, e=k.conn_end("B", "TRYOPEN", n, [inside]))
        k.conn_ack("A", n, m, inside)
        k.conn_confirm("B", m)
        out.append(k.s)

    # (1b) TRY side of the negotiation on version LISTS only a counterparty that is not ibc-go can store in its INIT end
    #      (several versions, other identifiers first, duplicates, reordered / unknown / empty feature sets)
    k = _Canon("CANON-tryvers")
    X2 = _ver(ORD_F, UNORD_F, id="2")
    n = k.conn_init("A", [])
    for lst in ([U, DEF], [X2, DEF], [DEF, DEF], [UO], [_ver(ORD_F, "X")], [_ver()], [X2], [_ver("X"), O], [U, O],
                [_ver(UNORD_F, UNORD_F)], [X2, UO, DEF]):
        k.act("ForeignConn", "A", conn=n, e=k.conn_end("A", "INIT", -1, lst))
        k.conn_try("B", n, lst)
    out.append(k.s)

    # (1c) CONFIRM against an OPEN end a foreign counterparty committed with one field off; last the matching end
    k = _Canon("CANON-confirmpeer")
    n = k.conn_init("A", [U])
    m = k.conn_try("B", n, [U])
    k.conn_ack("A", n, m, U)
    good = k.conn_end("A", "OPEN", m, [U])
    for fld, val in (("st", "INIT"), ("st", "TRYOPEN"), ("vers", [DEF]), ("vers", [O]), ("vers", [U, U]), ("delay", 1),
                     ("cpconn", m + 1), ("cpcl", "clX"), ("cl", "clB")):
        k.act("ForeignConn", "A", conn=n, e=dict(good, **{fld: val}))
        k.conn_confirm("B", m)
    k.act("ForeignConn", "A", conn=n, e=good)
    k.conn_confirm("B", m)
    out.append(k.s)

    # (2) channel ordering against restricted connection versions, INIT side and TRY side (the INIT end with the
    #     ordering the connection does not carry can only be committed by a counterparty that is not ibc-go)
    for name, v, has, lacks in [("O", O, "ORDERED", "UNORDERED"), ("U", U, "UNORDERED", "ORDERED")]:
        k = _Canon("CANON-ordering-%s" % name)
        n, m = k.full_conn([v], v)
        k.chan_init("A", lacks, n, "v2", ok=False)
        k.chan_init("B", lacks, m, "v2", ok=False)
        ca = k.chan_init("A", has, n, "v2")
        k.act("ForeignChan", "A", chan=ca, e=k.chan_end("mock", "INIT", lacks, "mock", -1, n, "v2"))
        k.chan_try("B", lacks, m, ca, "v2", ok=False)
        k.act("ForeignChan", "A", chan=ca, e=k.chan_end("mock", "INIT", has, "mock", -1, n, "v2"))
        cb = k.chan_try("B", has, m, ca, "v2")
        k.chan_ack("A", ca, cb, "v2")
        k.chan_relay("ChanOpenConfirm", "B", cb)
        out.append(k.s)

    # (3) applications that negotiate another channel version on TRY (also the empty string): the INIT side must end
    #     up with the version proven for the TRYOPEN end
    for ordr in ("UNORDERED", "ORDERED"):
        k = _Canon("CANON-negver-%s" % ordr)
        n, m = k.full_conn([], DEF)
        for chver, neg in (("neg:", ""), ("neg:v3", "v3")):
            ca = k.chan_init("A", ordr, n, chver)
            cb = k.chan_try("B", ordr, m, ca, chver)
            k.chan_ack("A", ca, cb, chver)                # the version A proposed is not the one B holds
            k.chan_ack("A", ca, cb, neg)
            k.chan_relay("ChanOpenConfirm", "B", cb)
        out.append(k.s)

    # (4) channel ACK / CONFIRM / CLOSE-CONFIRM against counterparty ends a foreign chain committed with ONE field off
    #     (state, ordering, version, counterparty identifiers, hops); proofs are genuine; last the matching end
    #     (accepted).  First the TRY side against INIT ends with one field off.
    k = _Canon("CANON-chanpeer")
    n, m = k.full_conn([], DEF)
    ca = k.chan_init("A", "ORDERED", n, "v2")
    ainit = k.chan_end("mock", "INIT", "ORDERED", "mock", -1, n, "v2")
    for fld, val in (("st", "TRYOPEN"), ("st", "OPEN"), ("st", "CLOSED"), ("ord", "UNORDERED"), ("ver", "v3"), ("cpchan", 0),
                     ("cpport", "mock2"), ("hops", [m])):   # TRY with the message an honest relayer builds for the INIT end
        k.act("ForeignChan", "A", chan=ca, e=dict(ainit, **{fld: val}))
        k.chan_try("B", "ORDERED", m, ca, "v2", ok=False)
    k.act("ForeignChan", "A", chan=ca, e=ainit)
    cb = k.chan_try("B", "ORDERED", m, ca, "v2")
    good = k.chan_end("mock", "TRYOPEN", "ORDERED", "mock", ca, m, "v2")
    for fld, val in (("st", "INIT"), ("st", "OPEN"), ("st", "CLOSED"), ("ord", "UNORDERED"), ("ver", "v3"), ("cpchan", ca + 1),
                     ("cpport", "mock2"), ("hops", [m + 1])):
        k.act("ForeignChan", "B", chan=cb, e=dict(good, **{fld: val}))
        k.chan_ack("A", ca, cb, "v2")
    k.act("ForeignChan", "B", chan=cb, e=good)
    k.chan_ack("A", ca, cb, "v2")
    k.chan_relay("ChanOpenConfirm", "B", cb)
    # both OPEN: close-confirm on B needs A's end CLOSED
    agood = k.chan_end("mock", "OPEN", "ORDERED", "mock", cb, n, "v2")
    for e in (dict(agood, st="TRYOPEN"), dict(agood, st="INIT"), dict(agood, st="CLOSED", ord="UNORDERED"),
              dict(agood, st="CLOSED", ver="v3"), dict(agood, st="CLOSED", cpchan=cb + 1)):
        k.act("ForeignChan", "A", chan=ca, e=e)
        k.chan_relay("ChanCloseConfirm", "B", cb)
    k.act("ForeignChan", "A", chan=ca, e=dict(agood, st="CLOSED"))
    k.chan_relay("ChanCloseConfirm", "B", cb)
    k.chan_relay("ChanCloseConfirm", "B", cb)             # CLOSED is terminal
    k.chan_relay("ChanOpenConfirm", "B", cb)
    out.append(k.s)

    # (5) close-confirm on ends that are not OPEN yet (INIT end: no counterparty channel known; TRYOPEN end) while the
    #     counterparty end is not CLOSED, then CLOSED; opening steps on ends that were closed meanwhile, with a valid
    #     proof of the counterparty end (CLOSED is terminal)
    k = _Canon("CANON-closeearly")
    n, m = k.full_conn([], DEF)
    ca = k.chan_init("A", "UNORDERED", n, "v2")
    k.chan_relay("ChanCloseConfirm", "A", ca)             # INIT end, no counterparty end exists
    cb = k.chan_try("B", "UNORDERED", m, ca, "v2")
    k.chan_relay("ChanCloseConfirm", "A", ca)             # INIT end, counterparty TRYOPEN
    k.chan_relay("ChanCloseConfirm", "B", cb)             # TRYOPEN end, counterparty INIT
    k.chan_ack("A", ca, cb, "v2")
    k.act("ChanCloseInit", "A", port="mock", chan=ca)
    k.chan_relay("ChanOpenConfirm", "B", cb)              # counterparty CLOSED, not OPEN
    k.chan_relay("ChanCloseConfirm", "B", cb)             # TRYOPEN end, counterparty CLOSED
    k.chan_relay("ChanOpenConfirm", "B", cb)
    # own TRYOPEN end closed by the application, then the valid confirm arrives (counterparty is OPEN)
    ca = k.chan_init("A", "ORDERED", n, "v2")
    cb = k.chan_try("B", "ORDERED", m, ca, "v2")
    k.chan_ack("A", ca, cb, "v2")
    k.act("ChanCloseInit", "B", port="mock", chan=cb)
    k.chan_relay("ChanOpenConfirm", "B", cb)
    # own INIT end closed by the application, then the valid ack arrives (counterparty is TRYOPEN)
    ca = k.chan_init("A", "UNORDERED", n, "")
    cb = k.chan_try("B", "UNORDERED", m, ca, "mock-version")
    k.act("ChanCloseInit", "A", port="mock", chan=ca)
    k.chan_ack("A", ca, cb, "mock-version")
    out.append(k.s)
    return out

# ------------------------------------------------------------------------------------------ (c) drive, (d) validate

def drive(binary, scheds, workdir, tag, nshards):
    shards = vk.shard(scheds, nshards)

    def one(ix):
        sp = os.path.join(workdir, "%s_sched_%d.ndjson" % (tag, ix))
        tp = os.path.join(workdir, "%s_trace_%d.ndjson" % (tag, ix))
        with open(sp, "w") as f:
            for s in shards[ix]:
                f.write(json.dumps(s) + "\n")
        rc, out = vk.run_driver(binary, "TestDrive", {"VERIF_SCHED": sp, "VERIF_TRACE": tp})
        if rc != 0:
            raise vk.Infra("driver failed (rc=%d):\n%s" % (rc, out[-3000:]))
        return tp
    files = vk.pmap(one, list(range(len(shards))), min(len(shards), 6))
    groups = collections.defaultdict(list)
    for f in files:
        for line in open(f):
            if line.strip():
                d = json.loads(line)
                groups[(d["kind"], d["tp"])].append(line)
    return groups


def split_group(lines, maxlines=4000, maxparts=4):
    """Split the concatenated traces of one group at schedule boundaries into a few files validated in parallel."""
    if len(lines) <= maxlines:
        return [lines]
    parts = max(2, min(maxparts, (len(lines) + maxlines - 1) // maxlines))
    out = [[] for _ in range(parts)]
    ix = -1
    for l in lines:
        if ix < 0 or json.loads(l)["a"]["a"] == "Init":
            ix = (ix + 1) % parts
        out[ix].append(l)
    return [o for o in out if o]


def validate(groups, workdir, tag):
    d = vk.scratch_spec(SPEC_DIR)
    fails, steps = [], 0
    items = []
    for (kind, tp), lines in groups.items():
        for k, part in enumerate(split_group(lines)):
            items.append((kind, tp, k, part))

    def one(item):
        kind, tp, k, lines = item
        tf = os.path.join(workdir, "%s_%s_%d_%d.ndjson" % (tag, kind, tp, k))
        with open(tf, "w") as f:
            f.writelines(lines)
        cfg = os.path.join(d, "Trace_%s_%d_%d.cfg" % (kind, tp, k))
        vk.write_cfg(cfg, "TraceSpec", dict(TP=tp, TraceFile=tf))
        fl, consumed, out = vk.tlc_trace(d, "Trace_Handshake", cfg)
        if consumed != len(lines):
            raise vk.Infra("trace validation consumed %d of %d lines (tp=%d)\n%s" % (consumed, len(lines), tp, out[-2000:]))
        return fl, len(lines)
    for fl, n in vk.pmap(one, items, 4):
        fails.extend(fl)
        steps += n
    shutil.rmtree(d, ignore_errors=True)
    return fails, steps


CONN = ["ConnOpenInit", "ConnOpenTry", "ConnOpenAck", "ConnOpenConfirm"]
CHAN = ["ChanOpenInit", "ChanOpenTry", "ChanOpenAck", "ChanOpenConfirm", "ChanCloseInit", "ChanCloseConfirm"]


def props_of_action(name):
    if name in CONN:
        return ["C13", "C15", "C21"]
    if name in ("ChanOpenInit", "ChanOpenTry"):
        return ["C12", "C13", "C15", "C21"]
    if name in CHAN:
        return ["C12", "C21"]
    if name in ("Update", "Freeze"):
        return ["C21"]
    return []


def both_in(st, kind, state):
    """some end of A in `state` whose named counterparty end on B is in `state` too"""
    a, b = st["ch"]["A"]["cur"][kind], st["ch"]["B"]["cur"][kind]
    key = "cpconn" if kind == "conns" else "cpchan"
    for e in a:
        if e["st"] != state:
            continue
        for f in b:
            if f["n"] == e[key] and f["st"] == state and (kind == "conns" or f["port"] == e["cpport"]):
                return True
    return False


def coverage_of(groups):
    cov = collections.Counter()
    sigs = collections.defaultdict(set)
    for (kind, tp), lines in groups.items():
        prev = None
        foreign = set()
        for line in lines:
            d = json.loads(line)
            a = d["a"]
            if a["a"] == "Init":
                prev = d
                foreign = set()
                continue
            cov["HS:%s:%s" % (a["a"], d["res"])] += 1
            if a["a"] in ("ForeignConn", "ForeignChan") and d["res"] == "ok":
                foreign.add(a["c"])
            st = d["st"]
            if prev is not None:
                pc = prev["st"]["ch"][a["c"]]
                if a["a"] in CONN + CHAN + ["Update"] and pc["status"] != "Active":
                    cov["HS:attempt-through-%s-client:%s" % (pc["status"], d["res"])] += 1
                if "ph" in a:
                    known = a["ph"] in pc["cons"]
                    stale = known and a["ph"] < max(pc["cons"])
                    cov["HS:proof-height-%s:%s" % ("stale" if stale else "latest" if known else "unknown", d["res"])] += 1
                if a["a"] == "ChanOpenAck":
                    for e in pc["cur"]["chans"]:
                        if e["n"] == a.get("chan") and e["st"] == "INIT" and e["ver"].startswith("neg:"):
                            cov["HS:ack-of-version-renegotiated-on-TRY:%s" % d["res"]] += 1
                if a["a"] == "ConnOpenAck" and foreign:
                    for e in pc["cur"]["conns"]:
                        if e["n"] == a.get("conn") and e["st"] == "INIT":
                            inside = any(v["id"] == a["ver"]["id"] and a["ver"]["f"] and set(a["ver"]["f"]) <= set(v["f"]) for v in e["vers"])
                            cov["HS:ack-of-foreign-version-%s-the-proposal:%s" % ("inside" if inside else "outside", d["res"])] += 1
                if a["a"] in ("ChanOpenAck", "ChanOpenConfirm", "ChanCloseConfirm", "ChanOpenTry") and foreign:
                    cov["HS:%s-after-foreign-write:%s" % (a["a"], d["res"])] += 1
                if a.get("cl") == "localhost":
                    cov["HS:localhost:%s" % d["res"]] += 1
                if a["a"] in ("ChanOpenInit", "ChanOpenTry") and len(a.get("hops", [])) == 1:
                    for e in pc["cur"]["conns"]:
                        if e["n"] == a["hops"][0] and len(e["vers"]) == 1:
                            feat = {"ORDERED": "ORDER_ORDERED", "UNORDERED": "ORDER_UNORDERED"}.get(a["ord"])
                            if feat and feat not in e["vers"][0]["f"]:
                                cov["HS:%s-ordering-not-in-connection-version:%s" % (a["a"], d["res"])] += 1
            if a["a"] in ("ConnOpenAck", "ConnOpenConfirm") and d["res"] == "ok" and both_in(st, "conns", "OPEN"):
                cov["HS:both-conn-ends-OPEN"] += 1
            if a["a"] in ("ChanOpenAck", "ChanOpenConfirm") and d["res"] == "ok" and both_in(st, "chans", "OPEN"):
                cov["HS:both-chan-ends-OPEN"] += 1
            if a["a"] == "ChanCloseConfirm" and d["res"] == "ok" and both_in(st, "chans", "CLOSED"):
                cov["HS:both-chan-ends-CLOSED"] += 1
            if a["a"] == "ConnOpenInit" and d["res"] == "ok" and all(
                    any(e["st"] == "INIT" for e in st["ch"][c]["cur"]["conns"]) for c in "AB"):
                cov["HS:crossing-conn-INITs"] += 1
            if a["a"] == "ChanOpenInit" and d["res"] == "ok" and all(
                    any(e["st"] == "INIT" for e in st["ch"][c]["cur"]["chans"]) for c in "AB"):
                cov["HS:crossing-chan-INITs"] += 1
            sig = (a["a"], d["res"], a.get("cl"), a.get("cpcl"), a.get("pfx"), a.get("delay"), a.get("ord"), a.get("port"),
                   a.get("cpport"), a.get("chver"), a.get("cpver"), json.dumps(a.get("hops")), json.dumps(a.get("ivers")),
                   json.dumps(a.get("cpvers")), json.dumps(a.get("ver")), a.get("conn"), a.get("cpconn"), a.get("chan"),
                   a.get("cpchan"))
            for p in props_of_action(a["a"]):
                sigs[p].add(sig)
            prev = d
    return cov, {p: len(s) for p, s in sigs.items()}


# vacuity floors: substrings of coverage keys that must have a positive count
FLOORS = {
    "C12": ["HS:ChanOpenInit:ok", "HS:ChanOpenTry:ok", "HS:ChanOpenTry:err", "HS:ChanOpenAck:ok", "HS:ChanOpenAck:err",
            "HS:ChanOpenConfirm:ok", "HS:ChanOpenConfirm:err", "HS:ChanCloseInit:ok", "HS:ChanCloseConfirm:err",
            "HS:both-chan-ends-OPEN", "HS:crossing-chan-INITs", "HS:proof-height-stale:", "HS:proof-height-unknown:err",
            "HS:ChanCloseConfirm:ok", "HS:both-chan-ends-CLOSED", "HS:ForeignChan:ok",
            "HS:ack-of-version-renegotiated-on-TRY:ok", "HS:ack-of-version-renegotiated-on-TRY:err",
            "HS:ChanOpenAck-after-foreign-write:err", "HS:ChanCloseConfirm-after-foreign-write:err"],
    "C13": ["HS:ConnOpenInit:ok", "HS:ConnOpenTry:ok", "HS:ConnOpenTry:err", "HS:ConnOpenAck:ok",
            "HS:ConnOpenAck:err", "HS:ConnOpenConfirm:ok", "HS:ConnOpenConfirm:err", "HS:both-conn-ends-OPEN",
            "HS:proof-height-stale:", "HS:ForeignConn:ok", "HS:ack-of-foreign-version-outside-the-proposal:err",
            "HS:ack-of-foreign-version-inside-the-proposal:ok", "-ordering-not-in-connection-version:err",
            "HS:ChanOpenTry-after-foreign-write:err", "VT:pick:ok", "VT:pick:no", "VT:supported:ok",
            "VT:supported:no", "VT:inter:", "VT:verify:ok", "VT:verify:no"],
    "C15": ["HS:ConnOpenInit:ok", "HS:ConnOpenTry:err", "HS:ChanOpenInit:ok", "HS:ChanOpenTry:err"],
    "C21": ["HS:Update:ok", "HS:attempt-through-Frozen-client:err"],
}
# rarer situations: measured 1..8 times in quick runs (26 walks), so only a thorough run (234 walks) must reach them
THOROUGH_FLOORS = {
    "C12": [],
    "C13": ["HS:ConnOpenInit:err", "HS:crossing-conn-INITs", "HS:localhost:err"],
}


def run_family(tier, seed, binary=None):
    t0 = time.time()
    workdir = os.path.join(vk.CACHE, "work", FAMILY + vk.repo_tag())
    shutil.rmtree(workdir, ignore_errors=True)
    os.makedirs(workdir)
    result, errors = {}, []
    box = {"ready": threading.Event(), "binary": None}
    th_mc = threading.Thread(target=run_mc, args=(tier, result, errors))
    th_vt = threading.Thread(target=versions_thread, args=(tier, box, workdir, result, errors))
    th_mc.start()
    th_vt.start()
    try:
        if binary is None:
            binary = vk.build_harness("handshake")
        box["binary"] = binary
    finally:
        box["ready"].set()
    try:
        scheds = canon_schedules() + gen_schedules(tier, seed, workdir)
        vk.log("generated %d schedules in %.1fs" % (len(scheds), time.time() - t0))
        groups = drive(binary, scheds, workdir, "main", sizes(tier)["shards"])
        vk.log("drove %d schedules (%.1fs)" % (len(scheds), time.time() - t0))
        fails, steps = validate(groups, workdir, "main")
        vk.log("validated %d steps, %d monitor failures (%.1fs)" % (steps, len(fails), time.time() - t0))
    finally:
        th_mc.join()
        th_vt.join()
    if errors:
        raise errors[0]
    vt = result.pop("vt")
    cov, sigs = coverage_of(groups)
    cov.update(vt["coverage"])
    sigs["C13"] = sigs.get("C13", 0) + vt["distinct"]
    sanity = [f for f in fails + vt["fails"] if f[2] == "X"]
    if sanity:
        raise vk.Infra("harness sanity monitors failed (infrastructure): %s" % sanity[:5])
    if tier == "thorough":
        for p, needs in THOROUGH_FLOORS.items():
            for need in needs:
                if not any(need in k and v > 0 for k, v in cov.items()):
                    raise vk.Infra("vacuous thorough run for %s: never exercised %s" % (p, need))
    by_id = {s["id"]: s for s in scheds}
    failing = {}
    for tr, step, prop, clause in fails:
        failing.setdefault(tr, by_id.get(tr))
    for tr, step, prop, clause in vt["fails"]:
        failing.setdefault(tr, {"kind": "VT", "id": tr, "cases": [vt["lines"].get(tr)]})
    sample = None
    for (kind, tp), lines in sorted(groups.items(), key=lambda kv: -kv[0][1]):
        first = json.loads(lines[0])["tr"]
        sample = {"schedule_id": first, "trusting_period_ticks": tp,
                  "trace_prefix": [slim(json.loads(l)) for l in lines[:14] if json.loads(l)["tr"] == first]}
        break
    mc = dict(result.pop("mc_handshake"))
    mc["versions-table"] = {"distinct": vt["cases"], "generated": vt["cases"], "depth": 1,
                            "note": "inputs of the version functions enumerated by TLC (Cases_Versions.tla)"}
    result.update({"tier": tier, "seed": seed, "mc": mc, "traces": len(scheds), "steps": steps,
                   "table_cases": vt["cases"], "table_sample": vt["sample"],
                   "fails": [list(f) for f in fails + vt["fails"]],
                   "coverage": dict(cov), "sigs": sigs, "failing_schedules": failing, "sample": sample,
                   "wall": time.time() - t0})
    return result


def slim(d):
    st = d["st"]
    return {"i": d["i"], "a": d["a"], "res": d["res"],
            "post": {c: {"h": st["ch"][c]["h"],
                         "conns": [{k: e[k] for k in ("id", "st", "cl", "cpcl", "cpconn", "vers", "delay")} for e in st["ch"][c]["cur"]["conns"]],
                         "chans": [{k: e[k] for k in ("id", "port", "st", "ord", "cpport", "cpchan", "hops", "ver")} for e in st["ch"][c]["cur"]["chans"]],
                         "cons": st["ch"][c]["cons"], "status": st["ch"][c]["status"]} for c in ("A", "B")}}


def evidence(pid, res):
    mc = res.get("mc", {})
    table = res.get("table_cases", 0) if pid == "C13" else 0
    samples = [res.get("sample")]
    if pid == "C13":
        samples += res.get("table_sample", [])
    return {
        "states": sum(v["distinct"] for k, v in mc.items() if pid == "C13" or k != "versions-table"),
        "transitions": sum(v["generated"] for k, v in mc.items() if pid == "C13" or k != "versions-table"),
        "traces_validated_against_impl": res.get("traces", 0),
        "samples": samples,
        "evaluations": res.get("steps", 0) + table,
        "distinct_nontrivial": res.get("sigs", {}).get(pid, 0),
        "rule": "one evaluation = one transaction executed on the real chains and judged by TLC"
                + (" or one enumerated input of a version function evaluated by the real function and compared by TLC" if pid == "C13" else "")
                + "; distinct_nontrivial = distinct (message kind, result class, every message argument) signatures among the steps "
                  "this property's monitors constrain" + (" plus distinct (input, output) rows of the version table" if pid == "C13" else ""),
        "model_check": mc,
        "version_table_cases": table,
        "coverage_by_action": {k: v for k, v in sorted(res.get("coverage", {}).items())},
        "exhaustive": False,
    }


def replay(schedule, binary=None):
    """Re-execute one schedule (or one version case batch) and return its monitor failures."""
    workdir = os.path.join(vk.CACHE, "work", FAMILY + "_replay" + vk.repo_tag())
    shutil.rmtree(workdir, ignore_errors=True)
    os.makedirs(workdir)
    if binary is None:
        binary = vk.build_harness("handshake")
    if schedule.get("kind") == "VT":
        fails, table = run_version_cases(binary, [json.dumps(c) for c in schedule["cases"]], workdir, "replay")
        return fails, {("VT", 0): table}
    groups = drive(binary, [schedule], workdir, "replay", 1)
    fails, _ = validate(groups, workdir, "replay")
    return fails, groups
