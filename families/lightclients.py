"""Light-client family: SoloMachine / Localhost / Attestations / WasmRecoveryStore (spec/lightclients) bound to
modules/light-clients/{06-solomachine,09-localhost,attestations,08-wasm} of /repo.

  C26  SoloMachine.tla        tlc -simulate walks (single + multisig keys)  -> harness/lightclients TestSolo
  C27  Localhost.tla          full enumeration: store x verification table, client messages -> TestLocalhost
  C04* Localhost.tla (loop)   full enumeration of loopback schedules around the timeout -> TestLoop
                              (*localhost part only, clause prefix "localhost-"; used by families/packet.py through
                               probe_c04_localhost(); not registered here)
  C28  Attestations.tla       full enumeration: signature lists x quorum x context, packet lists, histories -> TestAttest
  C29  WasmRecoveryStore.tla  full enumeration of operation sequences -> harness-wasm/recovery TestRecovery

Pipeline per spec (FRAMEWORK.md section 1): exhaustive TLC model check with vacuity witnesses, TLC generation, execution
on the real code (Go only records), TLC trace validation with property-scoped monitors (MONFAIL lines).
"""
import collections
import glob
import json
import os
import random
import re
import shutil
import threading
import time

import vk

FAMILY = "lightclients"
SOURCES = ["harness-wasm"]        # /verif paths outside spec/ harness/ families/ lib/ that this family's result depends on
SPEC_DIR = os.path.join(vk.SPEC, "lightclients")
PROPS = ["C26", "C27", "C28", "C29"]
HOOK_FILE = "modules/light-clients/08-wasm/recovery_store_verif.go"
try:
    _SEED = int(os.environ.get("VERIF_SEED", "1"))       # also drives the harness key material
except ValueError:
    _SEED = 1

SOLO_CONST = dict(KEYS={1, 2, 3}, DIVS={"d1", "d2"}, PATHS={"p1", "p2"}, DATA={"x", "y"}, MaxTs=100000)
FORMS = {"single": {"full", "wrongtype", "partial"}, "multi": {"full", "partial", "wrongtype"}}
ATT_CONST = dict(ATTESTORS={"a1", "a2", "a3"}, STRANGERS={"x"})


def sizes(tier):
    if tier == "quick":
        return dict(solo_walks=12, solo_depth=30, solo_mc=dict(MaxSeq=2, MaxTs=3),
                    att=dict(LMAX=2, PMAX=2, HLEN=2), att_hists=60, att_mc=dict(MaxH=2, LMAX=2),
                    lh=dict(BOTHKEYS=False, LOOPK={3}, LOOPD={1}), lh_mc=dict(MaxH=6, MaxSeqL=2),
                    wasm=dict(DFULL=1, DMUT=2, PREP={"S", "T"}), wasm_mc=dict(NK=2), shards=3)
    return dict(solo_walks=150, solo_depth=40, solo_mc=dict(MaxSeq=3, MaxTs=3),
                att=dict(LMAX=4, PMAX=3, HLEN=3), att_hists=1458, att_mc=dict(MaxH=3, LMAX=3),
                lh=dict(BOTHKEYS=True, LOOPK={3, 4}, LOOPD={1, 2}), lh_mc=dict(MaxH=7, MaxSeqL=2),
                wasm=dict(DFULL=2, DMUT=3, PREP={"S", "T"}), wasm_mc=dict(NK=3), shards=8)


def hook_present():
    return os.path.exists(os.path.join(vk.REPO, HOOK_FILE))


# ------------------------------------------------------------------------------------------ helpers

def witnesses(out):
    return set(re.findall(r'<<"WITNESS", "([A-Za-z0-9]+)">>', out))


def mc_one(d, module, name, consts, need, invariants=("Inv",), properties=(), constraint=None, workers=3, timeout=1500):
    cfg = os.path.join(d, "MC_%s.cfg" % name.replace(":", "_"))
    vk.write_cfg(cfg, "Spec", consts, invariants=list(invariants), properties=list(properties), constraint=constraint)
    r = vk.tlc_mc(d, module, cfg, workers=workers, timeout=timeout)
    seen = witnesses(r["out"])
    missing = [w for w in need if w not in seen]
    if missing:
        raise vk.Infra("vacuous model check (%s): never took %s" % (name, missing))
    return name, {"distinct": r["distinct"], "generated": r["generated"], "depth": r["depth"], "witnessed_actions": sorted(seen),
                  "constants": {k: (sorted(v, key=str) if isinstance(v, (set, frozenset)) else v) for k, v in consts.items()}}


def run_mc(tier, result, errors):
    """(a) exhaustive model checks of the four designs."""
    try:
        sz = sizes(tier)
        d = vk.scratch_spec(SPEC_DIR)
        jobs = []
        jobs.append(lambda: mc_one(d, "MC_SoloMachine", "C26:solo", dict(SOLO_CONST, FORMS=FORMS["multi"], **sz["solo_mc"]),
                                   ["Header", "VM", "VNM", "Misb", "KeyRotated", "SameTs", "RawMisb", "ZeroHeight", "KeepAlive", "MisbConsumed"],
                                   properties=["SeqStep", "TsMonotone", "FrozenFinal"], constraint="Bound"))
        for q in (1, 2, 3):
            jobs.append(lambda q=q: mc_one(d, "MC_Attestations", "C28:att-q%d" % q, dict(ATT_CONST, QUORUM=q, **sz["att_mc"]),
                                           ["Update", "VM", "VNM", "Freeze", "MemberZero"],
                                           properties=["FrozenFinal", "StoredTimestampsImmutable"]))
        jobs.append(lambda: mc_one(d, "MC_Localhost", "C27:table", dict(MODE="table", **sz["lh_mc"]), ["VM", "VNM"], constraint="Bound"))
        jobs.append(lambda: mc_one(d, "MC_Localhost", "C04:loop", dict(MODE="loop", **sz["lh_mc"]),
                                   ["LSend", "LRecv", "LTimeout", "LBlock", "TimeoutByTime", "RecvRefusedAtTimeout"], constraint="Bound"))
        jobs.append(lambda: mc_one(d, "MC_WasmRecoveryStore", "C29:wasm", dict(VALS={"1", "2"}, SUBVALS={"x", "y"}, **sz["wasm_mc"]),
                                   ["Get", "Has", "Set", "Delete", "Iter", "RIter", "SetNoop", "IterEmptyMixed", "IterNonEmptyT", "GetT"]))
        out = dict(vk.pmap(lambda j: j(), jobs, 3))
        result["mc"] = out
        shutil.rmtree(d, ignore_errors=True)
    except Exception as e:  # noqa
        errors.append(e)


def gen(module, consts, files, timeout=1800):
    """(b) full enumeration by TLC: the Gen_* modules serialise their case sets once (ndjson)."""
    d = vk.scratch_spec(SPEC_DIR)
    cfg = os.path.join(d, "gen.cfg")
    vk.write_cfg(cfg, "Spec", consts)
    vk.tlc_mc(d, module, cfg, workers=1, timeout=timeout, reuse=False)      # run for its side effect: the serialised case files
    shutil.rmtree(d, ignore_errors=True)
    out = []
    for f in files:
        if not os.path.exists(f):
            raise vk.Infra("generation by %s did not write %s" % (module, f))
        out.append([json.loads(l) for l in open(f) if l.strip()])
    return out


def write_ndjson(path, items):
    with open(path, "w") as f:
        for x in items:
            f.write(json.dumps(x) + "\n")


def drive(binary, test, env_files, workdir, tag, timeout=3000):
    """(c) execute on the real code; env_files: {ENV: list-of-items}; returns the trace lines (raw strings)."""
    env = {}
    for k, items in env_files.items():
        p = os.path.join(workdir, "%s_%s.ndjson" % (tag, k.lower()))
        write_ndjson(p, items)
        env[k] = p
    tp = os.path.join(workdir, "%s_trace.ndjson" % tag)
    env["VERIF_TRACE"] = tp
    env["VERIF_SEED"] = str(_SEED)
    rc, out = vk.run_driver(binary, test, env, timeout=timeout)
    if rc != 0 or not os.path.exists(tp):
        raise vk.Infra("driver %s failed (rc=%d):\n%s" % (test, rc, out[-3000:]))
    return [l for l in open(tp) if l.strip()]


def validate(module, consts, lines, workdir, tag, nshards, keep_traces=False):
    """(d) TLC trace validation; lines are sharded (whole traces stay together when keep_traces)."""
    if not lines:
        return []
    if keep_traces:
        groups, cur = [], []
        for l in lines:
            if '"a":{"a":"Init"' in l and cur:
                groups.append(cur)
                cur = []
            cur.append(l)
        groups.append(cur)
        shards = [sum(s, []) for s in vk.shard(groups, nshards)]
    else:
        shards = vk.shard(lines, max(1, min(nshards, (len(lines) + 1999) // 2000)))
    d = vk.scratch_spec(SPEC_DIR)

    def one(ix):
        tf = os.path.join(workdir, "%s_v%d.ndjson" % (tag, ix))
        with open(tf, "w") as f:
            f.writelines(shards[ix])
        cfg = os.path.join(d, "Trace_%s_%d.cfg" % (tag, ix))
        vk.write_cfg(cfg, "TraceSpec", dict(consts, TraceFile=tf))
        fl, consumed, out = vk.tlc_trace(d, module, cfg)
        if consumed != len(shards[ix]):
            raise vk.Infra("trace validation (%s) consumed %d of %d lines\n%s" % (tag, consumed, len(shards[ix]), out[-2000:]))
        return fl
    fails = []
    for fl in vk.pmap(one, list(range(len(shards))), len(shards)):
        fails.extend(fl)
    shutil.rmtree(d, ignore_errors=True)
    return fails


# ------------------------------------------------------------------------------------------ C26 solo machine

def solo_generate(tier, seed, workdir):
    sz = sizes(tier)
    d = vk.scratch_spec(SPEC_DIR)
    scheds = []

    def one(kind):
        outdir = os.path.join(workdir, "sched_solo_" + kind)
        shutil.rmtree(outdir, ignore_errors=True)
        os.makedirs(outdir)
        cfg = os.path.join(d, "Sched_%s.cfg" % kind)
        vk.write_cfg(cfg, "Spec", dict(SOLO_CONST, FORMS=FORMS[kind], KIND=kind, Depth=sz["solo_depth"], OutDir=outdir, MISB_PCT=12))
        vk.tlc_simulate(d, "Sched_SoloMachine", cfg, sz["solo_walks"], sz["solo_depth"] + 1, seed * 11 + (0 if kind == "single" else 1), workers=1)
        out = []
        for i, f in enumerate(sorted(glob.glob(os.path.join(outdir, "*.json")))):
            s = json.load(open(f))
            s["id"] = "solo-%s-%d-%d" % (kind, seed, i)
            s["spec"] = "solo"
            out.append(s)
        return out[: sz["solo_walks"]]
    for lst in vk.pmap(one, ["single", "multi"], 2):
        scheds.extend(lst)
    shutil.rmtree(d, ignore_errors=True)
    scheds = solo_canon(workdir) + scheds
    if len(scheds) < 2:
        raise vk.Infra("solo machine schedule generation produced only %d schedules" % len(scheds))
    return scheds


def solo_canon(workdir):
    """Always-run canonical schedules (Canon_SoloMachine.tla: TLC folds Step over directed macro lists and checks the
    intended outcomes in the spec before writing them): keep-alive headers, replays under every claimed proof height,
    misbehaviour for consumed sequences, evidence with a foreign Sequence field."""
    out = []

    def one(kind):
        f = os.path.join(workdir, "canon_solo_%s.ndjson" % kind)
        (items,) = gen("Canon_SoloMachine", dict(SOLO_CONST, FORMS=FORMS[kind], KIND=kind, OutFile=f), [f], timeout=900)
        for i, s in enumerate(items):
            s["id"] = "solo-canon-%s-K%d" % (kind, i + 1)
            s["spec"] = "solo"
        return items
    for items in vk.pmap(one, ["single", "multi"], 2):
        out.extend(items)
    if len(out) < 8:
        raise vk.Infra("canonical solo machine schedules missing (%d)" % len(out))
    return out


def solo_consts():
    return dict(SOLO_CONST, FORMS={"full", "partial", "wrongtype"})


def solo_run(binary, scheds, workdir, tag, nshards):
    parts = vk.shard(scheds, nshards)
    lines = []
    for ls in vk.pmap(lambda ix: drive(binary, "TestSolo", {"VERIF_SCHED": parts[ix]}, workdir, "%s_solo%d" % (tag, ix)), list(range(len(parts))), len(parts)):
        lines.extend(ls)
    fails = validate("Trace_SoloMachine", solo_consts(), lines, workdir, tag + "_solo", nshards, keep_traces=True)
    return lines, fails


def solo_cover(lines, cov, sigs):
    pre = None
    for l in lines:
        d = json.loads(l)
        a = d["a"]
        if a["a"] == "Init":
            pre = d["st"]
            continue
        cov["solo-%s:%s:%s" % (d["kind"], a["a"], d["res"])] += 1
        if a["a"] == "Misb":
            cov["solo:Misb-%s:%s" % (a.get("pform"), d["res"])] += 1
            if a["seq"] < pre["seq"]:
                cov["solo:Misb-consumed-seq:%s" % d["res"]] += 1
            if a["sig1"]["seq"] != a["seq"] and not pre["frozen"]:
                cov["solo:Misb-foreign-seq-field:%s" % d["res"]] += 1
            sig = (d["kind"], "Misb", d["res"], a.get("pform"), pre["frozen"], a["seq"] - pre["seq"], a["sig1"]["form"], a["sig2"]["form"],
                   a["sig1"]["enc"], a["sig2"]["enc"], a["path1"] == a["path2"], a["data1"] == a["data2"])
        else:
            s = a["sig"]
            stale = s["seq"] < pre["seq"]
            if stale and d["res"] != "ok":
                cov["solo:replay-or-stale:%s" % d["res"]] += 1
            if pre["frozen"]:
                cov["solo:after-freeze:%s" % d["res"]] += 1
            if a["a"] == "Header" and not pre["frozen"] and (a["npk"], a["ndiv"], a["ts"]) == (pre["pk"], pre["div"], pre["ts"]) \
                    and s == dict(pk=pre["pk"], seq=pre["seq"], ts=pre["ts"], div=pre["div"], path="hdr", data=s["data"], enc="raw", form="full"):
                cov["solo:keepalive-header:%s" % d["res"]] += 1
            if a["a"] in ("VM", "VNM") and stale and a.get("ph", 0) == s["seq"]:
                cov["solo:stale-at-signed-height:%s" % d["res"]] += 1
            if a["a"] in ("VM", "VNM") and a.get("ph", 0) == 0:
                cov["solo:zero-height:%s" % d["res"]] += 1
            sig = (d["kind"], a["a"], d["res"], pre["frozen"], s["form"], s["enc"], a.get("plen"), max(-2, min(2, s["seq"] - pre["seq"])),
                   max(-2, min(2, a.get("ph", 0) - pre["seq"])) if a.get("ph", 0) else "zero",
                   s["ts"] == a["ts"], a["ts"] >= pre["ts"], s["div"] == pre["div"], s["pk"] == pre["pk"], s["path"] == a.get("path", "hdr"),
                   s["data"] == a.get("data", s["data"] if a["a"] == "Header" else "none"))
        sigs["C26"].add(sig)
        pre = d["st"]


# ------------------------------------------------------------------------------------------ C28 attestations

def att_generate(tier, seed, workdir):
    sz = sizes(tier)
    cf, hf = os.path.join(workdir, "gen_att_cases.ndjson"), os.path.join(workdir, "gen_att_hists.ndjson")
    cases, hists = gen("Gen_Attestations", dict(ATT_CONST, OutFile=cf, HistFile=hf, **sz["att"]), [cf, hf])
    for i, c in enumerate(cases):
        c["id"] = "att-c%d" % i
        c["spec"] = "att"
    rnd = random.Random(seed)
    rnd.shuffle(hists)
    hists = hists[: sz["att_hists"]]
    for i, h in enumerate(hists):
        h["id"] = "att-h%d-%d" % (seed, i)
        h["spec"] = "att"
    return cases, hists


def att_run(binary, cases, hists, workdir, tag, nshards):
    n = max(1, min(nshards, (len(cases) + len(hists) + 499) // 500))
    cparts, hparts = vk.shard(cases, n) if cases else [[]], vk.shard(hists, n) if hists else [[]]
    n = max(len(cparts), len(hparts))
    lines = []

    def one(ix):
        env = {}
        if ix < len(cparts) and cparts[ix]:
            env["VERIF_CASES"] = cparts[ix]
        if ix < len(hparts) and hparts[ix]:
            env["VERIF_HISTS"] = hparts[ix]
        return drive(binary, "TestAttest", env, workdir, "%s_att%d" % (tag, ix)) if env else []
    for ls in vk.pmap(one, list(range(n)), n):
        lines.extend(ls)
    fails = validate("Trace_Attestations", ATT_CONST, lines, workdir, tag + "_att", nshards)
    return lines, fails


def att_cover(lines, cov, sigs):
    for l in lines:
        d = json.loads(l)
        a = d["a"]
        cov["att:%s:%s" % (a["a"], d["res"])] += 1
        if d["pre"]["frozen"]:
            cov["att:after-freeze:%s" % d["res"]] += 1
        if d["post"]["frozen"] and not d["pre"]["frozen"]:
            cov["att:freeze:%s" % d["res"]] += 1
        encs = {s["enc"] for s in a["sigs"]}
        signers = [s["signer"] for s in a["sigs"]]
        if len(set(signers)) < len(signers):
            cov["att:duplicate-signer:%s" % d["res"]] += 1
        if "x" in signers:
            cov["att:stranger:%s" % d["res"]] += 1
        if encs & {"short", "long"}:
            cov["att:bad-length:%s" % d["res"]] += 1
        if any(s["tag"] != ("state" if a["a"] == "Update" else "packet") for s in a["sigs"]):
            cov["att:other-tag:%s" % d["res"]] += 1
        if a["data"]["kind"] != ("state" if a["a"] == "Update" else "packet"):
            cov["att:cross-use:%s" % d["res"]] += 1
        stored = {kv["k"]: kv["v"] for kv in d["pre"]["cons"]}
        if a["a"] in ("VM", "VNM") and a["data"]["kind"] == "packet" and a["h"] in stored and not d["pre"]["frozen"]:
            rel = "below" if a["data"]["h"] < a["h"] else "above" if a["data"]["h"] > a["h"] else "at"
            cov["att:attested-%s-proof-height:%s" % (rel, d["res"])] += 1
        if a["a"] == "Update" and a["data"]["kind"] == "state" and not d["pre"]["frozen"] and a["data"]["h"] in stored \
                and stored[a["data"]["h"]] != a["data"]["ts"]:
            cov["att:conflict-%s:%s" % ("below-latest" if a["data"]["h"] < d["pre"]["latest"] else "at-latest", d["res"])] += 1
        sigs["C28"].add((a["a"], d["res"], d["pre"]["quorum"], d["pre"]["frozen"], len(d["pre"]["cons"]),
                         tuple((s["signer"], s["enc"], s["over"], s["tag"]) for s in a["sigs"]), a["data"]["kind"], a["data"]["h"], a["data"]["ts"],
                         tuple((p["path"], p["com"]) for p in a["data"]["pkts"]), a.get("h"), a.get("val"), a.get("pathc")))


# ------------------------------------------------------------------------------------------ C27 localhost + C04 loopback

def lh_generate(tier, seed, workdir):
    sz = sizes(tier)
    tf, of, lf = (os.path.join(workdir, "gen_lh_%s.ndjson" % n) for n in ("table", "ops", "loops"))
    table, ops, loops = gen("Gen_Localhost", dict(OutFile=tf, OpsFile=of, LoopFile=lf, **sz["lh"]), [tf, of, lf])
    for i, c in enumerate(table):
        c["id"] = "lh-t%d" % i
        c["spec"] = "lh"
    for i, s in enumerate(loops):
        s["id"] = "loop-%d" % i
        s["spec"] = "loop"
    return table, ops, loops


def lh_run(binary, table, ops, workdir, tag, nshards):
    n = max(1, min(nshards, (len(table) + 1499) // 1500))
    parts = vk.shard(table, n) if table else [[]]

    def one(ix):
        env = {}
        if parts[ix]:
            env["VERIF_CASES"] = parts[ix]
        if ix == 0 and ops:
            env["VERIF_OPS"] = ops
        return drive(binary, "TestLocalhost", env, workdir, "%s_lh%d" % (tag, ix)) if env else []
    lines = []
    for ls in vk.pmap(one, list(range(len(parts))), len(parts)):
        lines.extend(ls)
    fails = validate("Trace_Localhost", {}, lines, workdir, tag + "_lh", nshards)
    return lines, fails


def loop_run(binary, loops, workdir, tag, nshards):
    n = max(1, min(nshards, (len(loops) + 29) // 30))
    parts = vk.shard(loops, n)
    lines = []
    for ls in vk.pmap(lambda ix: drive(binary, "TestLoop", {"VERIF_SCHED": parts[ix]}, workdir, "%s_loop%d" % (tag, ix)), list(range(len(parts))), len(parts)):
        lines.extend(ls)
    fails = validate("Trace_Localhost", {}, lines, workdir, tag + "_loop", nshards, keep_traces=True)
    return lines, fails


def lh_cover(lines, cov, sigs):
    for l in lines:
        d = json.loads(l)
        a = d["a"]
        if a["a"] == "ClientOp":
            cov["lh:ClientOp-%s:%s" % (a["op"], d["res"])] += 1
            sigs["C27"].add(("ClientOp", a["op"], a["shape"], a["via"], d["res"]))
            continue
        cov["lh:%s:%s" % (a["a"], d["res"])] += 1
        if a["proof"] != "sentinel":
            cov["lh:non-sentinel:%s" % d["res"]] += 1
        if a["plen"] != 2:
            cov["lh:path-length:%s" % d["res"]] += 1
        sigs["C27"].add((a["a"], d["res"], a["key"], a.get("val"), a["proof"], a["plen"], a["hc"], tuple((x["k"], x["v"]) for x in d["store"])))


def loop_cover(lines, cov, sigs):
    for l in lines:
        d = json.loads(l)
        a = d["a"]
        if a["a"] == "Init":
            continue
        cov["loop:%s:%s" % (a["a"], d["res"])] += 1
        sigs["C04"].add((a["a"], d["res"], a.get("ph", 0) - d["st"]["h"], d["st"]["h"], d["st"]["now"], tuple(d["st"]["commit"]), tuple(d["st"]["rcpt"])))


# ------------------------------------------------------------------------------------------ C29 wasm recovery store

WASM_CONST = dict(NK=2, VALS={"1", "2"})


def wasm_generate(tier, seed, workdir, with_has):
    sz = sizes(tier)["wasm"]
    # two TLC runs side by side: the wide part (every operation after short prefixes) and the deep part
    parts = [dict(sz, DMUT=0), dict(sz, DFULL=0)]

    def one(ix):
        cf = os.path.join(workdir, "gen_wasm_cases_%d.ndjson" % ix)
        (cs,) = gen("Gen_WasmRecoveryStore", dict(WASM_CONST, WITHHAS=with_has, OutFile=cf, **parts[ix]), [cf], timeout=3000)
        return cs
    seen, cases = set(), []
    for cs in vk.pmap(one, [0, 1], 2):
        for c in cs:
            k = json.dumps(c, sort_keys=True)
            if k not in seen:
                seen.add(k)
                cases.append(c)
    for i, c in enumerate(cases):
        c["id"] = "wasm-%d" % i
        c["spec"] = "wasm"
    return cases


def wasm_run(binary, cases, workdir, tag, nshards):
    n = max(1, min(nshards, (len(cases) + 2999) // 3000))
    parts = vk.shard(cases, n)
    lines = []
    for ls in vk.pmap(lambda ix: drive(binary, "TestRecovery", {"VERIF_CASES": parts[ix]}, workdir, "%s_wasm%d" % (tag, ix)), list(range(len(parts))), len(parts)):
        lines.extend(ls)
    fails = validate("Trace_WasmRecoveryStore", WASM_CONST, lines, workdir, tag + "_wasm", nshards)
    return lines, fails


def wasm_cover(lines, cov, sigs):
    for l in lines:
        d = json.loads(l)
        a = d["a"]
        if a["op"] in ("Iter", "RIter"):
            cls = "%s-%s" % (a["s"]["p"], a["e"]["p"])
        else:
            cls = a["p"]
        cov["wasm:%s:%s:%s" % (a["op"], cls, d["res"])] += 1
        if d["mode"] != "contract":
            cov["wasm-%s:%s:%s" % (d["mode"], a["op"], d["res"])] += 1
        sigs["C29"].add((d["mode"], json.dumps(a, sort_keys=True), d["res"], json.dumps(d["pre"]["sub"]), json.dumps(d["out"], sort_keys=True)))


# vacuity floors: substrings of coverage keys that must have been exercised
FLOORS = {
    "C26": ["solo-single:Header:ok", "solo-multi:Header:ok", "solo-single:VM:ok", "solo-multi:VM:ok", ":VNM:ok", ":VM:err", ":Header:err",
            "solo:replay-or-stale:err", "solo:Misb-merkle:ok", "solo:Misb-raw:", "solo:after-freeze:err",
            "solo:keepalive-header:", "solo:stale-at-signed-height:", "solo:zero-height:", "solo:Misb-consumed-seq:", "solo:Misb-foreign-seq-field:"],
    "C27": ["lh:VM:ok", "lh:VM:err", "lh:VNM:ok", "lh:VNM:err", "lh:non-sentinel:err", "lh:path-length:err",
            "lh:ClientOp-Create:err", "lh:ClientOp-Update:err", "lh:ClientOp-Upgrade:err", "lh:ClientOp-Recover:err"],
    "C28": ["att:Update:ok", "att:Update:err", "att:VM:ok", "att:VM:err", "att:VNM:ok", "att:VNM:err", "att:freeze:ok", "att:after-freeze:err",
            "att:duplicate-signer:err", "att:stranger:err", "att:bad-length:err", "att:other-tag:err", "att:cross-use:err",
            "att:attested-below-proof-height:", "att:attested-above-proof-height:", "att:conflict-below-latest:", "att:conflict-at-latest:"],
    "C29": ["wasm:Set:S:ok", "wasm:Set:T:ok", "wasm:Set:N:ok", "wasm:Delete:S:ok", "wasm:Delete:T:ok", "wasm:Get:S:ok", "wasm:Get:T:ok",
            "wasm:Get:N:ok", "wasm:Iter:S-S:ok", "wasm:Iter:T-T:ok", "wasm:Iter:S-T:ok", "wasm:Iter:nil-nil:ok", "wasm:RIter:T-T:ok"],
}


# ------------------------------------------------------------------------------------------ family entry points

def run_family(tier, seed):
    global _SEED
    _SEED = seed
    t0 = time.time()
    workdir = os.path.join(vk.CACHE, "work", FAMILY + vk.repo_tag())
    shutil.rmtree(workdir, ignore_errors=True)
    os.makedirs(workdir)
    sz = sizes(tier)
    result, errors = {}, []
    th = threading.Thread(target=run_mc, args=(tier, result, errors))
    th.start()
    hook = hook_present()
    binary = vk.build_harness("lightclients")
    wbinary = vk.build_harness("recovery", tags="verif,verifhook" if hook else "verif", module="harness-wasm")
    vk.log("harnesses built (%.1fs), wasm constructor export %s" % (time.time() - t0, "present" if hook else "absent (no Has / CacheWrap coverage)"))

    out = {}

    def part(name, fn):
        try:
            out[name] = fn()
            vk.log("%s done (%.1fs)" % (name, time.time() - t0))
        except Exception as e:  # noqa
            errors.append(e)

    def do_solo():
        scheds = solo_generate(tier, seed, workdir)
        lines, fails = solo_run(binary, scheds, workdir, "main", sz["shards"])
        return dict(scheds=scheds, lines=lines, fails=fails)

    def do_att():
        cases, hists = att_generate(tier, seed, workdir)
        lines, fails = att_run(binary, cases, hists, workdir, "main", sz["shards"])
        return dict(scheds=cases + hists, lines=lines, fails=fails)

    def do_lh():
        table, ops, loops = lh_generate(tier, seed, workdir)
        lines, fails = lh_run(binary, table, ops, workdir, "main", sz["shards"])
        llines, lfails = loop_run(binary, loops, workdir, "main", sz["shards"])
        return dict(scheds=table + loops, ops=ops, lines=lines, fails=fails, llines=llines, lfails=lfails)

    def do_wasm():
        cases = wasm_generate(tier, seed, workdir, hook)
        lines, fails = wasm_run(wbinary, cases, workdir, "main", sz["shards"])
        return dict(scheds=cases, lines=lines, fails=fails)

    threads = [threading.Thread(target=part, args=(n, f)) for n, f in (("solo", do_solo), ("att", do_att), ("lh", do_lh), ("wasm", do_wasm))]
    for t in threads:
        t.start()
    for t in threads:
        t.join()
    th.join()
    if errors:
        raise errors[0]

    fails = out["solo"]["fails"] + out["att"]["fails"] + out["lh"]["fails"] + out["lh"]["lfails"] + out["wasm"]["fails"]
    sanity = [f for f in fails if f[2] == "X"]
    if sanity:
        raise vk.Infra("harness sanity monitors failed (infrastructure): %s" % sanity[:5])
    cov = collections.Counter()
    sigs = collections.defaultdict(set)
    solo_cover(out["solo"]["lines"], cov, sigs)
    att_cover(out["att"]["lines"], cov, sigs)
    lh_cover(out["lh"]["lines"], cov, sigs)
    loop_cover(out["lh"]["llines"], cov, sigs)
    wasm_cover(out["wasm"]["lines"], cov, sigs)

    by_id = {}
    for k in ("solo", "att", "lh", "wasm"):
        for s in out[k]["scheds"]:
            by_id[s["id"]] = s
    for i, raw in enumerate(out["lh"]["ops"]):
        by_id["op-%d" % i] = {"spec": "lhop", "id": "op-%d" % i, "op": raw}
    failing = {}
    for tr, step, prop, clause in fails:
        if prop in ("CONF",):
            continue
        failing.setdefault(tr, by_id.get(tr))
    conf = collections.Counter("%s %s" % (f[2], f[3]) for f in fails if f[2] == "CONF")

    def sample_of(lines, n=3):
        return [json.loads(l) for l in lines[:n]]
    per = {
        "C26": dict(traces=len(out["solo"]["scheds"]), steps=len(out["solo"]["lines"]), sample=sample_of(out["solo"]["lines"], 4)),
        "C27": dict(traces=len(out["lh"]["lines"]), steps=len(out["lh"]["lines"]), sample=sample_of(out["lh"]["lines"])),
        "C28": dict(traces=len(out["att"]["scheds"]), steps=len(out["att"]["lines"]), sample=sample_of(out["att"]["lines"])),
        "C29": dict(traces=len(out["wasm"]["scheds"]), steps=len(out["wasm"]["lines"]), sample=sample_of(out["wasm"]["lines"])),
        "C04": dict(traces=len([s for s in out["lh"]["scheds"] if s["spec"] == "loop"]), steps=len(out["lh"]["llines"]), sample=sample_of(out["lh"]["llines"], 4)),
    }
    result.update({"tier": tier, "seed": seed, "traces": sum(p["traces"] for p in per.values()), "steps": sum(p["steps"] for p in per.values()),
                   "fails": [list(f) for f in fails if f[2] != "CONF"], "conformance_diagnostics": dict(conf),
                   "coverage": dict(cov), "sigs": {p: len(s) for p, s in sigs.items()}, "failing_schedules": failing,
                   "per_property": per, "sample": per["C26"]["sample"], "wasm_hook": hook, "wall": time.time() - t0})
    return result


def replay(schedule):
    """Re-execute one schedule / case and return its monitor failures."""
    workdir = os.path.join(vk.CACHE, "work", FAMILY + "_replay" + vk.repo_tag())
    shutil.rmtree(workdir, ignore_errors=True)
    os.makedirs(workdir)
    spec = schedule.get("spec")
    if spec == "wasm":
        hook = hook_present()
        wbinary = vk.build_harness("recovery", tags="verif,verifhook" if hook else "verif", module="harness-wasm")
        lines, fails = wasm_run(wbinary, [schedule], workdir, "replay", 1)
        return fails, {"wasm": lines}
    binary = vk.build_harness("lightclients")
    if spec == "solo":
        lines, fails = solo_run(binary, [schedule], workdir, "replay", 1)
    elif spec == "att":
        if "acts" in schedule:
            lines, fails = att_run(binary, [], [schedule], workdir, "replay", 1)
        else:
            lines, fails = att_run(binary, [schedule], [], workdir, "replay", 1)
    elif spec == "lh":
        lines, fails = lh_run(binary, [schedule], [], workdir, "replay", 1)
    elif spec == "lhop":
        lines, fails = lh_run(binary, [], [schedule["op"]], workdir, "replay", 1)
        fails = [(schedule["id"],) + tuple(f[1:]) for f in fails]
    elif spec == "loop":
        lines, fails = loop_run(binary, [schedule], workdir, "replay", 1)
    else:
        raise vk.Infra("unknown schedule kind %r" % spec)
    return fails, {spec: lines}


def evidence(pid, res):
    mc = {k: v for k, v in res.get("mc", {}).items() if k.startswith(pid + ":")}
    per = res.get("per_property", {}).get(pid, {})
    prefix = {"C26": "solo", "C27": "lh", "C28": "att", "C29": "wasm", "C04": "loop"}[pid]
    ev = {
        "states": sum(v["distinct"] for v in mc.values()),
        "transitions": sum(v["generated"] for v in mc.values()),
        "traces_validated_against_impl": per.get("traces", 0),
        "samples": per.get("sample") or [res.get("sample")],
        "evaluations": per.get("steps", 0),
        "distinct_nontrivial": res.get("sigs", {}).get(pid, 0),
        "rule": "one evaluation = one operation / verification / transaction executed on the real code and judged by TLC; "
                "distinct_nontrivial = distinct (action, input classes, pre-state class, result) tuples among them",
        "model_check": mc,
        "coverage_by_action": {k: v for k, v in sorted(res.get("coverage", {}).items()) if k.startswith(prefix)},
        "conformance_diagnostics": {k: v for k, v in res.get("conformance_diagnostics", {}).items()},
        "exhaustive": pid in ("C27", "C28", "C29"),
        "generation": {"C26": "tlc -simulate random walks with forced mutants/replays", "C27": "full enumeration (TLC, serialised once)",
                       "C28": "full enumeration (TLC, serialised once) + sampled transaction histories",
                       "C29": "full enumeration of operation sequences (TLC, serialised once)", "C04": "full enumeration of loopback schedules"}[pid],
    }
    if pid == "C29":
        ev["wasm_constructor_export_present"] = bool(res.get("wasm_hook"))
    return ev


# ------------------------------------------------------------------------------------------ known findings

def _action_at(schedule, step):
    if not schedule:
        return None
    acts = schedule.get("acts")
    if acts and 1 <= step <= len(acts):
        return acts[step - 1]
    return schedule.get("act") or schedule.get("op")


def match_known(fail, schedule, known):
    """Is this monitor failure inside a listed input class?  Decided from the step's inputs only."""
    tr, step, prop, clause = fail
    a = _action_at(schedule, step)
    for k in known:
        sig = k.get("signature", {})
        if k.get("property") != prop or sig.get("family", FAMILY) != FAMILY:
            continue
        if prop == "C26" and sig.get("action") == "Misb" and isinstance(a, dict) and a.get("a") == "Misb" \
                and a.get("pform") == sig.get("pform", "raw") and clause == sig.get("clause", "misbehaviour-freezes"):
            return k
        if prop == "C04" and clause.startswith("localhost-") and sig.get("action") == "LTimeout" and isinstance(a, dict) and a.get("a") == "LTimeout":
            return k
    return None


C26_PROBE = {"spec": "solo", "id": "probe-C26-raw-misbehaviour", "kind": "single", "acts": [
    {"a": "VM", "ts": 2, "path": "p1", "data": "x", "plen": 2, "ph": 1,
     "sig": {"pk": 1, "seq": 1, "ts": 2, "div": "d1", "path": "p1", "data": "x", "enc": "raw", "form": "full"}},
    {"a": "Misb", "seq": 1, "pform": "raw", "ts1": 2, "ts2": 2, "path1": "p1", "data1": "x", "path2": "p1", "data2": "y",
     "sig1": {"pk": 1, "seq": 1, "ts": 2, "div": "d1", "path": "p1", "data": "x", "enc": "raw", "form": "full"},
     "sig2": {"pk": 1, "seq": 1, "ts": 2, "div": "d1", "path": "p1", "data": "y", "enc": "raw", "form": "full"}}]}

C04_PROBE = {"spec": "loop", "id": "probe-C04-localhost", "acts": [
    {"a": "LSend", "dt": 1, "toH": 101, "toT": 0},
    {"a": "LTimeout", "dt": 1, "seq": 1, "ph": 100001}]}


def probe_c04_localhost():
    """Canonical failing case of C04 on a loopback channel: MsgTimeout with a fabricated proof height while the chain
    itself is far below the packet's timeout height.  Returns (violated, description, schedule)."""
    fails, groups = replay(C04_PROBE)
    mine = [f for f in fails if f[2] == "C04" and f[3].startswith("localhost-")]
    info = ""
    for l in groups.get("loop", []):
        d = json.loads(l)
        if d["a"].get("a") == "LTimeout":
            info = "result=%s; %s" % (d["res"], d.get("info", ""))
    desc = ("localhost loopback channel: MsgTimeout with claimed proof height far above the chain is accepted before the chain reaches "
            "the packet's timeout height (09-localhost ignores `height`; TimeoutPacket compares the timeout with the claimed proof height) -- " + info)
    return bool(mine), desc, C04_PROBE


def probe_c26_raw_misbehaviour():
    fails, groups = replay(C26_PROBE)
    mine = [f for f in fails if f[2] == "C26" and f[3] == "misbehaviour-freezes"]
    info = ""
    for l in groups.get("solo", []):
        d = json.loads(l)
        if d["a"].get("a") == "Misb":
            info = "result=%s %s" % (d["res"], d.get("err", "")[:200])
    desc = ("solo machine: two valid signatures over different data for one sequence, signed over the raw key path exactly as "
            "verifyMembership signs it, are rejected as misbehaviour (verifySignatureAndData requires Path to decode as a MerklePath) -- " + info)
    return bool(mine), desc, C26_PROBE


def probe_known(pid, known, res):
    lines = []
    for k in known:
        if k.get("property") != pid or k.get("signature", {}).get("family", FAMILY) != FAMILY:
            continue
        if pid == "C26":
            bad, desc, _ = probe_c26_raw_misbehaviour()
        elif pid == "C04":
            bad, desc, _ = probe_c04_localhost()
        else:
            continue
        if bad:
            lines.append("KNOWN-FINDING: property=%s id=%s %s" % (pid, k.get("id"), desc))
        else:
            lines.append("NOTICE: known finding %s (property %s) no longer reproduces: %s" % (k.get("id"), pid, desc))
    return lines
