"""authapps family: three small specifications bound to the real code of /repo.

  C36  spec/authapps/TransferAuthz.tla  x/authz MsgGrant + MsgExec(MsgTransfer) on a real chain (bank diff = oracle)
  C40  spec/authapps/Callbacks.tla      callbacks middleware on the callbacks test app (real txs with chosen gas limits)
                                        + types.GetCallbackData on every (remaining, user, max) rank triple
  C46  spec/authapps/Auth.tla           every transition (configuration x operation x signer class) as one real transaction

Per sub-specification (FRAMEWORK.md 1): (a) exhaustive TLC model check with vacuity witnesses, (b) generation by TLC
(-simulate for C36, full enumeration serialised with JsonSerialize for C40/C46), (c) the Go drivers of harness/authapps
execute the schedules/cases, (d) TLC validates the recorded ndjson with Trace_*.tla and prints MONFAIL lines.
One family run executes all three and merges the results; trace ids are prefixed az- / cb- / fn- / au-.
"""
import collections
import glob
import json
import os
import random
import re
import shutil
import threading
import time

import vk

FAMILY = "authapps"
SPEC_DIR = os.path.join(vk.SPEC, "authapps")
PROPS = ["C36", "C40", "C46"]


# ------------------------------------------------------------------------------------------ sizes

def sizes(tier):
    if tier == "quick":
        return dict(az_scheds=150, az_depth=6, az_shards=3, cb_full=False, cb_shards=4, au_full=False, au_shards=4)
    return dict(az_scheds=2400, az_depth=8, az_shards=6, cb_full=True, cb_shards=6, au_full=True, au_shards=10)


MC_CFG = {
    "TransferAuthz": {
        "module": "MC_TransferAuthz", "invariants": ["Inv"], "properties": ["LimitsOnlyShrink", "ListsFixed", "NoResurrection"],
        "quick": dict(MAXLIM=1, BALS={2}, MAXAMT=1, RCVS={"r1", "r2"}, MEMOS={"", "m1"}, FULL=False, C1MODE="small"),
        "thorough": dict(MAXLIM=2, BALS={2}, MAXAMT=2, RCVS={"r1", "r2"}, MEMOS={"", "m1"}, FULL=False, C1MODE="small"),
        "deep": dict(MAXLIM=2, BALS={2}, MAXAMT=2, RCVS={"r1", "r2"}, MEMOS={"", "m1"}, FULL=False, C1MODE="nolists"),
        "witness": ["ok", "okSentinelUnbounded", "okUnboundedKeepsLimit", "allocRemoved", "grantDeleted", "partialDenomLeft", "rejNoAlloc",
                    "rejReceiver", "rejMemo", "rejOverLimit", "rejSentinelBounded", "rejFunds", "batchOk", "batchRevert"],
    },
    "Callbacks": {
        "module": "MC_Callbacks", "invariants": ["Inv"], "properties": ["SourceLifecycleStands", "AbortChangesNothing"],
        "quick": dict(MAXG=3), "thorough": dict(MAXG=5),
        "witness": ["abortUndersupplied", "oogFullLimitAbsorbed", "sendVetoed", "sendOk", "ackFailAbsorbed", "ackRefund", "timeoutFailAbsorbed",
                    "recvErrorAck", "recvOk", "writeAckFailAbsorbed", "userCapped", "userHonoured", "noUserLimit"],
    },
    "Auth": {
        "module": "MC_Auth", "invariants": ["Inv"], "properties": ["OnlyAuthorizedChange", "CreatorNeverReturns", "CounterpartyIsForever"],
        "quick": dict(TIER="quick"), "thorough": dict(TIER="thorough"),
        "witness": ["listedRelayerRelays", "strangerBlockedByList", "secondRegistrationRejected", "creatorUpdatesConfig", "formerCreatorRejected",
                    "ok_RecoverClient", "rej_RecoverClient", "ok_RegisterCounterparty", "rej_RegisterCounterparty", "ok_UpdateClient",
                    "rej_UpdateClient", "ok_RecvV2", "rej_RecvV2", "ok_RLAdd", "rej_RLAdd", "ok_CreateClient", "rej_CreateClient"],
    },
}
AUTH_STATES = 64


def run_mc(tier, result, errors):
    try:
        d = vk.scratch_spec(SPEC_DIR)

        def one(name):
            c = MC_CFG[name]
            cfg = os.path.join(d, "MC_%s.cfg" % name)
            vk.write_cfg(cfg, "Spec", c[tier], invariants=c["invariants"], properties=c["properties"])
            r = vk.tlc_mc(d, c["module"], cfg, workers=4 if name == "TransferAuthz" else 1, timeout=1800 if tier == "quick" else 5400)
            seen = set(re.findall(r'<<"WITNESS", "([A-Za-z0-9_]+)">>', r["out"]))
            missing = [w for w in c["witness"] if w not in seen]
            if missing:
                raise vk.Infra("vacuous model check (%s): no witness for %s" % (name, missing))
            if name == "Auth" and r["distinct"] != AUTH_STATES:
                raise vk.Infra("Auth state graph has %d states, expected %d" % (r["distinct"], AUTH_STATES))
            return name, {"distinct": r["distinct"], "generated": r["generated"], "depth": r["depth"], "witnessed": sorted(seen),
                          "constants": {k: (sorted(v, key=str) if isinstance(v, set) else v) for k, v in c[tier].items()}}
        out = {}
        for name, r in vk.pmap(one, list(MC_CFG), 3):
            out[name] = r
        result["mc"] = out
        shutil.rmtree(d, ignore_errors=True)
    except Exception as e:  # noqa
        errors.append(e)


# ------------------------------------------------------------------------------------------ generation

def gen_authz(tier, seed, workdir):
    sz = sizes(tier)
    d = vk.scratch_spec(SPEC_DIR)
    nproc = 1 if tier == "quick" else 4
    per = (sz["az_scheds"] + nproc - 1) // nproc

    def one(k):
        outdir = os.path.join(workdir, "az_sched_%d" % k)
        os.makedirs(outdir, exist_ok=True)
        cfg = os.path.join(d, "Sched_az_%d.cfg" % k)
        vk.write_cfg(cfg, "Spec", dict(Depth=sz["az_depth"], OutDir=outdir, OK_PCT=65, MAXLIM=3, MAXBAL=4, MAXAMT=3))
        vk.tlc_simulate(d, "Sched_TransferAuthz", cfg, per + 2, sz["az_depth"] + 2, seed * 11 + k, workers=1, timeout=1500)
        return sorted(glob.glob(os.path.join(outdir, "*.json")))[:per]
    scheds = []
    for files in vk.pmap(one, list(range(nproc)), nproc):
        for f in files:
            s = json.load(open(f))
            s["id"] = "az-%d-%d" % (seed, len(scheds))
            s["sub"] = "authz"
            scheds.append(s)
    shutil.rmtree(d, ignore_errors=True)
    if len(scheds) < 10:
        raise vk.Infra("authz schedule generation produced only %d schedules" % len(scheds))
    return scheds


def canon_authz(workdir):
    """Always-run directed C36 schedules (Canon_TransferAuthz.tla: boundary tours over a fixed family of grants; the
    module asserts that the tours reach their targets according to the specification)."""
    d = vk.scratch_spec(SPEC_DIR)
    out = os.path.join(workdir, "az_canon.json")
    cfg = os.path.join(d, "Canon_az.cfg")
    vk.write_cfg(cfg, "Spec", dict(OutFile=out))
    vk.tlc_mc(d, "Canon_TransferAuthz", cfg, workers=1, timeout=900, reuse=False)   # run for its side effect (JsonSerialize)
    shutil.rmtree(d, ignore_errors=True)
    scheds = json.load(open(out))
    if len(scheds) < 5 or not all(s.get("acts") for s in scheds):
        raise vk.Infra("canonical authz schedules missing")
    for i, s in enumerate(scheds):
        s["id"] = "az-canon-%d" % i
        s["sub"] = "authz"
        s["canon"] = True
    return scheds


def gen_enumerated(tier, seed, workdir):
    """C40 and C46 cases: complete enumerations written once by TLC (Gen_Callbacks / Gen_Auth)."""
    sz = sizes(tier)
    d = vk.scratch_spec(SPEC_DIR)
    txf, fnf, auf = (os.path.join(workdir, n) for n in ("cb_tx.json", "cb_fn.json", "au_cases.json"))
    info = {}

    def cb():
        cfg = os.path.join(d, "Gen_cb.cfg")
        vk.write_cfg(cfg, "Spec", dict(FULL=sz["cb_full"], MAXG=4, TxFile=txf, FnFile=fnf))
        vk.tlc_mc(d, "Gen_Callbacks", cfg, workers=1, timeout=900, reuse=False)   # run for its side effect (JsonSerialize)

    def au():
        cfg = os.path.join(d, "Gen_au.cfg")
        vk.write_cfg(cfg, "Spec", dict(FULLGRAPH=sz["au_full"], OutFile=auf))
        r = vk.tlc_mc(d, "Gen_Auth", cfg, workers=1, timeout=900, reuse=False)
        m = re.search(r'<<"CASES", (\d+), "STATES", (\d+), "ACTS", (\d+)>>', r["out"])
        info["au"] = [int(x) for x in m.groups()] if m else None
    vk.pmap(lambda f: f(), [cb, au], 2)
    shutil.rmtree(d, ignore_errors=True)
    rnd = random.Random(seed)
    tx = json.load(open(txf))
    tx.sort(key=lambda c: json.dumps(c, sort_keys=True))
    rnd.shuffle(tx)          # the seed only permutes execution order / sharding: the set is complete
    for i, c in enumerate(tx):
        c["id"] = "cb-%d" % i
        c["sub"] = "cb"
    fn = json.load(open(fnf))
    fn.sort(key=lambda c: (c["rem"], c["user"], c["max"]))
    for c in fn:
        c["id"] = "fn-%d-%d-%d" % (c["rem"], c["user"], c["max"])
        c["sub"] = "cbfn"
    au_cases = json.load(open(auf))
    au_cases.sort(key=lambda c: json.dumps(c, sort_keys=True))
    rnd.shuffle(au_cases)
    for i, c in enumerate(au_cases):
        c["id"] = "au-%d" % i
        c["sub"] = "auth"
    if not tx or not fn or not au_cases:
        raise vk.Infra("case enumeration is empty")
    if info.get("au") and sz["au_full"] and info["au"][0] != info["au"][1] * info["au"][2]:
        raise vk.Infra("full Auth graph should have states x actions transitions: %s" % info["au"])
    return tx, fn, au_cases, info


# ------------------------------------------------------------------------------------------ drive + validate

MONFAIL_RE = re.compile(r'<<\s*"MONFAIL",\s*"([^"]*)",\s*(\d+),\s*<<\s*"([^"]*)",\s*"([^"]*)"\s*>>\s*>>')

DRIVER = {"authz": "TestDriveAuthz", "cb": "TestDriveCallbacks", "cbfn": "TestDriveCallbacks", "auth": "TestDriveAuth"}
TRACE_MODULE = {"authz": "Trace_TransferAuthz", "cb": "Trace_Callbacks", "cbfn": "Trace_CallbacksFn", "auth": "Trace_Auth"}


def drive(binary, sub, items, workdir, tag, nshards):
    """Run one driver over `items` in nshards processes; returns the list of trace lines (str)."""
    if not items:
        return []
    shards = vk.shard(items, nshards)

    def one(ix):
        sp = os.path.join(workdir, "%s_%s_sched_%d.ndjson" % (tag, sub, ix))
        tp = os.path.join(workdir, "%s_%s_trace_%d.ndjson" % (tag, sub, ix))
        with open(sp, "w") as f:
            for s in shards[ix]:
                f.write(json.dumps(s) + "\n")
        env = {"VERIF_SCHED": sp, "VERIF_TRACE": tp}
        if sub == "cbfn":
            empty = os.path.join(workdir, "%s_empty.ndjson" % tag)
            open(empty, "w").close()
            env = {"VERIF_SCHED": empty, "VERIF_TRACE": tp + ".unused", "VERIF_SCHED_FN": sp, "VERIF_TRACE_FN": tp}
        rc, out = vk.run_driver(binary, DRIVER[sub], env)
        if rc != 0:
            raise vk.Infra("driver %s failed (rc=%d):\n%s" % (DRIVER[sub], rc, out[-3000:]))
        return [l for l in open(tp) if l.strip()]
    lines = []
    for ls in vk.pmap(one, list(range(len(shards))), len(shards)):
        lines.extend(ls)
    return lines


def validate(sub, lines, workdir, tag):
    if not lines:
        return []
    d = vk.scratch_spec(SPEC_DIR)
    tf = os.path.join(workdir, "%s_%s_all.ndjson" % (tag, sub))
    with open(tf, "w") as f:
        f.writelines(lines)
    cfg = os.path.join(d, "Trace_%s.cfg" % sub)
    vk.write_cfg(cfg, "TraceSpec", dict(TraceFile=tf))
    _, consumed, out = vk.tlc_trace(d, TRACE_MODULE[sub], cfg)
    shutil.rmtree(d, ignore_errors=True)
    # TLC wraps tuples longer than its line width over several lines: parse MONFAIL whitespace-tolerantly
    fl = [(m.group(1), int(m.group(2)), m.group(3), m.group(4)) for m in MONFAIL_RE.finditer(out)]
    if consumed != len(lines):
        raise vk.Infra("trace validation (%s) consumed %d of %d lines\n%s" % (sub, consumed, len(lines), out[-2000:]))
    return fl


# ------------------------------------------------------------------------------------------ coverage (counting only)

def cov_authz(lines, cov, sigs):
    pre, pre_spent = None, {}
    for l in lines:
        d = json.loads(l)
        a = d["a"]
        if a.get("a") == "Init":
            pre = d["st"]
            pre_spent = {}
            continue
        reqs = a["reqs"]
        res = d["res"]
        post = d["st"]
        cov["authz:Exec:%s" % res] += 1
        if "canon" in d["tr"]:
            cov["authz:canon:%s" % res] += 1
        if len(reqs) > 1:
            cov["authz:batch:%s" % res] += 1
        for r in reqs:
            al = pre["al"][r["ch"]]
            lim = al["lim"][r["denom"]]
            if r["amt"] < 0:
                cov["authz:sentinel-%s:%s" % ("unbounded" if lim < 0 else "bounded", res)] += 1
            elif lim >= 0 and al["on"] and r["amt"] > lim:
                cov["authz:over-limit:%s" % res] += 1
            if al["on"] and lim >= 0 and any(v < 0 for v in al["lim"].values()):
                cov["authz:bounded-next-to-unbounded:%s" % res] += 1      # mixed allocation: request on its bounded / absent denomination
            if al["on"] and lim > 0 and r["amt"] == lim and len(reqs) == 1:
                other = [c for c in ("c0", "c1") if c != r["ch"] and pre["al"][c]["on"]]
                rest = [v for k, v in al["lim"].items() if k != r["denom"] and v != 0]
                if not rest:
                    cov["authz:exact-exhaustion-%s:%s" % ("other-allocation-stays" if other else "last-allocation", res)] += 1
            if al["on"] and al["allow"] and r["rcv"] not in al["allow"] and pre_spent.get(r["ch"]):
                cov["authz:receiver-not-listed-after-partial-spend:%s" % res] += 1
            if not al["on"]:
                cov["authz:no-allocation:%s" % res] += 1
            elif al["allow"] and r["rcv"] not in al["allow"]:
                cov["authz:receiver-not-listed:%s" % res] += 1
            elif al["allow"]:
                cov["authz:receiver-listed:%s" % res] += 1
            if al["on"] and not al["memos"] and r["memo"] not in ("", "ws"):
                cov["authz:memo-with-empty-list:%s" % res] += 1
            if al["on"] and al["memos"] and al["memos"] != ["*"]:
                cov["authz:memo-against-list:%s" % res] += 1
            sigs["C36"].add((res, len(reqs), r["amt"] < 0, lim < 0, (r["amt"] > lim) if lim >= 0 else None, bool(al["on"]), bool(al["allow"]),
                             r["rcv"] in al["allow"], tuple(al["memos"]), r["memo"]))
        if res == "ok":
            for r in reqs:
                pre_spent[r["ch"]] = True
            for c in ("c0", "c1"):
                if pre["al"][c]["on"] and not post["al"][c]["on"]:
                    cov["authz:allocation-removed"] += 1
            if pre["grant"] and not post["grant"]:
                cov["authz:grant-deleted"] += 1
        pre = post


def cov_cb(lines, cov, sigs):
    for l in lines:
        d = json.loads(l)
        a = d["a"]
        if a["type"] == "Init":
            continue
        o = d["obs"]
        klass = "abort" if (d["res"] != "ok" and a["beh"] in ("oog", "oogerr") and a["remcls"] == "below") else d["res"]
        cov["cb:%s:%s:%s:%s" % (a["proto"], a["type"], a["beh"], klass)] += 1
        cov["cb:%s:%s:%s" % (a["type"], "fail" if a["beh"] != "ok" else "ok", klass)] += 1
        if o["called"]:
            cov["cb:gas:%s:%s" % (a["remcls"], a["userCls"])] += 1
        sigs["C40"].add((a["proto"], a["type"], a["beh"], a["userCls"], a["remcls"], a["ackKind"], d["res"]))


def cov_fn(lines, cov, sigs):
    for l in lines:
        d = json.loads(l)
        cov["cbfn:%s" % d["res"]] += 1
        if d["res"] == "ok":
            cov["cbfn:retry:%s" % d["retry"]] += 1
        sigs["C40"].add(("fn", d["rem"], d["user"], d["max"], d["scale"], d["enc"], d["res"]))


def cov_auth(lines, cov, sigs):
    pre = None
    for l in lines:
        d = json.loads(l)
        a = d["a"]
        if a["op"] == "Init":
            pre = d["st"]
            continue
        cov["auth:%s:%s:%s" % (a["op"], a["by"], d["res"])] += 1
        if a["op"] in ("RecvV2", "AckV2", "TimeoutV2"):
            listed = bool(pre["rel0"] if a["tgt"] == "cl0" else pre["rel"])
            cov["auth:relay-%s:%s:%s:%s" % ("alias" if a["tgt"] == "cl0" else "client", "list" if listed else "nolist", a["by"], d["res"])] += 1
        if a["op"] == "UpdateClient":
            listed = bool(pre["rel0"] if a["tgt"] == "cl0" else pre["rel"])
            cov["auth:update-%s:%s:%s" % ("list" if listed else "nolist", a["by"], d["res"])] += 1
        if not pre["allowed"]:
            cov["auth:type-not-allowed:%s:%s" % (a["op"], d["res"])] += 1
        sigs["C46"].add((a["op"], a["by"], a["tgt"], a["val"], pre["creator"], pre["cp"], bool(pre["rel"]), bool(pre["rel0"]), pre["allowed"],
                         pre["rl"], d["res"]))
        pre = d["st"]


FLOORS = {
    "C36": ["authz:Exec:ok", "authz:Exec:err", "authz:batch:ok", "authz:batch:err", "authz:sentinel-unbounded:ok", "authz:sentinel-bounded:err",
            "authz:over-limit:err", "authz:no-allocation:err", "authz:receiver-not-listed:err", "authz:receiver-listed:ok",
            "authz:memo-with-empty-list:err", "authz:memo-against-list:ok", "authz:memo-against-list:err", "authz:allocation-removed",
            "authz:grant-deleted", "authz:canon:ok", "authz:canon:err", "authz:bounded-next-to-unbounded:ok", "authz:bounded-next-to-unbounded:err",
            "authz:exact-exhaustion-other-allocation-stays:ok", "authz:exact-exhaustion-last-allocation:ok",
            "authz:receiver-not-listed-after-partial-spend:err"],
    "C40": ["cb:v1:send:ok:ok", "cb:send:fail:err", "cb:ack:fail:ok", "cb:ack:fail:abort", "cb:timeout:fail:ok", "cb:timeout:fail:abort",
            "cb:recv:fail:ok", "cb:recv:fail:abort", "cb:writeAck:fail:ok", "cb:writeAck:fail:abort", "cb:v2:ack:panic:ok", "cb:v2:recv:err:ok",
            "cb:v1:ack:oog:ok", "cb:v1:ack:oog:abort", "cb:gas:below:hi", "cb:gas:above:lo", "cb:gas:ample:hi", "cbfn:ok", "cbfn:retry:True", "cbfn:retry:False"],
    "C46": ["auth:RecoverClient:authority:ok", "auth:RecoverClient:stranger:err", "auth:IBCSoftwareUpgrade:authority:ok",
            "auth:UpdateClientParams:creator:err", "auth:UpdateConnectionParams:authority:ok", "auth:TransferParams:stranger:err",
            "auth:ICAHostParams:authority:ok", "auth:ICAControllerParams:relayer:err", "auth:RLAdd:authority:ok", "auth:RLRemove:stranger:err",
            "auth:RegisterCounterparty:creator:ok", "auth:RegisterCounterparty:creator:err", "auth:RegisterCounterparty:authority:err",
            "auth:UpdateClientConfig:creator:ok", "auth:UpdateClientConfig:creator:err", "auth:UpdateClientConfig:stranger:err",
            "auth:DeleteClientCreator:creator:ok", "auth:DeleteClientCreator:stranger:err",
            "auth:relay-client:list:relayer:ok", "auth:relay-client:list:stranger:err", "auth:relay-client:nolist:stranger:ok",
            "auth:relay-alias:list:relayer:ok", "auth:relay-alias:list:stranger:err", "auth:relay-alias:nolist:stranger:ok",
            "auth:update-list:relayer:ok", "auth:update-list:stranger:err", "auth:type-not-allowed:CreateClient:err",
            "auth:type-not-allowed:UpdateClient:err", "auth:CreateClient:stranger:ok"],
}

SUB_OF_PROP = {"C36": ["authz"], "C40": ["cb", "cbfn"], "C46": ["auth"]}
PREFIX = {"authz": "az-", "cb": "cb-", "cbfn": "fn-", "auth": "au-"}
MC_OF_PROP = {"C36": "TransferAuthz", "C40": "Callbacks", "C46": "Auth"}


# ------------------------------------------------------------------------------------------ family run

def run_family(tier, seed, binary=None):
    t0 = time.time()
    workdir = os.path.join(vk.CACHE, "work", FAMILY + vk.repo_tag())
    shutil.rmtree(workdir, ignore_errors=True)
    os.makedirs(workdir)
    sz = sizes(tier)
    result, errors = {}, []
    th = threading.Thread(target=run_mc, args=(tier, result, errors))
    th.start()
    if binary is None:
        binary = vk.build_harness("authapps")
    gen = {}

    def g1():
        gen["az"] = gen_authz(tier, seed, workdir)

    def g3():
        gen["azc"] = canon_authz(workdir)

    def g2():
        gen["tx"], gen["fn"], gen["au"], gen["info"] = gen_enumerated(tier, seed, workdir)
    vk.pmap(lambda f: f(), [g1, g2, g3], 3)
    gen["az"] = gen["azc"] + gen["az"]       # the directed schedules first: they run on every seed
    vk.log("authapps: generated %d authz schedules, %d+%d callback cases, %d auth transitions (%.1fs)" %
           (len(gen["az"]), len(gen["tx"]), len(gen["fn"]), len(gen["au"]), time.time() - t0))
    items = {"authz": gen["az"], "cb": gen["tx"], "cbfn": gen["fn"], "auth": gen["au"]}
    shards = {"authz": sz["az_shards"], "cb": sz["cb_shards"], "cbfn": 1, "auth": sz["au_shards"]}
    lines, fails = {}, []

    infra = {}

    def pipeline(sub):
        # a driver that cannot even set up its chains (e.g. because a handler its honest set-up needs is broken) must not
        # hide what the other drivers found: the error is kept per sub-pipeline and raised for ITS property (probe_known)
        try:
            ls = drive(binary, sub, items[sub], workdir, "main", shards[sub])
            fl = validate(sub, ls, workdir, "main")
            return sub, ls, fl
        except vk.Infra as e:
            infra[sub] = str(e)[:3000]
            return sub, [], []
    for sub, ls, fl in vk.pmap(pipeline, list(items), 4):
        lines[sub] = ls
        fails.extend([list(f) for f in fl])
    if len(infra) == len(items):
        raise vk.Infra("every driver failed: %s" % infra)
    vk.log("authapps: drove and validated %d steps, %d monitor failures (%.1fs)" % (sum(len(v) for v in lines.values()), len(fails), time.time() - t0))
    th.join()
    if errors:
        raise errors[0]
    # harness sanity ("X"): a trace with a sanity failure is tainted and judged by nobody.  If nothing else failed the run
    # is an infrastructure problem; if a property monitor failed on an UNTAINTED trace that failure stands on its own
    # (it is re-executed before it is reported) and the sanity failures are kept for per-property handling (probe_known).
    sanity = [f for f in fails if f[2] == "X"]
    tainted = set(f[0] for f in sanity)
    fails = [f for f in fails if f[2] != "X" and f[0] not in tainted]
    if sanity and not infra and not [f for f in fails if f[2] in PROPS]:
        raise vk.Infra("harness sanity monitors failed (infrastructure): %s" % sanity[:5])
    cov = collections.Counter()
    sigs = collections.defaultdict(set)
    cov_authz(lines["authz"], cov, sigs)
    cov_cb(lines["cb"], cov, sigs)
    cov_fn(lines["cbfn"], cov, sigs)
    cov_auth(lines["auth"], cov, sigs)
    by_id = {}
    for sub in items:
        for s in items[sub]:
            by_id[s["id"]] = s
    failing = {}
    for tr, step, prop, clause in fails:
        failing.setdefault(tr, by_id.get(tr))
    samples = {}
    for sub, ls in lines.items():
        if not ls:
            continue
        first = json.loads(ls[0])["tr"]
        samples[sub] = {"case": {k: v for k, v in by_id.get(first, {}).items() if k != "sub"},
                        "trace": [slim(json.loads(l)) for l in ls[:12] if json.loads(l)["tr"] == first][:6]}
    counts = {sub: {"cases": len(items[sub]), "steps": len(lines[sub])} for sub in items}
    result.update({"tier": tier, "seed": seed, "traces": sum(len(v) for v in items.values()), "steps": sum(len(v) for v in lines.values()),
                   "fails": fails, "coverage": dict(cov), "sigs": {p: len(s) for p, s in sigs.items()}, "failing_schedules": failing,
                   "sample": samples, "counts": counts, "sanity": sanity[:50], "infra": infra, "gen_info": gen.get("info"), "wall": time.time() - t0})
    return result


def slim(d):
    d = dict(d)
    d.pop("err", None)
    return d


def replay(schedule, binary=None):
    """Re-execute one schedule / case and return its monitor failures."""
    workdir = os.path.join(vk.CACHE, "work", FAMILY + "_replay" + vk.repo_tag())
    shutil.rmtree(workdir, ignore_errors=True)
    os.makedirs(workdir)
    if binary is None:
        binary = vk.build_harness("authapps")
    sub = schedule["sub"]
    ls = drive(binary, sub, [schedule], workdir, "replay", 1)
    fl = validate(sub, ls, workdir, "replay")
    return [tuple(f) for f in fl], {sub: ls}


# ------------------------------------------------------------------------------------------ evidence

RULES = {
    "C36": "one evaluation = one MsgExec transaction of the grantee executed through the real authz module and judged by TLC "
           "(Trace_TransferAuthz); traces = TLC -simulate walks (random grant, then accepted/rejected requests with forced repetition); "
           "distinct_nontrivial = distinct (result, batch size, sentinel?, limit unbounded?, over limit?, allocation exists?, allow list?, "
           "receiver listed?, memo list, memo) signatures of requests",
    "C40": "one evaluation = one transaction with a driver-chosen gas limit that triggers one callback on the callbacks test app (or one "
           "GetCallbackData call on a scaled rank triple); cases = complete enumeration type x behaviour x protocol x user-limit class x "
           "relayer gas class (x ack kind) and all (remaining,user,max) rank triples x scales; distinct_nontrivial = distinct case signatures incl. result",
    "C46": "one evaluation = one real transaction signed by an account of the action's signer class; cases = transitions (pre-configuration, "
           "operation, signer) of the Auth.tla state graph, each reached by its canonical path of real transactions (quick: configurations "
           "restricted to the components the operation depends on; thorough: all 64 x 108); distinct_nontrivial = distinct "
           "(operation, signer, target, value, pre-configuration, result)",
}


def evidence(pid, res):
    mcname = MC_OF_PROP[pid]
    mc = res.get("mc", {}).get(mcname, {})
    subs = SUB_OF_PROP[pid]
    counts = res.get("counts", {})
    prefix = {"C36": "authz:", "C40": "cb", "C46": "auth:"}[pid]
    ev = {
        "states": mc.get("distinct", 0),
        "transitions": mc.get("generated", 0),
        "traces_validated_against_impl": sum(counts.get(s, {}).get("cases", 0) for s in subs),
        "samples": [x for x in (res.get("sample", {}).get(s) for s in subs) if x] or ["no trace recorded"],
        "evaluations": sum(counts.get(s, {}).get("steps", 0) for s in subs),
        "distinct_nontrivial": res.get("sigs", {}).get(pid, 0),
        "rule": RULES[pid],
        "model_check": {mcname: mc},
        "coverage_by_action": {k: v for k, v in sorted(res.get("coverage", {}).items()) if k.startswith(prefix)},
        # C40/C46 replay complete enumerations; the quick tier enumerates a documented sub-space, so only thorough claims it
        "exhaustive": pid in ("C40", "C46") and res.get("tier") == "thorough",
    }
    if pid == "C46":
        ev["transition_enumeration"] = res.get("gen_info", {}).get("au")
    return ev


# ------------------------------------------------------------------------------------------ known findings (generic)

def _inputs_of(fail, schedule):
    """The inputs of the failing step, from the schedule alone (never from what the code did)."""
    if not schedule:
        return {}
    sub = schedule.get("sub")
    step = fail[1]
    if sub == "auth":
        steps = list(schedule.get("path", [])) + [schedule.get("act")]
        return dict(steps[step - 1]) if 1 <= step <= len(steps) else {}
    if sub == "authz":
        acts = schedule.get("acts", [])
        return dict(acts[step - 1]) if 1 <= step <= len(acts) else {}
    return {k: v for k, v in schedule.items() if k not in ("id", "sub")}


def _sig_matches(sig, inputs, clause):
    for k, want in sig.items():
        have = clause if k == "clause" else inputs.get(k)
        if isinstance(want, list):
            if have not in want:
                return False
        elif have != want:
            return False
    return True


def match_known(fail, schedule, known):
    """Is this monitor failure inside the input class of a listed open finding of this family?"""
    inputs = _inputs_of(fail, schedule)
    for k in known:
        if k.get("family", FAMILY) != FAMILY or not isinstance(k.get("signature"), dict):
            continue
        if _sig_matches(k["signature"], inputs, fail[3]):
            return k
    return None


def probe_known(pid, known, res):
    """For every listed open finding of this family: report whether its input class still fails in this run."""
    broken = {s: m for s, m in res.get("infra", {}).items() if s in SUB_OF_PROP[pid]}
    if broken:
        raise vk.Infra("driver of %s did not run (infrastructure): %s" % (pid, broken))
    # sanity failures of this property's drivers without any clean failure of this property: not a verdict
    mine = [f for f in res.get("sanity", []) if any(str(f[0]).startswith(PREFIX[s]) for s in SUB_OF_PROP[pid])]
    if mine and not [f for f in res.get("fails", []) if f[2] == pid]:
        raise vk.Infra("harness sanity monitors failed for %s (infrastructure): %s" % (pid, mine[:5]))
    lines = []
    for k in known:
        if k.get("family", FAMILY) != FAMILY or k.get("property") != pid:
            continue
        hits = [f for f in res.get("fails", []) if f[2] == pid and match_known(f, res.get("failing_schedules", {}).get(f[0]), [k])]
        if hits:
            lines.append("KNOWN-FINDING: property=%s %s %s (%d transitions of this run)" % (pid, k.get("id"), k.get("what", ""), len(hits)))
        else:
            lines.append("NOTICE: property=%s known finding %s no longer reproduces on this tree" % (pid, k.get("id")))
    return lines
