"""TM light-client family: TMClient.tla (spec/tmclient) bound to modules/light-clients/07-tendermint and
modules/core/02-client/keeper of /repo.  Properties C20, C22, C23, C24, C25 (C21 monitors are diagnostics).

Pipeline (DESIGN.md 2.1):
 (a) exhaustive TLC model checks of the design (MC_TMClient: update / recover / header-condition configs),
 (b) TLC generates behaviours (Sched_TMClient, -simulate: goal-directed + boundary macros + adversarial noise)
     and full case enumerations (Cases_TMClient: header attribute vectors, misbehaviour pairs, recover and
     upgrade tables),
 (c) harness/tmclient executes all of them on a real ibctesting chain with really signed forged headers and real
     upgrade proofs, logging the full client-store projection after every step,
 (d) TLC validates the recorded executions with property-scoped monitors (Trace_TMClient).
"""
import collections
import glob
import json
import os
import re
import shutil
import threading
import time

import vk

FAMILY = "tmclient"
SPEC_DIR = os.path.join(vk.SPEC, "tmclient")
PROPS = ["C20", "C22", "C23", "C24", "C25"]

# standard client parameters (ticks of 500 ms) used by generated behaviours
STD = dict(UBD0=24, TP=12, DRIFT=3)
LEVELS = [(1, 3), (2, 3)]
HIGH_LEVEL = (1, 1)          # trust level above 2/3: input class of the candidate finding KF-C24-1

MC_PROPS = ["NoOverwrite", "PruneOnlyOldest", "UpdateKeepsOrder", "LatestMonotone", "FreezeOnlyByEvidence", "OnlySubject"]

# candidate findings reported by this family; the coordinator decides whether they become entries of
# /verif/known_findings.json.  While an entry with the same id is "open" there, the input class is excluded from
# the general exploration and only the dedicated probe runs it (DESIGN.md 3.4).
CANDIDATES = {
    "KF-C24-1": {
        "property": "C24",
        "signature": {"action": "Update", "class": "header adjacent to its trusted height, own validator set = trusted next validator set, "
                                                   "signed power > 2/3 but below a client trust level > 2/3"},
        "what": "adjacent header accepted with signed power below the client's trust level (light.VerifyAdjacent ignores TrustLevel)",
    },
}


def _gen_key(kind, tier, *parts):
    """Key of the tree-independent artefacts (model-check results, generated behaviours and case tables): they depend on
    the specification, the generation parameters and the seed only, never on the repository under test."""
    import hashlib
    h = hashlib.sha256()
    top = {"mc": "MC_TMClient", "walks": "Sched_TMClient", "cases": "Cases_TMClient"}[kind]
    for m in ("TMClient", "TMActions", top):
        h.update(open(os.path.join(SPEC_DIR, m + ".tla"), "rb").read())
    cfg = {"std": STD, "levels": LEVELS, "high": HIGH_LEVEL, "sizes": sizes(tier), "diffs": WALK_DIFFS, "layouts": LAYOUTS,
           "mc": {k: {a: (sorted(b) if isinstance(b, set) else b) for a, b in v.items()} for k, v in mc_configs(tier).items()}}
    h.update(json.dumps(cfg, sort_keys=True).encode())
    return h.hexdigest()[:16] + "-" + "-".join(str(x) for x in (kind, tier) + parts)


def _gen_cached(key, fn):
    d = os.path.join(vk.CACHE, "gen", FAMILY)
    os.makedirs(d, exist_ok=True)
    p = os.path.join(d, key + ".json")
    if os.path.exists(p) and not os.environ.get("VERIF_TM_NOGENCACHE"):
        try:
            return json.load(open(p))
        except Exception:
            pass
    v = fn()
    for f in sorted(glob.glob(os.path.join(d, "*.json")), key=os.path.getmtime)[:-24]:
        try:
            os.remove(f)
        except OSError:
            pass
    with open(p + ".tmp", "w") as f:
        json.dump(v, f)
    os.replace(p + ".tmp", p)
    return v


def mc_configs(tier):
    base = dict(UBD0=8, DRIFT=2, LN=1, LD=3)
    if tier == "quick":
        return {
            "upd": dict(base, NH=3, MaxT=4, TP=3, MaxHH=4, DTS={0, 1}, ROOTIDS={"r1", "r2"}, NVS={"V"}, VSS={"V"}, PLANS={"up"},
                        SUBDIFFS=set(), MISB=False, MAXCL=1),
            "rec": dict(base, NH=3, MaxT=3, TP=2, MaxHH=4, DTS={0, 1}, ROOTIDS={"r1"}, NVS={"V"}, VSS={"V"}, PLANS=set(),
                        SUBDIFFS={"none", "lvl"}, MISB=False, MAXCL=2),
            "hdr": dict(base, NH=3, MaxT=3, TP=3, MaxHH=2, DTS={0, 1}, ROOTIDS={"r1"}, NVS={"V", "W"}, VSS={"V", "W", "U"}, PLANS=set(),
                        SUBDIFFS=set(), MISB=False, MAXCL=1),
        }
    return {
        "upd": dict(base, NH=3, MaxT=5, TP=3, MaxHH=5, DTS={0, 1}, ROOTIDS={"r1", "r2"}, NVS={"V"}, VSS={"V"}, PLANS={"up", "lt"},
                    SUBDIFFS=set(), MISB=False, MAXCL=1),
        "misb": dict(base, NH=2, MaxT=4, TP=3, MaxHH=4, DTS={0, 1}, ROOTIDS={"r1", "r2"}, NVS={"V"}, VSS={"V"}, PLANS=set(),
                     SUBDIFFS=set(), MISB=True, MAXCL=1),
        "rec": dict(base, NH=3, MaxT=4, TP=2, MaxHH=5, DTS={0, 1}, ROOTIDS={"r1"}, NVS={"V"}, VSS={"V"}, PLANS=set(),
                    SUBDIFFS={"none", "lvl", "tp"}, MISB=False, MAXCL=2),
        "hdr": dict(base, NH=4, MaxT=4, TP=3, MaxHH=3, DTS={0, 1}, ROOTIDS={"r1"}, NVS={"V", "W"}, VSS={"V", "W", "U"}, PLANS=set(),
                    SUBDIFFS=set(), MISB=False, MAXCL=1),
        "hdr23": dict(base, LN=2, LD=3, NH=3, MaxT=3, TP=3, MaxHH=2, DTS={0, 1}, ROOTIDS={"r1"}, NVS={"V", "W"}, VSS={"V", "W", "U"},
                      PLANS=set(), SUBDIFFS=set(), MISB=False, MAXCL=1),
    }


# successful kinds of step every exhaustive configuration must have taken (vacuity of the model check)
MC_WITNESS = {
    "upd": ["store", "dup", "freeze-conflict", "freeze-time", "gapfill", "prune", "upgrade", "revision1-update", "tick"],
    "misb": ["misb-freeze", "misb-noconflict", "store"],
    "rec": ["create", "recover-frozen", "recover-expired", "store"],
    "hdr": ["store"],
    "hdr23": ["store"],
}


def sizes(tier):
    if tier == "quick":
        return dict(walks=10, depth=36, K=1, shards=8, walk_cfgs=4)
    return dict(walks=40, depth=60, K=2, shards=14, walk_cfgs=10)


def run_mc(tier, result, errors):
    try:
        result["mc"] = _gen_cached(_gen_key("mc", tier, os.environ.get("VERIF_TM_MC", "")), lambda: _run_mc(tier))
    except Exception as e:  # noqa
        errors.append(e)


def _run_mc(tier):
    if True:
        d = vk.scratch_spec(SPEC_DIR)
        out = {}
        cfgs = mc_configs(tier)
        only = os.environ.get("VERIF_TM_MC")
        if only:
            cfgs = {k: v for k, v in cfgs.items() if k in only.split(",")}

        def one(name):
            c = cfgs[name]
            cfg = os.path.join(d, "MC_%s.cfg" % name)
            invs = ["Inv"] + (["MutantsRejected", "LibImpliesStated"] if name.startswith("hdr") else [])
            vk.write_cfg(cfg, "Spec", c, invariants=invs, properties=MC_PROPS, constraint="Bound", view="View")
            r = vk.tlc_mc(d, "MC_TMClient", cfg, workers=4, timeout=1500 if tier == "quick" else 3000)
            seen = set(re.findall(r'<<"WITNESS", "([A-Za-z0-9-]+)">>', r["out"]))
            missing = [w for w in MC_WITNESS[name] if w not in seen]
            if missing:
                raise vk.Infra("vacuous model check (%s): never took a successful %s" % (name, missing))
            return name, {"distinct": r["distinct"], "generated": r["generated"], "depth": r["depth"], "witnessed_steps": sorted(seen),
                          "invariants": invs, "action_properties": MC_PROPS,
                          "constants": {k: (sorted(v) if isinstance(v, set) else v) for k, v in c.items()}}
        for name, r in vk.pmap(one, list(cfgs), 3):
            out[name] = r
        shutil.rmtree(d, ignore_errors=True)
        return out


# ------------------------------------------------------------------------------------------ generation

WALK_DIFFS = ["none", "none", "tp", "lvl", "ubd", "rev", "drift", "upath", "specs", "nopath"]
# height layouts of the harness (harness/tmclient/world.go: layouts); every second walk configuration uses "dec"
LAYOUTS = ["slash", "dec"]
# id prefixes of the case tables
CASE_PREFIX = {"hdr": "h", "gap": "g", "misb": "m", "rec": "r", "upg": "u", "recgap": "rg", "prune": "pr", "stored": "st"}


def gen_walks(tier, seed, workdir):
    sz = sizes(tier)
    d = vk.scratch_spec(SPEC_DIR)
    cfgs = []
    for i in range(sz["walk_cfgs"]):
        diff = WALK_DIFFS[(i + seed) % len(WALK_DIFFS)] if i >= 2 else "none"
        cfgs.append((i, diff, LEVELS[i % 2], LAYOUTS[(i // 2 + i) % 2]))

    def one(item):
        i, diff, (ln, ld), lay = item
        outdir = os.path.join(workdir, "walk_%d" % i)
        os.makedirs(outdir, exist_ok=True)
        cfg = os.path.join(d, "Sched_%d.cfg" % i)
        consts = dict(STD, NH=6 if tier == "quick" else 7, MaxT=6 * STD["TP"], LN=ln, LD=ld, Depth=sz["depth"], OutDir=outdir, SUBDIFF=diff, LAYOUT=lay)
        vk.write_cfg(cfg, "Spec", consts)
        vk.tlc_simulate(d, "Sched_TMClient", cfg, sz["walks"], sz["depth"] + 1, seed * 31 + i, workers=1)
        out = []
        for n, f in enumerate(sorted(glob.glob(os.path.join(outdir, "*.json")))):
            s = json.load(open(f))
            s["id"] = "w%d.%d.%d" % (i, seed, n)
            s["diff"] = diff
            s["kind"] = "walk"
            s["lvl"] = [ln, ld]
            out.append(s)
        return out[: sz["walks"]]
    scheds = []
    for lst in vk.pmap(one, cfgs, 4):
        scheds.extend(lst)
    shutil.rmtree(d, ignore_errors=True)
    if len(scheds) < sz["walk_cfgs"]:
        raise vk.Infra("behaviour generation produced only %d schedules" % len(scheds))
    return scheds


def gen_cases(tier, workdir):
    """Case tables enumerated by TLC: header vectors for every trust level (the table of HIGH_LEVEL is the dedicated
    probe of KF-C24-1, ids prefixed "p"); misbehaviour / recover / upgrade tables do not depend on the trust level
    and are taken from the first level."""
    sz = sizes(tier)
    d = vk.scratch_spec(SPEC_DIR)
    counts = {}
    levels = LEVELS + [HIGH_LEVEL]

    def one(item):
        n, (ln, ld) = item
        probe = (ln, ld) == HIGH_LEVEL
        outdir = os.path.join(workdir, "cases_%d%d" % (ln, ld))
        os.makedirs(outdir, exist_ok=True)
        cfg = os.path.join(d, "Cases_%d%d.cfg" % (ln, ld))
        vk.write_cfg(cfg, "Spec", dict(STD, NH=8, MaxT=200, LN=ln, LD=ld, OutDir=outdir, K=1 if probe else sz["K"]))
        r = vk.tlc_mc(d, "Cases_TMClient", cfg, workers=1, timeout=900)
        kinds = ("hdr", "gap", "recgap", "prune", "stored", "misb", "rec", "upg") if n == 0 else ("hdr",)
        for m in re.finditer(r'<<"CASES", "(\w+)", (\d+), (\d+)>>', r["out"]):
            if m.group(1) in kinds:
                counts["%s-%d%d" % (m.group(1), ln, ld)] = {"cases": int(m.group(2)), "accepted_by_spec": int(m.group(3))}
        out = []
        for kind in kinds:
            cases = json.load(open(os.path.join(outdir, "cases_%s.json" % kind)))
            for i, c in enumerate(cases):
                c["id"] = "%s%s%d%d.%d" % ("p" if probe else "", CASE_PREFIX[kind], ln, ld, i)
                c["lvl"] = [ln, ld]
                if probe:
                    c["kind"] = "probe"
                out.append(c)
        return out
    scheds = []
    for lst in vk.pmap(one, list(enumerate(levels)), 3):
        scheds.extend(lst)
    shutil.rmtree(d, ignore_errors=True)
    for k, v in counts.items():
        if v["cases"] == 0 or v["accepted_by_spec"] in (0, v["cases"]):
            raise vk.Infra("vacuous case table %s: %s" % (k, v))
    return scheds, counts


# ------------------------------------------------------------------------------------------ execution

def drive(binary, scheds, workdir, tag, nshards):
    """Execute schedules on the real code; returns the trace lines per shard."""
    # interleave long and short schedules
    order = sorted(scheds, key=lambda s: -len(s["acts"]))
    shards = vk.shard(order, nshards)

    def one(ix):
        sp = os.path.join(workdir, "%s_sched_%d.ndjson" % (tag, ix))
        tp = os.path.join(workdir, "%s_trace_%d.ndjson" % (tag, ix))
        with open(sp, "w") as f:
            for s in shards[ix]:
                f.write(json.dumps({"id": s["id"], "ubd0": s["ubd0"], "lay": s.get("lay", "slash"), "acts": s["acts"]}) + "\n")
        rc, out = vk.run_driver(binary, "TestDrive", {"VERIF_SCHED": sp, "VERIF_TRACE": tp})
        if rc != 0:
            raise vk.Infra("driver failed (rc=%d):\n%s" % (rc, out[-3000:]))
        return [l for l in open(tp) if l.strip()]
    return vk.pmap(one, list(range(len(shards))), len(shards))


def validate(groups, workdir, tag, ubd0):
    d = vk.scratch_spec(SPEC_DIR)
    fails, steps = [], 0

    def one(item):
        ix, lines = item
        tf = os.path.join(workdir, "%s_val_%d.ndjson" % (tag, ix))
        with open(tf, "w") as f:
            f.writelines(lines)
        cfg = os.path.join(d, "Trace_%s_%d.cfg" % (tag, ix))
        vk.write_cfg(cfg, "TraceSpec", dict(UBD0=ubd0, TraceFile=tf))
        fl, consumed, out = vk.tlc_trace(d, "Trace_TMClient", cfg)
        if consumed != len(lines):
            raise vk.Infra("trace validation consumed %d of %d lines\n%s" % (consumed, len(lines), out[-2000:]))
        return fl, len(lines)
    for fl, n in vk.pmap(one, [(i, g) for i, g in enumerate(groups) if g], 4):
        fails.extend(fl)
        steps += n
    shutil.rmtree(d, ignore_errors=True)
    return fails, steps


# ------------------------------------------------------------------------------------------ coverage (never a verdict)

def _cons_heights(cl):
    return {tuple(e["k"]) for e in cl["cons"]}


def classify(a, res, pre, post):
    """Coverage class of a step, from the logged states (used for vacuity floors and evidence only)."""
    name = a["a"]
    if res != "ok":
        return name + ".rejected"
    i = a.get("c", 0) - 1
    if name in ("Update", "Misb", "Recover", "Upgrade") and 0 <= i < len(pre["cl"]) and i < len(post["cl"]):
        c, c2 = pre["cl"][i], post["cl"][i]
        if name == "Update":
            h = tuple(a["hd"]["h"])
            before, after = _cons_heights(c), _cons_heights(c2)
            tags = []
            if before - after:
                tags.append("prune")
            if c2["frozen"] and not c["frozen"]:
                tags.append("freeze-conflict" if h in before else "freeze-time")
            elif h in before:
                tags.append("dup")
            elif h in after:
                tags.append("gapfill" if list(h) < c["latest"] else "store")
                if h[0] == 1:
                    tags.append("rev1")
            return [name + "." + t for t in tags] or [name + ".other"]
        if name == "Misb":
            return name + (".freeze" if c2["frozen"] and not c["frozen"] else ".noconflict")
        if name == "Recover":
            return name + (".frozen" if c["frozen"] else ".expired")
        if name == "Upgrade":
            return [name + ".done"] + ([name + ".scaled"] if c2["par"]["tp"] != c["par"]["tp"] else []) + \
                   ([name + ".custom-ignored"] if a.get("cust") == "evil" else [])
    return name + ".ok"


def coverage_of(shard_lines, by_id):
    cov = collections.Counter()
    sigs = collections.defaultdict(set)
    pre = None
    for lines in shard_lines:
        for line in lines:
            d = json.loads(line)
            a = d["a"]
            if a["a"] == "Init":
                pre = d["st"]
                continue
            kind = (by_id.get(d["tr"]) or {}).get("kind", "?")
            cls = classify(a, d["res"], pre, d["st"])
            for c in (cls if isinstance(cls, list) else [cls]):
                cov["%s:%s:%s" % (kind, c, d["res"])] += 1
            sig = (kind, a["a"], str(cls), d["res"], _sig_of(a))
            for p in props_of_action(a["a"]):
                sigs[p].add(sig)
            pre = d["st"]
    return cov, {p: len(s) for p, s in sigs.items()}


def _hsig(h):
    return (tuple(h["h"]), tuple(h["th"]), h["vs"], h["tvs"], len(h["sg"]), h["sig"], h["cid"], h["vh"], h["root"]["k"])


def _sig_of(a):
    if a["a"] == "Update":
        return _hsig(a["hd"])
    if a["a"] == "Misb":
        return (_hsig(a["h1"]), _hsig(a["h2"]))
    if a["a"] == "Recover":
        return (a["c"], a["sub"])
    if a["a"] == "Upgrade":
        return (a["v"], a["pv"], a["cust"], a["mut"])
    if a["a"] == "Create":
        return json.dumps(a["par"], sort_keys=True)
    return ()


def props_of_action(name):
    return {"Update": ["C20", "C22", "C23", "C24"], "Misb": ["C20", "C24"], "Recover": ["C22", "C25"], "Upgrade": ["C22", "C25"],
            "Create": ["C22"], "Tick": [], "CreateSolo": []}.get(name, [])


# vacuity floors: substrings of coverage keys that must have a positive count
FLOORS = {
    "C20": ["Update.dup:ok", "Update.freeze-conflict:ok", "Misb.freeze:ok", "Update.prune:ok", "Update.gapfill:ok", "Update.store:ok",
            "prune:Update.prune:ok", "prune:Update.store:ok", "stored:Update.dup:ok", "stored:Update.freeze-conflict:ok"],
    "C22": ["Update.store:ok", "Update.gapfill:ok", "Update.prune:ok", "Recover.frozen:ok", "Upgrade.done:ok", "Update.rev1:ok"],
    "C23": ["walk:Update.freeze-time:ok", "Update.gapfill:ok", "Update.store:ok", "gap:Update.freeze-time:ok", "gap:Update.gapfill:ok",
            "gap:Update.rejected:err", "recgap:Update.freeze-time:ok", "recgap:Update.gapfill:ok"],
    "C24": ["hdr:Update.store:ok", "hdr:Update.rejected:err", "misb:Misb.freeze:ok", "misb:Misb.noconflict:ok", "misb:Misb.rejected:err",
            "walk:Update.rejected:err", "stored:Update.rejected:err"],
    "C25": ["Recover.frozen:ok", "Recover.expired:ok", "Recover.rejected:err", "Recover.rejected:panic", "Upgrade.done:ok",
            "Upgrade.scaled:ok", "Upgrade.custom-ignored:ok", "Upgrade.rejected:err"],
}


# ------------------------------------------------------------------------------------------ known findings

def _kf_status(kid):
    """open (listed or still a candidate) | fixed: a fixed entry excludes nothing, the class is judged like any other input."""
    for k in vk.known_findings():
        if k.get("id") == kid:
            return k.get("status", "open")
    return "open"


def in_class_kf_c24_1(sched, step):
    """Decided from the step's INPUTS only: an update header adjacent to its trusted height, signed by more than 2/3
    of the validator set it shares with the trusted state, for a client whose trust level exceeds 2/3 and the signed power."""
    if not sched or step < 1 or step > len(sched["acts"]):
        return False
    a = sched["acts"][step - 1]
    if a.get("a") != "Update":
        return False
    lvl = None
    n = 0
    for b in sched["acts"][:step]:          # the trust level of the target client is an input of its Create action
        if b.get("a") in ("Create", "CreateSolo"):
            n += 1
            if n == a.get("c") and b.get("a") == "Create":
                lvl = b["par"]["lvl"]
    if not lvl or 3 * lvl[0] <= 2 * lvl[1]:
        return False
    hd = a["hd"]
    adj = hd["h"][0] == hd["th"][0] and (hd["th"][1], hd["h"][1]) in ((1, 2), (2, 3), (4, 5))
    members = {"V": 4, "W": 4, "X": 4, "U": 7, "Y": 4, "Z": 1}.get(hd["vs"], 0)
    signed = len(hd["sg"])
    return adj and hd["vs"] == hd["tvs"] and 3 * signed > 2 * members and signed * lvl[1] < lvl[0] * members


def match_known(fail, schedule, known):
    tr, step, prop, clause = fail
    if prop == "C24" and clause == "ok:trust-power-low" and _kf_status("KF-C24-1") == "open" and in_class_kf_c24_1(schedule, step):
        for k in known:
            if k.get("id") == "KF-C24-1":
                return k
        return dict(CANDIDATES["KF-C24-1"], id="KF-C24-1", status="candidate")
    return None


def probe_known(pid, known, result):
    lines = []
    if pid == "C24" and _kf_status("KF-C24-1") == "open":
        p = result.get("probes", {}).get("KF-C24-1")
        if p and p.get("reproduced"):
            lines.append("KNOWN-FINDING: property=C24 id=KF-C24-1 %s (%d accepted among the %d probe cases whose inputs lie in the class; e.g. %s)" % (
                CANDIDATES["KF-C24-1"]["what"], p["reproduced"], p["cases"], p.get("example")))
        elif p:
            lines.append("NOTICE: property=C24 id=KF-C24-1 no longer reproduces (%d probe cases in the class)" % p["cases"])
    return lines


def probe_summary(scheds, fails):
    by_id = {s["id"]: s for s in scheds}
    inclass = [f for f in fails if f[2] == "C24" and f[3] == "ok:trust-power-low" and in_class_kf_c24_1(by_id.get(f[0]), f[1])]
    n_class = sum(1 for s in scheds if s.get("kind") == "probe" and in_class_kf_c24_1(s, len(s["acts"])))
    ex = None
    if inclass:
        sc = by_id[inclass[0][0]]
        ex = json.dumps({"client_trust_level": sc["lvl"], "header": sc["acts"][inclass[0][1] - 1]["hd"]}, sort_keys=True)
    return {"KF-C24-1": {"cases": n_class, "reproduced": len(inclass), "example": ex}}


# ------------------------------------------------------------------------------------------ family run

def run_family(tier, seed, binary=None):
    t0 = time.time()
    workdir = os.path.join(vk.CACHE, "work", FAMILY + vk.repo_tag())
    shutil.rmtree(workdir, ignore_errors=True)
    os.makedirs(workdir)
    result, errors = {}, []
    th = threading.Thread(target=run_mc, args=(tier, result, errors))
    th.start()
    if binary is None:
        binary = vk.build_harness("tmclient")
    walks = _gen_cached(_gen_key("walks", tier, seed), lambda: gen_walks(tier, seed, workdir))
    cases, counts = _gen_cached(_gen_key("cases", tier), lambda: gen_cases(tier, workdir))
    scheds = walks + cases
    vk.log("generated %d walks + %d cases in %.1fs" % (len(walks), len(cases), time.time() - t0))
    lines = drive(binary, scheds, workdir, "main", sizes(tier)["shards"])
    vk.log("drove %d schedules (%.1fs)" % (len(scheds), time.time() - t0))
    fails, steps = validate(lines, workdir, "main", STD["UBD0"])
    vk.log("validated %d steps, %d monitor failures (%.1fs)" % (steps, len(fails), time.time() - t0))
    th.join()
    if errors:
        raise errors[0]
    probes = probe_summary(scheds, fails)
    by_id = {s["id"]: s for s in scheds}
    cov, sigs = coverage_of(lines, by_id)
    sanity = [f for f in fails if f[2] == "X"]
    if sanity:
        raise vk.Infra("harness sanity monitors failed (infrastructure): %s" % sanity[:5])
    failing = {}
    for tr, step, prop, clause in fails:
        failing.setdefault(tr, by_id.get(tr))
    first = json.loads(lines[0][0])["tr"] if lines and lines[0] else None
    sample = None
    if first:
        sample = {"schedule_id": first, "kind": by_id[first].get("kind"),
                  "trace_prefix": [slim(json.loads(l)) for l in lines[0][:7] if json.loads(l)["tr"] == first]}
    conf = collections.Counter(f[3] for f in fails if f[2] == "CONF")
    diag21 = collections.Counter(f[3] for f in fails if f[2] == "C21")
    result.update({"tier": tier, "seed": seed, "traces": len(scheds), "steps": steps,
                   "fails": [f for f in fails if f[2] in PROPS],
                   "diagnostics": {"CONF": dict(conf), "C21": dict(diag21)},
                   "coverage": dict(cov), "sigs": sigs, "failing_schedules": failing, "sample": sample,
                   "case_tables": counts, "probes": probes, "wall": time.time() - t0})
    return result


def slim(d):
    st = d["st"]
    return {"i": d["i"], "a": d["a"], "res": d["res"], "diff": d["diff"],
            "post": {"now": st["now"], "hh": st["hh"],
                     "clients": [{"type": c["type"], "cons": c["cons"], "pt": c["pt"], "ph": c["ph"], "iter": c["iter"], "latest": c["latest"],
                                  "frozen": c["frozen"], "status": c["status"], "par": c["par"]} for c in st["cl"]]}}


def evidence(pid, res):
    mc = res.get("mc", {})
    return {
        "states": sum(v["distinct"] for v in mc.values()),
        "transitions": sum(v["generated"] for v in mc.values()),
        "traces_validated_against_impl": res.get("traces", 0),
        "samples": [res.get("sample")],
        "evaluations": res.get("steps", 0),
        "distinct_nontrivial": res.get("sigs", {}).get(pid, 0),
        "rule": "one evaluation = one transaction executed on the real chain (really signed forged header / misbehaviour / recover / "
                "upgrade with real store proofs) and judged by TLC; distinct_nontrivial = distinct (generator, action, outcome class, result, "
                "header attribute vector / subject-substitute pair / upgrade request) signatures among the steps this property's monitors constrain",
        "model_check": mc,
        "case_tables": res.get("case_tables", {}),
        "coverage_by_action": {k: v for k, v in sorted(res.get("coverage", {}).items())},
        "diagnostics": res.get("diagnostics", {}),
        "known_finding_probes": res.get("probes", {}),
        "exhaustive": False,
    }


def replay(schedule, binary=None):
    """Execute one schedule and return its monitor failures."""
    workdir = os.path.join(vk.CACHE, "work", FAMILY + "_replay" + vk.repo_tag())
    shutil.rmtree(workdir, ignore_errors=True)
    os.makedirs(workdir)
    if binary is None:
        binary = vk.build_harness("tmclient")
    lines = drive(binary, [schedule], workdir, "replay", 1)
    fails, _ = validate(lines, workdir, "replay", schedule.get("ubd0", STD["UBD0"]))
    return fails, lines
