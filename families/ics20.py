"""ICS-20 family: ICS20.tla / Denom.tla (spec/ics20) bound to modules/apps/transfer of /repo.

Pipeline (DESIGN.md 2.1, FRAMEWORK.md 1):
 (a) exhaustive TLC model check of the ICS-20 design on the abstract packet layer (MC_ICS20), with vacuity witnesses;
 (b) case / behaviour generation by TLC: random walks of the specification with goal-directed macros (Sched_ICS20),
     the exhaustive C33 round-trip cases over base-denomination shapes and the C34 function table (DenomCases);
 (c) harness/ics20 executes everything on three real ibctesting chains (real relaying, timeouts, error acks) resp. on
     the real denomination functions and logs the abstract state after every step;
 (d) TLC validates the logs (Trace_ICS20, Trace_Denom) and prints MONFAIL lines -- the only source of verdicts.
"""
import collections
import glob
import json
import os
import re
import shutil
import threading
import time

import vk

FAMILY = "ics20"
SPEC_DIR = os.path.join(vk.SPEC, "ics20")
PROPS = ["C30", "C31", "C32", "C33", "C34", "C49"]
KF_CLASS = "hop-shaped-base"

WALK_BASES = dict(NAT_A={"uatom", "gamm/pool/1"}, NAT_B={"uatom", "factory/x/sub"}, NAT_C={"ucee"})
SLASH = {"gamm/pool/1", "factory/x/sub"}

# canonical failing case of the known-finding class (DESIGN.md section 9): a native token whose name holds a
# hop-shaped segment pair is escrowed under its raw name but parsed as trace + base on the way back
PROBE = {
    "id": "probe-hop-shaped-base", "kind": "case", "uniq": True, "kf": KF_CLASS, "bases": {"$B1": "lp/pooltoken-1/share"},
    "acts": [
        {"a": "Fund", "c": "A", "acct": "u1", "base": "$B1", "amt": 5, "valid": True},
        {"a": "Transfer", "c": "A", "e": "AB.A", "proto": "v1", "sender": "u1", "signer": "u1", "receiver": "u2",
         "denom": {"tr": [], "base": "$B1"}, "amt": 3, "to": "t", "slash": True},
        {"a": "Recv", "c": "B", "e": "AB.A", "seq": 1, "rl": "rly"},
        {"a": "Ack", "c": "A", "e": "AB.A", "seq": 1, "rl": "rly"},
        {"a": "Transfer", "c": "B", "e": "AB.B", "proto": "v1", "sender": "u2", "signer": "u2", "receiver": "u1",
         "denom": {"tr": ["AB.B"], "base": "$B1"}, "amt": 3, "to": "t", "slash": True},
        {"a": "Recv", "c": "A", "e": "AB.B", "seq": 1, "rl": "rly"},
        {"a": "Ack", "c": "B", "e": "AB.B", "seq": 1, "rl": "rly"},
    ],
}


# second manifestation of the same input class: a native token NAMED like a voucher path of the channel it is sent over
# ("transfer/channel-0/uatomb" on A, where channel-0 is A's end of AB) is indistinguishable on the wire from the voucher of
# B's uatomb, so B releases real uatomb from its escrow for tokens that were never vouchers.
PROBE_SPOOF = {
    "id": "probe-voucher-named-native", "kind": "case", "uniq": False, "kf": KF_CLASS, "bases": {"$B1": "transfer/channel-0/uatomb"},
    "acts": [
        {"a": "Fund", "c": "B", "acct": "u1", "base": "uatomb", "amt": 5, "valid": True},
        {"a": "Transfer", "c": "B", "e": "AB.B", "proto": "v1", "sender": "u1", "signer": "u1", "receiver": "u2",
         "denom": {"tr": [], "base": "uatomb"}, "amt": 3, "to": "t", "slash": False},
        {"a": "Recv", "c": "A", "e": "AB.B", "seq": 1, "rl": "rly"},
        {"a": "Ack", "c": "B", "e": "AB.B", "seq": 1, "rl": "rly"},
        {"a": "Fund", "c": "A", "acct": "u3", "base": "$B1", "amt": 4, "valid": True},
        {"a": "Transfer", "c": "A", "e": "AB.A", "proto": "v1", "sender": "u3", "signer": "u3", "receiver": "u3",
         "denom": {"tr": [], "base": "$B1"}, "amt": 2, "to": "t", "slash": True},
        {"a": "Recv", "c": "B", "e": "AB.A", "seq": 1, "rl": "rly"},
        {"a": "Ack", "c": "A", "e": "AB.A", "seq": 1, "rl": "rly"},
    ],
}


# third manifestation: the native token is named like a voucher path of the very end it is SENT over ("transfer/channel-1/uatomc"
# on B, channel-1 = B's end of BC).  C answers with an error acknowledgement (it tries to unescrow "uatomc"), and B's refund
# re-parses the packet, takes the token for a voucher it had burnt and MINTS ibc/HASH to the sender: the escrowed natives stay
# locked, the tracker is not decremented, an unrecorded voucher denomination appears.
PROBE_REFUND = {
    "id": "probe-refund-of-voucher-named-native", "kind": "case", "uniq": False, "kf": KF_CLASS, "bases": {"$B1": "transfer/channel-1/uatomc"},
    "acts": [
        {"a": "Fund", "c": "B", "acct": "u1", "base": "$B1", "amt": 3, "valid": True},
        {"a": "Transfer", "c": "B", "e": "BC.B", "proto": "v1", "sender": "u1", "signer": "u1", "receiver": "u2",
         "denom": {"tr": [], "base": "$B1"}, "amt": 2, "to": "t", "slash": True},
        {"a": "Recv", "c": "C", "e": "BC.B", "seq": 1, "rl": "rly"},
        {"a": "Ack", "c": "B", "e": "BC.B", "seq": 1, "rl": "rly"},
    ],
}


# Channel identifier layouts (channel end -> N of channel-N), instantiated by the harness (NewWorld).  In a CROSSED layout the
# two ends of every channel carry different identifiers (s on the clockwise end, l on the counter-clockwise one) and the OTHER
# channel of each chain carries the counterparty's identifier, so a handler that mixes up source and destination identifiers
# addresses an existing escrow account / voucher prefix of the same chain; with l = s followed by a digit the two identifiers of
# every chain are textual prefixes of one another (channel-1 / channel-10).
def crossed(s, l):
    return {"AB.A": s, "AB.B": l, "BC.B": s, "BC.C": l, "CA.C": s, "CA.A": l}


LAYOUTS = {
    "P": crossed(1, 10),     # crossed, short id on the clockwise ends
    "Q": crossed(10, 1),     # crossed, short id on the counter-clockwise ends
    "R": crossed(2, 27),     # crossed, other digits
    "N": crossed(3, 4),      # crossed, no prefix relation
    "D": {"AB.A": 0, "AB.B": 1, "BC.B": 2, "BC.C": 3, "CA.C": 4, "CA.A": 5},   # all distinct, deterministic
}
# layout of the i-th random walk / case batch ("" = the world the schedule itself names: ibctesting's process-global unique
# identifiers or channel-0/channel-1 on every chain)
WALK_LAYOUTS = ["P", "", "Q", "", "R", "", "P", "D"]
BATCH_LAYOUTS = ["", "", "P", "", "", "Q"]


def with_layout(sched, name):
    if name:
        sched["chan"] = dict(LAYOUTS[name])
        sched["layout"] = name
    return sched


def sizes(tier):
    if tier == "quick":
        return dict(walks=16, depth=46, shards=12, max_hops=3, tours=3, tour_layouts=["P"],
                    table=dict(MaxLen=4, BaseMaxLen=3, FullLen=2, Stride=7, BatchSize=8, Route2Every=4), variants=2)
    return dict(walks=160, depth=64, shards=16, max_hops=4, tours=9, tour_layouts=["P", "Q", "R", "N", "D"],
                table=dict(MaxLen=5, BaseMaxLen=4, FullLen=3, Stride=6, BatchSize=10, Route2Every=3), variants=3)


def mc_configs(tier):
    """name -> (constants, witnesses that must be seen).  Measured (4 workers, heavily loaded machine):
    quick/small 2 321 distinct states (25 s); thorough/deep 69 265 (5.5 min), thorough/env 27 780 (2.7 min)."""
    base = dict(SENDERS={"u1", "u2"}, RCVS={"u2", "blk"}, AMTS={1, 2}, PROTOS={"v1", "alias"}, TOS={"t", "h"}, MaxHops=2,
                MaxPk=2, MaxEp=0, PCHAINS=set(), SLASH=set(), NAT_A={"x"}, NAT_B=set(), NAT_C=set(), FUND=2)
    w_small = ["send-v1", "send-alias", "send-return", "recv-mint", "recv-mint-2hops", "recv-release-native", "recv-error-ack",
               "ack-success", "refund-errack-escrow", "refund-errack-mint", "refund-timeout-escrow", "refund-timeout-mint",
               "timeout-height", "round-trip-complete"]
    if tier == "quick":
        return {"small": (base, w_small)}
    deep = dict(base, MaxHops=3, MaxPk=3)
    env = dict(base, MaxEp=1, PCHAINS={"B"})
    return {"deep": (deep, w_small + ["recv-mint-3hops", "recv-release-voucher"]),
            "env": (env, w_small + ["tick", "params"])}


def _spec_hash():
    import hashlib
    h = hashlib.sha256()
    for f in sorted(glob.glob(os.path.join(SPEC_DIR, "*.tla"))):
        h.update(open(f, "rb").read())
    h.update(open(os.path.abspath(__file__), "rb").read())
    return h.hexdigest()[:16]


def _reuse(name, compute):
    """Self-test convenience (VERIF_ICS20_REUSE=1, used by the mutant runs only): the model check of the specification and
    the TLC-generated schedules do not depend on the code under test, so mutant runs may take them from the last run with
    identical specification files.  Registered commands never set the variable."""
    if os.environ.get("VERIF_ICS20_REUSE") != "1":
        return compute()
    import pickle
    p = os.path.join(vk.CACHE, "ics20_reuse_%s_%s.pkl" % (name, _spec_hash()))
    if os.path.exists(p):
        return pickle.load(open(p, "rb"))
    v = compute()
    with open(p + ".tmp", "wb") as f:
        pickle.dump(v, f)
    os.replace(p + ".tmp", p)
    return v


def run_mc(tier, result, errors):
    try:
        if os.environ.get("VERIF_ICS20_REUSE") == "1":
            import pickle
            p = os.path.join(vk.CACHE, "ics20_reuse_mc_%s_%s.pkl" % (tier, _spec_hash()))
            if os.path.exists(p):
                result["mc"] = pickle.load(open(p, "rb"))
                return
    except Exception:  # noqa
        pass
    try:
        d = vk.scratch_spec(SPEC_DIR)
        out = {}

        def one(item):
            name, (consts, witnesses) = item
            cfg = os.path.join(d, "MC_ICS20_%s.cfg" % name)
            vk.write_cfg(cfg, "Spec", consts, invariants=["Inv"], view="View")
            r = vk.tlc_mc(d, "MC_ICS20", cfg, workers=4 if tier == "quick" else 3, timeout=3600 if tier == "quick" else 7200)
            seen = set(re.findall(r'<<"WITNESS", "([A-Za-z0-9-]+)">>', r["out"]))
            missing = [w for w in witnesses if w not in seen]
            if missing:
                raise vk.Infra("vacuous model check (ICS20/%s): never witnessed %s" % (name, missing))
            return name, {"distinct": r["distinct"], "generated": r["generated"], "depth": r["depth"], "witnessed": sorted(seen),
                          "constants": {k: (sorted(v) if isinstance(v, set) else v) for k, v in consts.items()}}
        for name, r in vk.pmap(one, list(mc_configs(tier).items()), 2):
            out[name] = r
        result["mc"] = out
        if os.environ.get("VERIF_ICS20_REUSE") == "1":
            import pickle
            with open(os.path.join(vk.CACHE, "ics20_reuse_mc_%s_%s.pkl" % (tier, _spec_hash())), "wb") as f:
                pickle.dump(out, f)
        shutil.rmtree(d, ignore_errors=True)
    except Exception as e:  # noqa
        errors.append(e)


# ------------------------------------------------------------------------------------------------ generation

def gen_walks(tier, seed, workdir):
    sz = sizes(tier)
    d = vk.scratch_spec(SPEC_DIR)
    nproc = 4
    per = (sz["walks"] + nproc - 1) // nproc

    def one(ix):
        outdir = os.path.join(workdir, "walks_%d" % ix)
        os.makedirs(outdir, exist_ok=True)
        cfg = os.path.join(d, "Sched_%d.cfg" % ix)
        consts = dict(SENDERS={"u1", "u2", "u3"}, RCVS={"u1", "u2", "u3", "blk", "bad"}, AMTS={1, 2, 3}, PROTOS={"v1", "alias", "v2"},
                      TOS={"t", "h"}, MaxHops=sz["max_hops"], MaxPk=10000, MaxEp=10000, PCHAINS=set(), SLASH=SLASH, FUND=6,
                      Depth=sz["depth"], OutDir=outdir, MACRO_PCT=55, HONEST_PCT=20, **WALK_BASES)
        vk.write_cfg(cfg, "Spec", consts)
        vk.tlc_simulate(d, "Sched_ICS20", cfg, per, sz["depth"] + 1, seed * 31 + ix, workers=1, timeout=3600)
        out = []
        for f in sorted(glob.glob(os.path.join(outdir, "*.json"))):
            out.append(json.load(open(f)))
        return out[:per]
    scheds = []
    for ix, lst in enumerate(vk.pmap(one, list(range(nproc)), nproc)):
        for j, s in enumerate(lst):
            s["id"] = "walk-%d-%d-%d" % (seed, ix, j)
            scheds.append(with_layout(s, WALK_LAYOUTS[(len(scheds) + seed) % len(WALK_LAYOUTS)]))
    shutil.rmtree(d, ignore_errors=True)
    if len(scheds) < 3:
        raise vk.Infra("walk generation produced only %d schedules" % len(scheds))
    return scheds


def gen_cases(tier, seed, workdir):
    """TLC enumerates the C34 table and builds the C33 round-trip batches (DenomCases.tla)."""
    sz = sizes(tier)
    d = vk.scratch_spec(SPEC_DIR)
    outdir = os.path.join(workdir, "cases")
    os.makedirs(outdir, exist_ok=True)
    cfg = os.path.join(d, "DenomCases.cfg")
    consts = dict(sz["table"])
    consts["Offset"] = seed % consts["Stride"]
    consts["OutDir"] = outdir
    with open(cfg, "w") as f:
        f.write("CONSTANTS\n" + "".join("  %s = %s\n" % (k, vk.tla_val(v)) for k, v in consts.items()))
    rc, out = vk._tlc(["-workers", "1", "-config", cfg, "DenomCases.tla"], d, 3600,
                      extra_env={"JAVA_TOOL_OPTIONS": os.environ.get("JAVA_TOOL_OPTIONS", "") + " -Xss512m"})
    m = re.search(r'<<"CASES", (\d+), (\d+), (\d+), (\d+)>>', out)
    if rc != 0 or not m or not os.path.exists(os.path.join(outdir, "batches.json")):
        raise vk.Infra("case generation (DenomCases) failed:\n%s" % out[-3000:])
    batches = json.load(open(os.path.join(outdir, "batches.json")))
    for i, b in enumerate(batches):
        b["id"] = "case%s-%d-%d" % ("kf" if b.get("kf") else "", seed, i)
        with_layout(b, BATCH_LAYOUTS[(i + seed) % len(BATCH_LAYOUTS)])
    shutil.rmtree(d, ignore_errors=True)
    return batches, outdir, dict(paths=int(m.group(1)), escrow_pairs=int(m.group(2)), bases=int(m.group(3)), batches=int(m.group(4)))


def gen_tours(tier, seed, workdir):
    """Directed boundary schedules built by TLC by folding Step (Tour_ICS20.tla): twin escrows, failing twins, forwards over
    the other end, failing forwards / returns, everything returned home -- executed in crossed / prefix-related identifier
    layouts.  TLC refuses to emit a tour whose steps do not have the intended outcome in the specification."""
    sz = sizes(tier)
    d = vk.scratch_spec(SPEC_DIR)
    outdir = os.path.join(workdir, "tours")
    os.makedirs(outdir, exist_ok=True)
    cfg = os.path.join(d, "Tour_ICS20.cfg")
    consts = dict(OutDir=outdir, Rot=seed % 3, NTours=sz["tours"], Base="utour")
    with open(cfg, "w") as f:
        f.write("CONSTANTS\n" + "".join("  %s = %s\n" % (k, vk.tla_val(v)) for k, v in consts.items()))
    rc, out = vk._tlc(["-workers", "1", "-config", cfg, "Tour_ICS20.tla"], d, 3600,
                      extra_env={"JAVA_TOOL_OPTIONS": os.environ.get("JAVA_TOOL_OPTIONS", "") + " -Xss256m"})
    m = re.search(r'<<"TOURS", (\d+), (\d+)>>', out)
    if rc != 0 or not m or not os.path.exists(os.path.join(outdir, "tours.json")):
        raise vk.Infra("tour generation (Tour_ICS20) failed:\n%s" % out[-3000:])
    tours = json.load(open(os.path.join(outdir, "tours.json")))
    shutil.rmtree(d, ignore_errors=True)
    out_scheds = []
    for li, lay in enumerate(sz["tour_layouts"]):
        for i, t in enumerate(tours):
            if li > 0 and tier == "quick" and i > 0:
                continue
            s = dict(t)
            s["id"] = "tour-%d-%s%d" % (seed, lay, i)
            out_scheds.append(with_layout(s, lay))
    return out_scheds


def _reuse_cases(tier, seed, workdir):
    """gen_cases writes the table files into the work directory: keep their content with the cached value."""
    def compute():
        batches, outdir, counts = gen_cases(tier, seed, workdir)
        files = {n: open(os.path.join(outdir, n)).read() for n in ("paths.json", "escrow.json")}
        return batches, files, counts
    batches, files, counts = _reuse("cases_%s_%d" % (tier, seed), compute)
    outdir = os.path.join(workdir, "cases")
    os.makedirs(outdir, exist_ok=True)
    for n, txt in files.items():
        with open(os.path.join(outdir, n), "w") as f:
            f.write(txt)
    return batches, outdir, counts


# ------------------------------------------------------------------------------------------------ execution

def drive(binary, scheds, workdir, tag, nshards, seed):
    shards = vk.shard(scheds, nshards)

    def one(ix):
        sp = os.path.join(workdir, "%s_sched_%d.ndjson" % (tag, ix))
        tp = os.path.join(workdir, "%s_trace_%d.ndjson" % (tag, ix))
        with open(sp, "w") as f:
            for s in shards[ix]:
                f.write(json.dumps(s) + "\n")
        rc, out = vk.run_driver(binary, "TestDrive", {"VERIF_SCHED": sp, "VERIF_TRACE": tp, "VERIF_SEED": str(seed)})
        if rc != 0:
            raise vk.Infra("driver failed (rc=%d):\n%s" % (rc, out[-3000:]))
        return tp
    return vk.pmap(one, list(range(len(shards))), len(shards))


def drive_table(binary, tabledir, workdir, tag, seed, variants, rows=None):
    tp = os.path.join(workdir, "%s_table.ndjson" % tag)
    env = {"VERIF_TABLE": tabledir, "VERIF_TRACE": tp, "VERIF_SEED": str(seed), "VERIF_VARIANTS": str(variants)}
    if rows is not None:
        rp = os.path.join(workdir, "%s_rows.ndjson" % tag)
        with open(rp, "w") as f:
            for r in rows:
                f.write(json.dumps(r) + "\n")
        env["VERIF_ROWS"] = rp
    rc, out = vk.run_driver(binary, "TestDenomTable", env)
    if rc != 0:
        raise vk.Infra("table driver failed (rc=%d):\n%s" % (rc, out[-3000:]))
    return tp


MONFAIL_RE = re.compile(r'<<\s*"MONFAIL",\s*"([^"]*)",\s*(\d+),\s*<<\s*"([^"]*)",\s*"([^"]*)"\s*>>\s*>>')


def monfails(out):
    """TLC's pretty printer breaks long tuples over several lines: parse MONFAIL tuples whitespace-tolerantly."""
    return [(m.group(1), int(m.group(2)), m.group(3), m.group(4)) for m in MONFAIL_RE.finditer(out)]


def validate(trace_files, workdir, tag):
    d = vk.scratch_spec(SPEC_DIR)
    fails, steps = [], 0

    def one(tf):
        n = sum(1 for line in open(tf) if line.strip())
        if n == 0:
            return [], 0
        cfg = os.path.join(d, "Trace_%s.cfg" % os.path.basename(tf))
        vk.write_cfg(cfg, "TraceSpec", dict(TraceFile=tf))
        fl, consumed, out = vk.tlc_trace(d, "Trace_ICS20", cfg)
        if consumed != n:
            raise vk.Infra("trace validation consumed %d of %d lines (%s)\n%s" % (consumed, n, tf, out[-2000:]))
        return monfails(out), n
    for fl, n in vk.pmap(one, trace_files, 8):
        fails.extend(fl)
        steps += n
    shutil.rmtree(d, ignore_errors=True)
    return fails, steps


def validate_table(tf):
    d = vk.scratch_spec(SPEC_DIR)
    n = sum(1 for line in open(tf) if line.strip())
    cfg = os.path.join(d, "Trace_Denom.cfg")
    vk.write_cfg(cfg, "TraceSpec", dict(TraceFile=tf))
    fl, consumed, out = vk.tlc_trace(d, "Trace_Denom", cfg)
    if consumed != n:
        raise vk.Infra("table validation consumed %d of %d rows\n%s" % (consumed, n, out[-2000:]))
    m = re.search(r'<<"ACCEPTED", (\d+)>>', out)
    shutil.rmtree(d, ignore_errors=True)
    return monfails(out), n, int(m.group(1)) if m else 0


# ------------------------------------------------------------------------------------------------ coverage

def returning(denom, e):
    return bool(denom["tr"]) and denom["tr"][0] == e


def coverage_of(trace_files):
    """(kind:action-class:result) counts and per-property distinct nontrivial signatures, from the recorded lines."""
    cov = collections.Counter()
    sigs = collections.defaultdict(set)
    for tf in trace_files:
        prev = None
        for line in open(tf):
            if not line.strip():
                continue
            d = json.loads(line)
            a = d["a"]
            kind = d["tr"].split("-")[0]
            if a["a"] == "Init":
                prev = d
                continue
            name = a["a"]
            res = d["res"]
            props = []
            extra = ()
            if name == "Transfer":
                fl = "ret" if returning(a["denom"], a["e"]) else ("new" if not a["denom"]["tr"] else "fwd")
                if a["signer"] != a["sender"]:
                    name = "Transfer.badsigner.%s" % a["proto"]
                else:
                    name = "Transfer.%s.%s" % (a["proto"], fl)
                props = ["C30", "C31", "C49"] + (["C33"] if fl == "ret" else [])
                extra = (len(a["denom"]["tr"]), a["receiver"] if a["receiver"] in ("blk", "bad") else "acct", a["to"], a["amt"] > 0, a.get("slash"))
            elif name in ("Recv", "Ack", "Timeout"):
                pk = {(p["e"], p["seq"]): p for p in (prev["st"]["pk"] if prev else [])}
                post = {(p["e"], p["seq"]): p for p in d["st"]["pk"]}
                p = pk.get((a["e"], a["seq"]))
                if p is not None and res == "ok":
                    ret = returning(p["denom"], p["e"])
                    if name == "Recv":
                        ack = post.get((a["e"], a["seq"]), {}).get("ack")
                        name = "Recv.errack" if ack == "err" else ("Recv.release" if ret else ("Recv.mint%d" % (len(p["denom"]["tr"]) + 1)))
                        props = ["C30", "C31", "C49"] + (["C33"] if ret else []) + (["C34"] if not ret else [])
                    elif name == "Ack":
                        name = "Ack.success" if p["ack"] == "ok" else ("Ack.refund.mint" if ret else "Ack.refund.escrow")
                        props = ["C30", "C31", "C32", "C49"]
                    else:
                        name = "Timeout.mint" if ret else "Timeout.escrow"
                        props = ["C30", "C31", "C32", "C49"]
                    extra = (p["proto"], len(p["denom"]["tr"]), p["to"], a.get("rl"))
                else:
                    props = ["C30", "C32", "C49"]
                    extra = (p is not None, p["com"] if p else None, p["rcv"] if p else None, a.get("rl") == "rly")
            elif name == "BankSend":
                props = ["C30", "C31"]
            cov["%s:%s:%s" % (kind, name, res)] += 1
            for pr in props:
                sigs[pr].add((kind, name, res) + tuple(extra))
            prev = d
    return cov, {p: len(s) for p, s in sigs.items()}


FLOORS = {
    "C30": ["Recv.mint1:ok", "Recv.mint2:ok", "Recv.release:ok", "Recv.errack:ok", "Timeout.escrow:ok", "Timeout.mint:ok",
            "Ack.refund.", "Transfer.alias.", "Transfer.v2.", "Recv:noop", "Ack:noop", ".new:err",
            # directed tours in crossed / prefix-related identifier layouts
            "layout:P", "tour:Timeout.escrow:ok", "tour:Timeout.mint:ok", "tour:Ack.refund.escrow:ok", "tour:Ack.refund.mint:ok",
            "tour:Recv.release:ok", "tour:Recv.mint2:ok", "tour:Transfer.v2.fwd:ok", "tour:Transfer.alias.fwd:ok", "tour:Transfer.v1.fwd:ok"],
    "C31": ["Recv.release:ok", "Ack.refund.", "Timeout.escrow:ok", "BankSend:ok", ".fwd:ok"],
    "C32": ["Ack.refund.", "Timeout.escrow:ok", "Timeout.mint:ok", "Ack.success:ok", "Ack:noop", "Timeout:noop", "Timeout:err",
            "tour:Timeout.escrow:ok", "tour:Timeout.mint:ok", "tour:Ack.refund.escrow:ok", "tour:Ack.refund.mint:ok"],
    "C33": ["case:Recv.release:ok", "case:Transfer.v1.ret:ok", ".ret:ok", "tour:Recv.release:ok", "tour:Transfer.v2.ret:ok", "tour:Transfer.alias.ret:ok"],
    "C34": ["table:path.accepted", "table:path.rejected", "table:esc", "Recv.mint1:ok", "Recv.mint2:ok"],
    "C49": ["Transfer.badsigner.v1:err", "Transfer.badsigner.v2:err", "Transfer.badsigner.alias:err", "Recv.mint1:ok",
            "Recv.release:ok", "Ack.refund.", "Timeout."],
}


# ------------------------------------------------------------------------------------------------ family run

def run_family(tier, seed, binary=None):
    t0 = time.time()
    workdir = os.path.join(vk.CACHE, "work", FAMILY + vk.repo_tag())
    shutil.rmtree(workdir, ignore_errors=True)
    os.makedirs(workdir)
    result, errors = {}, []
    th = threading.Thread(target=run_mc, args=(tier, result, errors))
    th.start()
    sz = sizes(tier)
    gen = {}

    def g1():
        try:
            gen["walks"] = _reuse("walks_%s_%d" % (tier, seed), lambda: gen_walks(tier, seed, workdir))
        except Exception as e:  # noqa
            errors.append(e)

    def g2():
        try:
            gen["cases"] = _reuse_cases(tier, seed, workdir)
        except Exception as e:  # noqa
            errors.append(e)
    def g3():
        try:
            gen["tours"] = _reuse("tours_%s_%d" % (tier, seed), lambda: gen_tours(tier, seed, workdir))
        except Exception as e:  # noqa
            errors.append(e)
    ts = [threading.Thread(target=g1), threading.Thread(target=g2), threading.Thread(target=g3)]
    for t in ts:
        t.start()
    if binary is None:
        binary = vk.build_harness("ics20")
    for t in ts:
        t.join()
    if errors:
        th.join()
        raise errors[0]
    walks = gen["walks"]
    batches, tabledir, counts = gen["cases"]
    tours = gen["tours"]
    scheds = walks + tours + batches + [PROBE, PROBE_SPOOF, PROBE_REFUND]
    vk.log("generated %d walks, %d tours, %d case batches (%s) in %.1fs" % (len(walks), len(tours), len(batches), counts, time.time() - t0))
    tfiles = drive(binary, scheds, workdir, "main", sz["shards"], seed)
    table = drive_table(binary, tabledir, workdir, "main", seed, sz["variants"])
    vk.log("drove %d schedules and the function table (%.1fs)" % (len(scheds), time.time() - t0))
    fails, steps = validate(tfiles, workdir, "main")
    tfails, rows, accepted = validate_table(table)
    vk.log("validated %d steps + %d table rows, %d monitor failures (%.1fs)" % (steps, rows, len(fails) + len(tfails), time.time() - t0))
    th.join()
    if errors:
        raise errors[0]
    cov, sigs = coverage_of(tfiles)
    esc_rows = sum(1 for line in open(table) if '"kind":"esc"' in line)
    cov["table:path.accepted"] = accepted
    cov["table:path.rejected"] = rows - esc_rows - accepted
    cov["table:esc"] = esc_rows
    for sc in scheds:
        cov["layout:%s" % (sc.get("layout") or ("uniq" if sc.get("uniq") else "zero"))] += 1
    sigs["C34"] = sigs.get("C34", 0) + rows
    sanity = [f for f in fails + tfails if f[2] == "X"]
    if sanity:
        raise vk.Infra("harness sanity monitors failed (infrastructure): %s" % sanity[:5])
    conf = collections.Counter(f[0].split("-")[0] + ":" + f[3] for f in fails + tfails if f[2] == "CONF")
    by_id = {s["id"]: s for s in scheds}
    table_rows = {}
    if tfails:
        for line in open(table):
            r = json.loads(line)
            table_rows[r["id"]] = r
    failing = {}
    for tr, step, prop, clause in fails:
        if prop != "CONF":
            failing.setdefault(tr, by_id.get(tr))
    for tr, step, prop, clause in tfails:
        if prop != "CONF" and tr in table_rows:
            r = table_rows[tr]
            rows_ = [r] if r["kind"] == "path" else [x for x in table_rows.values() if x["kind"] == "esc"]
            failing.setdefault(tr, {"id": tr, "kind": "table",
                                    "rows": [{"id": x["id"], "kind": x["kind"], "segs": x["segs"], "inst": x["inst"]} for x in rows_]})
    allfails = [f for f in fails + tfails if f[2] != "CONF"]
    # C44 is the packet family's property; here its clauses are a diagnostic (reported, never judged by this family's checks)
    c44 = collections.Counter(f[3] for f in allfails if f[2] == "C44")
    sample = None
    for tf in tfiles:
        lines = [json.loads(l) for l in open(tf).readlines()[:12]]
        if lines:
            first = lines[0]["tr"]
            sample = {"schedule_id": first, "trace_prefix": [slim(x) for x in lines if x["tr"] == first][:8]}
            break
    result.update({"tier": tier, "seed": seed, "traces": len(scheds), "steps": steps, "table_rows": rows, "fails": allfails,
                   "coverage": dict(cov), "sigs": sigs, "failing_schedules": failing, "sample": sample, "conformance_diffs": dict(conf), "c44_diagnostic": dict(c44),
                   "case_counts": counts, "wall": time.time() - t0})
    return result


def slim(d):
    st = d["st"]
    return {"i": d["i"], "a": d["a"], "res": d["res"],
            "post": {"ep": st["ep"], "pk": st["pk"][-3:],
                     "ch": {c: {"bal": st["ch"][c]["bal"], "sup": st["ch"][c]["sup"], "esc": st["ch"][c]["esc"]} for c in ("A", "B", "C")}}}


def replay(schedule, binary=None):
    """Execute one schedule (or one function-table row batch) again and return its monitor failures."""
    workdir = os.path.join(vk.CACHE, "work", FAMILY + "_replay" + vk.repo_tag())
    shutil.rmtree(workdir, ignore_errors=True)
    os.makedirs(workdir)
    if binary is None:
        binary = vk.build_harness("ics20")
    seed = int(os.environ.get("VERIF_SEED", "1") or 1)
    if schedule.get("kind") == "table":
        tf = drive_table(binary, workdir, workdir, "replay", seed, 1, rows=schedule["rows"])
        fails, _, _ = validate_table(tf)
        return [f for f in fails if f[2] != "CONF"], {"table": tf}
    m = re.match(r"^[a-z]+-(\d+)-", schedule.get("id", ""))
    if m:
        seed = int(m.group(1))   # base denominations are instantiated from the seed of the run that produced the schedule
    tfiles = drive(binary, [schedule], workdir, "replay", 1, seed)
    fails, _ = validate(tfiles, workdir, "replay")
    return [f for f in fails if f[2] != "CONF"], {"trace": tfiles}


# ------------------------------------------------------------------------------------------------ known findings

def _known(known):
    """Entries of /verif/known_findings.json handed in by bin/check, plus (self-test only) $VERIF_ICS20_KNOWN."""
    out = list(known or [])
    p = os.environ.get("VERIF_ICS20_KNOWN")
    if p and os.path.exists(p):
        out += [k for k in json.load(open(p)).get("findings", []) if k.get("status", "open") == "open"]
    return out


def match_known(fail, schedule, known):
    """A MONFAIL is inside a listed input class iff its schedule was generated for that class (kf tag set by TLC from
    Denom!HopShaped on the base denomination -- an input, decided before anything ran)."""
    if not schedule or not schedule.get("kf"):
        return None
    for k in _known(known):
        if k.get("property") == fail[2] and k.get("family", FAMILY) == FAMILY and k.get("signature", {}).get("class") == schedule["kf"]:
            return k
    return None


_REFUND_TEXT = ("native token of B named 'transfer/channel-1/uatomc' (a voucher path of the end it is sent over): %s at step %d; "
                "after C's error acknowledgement the refund on B mints ibc/HASH instead of releasing the escrowed tokens "
                "(keeper/relay.go refundPacketTokens HasPrefix branch on the re-parsed packet denomination)")
PROBE_TEXT = {
    "C33": (PROBE["id"], "native base denomination 'lp/pooltoken-1/share' (hop-shaped segment pair): %s at step %d of the probe A->B->A; "
            "the returned voucher is not released from escrow (types/denom.go ExtractDenomFromPath re-splits the base, "
            "keeper/relay.go OnRecvPacket then unescrows ibc/HASH instead of the native name)"),
    "C30": (PROBE_SPOOF["id"], "native token of A named 'transfer/channel-0/uatomb' (a voucher path of the channel it is sent over): %s at step %d; "
            "B releases real uatomb from its escrow for it, leaving A's vouchers of uatomb unbacked "
            "(types/denom.go ExtractDenomFromPath + keeper/relay.go OnRecvPacket HasPrefix branch)"),
    "C31": (PROBE_REFUND["id"], _REFUND_TEXT),
    "C32": (PROBE_REFUND["id"], _REFUND_TEXT),
    "C34": (PROBE_REFUND["id"], _REFUND_TEXT),
}


def probe_known(pid, known, result):
    lines = []
    for k in _known(known):
        if k.get("property") != pid or k.get("family", FAMILY) != FAMILY or k.get("signature", {}).get("class") != KF_CLASS:
            continue
        if pid not in PROBE_TEXT:
            continue
        probe_id, text = PROBE_TEXT[pid]
        hits = [f for f in result.get("fails", []) if f[0] == probe_id and f[2] == pid]
        if hits:
            lines.append("KNOWN-FINDING: property=%s id=%s " % (pid, k.get("id")) + text % (hits[0][3], hits[0][1]))
        else:
            lines.append("NOTICE: known finding %s (property=%s) no longer reproduces on this tree" % (k.get("id"), pid))
    return lines


def evidence(pid, res):
    mc = res.get("mc", {})
    return {
        "states": sum(v["distinct"] for v in mc.values()),
        "transitions": sum(v["generated"] for v in mc.values()),
        "traces_validated_against_impl": res.get("traces", 0),
        "samples": [res.get("sample")],
        "evaluations": res.get("steps", 0) + (res.get("table_rows", 0) if pid == "C34" else 0),
        "distinct_nontrivial": res.get("sigs", {}).get(pid, 0),
        "rule": "one evaluation = one transaction (or one function-table row for C34) executed on the real code and judged by TLC; "
                "distinct_nontrivial = distinct (schedule kind, action class incl. protocol / token flavour / refund kind, result class, "
                "trace length, receiver class, timeout kind, relayer) signatures among the steps this property's monitors constrain"
                + (", plus one per function-table row" if pid == "C34" else ""),
        "model_check": mc,
        "case_counts": res.get("case_counts"),
        "coverage_by_action": {k: v for k, v in sorted(res.get("coverage", {}).items())},
        "conformance_diffs_diagnostic": res.get("conformance_diffs", {}),
        "c44_export_import_diagnostic": res.get("c44_diagnostic", {}),
        "exhaustive": False,
    }
