"""Packet family: IBCPacket.tla (spec/packet) bound to modules/core/04-channel (v1 + v2) of /repo.

Pipeline (DESIGN.md 2.1): (a) exhaustive TLC model check of the design per path kind, (b) TLC -simulate
behaviour generation -> schedules, executed on real ibctesting chains by harness/packet, (c) TLC trace
validation of the recorded executions with property-scoped monitors (Trace_Packet.tla).
"""
import collections
import glob
import json
import os
import re
import shutil
import threading
import time

import vk

FAMILY = "packet"
SPEC_DIR = os.path.join(vk.SPEC, "packet")
KINDS = ["UNORDERED", "ORDERED", "V2"]
BIG_TP = 2419200  # 14 days in ticks

# property -> (what must have been exercised for the run to count, i.e. vacuity floor)
# each floor is (description, predicate over coverage counter)
PROPS = ["C01", "C02", "C03", "C04", "C05", "C06", "C08", "C09", "C10", "C11", "C12", "C14", "C21"]

MC_PROPS = ["AckWriteOnce", "ClosedStaysClosed", "SeqMonotone", "ClosedNoFlow"]


def mc_constants(kind, tier):
    if tier == "quick":
        c = dict(KIND=kind, TP=1000, MaxH=4, MaxT=8, MaxSeq=1, DATA={"ok"}, SENDERS={"A"}, DTS={1}, FREEZE=False,
                 TOH_OFFS={3}, TOT_OFFS={5}, TOS_OFFS={2, 3})
    else:
        c = dict(KIND=kind, TP=1000, MaxH=5, MaxT=9 if kind != "V2" else 11, MaxSeq=1 if kind != "V2" else 2,
                 DATA={"ok"} if kind != "V2" else {"ok", "async"}, SENDERS={"A"}, DTS={1}, FREEZE=False,
                 TOH_OFFS={3}, TOT_OFFS={5}, TOS_OFFS={2, 3})
    return c


# successful actions that the exhaustive run must have taken at least once (vacuity of the model check)
MC_WITNESS = {
    "UNORDERED": ["SendV1", "SendV2", "RecvV1", "RecvV2", "AckV1", "TimeoutV1", "TimeoutOnClose", "CloseInit", "CloseConfirm", "Update"],
    "ORDERED": ["SendV1", "RecvV1", "AckV1", "TimeoutV1", "TimeoutOnClose", "CloseInit", "CloseConfirm", "Update"],
    "V2": ["SendV2", "RecvV2", "AckV2", "TimeoutV2", "Update"],
}


def sched_constants(kind, tier, depth, outdir, tp=BIG_TP):
    return dict(KIND=kind, TP=tp, MaxH=3 * depth, MaxT=6 * depth, MaxSeq=3 if tier == "quick" else 4,
                DATA={"ok", "fail", "async"}, SENDERS={"A", "B"}, DTS={1, 2}, FREEZE=True,
                TOH_OFFS={3, 6, 12}, TOT_OFFS={4, 9, 20}, TOS_OFFS={2, 4, 9},
                Depth=depth, OutDir=outdir, HONEST_PCT=60, MACRO_PCT=50, EDGE_PCT=20)


def sizes(tier):
    if tier == "quick":
        return dict(per_kind=20, depth=36, shards=12)
    return dict(per_kind=220, depth=60, shards=16)


def run_mc(tier, result, errors):
    try:
        d = vk.scratch_spec(SPEC_DIR)
        out = {}

        def one(kind):
            cfg = os.path.join(d, "MC_%s.cfg" % kind)
            vk.write_cfg(cfg, "Spec", mc_constants(kind, tier), invariants=["Inv"], properties=MC_PROPS, constraint="Bound")
            r = vk.tlc_mc(d, "MC_Packet", cfg, workers=5, timeout=300 if tier == "quick" else 2400)
            seen = set(re.findall(r'<<"WITNESS", "([A-Za-z0-9]+)">>', r["out"]))
            missing = [w for w in MC_WITNESS[kind] if w not in seen]
            if missing:
                raise vk.Infra("vacuous model check (%s): never took a successful %s" % (kind, missing))
            return kind, {"distinct": r["distinct"], "generated": r["generated"], "depth": r["depth"], "witnessed_actions": sorted(seen),
                          "constants": {k: (sorted(v) if isinstance(v, set) else v) for k, v in mc_constants(kind, tier).items()}}
        for kind, r in vk.pmap(one, KINDS, 3):
            out[kind] = r
        result["mc"] = out
        shutil.rmtree(d, ignore_errors=True)
    except Exception as e:  # noqa
        errors.append(e)


def gen_schedules(tier, seed, workdir):
    sz = sizes(tier)
    d = vk.scratch_spec(SPEC_DIR)
    scheds = []

    def one(kind):
        outdir = os.path.join(workdir, "sched_" + kind)
        os.makedirs(outdir, exist_ok=True)
        cfg = os.path.join(d, "Sched_%s.cfg" % kind)
        vk.write_cfg(cfg, "Spec", sched_constants(kind, tier, sz["depth"], outdir))
        vk.tlc_simulate(d, "Sched_Packet", cfg, sz["per_kind"], sz["depth"] + 1, seed * 7 + KINDS.index(kind), workers=1)
        out = []
        for i, f in enumerate(sorted(glob.glob(os.path.join(outdir, "*.json")))):
            s = json.load(open(f))
            s["id"] = "%s-%d-%d" % (kind, seed, i)
            out.append(s)
        return out[: sz["per_kind"]]
    for lst in vk.pmap(one, KINDS, 3):
        scheds.extend(lst)
    shutil.rmtree(d, ignore_errors=True)
    if len(scheds) < 3:
        raise vk.Infra("schedule generation produced only %d schedules" % len(scheds))
    return scheds


def drive(binary, scheds, workdir, tag, nshards):
    """Execute schedules on the real code; returns list of trace lines (dicts) grouped by (kind, tp)."""
    shards = vk.shard(scheds, nshards)

    def one(ix):
        sp = os.path.join(workdir, "%s_sched_%d.ndjson" % (tag, ix))
        tp = os.path.join(workdir, "%s_trace_%d.ndjson" % (tag, ix))
        with open(sp, "w") as f:
            for s in shards[ix]:
                f.write(json.dumps(s) + "\n")
        rc, out = vk.run_driver(binary, "TestDrive", {"VERIF_SCHED": sp, "VERIF_TRACE": tp})
        if rc != 0:
            raise vk.Infra("driver failed (rc=%d):\n%s" % (rc, out[-3000:]))
        return tp
    files = vk.pmap(one, list(range(len(shards))), len(shards))
    groups = collections.defaultdict(list)
    for f in files:
        for line in open(f):
            if line.strip():
                d = json.loads(line)
                groups[(d["kind"], d["tp"])].append(line)
    return groups


def validate(groups, workdir, tag):
    d = vk.scratch_spec(SPEC_DIR)
    fails, steps = [], 0

    def one(item):
        (kind, tp), lines = item
        tf = os.path.join(workdir, "%s_%s_%d.ndjson" % (tag, kind, tp))
        with open(tf, "w") as f:
            f.writelines(lines)
        cfg = os.path.join(d, "Trace_%s_%d.cfg" % (kind, tp))
        vk.write_cfg(cfg, "TraceSpec", dict(KIND=kind, TP=tp, TraceFile=tf))
        fl, consumed, out = vk.tlc_trace(d, "Trace_Packet", cfg)
        if consumed != len(lines):
            raise vk.Infra("trace validation consumed %d of %d lines (%s)\n%s" % (consumed, len(lines), kind, out[-2000:]))
        return fl, len(lines)
    for fl, n in vk.pmap(one, list(groups.items()), 4):
        fails.extend(fl)
        steps += n
    shutil.rmtree(d, ignore_errors=True)
    return fails, steps


def coverage_of(groups):
    """(action, result) counts and per-property distinct nontrivial case signatures."""
    cov = collections.Counter()
    sigs = collections.defaultdict(set)
    for (kind, tp), lines in groups.items():
        for line in lines:
            d = json.loads(line)
            a = d["a"]
            if a["a"] == "Init":
                continue
            cov["%s:%s:%s" % (kind, a["a"], d["res"])] += 1
            pk = a.get("pkt") or {}
            sig = (kind, a["a"], d["res"], pk.get("route"), tuple(pk.get("data", [])), a.get("canon"),
                   tuple(a.get("ack", [])), tuple(a.get("data", [])))
            for p in props_of_action(a["a"]):
                sigs[p].add(sig)
    return cov, {p: len(s) for p, s in sigs.items()}


def props_of_action(name):
    m = {
        "RecvV1": ["C01", "C02", "C05", "C09", "C11", "C14", "C21"], "RecvV2": ["C01", "C05", "C10", "C11", "C21"],
        "AckV1": ["C02", "C03", "C06", "C14", "C21"], "AckV2": ["C03", "C06", "C21"],
        "TimeoutV1": ["C03", "C04", "C14", "C21"], "TimeoutV2": ["C03", "C04", "C21"],
        "TimeoutOnClose": ["C03", "C04", "C12", "C14", "C21"],
        "SendV1": ["C08", "C14", "C21"], "SendV2": ["C08", "C21"],
        "WriteAckV1": ["C11", "C14"], "WriteAckV2": ["C11"],
        "CloseInit": ["C12", "C21"], "CloseConfirm": ["C12", "C21"], "Update": ["C21"], "Freeze": ["C21"], "Block": [],
    }
    return m.get(name, [])


# vacuity floors: substrings of coverage keys that must have a positive count
FLOORS = {
    "C01": ["RecvV1:ok", "RecvV1:noop", "RecvV2:ok", "RecvV2:noop"],
    "C02": ["ORDERED:RecvV1:ok", "ORDERED:AckV1:ok", "ORDERED:RecvV1:err"],
    "C03": ["AckV1:ok", "AckV1:noop", "TimeoutV1:ok", "AckV2:ok", "TimeoutV2:ok"],
    "C04": ["TimeoutV1:ok", "TimeoutV1:err", "TimeoutV2:ok", "TimeoutV2:err"],
    "C05": ["RecvV1:ok", "RecvV1:err", "RecvV2:ok", "RecvV2:err"],
    "C06": ["AckV1:ok", "AckV1:err", "AckV2:ok", "AckV2:err"],
    "C08": ["SendV1:ok", "SendV1:err", "SendV2:ok", "SendV2:err", "UNORDERED:SendV2:ok"],
    "C09": ["RecvV1:ok"],
    "C10": ["RecvV2:ok"],
    "C11": ["WriteAckV1:ok", "WriteAckV2:ok", "WriteAckV2:err"],
    "C12": ["CloseInit:ok"],
    "C14": ["ORDERED:TimeoutV1:ok"],
    "C21": ["Freeze:ok", "Update:ok", "Update:err"],
}


def run_family(tier, seed, binary=None):
    t0 = time.time()
    workdir = os.path.join(vk.CACHE, "work", FAMILY + vk.repo_tag())
    shutil.rmtree(workdir, ignore_errors=True)
    os.makedirs(workdir)
    result, errors = {}, []
    th = threading.Thread(target=run_mc, args=(tier, result, errors))
    th.start()
    if binary is None:
        binary = vk.build_harness("packet")
    scheds = gen_schedules(tier, seed, workdir)
    vk.log("generated %d schedules in %.1fs" % (len(scheds), time.time() - t0))
    groups = drive(binary, scheds, workdir, "main", sizes(tier)["shards"])
    vk.log("drove %d schedules (%.1fs)" % (len(scheds), time.time() - t0))
    fails, steps = validate(groups, workdir, "main")
    vk.log("validated %d steps, %d monitor failures (%.1fs)" % (steps, len(fails), time.time() - t0))
    th.join()
    if errors:
        raise errors[0]
    cov, sigs = coverage_of(groups)
    sanity = [f for f in fails if f[2] == "X"]
    if sanity:
        raise vk.Infra("harness sanity monitors failed (infrastructure): %s" % sanity[:5])
    by_id = {s["id"]: s for s in scheds}
    # keep the schedules that failed (for reproduction / replay) and one sample
    failing = {}
    for tr, step, prop, clause in fails:
        failing.setdefault(tr, by_id.get(tr))
    sample = None
    for (kind, tp), lines in sorted(groups.items()):
        first = json.loads(lines[0])["tr"]
        sample = {"schedule_id": first, "kind": kind,
                  "trace_prefix": [slim(json.loads(l)) for l in lines[:8] if json.loads(l)["tr"] == first]}
        break
    result.update({"tier": tier, "seed": seed, "traces": len(scheds), "steps": steps, "fails": fails,
                   "coverage": dict(cov), "sigs": sigs, "failing_schedules": failing, "sample": sample,
                   "wall": time.time() - t0})
    return result


def slim(d):
    st = d["st"]
    return {"i": d["i"], "a": d["a"], "res": d["res"],
            "post": {c: {"h": st["ch"][c]["h"], "cur": st["ch"][c]["cur"], "cons": st["ch"][c]["cons"],
                         "status": st["ch"][c]["status"], "log_len": len(st["ch"][c]["log"])} for c in ("A", "B")}}


def replay(schedule, binary=None):
    """Execute one schedule and return its monitor failures."""
    workdir = os.path.join(vk.CACHE, "work", FAMILY + "_replay" + vk.repo_tag())
    shutil.rmtree(workdir, ignore_errors=True)
    os.makedirs(workdir)
    if binary is None:
        binary = vk.build_harness("packet")
    groups = drive(binary, [schedule], workdir, "replay", 1)
    fails, _ = validate(groups, workdir, "replay")
    return fails, groups
