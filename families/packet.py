"""Packet family: IBCPacket.tla (spec/packet) bound to modules/core/04-channel (v1 + v2) of /repo.

Pipeline (DESIGN.md 2.1): (a) exhaustive TLC model check of the design per path kind, (b) TLC -simulate
behaviour generation -> schedules, executed on real ibctesting chains by harness/packet, (c) TLC trace
validation of the recorded executions with property-scoped monitors (Trace_Packet.tla).
"""
import collections
import glob
import json
import os
import re
import shutil
import threading
import time

import vk

FAMILY = "packet"
SPEC_DIR = os.path.join(vk.SPEC, "packet")
KINDS = ["UNORDERED", "ORDERED", "V2"]
BIG_TP = 2419200  # 14 days in ticks

# property -> (what must have been exercised for the run to count, i.e. vacuity floor)
# each floor is (description, predicate over coverage counter)
PROPS = ["C01", "C02", "C03", "C04", "C05", "C06", "C08", "C09", "C10", "C11", "C12", "C14", "C21", "C44", "C45"]

MC_PROPS = ["AckWriteOnce", "ClosedStaysClosed", "SeqMonotone", "ClosedNoFlow"]


def mc_constants(kind, tier):
    if tier == "quick":
        c = dict(KIND=kind, TP=1000, MaxH=4, MaxT=8, MaxSeq=1, DATA={"ok"}, SENDERS={"A"}, DTS={1}, FREEZE=False,
                 TOH_OFFS={3}, TOT_OFFS={5}, TOS_OFFS={2, 3}, GENESIS=False, SKEW_A=0, SKEW_B=0)
    else:
        c = dict(KIND=kind, TP=1000, MaxH=5, MaxT=9 if kind != "V2" else 11, MaxSeq=1 if kind != "V2" else 2,
                 DATA={"ok"} if kind != "V2" else {"ok", "async"}, SENDERS={"A"}, DTS={1}, FREEZE=False,
                 TOH_OFFS={3}, TOT_OFFS={5}, TOS_OFFS={2, 3}, GENESIS=False, SKEW_A=0, SKEW_B=0)
    return c


# successful actions that the exhaustive run must have taken at least once (vacuity of the model check)
MC_WITNESS = {
    "UNORDERED": ["SendV1", "SendV2", "RecvV1", "RecvV2", "AckV1", "TimeoutV1", "TimeoutOnClose", "CloseInit", "CloseConfirm", "Update"],
    "ORDERED": ["SendV1", "RecvV1", "AckV1", "TimeoutV1", "TimeoutOnClose", "CloseInit", "CloseConfirm", "Update"],
    "V2": ["SendV2", "RecvV2", "AckV2", "TimeoutV2", "Update"],
}


def sched_constants(kind, tier, depth, outdir, tp=BIG_TP, genesis=False, skew=(0, 0)):
    return dict(KIND=kind, TP=tp, MaxH=3 * depth, MaxT=6 * depth, MaxSeq=3 if tier == "quick" else 4,
                DATA={"ok", "fail", "async", "ok2", "fail2", "fail3", "async1", "ok1"}, SENDERS={"A", "B"}, DTS={1, 2}, FREEZE=True,
                TOH_OFFS={3, 6, 12}, TOT_OFFS={4, 9, 20} if tp > 1000 else {4, 9, 20, 90}, TOS_OFFS={2, 4, 9} if tp > 1000 else {2, 4, 9, 45},
                Depth=depth, OutDir=outdir, HONEST_PCT=60, MACRO_PCT=55, EDGE_PCT=30, GENESIS=genesis, SKEW_A=skew[0], SKEW_B=skew[1])


def sizes(tier):
    if tier == "quick":
        return dict(per_kind=16, per_kind_g44=5, per_kind_tp=4, per_kind_sk=3, depth=36, shards=12)
    return dict(per_kind=200, per_kind_g44=40, per_kind_tp=40, per_kind_sk=30, depth=60, shards=16)


SMALL_TP = 30  # trusting period of the expiry schedules, in ticks


def run_mc(tier, result, errors):
    try:
        d = vk.scratch_spec(SPEC_DIR)
        out = {}

        def one(kind):
            cfg = os.path.join(d, "MC_%s.cfg" % kind)
            vk.write_cfg(cfg, "Spec", mc_constants(kind, tier), invariants=["Inv"], properties=MC_PROPS, constraint="Bound")
            r = vk.tlc_mc(d, "MC_Packet", cfg, workers=5, timeout=5400, reuse=True, deps=["IBCPacket", "PacketActions"])
            seen = set(re.findall(r'<<"WITNESS", "([A-Za-z0-9]+)">>', r["out"]))
            missing = [w for w in MC_WITNESS[kind] if w not in seen]
            if missing:
                raise vk.Infra("vacuous model check (%s): never took a successful %s" % (kind, missing))
            return kind, {"distinct": r["distinct"], "generated": r["generated"], "depth": r["depth"], "witnessed_actions": sorted(seen),
                          "tlc_run_in_this_invocation": not r.get("reused", False),
                          "constants": {k: (sorted(v) if isinstance(v, set) else v) for k, v in mc_constants(kind, tier).items()}}
        for kind, r in vk.pmap(one, KINDS, 3):
            out[kind] = r
        result["mc"] = out
        shutil.rmtree(d, ignore_errors=True)
    except Exception as e:  # noqa
        errors.append(e)


def gen_schedules(tier, seed, workdir):
    sz = sizes(tier)
    d = vk.scratch_spec(SPEC_DIR)
    scheds = []

    def one(job):
        kind, genesis = job
        smalltp = genesis == "tp"
        skew = {"skA": (8, 0), "skB": (0, 8)}.get(genesis, (0, 0))
        variant = genesis
        genesis = genesis is True
        tag = kind + ("_g44" if genesis else "_tp" if smalltp else "_" + variant if skew != (0, 0) else "")
        n = sz["per_kind_g44"] if genesis else sz["per_kind_tp"] if smalltp else sz["per_kind_sk"] if skew != (0, 0) else sz["per_kind"]
        outdir = os.path.join(workdir, "sched_" + tag)
        os.makedirs(outdir, exist_ok=True)
        cfg = os.path.join(d, "Sched_%s.cfg" % tag)
        vk.write_cfg(cfg, "Spec", sched_constants(kind, tier, sz["depth"], outdir, genesis=genesis, tp=SMALL_TP if smalltp else BIG_TP, skew=skew))
        vk.tlc_simulate(d, "Sched_Packet", cfg, n, sz["depth"] + 1, seed * 7 + KINDS.index(kind) + (100 if genesis else 200 if smalltp else 300 + skew[0] if skew != (0, 0) else 0), workers=1)
        out = []
        for i, f in enumerate(sorted(glob.glob(os.path.join(outdir, "*.json")))):
            s = json.load(open(f))
            # G44 schedules contain genesis export/import steps; they are judged for C44 only (see attribute())
            s["id"] = "%s%s-%d-%d" % ("G44-" if genesis else "TP-" if smalltp else "SK%d%d-" % skew if skew != (0, 0) else "", kind, seed, i)
            out.append(s)
        return out[:n]
    for lst in vk.pmap(one, [(k, g) for k in KINDS for g in (False, True, "tp", "skA", "skB")], 3):
        scheds.extend(lst)
    shutil.rmtree(d, ignore_errors=True)
    if len(scheds) < 3:
        raise vk.Infra("schedule generation produced only %d schedules" % len(scheds))
    return scheds


def drive(binary, scheds, workdir, tag, nshards, env=None):
    """Execute schedules on the real code; returns list of trace lines (dicts) grouped by (kind, tp)."""
    shards = vk.shard(scheds, nshards)
    env = env or {}

    def one(ix):
        sp = os.path.join(workdir, "%s_sched_%d.ndjson" % (tag, ix))
        tp = os.path.join(workdir, "%s_trace_%d.ndjson" % (tag, ix))
        with open(sp, "w") as f:
            for s in shards[ix]:
                f.write(json.dumps(s) + "\n")
        rc, out = vk.run_driver(binary, "TestDrive", dict({"VERIF_SCHED": sp, "VERIF_TRACE": tp, "VERIF_DET": "1"}, **env))
        if rc != 0:
            raise vk.Infra("driver failed (rc=%d):\n%s" % (rc, out[-3000:]))
        return tp
    files = vk.pmap(one, list(range(len(shards))), len(shards))
    groups = collections.defaultdict(list)
    for f in files:
        for line in open(f):
            if line.strip():
                d = json.loads(line)
                groups[(d["kind"], d["tp"], d.get("ska", 0), d.get("skb", 0))].append(line)
    return groups


def validate(groups, workdir, tag):
    d = vk.scratch_spec(SPEC_DIR)
    fails, steps = [], 0

    def one(item):
        (kind, tp, ska, skb), lines = item
        tf = os.path.join(workdir, "%s_%s_%d_%d%d.ndjson" % (tag, kind, tp, ska, skb))
        with open(tf, "w") as f:
            f.writelines(lines)
        cfg = os.path.join(d, "Trace_%s_%d_%d%d.cfg" % (kind, tp, ska, skb))
        vk.write_cfg(cfg, "TraceSpec", dict(KIND=kind, TP=tp, SKEW_A=ska, SKEW_B=skb, TraceFile=tf))
        fl, consumed, out = vk.tlc_trace(d, "Trace_Packet", cfg)
        if consumed != len(lines):
            raise vk.Infra("trace validation consumed %d of %d lines (%s)\n%s" % (consumed, len(lines), kind, out[-2000:]))
        return fl, len(lines)
    for fl, n in vk.pmap(one, list(groups.items()), 4):
        fails.extend(fl)
        steps += n
    shutil.rmtree(d, ignore_errors=True)
    return fails, steps


def attribute(fails, scheds):
    """Schedules with genesis export/import steps (ids G44-*) decide C44 only: once the module state has been
    re-imported, every divergence from the specification is a failure of the import to preserve protocol state."""
    first = {}
    for s in scheds:
        if s["id"].startswith("G44-") or s["id"].startswith("KF-C44"):
            idx = [i + 1 for i, a in enumerate(s["acts"]) if a["a"] == "ExportImport"]
            first[s["id"]] = idx[0] if idx else 10 ** 9
    out = []
    for tr, step, prop, clause in fails:
        if tr in first and prop not in ("X", "C44") and step >= first[tr]:
            out.append((tr, step, "C44", ("after-import-diverges-from-spec:" if prop == "CONF" else "after-import:%s:" % prop) + clause))
            # in the general exploration (not in the probes of recorded findings) the failure also counts for the
            # property whose monitor fired: a packet delivered twice after an import is still delivered twice
            if not tr.startswith("KF-"):
                out.append((tr, step, prop, clause))
        else:
            out.append((tr, step, prop, clause))
    return out


def determinism(binary, det_scheds, groups, workdir):
    ids = {s["id"] for s in det_scheds}
    groups2 = drive(binary, det_scheds, workdir, "det", min(8, len(det_scheds)), env={"GOMAXPROCS": "1"})
    a_lines = sorted((json.loads(l) for ls in groups.values() for l in ls if json.loads(l)["tr"] in ids), key=lambda d: (d["tr"], d["i"]))
    b_lines = sorted((json.loads(l) for ls in groups2.values() for l in ls), key=lambda d: (d["tr"], d["i"]))
    if len(a_lines) != len(b_lines):
        raise vk.Infra("determinism runs recorded different numbers of steps (%d vs %d)" % (len(a_lines), len(b_lines)))
    fa, fb = os.path.join(workdir, "detA.ndjson"), os.path.join(workdir, "detB.ndjson")
    for path, lines in ((fa, a_lines), (fb, b_lines)):
        with open(path, "w") as f:
            for d in lines:
                d.pop("err", None)
                if "det" not in d:
                    d["det"] = {"apphash": {}, "genesis": {}, "queries": {}}
                f.write(json.dumps(d) + "\n")
    d = vk.scratch_spec(SPEC_DIR)
    cfg = os.path.join(d, "Det.cfg")
    vk.write_cfg(cfg, "TraceSpec", dict(FileA=fa, FileB=fb))
    fl, consumed, out = vk.tlc_trace(d, "Trace_Determinism", cfg)
    shutil.rmtree(d, ignore_errors=True)
    if consumed != len(a_lines):
        raise vk.Infra("determinism comparison consumed %d of %d lines" % (consumed, len(a_lines)))
    return fl, len(a_lines)


def coverage_of(groups):
    """(action, result) counts and per-property distinct nontrivial case signatures."""
    cov = collections.Counter()
    sigs = collections.defaultdict(set)
    for (kind, tp, ska, skb), lines in groups.items():
        for line in lines:
            d = json.loads(line)
            a = d["a"]
            if a["a"] == "Init":
                continue
            cov["%s:%s:%s" % (kind, a["a"], d["res"])] += 1
            for c2 in ("A", "B"):
                cov["%s:status:%s" % (kind, d["st"]["ch"][c2]["status"])] += 1
            pk = a.get("pkt") or {}
            if a["a"] in ("RecvV1", "RecvV2"):
                tags = sorted({("w" if x[-1:].isdigit() else "") + x.rstrip("0123456789") for x in pk.get("data", [])})
                cov["%s:%s:%s:data=%s:n=%d" % (kind, a["a"], d["res"], "+".join(tags), len(pk.get("data", [])))] += 1
            sig = (kind, a["a"], d["res"], pk.get("route"), tuple(pk.get("data", [])), a.get("canon"),
                   tuple(a.get("ack", [])), tuple(a.get("data", [])))
            for p in props_of_action(a["a"]):
                sigs[p].add(sig)
    return cov, {p: len(s) for p, s in sigs.items()}


def props_of_action(name):
    m = {
        "RecvV1": ["C01", "C02", "C05", "C09", "C11", "C14", "C21"], "RecvV2": ["C01", "C05", "C10", "C11", "C21"],
        "AckV1": ["C02", "C03", "C06", "C14", "C21"], "AckV2": ["C03", "C06", "C21"],
        "TimeoutV1": ["C03", "C04", "C14", "C21"], "TimeoutV2": ["C03", "C04", "C21"],
        "TimeoutOnClose": ["C03", "C04", "C12", "C14", "C21"],
        "SendV1": ["C08", "C14", "C21"], "SendV2": ["C08", "C21"],
        "WriteAckV1": ["C11", "C14"], "WriteAckV2": ["C11"],
        "ExportImport": ["C44"], "CloseInit": ["C12", "C21"], "CloseConfirm": ["C12", "C21"], "Update": ["C21"], "Freeze": ["C21"], "Block": [],
    }
    return m.get(name, [])


# vacuity floors: substrings of coverage keys that must have a positive count
FLOORS = {
    "C01": ["RecvV1:ok", "RecvV1:noop", "RecvV2:ok", "RecvV2:noop"],
    "C02": ["ORDERED:RecvV1:ok", "ORDERED:AckV1:ok", "ORDERED:RecvV1:err"],
    "C03": ["AckV1:ok", "AckV1:noop", "TimeoutV1:ok", "AckV2:ok", "TimeoutV2:ok"],
    "C04": ["TimeoutV1:ok", "TimeoutV1:err", "TimeoutV2:ok", "TimeoutV2:err"],
    "C05": ["RecvV1:ok", "RecvV1:err", "RecvV2:ok", "RecvV2:err"],
    "C06": ["AckV1:ok", "AckV1:err", "AckV2:ok", "AckV2:err"],
    "C08": ["SendV1:ok", "SendV1:err", "SendV2:ok", "SendV2:err", "UNORDERED:SendV2:ok"],
    "C09": ["RecvV1:ok:data=wfail", "RecvV1:ok:data=wok", "RecvV1:ok:data=fail", "ORDERED:RecvV1:ok:data=wfail"],
    "C10": ["RecvV2:ok:data=wfail+wok", "RecvV2:ok:data=wok:n=2", "RecvV2:ok:data=wfail:n=1", "RecvV2:err"],
    "C11": ["WriteAckV1:ok", "WriteAckV2:ok", "WriteAckV2:err"],
    "C12": ["CloseInit:ok"],
    "C14": ["ORDERED:TimeoutV1:ok"],
    "C21": ["Freeze:ok", "Update:ok", "Update:err", "status:Expired", "status:Frozen", "status:Active"],
    "C44": ["ORDERED:ExportImport:ok", "V2:ExportImport:ok"],
    "C45": ["DeterminismCompare:steps"],
}


# canonical failing cases of the recorded findings (known_findings.json); executed on every run
PROBES = {
    "KF-C44-1": {"id": "KF-C44-1", "kind": "UNORDERED", "tp": BIG_TP, "ska": 0, "skb": 0, "acts": [
        {"a": "SendV2", "c": "A", "dt": 1, "toT": 40, "data": ["ok"]},
        {"a": "ExportImport", "c": "A", "dt": 1},
        {"a": "SendV2", "c": "A", "dt": 1, "toT": 40, "data": ["ok"]}]},
    "KF-C44-2": {"id": "KF-C44-2", "kind": "V2", "tp": BIG_TP, "ska": 0, "skb": 0, "opt": "sameids", "acts": [
        {"a": "SendV2", "c": "A", "dt": 1, "toT": 40, "data": ["ok"]},
        {"a": "ExportImport", "c": "A", "dt": 1}]},
}


class _Canon:
    """Builder of hand-written canonical schedules (deterministic coverage of every action kind / outcome, so that the
    vacuity floors never depend on the random walks).  It only tracks heights and sequences; TLC judges the run."""

    def __init__(self, sid, kind):
        self.s = {"id": sid, "kind": kind, "tp": BIG_TP, "ska": 0, "skb": 0, "acts": []}
        self.h = {"A": 1, "B": 1}
        self.ns = {"A": 1, "B": 1}
        self.kind = kind

    def _act(self, a, c, **kw):
        self.h[c] += 1
        self.s["acts"].append(dict({"a": a, "c": c, "dt": 1}, **kw))

    def send(self, c, proto, data, toT=300, toH=0):
        seq = self.ns[c]
        if proto == "v1":
            self._act("SendV1", c, toH=toH, toT=toT, data=data)
        else:
            self._act("SendV2", c, toT=toT, data=data)
        self.ns[c] += 1
        return {"proto": proto, "src": c, "seq": seq, "toH": toH if proto == "v1" else 0, "toT": toT, "data": data, "route": "ok"}

    def sync(self, c):
        """block on the counterparty and update c's client to it; returns the proof height"""
        o = "B" if c == "A" else "A"
        self._act("Block", o)
        p = self.h[o]
        self._act("Update", c, p=p)
        return p

    def relay(self, name, c, pkt, ph, **kw):
        self._act(name + ("V1" if pkt["proto"] == "v1" else "V2"), c, pkt=pkt, ph=ph, **kw)


def canon_schedules():
    out = []
    for kind in KINDS:
        v1, v2 = kind != "V2", kind != "ORDERED"
        k = _Canon("CANON-%s" % kind, kind)
        pk = []
        if v1:
            pk += [k.send("A", "v1", [d]) for d in ("ok2", "fail2", "async1")]
        if v2:
            pk += [k.send("A", "v2", d, toT=150) for d in (["ok1", "ok2"], ["ok2", "fail1"], ["fail2"], ["async1"], ["ok"])]
            rejected = [k.send("A", "v2", d, toT=150) for d in (["async1", "fail1"], ["ok1", "async", "fail"], ["ok1", "oksent"], ["oksent"])]
        else:
            rejected = []
        ph = k.sync("B")
        if kind == "ORDERED":
            k.relay("Recv", "B", pk[1], ph)                  # successor first: must be rejected
        for p in pk:
            k.relay("Recv", "B", p, ph)
        for p in rejected:                                   # receives the v2 handler must refuse as a whole
            k.relay("Recv", "B", p, ph)
        k.relay("Recv", "B", pk[0], ph)                      # duplicate relay
        bad = dict(pk[0], data=["fail"] + pk[0]["data"][1:])
        k.relay("Recv", "B", dict(bad, seq=len(pk) + 1), ph)  # forged packet
        for p in pk:
            if p["data"][0].startswith("async"):
                if p["proto"] != "v1":
                    # a rejected asynchronous write, called as a module would (no transaction rollback around it):
                    # the packet must stay acknowledgeable afterwards
                    k._act("WriteAckV2", "B", pkt=p, ack=["ok", "ok"], direct=True)
                k._act("WriteAck" + ("V1" if p["proto"] == "v1" else "V2"), "B", pkt=p, ack=["ok"])
                k._act("WriteAck" + ("V1" if p["proto"] == "v1" else "V2"), "B", pkt=p, ack=["ok"])   # second write must fail
        ph = k.sync("A")
        # forged acknowledgements for the first packet, with the genuine proof: all must be rejected
        first = pk[0]
        if first["proto"] == "v1":
            for bad in (["hashok"], ["err"], ["bad"]):
                k.relay("Ack", "A", first, ph, ack=bad, canon=True)
            k.relay("Ack", "A", first, ph, ack=["ok"], canon=False)
        else:
            k.relay("Ack", "A", first, ph, ack=["ok2", "ok1"], canon=True)      # the honest list reversed
            k.relay("Ack", "A", first, ph, ack=["ok1"], canon=True)             # truncated
            k.relay("Ack", "A", first, ph, ack=["SENTINEL"], canon=True)
        # the genuine acknowledgement and proof, but forged packet fields: must be rejected
        good = (["ok"] if first["proto"] == "v1" else [d if d in ("ok1", "ok2") else "ok" for d in first["data"]])
        k.relay("Ack", "A", dict(first, data=["fail"] + first["data"][1:]), ph, ack=good, canon=True)
        k.relay("Ack", "A", dict(first, toT=first["toT"] + 1), ph, ack=good, canon=True)
        if kind == "ORDERED":
            k.relay("Ack", "A", pk[1], ph, ack=["err"], canon=True)             # successor's ack first: must be rejected
        for p in pk:
            if all(d.startswith("ok") or d.startswith("async") for d in p["data"]):
                ack = ["ok"] if p["proto"] == "v1" else [d if d in ("ok1", "ok2") else "ok" for d in p["data"]]
                if p["data"][0].startswith("async"):
                    ack = ["ok"]
            else:
                ack = ["err"] if p["proto"] == "v1" else ["SENTINEL"]
            k.relay("Ack", "A", p, ph, ack=ack, canon=True)
        k.relay("Ack", "A", pk[0], ph, ack=["ok"], canon=True)   # duplicate ack: no-op
        # a packet that times out: short height timeout (v1) / seconds timeout (v2)
        t = k.send("B", "v1", ["ok"], toT=0, toH=k.h["A"] + 2) if v1 else k.send("B", "v2", ["ok"], toT=(2 + len(k.s["acts"]) + 4) // 2 + 1)
        for _ in range(6):
            k._act("Block", "A")
        ph = k.sync("B")
        k.relay("Timeout", "B", t, ph, nsr=1)
        k.relay("Timeout", "B", t, ph, nsr=1)                 # duplicate timeout: no-op
        k.relay("Recv", "A", t, 0)                            # receive after the timeout: must fail
        if v1 and kind != "ORDERED":
            k._act("CloseInit", "A")
        k._act("Freeze", "A")
        k.send("A", "v1" if v1 else "v2", ["ok"])            # send through a frozen client: must fail
        out.append(k.s)
    # ORDERED: a delivered packet is still unacknowledged when its successor times out and closes the channel:
    # the closed end must refuse the late acknowledgement and any further send
    k = _Canon("CANON-CLOSE-ORDERED", "ORDERED")
    p1 = k.send("A", "v1", ["ok"], toT=300)
    p2 = k.send("A", "v1", ["ok"], toT=0, toH=k.h["B"] + 4)
    ph = k.sync("B")
    k.relay("Recv", "B", p1, ph)
    for _ in range(4):
        k._act("Block", "B")
    ph = k.sync("A")
    k.relay("Timeout", "A", p2, ph, nsr=2)               # closes A's end
    k.relay("Ack", "A", p1, ph, ack=["ok"], canon=True)  # acknowledgement for a closed end: must be rejected
    k.send("A", "v1", ["ok"], toT=300)                   # send on a closed end: must be rejected
    k.relay("Recv", "B", p2, 0)                           # B's end is still open, but the packet has timed out
    out.append(k.s)
    # short trusting period: expiry of a live client, and "frozen stays Frozen" after the trusting period has passed
    for kind in ("UNORDERED", "V2"):
        k = _Canon("CANON-TP-%s" % kind, kind)
        k.s["tp"] = SMALL_TP
        proto = "v1" if kind != "V2" else "v2"
        p = k.send("A", proto, ["ok"], toT=400)
        ph = k.sync("B")
        k._act("Freeze", "B")                              # B's client of A is frozen ...
        k.s["acts"].append({"a": "Block", "c": "B", "dt": SMALL_TP + 2}); k.h["B"] += 1   # ... and then also expires
        k.relay("Recv", "B", p, ph)                        # must be rejected (Frozen, not merely Expired)
        k._act("Update", "B", p=ph)                        # updates through a frozen client fail
        k.s["acts"].append({"a": "Block", "c": "A", "dt": SMALL_TP + 2}); k.h["A"] += 1   # A's client of B expires
        k.send("A", proto, ["ok"], toT=600)                # send through an expired client: must fail
        if kind == "UNORDERED":
            k.send("A", "v2", ["ok"], toT=600)             # the same over the channel's v2 alias
        k._act("Update", "A", p=k.h["B"])                  # an expired client cannot be updated
        out.append(k.s)
    return out


def match_known(fail, sched, known):
    """Is this monitor failure inside the input class of a recorded finding? Decided from the schedule's inputs."""
    tr, step, prop, clause = fail
    for k in known:
        sig = k.get("signature", {})
        if prop == "C44" and sig.get("class") == "export-import-with-channel-alias" and sched and sched.get("kind") == "UNORDERED":
            return k
    return None


def probe_known(pid, known, res):
    lines = []
    for k in known:
        pf = [f for f in res.get("probe_fails", []) if f[0] == k["id"] and f[2] == pid]
        if pf:
            lines.append("KNOWN-FINDING: property=%s %s [%s; monitor %s]" % (pid, k["what"], k["id"], pf[0][3]))
        elif k["id"] in PROBES:
            lines.append("NOTICE: recorded finding %s no longer reproduces (fixed?)" % k["id"])
    return lines


def run_family(tier, seed, binary=None):
    t0 = time.time()
    workdir = os.path.join(vk.CACHE, "work", FAMILY + vk.repo_tag())
    shutil.rmtree(workdir, ignore_errors=True)
    os.makedirs(workdir)
    result, errors = {}, []
    th = threading.Thread(target=run_mc, args=(tier, result, errors))
    th.start()
    if binary is None:
        binary = vk.build_harness("packet")
    scheds = gen_schedules(tier, seed, workdir)
    # schedules inside the input class of a recorded finding are not part of the general exploration
    open_classes = {k.get("signature", {}).get("class") for k in vk.known_findings() if k.get("status", "open") == "open"}
    if "export-import-with-channel-alias" in open_classes:
        scheds = [s for s in scheds if not (s["id"].startswith("G44-") and s["kind"] == "UNORDERED")]
    scheds = canon_schedules() + scheds + [dict(p) for p in PROBES.values()]
    vk.log("generated %d schedules in %.1fs" % (len(scheds), time.time() - t0))
    groups = drive(binary, scheds, workdir, "main", sizes(tier)["shards"])
    vk.log("drove %d schedules (%.1fs)" % (len(scheds), time.time() - t0))
    fails, steps = validate(groups, workdir, "main")
    vk.log("validated %d steps, %d monitor failures (%.1fs)" % (steps, len(fails), time.time() - t0))
    th.join()
    if errors:
        raise errors[0]
    # C45: the same histories in a second, independently started set of processes (GOMAXPROCS=1)
    nd = 12 if tier == "quick" else 80
    det_scheds = [s for s in scheds if s["id"] not in PROBES][:nd]
    dfails, dsteps = determinism(binary, det_scheds, groups, workdir)
    fails.extend(dfails)
    vk.log("determinism: %d steps compared, %d differences (%.1fs)" % (dsteps, len(dfails), time.time() - t0))
    fails = attribute(fails, scheds)
    probe_fails = [f for f in fails if f[0] in PROBES]
    fails = [f for f in fails if f[0] not in PROBES]
    cov, sigs = coverage_of(groups)
    sanity = [f for f in fails if f[2] == "X"]
    if sanity:
        raise vk.Infra("harness sanity monitors failed (infrastructure): %s" % sanity[:5])
    by_id = {s["id"]: s for s in scheds}
    # keep the schedules that failed (for reproduction / replay) and one sample
    failing = {}
    for tr, step, prop, clause in fails:
        failing.setdefault(tr, by_id.get(tr))
    sample = None
    for (kind, tp, ska, skb), lines in sorted(groups.items()):
        first = json.loads(lines[0])["tr"]
        sample = {"schedule_id": first, "kind": kind,
                  "trace_prefix": [slim(json.loads(l)) for l in lines[:8] if json.loads(l)["tr"] == first]}
        break
    cov["ALL:DeterminismCompare:steps"] = dsteps
    sigs["C45"] = len(det_scheds)
    result.update({"tier": tier, "seed": seed, "traces": len(scheds), "steps": steps, "fails": fails,
                   "coverage": dict(cov), "sigs": sigs, "failing_schedules": failing, "sample": sample,
                   "probe_fails": probe_fails,
                   "wall": time.time() - t0})
    return result


def slim(d):
    st = d["st"]
    return {"i": d["i"], "a": d["a"], "res": d["res"],
            "post": {c: {"h": st["ch"][c]["h"], "cur": st["ch"][c]["cur"], "cons": st["ch"][c]["cons"],
                         "status": st["ch"][c]["status"], "log_len": len(st["ch"][c]["log"])} for c in ("A", "B")}}


def replay(schedule, binary=None):
    """Execute one schedule and return its monitor failures."""
    workdir = os.path.join(vk.CACHE, "work", FAMILY + "_replay" + vk.repo_tag())
    shutil.rmtree(workdir, ignore_errors=True)
    os.makedirs(workdir)
    if binary is None:
        binary = vk.build_harness("packet")
    groups = drive(binary, [schedule], workdir, "replay", 1)
    fails, _ = validate(groups, workdir, "replay")
    dfails, _ = determinism(binary, [schedule], groups, workdir)
    return attribute(fails + dfails, [schedule]), groups
