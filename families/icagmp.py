"""icagmp family: ICA.tla / GMP.tla (spec/icagmp) bound to modules/apps/27-interchain-accounts and modules/apps/27-gmp of /repo.

Properties C37 (host executes only authorized, atomic transactions), C38 (one active channel, owner-only sends),
C39 (GMP accounts are uniquely derived and only act for themselves).

Pipeline (FRAMEWORK.md section 1):
 (a) exhaustive TLC model checks MC_ICA / MC_GMP with vacuity witnesses;
 (b) generation by TLC: full enumerations serialised once (Enum_ICA: every message list x allow list for C37, the canonical
     schedule of the recorded C38 findings and the always-run canonical schedules AllowCases / ReopenCases / XConn; Enum_GMP: derivation table, every message list, every send-authorisation case) and
     tlc -simulate random walks with goal-directed macros (Sched_ICA, Sched_GMP);
 (c) harness/icagmp executes every schedule on real ibctesting chains and logs the projected state after every step;
 (d) TLC trace validation (Trace_ICA / Trace_GMP) prints MONFAIL lines; only those decide.
"""
import collections
import glob
import json
import os
import re
import shutil
import threading
import time

import vk

FAMILY = "icagmp"
SPEC_DIR = os.path.join(vk.SPEC, "icagmp")
FUND = 100000
XSS = {"JAVA_TOOL_OPTIONS": (os.environ.get("JAVA_TOOL_OPTIONS", "") + " -Xss512m").strip()}
PROBE_ID = "probe-C38"


def sizes(tier):
    if tier == "quick":
        return dict(ica_kinds=6, ica_allows={"star", "specific", "empty"}, ica_chunks=4, ica_walks=20, ica_depth=48,
                    gmp_kinds=5, gmp_chunks=3, gmp_walks=5, gmp_depth=40, sym_len=2, shards=10, vparts=3, sim_parts=1)
    return dict(ica_kinds=8, ica_allows={"star", "specific", "empty", "starplus", "nearmiss"}, ica_chunks=6, ica_walks=260, ica_depth=70,
                gmp_kinds=7, gmp_chunks=8, gmp_walks=40, gmp_depth=60, sym_len=3, shards=14, vparts=6, sim_parts=4)


def mc_constants(tier):
    if tier == "quick":
        return {"ICA": dict(FUND=3, MaxChans=2, MaxPk=1, MaxEpoch=1, NLists=2, MCOwners={"O1"}, MCAllows=set()),
                "GMP": dict(FUND=2, SeqLen=2, Alphabet={0, 1, 2}, MaxPk=3, MCClients={1}, MCSalts={""})}
    # measured: both owners, allow fixed: 87 598 distinct / 270 528 generated states (5 min 44 s, 3 workers, machine load > 200)
    return {"ICA": dict(FUND=3, MaxChans=2, MaxPk=1, MaxEpoch=1, NLists=3, MCOwners={"O1", "O2"}, MCAllows={"star", "specific"}),
            "GMP": dict(FUND=2, SeqLen=3, Alphabet={0, 1, 2}, MaxPk=3, MCClients={1, 2}, MCSalts={"", "s"})}


MC_SPECS = {
    "ICA": dict(module="MC_ICA", invariants=["Inv"],
                properties=["ActiveReplacedOnlyWhenClosed", "ReopenSame", "AddrStable", "HostStateOnlyByResult", "SendOnlyOnOpenActive"],
                witness=["Register", "OpenInit", "ForeignInit", "Try", "Ack", "Confirm", "CloseConfirm", "SendTx", "Recv", "Timeout", "Wait",
                         "Reopen", "ExecResult", "ExecError", "ClosedByTimeout", "InflightAckBlocked", "HostConfirmBlocked", "StrangerInit",
                         "DuplicateInit", "DefaultVersion"]),
    "GMP": dict(module="MC_GMP", invariants=["Inv"], properties=["MappingStable", "HostStateOnlyByResult"],
                witness=["Send", "Recv", "ExecResult", "ExecError", "FirstUse", "Reuse", "PreimageInjective", "ConcatCollides", "Textbook"]),
}


def _set(v):
    return sorted(v, key=str) if isinstance(v, (set, frozenset)) else v


def run_mc(tier, result, errors):
    try:
        d = vk.scratch_spec(SPEC_DIR)
        consts = mc_constants(tier)

        def one(name):
            sp = MC_SPECS[name]
            cfg = os.path.join(d, "MC_%s.cfg" % name)
            vk.write_cfg(cfg, "Spec", consts[name], invariants=sp["invariants"], properties=sp["properties"], constraint="Bound")
            r = vk.tlc_mc(d, sp["module"], cfg, workers=3, timeout=400 if tier == "quick" else 3000)
            seen = set(re.findall(r'<<"WITNESS", "([A-Za-z0-9]+)">>', r["out"]))
            missing = [w for w in sp["witness"] if w not in seen]
            if missing:
                raise vk.Infra("vacuous model check (%s): no witness for %s" % (name, missing))
            return name, {"distinct": r["distinct"], "generated": r["generated"], "depth": r["depth"], "witnesses": sorted(seen),
                          "constants": {k: _set(v) for k, v in consts[name].items()}}
        out = {}
        for name, r in vk.pmap(one, ["ICA", "GMP"], 2):
            out[name] = r
        result["mc"] = out
        shutil.rmtree(d, ignore_errors=True)
    except Exception as e:  # noqa
        errors.append(e)


# ------------------------------------------------------------------------------------------ generation

def _tlc_plain(d, module, cfg, timeout=600):
    rc, out = vk._tlc(["-workers", "1", "-config", cfg, module + ".tla"], d, timeout, extra_env=XSS)
    if rc != 0 or "No error has been found" not in out:
        raise vk.Infra("generation run of %s failed:\n%s" % (module, out[-3000:]))
    return out


def gen_schedules(tier, seed, workdir):
    sz = sizes(tier)
    d = vk.scratch_spec(SPEC_DIR)

    def enum(module, tag, consts):
        outdir = os.path.join(workdir, "enum_" + tag)
        os.makedirs(outdir, exist_ok=True)
        cfg = os.path.join(d, module + ".cfg")
        vk.write_cfg(cfg, "Spec", dict(consts, FUND=FUND, OutDir=outdir))
        _tlc_plain(d, module, cfg)
        return [(tag, json.load(open(f))) for f in sorted(glob.glob(os.path.join(outdir, "*.json")))]

    def enum_ica():
        return enum("Enum_ICA", "ica-enum", dict(NKinds=sz["ica_kinds"], MaxLen=3, NChunks=sz["ica_chunks"], ENUM_ALLOWS=sz["ica_allows"],
                                                 DupEvery=7, Rot=seed % 2))

    def enum_gmp():
        return enum("Enum_GMP", "gmp-enum", dict(SymLen=sz["sym_len"], Symbols={"1", "x"}, Batch=64, NKinds=sz["gmp_kinds"], MaxLen=3,
                                                 NChunks=sz["gmp_chunks"], DupEvery=6, Rot=seed % 8))

    def sim(module, tag, consts, num, depth, sd):
        outdir = os.path.join(workdir, "sched_" + tag)
        os.makedirs(outdir, exist_ok=True)
        cfg = os.path.join(d, "%s_%s.cfg" % (module, tag))
        consts = dict(consts, FUND=FUND, Depth=depth, OutDir=outdir)
        vk.write_cfg(cfg, "Spec", consts)
        vk.tlc_simulate(d, module, cfg, num, depth + 1, sd, workers=1, timeout=1500)
        out = []
        for f in sorted(glob.glob(os.path.join(outdir, "*.json")))[:num]:
            out.append((tag, json.load(open(f))))
        return out

    jobs = [enum_ica, enum_gmp]
    parts = sz["sim_parts"]
    for part in range(parts):      # several TLC simulators side by side, each with its own seed
        jobs.append(lambda part=part: sim("Sched_ICA", "ica-walk%d" % part, dict(MACRO_PCT=45, HONEST_PCT=30),
                                          (sz["ica_walks"] + parts - 1) // parts, sz["ica_depth"], seed * 101 + 1 + part))
    jobs.append(lambda: sim("Sched_GMP", "gmp-walk", dict(HONEST_PCT=70), sz["gmp_walks"], sz["gmp_depth"], seed * 101 + 50))
    scheds = []
    for lst in vk.pmap(lambda f: f(), jobs, 6):
        for i, (tag, s) in enumerate(lst):
            if s["kind"] == "GMP" and not s["cfg"].startswith("gmp-"):
                s["cfg"] = "gmp-" + s["cfg"]
            s["id"] = PROBE_ID if s["cfg"] == "probe" else "%s-%s-%d-%d" % (tag, s["cfg"], seed, i)
            scheds.append(s)
    shutil.rmtree(d, ignore_errors=True)
    kinds = collections.Counter(s["kind"] for s in scheds)
    if kinds["ICA"] < 3 or kinds["GMP"] < 2 or kinds["DERIVE"] < 1:
        raise vk.Infra("schedule generation produced too little: %s" % dict(kinds))
    return scheds


# ------------------------------------------------------------------------------------------ execution / validation

def drive(binary, scheds, workdir, tag, nshards):
    """Execute schedules on the real code; returns trace lines grouped by kind (ICA | GMP), whole schedules kept together."""
    order = sorted(scheds, key=lambda s: -len(s["acts"]))
    n = max(1, min(nshards, len(order)))
    shards, load = [[] for _ in range(n)], [0] * n
    for s in order:
        i = load.index(min(load))
        shards[i].append(s)
        load[i] += len(s["acts"]) + 60

    def one(ix):
        sp = os.path.join(workdir, "%s_sched_%d.ndjson" % (tag, ix))
        tp = os.path.join(workdir, "%s_trace_%d.ndjson" % (tag, ix))
        with open(sp, "w") as f:
            for s in shards[ix]:
                f.write(json.dumps(s) + "\n")
        rc, out = vk.run_driver(binary, "TestDrive", {"VERIF_SCHED": sp, "VERIF_TRACE": tp}, timeout=3000)
        if rc != 0:
            raise vk.Infra("driver failed (rc=%d):\n%s" % (rc, out[-3000:]))
        return tp
    files = vk.pmap(one, list(range(n)), n)
    traces = collections.OrderedDict()          # trace id -> (kind, [lines])
    for f in files:
        for line in open(f):
            if line.strip():
                dd = json.loads(line)
                k = "ICA" if dd["kind"] == "ICA" else "GMP"
                traces.setdefault(dd["tr"], (k, []))[1].append(line)
    return traces


def validate(traces, workdir, tag, parts):
    d = vk.scratch_spec(SPEC_DIR)
    jobs = []
    for kind in ("ICA", "GMP"):
        ids = [t for t, (k, _) in traces.items() if k == kind]
        if not ids:
            continue
        n = max(1, min(parts if kind == "ICA" else max(1, parts // 2), len(ids)))
        buckets, load = [[] for _ in range(n)], [0] * n
        for t in sorted(ids, key=lambda t: -len(traces[t][1])):
            i = load.index(min(load))
            buckets[i].append(t)
            load[i] += len(traces[t][1])
        for i, b in enumerate(buckets):
            jobs.append((kind, i, b))

    def one(job):
        kind, i, ids = job
        lines = [ln for t in ids for ln in traces[t][1]]
        tf = os.path.join(workdir, "%s_%s_%d.ndjson" % (tag, kind, i))
        with open(tf, "w") as f:
            f.writelines(lines)
        cfg = os.path.join(d, "Trace_%s_%s_%d.cfg" % (kind, tag, i))
        vk.write_cfg(cfg, "TraceSpec", dict(FUND=FUND, TraceFile=tf))
        fl, consumed, out = vk.tlc_trace(d, "Trace_" + kind, cfg, timeout=3000)
        if consumed != len(lines):
            raise vk.Infra("trace validation consumed %d of %d lines (%s)\n%s" % (consumed, len(lines), kind, out[-2000:]))
        return fl, len(lines), collections.Counter(re.findall(r'<<"COVER", "([^"]+)">>', out))
    fails, steps, cover = [], 0, collections.Counter()
    for fl, n, cv in vk.pmap(one, jobs, 4):
        fails.extend(fl)
        steps += n
        cover.update(cv)
    shutil.rmtree(d, ignore_errors=True)
    return fails, steps, cover


PROPS_OF = {"ICA": {"Recv": ["C37"], "SendTx": ["C37", "C38"], "Timeout": ["C38"], "Register": ["C38"], "OpenInit": ["C38"],
                    "InitOnHost": ["C38"], "ForeignInit": ["C38"], "TryOnController": ["C38"], "Try": ["C38"], "Ack": ["C38"],
                    "Confirm": ["C38"], "CloseConfirm": ["C38"], "SetAllow": ["C37"], "Wait": []},
            "GMP": {"Send": ["C39"], "Recv": ["C39"], "Derive": ["C39"]}}


def coverage_of(traces):
    cov = collections.Counter()
    sigs = collections.defaultdict(set)
    evals = collections.Counter()
    for tr, (kind, lines) in traces.items():
        allow = "star"
        for line in lines:
            dd = json.loads(line)
            a = dd["a"]
            if a["a"] == "Init":
                continue
            if a["a"] == "SetAllow":
                allow = a["allow"]
            key = "%s:%s:%s" % ("ica-walk" if dd["cfg"] == "walk" else dd["cfg"], a["a"], dd["res"])
            if a["a"] == "Recv" and dd["res"] == "ok":
                key += ":" + dd["ack"]
            cov[key] += 1
            msgs = tuple((m["k"], m["from"]) for m in a.get("msgs", []))
            if a["a"] == "Derive":
                for t in a["ts"]:
                    sigs["C39"].add(("derive", tuple(t["c"]), tuple(t["s"]), tuple(t["z"])))
                evals["C39"] += len(a["ts"])
                continue
            sig = (kind, a["a"], dd["res"], dd["ack"], msgs, a.get("signer") == a.get("owner", a.get("sender")), a.get("order"), a.get("enc"),
                   a.get("cpport"), a.get("route"), a.get("to"), allow if a["a"] == "Recv" else None)
            for p in PROPS_OF[kind].get(a["a"], []):
                sigs[p].add(sig)
                evals[p] += 1
    return cov, {p: len(s) for p, s in sigs.items()}, dict(evals)


# vacuity floors: substrings of coverage keys that must have a positive count
FLOORS = {
    "C37": ["exec-star:Recv:ok:result", "exec-star:Recv:ok:error", "exec-specific:Recv:ok:result", "exec-specific:Recv:ok:error",
            "exec-empty:Recv:ok:error", "exec-star:Recv:noop", "ica-walk:Recv:ok:",
            # canonical schedules: allow-list boundary cases, crossed connection identifiers (one owner on two connections)
            "allowcases:Recv:ok:error", "allowcases:Recv:ok:result", "xconn:Recv:ok:result", "xconn:Recv:ok:error"],
    "C38": ["Register:ok", "Register:err", "OpenInit:ok", "OpenInit:err", "Ack:ok", "Ack:err", "Confirm:ok", "Timeout:ok", "SendTx:ok", "SendTx:err",
            "InitOnHost:err", "TryOnController:err", "CloseConfirm:ok", "ica-walk:Ack:ok", "ica-walk:Timeout:ok",
            "cover:reopen-completed", "cover:reopen-with-different-ordering-or-metadata-rejected", "cover:class-inflight-ack",
            "cover:class-host-confirm-overwrite", "cover:init-by-stranger-accepted", "cover:sendtx-by-stranger-rejected",
            "cover:ordered-channel-closed-by-timeout", "cover:ack-while-active-open-rejected",
            # canonical re-opening schedules (every mismatching initialisation incl. the empty version string), crossed world
            "reopen:Register:err", "reopen:OpenInit:err", "reopen:Ack:ok", "xconn:Ack:ok", "xconn:Register:err",
            "cover:reopen-with-empty-version-after-non-default-metadata-rejected"],
    "C39": ["gmp-exec:Recv:ok:result", "gmp-exec:Recv:ok:error", "gmp-exec:Recv:noop", "gmp-auth:Send:ok", "gmp-auth:Send:err",
            "gmp-walk:Recv:ok:", "derive:Derive:ok"],
}


_BINARY = {}


def _binary():
    """The harness is built once per process (replays re-use it)."""
    if vk.REPO not in _BINARY:
        _BINARY[vk.REPO] = vk.build_harness("icagmp")
    return _BINARY[vk.REPO]


def run_family(tier, seed, binary=None):
    t0 = time.time()
    workdir = os.path.join(vk.CACHE, "work", FAMILY + vk.repo_tag())
    shutil.rmtree(workdir, ignore_errors=True)
    os.makedirs(workdir)
    result, errors = {}, []
    th = threading.Thread(target=run_mc, args=(tier, result, errors))
    th.start()
    if binary is None:
        binary = _binary()
    scheds = gen_schedules(tier, seed, workdir)
    vk.log("generated %d schedules, %d steps (%.1fs)" % (len(scheds), sum(len(s["acts"]) for s in scheds), time.time() - t0))
    sz = sizes(tier)
    traces = drive(binary, scheds, workdir, "main", sz["shards"])
    vk.log("drove %d schedules (%.1fs)" % (len(scheds), time.time() - t0))
    fails, steps, cover = validate(traces, workdir, "main", sz["vparts"])
    vk.log("validated %d steps, %d monitor lines (%.1fs)" % (steps, len(fails), time.time() - t0))
    th.join()
    if errors:
        raise errors[0]
    sanity = [f for f in fails if f[2] == "X"]
    if sanity:
        raise vk.Infra("harness sanity monitors failed (infrastructure): %s" % sanity[:5])
    conf = [f for f in fails if f[2] == "CONF"]
    fails = [f for f in fails if f[2] not in ("CONF", "X")]
    cov, sigs, evals = coverage_of(traces)
    for k, v in cover.items():
        cov["cover:" + k] = v
    by_id = {s["id"]: s for s in scheds}
    failing = {}
    for tr, step, prop, clause in fails:
        failing.setdefault(tr, by_id.get(tr))
    samples = {}
    for p, pick in (("C37", "exec-specific"), ("C38", "tour"), ("C39", "gmp-exec")):
        for tr, (kind, lines) in traces.items():
            first = json.loads(lines[0])
            if first["cfg"] == pick:
                samples[p] = {"schedule_id": tr, "trace_prefix": [slim(json.loads(l)) for l in lines[9:17] or lines[:8]]}
                break
    result.update({"tier": tier, "seed": seed, "traces": len(scheds), "steps": steps, "fails": fails,
                   "coverage": dict(cov), "sigs": sigs, "evals": evals, "failing_schedules": failing, "samples": samples,
                   "sample": samples.get("C38"), "conformance_divergences": {"count": len(conf), "first": conf[:10]},
                   "wall": time.time() - t0})
    return result


def slim(d):
    st = d["st"]
    post = {}
    if d["kind"] == "ICA":
        post = {"A.active": st["A"]["active"], "B.active": st["B"]["active"], "A.chans": [(c["st"], c["order"], c["enc"]) for c in st["A"]["chans"]],
                "bal": st["bal"], "del": st["del"]}
    elif d["kind"] == "GMP":
        post = {"stored": {k: v for k, v in st["stored"].items() if v}, "bal": {k: v for k, v in st["bal"].items() if v != FUND}}
    return {"i": d["i"], "a": d["a"], "res": d["res"], "ack": d["ack"], "diff": d["diff"], "post": post}


def replay(schedule, binary=None):
    """Execute one schedule and return its monitor failures."""
    workdir = os.path.join(vk.CACHE, "work", FAMILY + "_replay" + vk.repo_tag())
    shutil.rmtree(workdir, ignore_errors=True)
    os.makedirs(workdir)
    if binary is None:
        binary = _binary()
    traces = drive(binary, [schedule], workdir, "replay", 1)
    fails, _, _ = validate(traces, workdir, "replay", 1)
    return [f for f in fails if f[2] not in ("CONF", "X")], traces


# ------------------------------------------------------------------------------------------ known findings

def _class_of(clause):
    return clause.split("@KF:", 1)[1] if "@KF:" in clause else None


def match_known(fail, schedule, known):
    """A monitor failure lies inside a recorded finding iff TLC tagged its clause with the finding's input class (decided by
    Trace_ICA from the step's action, pre-state and the creation history of the channel: inputs only, never from the outcome)."""
    cls = _class_of(fail[3])
    if cls is None:
        return None
    for k in known:
        if k.get("family", FAMILY) == FAMILY and k.get("signature", {}).get("class") == cls and k.get("property") == fail[2]:
            return k
    return None


def probe_known(pid, known, result):
    """The canonical schedule of the recorded C38 findings (Enum_ICA!Probe) is part of every family run (trace id probe-C38)."""
    lines = []
    probe_fails = [f for f in result.get("fails", []) if f[0] == PROBE_ID and f[2] == pid]
    ran = any(k.startswith("probe:") for k in result.get("coverage", {}))
    for k in known:
        if k.get("family", FAMILY) != FAMILY:
            continue
        cls = k.get("signature", {}).get("class")
        hit = sorted({f[3].split("@KF:")[0] for f in probe_fails if _class_of(f[3]) == cls})
        if hit:
            lines.append("KNOWN-FINDING: property=%s id=%s class=%s still reproduces on the canonical schedule (%s): %s" % (
                pid, k.get("id"), cls, ", ".join(hit), k.get("what", "")))
        elif ran:
            lines.append("NOTICE: known finding %s (property=%s class=%s) no longer reproduces on the canonical schedule" % (k.get("id"), pid, cls))
    return lines


# ------------------------------------------------------------------------------------------ evidence

RULES = {
    "C37": "one evaluation = one transaction (MsgSendTx / MsgRecvPacket / parameter change) executed on the real controller and host chains and judged "
           "by TLC; every message list of length 1..3 over the message kinds x every allow list is enumerated completely by TLC (Enum_ICA); "
           "distinct_nontrivial = distinct (action, result class, ack kind, message list, allow list, timeout class) signatures",
    "C38": "one evaluation = one transaction of a TLC-generated history (registrations, direct channel-open messages by owners and strangers, "
           "handshake relays incl. stale/duplicate/crossing ones, sends by arbitrary signers, timeouts, re-openings) executed on real chains and judged by "
           "TLC; distinct_nontrivial = distinct (action, parameters, signer-is-owner, result class) signatures",
    "C39": "one evaluation = one GMP transaction (MsgSendCall / MsgSendPacket / MsgRecvPacket) on real chains or one evaluation of the real derivation "
           "function on an instantiated triple, judged by TLC; derivation table, message lists 0..3 and send-authorisation cases are enumerated "
           "completely; distinct_nontrivial = distinct triples + distinct (action, route, sender-is-signer, message list, result, ack) signatures",
}


def evidence(pid, res):
    mc = res.get("mc", {})
    which = "GMP" if pid == "C39" else "ICA"
    m = mc.get(which, {})
    cov = res.get("coverage", {})
    return {
        "states": int(m.get("distinct", 0)),
        "transitions": int(m.get("generated", 0)),
        "traces_validated_against_impl": int(res.get("traces", 0)),
        "samples": [res.get("samples", {}).get(pid) or res.get("sample")],
        "evaluations": int(res.get("evals", {}).get(pid, 0)),
        "distinct_nontrivial": int(res.get("sigs", {}).get(pid, 0)),
        "rule": RULES[pid],
        "model_check": {which: m},
        "coverage_by_action": {k: v for k, v in sorted(cov.items())
                               if (k.startswith(("gmp-", "derive")) if pid == "C39" else not k.startswith(("gmp-", "derive")))},
        "exhaustive": False,
        "exhaustive_parts": "message lists x allow lists (C37), derivation triples / message lists / send cases (C39) are complete enumerations "
                            "within the stated bounds; histories (C38) are sampled",
        "steps_total_family": int(res.get("steps", 0)),
        "conformance_divergences": res.get("conformance_divergences", {}),
    }
