------------------------------ MODULE RLDenom ------------------------------
(***************************************************************************)
(* Function specification for C42: which denomination (and channel) does   *)
(* ICS-20 move for a packet, and which denomination does the rate limiter  *)
(* derive for the same packet.                                             *)
(*                                                                         *)
(* A bank denomination is a string: a raw name ("uatom", "gamm/pool/1")    *)
(* or "ibc:" followed by the hashed denomination path (the hash is         *)
(* abstracted by its pre-image, i.e. injective).  A denomination path is a *)
(* sequence of "/"-separated segments.                                     *)
(*                                                                         *)
(*   Extract      transcribes  transfer/types.ExtractDenomFromPath         *)
(*   BankSend / BankRecv       transfer/keeper/relay.go (what bank moves)  *)
(*   RLSend / RLRecv           rate-limiting/keeper/packet.go              *)
(*                             ParseDenomFromSendPacket / RecvPacket       *)
(*                                                                         *)
(* A JOURNEY moves one token of a given native base along a route of       *)
(* channel hops; the state of a journey is the coin the holder has (with   *)
(* the trace/base structure ICS-20 stored for it) and what the escrow      *)
(* accounts hold.                                                          *)
(***************************************************************************)
EXTENDS Integers, Sequences, FiniteSets, TLC

(***************************************************************************)
(* Alphabet.  Real channel identifiers come from the topology record       *)
(*    topo[link][chain] = channel (or client) identifier of that end.      *)
(***************************************************************************)
FakeIds   == {"pooltoken-1", "pooltoken-2", "channel-77", "channel-5", "07-tendermint-9"}
ShortPort == {"l"}                       \* segments that are not valid port identifiers (shorter than 2)

BaseNames == {"plain", "pool3", "lp3", "vouchershape", "two-id", "two-plain", "even-id", "lp5", "shortport", "single-id"}
BaseSegs(b) ==
    CASE b = "plain"        -> <<"uplain">>
      [] b = "pool3"        -> <<"gamm", "pool", "1">>
      [] b = "lp3"          -> <<"lp", "pooltoken-1", "share">>
      [] b = "vouchershape" -> <<"transfer", "channel-77", "ufake">>
      [] b = "two-id"       -> <<"foo", "channel-5">>
      [] b = "two-plain"    -> <<"foo", "bar">>
      [] b = "even-id"      -> <<"aa", "bb", "pooltoken-1", "cc">>
      [] b = "lp5"          -> <<"x1", "pooltoken-1", "x2", "pooltoken-2", "share">>
      [] b = "shortport"    -> <<"l", "07-tendermint-9", "share">>
      [] b = "single-id"    -> <<"pooltoken-1">>

Links == {"AB", "AB2", "BC"}
EndsOf(L) == IF L = "BC" THEN <<"B", "C">> ELSE <<"A", "B">>
Other(L, c) == IF EndsOf(L)[1] = c THEN EndsOf(L)[2] ELSE EndsOf(L)[1]

ChanIds(topo) == UNION { { topo[L][EndsOf(L)[1]], topo[L][EndsOf(L)[2]] } : L \in Links }
IsId(topo, s) == s \in FakeIds \/ s \in ChanIds(topo)

RECURSIVE Join(_)
Join(segs) == IF Len(segs) = 0 THEN "" ELSE IF Len(segs) = 1 THEN segs[1] ELSE segs[1] \o "/" \o Join(Tail(segs))

(***************************************************************************)
(* ExtractDenomFromPath(fullPath): pairs (port, id) are taken from the     *)
(* front while the second element looks like a channel / client id.        *)
(***************************************************************************)
RECURSIVE ExtractFrom(_, _, _, _)
ExtractFrom(topo, segs, i, trace) ==      \* i is 1-based index of the next pair
    IF i > Len(segs) THEN [trace |-> trace, base |-> <<>>]
    ELSE IF i < Len(segs) /\ Len(segs) > 2 /\ IsId(topo, segs[i + 1])
         THEN ExtractFrom(topo, segs, i + 2, Append(trace, <<segs[i], segs[i + 1]>>))
         ELSE [trace |-> trace, base |-> SubSeq(segs, i, Len(segs))]

Extract(topo, segs) == IF Len(segs) = 1 THEN [trace |-> <<>>, base |-> segs] ELSE ExtractFrom(topo, segs, 1, <<>>)

RECURSIVE Flat(_)
Flat(trace) == IF Len(trace) = 0 THEN <<>> ELSE <<trace[1][1], trace[1][2]>> \o Flat(Tail(trace))

\* Denom.Path(): every hop is followed by "/", then the base (an empty base leaves a trailing "/")
PathStr(d) == IF Len(d.trace) = 0 THEN Join(d.base) ELSE Join(Flat(d.trace)) \o "/" \o Join(d.base)
\* Denom.IBCDenom()
IBCDenom(d) == IF Len(d.trace) = 0 THEN Join(d.base) ELSE "ibc:" \o PathStr(d)
\* the path segments a denomination puts into a packet
PathSegs(d) == Flat(d.trace) \o d.base

HasPrefix(d, port, chan) == Len(d.trace) >= 1 /\ d.trace[1] = <<port, chan>>

\* Denom.Validate(): non-blank base, valid hop identifiers
ValidDenom(d) == /\ Len(d.base) >= 1
                 /\ \A i \in DOMAIN d.trace : d.trace[i][1] \notin ShortPort

Port == "transfer"

(***************************************************************************)
(* ICS-20.  A holding is [coin |-> bank denomination, den |-> structure].  *)
(***************************************************************************)
NativeHolding(segs) == [coin |-> Join(segs), den |-> [trace |-> <<>>, base |-> segs]]

\* MsgTransfer of holding h over the channel `chan`: [ok, pkt (path segments), coin debited, burn]
BankSend(topo, h, chan) ==
    LET \* packet data validation parses the path string again
        parsed == Extract(topo, PathSegs(h.den))
    IN [ok |-> ValidDenom(parsed), pkt |-> PathSegs(h.den), coin |-> h.coin, burn |-> HasPrefix(h.den, Port, chan)]

\* OnRecvPacket of path segments `pkt` sent over (srcChan) and received over (dstChan);
\* escrowed = coins the escrow account of dstChan holds
BankRecv(topo, pkt, srcChan, dstChan, escrowed) ==
    LET d == Extract(topo, pkt) IN
    IF ~ValidDenom(d) THEN [ok |-> FALSE, coin |-> "", den |-> d, unescrow |-> FALSE]
    ELSE IF HasPrefix(d, Port, srcChan)
         THEN LET r == [trace |-> Tail(d.trace), base |-> d.base] IN
              [ok |-> IBCDenom(r) \in escrowed, coin |-> IBCDenom(r), den |-> r, unescrow |-> TRUE]
         ELSE LET v == [trace |-> <<<<Port, dstChan>>>> \o d.trace, base |-> d.base] IN
              [ok |-> TRUE, coin |-> IBCDenom(v), den |-> v, unescrow |-> FALSE]

(***************************************************************************)
(* Rate limiter (keeper/packet.go)                                         *)
(***************************************************************************)
RLSend(topo, pkt) == IBCDenom(Extract(topo, pkt))

StartsWith(pkt, port, chan) == Len(pkt) >= 3 /\ pkt[1] = port /\ pkt[2] = chan
RLRecv(topo, pkt, srcChan, dstChan) ==
    IF StartsWith(pkt, Port, srcChan) THEN IBCDenom(Extract(topo, SubSeq(pkt, 3, Len(pkt))))
    ELSE IBCDenom(Extract(topo, <<Port, dstChan>> \o pkt))

(***************************************************************************)
(* Journeys: a route is a sequence of hops [L, from].                      *)
(***************************************************************************)
\* a hop is [L, from, m]; m = "ok", "badrcv" (the receiver address is invalid: the receive ends in an error
\* acknowledgement) or "overdraw" (the sender asks for more than it holds: the transfer is rejected)
RouteNames == {"ab", "ab-ba", "ab-ba2", "ab-bc", "ab-bc-cb", "ab-bc-cb-ba", "ab-ba2-ab2", "b:bc-cb", "b:ba-ab2",
               "ab-badrcv", "ab-overdraw", "ab-ba-badrcv"}
H(L, from) == [L |-> L, from |-> from, m |-> "ok"]
HM(L, from, m) == [L |-> L, from |-> from, m |-> m]
RouteOf(r) ==
    CASE r = "ab"          -> << H("AB", "A") >>
      [] r = "ab-ba"       -> << H("AB", "A"), H("AB", "B") >>
      [] r = "ab-ba2"      -> << H("AB", "A"), H("AB2", "B") >>
      [] r = "ab-bc"       -> << H("AB", "A"), H("BC", "B") >>
      [] r = "ab-bc-cb"    -> << H("AB", "A"), H("BC", "B"), H("BC", "C") >>
      [] r = "ab-bc-cb-ba" -> << H("AB", "A"), H("BC", "B"), H("BC", "C"), H("AB", "B") >>
      [] r = "ab-ba2-ab2"  -> << H("AB", "A"), H("AB2", "B"), H("AB2", "A") >>
      [] r = "b:bc-cb"     -> << H("BC", "B"), H("BC", "C") >>
      [] r = "b:ba-ab2"    -> << H("AB", "B"), H("AB2", "A") >>
      [] r = "ab-badrcv"   -> << HM("AB", "A", "badrcv") >>
      [] r = "ab-overdraw" -> << HM("AB", "A", "overdraw") >>
      [] r = "ab-ba-badrcv" -> << H("AB", "A"), HM("AB", "B", "badrcv") >>
Origin(r) == RouteOf(r)[1].from

\* journey state: the holding and the escrowed coins per channel end "L@c"
JInit(base) == [h |-> NativeHolding(BaseSegs(base)), esc |-> [e \in {} |-> {}], alive |-> TRUE]
EscOf(J, e) == IF e \in DOMAIN J.esc THEN J.esc[e] ELSE {}
End(L, c) == L \o "@" \o c

\* one hop: expected observations and the next journey state
HopResult(topo, J, hop) ==
    LET src == hop.from  dst == Other(hop.L, src)
        sc == topo[hop.L][src]  dc == topo[hop.L][dst]
        s0 == BankSend(topo, J.h, sc)
        s  == [s0 EXCEPT !.ok = @ /\ hop.m # "overdraw"]
        r0 == BankRecv(topo, s.pkt, sc, dc, EscOf(J, End(hop.L, dst)))
        r  == [r0 EXCEPT !.ok = @ /\ hop.m # "badrcv"]
        escAfterSend == IF s.burn THEN J.esc
                        ELSE [e \in (DOMAIN J.esc) \cup {End(hop.L, src)} |-> IF e = End(hop.L, src) THEN EscOf(J, e) \cup {s.coin} ELSE J.esc[e]]
    IN [sendOk |-> s.ok, sendCoin |-> s.coin, sendChan |-> sc, rlSend |-> RLSend(topo, s.pkt),
        recvOk |-> s.ok /\ r.ok, recvCoin |-> r.coin, recvChan |-> dc, rlRecv |-> RLRecv(topo, s.pkt, sc, dc),
        pkt |-> Join(s.pkt),
        next |-> IF s.ok /\ r.ok THEN [h |-> [coin |-> r.coin, den |-> r.den], esc |-> escAfterSend, alive |-> TRUE]
                 ELSE [J EXCEPT !.alive = FALSE]]

RECURSIVE JAfter(_, _, _, _)
JAfter(topo, base, route, n) == IF n = 0 THEN JInit(base) ELSE HopResult(topo, JAfter(topo, base, route, n - 1), route[n]).next

\* the input class of known finding KF-C42-1 (decided from the base denomination alone): the second segment of
\* the native base denomination looks like a channel / client identifier
InKFClass(base) == LET s == BaseSegs(base) IN Len(s) >= 2 /\ s[2] \in FakeIds

SampleTopo == [AB |-> [A |-> "channel-0", B |-> "channel-1"], AB2 |-> [A |-> "channel-2", B |-> "channel-3"],
               BC |-> [B |-> "channel-4", C |-> "channel-6"]]
=============================================================================
