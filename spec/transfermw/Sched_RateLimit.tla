--------------------------- MODULE Sched_RateLimit ---------------------------
(***************************************************************************)
(* Behaviour generation for C41 (DESIGN.md 2.1b): random walks of          *)
(* RateLimit run with  tlc -simulate ; every walk is written as one JSON   *)
(* schedule and executed on the real chains.  A step is either drawn from  *)
(* weighted action classes or taken from a goal-directed MACRO whose items *)
(* are resolved against the current state:                                 *)
(*   - a flow exactly AT the quota, then one unit above it                 *)
(*   - a block exactly AT the end of the hour epoch, then one tick later   *)
(*   - an administrative change of a path between a send / async receive   *)
(*     and its refund (Update, Remove+Add, Reset)                          *)
(*   - QUOTA ARITHMETIC: the supply of the voucher is moved to a value     *)
(*     whose  value * percent / 100  has a chosen fractional part (zero,   *)
(*     below one half, exactly one half with an even / odd integer part,   *)
(*     above one half), a window is started there, then flows exactly at   *)
(*     the truncated threshold and exactly one unit above it, in both      *)
(*     directions and for forwarded packets                                *)
(*   - WHITELISTED address pairs: a counted transfer and a whitelisted one *)
(*     that fails in the same window (send, receive with async ack), a     *)
(*     whitelisted transfer beyond the quota, removal from the whitelist,  *)
(*     pairs that only share the sender or are reversed                    *)
(*   - BLACKLISTED denominations: refused transfers, the refund of a       *)
(*     counted packet while its denomination is blacklisted                *)
(*   - a packet sent while its path had no limit, refunded after the limit *)
(*     was added                                                           *)
(* EXCL_KF = TRUE removes exactly the input class of known finding         *)
(* KF-C41-1 (the undo of a packet whose pending marker survived an         *)
(* UpdateRateLimit / RemoveRateLimit of its path) from the walks.          *)
(***************************************************************************)
EXTENDS RLActions, Json

CONSTANTS Depth, OutDir, EXCL_KF, MACRO_PCT,
          QPCTS,                            \* percentages of the quota-arithmetic macros
          SUPN, SUPV, NS_AB, NS_AC, NR      \* state of the real chains after set-up

VARIABLES S, sched, todo, stale

vars == <<S, sched, todo, stale>>

Init0 == [InitState(SUPN, SUPV, NS_AB, NS_AC, NR) EXCEPT !.ep = [num |-> 1, start |-> 0]]

PickOne(X) == RandomElement(X)

AddFor(p, qs, qr, dur) == [a |-> "Add", dt |-> 1, d |-> PathD(p), ch |-> PathCh(p), qs |-> qs, qr |-> qr, dur |-> dur]

Init == /\ S = Init0 /\ sched = <<>> /\ stale = {}
        /\ \E p \in {PickOne({"N/AB", "V/AB"})} : \E qs \in {PickOne(QSS \ {0})} : \E qr \in {PickOne(QRS \ {0})} : \E du \in {PickOne(DURS)} :
           \E q \in {PickOne(PATHS)} : \E qs2 \in {PickOne(QSS \ {0})} : \E qr2 \in {PickOne(QRS)} : \E du2 \in {PickOne(DURS)} :
              todo = <<AddFor(p, qs, qr, du), AddFor(q, qs2, qr2, du2)>>

(***************************************************************************)
(* Items of a macro, resolved when they are executed                       *)
(***************************************************************************)
Room(T, p, dir) == LET r == T.rl[p] IN
    IF dir = "out" THEN Threshold(r.cv, r.qs) - (r.outflow - r.inflow)
                   ELSE Threshold(r.cv, r.qr) - (r.inflow - r.outflow)

Clamp(x) == IF x < 1 THEN 1 ELSE IF x > 900 THEN 900 ELSE x

MinSeq(X) == CHOOSE x \in X : \A y \in X : x.seq <= y.seq
MaxSeq(X) == CHOOSE x \in X : \A y \in X : x.seq >= y.seq

RelayOf(P, dt) == IF P.dir = "out" THEN (IF P.fate = "to" THEN [a |-> "Timeout", dt |-> dt, pkt |-> P] ELSE [a |-> "Ack", dt |-> dt, pkt |-> P])
                  ELSE [a |-> "Resolve", dt |-> dt, pkt |-> P]

OnPath(T, p) == { P \in T.pk : PathOf(P.d, P.ch) = p }

BlockOf(dt) == [a |-> "Block", dt |-> IF dt < 1 THEN 1 ELSE dt]

\* fractional part of  cv * pct / 100  (what a rounding threshold would get wrong)
FracClass(cv, pct) == LET n == cv * pct  r == (cv * pct) % 100  q == (cv * pct) \div 100 IN
    IF r = 0 THEN "zero" ELSE IF r < 50 THEN "lt" ELSE IF r > 50 THEN "gt" ELSE IF q % 2 = 0 THEN "halfe" ELSE "halfo"
\* smallest amount of the voucher to receive so that the supply gets the wanted class (1 if there is none)
ShiftFor(sup, pct, cls) == LET X == { x \in 1..200 : FracClass(sup + x, pct) = cls } IN
    IF X = {} THEN 1 ELSE CHOOSE x \in X : \A y \in X : x <= y

ResolveItem(T, it) ==
    IF "a" \in DOMAIN it THEN it
    ELSE LET T1 == Pre(T, BlockOf(1)) IN
      CASE it.m = "edgeSend" -> [a |-> "Send", dt |-> 1, d |-> PathD(it.p), ch |-> PathCh(it.p),
                                  amt |-> Clamp(Room(T1, it.p, "out") + it.k), fate |-> it.fate]
        [] it.m = "edgeRecv" -> [a |-> "Recv", dt |-> 1, d |-> PathD(it.p), ch |-> "AB",
                                  amt |-> Clamp(Room(T1, it.p, "in") + it.k), fate |-> it.fate]
        [] it.m = "finishOldest" -> IF OnPath(T, it.p) = {} THEN BlockOf(1) ELSE RelayOf(MinSeq(OnPath(T, it.p)), it.dt)
        [] it.m = "finishNewest" -> IF OnPath(T, it.p) = {} THEN BlockOf(1) ELSE RelayOf(MaxSeq(OnPath(T, it.p)), it.dt)
        [] it.m = "finishAtEpochEnd" -> IF OnPath(T, it.p) = {} THEN BlockOf(1)
                                        ELSE RelayOf(MaxSeq(OnPath(T, it.p)), IF T.ep.start + HOUR - T.now + it.k < 1 THEN 1 ELSE T.ep.start + HOUR - T.now + it.k)
        [] it.m = "toEpochEnd" -> BlockOf(T.ep.start + HOUR - T.now + it.k)
        [] it.m = "rmIfOn" -> IF T.rl[it.p].on THEN [a |-> "Remove", dt |-> 1, d |-> PathD(it.p), ch |-> PathCh(it.p)] ELSE BlockOf(1)
        [] it.m = "supTo" -> [a |-> "Recv", dt |-> 1, d |-> "V", ch |-> "AB", amt |-> ShiftFor(T1.sup["V"], it.pct, it.cls), fate |-> "ok"]
        [] it.m = "edgeFwd" -> [a |-> "Recv", dt |-> 1, d |-> PathD(it.p), ch |-> "AB",
                                 amt |-> Clamp(Room(T1, it.p, "out") + it.k), fate |-> it.fate]

(***************************************************************************)
(* Macros                                                                  *)
(***************************************************************************)
Snd(p, amt, fate) == [a |-> "Send", dt |-> 1, d |-> PathD(p), ch |-> PathCh(p), amt |-> amt, fate |-> fate]
Rcv(p, amt, fate) == [a |-> "Recv", dt |-> 1, d |-> PathD(p), ch |-> "AB", amt |-> amt, fate |-> fate]
Adm(name, p)      == [a |-> name, dt |-> 1, d |-> PathD(p), ch |-> PathCh(p)]
Upd(p, qs, qr, du) == [a |-> "Update", dt |-> 1, d |-> PathD(p), ch |-> PathCh(p), qs |-> qs, qr |-> qr, dur |-> du]

SndW(p, amt, fate, w) == [a |-> "Send", dt |-> 1, d |-> PathD(p), ch |-> PathCh(p), amt |-> amt, fate |-> fate, w |-> w]
RcvW(p, amt, fate, w) == [a |-> "Recv", dt |-> 1, d |-> PathD(p), ch |-> "AB", amt |-> amt, fate |-> fate, w |-> w]
Wl(name, pair)    == [a |-> name, dt |-> 1, pair |-> pair]
Bl(name, d)       == [a |-> name, dt |-> 1, d |-> d]
EdgeS(p, k, fate) == [m |-> "edgeSend", p |-> p, k |-> k, fate |-> fate]
EdgeR(p, k, fate) == [m |-> "edgeRecv", p |-> p, k |-> k, fate |-> fate]
Fin(which, p)     == [m |-> which, p |-> p, dt |-> 1]

ABPaths == PATHS \cap {"N/AB", "V/AB"}

(***************************************************************************)
(* Quota arithmetic: every class of remainder, flows at / one above the    *)
(* truncated threshold (send, receive, forwarded)                          *)
(***************************************************************************)
FracClasses == <<"gt", "gt", "gt", "halfo", "halfo", "halfe", "lt", "zero">>

QuotaMacros(T) ==
    UNION { UNION { UNION {
        { << [m |-> "rmIfOn", p |-> "V/AB"], [m |-> "supTo", pct |-> pc, cls |-> cl], AddFor("V/AB", pc, pc, du),
             EdgeS("V/AB", 0, f), EdgeS("V/AB", 1, "ok"), EdgeR("V/AB", 0, "ok"), EdgeR("V/AB", 1, "ok") >>,
          << [m |-> "rmIfOn", p |-> "V/AB"], [m |-> "supTo", pct |-> pc, cls |-> cl], AddFor("V/AB", pc, pc, du),
             EdgeS("V/AB", 1, "ok"), EdgeR("V/AB", 1, "ok"), EdgeR("V/AB", 0, "ok"), EdgeS("V/AB", 1, "ok"), EdgeS("V/AB", 0, f) >>,
          << [m |-> "rmIfOn", p |-> "V/AC"], [m |-> "rmIfOn", p |-> "V/AB"], [m |-> "supTo", pct |-> pc, cls |-> cl],
             AddFor("V/AC", pc, pc, du), [m |-> "edgeFwd", p |-> "V/AC", k |-> 1, fate |-> "fok"],
             [m |-> "edgeFwd", p |-> "V/AC", k |-> 0, fate |-> PickOne({"fok", "ferr", "fto"})],
             [m |-> "edgeFwd", p |-> "V/AC", k |-> 1, fate |-> "fok"], Fin("finishNewest", "V/AB") >> }
      : f \in {PickOne({"ok", "err", "to"})} } : du \in {PickOne(DURS)} }
      : pc \in {PickOne(QPCTS)}, cl \in {FracClasses[PickOne(1..Len(FracClasses))]} }

(***************************************************************************)
(* Whitelisted address pairs, blacklisted denominations, packets sent      *)
(* while their path had no limit                                           *)
(***************************************************************************)
ListMacros(T) ==
    UNION { UNION { UNION {
        \* a counted transfer and a whitelisted one that fails in the same window; the room is what it was
        { << Wl("WlAdd", SendPair(SndW(p, 1, f, 1))), Snd(p, PickOne(AMTS), PickOne({"ok", f})), SndW(p, PickOne(AMTS), f, 1),
             Fin("finishNewest", p), EdgeS(p, 0, "ok"), EdgeS(p, 1, "ok") >>,
          << Wl("WlAdd", RecvPair(RcvW(p, 1, fr, 1))), Rcv(p, PickOne(AMTS), "ok"), RcvW(p, PickOne(AMTS), fr, 1),
             Fin("finishNewest", p), EdgeR(p, 0, "ok"), EdgeR(p, 1, "ok") >>,
        \* a whitelisted transfer beyond the quota; everybody else stays limited
          << Wl("WlAdd", SendPair(SndW(p, 1, "ok", 1))), EdgeS(p, 0, "ok"), SndW(p, PickOne(AMTS), PickOne({"ok", "to"}), 1), EdgeS(p, 1, "ok"),
             Fin("finishNewest", p) >>,
          << Wl("WlAdd", RecvPair(RcvW(p, 1, "ok", 1))), EdgeR(p, 0, "ok"), RcvW(p, PickOne(AMTS), PickOne({"ok", "fok", "ferr"}), 1), EdgeR(p, 1, "ok"),
             Fin("finishNewest", p) >>,
        \* removed from the whitelist: counted again, and undone
          << Wl("WlAdd", SendPair(SndW(p, 1, f, 1))), SndW(p, PickOne(AMTS), f, 1), Wl("WlDel", SendPair(SndW(p, 1, f, 1))),
             SndW(p, PickOne(AMTS), f, 1), Fin("finishOldest", p), Fin("finishNewest", p) >>,
        \* pairs that must not match: reversed, same sender only
          << Wl("WlAdd", "rB>uA"), Wl("WlAdd", "uB>rB"), SndW(p, PickOne(AMTS), f, 1), Rcv(p, PickOne(AMTS), "ok"), RcvW(p, PickOne(AMTS), fr, 1),
             Fin("finishNewest", p), Fin("finishOldest", p) >>,
        \* blacklisted denomination: refused in both directions; the refund of a counted packet while blacklisted
          << Bl("BlAdd", PathD(p)), Snd(p, PickOne(AMTS), "ok"), Rcv(p, PickOne(AMTS), "ok"), Bl("BlDel", PathD(p)), Snd(p, PickOne(AMTS), "ok") >>,
          << Snd(p, PickOne(AMTS), f), Rcv(p, PickOne(AMTS), fr), Bl("BlAdd", PathD(p)), Fin("finishOldest", p), Fin("finishNewest", p),
             Bl("BlDel", PathD(p)), EdgeS(p, 0, "ok") >>,
        \* sent while the path had no limit, refunded after the limit was added
          << [m |-> "rmIfOn", p |-> p], Snd(p, PickOne(AMTS), f), AddFor(p, PickOne(QSS \ {0}), PickOne(QRS \ {0}), PickOne(DURS)),
             Snd(p, PickOne(AMTS), "ok"), Fin("finishOldest", p) >>,
          << [m |-> "rmIfOn", p |-> p], Rcv(p, PickOne(AMTS), fr), AddFor(p, PickOne(QSS \ {0}), PickOne(QRS \ {0}), PickOne(DURS)),
             Rcv(p, PickOne(AMTS), "ok"), Fin("finishOldest", p) >> }
      : fr \in {PickOne({"ferr", "fto"})} } : f \in {PickOne({"err", "to"})} }
      : p \in {PickOne({ q \in ABPaths : T.rl[q].on } \cup {PickOne(ABPaths)})} }

Macros(T) ==
    UNION { UNION {
        \* flow exactly at the quota, then one above (send and receive side)
        { << [m |-> "edgeSend", p |-> p, k |-> 0, fate |-> f], [m |-> "edgeSend", p |-> p, k |-> 1, fate |-> "ok"] >>,
          << [m |-> "edgeRecv", p |-> p, k |-> 0, fate |-> "ok"], [m |-> "edgeRecv", p |-> p, k |-> 1, fate |-> "ok"] >>,
          << [m |-> "edgeSend", p |-> p, k |-> 1, fate |-> "ok"], Rcv(p, PickOne(AMTS), "ok"), [m |-> "edgeSend", p |-> p, k |-> 0, fate |-> f] >>,
        \* refund inside the window, directly after the transfer (send side and asynchronously acknowledged receive)
          << Snd(p, PickOne(AMTS), f), [m |-> "finishNewest", p |-> p, dt |-> 1] >>,
          << Rcv(p, PickOne(AMTS), PickOne({"ferr", "fto"})), [m |-> "finishNewest", p |-> p, dt |-> 1], Rcv(p, PickOne(AMTS), "ok") >>,
          << Rcv(p, PickOne(AMTS), "fok"), Rcv(p, PickOne(AMTS), PickOne({"ferr", "fto"})), [m |-> "finishNewest", p |-> p, dt |-> 1],
             [m |-> "finishNewest", p |-> p, dt |-> 1] >>,
        \* epoch boundary: a refund exactly at the end of the hour (inside the window) / one tick later (outside)
          << Snd(p, PickOne(AMTS), "to"), [m |-> "finishAtEpochEnd", p |-> p, k |-> 0] >>,
          << Snd(p, PickOne(AMTS), "err"), [m |-> "toEpochEnd", k |-> 0], [m |-> "finishNewest", p |-> p, dt |-> 1] >>,
          << Rcv(p, PickOne(AMTS), "ferr"), [m |-> "toEpochEnd", k |-> 0], [m |-> "finishNewest", p |-> p, dt |-> 1] >>,
          << Snd(p, PickOne(AMTS), "ok"), [m |-> "toEpochEnd", k |-> 1], Snd(p, PickOne(AMTS), "ok") >>,
        \* administrative change between a send / async receive and its refund
          << Snd(p, PickOne(AMTS), f), Upd(p, PickOne(QSS \ {0}), PickOne(QRS \ {0}), PickOne(DURS)), Snd(p, PickOne(AMTS), "ok"),
             [m |-> "finishOldest", p |-> p, dt |-> 1], [m |-> "finishNewest", p |-> p, dt |-> 1] >>,
          << Snd(p, PickOne(AMTS), f), Adm("Remove", p), AddFor(p, PickOne(QSS \ {0}), PickOne(QRS \ {0}), PickOne(DURS)), Snd(p, PickOne(AMTS), "ok"),
             [m |-> "finishOldest", p |-> p, dt |-> 1] >>,
          << Snd(p, PickOne(AMTS), f), Adm("Reset", p), Snd(p, PickOne(AMTS), "ok"), [m |-> "finishOldest", p |-> p, dt |-> 1] >>,
          << Snd(p, PickOne(AMTS), f), Adm("Remove", p), [m |-> "finishOldest", p |-> p, dt |-> 1] >>,
          << Rcv(p, PickOne(AMTS), PickOne({"ferr", "fto"})), Upd(p, PickOne(QSS \ {0}), PickOne(QRS \ {0}), PickOne(DURS)), Rcv(p, PickOne(AMTS), "ok"),
             [m |-> "finishOldest", p |-> p, dt |-> 1] >>,
          << Rcv(p, PickOne(AMTS), PickOne({"ferr", "fto", "fok"})), Adm("Reset", p), Rcv(p, PickOne(AMTS), "ok"),
             [m |-> "finishOldest", p |-> p, dt |-> 1] >> }
      : f \in {PickOne({"err", "to"})} } : p \in {PickOne({ q \in ABPaths : T.rl[q].on } \cup {PickOne(ABPaths)})} }

(***************************************************************************)
(* Weighted random steps                                                   *)
(***************************************************************************)
EdgeAmts(T, p, dir) == IF T.rl[p].on /\ T.rl[p].cv > 0
                       THEN { x \in {Room(T, p, dir), Room(T, p, dir) + 1} : x >= 1 /\ x <= 900 } ELSE {}

Class(T, cls) ==
    CASE cls = "Block"  -> BlockActs(T)
      [] cls = "Send"   -> SendActsWith(T, AMTS)
      [] cls = "Recv"   -> RecvActsWith(T, AMTS)
      [] cls = "Relay"  -> RelayActs(T)
      [] cls = "Admin"  -> AdminActs(T)
      [] cls = "BadAdmin" -> BadAdminActs(T)
      [] cls = "XImport" -> { [a |-> "XImport", dt |-> 1] }
      [] cls = "Lists" -> ListActs(T)
      [] cls = "EdgeSend" -> UNION { With(With(With(With(Base("Send"), "d", {PathD(p)}), "ch", {PathCh(p)}), "amt", EdgeAmts(T, p, "out")), "fate", FATES_OUT)
                                     : p \in { q \in Paths : PathCh(q) \in SEND_CH } }
      [] cls = "EdgeRecv" -> UNION { With(With(With(With(Base("Recv"), "d", {PathD(p)}), "ch", {"AB"}), "amt", EdgeAmts(T, p, "in")), "fate", FATES_IN)
                                     : p \in {"N/AB", "V/AB"} }

Weights == <<"Block", "Send", "Send", "Send", "Send", "Recv", "Recv", "Recv", "Recv", "Relay", "Relay", "Relay", "Relay", "Relay",
             "Admin", "Admin", "BadAdmin", "EdgeSend", "EdgeSend", "EdgeRecv", "XImport", "Lists", "Lists">>

Pick(T) ==
    CHOOSE x \in UNION { UNION {
        { IF c1 # {} THEN PickOne(c1) ELSE IF c2 # {} THEN PickOne(c2) ELSE PickOne(BlockActs(T)) }
        : c2 \in { Class(T, Weights[PickOne(1..Len(Weights))]) } }
        : c1 \in { Class(T, Weights[PickOne(1..Len(Weights))]) } } : TRUE

(***************************************************************************)
(* Known-finding class KF-C41-1, decided from the inputs of the walk:      *)
(* stale = markers that existed on a path when it was updated / removed.   *)
(* A step inside the class is either replaced by an empty block (EXCL_KF)  *)
(* or emitted with the field  kf = TRUE  (read by match_known).            *)
(***************************************************************************)
MarkersOf(P) == IF P.dir = "out" THEN { <<"s", PathOf(P.d, P.ch), P.seq>> }
                ELSE { <<"r", PathOf(P.d, "AB"), P.seq>>, <<"s", PathOf(P.d, "AC"), P.fw>> }

IsUndo(a) == \/ (a.a = "Ack" /\ a.pkt.fate = "err") \/ a.a = "Timeout"
             \/ (a.a = "Resolve" /\ a.pkt.fate \in {"ferr", "fto"})

InClass(T, a) == IsUndo(a) /\ \E m \in MarkersOf(a.pkt) : m \in stale /\ T.rl[m[2]].on

StaleAfter(S0, a, r) ==
    LET T  == Pre(S0, a)
        \* windows restarted by the epoch: their markers are gone in the implementation as well
        epochCleared == { m \in stale : \E q \in Paths : q = m[2] /\ S0.rl[q].on /\ S0.rl[q].dur # 0
                                          /\ EpochStarting(S0, S0.now + a.dt) /\ (S0.ep.num + 1) % S0.rl[q].dur = 0 }
        s1 == stale \ epochCleared
        p  == IF a.a \in {"Add", "Update", "Remove", "Reset"} THEN PathOf(a.d, a.ch) ELSE ""
    IN IF r.res # "ok" THEN s1
       ELSE IF a.a \in {"Update", "Remove"}
            THEN s1 \cup { <<"s", p, m.seq>> : m \in PathMarkers(T.ps, p) } \cup { <<"r", p, m.seq>> : m \in PathMarkers(T.pr, p) }
       ELSE IF a.a = "Reset" THEN { m \in s1 : m[2] # p }
       ELSE IF a.a \in {"Ack", "Timeout", "Resolve"} THEN s1 \ MarkersOf(a.pkt)
       ELSE s1

Next ==
    /\ Len(sched) < Depth
    /\ \E roll \in { PickOne(1..100) } :
       \E plan \in { IF todo # <<>> THEN todo
                     ELSE IF roll <= MACRO_PCT
                          THEN (IF roll % 3 = 0 THEN PickOne(QuotaMacros(S)) ELSE IF roll % 3 = 1 THEN PickOne(ListMacros(S)) ELSE PickOne(Macros(S)))
                          ELSE <<Pick(S)>> } :
       \E a0 \in { ResolveItem(S, Head(plan)) } :
       \E a \in { IF ~InClass(Pre(S, a0), a0) THEN a0
                   ELSE IF EXCL_KF THEN BlockOf(a0.dt)
                   ELSE [x \in (DOMAIN a0) \cup {"kf"} |-> IF x = "kf" THEN TRUE ELSE a0[x]] } :
       \E r \in { Step(S, a) } :
          /\ S' = r.S
          /\ sched' = Append(sched, a)
          /\ todo' = Tail(plan)
          /\ stale' = StaleAfter(S, a, r)
          /\ (Len(sched') = Depth =>
                JsonSerialize(OutDir \o "/s" \o ToString(TLCGet("stats").traces) \o "_" \o ToString(PickOne(1..1000000)) \o ".json",
                              [kind |-> "RL", acts |-> sched']))

Spec == Init /\ [][Next]_vars
=============================================================================
