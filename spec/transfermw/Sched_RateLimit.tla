--------------------------- MODULE Sched_RateLimit ---------------------------
(***************************************************************************)
(* Behaviour generation for C41 (DESIGN.md 2.1b): random walks of          *)
(* RateLimit run with  tlc -simulate ; every walk is written as one JSON   *)
(* schedule and executed on the real chains.  A step is either drawn from  *)
(* weighted action classes or taken from a goal-directed MACRO whose items *)
(* are resolved against the current state:                                 *)
(*   - a flow exactly AT the quota, then one unit above it                 *)
(*   - a block exactly AT the end of the hour epoch, then one tick later   *)
(*   - an administrative change of a path between a send / async receive   *)
(*     and its refund (Update, Remove+Add, Reset)                          *)
(* EXCL_KF = TRUE removes exactly the input class of known finding         *)
(* KF-C41-1 (the undo of a packet whose pending marker survived an         *)
(* UpdateRateLimit / RemoveRateLimit of its path) from the walks.          *)
(***************************************************************************)
EXTENDS RLActions, Json

CONSTANTS Depth, OutDir, EXCL_KF, MACRO_PCT,
          SUPN, SUPV, NS_AB, NS_AC, NR      \* state of the real chains after set-up

VARIABLES S, sched, todo, stale

vars == <<S, sched, todo, stale>>

Init0 == [InitState(SUPN, SUPV, NS_AB, NS_AC, NR) EXCEPT !.ep = [num |-> 1, start |-> 0]]

PickOne(X) == RandomElement(X)

AddFor(p, qs, qr, dur) == [a |-> "Add", dt |-> 1, d |-> PathD(p), ch |-> PathCh(p), qs |-> qs, qr |-> qr, dur |-> dur]

Init == /\ S = Init0 /\ sched = <<>> /\ stale = {}
        /\ \E p \in {PickOne({"N/AB", "V/AB"})} : \E qs \in {PickOne(QSS \ {0})} : \E qr \in {PickOne(QRS \ {0})} : \E du \in {PickOne(DURS)} :
           \E q \in {PickOne(PATHS)} : \E qs2 \in {PickOne(QSS \ {0})} : \E qr2 \in {PickOne(QRS)} : \E du2 \in {PickOne(DURS)} :
              todo = <<AddFor(p, qs, qr, du), AddFor(q, qs2, qr2, du2)>>

(***************************************************************************)
(* Items of a macro, resolved when they are executed                       *)
(***************************************************************************)
Room(T, p, dir) == LET r == T.rl[p] IN
    IF dir = "out" THEN Threshold(r.cv, r.qs) - (r.outflow - r.inflow)
                   ELSE Threshold(r.cv, r.qr) - (r.inflow - r.outflow)

Clamp(x) == IF x < 1 THEN 1 ELSE IF x > 900 THEN 900 ELSE x

MinSeq(X) == CHOOSE x \in X : \A y \in X : x.seq <= y.seq
MaxSeq(X) == CHOOSE x \in X : \A y \in X : x.seq >= y.seq

RelayOf(P, dt) == IF P.dir = "out" THEN (IF P.fate = "to" THEN [a |-> "Timeout", dt |-> dt, pkt |-> P] ELSE [a |-> "Ack", dt |-> dt, pkt |-> P])
                  ELSE [a |-> "Resolve", dt |-> dt, pkt |-> P]

OnPath(T, p) == { P \in T.pk : PathOf(P.d, P.ch) = p }

BlockOf(dt) == [a |-> "Block", dt |-> IF dt < 1 THEN 1 ELSE dt]

ResolveItem(T, it) ==
    IF "a" \in DOMAIN it THEN it
    ELSE LET T1 == Pre(T, BlockOf(1)) IN
      CASE it.m = "edgeSend" -> [a |-> "Send", dt |-> 1, d |-> PathD(it.p), ch |-> PathCh(it.p),
                                  amt |-> Clamp(Room(T1, it.p, "out") + it.k), fate |-> it.fate]
        [] it.m = "edgeRecv" -> [a |-> "Recv", dt |-> 1, d |-> PathD(it.p), ch |-> "AB",
                                  amt |-> Clamp(Room(T1, it.p, "in") + it.k), fate |-> it.fate]
        [] it.m = "finishOldest" -> IF OnPath(T, it.p) = {} THEN BlockOf(1) ELSE RelayOf(MinSeq(OnPath(T, it.p)), it.dt)
        [] it.m = "finishNewest" -> IF OnPath(T, it.p) = {} THEN BlockOf(1) ELSE RelayOf(MaxSeq(OnPath(T, it.p)), it.dt)
        [] it.m = "finishAtEpochEnd" -> IF OnPath(T, it.p) = {} THEN BlockOf(1)
                                        ELSE RelayOf(MaxSeq(OnPath(T, it.p)), IF T.ep.start + HOUR - T.now + it.k < 1 THEN 1 ELSE T.ep.start + HOUR - T.now + it.k)
        [] it.m = "toEpochEnd" -> BlockOf(T.ep.start + HOUR - T.now + it.k)

(***************************************************************************)
(* Macros                                                                  *)
(***************************************************************************)
Snd(p, amt, fate) == [a |-> "Send", dt |-> 1, d |-> PathD(p), ch |-> PathCh(p), amt |-> amt, fate |-> fate]
Rcv(p, amt, fate) == [a |-> "Recv", dt |-> 1, d |-> PathD(p), ch |-> "AB", amt |-> amt, fate |-> fate]
Adm(name, p)      == [a |-> name, dt |-> 1, d |-> PathD(p), ch |-> PathCh(p)]
Upd(p, qs, qr, du) == [a |-> "Update", dt |-> 1, d |-> PathD(p), ch |-> PathCh(p), qs |-> qs, qr |-> qr, dur |-> du]

ABPaths == PATHS \cap {"N/AB", "V/AB"}

Macros(T) ==
    UNION { UNION {
        \* flow exactly at the quota, then one above (send and receive side)
        { << [m |-> "edgeSend", p |-> p, k |-> 0, fate |-> f], [m |-> "edgeSend", p |-> p, k |-> 1, fate |-> "ok"] >>,
          << [m |-> "edgeRecv", p |-> p, k |-> 0, fate |-> "ok"], [m |-> "edgeRecv", p |-> p, k |-> 1, fate |-> "ok"] >>,
          << [m |-> "edgeSend", p |-> p, k |-> 1, fate |-> "ok"], Rcv(p, PickOne(AMTS), "ok"), [m |-> "edgeSend", p |-> p, k |-> 0, fate |-> f] >>,
        \* refund inside the window, directly after the transfer (send side and asynchronously acknowledged receive)
          << Snd(p, PickOne(AMTS), f), [m |-> "finishNewest", p |-> p, dt |-> 1] >>,
          << Rcv(p, PickOne(AMTS), PickOne({"ferr", "fto"})), [m |-> "finishNewest", p |-> p, dt |-> 1], Rcv(p, PickOne(AMTS), "ok") >>,
          << Rcv(p, PickOne(AMTS), "fok"), Rcv(p, PickOne(AMTS), PickOne({"ferr", "fto"})), [m |-> "finishNewest", p |-> p, dt |-> 1],
             [m |-> "finishNewest", p |-> p, dt |-> 1] >>,
        \* epoch boundary: a refund exactly at the end of the hour (inside the window) / one tick later (outside)
          << Snd(p, PickOne(AMTS), "to"), [m |-> "finishAtEpochEnd", p |-> p, k |-> 0] >>,
          << Snd(p, PickOne(AMTS), "err"), [m |-> "toEpochEnd", k |-> 0], [m |-> "finishNewest", p |-> p, dt |-> 1] >>,
          << Rcv(p, PickOne(AMTS), "ferr"), [m |-> "toEpochEnd", k |-> 0], [m |-> "finishNewest", p |-> p, dt |-> 1] >>,
          << Snd(p, PickOne(AMTS), "ok"), [m |-> "toEpochEnd", k |-> 1], Snd(p, PickOne(AMTS), "ok") >>,
        \* administrative change between a send / async receive and its refund
          << Snd(p, PickOne(AMTS), f), Upd(p, PickOne(QSS \ {0}), PickOne(QRS \ {0}), PickOne(DURS)), Snd(p, PickOne(AMTS), "ok"),
             [m |-> "finishOldest", p |-> p, dt |-> 1], [m |-> "finishNewest", p |-> p, dt |-> 1] >>,
          << Snd(p, PickOne(AMTS), f), Adm("Remove", p), AddFor(p, PickOne(QSS \ {0}), PickOne(QRS \ {0}), PickOne(DURS)), Snd(p, PickOne(AMTS), "ok"),
             [m |-> "finishOldest", p |-> p, dt |-> 1] >>,
          << Snd(p, PickOne(AMTS), f), Adm("Reset", p), Snd(p, PickOne(AMTS), "ok"), [m |-> "finishOldest", p |-> p, dt |-> 1] >>,
          << Snd(p, PickOne(AMTS), f), Adm("Remove", p), [m |-> "finishOldest", p |-> p, dt |-> 1] >>,
          << Rcv(p, PickOne(AMTS), PickOne({"ferr", "fto"})), Upd(p, PickOne(QSS \ {0}), PickOne(QRS \ {0}), PickOne(DURS)), Rcv(p, PickOne(AMTS), "ok"),
             [m |-> "finishOldest", p |-> p, dt |-> 1] >>,
          << Rcv(p, PickOne(AMTS), PickOne({"ferr", "fto", "fok"})), Adm("Reset", p), Rcv(p, PickOne(AMTS), "ok"),
             [m |-> "finishOldest", p |-> p, dt |-> 1] >> }
      : f \in {PickOne({"err", "to"})} } : p \in {PickOne({ q \in ABPaths : T.rl[q].on } \cup {PickOne(ABPaths)})} }

(***************************************************************************)
(* Weighted random steps                                                   *)
(***************************************************************************)
EdgeAmts(T, p, dir) == IF T.rl[p].on /\ T.rl[p].cv > 0
                       THEN { x \in {Room(T, p, dir), Room(T, p, dir) + 1} : x >= 1 /\ x <= 900 } ELSE {}

Class(T, cls) ==
    CASE cls = "Block"  -> BlockActs(T)
      [] cls = "Send"   -> SendActsWith(T, AMTS)
      [] cls = "Recv"   -> RecvActsWith(T, AMTS)
      [] cls = "Relay"  -> RelayActs(T)
      [] cls = "Admin"  -> AdminActs(T)
      [] cls = "BadAdmin" -> BadAdminActs(T)
      [] cls = "XImport" -> { [a |-> "XImport", dt |-> 1] }
      [] cls = "EdgeSend" -> UNION { With(With(With(With(Base("Send"), "d", {PathD(p)}), "ch", {PathCh(p)}), "amt", EdgeAmts(T, p, "out")), "fate", FATES_OUT)
                                     : p \in { q \in Paths : PathCh(q) \in SEND_CH } }
      [] cls = "EdgeRecv" -> UNION { With(With(With(With(Base("Recv"), "d", {PathD(p)}), "ch", {"AB"}), "amt", EdgeAmts(T, p, "in")), "fate", FATES_IN)
                                     : p \in {"N/AB", "V/AB"} }

Weights == <<"Block", "Send", "Send", "Send", "Send", "Recv", "Recv", "Recv", "Recv", "Relay", "Relay", "Relay", "Relay", "Relay",
             "Admin", "Admin", "BadAdmin", "EdgeSend", "EdgeSend", "EdgeRecv", "XImport">>

Pick(T) ==
    CHOOSE x \in UNION { UNION {
        { IF c1 # {} THEN PickOne(c1) ELSE IF c2 # {} THEN PickOne(c2) ELSE PickOne(BlockActs(T)) }
        : c2 \in { Class(T, Weights[PickOne(1..Len(Weights))]) } }
        : c1 \in { Class(T, Weights[PickOne(1..Len(Weights))]) } } : TRUE

(***************************************************************************)
(* Known-finding class KF-C41-1, decided from the inputs of the walk:      *)
(* stale = markers that existed on a path when it was updated / removed.   *)
(* A step inside the class is either replaced by an empty block (EXCL_KF)  *)
(* or emitted with the field  kf = TRUE  (read by match_known).            *)
(***************************************************************************)
MarkersOf(P) == IF P.dir = "out" THEN { <<"s", PathOf(P.d, P.ch), P.seq>> }
                ELSE { <<"r", PathOf(P.d, "AB"), P.seq>>, <<"s", PathOf(P.d, "AC"), P.fw>> }

IsUndo(a) == \/ (a.a = "Ack" /\ a.pkt.fate = "err") \/ a.a = "Timeout"
             \/ (a.a = "Resolve" /\ a.pkt.fate \in {"ferr", "fto"})

InClass(T, a) == IsUndo(a) /\ \E m \in MarkersOf(a.pkt) : m \in stale /\ T.rl[m[2]].on

StaleAfter(S0, a, r) ==
    LET T  == Pre(S0, a)
        \* windows restarted by the epoch: their markers are gone in the implementation as well
        epochCleared == { m \in stale : \E q \in Paths : q = m[2] /\ S0.rl[q].on /\ S0.rl[q].dur # 0
                                          /\ EpochStarting(S0, S0.now + a.dt) /\ (S0.ep.num + 1) % S0.rl[q].dur = 0 }
        s1 == stale \ epochCleared
        p  == IF a.a \in {"Add", "Update", "Remove", "Reset"} THEN PathOf(a.d, a.ch) ELSE ""
    IN IF r.res # "ok" THEN s1
       ELSE IF a.a \in {"Update", "Remove"}
            THEN s1 \cup { <<"s", p, m.seq>> : m \in PathMarkers(T.ps, p) } \cup { <<"r", p, m.seq>> : m \in PathMarkers(T.pr, p) }
       ELSE IF a.a = "Reset" THEN { m \in s1 : m[2] # p }
       ELSE IF a.a \in {"Ack", "Timeout", "Resolve"} THEN s1 \ MarkersOf(a.pkt)
       ELSE s1

Next ==
    /\ Len(sched) < Depth
    /\ \E roll \in { PickOne(1..100) } :
       \E plan \in { IF todo # <<>> THEN todo
                     ELSE IF roll <= MACRO_PCT THEN PickOne(Macros(S)) ELSE <<Pick(S)>> } :
       \E a0 \in { ResolveItem(S, Head(plan)) } :
       \E a \in { IF ~InClass(Pre(S, a0), a0) THEN a0
                   ELSE IF EXCL_KF THEN BlockOf(a0.dt)
                   ELSE [x \in (DOMAIN a0) \cup {"kf"} |-> IF x = "kf" THEN TRUE ELSE a0[x]] } :
       \E r \in { Step(S, a) } :
          /\ S' = r.S
          /\ sched' = Append(sched, a)
          /\ todo' = Tail(plan)
          /\ stale' = StaleAfter(S, a, r)
          /\ (Len(sched') = Depth =>
                JsonSerialize(OutDir \o "/s" \o ToString(TLCGet("stats").traces) \o "_" \o ToString(PickOne(1..1000000)) \o ".json",
                              [kind |-> "RL", acts |-> sched']))

Spec == Init /\ [][Next]_vars
=============================================================================
