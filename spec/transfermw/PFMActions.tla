----------------------------- MODULE PFMActions -----------------------------
(***************************************************************************)
(* Initial state (the set-up of the real chains, as a fold of Step) and    *)
(* candidate actions for PFM: journeys (a user transfer on A whose memo    *)
(* forwards it along A -> B -> C (-> D)) and relayer choices.              *)
(***************************************************************************)
EXTENDS PFM

CONSTANTS TOKENS,    \* subset of {"TA","TB","TC","TD","TX"}: what the user of A sends (TX = TC that came over BX)
          ROUTES,    \* subset of {"std","x","xb"}: links of the forward hops (BC,CD / BX,CD / BX,BC)
          DEPTHS,    \* subset of 1..3: number of hops (1 = no forwarding)
          AMTS, RETS, TOS,
          FINS,      \* subset of {"rcvr","bad"}: final receiver valid / invalid
          MIDS,      \* subset of {"pfm","rcvr"}: receiver named for the intermediate hops (a placeholder that is not an
                     \* address / a valid account; the middleware overrides it while the packet carries a memo)
          BADHOPS,   \* subset of 0..2: index of the forward hop that names a missing channel (0 = none)
          EXPS       \* timeouts of the user's own packet (ticks, 0 = never)

(***************************************************************************)
(* Set-up: every chain's user holds 1000 of the chain's native token; half *)
(* of TB, TC, TD is moved hop by hop to the user of A; 300 more of TC go   *)
(* to B over the second channel BX and on to A (token "TX").               *)
(***************************************************************************)
Genesis == [now |-> 0,
            bal |-> [k \in { <<"A", "user", Native("TA")>>, <<"B", "user", Native("TB")>>,
                             <<"C", "user", Native("TC")>>, <<"D", "user", Native("TD")>> } |-> 1000],
            sup |-> [k \in { <<"A", Native("TA")>>, <<"B", Native("TB")>>, <<"C", Native("TC")>>, <<"D", Native("TD")>> } |-> 1000],
            inf |-> {}, ns |-> [k \in UNION { { <<EndsOf(L)[1], L>>, <<EndsOf(L)[2], L>> } : L \in Links } |-> 1],
            pk |-> {}, recv |-> EmptyFn, ackw |-> EmptyFn, done |-> {}, refd |-> {}, off |-> {}]

\* one plain transfer of n of d from the user of c to the user of the other end of L, relayed to completion
Plain(S, c, L, d, n) ==
    LET S1 == Step(S, [a |-> "Transfer", dt |-> 0, c |-> c, L |-> L, d |-> d, amt |-> n, rcv |-> "user", memo |-> <<>>, exp |-> 0]).S
        P  == CHOOSE Q \in S1.pk : Q \notin S.pk
        S2 == Step(S1, [a |-> "Recv", dt |-> 0, pkt |-> P]).S
    IN Step(S2, [a |-> "Ack", dt |-> 0, pkt |-> P]).S

TokenDenom(tok) == CASE tok = "TA" -> Native("TA")
                     [] tok = "TB" -> [t |-> <<"AB@A">>, b |-> "TB"]
                     [] tok = "TC" -> [t |-> <<"AB@A", "BC@B">>, b |-> "TC"]
                     [] tok = "TD" -> [t |-> <<"AB@A", "BC@B", "CD@C">>, b |-> "TD"]
                     [] tok = "TX" -> [t |-> <<"AB@A", "BX@B">>, b |-> "TC"]

SetUp == LET s1 == Plain(Genesis, "B", "AB", Native("TB"), 500)
             s2 == Plain(s1, "C", "BC", Native("TC"), 500)
             s3 == Plain(s2, "B", "AB", [t |-> <<"BC@B">>, b |-> "TC"], 500)
             s4 == Plain(s3, "D", "CD", Native("TD"), 500)
             s5 == Plain(s4, "C", "BC", [t |-> <<"CD@C">>, b |-> "TD"], 500)
             s6 == Plain(s5, "B", "AB", [t |-> <<"BC@B", "CD@C">>, b |-> "TD"], 500)
             s7 == Plain(s6, "C", "BX", Native("TC"), 300)
             s8 == Plain(s7, "B", "AB", [t |-> <<"BX@B">>, b |-> "TC"], 300)
         IN [s8 EXCEPT !.now = 1]

(***************************************************************************)
(* Journeys                                                                *)
(***************************************************************************)
RouteLinks(route) == CASE route = "std" -> <<"BC", "CD">> [] route = "x" -> <<"BX", "CD">> [] route = "xb" -> <<"BX", "BC">>

Memo(route, depth, fin, mid, ret, to, badhop) ==
    [i \in 1..(depth - 1) |-> [L |-> RouteLinks(route)[i], rcv |-> IF i = depth - 1 THEN fin ELSE mid, to |-> to, ret |-> ret, chok |-> i # badhop]]

Journeys == { [a |-> "Transfer", dt |-> 1, c |-> "A", L |-> "AB", d |-> TokenDenom(tok), amt |-> amt,
               rcv |-> IF depth = 1 THEN fin ELSE mid, memo |-> Memo(route, depth, fin, mid, ret, to, bh), exp |-> exp]
              : tok \in TOKENS, route \in ROUTES, depth \in DEPTHS, amt \in AMTS, fin \in FINS, mid \in MIDS, ret \in RETS, to \in TOS,
                bh \in BADHOPS, exp \in EXPS }

\* the chain the last hop of the journey delivers to: B, then along the links of the memo
RECURSIVE Along(_, _)
Along(c, memo) == IF memo = <<>> THEN c ELSE Along(Other(Head(memo).L, c), Tail(memo))
FinalChain(j) == Along("B", j.memo)

\* the forwarded token on chain c (sent over P.L, original packet arrived over Q.L) is a voucher that came over a THIRD channel
ThirdChannel(c, P, Q) == Len(P.d.t) >= 1 /\ ~HasPrefix(P.d, End(P.L, c)) /\ ~HasPrefix(P.d, End(Q.L, c))

(***************************************************************************)
(* Relayer                                                                 *)
(***************************************************************************)
Unfinished(S) == { P \in S.pk : Id(P) \notin S.done }
Quiescent(S)  == Unfinished(S) = {}

RecvActs(S)    == { [a |-> "Recv", dt |-> 1, pkt |-> P] : P \in { Q \in Unfinished(S) : Id(Q) \notin DOMAIN S.recv /\ Alive(Q, S.now + 1) } }
AckActs(S)     == { [a |-> "Ack", dt |-> 1, pkt |-> P] : P \in { Q \in Unfinished(S) : Id(Q) \in DOMAIN S.ackw } }
TimeoutDt(S, P) == IF P.exp + 1 - S.now < 1 THEN 1 ELSE P.exp + 1 - S.now
TimeoutActs(S) == { [a |-> "Timeout", dt |-> TimeoutDt(S, P), pkt |-> P] : P \in { Q \in Unfinished(S) : Id(Q) \notin DOMAIN S.recv /\ Q.exp # 0 } }

Relay(S) == RecvActs(S) \cup AckActs(S) \cup TimeoutActs(S)

\* transfer parameter SendEnabled of an intermediate chain switched off while a forward with retries left is in flight
\* there (the retry cannot be sent), and switched on again
RetryPending(S) == { r.c : r \in { x \in S.inf : x.ret > 0 } }
\* ... or while a packet that asks to be forwarded is on its way to the chain (the forward cannot be sent)
ForwardPending(S) == { Other(P.L, P.src) : P \in { Q \in S.pk : Id(Q) \notin S.done /\ Id(Q) \notin DOMAIN S.recv /\ Q.memo # <<>> } }
SendOffActs(S) == { [a |-> "SetSend", dt |-> 1, c |-> c, on |-> FALSE] : c \in (RetryPending(S) \cup ForwardPending(S)) \ S.off }
SendOnActs(S)  == { [a |-> "SetSend", dt |-> 1, c |-> c, on |-> TRUE] : c \in S.off }

\* attempts that must be rejected: a receive at / after the timeout, a timeout at / before it, relays of finished packets,
\* acknowledgements that were never written
LateRecv(S)  == { [a |-> "Recv", dt |-> TimeoutDt(S, P) - 1 + k, pkt |-> P]
                  : P \in { Q \in Unfinished(S) : Id(Q) \notin DOMAIN S.recv /\ Q.exp # 0 /\ TimeoutDt(S, Q) >= 2 }, k \in {0, 1} }
LastChanceRecv(S) == { [a |-> "Recv", dt |-> TimeoutDt(S, P) - 2, pkt |-> P]
                  : P \in { Q \in Unfinished(S) : Id(Q) \notin DOMAIN S.recv /\ Q.exp # 0 /\ TimeoutDt(S, Q) >= 3 } }
EarlyTimeout(S) == { [a |-> "Timeout", dt |-> TimeoutDt(S, P) - 1, pkt |-> P]
                  : P \in { Q \in Unfinished(S) : Id(Q) \notin DOMAIN S.recv /\ Q.exp # 0 /\ TimeoutDt(S, Q) >= 2 } }
Stale(S) == { [a |-> n, dt |-> 1, pkt |-> P] : n \in {"Recv", "Ack", "Timeout"}, P \in { Q \in S.pk : Id(Q) \in S.done } }
            \cup { [a |-> "Ack", dt |-> 1, pkt |-> P] : P \in { Q \in Unfinished(S) : Id(Q) \notin DOMAIN S.ackw } }
            \cup { [a |-> "Timeout", dt |-> 1, pkt |-> P] : P \in { Q \in Unfinished(S) : Id(Q) \in DOMAIN S.recv } }
=============================================================================
