------------------------------ MODULE RateLimit ------------------------------
(***************************************************************************)
(* Rate limiting of ICS-20 transfers (modules/apps/rate-limiting) on ONE   *)
(* chain under test "A", as wired in the test application:                 *)
(*      core  ->  rate-limit  ->  packet-forward  ->  transfer             *)
(* A has a transfer channel "AB" to the peer chain B and a channel "AC" to *)
(* chain C (only used by packets that A forwards for B).  Denominations on *)
(* A:  "N" native to A,  "V" the voucher of B's native token over AB.      *)
(* A rate-limit path is  denom/channel.                                    *)
(*                                                                         *)
(* The module is a FUNCTION  Step(S, a) = [res, ack, S']  over explicit    *)
(* state records; it is EXTENDed by MC_RateLimit (exhaustive check of the  *)
(* design), Sched_RateLimit (behaviour generation) and Trace_RateLimit     *)
(* (validation of traces recorded from the real code).                     *)
(*                                                                         *)
(* The packet layer is abstract (DESIGN.md section 4): every packet gets   *)
(* at most one of receive+ack / timeout, the adversary picks the order and *)
(* the outcome.  The outcome of a packet is fixed when it is created       *)
(* ("fate"), its timing is free:                                           *)
(*   outbound  fate "ok" | "err" (peer answers with an error ack) |        *)
(*             "to" (never delivered, times out)                           *)
(*   inbound   fate "ok" | "err" (transfer fails on A -> error ack) |       *)
(*             "fok" | "ferr" | "fto"  forwarded by A over AC (async ack): *)
(*             the forward succeeds / gets an error ack / times out        *)
(*                                                                         *)
(* GHOST state g (not part of the implementation): the packets accepted on *)
(* a path in its CURRENT window and not undone -- the accounting identity  *)
(* of property C41 is   outflow = Sum(accOut),  inflow = Sum(accIn).       *)
(*                                                                         *)
(* WHITELIST / BLACKLIST (keeper/whitelist.go, blacklist.go, flow.go):     *)
(* a transfer between a whitelisted (sender, receiver) ADDRESS PAIR skips  *)
(* the flow calculation altogether: it is accepted whatever the quota, it  *)
(* is NOT counted, it leaves NO pending marker, and its refund therefore   *)
(* does not touch the flow.  A transfer of a blacklisted denomination is   *)
(* refused (send: transaction fails, receive: error acknowledgement) on    *)
(* every channel, limited or not.  Addresses are abstract party names:     *)
(*   "uA" "rA"  user / second account of A     "xA" "yA"  two invalid      *)
(*   address strings standing for a receiver on A (the receive fails);     *)
(*   likewise uB rB xB yB, uC rC xC yC.  A pair is the string  snd>rcv.    *)
(* A transfer carries  w \in {0, 1}: which of the two valid (fate # err) /  *)
(* invalid (fate = err) addresses it names as its receiver.                *)
(***************************************************************************)
EXTENDS Integers, Sequences, FiniteSets, TLC

CONSTANT HOUR            \* ticks per hour (block time is counted in ticks)

Denoms   == {"N", "V"}
Chans    == {"AB", "AC"}
Paths    == {"N/AB", "V/AB", "N/AC", "V/AC"}
PathOf(d, ch) == d \o "/" \o ch
DenomOfPath(p) == IF p \in {"N/AB", "N/AC"} THEN "N" ELSE "V"

NoRL == [on |-> FALSE, qs |-> 0, qr |-> 0, dur |-> 0, inflow |-> 0, outflow |-> 0, cv |-> 0]

RECURSIVE SumAmt(_)
SumAmt(X) == IF X = {} THEN 0 ELSE LET x == CHOOSE y \in X : TRUE IN x.amt + SumAmt(X \ {x})

(***************************************************************************)
(* State record                                                            *)
(*  now  block time of A's last block (ticks)                              *)
(*  ep   [num, start]   hour epoch (start in ticks; it ends at start+HOUR) *)
(*  rl   [Paths -> rate limit record or NoRL]                              *)
(*  ps, pr  pending send / receive markers: sets of [p, seq]               *)
(*  sup  [Denoms -> supply on A]  (= the "channel value" of a denom)       *)
(*  ns   [Chans -> next send sequence of A]                                *)
(*  nr   next sequence of packets B -> A                                   *)
(*  pk   packets in flight (packet layer abstraction)                      *)
(*  wl   whitelisted address pairs (set of strings  snd>rcv)               *)
(*  bl   blacklisted denominations (subset of Denoms)                      *)
(*  g    ghost [out, inn : Paths -> set of [seq, amt]], undone             *)
(***************************************************************************)
EmptyGhost == [out |-> [p \in Paths |-> {}], inn |-> [p \in Paths |-> {}], undone |-> {}]

PathMarkers(M, p) == { m \in M : m.p = p }

(***************************************************************************)
(* Address pairs of a transfer                                             *)
(***************************************************************************)
Wv(a) == IF "w" \in DOMAIN a THEN a.w ELSE 0
PeerOf(ch) == IF ch = "AB" THEN "B" ELSE "C"
Party(c, fate, w) == (IF fate = "err" THEN (IF w = 1 THEN "y" ELSE "x") ELSE (IF w = 1 THEN "r" ELSE "u")) \o c
Pair(snd, rcv) == snd \o ">" \o rcv
\* MsgTransfer of the user of A over a.ch / packet of the user of B to an account of A
SendPair(a) == Pair("uA", Party(PeerOf(a.ch), a.fate, Wv(a)))
RecvPair(a) == Pair("uB", Party("A", a.fate, Wv(a)))

G_NotBlacklisted(S, d) == d \notin S.bl
SendWhitelisted(S, a) == SendPair(a) \in S.wl
RecvWhitelisted(S, a) == RecvPair(a) \in S.wl

(***************************************************************************)
(* Named guard clauses                                                     *)
(***************************************************************************)
\* quota.go CheckExceedsQuota: exact integer arithmetic, the quotient is truncated
Threshold(cv, pct) == (cv * pct) \div 100

\* quota.go CheckExceedsQuota: a zero channel value disables the limit (documented in the code)
G_WithinQuota(net, cv, pct) == cv = 0 \/ net <= Threshold(cv, pct)

G_SendWithinQuota(r, amt) == ~r.on \/ G_WithinQuota(r.outflow - r.inflow + amt, r.cv, r.qs)
G_RecvWithinQuota(r, amt) == ~r.on \/ G_WithinQuota(r.inflow - r.outflow + amt, r.cv, r.qr)

\* msgs.go ValidateBasic of MsgAddRateLimit / MsgUpdateRateLimit
G_QuotaValid(a) == /\ a.qs \in 0..100 /\ a.qr \in 0..100 /\ ~(a.qs = 0 /\ a.qr = 0) /\ a.dur >= 1

(***************************************************************************)
(* Window start on a path: flows to zero, channel value := current supply, *)
(* pending markers of the path dropped, ghost window emptied.              *)
(***************************************************************************)
StartWindow(S, p, r) ==
    [S EXCEPT !.rl[p] = [r EXCEPT !.inflow = 0, !.outflow = 0, !.cv = S.sup[DenomOfPath(p)]],
              !.ps = @ \ PathMarkers(@, p),
              !.pr = @ \ PathMarkers(@, p),
              !.g.out[p] = {}, !.g.inn[p] = {}]

EndWindow(S, p) ==
    [S EXCEPT !.rl[p] = NoRL,
              !.ps = @ \ PathMarkers(@, p),
              !.pr = @ \ PathMarkers(@, p),
              !.g.out[p] = {}, !.g.inn[p] = {}]

(***************************************************************************)
(* BeginBlocker (abci.go, epoch.go): when the block time is AFTER the end  *)
(* of the hour epoch the epoch number is incremented (one epoch per block) *)
(* and every rate limit whose duration divides the new number is reset.    *)
(***************************************************************************)
EpochStarting(S, t) == t > S.ep.start + HOUR

RECURSIVE ResetAll(_, _)
ResetAll(S, P) == IF P = {} THEN S
                  ELSE LET p == CHOOSE q \in P : TRUE IN ResetAll(StartWindow(S, p, S.rl[p]), P \ {p})

BeginBlock(S, t) ==
    IF ~EpochStarting(S, t) THEN S
    ELSE LET num == S.ep.num + 1
             S1  == [S EXCEPT !.ep = [num |-> num, start |-> S.ep.start + HOUR]]
         IN ResetAll(S1, { p \in Paths : S.rl[p].on /\ S.rl[p].dur # 0 /\ num % S.rl[p].dur = 0 })

RECURSIVE BeginBlocks(_, _, _)
BeginBlocks(S, t, nb) == IF nb <= 0 THEN S ELSE BeginBlocks(BeginBlock(S, t), t, nb - 1)

(***************************************************************************)
(* Results                                                                 *)
(***************************************************************************)
R(res, ack, S2) == [res |-> res, ack |-> ack, S |-> S2]

Mark(p, seq) == [p |-> p, seq |-> seq]
Acc(seq, amt) == [seq |-> seq, amt |-> amt]

(***************************************************************************)
(* Flow changes (flow.go, packet.go)                                       *)
(***************************************************************************)
\* CheckRateLimitAndUpdateFlow(SEND) + SetPendingSendPacket
ChargeSend(S, p, seq, amt) ==
    IF ~S.rl[p].on THEN S
    ELSE [S EXCEPT !.rl[p].outflow = @ + amt, !.ps = @ \cup {Mark(p, seq)}, !.g.out[p] = @ \cup {Acc(seq, amt)}]

\* CheckRateLimitAndUpdateFlow(RECV) (+ SetPendingReceivePacket when keep = TRUE, i.e. async ack)
ChargeRecv(S, p, seq, amt, keep) ==
    IF ~S.rl[p].on THEN S
    ELSE [S EXCEPT !.rl[p].inflow = @ + amt,
                   !.pr = IF keep THEN @ \cup {Mark(p, seq)} ELSE @,
                   !.g.inn[p] = @ \cup {Acc(seq, amt)}]

\* UndoSendPacket: only packets of the current window (marker present) are subtracted
UndoSend(S, p, seq, amt) ==
    IF ~S.rl[p].on THEN [S EXCEPT !.ps = @ \ {Mark(p, seq)}]
    ELSE IF Mark(p, seq) \notin S.ps THEN S
    ELSE [S EXCEPT !.rl[p].outflow = IF @ - amt < 0 THEN 0 ELSE @ - amt,
                   !.ps = @ \ {Mark(p, seq)},
                   !.g.out[p] = @ \ {Acc(seq, amt)},
                   !.g.undone = @ \cup {<<"out", p, seq>>}]

UndoRecv(S, p, seq, amt) ==
    IF ~S.rl[p].on THEN [S EXCEPT !.pr = @ \ {Mark(p, seq)}]
    ELSE IF Mark(p, seq) \notin S.pr THEN S
    ELSE [S EXCEPT !.rl[p].inflow = IF @ - amt < 0 THEN 0 ELSE @ - amt,
                   !.pr = @ \ {Mark(p, seq)},
                   !.g.inn[p] = @ \ {Acc(seq, amt)},
                   !.g.undone = @ \cup {<<"in", p, seq>>}]

(***************************************************************************)
(* ICS-20 supply effects on A (only what the channel value needs)          *)
(*  "V" is a voucher on A: minted on receive, burned on send, minted back  *)
(*  on refund.  "N" is native: escrowed / unescrowed, supply constant.     *)
(***************************************************************************)
SupAdd(S, d, amt) == IF d = "V" THEN [S EXCEPT !.sup["V"] = @ + amt] ELSE S

(***************************************************************************)
(* Transactions on A.  S is the state AFTER the begin blockers.            *)
(***************************************************************************)
\* MsgTransfer by the user of A over ch
DoSend(S, a) ==
    LET p == PathOf(a.d, a.ch)  seq == S.ns[a.ch]  r == S.rl[p]  wlp == SendWhitelisted(S, a) IN
    IF ~(a.amt >= 1 /\ G_NotBlacklisted(S, a.d) /\ (wlp \/ G_SendWithinQuota(r, a.amt))) THEN R("err", "", S)
    ELSE LET S1 == IF wlp THEN S ELSE ChargeSend(S, p, seq, a.amt)
             P  == [dir |-> "out", ch |-> a.ch, seq |-> seq, d |-> a.d, amt |-> a.amt, fate |-> a.fate, fw |-> 0]
         IN R("ok", "", [SupAdd(S1, a.d, 0 - a.amt) EXCEPT !.ns[a.ch] = @ + 1, !.pk = @ \cup {P}])

IsFwd(f) == f \in {"fok", "ferr", "fto"}

\* MsgRecvPacket on A of a packet sent by B over AB (the send on B is part of the same step)
DoRecv(S, a) ==
    LET p == PathOf(a.d, "AB")  seq == S.nr  r == S.rl[p]  wlp == RecvWhitelisted(S, a)
        S0 == [S EXCEPT !.nr = @ + 1]
    IN IF ~G_NotBlacklisted(S, a.d) THEN R("ok", "err", S0)             \* error ack by the rate limiter
       ELSE IF ~wlp /\ ~G_RecvWithinQuota(r, a.amt) THEN R("ok", "err", S0)   \* error ack by the rate limiter
       ELSE IF a.fate = "err" THEN R("ok", "err", S0)                   \* transfer fails: state of the callback discarded
       ELSE IF a.fate = "ok" THEN R("ok", "ok", SupAdd((IF wlp THEN S0 ELSE ChargeRecv(S0, p, seq, a.amt, FALSE)), a.d, a.amt))
       ELSE \* forwarded over AC by the packet-forward middleware: a second transfer out of A (its sender is the
            \* middleware's own account: never a whitelisted pair)
            LET pf == PathOf(a.d, "AC")  fs == S.ns["AC"] IN
            IF ~G_SendWithinQuota(S.rl[pf], a.amt) THEN R("ok", "err", S0)   \* forward refused: synchronous error ack
            ELSE LET S1 == IF wlp THEN S0 ELSE ChargeRecv(S0, p, seq, a.amt, TRUE)
                     S2 == ChargeSend(S1, pf, fs, a.amt)
                     P  == [dir |-> "in", ch |-> "AB", seq |-> seq, d |-> a.d, amt |-> a.amt, fate |-> a.fate, fw |-> fs]
                 IN R("ok", "none", [SupAdd(S2, a.d, a.amt) EXCEPT !.ns["AC"] = @ + 1, !.pk = @ \cup {P}])

\* MsgAcknowledgement on A for an outbound packet (the peer received it in the same step)
DoAck(S, a) ==
    LET P == a.pkt  p == PathOf(a.pkt.d, a.pkt.ch) IN
    IF ~(P \in S.pk /\ P.dir = "out" /\ P.fate \in {"ok", "err"}) THEN R("err", "", S)
    ELSE LET S0 == [S EXCEPT !.pk = @ \ {P}] IN
         IF P.fate = "ok" THEN R("ok", "", [S0 EXCEPT !.ps = @ \ {Mark(p, P.seq)}])
         ELSE R("ok", "", SupAdd(UndoSend(S0, p, P.seq, P.amt), P.d, P.amt))

\* MsgTimeout on A for an outbound packet that was never delivered
DoTimeout(S, a) ==
    LET P == a.pkt  p == PathOf(a.pkt.d, a.pkt.ch) IN
    IF ~(P \in S.pk /\ P.dir = "out" /\ P.fate = "to") THEN R("err", "", S)
    ELSE R("ok", "", SupAdd(UndoSend([S EXCEPT !.pk = @ \ {P}], p, P.seq, P.amt), P.d, P.amt))

\* the packet that A forwarded for the inbound packet P is acknowledged (fok, ferr) or times out (fto) on A;
\* the packet-forward middleware then writes the acknowledgement of P through the rate limiter
DoResolve(S, a) ==
    LET P == a.pkt  p == PathOf(a.pkt.d, "AB")  pf == PathOf(a.pkt.d, "AC") IN
    IF ~(P \in S.pk /\ P.dir = "in" /\ IsFwd(P.fate)) THEN R("err", "", S)
    ELSE LET S0 == [S EXCEPT !.pk = @ \ {P}] IN
         IF P.fate = "fok"
         THEN R("ok", "ok", [S0 EXCEPT !.ps = @ \ {Mark(pf, P.fw)}, !.pr = @ \ {Mark(p, P.seq)}])
         ELSE \* refund inside A: the voucher is burned again / the native token goes back to the AB escrow
              R("ok", "err", SupAdd(UndoRecv(UndoSend(S0, pf, P.fw, P.amt), p, P.seq, P.amt), P.d, 0 - P.amt))

\* authority messages (msg_server.go, rate_limit.go)
DoAdd(S, a) ==
    LET p == PathOf(a.d, a.ch) IN
    IF ~(G_QuotaValid(a) /\ S.sup[a.d] > 0 /\ ~S.rl[p].on) THEN R("err", "", S)
    ELSE R("ok", "", StartWindow(S, p, [on |-> TRUE, qs |-> a.qs, qr |-> a.qr, dur |-> a.dur, inflow |-> 0, outflow |-> 0, cv |-> 0]))

DoUpdate(S, a) ==
    LET p == PathOf(a.d, a.ch) IN
    IF ~(G_QuotaValid(a) /\ S.rl[p].on) THEN R("err", "", S)
    ELSE R("ok", "", StartWindow(S, p, [on |-> TRUE, qs |-> a.qs, qr |-> a.qr, dur |-> a.dur, inflow |-> 0, outflow |-> 0, cv |-> 0]))

DoRemove(S, a) ==
    LET p == PathOf(a.d, a.ch) IN
    IF ~S.rl[p].on THEN R("err", "", S) ELSE R("ok", "", EndWindow(S, p))

DoReset(S, a) ==
    LET p == PathOf(a.d, a.ch) IN
    IF ~S.rl[p].on THEN R("err", "", S) ELSE R("ok", "", StartWindow(S, p, S.rl[p]))

\* whitelist / blacklist administration (keeper functions used by genesis and upgrade handlers; total, idempotent)
DoWlAdd(S, a) == R("ok", "", [S EXCEPT !.wl = @ \cup {a.pair}])
DoWlDel(S, a) == R("ok", "", [S EXCEPT !.wl = @ \ {a.pair}])
DoBlAdd(S, a) == R("ok", "", [S EXCEPT !.bl = @ \cup {a.d}])
DoBlDel(S, a) == R("ok", "", [S EXCEPT !.bl = @ \ {a.d}])

(***************************************************************************)
(* Step.  a = [a |-> name, dt |-> ticks, nb |-> blocks of A in this step]  *)
(* A failed transaction changes nothing but the begin blockers still ran.  *)
(***************************************************************************)
Nb(a) == IF "nb" \in DOMAIN a THEN a.nb ELSE 1

Pre(S, a) == [BeginBlocks(S, S.now + a.dt, Nb(a)) EXCEPT !.now = S.now + a.dt]

Tx(S, a) ==
    CASE a.a = "Block"   -> R("ok", "", S)
      [] a.a = "XImport" -> R("ok", "", S)      \* genesis export + import: identity on the state
      [] a.a = "Send"    -> DoSend(S, a)
      [] a.a = "Recv"    -> DoRecv(S, a)
      [] a.a = "Ack"     -> DoAck(S, a)
      [] a.a = "Timeout" -> DoTimeout(S, a)
      [] a.a = "Resolve" -> DoResolve(S, a)
      [] a.a = "Add"     -> DoAdd(S, a)
      [] a.a = "Update"  -> DoUpdate(S, a)
      [] a.a = "Remove"  -> DoRemove(S, a)
      [] a.a = "Reset"   -> DoReset(S, a)
      [] a.a = "WlAdd"   -> DoWlAdd(S, a)
      [] a.a = "WlDel"   -> DoWlDel(S, a)
      [] a.a = "BlAdd"   -> DoBlAdd(S, a)
      [] a.a = "BlDel"   -> DoBlDel(S, a)

Step(S, a) == Tx(Pre(S, a), a)

(***************************************************************************)
(* Property C41 as state predicates over (implementation state, ghost)     *)
(***************************************************************************)
I_OutflowIdentity(S) == \A p \in Paths : S.rl[p].on => S.rl[p].outflow = SumAmt(S.g.out[p])
I_InflowIdentity(S)  == \A p \in Paths : S.rl[p].on => S.rl[p].inflow  = SumAmt(S.g.inn[p])
I_NonNegative(S)     == \A p \in Paths : S.rl[p].inflow >= 0 /\ S.rl[p].outflow >= 0
\* the implementation's markers are exactly the not yet finalised packets of the current window
I_MarkersAreWindow(S) == \A p \in Paths : S.rl[p].on =>
                            /\ { m.seq : m \in PathMarkers(S.ps, p) } \subseteq { x.seq : x \in S.g.out[p] }
                            /\ { m.seq : m \in PathMarkers(S.pr, p) } \subseteq { x.seq : x \in S.g.inn[p] }

AllInvariants(S) == I_OutflowIdentity(S) /\ I_InflowIdentity(S) /\ I_NonNegative(S) /\ I_MarkersAreWindow(S)

InitState(supN, supV, nsAB, nsAC, nr) ==
    [now |-> 1, ep |-> [num |-> 0, start |-> 0],
     rl |-> [p \in Paths |-> NoRL], ps |-> {}, pr |-> {},
     sup |-> [d \in Denoms |-> IF d = "N" THEN supN ELSE supV],
     ns |-> [c \in Chans |-> IF c = "AB" THEN nsAB ELSE nsAC], nr |-> nr,
     pk |-> {}, wl |-> {}, bl |-> {}, g |-> EmptyGhost]
=============================================================================
