--------------------------- MODULE Sched_RLDenom ---------------------------
(* Case-table generation for C42 (DESIGN.md 2.1b, full enumeration): every base-denomination  *)
(* shape x route is written once as a schedule of hop actions for the Go driver.             *)
(* EXCL_KF = TRUE leaves out exactly the input class of KF-C42-1.                             *)
EXTENDS RLDenom, Json, TLC

CONSTANTS OutFile, EXCL_KF, BASES, ROUTES

VARIABLE done

CaseActs(b, r) ==
    LET route == RouteOf(r)
        hops  == [i \in 1..(2 * Len(route)) |->
                     [a |-> IF i % 2 = 1 THEN "XSend" ELSE "XRecv", hop |-> (i + 1) \div 2,
                      L |-> route[(i + 1) \div 2].L, from |-> route[(i + 1) \div 2].from, m |-> route[(i + 1) \div 2].m]]
    IN <<[a |-> "Case", base |-> b, segs |-> BaseSegs(b), route |-> r, hops |-> route, kf |-> InKFClass(b)]>> \o hops

RECURSIVE SetToSeqOf(_)
SetToSeqOf(X) == IF X = {} THEN <<>> ELSE LET x == CHOOSE y \in X : TRUE IN <<x>> \o SetToSeqOf(X \ {x})

Table == SetToSeqOf({ [base |-> b, route |-> r, acts |-> CaseActs(b, r)] :
                      b \in { x \in BASES : ~(EXCL_KF /\ InKFClass(x)) }, r \in ROUTES })

Init == done = FALSE
Next == ~done /\ done' = TRUE /\ JsonSerialize(OutFile, Table)
Spec == Init /\ [][Next]_done
=============================================================================
