-------------------------------- MODULE PFM --------------------------------
(***************************************************************************)
(* Packet forwarding (modules/apps/packet-forward-middleware) over an      *)
(* abstract ICS-20 layer, chains A - B - C - D joined in a line by the     *)
(* transfer channels AB, BC, CD, plus a SECOND channel BX between B and C  *)
(* (so that B and C hold vouchers that came over a channel which is        *)
(* neither the one a forwarded packet arrived on nor the one it leaves     *)
(* over -- the third refund case of the middleware: such funds are MOVED   *)
(* between the two escrows, never burned).  Every chain runs the stack     *)
(*      core -> rate-limit -> packet-forward -> transfer                   *)
(* (no rate limits are configured in this specification).                  *)
(*                                                                         *)
(* A denomination is  [t |-> trace, b |-> base]  where the trace is the    *)
(* sequence of channel ENDS "L@c" (link L as seen on chain c) the token    *)
(* was received over, newest first -- ICS-20's port/channel prefixes.      *)
(* Hashes are abstracted by the hashed record (injective).                 *)
(*                                                                         *)
(* The module is a FUNCTION  Step(S, a) = [res, S']  (FRAMEWORK.md 2).     *)
(* The packet layer is abstract (DESIGN.md 4): a sent packet is received   *)
(* at most once and gets at most one of acknowledgement / timeout; the     *)
(* adversary picks order and outcome, constrained only by the timeout      *)
(* timestamp of the packet (exp, in ticks; 0 = never).                     *)
(***************************************************************************)
EXTENDS Integers, Sequences, FiniteSets, TLC

Chains == {"A", "B", "C", "D"}
Links  == {"AB", "BC", "CD", "BX"}

EndsOf(L) == CASE L = "AB" -> <<"A", "B">> [] L = "BC" -> <<"B", "C">> [] L = "CD" -> <<"C", "D">> [] L = "BX" -> <<"B", "C">>
Other(L, c) == IF EndsOf(L)[1] = c THEN EndsOf(L)[2] ELSE EndsOf(L)[1]
LinksOf(c)  == { L \in Links : c \in {EndsOf(L)[1], EndsOf(L)[2]} }
End(L, c)   == L \o "@" \o c
Esc(L)      == "esc:" \o L

Native(b) == [t |-> <<>>, b |-> b]
HasPrefix(d, e) == Len(d.t) >= 1 /\ d.t[1] = e

(***************************************************************************)
(* State                                                                   *)
(*  now   time (ticks)                                                     *)
(*  bal   [<<chain, account, denom>> -> amount]   only non-zero entries    *)
(*  sup   [<<chain, denom>> -> amount]            only non-zero entries    *)
(*  inf   in-flight forward records of the middleware:                     *)
(*        [c, L, seq, refL, refSeq, ret, to]                               *)
(*  ns    [<<chain, L>> -> next send sequence]                             *)
(*  pk    packets ever sent:  [src, L, seq, d, amt, snd, rcv, memo, exp]   *)
(*  recv  [packet id -> "ok" | "err"]   result of the receive              *)
(*  ackw  [packet id -> "ok" | "err"]   acknowledgement written            *)
(*  done  packet ids whose ack / timeout was processed on the source       *)
(*  refd  packet ids refunded on their source chain                        *)
(*  off   chains whose transfer parameter SendEnabled is false: every      *)
(*        MsgTransfer there fails -- a user's transfer, the forward of a   *)
(*        received packet (=> error acknowledgement, the receive is        *)
(*        discarded) and the RETRY of a timed-out forward (=> the timeout  *)
(*        transaction fails as a whole and can be submitted again later)   *)
(* Accounts per chain: "user", "rcvr", "pfm" (the middleware's override    *)
(* receiver), "esc:L" (escrow of link L), "mod" (transfer module).         *)
(***************************************************************************)
Id(P) == <<P.src, P.L, P.seq>>

Get(f, k) == IF k \in DOMAIN f THEN f[k] ELSE 0
Put(f, k, v) == IF v = 0 THEN [x \in (DOMAIN f) \ {k} |-> f[x]]
                ELSE [x \in (DOMAIN f) \cup {k} |-> IF x = k THEN v ELSE f[x]]

Bal(S, c, a, d) == Get(S.bal, <<c, a, d>>)
Sup(S, c, d)    == Get(S.sup, <<c, d>>)

AddBal(S, c, a, d, n) == [S EXCEPT !.bal = Put(@, <<c, a, d>>, Get(@, <<c, a, d>>) + n)]
AddSup(S, c, d, n)    == [S EXCEPT !.sup = Put(@, <<c, d>>, Get(@, <<c, d>>) + n)]
Move(S, c, from, to, d, n) == AddBal(AddBal(S, c, from, d, 0 - n), c, to, d, n)
Mint(S, c, to, d, n)       == AddSup(AddBal(S, c, to, d, n), c, d, n)
Burn(S, c, from, d, n)     == AddSup(AddBal(S, c, from, d, 0 - n), c, d, 0 - n)

(***************************************************************************)
(* ICS-20 (transfer/keeper/relay.go)                                       *)
(***************************************************************************)
\* SendTransfer: vouchers going back over the channel they came from are burned, everything else is escrowed
G_HasFunds(S, c, a, d, n) == Bal(S, c, a, d) >= n
SendCoin(S, c, L, a, d, n) ==
    IF HasPrefix(d, End(L, c)) THEN Burn(S, c, a, d, n) ELSE Move(S, c, a, Esc(L), d, n)

\* OnRecvPacket on chain c for a packet sent by the other end of L: the denomination credited on c
RecvDenom(c, L, d) == IF HasPrefix(d, End(L, Other(L, c))) THEN [t |-> Tail(d.t), b |-> d.b]
                      ELSE [t |-> <<End(L, c)>> \o d.t, b |-> d.b]
G_CanCredit(S, c, L, d, n) == HasPrefix(d, End(L, Other(L, c))) => Bal(S, c, Esc(L), RecvDenom(c, L, d)) >= n
RecvCoin(S, c, L, to, d, n) ==
    IF HasPrefix(d, End(L, Other(L, c))) THEN Move(S, c, Esc(L), to, RecvDenom(c, L, d), n)
    ELSE Mint(S, c, to, RecvDenom(c, L, d), n)

\* refundPacketTokens: back to the sender of the packet
RefundCoin(S, P) ==
    IF HasPrefix(P.d, End(P.L, P.src)) THEN Mint(S, P.src, P.snd, P.d, P.amt)
    ELSE Move(S, P.src, Esc(P.L), P.snd, P.d, P.amt)

NextSeq(S, c, L) == Get(S.ns, <<c, L>>)

NewPacket(S, c, L, snd, d, n, rcv, memo, exp) ==
    [src |-> c, L |-> L, seq |-> NextSeq(S, c, L), d |-> d, amt |-> n, snd |-> snd, rcv |-> rcv, memo |-> memo, exp |-> exp]

\* MsgTransfer / keeper.Transfer: escrow or burn, then the packet is committed
Transfer(S, c, L, snd, d, n, rcv, memo, exp) ==
    LET P == NewPacket(S, c, L, snd, d, n, rcv, memo, exp) IN
    [SendCoin(S, c, L, snd, d, n) EXCEPT !.ns = Put(@, <<c, L>>, P.seq + 1), !.pk = @ \cup {P}]

(***************************************************************************)
(* Forward metadata: memo = sequence of hops                               *)
(*    [L, rcv, to, ret, chok]                                              *)
(* L link to forward over, rcv receiver of the forwarded transfer, to the  *)
(* timeout of the forwarded packet in ticks, ret retries on timeout, chok  *)
(* FALSE when the memo names a channel that does not exist.                *)
(***************************************************************************)
InfRec(S, c, L, seq) == { r \in S.inf : r.c = c /\ r.L = L /\ r.seq = seq }
PacketOf(S, src, L, seq) == CHOOSE P \in S.pk : P.src = src /\ P.L = L /\ P.seq = seq

\* keeper.ForwardTransferPacket on chain c for the received packet Q (first forward: ret = the memo's retries)
Forward(S, c, Q, h, d, ret, t) ==
    LET rest == Tail(Q.memo)
        P    == NewPacket(S, c, h.L, "pfm", d, Q.amt, h.rcv, rest, t + h.to)
        S1   == Transfer(S, c, h.L, "pfm", d, Q.amt, h.rcv, rest, t + h.to)
    IN [S1 EXCEPT !.inf = @ \cup {[c |-> c, L |-> h.L, seq |-> P.seq, refL |-> Q.L, refSeq |-> Q.seq, ret |-> ret, to |-> h.to]}]

\* keeper.WriteAcknowledgementForForwardedPacket with an error: the funds held for the forwarded packet P on chain c
\* go back towards the chain the original packet Q came from
PFMRefund(S, c, P, Q) ==
    IF ~HasPrefix(P.d, End(P.L, c))
    THEN IF ~HasPrefix(P.d, End(Q.L, c)) THEN Move(S, c, Esc(P.L), Esc(Q.L), P.d, P.amt)
         ELSE Burn(S, c, Esc(P.L), P.d, P.amt)
    ELSE Mint(S, c, Esc(Q.L), P.d, P.amt)

(***************************************************************************)
(* Relayer / user actions.  t = block time of the transaction.             *)
(***************************************************************************)
Ok(S2)  == [res |-> "ok", S |-> S2]
Err(S, t) == [res |-> "err", S |-> [S EXCEPT !.now = t]]

Alive(P, t) == P.exp = 0 \/ t < P.exp

\* user transfer on chain a.c
G_SendsEnabled(S, c) == c \notin S.off

DoTransfer(S, a, t) ==
    LET d == a.d IN
    IF ~(a.amt >= 1 /\ G_SendsEnabled(S, a.c) /\ G_HasFunds(S, a.c, "user", d, a.amt)) THEN Err(S, t)
    ELSE Ok([Transfer(S, a.c, a.L, "user", d, a.amt, a.rcv, a.memo, IF a.exp = 0 THEN 0 ELSE t + a.exp) EXCEPT !.now = t])

G_Receivable(S, P, t) == P \in S.pk /\ Id(P) \notin DOMAIN S.recv /\ Id(P) \notin S.done /\ Alive(P, t)

DoRecv(S, a, t) ==
    LET P == a.pkt  c == Other(a.pkt.L, a.pkt.src)  id == Id(a.pkt) IN
    IF ~G_Receivable(S, P, t) THEN Err(S, t)
    ELSE LET S0   == [S EXCEPT !.now = t]
             fail == [S0 EXCEPT !.recv = (id :> "err") @@ @, !.ackw = (id :> "err") @@ @] IN
         IF P.memo = <<>>
         THEN IF P.rcv = "bad" \/ ~G_CanCredit(S, c, P.L, P.d, P.amt) THEN Ok(fail)
              ELSE Ok([RecvCoin(S0, c, P.L, P.rcv, P.d, P.amt) EXCEPT !.recv = (id :> "ok") @@ @, !.ackw = (id :> "ok") @@ @])
         ELSE LET h == Head(P.memo) IN
              IF ~G_CanCredit(S, c, P.L, P.d, P.amt) \/ ~h.chok \/ ~G_SendsEnabled(S, c) THEN Ok(fail)
              ELSE LET S1 == RecvCoin(S0, c, P.L, "pfm", P.d, P.amt)
                       S2 == Forward(S1, c, P, h, RecvDenom(c, P.L, P.d), h.ret, t)
                   IN Ok([S2 EXCEPT !.recv = (id :> "ok") @@ @])

\* acknowledgement written on chain c for the original packet Q of a forward; it travels on with the next relay
WriteAck(S, Q, cls) == [S EXCEPT !.ackw = (Id(Q) :> cls) @@ @]

G_Ackable(S, P) == P \in S.pk /\ Id(P) \in DOMAIN S.ackw /\ Id(P) \notin S.done

DoAck(S, a, t) ==
    LET P == a.pkt  c == a.pkt.src  id == Id(a.pkt) IN
    IF ~G_Ackable(S, P) THEN Err(S, t)
    ELSE LET S0 == [S EXCEPT !.now = t, !.done = @ \cup {id}]
             rs == InfRec(S, c, P.L, P.seq) IN
         IF rs # {}
         THEN LET r  == CHOOSE x \in rs : TRUE
                  Q  == PacketOf(S, Other(r.refL, c), r.refL, r.refSeq)
                  S1 == [S0 EXCEPT !.inf = @ \ rs] IN
              IF S.ackw[id] = "ok" THEN Ok(WriteAck(S1, Q, "ok"))
              ELSE Ok(WriteAck([PFMRefund(S1, c, P, Q) EXCEPT !.refd = @ \cup {id}], Q, "err"))
         ELSE IF S.ackw[id] = "ok" THEN Ok(S0)
              ELSE Ok([RefundCoin(S0, P) EXCEPT !.refd = @ \cup {id}])

G_TimedOut(S, P, t) == P \in S.pk /\ Id(P) \notin DOMAIN S.recv /\ Id(P) \notin S.done /\ P.exp # 0 /\ t > P.exp

DoTimeout(S, a, t) ==
    LET P == a.pkt  c == a.pkt.src  id == Id(a.pkt) IN
    IF ~G_TimedOut(S, P, t) THEN Err(S, t)
    ELSE LET S0 == [S EXCEPT !.now = t, !.done = @ \cup {id}, !.refd = @ \cup {id}]
             rs == InfRec(S, c, P.L, P.seq) IN
         IF rs # {}
         THEN LET r  == CHOOSE x \in rs : TRUE
                  Q  == PacketOf(S, Other(r.refL, c), r.refL, r.refSeq)
                  S1 == [S0 EXCEPT !.inf = @ \ rs] IN
              IF r.ret <= 0 THEN Ok(WriteAck(PFMRefund(S1, c, P, Q), Q, "err"))
              ELSE IF ~G_SendsEnabled(S, c) THEN Err(S, t)     \* the retry cannot be sent: the whole transaction fails
              ELSE \* retry: ICS-20 refunds the middleware's account, which sends the same transfer again
                   LET S2 == RefundCoin(S1, P)
                       N  == NewPacket(S2, c, P.L, "pfm", P.d, P.amt, P.rcv, P.memo, t + r.to)
                       S3 == Transfer(S2, c, P.L, "pfm", P.d, P.amt, P.rcv, P.memo, t + r.to)
                   IN Ok([S3 EXCEPT !.inf = @ \cup {[r EXCEPT !.seq = N.seq, !.ret = r.ret - 1]}])
         ELSE Ok(RefundCoin(S0, P))

Step(S, a) ==
    LET t == S.now + a.dt IN
    CASE a.a = "Transfer" -> DoTransfer(S, a, t)
      [] a.a = "Recv"     -> DoRecv(S, a, t)
      [] a.a = "Ack"      -> DoAck(S, a, t)
      [] a.a = "Timeout"  -> DoTimeout(S, a, t)
      [] a.a = "Block"    -> Ok([S EXCEPT !.now = t])
      [] a.a = "XImport"  -> Ok([S EXCEPT !.now = t])     \* genesis export + import on chain a.c: identity
      [] a.a = "SetSend"  -> Ok([S EXCEPT !.now = t, !.off = IF a.on THEN @ \ {a.c} ELSE @ \cup {a.c}])   \* transfer MsgUpdateParams

(***************************************************************************)
(* Property C43 as state predicates                                        *)
(***************************************************************************)
Accounts(c) == {"user", "rcvr", "pfm", "mod"} \cup { Esc(L) : L \in LinksOf(c) }
DenomsOf(S) == { k[3] : k \in DOMAIN S.bal } \cup { k[2] : k \in DOMAIN S.sup }

RECURSIVE SumOver(_, _)
SumOver(f, K) == IF K = {} THEN 0 ELSE LET k == CHOOSE x \in K : TRUE IN Get(f, k) + SumOver(f, K \ {k})

\* conservation on every chain: the supply of every denomination is exactly what the tracked accounts hold
I_Conserved(S) == \A c \in Chains : \A d \in DenomsOf(S) :
                     Sup(S, c, d) = SumOver(S.bal, { <<c, a, d>> : a \in Accounts(c) })
                  /\ \A k \in DOMAIN S.bal : k[2] \in Accounts(k[1]) /\ S.bal[k] > 0

\* a packet whose funds have left its source (escrowed or burned there) but are not represented on the destination
Floating(S, P) == Id(P) \notin S.refd
                  /\ ~(Id(P) \in DOMAIN S.recv /\ S.recv[Id(P)] = "ok" /\ ~(Id(P) \in DOMAIN S.ackw /\ S.ackw[Id(P)] = "err"))

RECURSIVE SumAmtP(_)
SumAmtP(X) == IF X = {} THEN 0 ELSE LET x == CHOOSE y \in X : TRUE IN x.amt + SumAmtP(X \ {x})

\* every escrow backs exactly the vouchers of the other end plus what is in flight in either direction
I_Backed(S) == \A L \in Links : \A c \in {EndsOf(L)[1], EndsOf(L)[2]} : \A d \in DenomsOf(S) :
                  ~HasPrefix(d, End(L, c)) =>
                     LET o == Other(L, c)
                         v == [t |-> <<End(L, o)>> \o d.t, b |-> d.b]
                     IN Bal(S, c, Esc(L), d) = Sup(S, o, v)
                           + SumAmtP({ P \in S.pk : P.src = c /\ P.L = L /\ P.d = d /\ Floating(S, P) })
                           + SumAmtP({ P \in S.pk : P.src = o /\ P.L = L /\ P.d = v /\ Floating(S, P) })

\* IBC never changes the total supply of a native token (1000 of T<c> on its home chain <c>, none elsewhere)
I_NativeSupply(S) == \A c \in Chains : \A h \in Chains :
                        Sup(S, c, Native("T" \o h)) = IF c = h THEN 1000 ELSE 0

\* the middleware's receive account and the transfer module account never keep funds
I_NoIntermediateFunds(S) == \A k \in DOMAIN S.bal : k[2] \notin {"pfm", "mod"}

\* an in-flight record exists exactly for a forwarded packet that is not finished
I_InflightLive(S) == \A r \in S.inf : \E P \in S.pk : P.src = r.c /\ P.L = r.L /\ P.seq = r.seq /\ Id(P) \notin S.done

AllInvariants(S) == I_Conserved(S) /\ I_Backed(S) /\ I_NoIntermediateFunds(S) /\ I_InflightLive(S) /\ I_NativeSupply(S)

Bank(S) == [bal |-> S.bal, sup |-> S.sup, inf |-> S.inf]

EmptyFn == [x \in {} |-> 0]
=============================================================================
