---------------------------- MODULE MC_RateLimit ----------------------------
(* Exhaustive model check of the rate-limit design (DESIGN.md 2.1a) for C41.   *)
EXTENDS RLActions

CONSTANTS SUPN, SUPV      \* initial supplies of the two denominations on A

VARIABLE S

(* vacuity witnesses: printed the first time a worker sees them *)
Names == <<"Block", "Send:ok", "Send:err", "Recv:ok", "Recv:err", "Recv:none", "Ack:ok", "Ack:undo", "Timeout:undo",
           "Resolve:ok", "Resolve:undo", "Add:ok", "Add:err", "Update:ok", "Remove:ok", "Reset:ok",
           "EpochReset", "EpochResetWhilePending", "AdminWhilePending", "UndoOutsideWindow", "ExactQuota", "QuotaRefused",
           "RecvRefusedByQuota", "NetFlowOffsets",
           "Wl:SendBeyondQuota", "Wl:SendNotCounted", "Wl:UndoLeavesFlow", "Wl:RecvNotCounted", "Wl:Del", "Wl:OtherPairCounted",
           "Bl:SendRefused", "Bl:RecvRefused", "Bl:UndoWhileBlacklisted", "Bl:Del">>
Idx(n) == CHOOSE i \in DOMAIN Names : Names[i] = n
Wit(n) == IF TLCGet(Idx(n)) = 0 THEN TLCSet(Idx(n), 1) /\ PrintT(<<"WITNESS", n>>) ELSE TRUE
WitIf(c, n) == IF c THEN Wit(n) ELSE TRUE

Pending(T, p) == PathMarkers(T.ps, p) # {} \/ PathMarkers(T.pr, p) # {}

Witnesses(a, r) ==
    LET T == Pre(S, a)
        p == IF a.a \in {"Send", "Recv", "Add", "Update", "Remove", "Reset"} THEN PathOf(a.d, a.ch)
             ELSE IF a.a \in {"Ack", "Timeout", "Resolve"} THEN PathOf(a.pkt.d, a.pkt.ch) ELSE "N/AB"
    IN /\ WitIf(a.a = "Block", "Block")
       /\ WitIf(a.a = "Send" /\ r.res = "ok", "Send:ok") /\ WitIf(a.a = "Send" /\ r.res = "err", "Send:err")
       /\ WitIf(a.a = "Recv" /\ r.ack = "ok", "Recv:ok") /\ WitIf(a.a = "Recv" /\ r.ack = "err", "Recv:err")
       /\ WitIf(a.a = "Recv" /\ r.ack = "none", "Recv:none")
       /\ WitIf(a.a = "Ack" /\ r.res = "ok" /\ a.pkt.fate = "ok", "Ack:ok")
       /\ WitIf(a.a = "Ack" /\ r.res = "ok" /\ a.pkt.fate = "err" /\ r.S.rl[p].outflow < T.rl[p].outflow, "Ack:undo")
       /\ WitIf(a.a = "Timeout" /\ r.res = "ok" /\ r.S.rl[p].outflow < T.rl[p].outflow, "Timeout:undo")
       /\ WitIf(a.a = "Resolve" /\ r.ack = "ok", "Resolve:ok")
       /\ WitIf(a.a = "Resolve" /\ r.ack = "err" /\ r.S.rl[p].inflow < T.rl[p].inflow, "Resolve:undo")
       /\ WitIf(a.a = "Add" /\ r.res = "ok", "Add:ok") /\ WitIf(a.a = "Add" /\ r.res = "err", "Add:err")
       /\ WitIf(a.a = "Update" /\ r.res = "ok", "Update:ok")
       /\ WitIf(a.a = "Remove" /\ r.res = "ok", "Remove:ok") /\ WitIf(a.a = "Reset" /\ r.res = "ok", "Reset:ok")
       /\ WitIf(T.ep.num # S.ep.num /\ \E q \in Paths : S.rl[q].on, "EpochReset")
       /\ WitIf(T.ep.num # S.ep.num /\ \E q \in Paths : S.rl[q].on /\ Pending(S, q) /\ ~Pending(T, q), "EpochResetWhilePending")
       /\ WitIf(a.a \in {"Update", "Remove", "Reset"} /\ r.res = "ok" /\ Pending(T, p), "AdminWhilePending")
       /\ WitIf(a.a \in {"Ack", "Timeout"} /\ r.res = "ok" /\ a.pkt.fate # "ok" /\ T.rl[p].on
                /\ r.S.rl[p].outflow = T.rl[p].outflow, "UndoOutsideWindow")
       /\ WitIf(a.a = "Send" /\ r.res = "ok" /\ T.rl[p].on /\ T.rl[p].cv > 0
                /\ T.rl[p].outflow - T.rl[p].inflow + a.amt = Threshold(T.rl[p].cv, T.rl[p].qs), "ExactQuota")
       /\ WitIf(a.a = "Send" /\ r.res = "err" /\ T.rl[p].on, "QuotaRefused")
       /\ WitIf(a.a = "Recv" /\ r.ack = "err" /\ a.fate # "err" /\ T.rl[p].on, "RecvRefusedByQuota")
       /\ WitIf(a.a = "Send" /\ r.res = "ok" /\ T.rl[p].on /\ T.rl[p].inflow > 0
                /\ T.rl[p].outflow + a.amt > Threshold(T.rl[p].cv, T.rl[p].qs), "NetFlowOffsets")
       \* whitelisted address pairs: accepted beyond the quota, not counted, no marker, the refund leaves the flow alone
       /\ WitIf(a.a = "Send" /\ r.res = "ok" /\ T.rl[p].on /\ SendWhitelisted(T, a) /\ ~G_SendWithinQuota(T.rl[p], a.amt), "Wl:SendBeyondQuota")
       /\ WitIf(a.a = "Send" /\ r.res = "ok" /\ T.rl[p].on /\ SendWhitelisted(T, a) /\ T.rl[p].outflow > 0
                /\ r.S.rl[p].outflow = T.rl[p].outflow /\ r.S.ps = T.ps, "Wl:SendNotCounted")
       /\ WitIf(a.a = "Send" /\ r.res = "ok" /\ T.rl[p].on /\ T.wl # {} /\ ~SendWhitelisted(T, a)
                /\ r.S.rl[p].outflow > T.rl[p].outflow, "Wl:OtherPairCounted")
       /\ WitIf(a.a \in {"Ack", "Timeout"} /\ r.res = "ok" /\ a.pkt.fate # "ok" /\ T.rl[p].on /\ T.rl[p].outflow > 0
                /\ Acc(a.pkt.seq, a.pkt.amt) \notin T.g.out[p] /\ <<"out", p, a.pkt.seq>> \notin T.g.undone
                /\ T.g.out[p] # {} /\ T.wl # {} /\ r.S.rl[p].outflow = T.rl[p].outflow, "Wl:UndoLeavesFlow")
       /\ WitIf(a.a = "Recv" /\ r.ack = "ok" /\ T.rl[p].on /\ RecvWhitelisted(T, a) /\ r.S.rl[p].inflow = T.rl[p].inflow, "Wl:RecvNotCounted")
       /\ WitIf(a.a = "WlDel" /\ a.pair \in T.wl, "Wl:Del")
       /\ WitIf(a.a = "Send" /\ r.res = "err" /\ a.d \in T.bl /\ G_SendWithinQuota(T.rl[p], a.amt), "Bl:SendRefused")
       /\ WitIf(a.a = "Recv" /\ r.ack = "err" /\ a.d \in T.bl /\ a.fate = "ok" /\ G_RecvWithinQuota(T.rl[p], a.amt), "Bl:RecvRefused")
       /\ WitIf(a.a \in {"Ack", "Timeout"} /\ r.res = "ok" /\ a.pkt.fate # "ok" /\ a.pkt.d \in T.bl
                /\ r.S.rl[p].outflow < T.rl[p].outflow, "Bl:UndoWhileBlacklisted")
       /\ WitIf(a.a = "BlDel" /\ a.d \in T.bl, "Bl:Del")

Init == S = InitState(SUPN, SUPV, 1, 1, 1) /\ \A i \in DOMAIN Names : TLCSet(i, 0)
Next == \E a \in Acts(S, 3) : LET r == Step(S, a) IN S' = r.S /\ Witnesses(a, r)
Spec == Init /\ [][Next]_S

Bound == S.now <= MaxT

Inv == AllInvariants(S)

(* C41 as action properties of the design *)
\* a transfer is accepted (joins the window) only within the quota of the channel value recorded at window start
AcceptedWithinQuota ==
    [][\A p \in Paths : S'.rl[p].on /\ S'.rl[p].cv > 0 =>
          /\ (S'.g.out[p] \ S.g.out[p] # {} => S'.rl[p].outflow - S'.rl[p].inflow <= Threshold(S'.rl[p].cv, S'.rl[p].qs))
          /\ (S'.g.inn[p] \ S.g.inn[p] # {} => S'.rl[p].inflow - S'.rl[p].outflow <= Threshold(S'.rl[p].cv, S'.rl[p].qr))]_S
\* each packet is undone at most once: an undone packet never counts again and is never subtracted again
UndoneOnce == [][/\ S.g.undone \subseteq S'.g.undone
                 /\ \A u \in S.g.undone : \A x \in S'.g.out[u[2]] \cup S'.g.inn[u[2]] :
                        ~(x.seq = u[3] /\ ((u[1] = "out" /\ x \in S'.g.out[u[2]]) \/ (u[1] = "in" /\ x \in S'.g.inn[u[2]])))]_S
=============================================================================
