------------------------------- MODULE MC_PFM -------------------------------
(* Exhaustive model check of the forwarding design (DESIGN.md 2.1a) for C43:  *)
(* every journey of the configured shapes, every relayer choice (deliver or   *)
(* let time out, at every hop, with retries).                                 *)
EXTENDS PFMActions

CONSTANTS MaxJ,      \* journeys per behaviour (one after the other)
          MaxOff     \* how often SendEnabled may be switched off in a behaviour

VARIABLES S, J, nj, nOff

vars == <<S, J, nj, nOff>>

Names == <<"Transfer", "Recv:final", "Recv:forward", "Recv:err", "Ack:ok", "Ack:err", "Ack:fwd-ok", "Ack:fwd-err",
           "Timeout:plain", "Timeout:giveup", "Timeout:retry", "Terminal:delivered", "Terminal:refunded",
           "Refund:move", "Refund:burn", "Refund:mint", "Unwind:2", "Depth:3", "BadChannel",
           "Refund:move-voucher", "Refund:move-voucher-timeout", "Refund:move-voucher-onC", "Route:x", "Route:xb", "Forward:third-channel",
           "SendOff:retry-fails", "SendOff:forward-fails", "SendOff:retry-after-on", "Mid:valid">>
Idx(n) == CHOOSE i \in DOMAIN Names : Names[i] = n
Wit(n) == IF TLCGet(Idx(n)) = 0 THEN TLCSet(Idx(n), 1) /\ PrintT(<<"WITNESS", n>>) ELSE TRUE
WitIf(c, n) == IF c THEN Wit(n) ELSE TRUE

NoJ == [on |-> FALSE]

Init == S = SetUp /\ J = NoJ /\ nj = 0 /\ nOff = 0 /\ \A i \in DOMAIN Names : TLCSet(i, 0)

Fwd(S0, P) == InfRec(S0, P.src, P.L, P.seq) # {}

Witnesses(a, T) ==
    /\ WitIf(a.a = "Transfer", "Transfer")
    /\ WitIf(a.a = "Transfer" /\ Len(a.memo) = 2, "Depth:3")
    /\ WitIf(a.a = "Recv" /\ a.pkt.memo = <<>> /\ T.recv[Id(a.pkt)] = "ok", "Recv:final")
    /\ WitIf(a.a = "Recv" /\ a.pkt.memo # <<>> /\ T.recv[Id(a.pkt)] = "ok", "Recv:forward")
    /\ WitIf(a.a = "Recv" /\ T.recv[Id(a.pkt)] = "err", "Recv:err")
    /\ WitIf(a.a = "Recv" /\ a.pkt.memo # <<>> /\ ~Head(a.pkt.memo).chok, "BadChannel")
    /\ WitIf(a.a = "Recv" /\ Len(a.pkt.d.t) >= 1 /\ a.pkt.src = "B" /\ HasPrefix(a.pkt.d, End(a.pkt.L, "B")), "Unwind:2")
    /\ WitIf(a.a = "Ack" /\ ~Fwd(S, a.pkt) /\ S.ackw[Id(a.pkt)] = "ok", "Ack:ok")
    /\ WitIf(a.a = "Ack" /\ ~Fwd(S, a.pkt) /\ S.ackw[Id(a.pkt)] = "err", "Ack:err")
    /\ WitIf(a.a = "Ack" /\ Fwd(S, a.pkt) /\ S.ackw[Id(a.pkt)] = "ok", "Ack:fwd-ok")
    /\ WitIf(a.a = "Ack" /\ Fwd(S, a.pkt) /\ S.ackw[Id(a.pkt)] = "err", "Ack:fwd-err")
    /\ WitIf(a.a = "Timeout" /\ ~Fwd(S, a.pkt), "Timeout:plain")
    /\ WitIf(a.a = "Timeout" /\ Fwd(S, a.pkt) /\ (CHOOSE r \in InfRec(S, a.pkt.src, a.pkt.L, a.pkt.seq) : TRUE).ret <= 0, "Timeout:giveup")
    /\ WitIf(a.a = "Timeout" /\ Fwd(S, a.pkt) /\ (CHOOSE r \in InfRec(S, a.pkt.src, a.pkt.L, a.pkt.seq) : TRUE).ret > 0, "Timeout:retry")
    /\ WitIf(a.a \in {"Ack", "Timeout"} /\ Fwd(S, a.pkt) /\ Id(a.pkt) \in T.refd /\ T.inf \subseteq S.inf
             /\ ~HasPrefix(a.pkt.d, End(a.pkt.L, a.pkt.src)) /\ Sup(T, a.pkt.src, a.pkt.d) = Sup(S, a.pkt.src, a.pkt.d), "Refund:move")
    /\ WitIf(a.a \in {"Ack", "Timeout"} /\ Fwd(S, a.pkt) /\ Id(a.pkt) \in T.refd /\ T.inf \subseteq S.inf
             /\ Sup(T, a.pkt.src, a.pkt.d) < Sup(S, a.pkt.src, a.pkt.d), "Refund:burn")
    \* the refund of a voucher that came over a third channel: moved from the forward escrow to the refund escrow
    /\ WitIf(a.a \in {"Ack", "Timeout"} /\ Fwd(S, a.pkt) /\ Id(a.pkt) \in T.refd /\ T.inf \subseteq S.inf /\ Len(a.pkt.d.t) >= 1
             /\ Bal(T, a.pkt.src, Esc(a.pkt.L), a.pkt.d) < Bal(S, a.pkt.src, Esc(a.pkt.L), a.pkt.d)
             /\ Sup(T, a.pkt.src, a.pkt.d) = Sup(S, a.pkt.src, a.pkt.d), "Refund:move-voucher")
    /\ WitIf(a.a = "Timeout" /\ Fwd(S, a.pkt) /\ Id(a.pkt) \in T.refd /\ T.inf \subseteq S.inf /\ Len(a.pkt.d.t) >= 1
             /\ Bal(T, a.pkt.src, Esc(a.pkt.L), a.pkt.d) < Bal(S, a.pkt.src, Esc(a.pkt.L), a.pkt.d)
             /\ Sup(T, a.pkt.src, a.pkt.d) = Sup(S, a.pkt.src, a.pkt.d), "Refund:move-voucher-timeout")
    /\ WitIf(a.a \in {"Ack", "Timeout"} /\ Fwd(S, a.pkt) /\ Id(a.pkt) \in T.refd /\ T.inf \subseteq S.inf /\ Len(a.pkt.d.t) >= 1
             /\ a.pkt.src = "C" /\ Bal(T, "C", Esc(a.pkt.L), a.pkt.d) < Bal(S, "C", Esc(a.pkt.L), a.pkt.d)
             /\ Sup(T, "C", a.pkt.d) = Sup(S, "C", a.pkt.d), "Refund:move-voucher-onC")
    /\ WitIf(a.a = "Recv" /\ T.pk # S.pk /\ \E P \in T.pk \ S.pk : ThirdChannel(P.src, P, a.pkt), "Forward:third-channel")
    /\ WitIf(a.a = "Recv" /\ a.pkt.memo # <<>> /\ Head(a.pkt.memo).chok /\ Other(a.pkt.L, a.pkt.src) \in S.off /\ T.recv[Id(a.pkt)] = "err", "SendOff:forward-fails")
    /\ WitIf(a.a = "Timeout" /\ Fwd(S, a.pkt) /\ S.off = {} /\ T.pk # S.pk /\ nOff > 0, "SendOff:retry-after-on")
    /\ WitIf(a.a = "Transfer" /\ Len(a.memo) = 2 /\ a.memo[1].rcv = "rcvr", "Mid:valid")
    /\ WitIf(a.a = "Transfer" /\ Len(a.memo) >= 1 /\ a.memo[1].L = "BX", "Route:x")
    /\ WitIf(a.a = "Transfer" /\ Len(a.memo) = 2 /\ a.memo[2].L = "BC", "Route:xb")
    /\ WitIf(a.a \in {"Ack", "Timeout"} /\ Fwd(S, a.pkt) /\ Id(a.pkt) \in T.refd /\ T.inf \subseteq S.inf
             /\ Sup(T, a.pkt.src, a.pkt.d) > Sup(S, a.pkt.src, a.pkt.d), "Refund:mint")

Terminal(T) == J.on /\ J.id \in T.done /\ J.id \notin S.done
Delivered(T) == J.id \in DOMAIN S.ackw /\ S.ackw[J.id] = "ok"

Next ==
    \/ /\ Quiescent(S) /\ nj < MaxJ
       /\ \E a \in Journeys : \E r \in {Step(S, a)} :
             /\ r.res = "ok" /\ S' = r.S /\ nj' = nj + 1 /\ Witnesses(a, r.S) /\ nOff' = nOff
             /\ J' = [on |-> TRUE, snap |-> Bank(S), id |-> <<"A", "AB", NextSeq(S, "A", "AB")>>, a |-> a]
    \/ /\ ~Quiescent(S)
       /\ \E a \in Relay(S) : \E r \in {Step(S, a)} :
             \* a timeout whose retry cannot be sent fails as a whole: nothing changes
             /\ WitIf(r.res = "err" /\ a.a = "Timeout" /\ a.pkt.src \in S.off, "SendOff:retry-fails")
             /\ r.res = "ok" /\ S' = r.S /\ nj' = nj /\ Witnesses(a, r.S) /\ nOff' = nOff
             /\ WitIf(Terminal(r.S) /\ Delivered(r.S), "Terminal:delivered")
             /\ WitIf(Terminal(r.S) /\ ~Delivered(r.S), "Terminal:refunded")
             /\ J' = J
    \/ /\ ~Quiescent(S)
       /\ \E a \in (IF nOff < MaxOff THEN SendOffActs(S) ELSE {}) \cup SendOnActs(S) : \E r \in {Step(S, a)} :
             /\ S' = [r.S EXCEPT !.now = S.now] /\ nj' = nj /\ J' = J /\ nOff' = IF a.on THEN nOff ELSE nOff + 1

Spec == Init /\ [][Next]_vars

Inv == AllInvariants(S)

\* every relay the packet layer offers is accepted by the model (the adversary's choices are total)
(* C43 terminal clause: when the acknowledgement / timeout of the user's packet is processed on A, either the   *)
(* final receiver holds the tokens and nothing was refunded, or the bank state of EVERY chain is what it was    *)
(* before the journey (sender refunded in full, receiver not credited, escrows and supplies back).              *)
RcvrTotal(T, c) == SumOver(T.bal, { k \in DOMAIN T.bal : k[1] = c /\ k[2] = "rcvr" })
AllOrNothing ==
    [][(J.on /\ J.id \in S'.done /\ J.id \notin S.done) =>
          LET fc == FinalChain(J.a) IN
          IF J.id \in DOMAIN S.ackw /\ S.ackw[J.id] = "ok"
          THEN /\ RcvrTotal(S', fc) = SumOver(J.snap.bal, { k \in DOMAIN J.snap.bal : k[1] = fc /\ k[2] = "rcvr" }) + J.a.amt
               /\ Bal(S', "A", "user", J.a.d) = Get(J.snap.bal, <<"A", "user", J.a.d>>) - J.a.amt
               /\ S'.inf = {}
          ELSE Bank(S') = J.snap]_vars
=============================================================================
