----------------------------- MODULE RLActions -----------------------------
(***************************************************************************)
(* Candidate actions of the environment of chain A in a state S of         *)
(* RateLimit: users and the peer chains sending transfers, the relayer     *)
(* choosing order and outcome, block production (time), the authority      *)
(* administrating rate limits.                                             *)
(***************************************************************************)
EXTENDS RateLimit

CONSTANTS PATHS,      \* paths the authority administrates (subset of Paths)
          AMTS,       \* transfer amounts
          QSS, QRS,   \* send / receive percentages offered to the authority
          DURS,       \* durations (hours)
          DTS,        \* admissible time increments per transaction step (ticks)
          BDTS,       \* time increments of empty blocks
          FATES_OUT,  \* subset of {"ok","err","to"}
          FATES_IN,   \* subset of {"ok","err","fok","ferr","fto"}
          SEND_CH,    \* channels users of A send over (subset of Chans)
          WS,         \* receiver variants of a transfer (subset of {0, 1})
          WLPAIRS,    \* address pairs the whitelist administration offers (strings snd>rcv)
          BLS,        \* denominations the blacklist administration offers (subset of Denoms)
          MaxPk,      \* bound on packets created (both directions)
          MaxT        \* bound on time

With(Rs, f, X) == { [x \in (DOMAIN r) \cup {f} |-> IF x = f THEN v ELSE r[x]] : r \in Rs, v \in X }
Base(name)     == { [a |-> name, dt |-> d] : d \in DTS }

PathD(p)  == DenomOfPath(p)
PathCh(p) == IF p \in {"N/AB", "V/AB"} THEN "AB" ELSE "AC"

Created(S) == S.ns["AB"] + S.ns["AC"] + S.nr

BlockActs(S) == { [a |-> "Block", dt |-> d] : d \in BDTS }

SendActsWith(S, amts) == With(With(With(With(With(Base("Send"), "d", Denoms), "ch", SEND_CH), "amt", amts), "fate", FATES_OUT), "w", WS)
RecvActsWith(S, amts) == With(With(With(With(With(Base("Recv"), "d", Denoms), "ch", {"AB"}), "amt", amts), "fate", FATES_IN), "w", WS)

RelayActs(S) ==
    UNION { IF P.dir = "out"
            THEN (IF P.fate = "to" THEN With(Base("Timeout"), "pkt", {P}) ELSE With(Base("Ack"), "pkt", {P}))
            ELSE With(Base("Resolve"), "pkt", {P})
          : P \in S.pk }

QuotaActs(name, p) ==
    { x \in With(With(With(With(With(Base(name), "d", {PathD(p)}), "ch", {PathCh(p)}), "qs", QSS), "qr", QRS), "dur", DURS) :
        ~(x.qs = 0 /\ x.qr = 0) }
PlainActs(name, p) == With(With(Base(name), "d", {PathD(p)}), "ch", {PathCh(p)})

AdminActs(S) == UNION { QuotaActs("Add", p) \cup QuotaActs("Update", p) \cup PlainActs("Remove", p) \cup PlainActs("Reset", p) : p \in PATHS }

\* whitelist / blacklist administration
ListActs(S) == With(Base("WlAdd") \cup Base("WlDel"), "pair", WLPAIRS) \cup With(Base("BlAdd") \cup Base("BlDel"), "d", BLS)

\* authority messages that are rejected by stateless validation
BadAdminActs(S) == UNION { With(With(With(With(With(Base(n), "d", {PathD(p)}), "ch", {PathCh(p)}), "qs", {0, 101}), "qr", {0}), "dur", {0, 1})
                           : n \in {"Add", "Update"}, p \in PATHS }

Acts(S, c0) == BlockActs(S) \cup AdminActs(S) \cup RelayActs(S) \cup ListActs(S)
               \cup (IF Created(S) - c0 < MaxPk THEN SendActsWith(S, AMTS) \cup RecvActsWith(S, AMTS) ELSE {})
=============================================================================
