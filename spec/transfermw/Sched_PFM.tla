------------------------------ MODULE Sched_PFM ------------------------------
(***************************************************************************)
(* Behaviour generation for C43 (DESIGN.md 2.1b): random walks of PFM run  *)
(* with  tlc -simulate.  A walk is a sequence of journeys (user transfers  *)
(* on A whose memo forwards them over B (and C)), each driven to its end   *)
(* by a relayer that picks, for every packet in flight, delivery or        *)
(* timeout (with the retries the memo asks for), plus attempts that must   *)
(* be rejected: a receive exactly at the timeout and one tick before it,   *)
(* a timeout exactly at the timeout timestamp, relays of finished packets. *)
(***************************************************************************)
EXTENDS PFMActions, Json

CONSTANTS Depth, OutDir, ADV_PCT, TIMEOUT_PCT, XI_PCT, OFF_PCT

VARIABLES S, sched

vars == <<S, sched>>

Init == S = SetUp /\ sched = <<>>

PickOne(X) == RandomElement(X)

Adversarial(T) == LateRecv(T) \cup LastChanceRecv(T) \cup EarlyTimeout(T) \cup Stale(T)

Pick(T) ==
    CHOOSE x \in UNION { UNION {
        { IF roll2 <= XI_PCT /\ roll > 50 THEN [a |-> "XImport", dt |-> 1, c |-> PickOne({"A", "B", "C"})]
          ELSE IF Quiescent(T) /\ T.off # {} THEN PickOne(SendOnActs(T))
          ELSE IF Quiescent(T) THEN PickOne(Journeys)
          \* sends disabled on a chain that has a retry / a forward pending, enabled again a few steps later
          ELSE IF T.off # {} /\ roll2 % 3 = 0 THEN PickOne(SendOnActs(T))
          ELSE IF T.off = {} /\ roll % 100 < OFF_PCT /\ SendOffActs(T) # {} THEN PickOne(SendOffActs(T))
          ELSE IF roll <= ADV_PCT /\ Adversarial(T) # {} THEN PickOne(Adversarial(T))
          ELSE IF roll2 <= TIMEOUT_PCT /\ TimeoutActs(T) # {} THEN PickOne(TimeoutActs(T))
          ELSE IF RecvActs(T) \cup AckActs(T) # {} THEN PickOne(RecvActs(T) \cup AckActs(T))
          ELSE IF Relay(T) # {} THEN PickOne(Relay(T))
          ELSE [a |-> "Block", dt |-> 1] }
        : roll2 \in { PickOne(1..100) } } : roll \in { PickOne(1..100) } } : TRUE

Next ==
    /\ Len(sched) < Depth
    /\ \E a \in { Pick(S) } : \E r \in { Step(S, a) } :
          /\ S' = r.S
          /\ sched' = Append(sched, a)
          /\ (Len(sched') = Depth =>
                JsonSerialize(OutDir \o "/s" \o ToString(TLCGet("stats").traces) \o "_" \o ToString(PickOne(1..1000000)) \o ".json",
                              [kind |-> "PFM", acts |-> sched']))

Spec == Init /\ [][Next]_vars
=============================================================================
