---------------------------- MODULE MC_RLDenom ----------------------------
(* Exhaustive check of the denomination function table (DESIGN.md 2.1a) for C42:  *)
(* for every base-denomination shape x route, at every hop, the denomination the  *)
(* rate limiter derives from the packet equals the denomination ICS-20 moves --    *)
(* outside the input class of KF-C42-1 (second segment of the native base looks    *)
(* like a channel / client identifier); inside that class a counterexample exists  *)
(* (witness), i.e. the class is neither empty nor harmless.                        *)
EXTENDS RLDenom

VARIABLES c, n      \* case under examination, hops examined so far

Cases == { [base |-> b, route |-> r] : b \in BaseNames, r \in RouteNames }

Names == <<"send-escrow", "send-burn", "recv-mint", "recv-unescrow", "recv-unescrow-fails", "send-invalid",
           "class-send-differs", "class-recv-differs", "multi-hop-voucher", "full-unwind", "second-channel">>
Idx(x) == CHOOSE i \in DOMAIN Names : Names[i] = x
Wit(x) == IF TLCGet(Idx(x)) = 0 THEN TLCSet(Idx(x), 1) /\ PrintT(<<"WITNESS", x>>) ELSE TRUE
WitIf(p, x) == IF p THEN Wit(x) ELSE TRUE

Route(cs) == RouteOf(cs.route)
J(cs, k) == JAfter(SampleTopo, cs.base, Route(cs), k)
Hop(cs, k) == HopResult(SampleTopo, J(cs, k - 1), Route(cs)[k])

Init == c \in Cases /\ n = 0 /\ \A i \in DOMAIN Names : TLCSet(i, 0)

Next == /\ n < Len(Route(c)) /\ J(c, n).alive
        /\ n' = n + 1 /\ c' = c
        /\ LET e == Hop(c, n + 1)  j == J(c, n) IN
           /\ WitIf(e.sendOk /\ Len(j.h.den.trace) = 0, "send-escrow")
           /\ WitIf(e.sendOk /\ BankSend(SampleTopo, j.h, e.sendChan).burn, "send-burn")
           /\ WitIf(e.recvOk /\ ~BankRecv(SampleTopo, PathSegs(j.h.den), e.sendChan, e.recvChan, {}).unescrow, "recv-mint")
           /\ WitIf(e.recvOk /\ BankRecv(SampleTopo, PathSegs(j.h.den), e.sendChan, e.recvChan, {}).unescrow, "recv-unescrow")
           /\ WitIf(e.sendOk /\ ~e.recvOk, "recv-unescrow-fails")
           /\ WitIf(~e.sendOk, "send-invalid")
           /\ WitIf(InKFClass(c.base) /\ e.sendOk /\ e.rlSend # e.sendCoin, "class-send-differs")
           /\ WitIf(InKFClass(c.base) /\ e.recvOk /\ e.rlRecv # e.recvCoin, "class-recv-differs")
           /\ WitIf(e.recvOk /\ Len(e.next.h.den.trace) >= 2, "multi-hop-voucher")
           /\ WitIf(e.recvOk /\ Len(j.h.den.trace) >= 1 /\ Len(e.next.h.den.trace) = 0, "full-unwind")
           /\ WitIf(Route(c)[n + 1].L = "AB2" /\ e.recvOk, "second-channel")

Spec == Init /\ [][Next]_<<c, n>>

\* C42 on the function table: what the rate limiter charges is what ICS-20 moves
Agree == \A k \in 1..n :
            LET e == Hop(c, k) IN
            ~InKFClass(c.base) => /\ (e.sendOk => e.rlSend = e.sendCoin)
                                  /\ (e.recvOk => e.rlRecv = e.recvCoin)
=============================================================================
