------------------------------ MODULE Trace_PFM ------------------------------
(***************************************************************************)
(* Validation of traces recorded from the real packet-forward middleware   *)
(* (4 real chains, real relaying) against PFM.tla, property C43.           *)
(* Bank balances of the tracked accounts, supplies, in-flight forward      *)
(* records and sequences are rebound to the logged values after every      *)
(* step.  The packet-layer part of the state (packets sent, receive        *)
(* results, acknowledgements written, finished / refunded packets) is      *)
(* maintained from what the transactions OBSERVABLY did (send_packet and   *)
(* write_acknowledgement events, result class), never from the             *)
(* specification's prediction.                                             *)
(* A false monitor prints <<"MONFAIL", trace, step, <<property, clause>>>> *)
(* (kept below 80 characters: TLC wraps longer tuples).                    *)
(***************************************************************************)
EXTENDS PFMActions, Json

CONSTANT TraceFile

Trace == ndJsonDeserialize(TraceFile)

VARIABLES l, S, J

SetOf(arr) == { arr[i] : i \in DOMAIN arr }

BalOf(arr) == [k \in { <<arr[i].c, arr[i].a, arr[i].d>> : i \in DOMAIN arr } |->
                  arr[CHOOSE i \in DOMAIN arr : <<arr[i].c, arr[i].a, arr[i].d>> = k].v]
SupOf(arr) == [k \in { <<arr[i].c, arr[i].d>> : i \in DOMAIN arr } |->
                  arr[CHOOSE i \in DOMAIN arr : <<arr[i].c, arr[i].d>> = k].v]
NsOf(arr)  == [k \in { <<arr[i].c, arr[i].L>> : i \in DOMAIN arr } |->
                  arr[CHOOSE i \in DOMAIN arr : <<arr[i].c, arr[i].L>> = k].n]

NoGhost == [pk |-> {}, recv |-> EmptyFn, ackw |-> EmptyFn, done |-> {}, refd |-> {}]

StateOf(st, G) == [now |-> st.now, bal |-> BalOf(st.bal), sup |-> SupOf(st.sup), inf |-> SetOf(st.inf), ns |-> NsOf(st.ns),
                   pk |-> G.pk, recv |-> G.recv, ackw |-> G.ackw, done |-> G.done, refd |-> G.refd, off |-> SetOf(st.off)]

GhostOf(T) == [pk |-> T.pk, recv |-> T.recv, ackw |-> T.ackw, done |-> T.done, refd |-> T.refd]

IdOf(x) == <<x.src, x.L, x.seq>>

\* acknowledgements written in this step, as a function packet id -> class
WackFn(ln) == [k \in { IdOf(ln.wack[i].pkt) : i \in DOMAIN ln.wack } |->
                  ln.wack[CHOOSE i \in DOMAIN ln.wack : IdOf(ln.wack[i].pkt) = k].cls]

GhostStep(T, a, ln) ==
    LET G == GhostOf(T)  w == WackFn(ln)  sent == SetOf(ln.sent) IN
    IF ln.res # "ok" \/ a.a \in {"Block", "XImport", "SetSend"} THEN G
    ELSE IF a.a = "Transfer" THEN [G EXCEPT !.pk = @ \cup sent]
    ELSE LET id == Id(a.pkt) IN
      CASE a.a = "Recv" ->
              [G EXCEPT !.pk = @ \cup sent, !.ackw = w @@ @,
                        !.recv = (id :> (IF id \in DOMAIN w /\ w[id] = "err" THEN "err" ELSE "ok")) @@ @]
        [] a.a = "Ack" ->
              [G EXCEPT !.pk = @ \cup sent, !.ackw = w @@ @, !.done = @ \cup {id},
                        !.refd = IF id \in DOMAIN T.ackw /\ T.ackw[id] = "err" THEN @ \cup {id} ELSE @]
        [] a.a = "Timeout" ->
              [G EXCEPT !.pk = @ \cup sent, !.ackw = w @@ @, !.done = @ \cup {id}, !.refd = @ \cup {id}]

Changed(T, U, c) == { k[3] : k \in { x \in (DOMAIN T.bal) \cup (DOMAIN U.bal) : x[1] = c /\ Get(T.bal, x) # Get(U.bal, x) } }
                    \cup { k[2] : k \in { x \in (DOMAIN T.sup) \cup (DOMAIN U.sup) : x[1] = c /\ Get(T.sup, x) # Get(U.sup, x) } }

RcvrTotal(T, c) == SumOver(T.bal, { k \in DOMAIN T.bal : k[1] = c /\ k[2] = "rcvr" })

NoJ == [on |-> FALSE]

Viol(T, a, ln, post) ==
  LET E == Step(T, a)
      relay == a.a \in {"Recv", "Ack", "Timeout"}
      terminal == J.on /\ a.a \in {"Ack", "Timeout"} /\ ln.res = "ok" /\ Id(a.pkt) = J.id
      delivered == a.a = "Ack" /\ J.id \in DOMAIN T.ackw /\ T.ackw[J.id] = "ok"
      actor == IF a.a = "Recv" THEN Other(a.pkt.L, a.pkt.src) ELSE IF relay THEN a.pkt.src ELSE "A"
  IN
  \* ---- conservation on every chain at every step ------------------------------------------
     { <<"C43", "conserved-per-chain">> : x \in IF I_Conserved(post) THEN {} ELSE {1} }
  \cup { <<"C43", "escrow-backs-vouchers">> : x \in IF I_Backed(post) THEN {} ELSE {1} }
  \cup { <<"C43", "no-intermediate-funds">> : x \in IF I_NoIntermediateFunds(post) THEN {} ELSE {1} }
  \cup { <<"C43", "inflight-only-while-live">> : x \in IF I_InflightLive(post) THEN {} ELSE {1} }
  \* ---- C30 (ICS-20 conserves tokens across chains; judged by the ics20 family's property, which lists this family
  \*      under "also"): the per-channel balance and the constant supply of native tokens along forward routes ---------
  \cup { <<"C30", "pfm-escrow-backs-vouchers">> : x \in IF I_Backed(post) THEN {} ELSE {1} }
  \cup { <<"C30", "pfm-native-supply-constant">> : x \in IF I_NativeSupply(post) THEN {} ELSE {1} }
  \* ---- all or nothing when the user's packet is finished on the origin --------------------
  \cup { <<"C43", "delivered-means-credited">> : x \in
           IF terminal /\ delivered
              /\ ~(/\ RcvrTotal(post, FinalChain(J.a)) = SumOver(J.snap.bal, { k \in DOMAIN J.snap.bal : k[1] = FinalChain(J.a) /\ k[2] = "rcvr" }) + J.a.amt
                   /\ Bal(post, "A", "user", J.a.d) = Get(J.snap.bal, <<"A", "user", J.a.d>>) - J.a.amt
                   /\ post.inf = {})
           THEN {1} ELSE {} }
  \cup { <<"C43", "failed-means-all-restored">> : x \in
           IF terminal /\ ~delivered /\ Bank(post) # J.snap THEN {1} ELSE {} }
  \* ---- the forwarded denomination / amount is what ICS-20 credited on this chain ----------
  \cup { <<"C43", "forwards-what-was-credited">> : x \in
           IF a.a = "Recv" /\ ln.res = "ok" /\ Len(ln.sent) >= 1
              /\ ~(Len(ln.sent) = 1 /\ Changed(T, post, actor) = {ln.sent[1].d} /\ ln.sent[1].amt = a.pkt.amt
                   /\ ln.sent[1].src = actor)
           THEN {1} ELSE {} }
  \cup { <<"C43", "retry-repeats-the-transfer">> : x \in
           IF a.a = "Timeout" /\ ln.res = "ok" /\ Len(ln.sent) >= 1
              /\ ~(Len(ln.sent) = 1 /\ ln.sent[1].d = a.pkt.d /\ ln.sent[1].amt = a.pkt.amt /\ ln.sent[1].L = a.pkt.L
                   /\ ln.sent[1].rcv = a.pkt.rcv /\ ln.sent[1].memo = a.pkt.memo)
           THEN {1} ELSE {} }
  \* ---- failed receives and rejected transactions move nothing -----------------------------
  \cup { <<"C43", "failed-receive-moves-nothing">> : x \in
           IF a.a = "Recv" /\ ln.res = "ok" /\ Id(a.pkt) \in DOMAIN post.recv /\ post.recv[Id(a.pkt)] = "err"
              /\ Bank(post) # Bank(T) THEN {1} ELSE {} }
  \cup { <<"C43", "rejected-moves-nothing">> : x \in IF ln.res # "ok" /\ Bank(post) # Bank(T) THEN {1} ELSE {} }
  \* ---- C44 (diagnostic, judged by the packet family's property): export/import is the identity ----
  \cup { <<"C44", "export-import-identity">> : x \in
           IF a.a = "XImport" /\ ~(ln.res = "ok" /\ Bank(post) = Bank(T) /\ post.ns = T.ns) THEN {1} ELSE {} }
  \cup { <<"C44", "re-export-equals-export">> : x \in IF a.a = "XImport" /\ ln.res = "ok" /\ ln.xi # "same" THEN {1} ELSE {} }
  \* ---- full conformance (diagnostic only) -------------------------------------------------
  \cup { <<"CONF", a.a \o ":" \o E.res \o "/" \o ln.res>> : x \in
           IF (E.res = "ok") = (ln.res = "ok") /\ E.S = post THEN {} ELSE {1} }

Sanity(ln, T) ==
       { <<"X", "time">> : x \in IF ln.st.now = T.now + ln.a.dt THEN {} ELSE {1} }
  \cup { <<"X", "unknown-denomination">> : x \in
           IF \E i \in DOMAIN ln.st.bal : ln.st.bal[i].d.b \notin {"TA", "TB", "TC", "TD"} THEN {1} ELSE {} }
  \cup { <<"X", "packet-expiry-off-tick">> : x \in IF \E i \in DOMAIN ln.sent : ln.sent[i].exp < 0 THEN {1} ELSE {} }

Report(ln, viol) == \A v \in viol : PrintT(<<"MONFAIL", ln.tr, ln.i, v>>)

InitCheck(ln) == LET T == StateOf(ln.st, NoGhost) IN
    IF Bank(T) = Bank(SetUp) /\ T.ns = SetUp.ns /\ T.now = SetUp.now /\ T.off = {} THEN TRUE
    ELSE PrintT(<<"MONFAIL", ln.tr, ln.i, <<"X", "setup-differs-from-spec">>>>)

TraceInit == l = 1 /\ S = StateOf(Trace[1].st, NoGhost) /\ J = NoJ /\ InitCheck(Trace[1])

TraceNext ==
    /\ l < Len(Trace)
    /\ LET ln == Trace[l + 1] IN
       IF ln.a.a = "Init"
       THEN S' = StateOf(ln.st, NoGhost) /\ J' = NoJ /\ l' = l + 1 /\ InitCheck(ln)
       ELSE LET a  == ln.a
                S2 == StateOf(ln.st, GhostStep(S, a, ln))
            IN /\ Report(ln, Sanity(ln, S) \cup Viol(S, a, ln, S2))
               /\ S' = S2
               /\ J' = IF a.a = "Transfer" /\ ln.res = "ok" /\ Len(ln.sent) = 1
                       THEN [on |-> TRUE, snap |-> Bank(S), id |-> IdOf(ln.sent[1]), a |-> a] ELSE J
               /\ l' = l + 1
    /\ (l + 1 = Len(Trace) => PrintT(<<"CONSUMED", l + 1>>))

TraceSpec == TraceInit /\ [][TraceNext]_<<l, S, J>>
=============================================================================
