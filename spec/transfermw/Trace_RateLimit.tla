--------------------------- MODULE Trace_RateLimit ---------------------------
(***************************************************************************)
(* Validation of traces recorded from the real rate-limit middleware       *)
(* against RateLimit.tla (property C41).  Every line carries the action,   *)
(* the result class, the acknowledgement class written on A, the number of *)
(* blocks A produced in the step and the projected rate-limit state of A.  *)
(* The implementation part of the specification state is rebound to the    *)
(* logged values after every step; the GHOST part (packets accepted in the *)
(* current window of each path, packets in flight) is maintained by the    *)
(* specification from the actions and their observed results only.         *)
(* A false monitor prints  <<"MONFAIL", trace, step, <<property, clause>>>>*)
(* (kept below 80 characters: TLC wraps longer tuples over several lines). *)
(***************************************************************************)
EXTENDS RateLimit, Json

CONSTANT TraceFile

Trace == ndJsonDeserialize(TraceFile)

VARIABLES l, S

SetOf(arr) == { arr[i] : i \in DOMAIN arr }

RlOf(st) == [p \in Paths |->
               IF \E i \in DOMAIN st.rl : st.rl[i].p = p
               THEN LET r == st.rl[CHOOSE i \in DOMAIN st.rl : st.rl[i].p = p]
                    IN [on |-> TRUE, qs |-> r.qs, qr |-> r.qr, dur |-> r.dur, inflow |-> r.inflow, outflow |-> r.outflow, cv |-> r.cv]
               ELSE NoRL]

\* implementation-visible part of the state, from the log; ghost g and packet layer pk from the specification
StateOf(st, g, pk) ==
    [now |-> st.now, ep |-> [num |-> st.epnum, start |-> st.epstart],
     rl |-> RlOf(st), ps |-> SetOf(st.ps), pr |-> SetOf(st.pr),
     sup |-> [d \in Denoms |-> IF d = "N" THEN st.supN ELSE st.supV],
     ns |-> [c \in Chans |-> IF c = "AB" THEN st.nsAB ELSE st.nsAC], nr |-> st.nr,
     pk |-> pk, wl |-> SetOf(st.wl), bl |-> SetOf(st.bl), g |-> g]

Impl(T) == [now |-> T.now, ep |-> T.ep, rl |-> T.rl, ps |-> T.ps, pr |-> T.pr, sup |-> T.sup, ns |-> T.ns, nr |-> T.nr,
            wl |-> T.wl, bl |-> T.bl]

Flows(T) == [p \in Paths |-> <<T.rl[p].on, T.rl[p].inflow, T.rl[p].outflow>>]
Quotas(T) == [p \in Paths |-> <<T.rl[p].on, T.rl[p].qs, T.rl[p].qr, T.rl[p].dur, T.rl[p].cv>>]

IsAdmin(a)  == a.a \in {"Add", "Update", "Remove", "Reset"}
HasPath(a)  == a.a \in {"Send", "Recv"} \/ IsAdmin(a)
HasPkt(a)   == a.a \in {"Ack", "Timeout", "Resolve"}
PathOfAct(a) == IF HasPath(a) THEN PathOf(a.d, a.ch) ELSE IF HasPkt(a) THEN PathOf(a.pkt.d, a.pkt.ch) ELSE "N/AB"

\* paths whose window is restarted by the begin blockers of the step (specification semantics)
RECURSIVE EpochResets(_, _, _)
EpochResets(T, t, nb) ==
    IF nb <= 0 \/ ~EpochStarting(T, t) THEN {}
    ELSE { p \in Paths : T.rl[p].on /\ T.rl[p].dur # 0 /\ (T.ep.num + 1) % T.rl[p].dur = 0 }
         \cup EpochResets(BeginBlock(T, t), t, nb - 1)

(***************************************************************************)
(* Ghost step: which packets count in the current window of each path,     *)
(* decided from the action and the OBSERVED result only.                   *)
(*  T   state after the begin blockers (its ghost windows already          *)
(*      restarted where an epoch reset was due)                            *)
(* A transfer between a whitelisted address pair (the whitelist as logged  *)
(* BEFORE the step) is accepted but never joins a window.                  *)
(***************************************************************************)
GhostStep(T, a, res, ack, pkc) ==
    LET g == T.g  p == PathOfAct(a) IN
    IF res # "ok" THEN g
    ELSE CASE a.a = "Send" ->
                IF T.rl[p].on /\ ~SendWhitelisted(T, a) THEN [g EXCEPT !.out[p] = @ \cup {Acc(pkc.seq, a.amt)}] ELSE g
           [] a.a = "Recv" ->
                IF ack = "ok" THEN (IF T.rl[p].on /\ ~RecvWhitelisted(T, a) THEN [g EXCEPT !.inn[p] = @ \cup {Acc(pkc.seq, a.amt)}] ELSE g)
                ELSE IF ack = "none"
                THEN LET pf == PathOf(a.d, "AC")
                         g1 == IF T.rl[p].on /\ ~RecvWhitelisted(T, a) THEN [g EXCEPT !.inn[p] = @ \cup {Acc(pkc.seq, a.amt)}] ELSE g
                     IN IF T.rl[pf].on THEN [g1 EXCEPT !.out[pf] = @ \cup {Acc(pkc.fw, a.amt)}] ELSE g1
                ELSE g
           [] a.a \in {"Ack", "Timeout"} ->
                IF a.pkt.fate # "ok" /\ Acc(a.pkt.seq, a.pkt.amt) \in g.out[p]
                THEN [g EXCEPT !.out[p] = @ \ {Acc(a.pkt.seq, a.pkt.amt)}, !.undone = @ \cup {<<"out", p, a.pkt.seq>>}]
                ELSE g
           [] a.a = "Resolve" ->
                IF ack = "err"
                THEN LET pf == PathOf(a.pkt.d, "AC")
                         g1 == IF Acc(a.pkt.fw, a.pkt.amt) \in g.out[pf]
                               THEN [g EXCEPT !.out[pf] = @ \ {Acc(a.pkt.fw, a.pkt.amt)}, !.undone = @ \cup {<<"out", pf, a.pkt.fw>>}] ELSE g
                     IN IF Acc(a.pkt.seq, a.pkt.amt) \in g1.inn[p]
                        THEN [g1 EXCEPT !.inn[p] = @ \ {Acc(a.pkt.seq, a.pkt.amt)}, !.undone = @ \cup {<<"in", p, a.pkt.seq>>}] ELSE g1
                ELSE g
           [] IsAdmin(a) -> [g EXCEPT !.out[p] = {}, !.inn[p] = {}]
           [] OTHER -> g

PkStep(T, a, res, ack, pkc) ==
    IF res # "ok" THEN T.pk
    ELSE CASE a.a = "Send" -> T.pk \cup {pkc}
           [] a.a = "Recv" /\ ack = "none" -> T.pk \cup {pkc}
           [] HasPkt(a) -> T.pk \ {a.pkt}
           [] OTHER -> T.pk

(***************************************************************************)
(* Monitors of C41                                                         *)
(*  S0 logged pre-state + ghost,  T = Pre(S0, a),  post = logged state     *)
(*  after the step with the new ghost                                      *)
(***************************************************************************)
Viol(S0, a, res, ack, pkc, post) ==
  LET T    == Pre(S0, a)
      E    == Tx(T, a)
      p    == PathOfAct(a)
      t    == S0.now + a.dt
      netOut(q) == SumAmt(T.g.out[q]) - SumAmt(T.g.inn[q])
      restarted == EpochResets(S0, t, Nb(a))
                   \cup (IF IsAdmin(a) /\ a.a # "Remove" /\ res = "ok" THEN {p} ELSE {})
      accepted  == a.a = "Recv" /\ res = "ok" /\ ack \in {"ok", "none"}
      undoAct   == res = "ok" /\ ((a.a \in {"Ack", "Timeout"} /\ a.pkt.fate # "ok") \/ (a.a = "Resolve" /\ ack = "err"))
  IN
  \* ---- the accounting identity -----------------------------------------------------------
     { <<"C41", "outflow-identity">> : x \in IF I_OutflowIdentity(post) THEN {} ELSE {1} }
  \cup { <<"C41", "inflow-identity">> : x \in IF I_InflowIdentity(post) THEN {} ELSE {1} }
  \cup { <<"C41", "flows-nonneg">> : x \in IF I_NonNegative(post) THEN {} ELSE {1} }
  \* ---- accepted only within the quota of the channel value recorded at window start -------
  \cup { <<"C41", "send-quota">> : x \in
           IF a.a = "Send" /\ res = "ok" /\ T.rl[p].on /\ post.rl[p].on /\ ~SendWhitelisted(T, a)
              /\ ~G_WithinQuota(netOut(p) + a.amt, post.rl[p].cv, post.rl[p].qs) THEN {1} ELSE {} }
  \cup { <<"C41", "recv-quota">> : x \in
           IF accepted /\ T.rl[p].on /\ post.rl[p].on /\ ~RecvWhitelisted(T, a)
              /\ ~G_WithinQuota(a.amt - netOut(p), post.rl[p].cv, post.rl[p].qr) THEN {1} ELSE {} }
  \cup { <<"C41", "fwd-quota">> : x \in
           IF accepted /\ ack = "none" /\ T.rl[PathOf(a.d, "AC")].on /\ post.rl[PathOf(a.d, "AC")].on
              /\ ~G_WithinQuota(netOut(PathOf(a.d, "AC")) + a.amt, post.rl[PathOf(a.d, "AC")].cv, post.rl[PathOf(a.d, "AC")].qs)
           THEN {1} ELSE {} }
  \* ---- a receive that ends in an error acknowledgement / a rejected transaction -----------
  \cup { <<"C41", "errack-flows-unchanged">> : x \in
           IF a.a = "Recv" /\ res = "ok" /\ ack = "err" /\ Flows(post) # Flows(T) THEN {1} ELSE {} }
  \cup { <<"C41", "rejected-unchanged">> : x \in
           IF res # "ok" /\ (Flows(post) # Flows(T) \/ Quotas(post) # Quotas(T)) THEN {1} ELSE {} }
  \* ---- each packet undone at most once ---------------------------------------------------
  \cup { <<"C41", "undo-once">> : x \in
           IF undoAct /\ (IF a.a = "Resolve" THEN <<"in", p, a.pkt.seq>> ELSE <<"out", p, a.pkt.seq>>) \in T.g.undone
              /\ Flows(post)[p] # Flows(T)[p] THEN {1} ELSE {} }
  \* ---- window start records the channel value (= supply of the denomination) --------------
  \cup { <<"C41", "cv-at-window-start">> : x \in
           IF \E q \in restarted : post.rl[q].on /\ post.rl[q].cv # S0.sup[DenomOfPath(q)] THEN {1} ELSE {} }
  \* ---- C44 (diagnostic, judged by the packet family's property): export/import is the identity ----
  \cup { <<"C44", "export-import-identity">> : x \in
           IF a.a = "XImport" /\ ~(res = "ok" /\ Impl(post) = Impl(T)) THEN {1} ELSE {} }
  \* ---- full conformance with the specification (diagnostic only) --------------------------
  \cup { <<"CONF", a.a \o ":" \o E.res \o "/" \o res>> : x \in
           IF E.res = res /\ (a.a \in {"Recv", "Resolve"} => E.ack = ack) /\ Impl(E.S) = Impl(post) THEN {} ELSE {1} }

XiViol(ln) == { <<"C44", "re-export-equals-export">> : x \in
                  IF ln.a.a = "XImport" /\ ln.res = "ok" /\ ln.xi # "same" THEN {1} ELSE {} }

Sanity(ln, S0) ==
       { <<"X", "time">> : x \in IF ln.st.now = S0.now + ln.a.dt THEN {} ELSE {1} }
  \cup { <<"X", "unmodelled-state">> : x \in IF ln.st.other = 0 THEN {} ELSE {1} }
  \cup { <<"X", "epoch-not-on-tick">> : x \in IF ln.st.epstart > -1000000 THEN {} ELSE {1} }
  \cup { <<"X", "blocks">> : x \in IF ln.nb >= 1 THEN {} ELSE {1} }
  \cup { <<"X", "no-packet">> : x \in
           IF ln.res = "ok" /\ (ln.a.a = "Send" \/ (ln.a.a = "Recv" /\ ln.ack = "none")) /\ "pk" \notin DOMAIN ln THEN {1} ELSE {} }

Report(ln, viol) == \A v \in viol : PrintT(<<"MONFAIL", ln.tr, ln.i, v>>)

WithNb(a, nb) == [x \in (DOMAIN a) \cup {"nb"} |-> IF x = "nb" THEN nb ELSE a[x]]
NoPkt == [dir |-> "", ch |-> "", seq |-> 0, d |-> "", amt |-> 0, fate |-> "", fw |-> 0]

TraceInit == l = 1 /\ S = StateOf(Trace[1].st, EmptyGhost, {})

TraceNext ==
    /\ l < Len(Trace)
    /\ LET ln == Trace[l + 1] IN
       IF ln.a.a = "Init"
       THEN S' = StateOf(ln.st, EmptyGhost, {}) /\ l' = l + 1
       ELSE LET a   == WithNb(ln.a, IF ln.nb >= 1 THEN ln.nb ELSE 1)
                pkc == IF "pk" \in DOMAIN ln THEN ln.pk ELSE NoPkt
                T   == Pre(S, a)
                g2  == GhostStep(T, a, ln.res, ln.ack, pkc)
                pk2 == PkStep(T, a, ln.res, ln.ack, pkc)
                S2  == StateOf(ln.st, g2, pk2)
            IN /\ Report(ln, Sanity(ln, S) \cup XiViol(ln) \cup Viol(S, a, ln.res, ln.ack, pkc, S2))
               /\ S' = S2
               /\ l' = l + 1
    /\ (l + 1 = Len(Trace) => PrintT(<<"CONSUMED", l + 1>>))

TraceSpec == TraceInit /\ [][TraceNext]_<<l, S>>
=============================================================================
