--------------------------- MODULE Trace_RLDenom ---------------------------
(***************************************************************************)
(* Validation of the recorded denomination journeys against RLDenom.tla    *)
(* (property C42).  Every hop of a journey is two lines: XSend (the        *)
(* MsgTransfer on the sending chain) and XRecv (the MsgRecvPacket on the   *)
(* receiving chain).  A line carries what bank actually moved on the       *)
(* acting chain (balance differences of user, escrow account and supply),  *)
(* which rate-limit record changed its flow (100 % limits are installed on *)
(* every candidate denomination), and the result of the exported parser.   *)
(* C42 is judged on OBSERVATIONS only: charged denomination and channel =  *)
(* moved denomination and channel.  The specification's own expectation    *)
(* is compared as CONF (diagnostic).                                       *)
(* A false monitor prints <<"MONFAIL", trace, step, <<property, clause>>>> *)
(***************************************************************************)
EXTENDS RLDenom, Json

CONSTANT TraceFile

Trace == ndJsonDeserialize(TraceFile)

VARIABLES l, J, route

SetOf(arr) == { arr[i] : i \in DOMAIN arr }

TopoOf(ln) == [L \in Links |-> [c \in {EndsOf(L)[1], EndsOf(L)[2]} |->
                  ln.topo[CHOOSE i \in DOMAIN ln.topo : ln.topo[i].L = L /\ ln.topo[i].c = c].chan]]

NoJ == [h |-> NativeHolding(<<"none">>), esc |-> [e \in {} |-> {}], alive |-> FALSE]

UserMoves(ln, sign) == { m \in SetOf(ln.moved) : m.acct = "user" /\ (IF sign > 0 THEN m.delta > 0 ELSE m.delta < 0) }
Charges(ln) == { [d |-> x.d, chan |-> x.chan, dir |-> x.dir, delta |-> x.delta] : x \in SetOf(ln.charged) }

Viol(ln, a, e) ==
  LET sent == a.a = "XSend" /\ ln.res = "ok"
      rcvd == a.a = "XRecv" /\ ln.res = "ok" /\ ln.ack = "ok"
      dm   == UserMoves(ln, -1)
      cm   == UserMoves(ln, 1)
  IN
  \* ---- C42: the charge is on exactly the denomination and channel ICS-20 moved --------------
     { <<"C42", "send-charges-debited-denom">> : x \in
         IF sent /\ ~(\E m \in dm : dm = {m} /\ Charges(ln) = {[d |-> m.d, chan |-> e.sendChan, dir |-> "out", delta |-> 0 - m.delta]})
         THEN {1} ELSE {} }
  \cup { <<"C42", "recv-charges-credited-denom">> : x \in
         IF rcvd /\ ~(\E m \in cm : cm = {m} /\ Charges(ln) = {[d |-> m.d, chan |-> e.recvChan, dir |-> "in", delta |-> m.delta]})
         THEN {1} ELSE {} }
  \cup { <<"C42", "no-move-no-charge">> : x \in
         IF a.a \in {"XSend", "XRecv"} /\ ~sent /\ ~rcvd /\ ln.res # "skip" /\ (Charges(ln) # {} \/ SetOf(ln.moved) # {}) THEN {1} ELSE {} }
  \* ---- conformance with the specification's functions (diagnostic only) ----------------------
  \cup { <<"CONF", "send-result">> : x \in IF a.a = "XSend" /\ ln.res # "skip" /\ (ln.res = "ok") # e.sendOk THEN {1} ELSE {} }
  \cup { <<"CONF", "recv-result">> : x \in IF a.a = "XRecv" /\ ln.res = "ok" /\ (ln.ack = "ok") # e.recvOk THEN {1} ELSE {} }
  \cup { <<"CONF", "bank-send-denom">> : x \in IF sent /\ ~(\E m \in dm : m.d = e.sendCoin) THEN {1} ELSE {} }
  \cup { <<"CONF", "bank-recv-denom">> : x \in IF rcvd /\ ~(\E m \in cm : m.d = e.recvCoin) THEN {1} ELSE {} }
  \cup { <<"CONF", "parser-send">> : x \in IF sent /\ ~(ln.parsed = e.rlSend /\ ln.pchan = e.sendChan) THEN {1} ELSE {} }
  \cup { <<"CONF", "parser-recv">> : x \in
         IF a.a = "XRecv" /\ ln.res = "ok" /\ ~(ln.parsed = e.rlRecv /\ ln.pchan = e.recvChan) THEN {1} ELSE {} }
  \cup { <<"CONF", "packet-path">> : x \in IF sent /\ ln.pkt # e.pkt THEN {1} ELSE {} }

Report(ln, viol) == \A v \in viol : PrintT(<<"MONFAIL", ln.tr, ln.i, v>>)

TraceInit == l = 1 /\ J = NoJ /\ route = <<>>

TraceNext ==
    /\ l < Len(Trace)
    /\ LET ln == Trace[l + 1]  a == ln.a IN
       CASE a.a = "Init" -> J' = NoJ /\ route' = <<>>
         [] a.a = "Case" -> J' = [h |-> NativeHolding(ln.segs), esc |-> [e \in {} |-> {}], alive |-> TRUE] /\ route' = a.hops
         [] a.a \in {"XSend", "XRecv"} ->
               LET e == HopResult(TopoOf(ln), J, route[a.hop]) IN
               /\ (IF J.alive \/ ln.res # "skip" THEN Report(ln, Viol(ln, a, e)) ELSE TRUE)
               /\ J' = IF a.a = "XRecv" /\ J.alive THEN e.next ELSE J
               /\ route' = route
    /\ l' = l + 1
    /\ (l + 1 = Len(Trace) => PrintT(<<"CONSUMED", l + 1>>))

TraceSpec == TraceInit /\ [][TraceNext]_<<l, J, route>>
=============================================================================
