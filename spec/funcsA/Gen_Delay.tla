------------------------------ MODULE Gen_Delay ------------------------------
(***************************************************************************)
(* C19 function tables over real 64-bit operands (BigNat).                 *)
(*  "BlockDelay": (td, p) built as td = q*p + r with r < p, so that the    *)
(*     expected block delay q + [r > 0] follows from the decomposition     *)
(*     lemma of MC_Delay; classes: td >= 2^53, remainder 0 / 1 / p-1,      *)
(*     quotient >= 2^53, td = 2^64-1, p = 0, p > td, scaled small pairs.   *)
(*     Every expected value is re-checked here against the relational      *)
(*     definition IsBlockDelay with exact BigNat arithmetic.               *)
(*  "DelayTM" / "DelayConn": a proof is submitted to a real 07-tendermint  *)
(*     client at a block time / height placed relative to the processed    *)
(*     time / height of the consensus state (known only at run time: the   *)
(*     harness resolves the placement and records the actual numbers,      *)
(*     Trace_Delay judges them).                                           *)
(***************************************************************************)
EXTENDS Nat64, TLC, Json, FiniteSets, SequencesExt

CONSTANTS Seed, Tier, OutFile

NAdd(x, y) == BN!Add(x, y)
NSub(x, y) == BN!Sub(x, y)
NMul(x, y) == BN!Mul(x, y)
D == INSTANCE Delay WITH Z <- <<>>, Add <- NAdd, Sub <- NSub, Mul <- NMul, Lt <- NLt

Quick == Tier = "quick"
Sec == N(1000000000)

Ps == IF Quick THEN {N(1), N(3), Sec, Sym(32, 1), Sym(53, 0), Sym(53, 1), Sym(63, 0), Max64, Rnd(Seed, 1, 40)}
      ELSE {N(1), N(2), N(3), N(7), Sec, BN!MulSmall(Sec, 30), Sym(32, 0), Sym(32, 1), Sym(52, 1), Sym(53, -1), Sym(53, 0),
            Sym(53, 1), Sym(54, 3), Sym(62, 1), Sym(63, -1), Sym(63, 0), Sym(63, 1), Sym(64, -2), Max64,
            Rnd(Seed, 1, 40), Rnd(Seed, 2, 20), Rnd(Seed, 3, 54), Rnd64(Seed, 4)}
Qs == IF Quick THEN {N(0), N(1), N(2), Sym(21, 0), Sym(32, -1), Sym(53, -1), Sym(53, 0), Sym(53, 1), Sym(63, 0), Max64, Rnd(Seed, 5, 24)}
      ELSE {N(0), N(1), N(2), N(3), Sym(10, 1), Sym(21, 0), Sym(31, 1), Sym(32, -1), Sym(32, 0), Sym(52, 0), Sym(53, -1), Sym(53, 0),
            Sym(53, 1), Sym(53, 2), Sym(62, 0), Sym(63, -1), Sym(63, 0), Sym(64, -2), Max64,
            Rnd(Seed, 5, 24), Rnd(Seed, 6, 44), Rnd(Seed, 7, 10), Rnd64(Seed, 8)}
\* remainders of p: 0, 1, 2, p-1, p-2, about p/2
Rs(p) == { r \in {N(0), N(1), N(2), BN!Pred(p), IF BN!Lt(N(1), p) THEN BN!Sub(p, N(2)) ELSE N(0), BN!DivSmall(p, 2).q} : BN!Lt(r, p) }

Decomposed == UNION { { [td |-> BN!Add(BN!Mul(q, p), r), p |-> p, bd |-> IF r = <<>> THEN q ELSE BN!Succ(q)] : q \in Qs, r \in Rs(p) }
                      : p \in Ps }
InRange == { c \in Decomposed : Fits64(c.td) }
\* further pairs with the expected value given directly
Direct == { [td |-> t, p |-> <<>>, bd |-> <<>>] : t \in Qs }                              \* p = 0: no block delay
          \cup { [td |-> tq[1], p |-> tq[2], bd |-> N(1)] : tq \in { y \in (Qs \ {<<>>}) \X Ps : BN!Leq(y[1], y[2]) } }   \* 0 < td <= p
          \cup { [td |-> N(t), p |-> N(q), bd |-> N((t + q - 1) \div q)] : t \in 0..8, q \in 1..4 }
BDCases == { [fn |-> "BlockDelay", in |-> [td |-> c.td, p |-> c.p], exp |-> [bd |-> c.bd]] : c \in InRange \cup Direct }

\* ---- submissions to a real 07-tendermint client -------------------------------------------
\* placement of the block time:  "valid" = processed time + time delay + off,  "proc" = processed time + off,
\* "max" = 2^63 - 1 - off  (the largest representable block time); the same for heights with the block delay.
\* The harness clips a placement to the representable range [processed, 2^63 - 1] and records the actual value.
Place(m, o) == [m |-> m, off |-> o]
NearValid == {Place("valid", -1), Place("valid", 0), Place("valid", 1)}
Later     == {Place("valid", 1000), Place("max", 0)}
Early     == {Place("proc", 0), Place("proc", 1)}

TDs == IF Quick THEN {N(0), N(1), Sec, Sym(62, 0), Sym(63, 0), Max64, BN!Sub(Two64, BN!Mul(Sec, Sec))}
       ELSE {N(0), N(1), N(2), Sec, BN!MulSmall(Sec, 600), Sym(53, 0), Sym(53, 1), Sym(62, 0), Sym(63, -1), Sym(63, 0), Sym(63, 1),
             Sym(64, -3), Sym(64, -2), Max64, BN!Sub(Two64, BN!Mul(Sec, Sec)), Rnd(Seed, 9, 50), Rnd64(Seed, 10)}
BDs == IF Quick THEN {N(0), N(1), N(3), Sym(63, 0), Max64}
       ELSE {N(0), N(1), N(2), N(3), N(10), Sym(32, 0), Sym(62, 0), Sym(63, -1), Sym(63, 0), Sym(63, 1), Sym(64, -3), Sym(64, -2), Max64,
             Rnd(Seed, 11, 30), Rnd64(Seed, 12)}

\* time boundary with the block delay long passed, height boundary with the time delay long passed, both at the
\* boundary, both early
Placements == { <<t, Place("max", 0)>> : t \in NearValid \cup Early }
              \cup { <<Place("max", 0), h>> : h \in NearValid \cup Early }
              \cup { <<t, h>> : t \in {Place("valid", -1), Place("valid", 0)}, h \in {Place("valid", -1), Place("valid", 0)} }
              \cup { <<Place("valid", 1000), Place("valid", 5)>>, <<Place("proc", 0), Place("proc", 0)>> }

TMCases == { [fn |-> "DelayTM", in |-> [dt |-> t, db |-> b, tm |-> pl[1], hm |-> pl[2], kind |-> k]]
             : t \in TDs, b \in BDs, pl \in Placements, k \in {"membership"} }
           \cup { [fn |-> "DelayTM", in |-> [dt |-> t, db |-> b, tm |-> pl[1], hm |-> pl[2], kind |-> "non-membership"]]
             : t \in {N(0), Sec, Max64}, b \in {N(0), N(3), Max64}, pl \in Placements }

\* through the connection keeper: the block delay is whatever the real getBlockDelay yields for (td, p); the case carries
\* the exact block delay (from the decomposition) so that the harness can place the height at the exact boundary
ConnPairs == { c \in InRange : /\ c.td # <<>>
                               /\ \/ BN!Leq(c.bd, N(5))
                                  \/ c.bd \in {Sym(53, 0), Sym(53, 1), Max64} }
ConnSel == IF Quick THEN { c \in ConnPairs : c.p \in {N(3), Sec, Sym(53, 1), Max64} } ELSE ConnPairs
ConnCases == { [fn |-> "DelayConn", in |-> [td |-> c.td, p |-> c.p, bd |-> c.bd, tm |-> pl[1], hm |-> pl[2]]]
               : c \in ConnSel, pl \in { <<Place("valid", 0), Place("valid", 0)>>, <<Place("valid", -1), Place("max", 0)>>,
                                         <<Place("max", 0), Place("valid", -1)>>, <<Place("max", 0), Place("valid", 0)>> } }

WithExp(c) == IF "exp" \in DOMAIN c THEN c ELSE [fn |-> c.fn, in |-> c.in, exp |-> [none |-> TRUE]]
Cases == SetToSeq(BDCases) \o SetToSeq({ WithExp(c) : c \in TMCases }) \o SetToSeq({ WithExp(c) : c \in ConnCases })
Numbered(cs) == [i \in DOMAIN cs |-> [id |-> "D" \o ToString(i)] @@ cs[i]]

Obligations ==
    /\ \A c \in InRange \cup Direct : D!IsBlockDelay(c.bd, c.td, c.p) /\ Fits64(c.bd)
    /\ \E c \in InRange : BN!Leq(Sym(53, 0), c.td) /\ c.bd # <<>>
    /\ \E c \in InRange : c.td = Max64

VARIABLES st, cases
Init == st = "gen" /\ cases = <<>>
Next == \/ /\ st = "gen" /\ cases' = Numbered(Cases) /\ st' = "emit"
        \/ /\ st = "emit"
           /\ Assert(Obligations, "a C19 obligation fails on the 64-bit table of the specification")
           /\ ndJsonSerialize(OutFile, cases)
           /\ PrintT(<<"GENERATED", Len(cases), Cardinality(BDCases), Cardinality(TMCases), Cardinality(ConnCases)>>)
           /\ st' = "done" /\ cases' = <<>>
Spec == Init /\ [][Next]_<<st, cases>>
=============================================================================
