----------------------------- MODULE Identifiers -----------------------------
(***************************************************************************)
(* C15.  Client, connection and channel identifiers.  A string is a        *)
(* sequence of one-character strings, a sequence number is an element of   *)
(* an abstract number domain with                                          *)
(*   Dec(n)   canonical decimal digits of n                                *)
(*   Und(ds)  number denoted by a digit sequence (leading zeros allowed)   *)
(*   Fits(ds) that number fits the (64-bit) word                           *)
(*   MaxDigits  longest digit string an identifier may end in (20)         *)
(* Format / Parse are written from the identifier grammar                  *)
(*   client:      {client-type}-{N}   connection: connection-{N}           *)
(*   channel:     channel-{N}                                              *)
(* where {client-type} is made of word characters and hyphens and begins   *)
(* and ends with a word character, and {N} is 1..MaxDigits digits.         *)
(***************************************************************************)
EXTENDS Integers, Sequences

CONSTANTS Dec(_), Und(_), Fits(_), MaxDigits

Digit == {"0", "1", "2", "3", "4", "5", "6", "7", "8", "9"}
Lower == {"a", "b", "c", "d", "e", "f", "g", "h", "i", "j", "k", "l", "m", "n", "o", "p", "q", "r", "s", "t", "u", "v", "w", "x", "y", "z"}
Upper == {"A", "B", "C", "D", "E", "F", "G", "H", "I", "J", "K", "L", "M", "N", "O", "P", "Q", "R", "S", "T", "U", "V", "W", "X", "Y", "Z"}
Word  == Digit \cup Lower \cup Upper \cup {"_"}
\* characters an ICS-24 identifier may contain
IdChar == Word \cup {".", "+", "-", "#", "[", "]", "<", ">"}

AllIn(s, S) == \A i \in DOMAIN s : s[i] \in S
IsDigits(d) == Len(d) >= 1 /\ Len(d) <= MaxDigits /\ AllIn(d, Digit)

\* {client-type}
ClientTypeFormat(t) == Len(t) >= 1 /\ AllIn(t, Word \cup {"-"}) /\ t[1] \in Word /\ t[Len(t)] \in Word

FormatClient(t, n) == t \o <<"-">> \o Dec(n)
FormatSeq(prefix, n) == prefix \o Dec(n)

ChannelPrefix    == <<"c", "h", "a", "n", "n", "e", "l", "-">>
ConnectionPrefix == <<"c", "o", "n", "n", "e", "c", "t", "i", "o", "n", "-">>
Localhost        == <<"0", "9", "-", "l", "o", "c", "a", "l", "h", "o", "s", "t">>

Err == [ok |-> FALSE]
HyphenAt(s) == { i \in DOMAIN s : s[i] = "-" }
LastHyphen(s) == CHOOSE i \in HyphenAt(s) : \A j \in HyphenAt(s) : j <= i

ParseClient(s) ==
    IF s = Localhost THEN [ok |-> TRUE, t |-> s, n |-> Und(<<"0">>)]
    ELSE IF HyphenAt(s) = {} THEN Err
    ELSE LET k == LastHyphen(s)
             t == SubSeq(s, 1, k - 1)
             d == SubSeq(s, k + 1, Len(s))
         IN IF ClientTypeFormat(t) /\ IsDigits(d) /\ Fits(d) THEN [ok |-> TRUE, t |-> t, n |-> Und(d)] ELSE Err

HasPrefix(s, p) == Len(s) >= Len(p) /\ SubSeq(s, 1, Len(p)) = p
ParseSeq(prefix, s) ==
    IF ~HasPrefix(s, prefix) THEN Err
    ELSE LET d == SubSeq(s, Len(prefix) + 1, Len(s))
         IN IF IsDigits(d) /\ Fits(d) THEN [ok |-> TRUE, n |-> Und(d)] ELSE Err

\* ICS-24 identifier validation (the chain's validators): allowed characters and length window
ValidIdentifier(s, lo, hi) == Len(s) >= lo /\ Len(s) <= hi /\ AllIn(s, IdChar)
ValidClientId(s)     == ValidIdentifier(s, 4, 64)
ValidConnectionId(s) == ValidIdentifier(s, 10, 64)
ValidChannelId(s)    == ValidIdentifier(s, 8, 64)

(***************************************************************************)
(* What the property says about ANY accepted parse: the identifier is      *)
(* exactly  type "-" digits , the digits denote the returned sequence and  *)
(* that sequence fits the word.                                            *)
(***************************************************************************)
AcceptedClientParseSound(s, t, n) ==
    \/ s = Localhost
    \/ /\ HyphenAt(s) # {}
       /\ LET k == LastHyphen(s)  d == SubSeq(s, k + 1, Len(s)) IN
          /\ t = SubSeq(s, 1, k - 1) /\ Len(t) >= 1
          /\ Len(d) >= 1 /\ AllIn(d, Digit) /\ Fits(d) /\ Und(d) = n
AcceptedSeqParseSound(prefix, s, n) ==
    /\ HasPrefix(s, prefix)
    /\ LET d == SubSeq(s, Len(prefix) + 1, Len(s)) IN Len(d) >= 1 /\ AllIn(d, Digit) /\ Fits(d) /\ Und(d) = n
=============================================================================
