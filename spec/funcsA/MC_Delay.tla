------------------------------- MODULE MC_Delay -------------------------------
(***************************************************************************)
(* C19 on the specification itself, exhaustively over 0..W: the relational *)
(* block delay of Delay.tla is the ceiling division over the naturals, the *)
(* (p, q, r) decomposition used to generate 64-bit cases is sound, and the *)
(* quotient-free form of "block delay passed" is equivalent.               *)
(***************************************************************************)
EXTENDS Integers, TLC
CONSTANT W
VARIABLES td, p

NatAdd(x, y) == x + y
NatSub(x, y) == x - y
NatMul(x, y) == x * y
NatLt(x, y)  == x < y
D == INSTANCE Delay WITH Z <- 0, Add <- NatAdd, Sub <- NatSub, Mul <- NatMul, Lt <- NatLt

\* the function of the property statement, over the unbounded naturals
CeilDiv(a, b) == (a + b - 1) \div b
BlockDelay(t, q) == IF q = 0 THEN 0 ELSE CeilDiv(t, q)

Kinds == <<"exact-division", "remainder-one", "remainder-max", "p-zero", "td-zero", "p-greater-than-td">>
Idx(name) == CHOOSE i \in DOMAIN Kinds : Kinds[i] = name
Witness(name) == IF TLCGet(Idx(name)) = 0 THEN TLCSet(Idx(name), 1) /\ PrintT(<<"WITNESS", name>>) ELSE TRUE
Observe(t, q) == /\ (q > 1 /\ t > 0 /\ t % q = 0 => Witness("exact-division"))
                 /\ (q > 2 /\ t % q = 1 /\ t > q => Witness("remainder-one"))
                 /\ (q > 2 /\ t % q = q - 1 /\ t > q => Witness("remainder-max"))
                 /\ (q = 0 /\ t > 0 => Witness("p-zero"))
                 /\ (t = 0 /\ q > 0 => Witness("td-zero"))
                 /\ (q > t /\ t > 0 => Witness("p-greater-than-td"))

Init == td = 0 /\ p = 0 /\ \A i \in DOMAIN Kinds : TLCSet(i, 0)
Next == \/ td < W /\ td' = td + 1 /\ p' = p /\ Observe(td', p')
        \/ p < W /\ p' = p + 1 /\ td' = td /\ Observe(td', p')
Spec == Init /\ [][Next]_<<td, p>>

Lemmas ==
    LET bd == BlockDelay(td, p) IN
    /\ D!IsBlockDelay(bd, td, p)                                                    \* the ceiling satisfies the relation
    /\ \A e \in 0..(W + 1) : D!IsBlockDelay(e, td, p) => e = bd                     \* and nothing else does
    /\ (p # 0 => bd * p >= td /\ (bd = 0 \/ (bd - 1) * p < td))                     \* ceiling
    /\ (p # 0 => \A r \in 0..(p - 1) : BlockDelay(td * p + r, p) = td + (IF r > 0 THEN 1 ELSE 0))   \* decomposition (q = td)
    /\ \A nowH \in 0..(2 * W + 1), procH \in 0..W :
          D!BlockDelayPassedTP(nowH, procH, td, p) <=> D!BlockDelayPassed(nowH, procH, bd)
    /\ \A now \in 0..(2 * W + 1), procT \in 0..W :                                  \* inclusive boundary
          D!TimeDelayPassed(now, procT, td) <=> (td = 0 \/ now >= procT + td)

\* monotone in the time delay, antitone in the time per block
Monotone == [][/\ (td' > td => BlockDelay(td', p) >= BlockDelay(td, p))
               /\ (p' > p /\ p > 0 => BlockDelay(td, p') <= BlockDelay(td, p))]_<<td, p>>
=============================================================================
