----------------------------- MODULE Trace_Delay -----------------------------
(***************************************************************************)
(* C19: validation of what the real code did on the TLC-generated cases.   *)
(*  BlockDelay : the delays the connection keeper passed to the (spy)      *)
(*               light client for (td, p) -- judged with IsBlockDelay,     *)
(*               i.e. exact ceiling, by BigNat multiplication/comparison;  *)
(*  DelayTM    : accept / reject of a real 07-tendermint client for the    *)
(*               recorded (now, nowH, procT, procH, dT, dB);               *)
(*  DelayConn  : the same through the connection keeper for (td, p).       *)
(* <<"MONFAIL", case id, 1, <<"C19", clause>>>> ; "X" = harness sanity.    *)
(***************************************************************************)
EXTENDS Nat64, TLC, Json

CONSTANT TraceFile

NAdd(x, y) == BN!Add(x, y)
NSub(x, y) == BN!Sub(x, y)
NMul(x, y) == BN!Mul(x, y)
D == INSTANCE Delay WITH Z <- <<>>, Add <- NAdd, Sub <- NSub, Mul <- NMul, Lt <- NLt

Trace == ndJsonDeserialize(TraceFile)

VARIABLE l

Flag(prop, clause, bad) == IF bad THEN {<<prop, clause>>} ELSE {}

\* placement of a block time / height (Gen_Delay.tla), clipped to the representable range [lo, hi]
AddOff(x, off) == IF off >= 0 THEN BN!Add(x, N(off))
                  ELSE IF BN!Lt(x, N(0 - off)) THEN <<>> ELSE BN!Sub(x, N(0 - off))
Clip(v, lo, hi) == IF BN!Lt(v, lo) THEN lo ELSE IF BN!Lt(hi, v) THEN hi ELSE v
PlaceVal(pl, proc, delay, lo, hi) ==
    CASE pl.m = "valid" -> Clip(AddOff(BN!Add(proc, delay), pl.off), lo, hi)
      [] pl.m = "proc"  -> Clip(AddOff(proc, pl.off), lo, hi)
      [] pl.m = "max"   -> Clip(AddOff(hi, 0 - pl.off), lo, hi)
MaxHeight == Sym(63, -1)

ViolBlockDelay(ln) ==
    LET td == ln.in.td  p == ln.in.p  calls == ln.out.calls IN
    IF ln.res # "ok" THEN {<<"C19", "block-delay-computation-completes">>}
    ELSE   Flag("C19", "block-delay-is-exact-ceiling", \E i \in DOMAIN calls : ~D!IsBlockDelay(calls[i].db, td, p))
      \cup Flag("C19", "time-delay-is-the-connection-delay", \E i \in DOMAIN calls : calls[i].dt # td)
      \cup Flag("X", "four-verification-entry-points-reach-the-client",
                { calls[i].fn : i \in DOMAIN calls } # {"VerifyPacketCommitment", "VerifyPacketAcknowledgement",
                                                         "VerifyPacketReceiptAbsence", "VerifyNextSequenceRecv"} \/ Len(calls) # 4)
      \cup Flag("X", "expected-value-altered", ~D!IsBlockDelay(ln.exp.bd, td, p))

Submitted(ln, delayT, delayH) ==
    LET o == ln.out IN
       Flag("X", "placement-of-block-time", o.now # PlaceVal(ln.in.tm, o.procT, delayT, o.procT, o.maxNow) \/ o.ctxNow # o.now)
  \cup Flag("X", "placement-of-block-height", o.nowH # PlaceVal(ln.in.hm, o.procH, delayH, o.procH, MaxHeight) \/ o.ctxH # o.nowH)

ViolDelayTM(ln) ==
    LET o == ln.out  dt == ln.in.dt  db == ln.in.db
        passed == D!DelayPassed(o.now, o.nowH, o.procT, o.procH, dt, db) IN
    IF ln.res # "ok" THEN {<<"X", "evaluation-failed">>}
    ELSE   Flag("C19", "accepted-only-after-both-delays", o.accepted /\ ~passed)
      \cup Flag("C19", "delay-boundaries-are-inclusive", passed /\ o.status = "Active" /\ ~o.accepted)
      \cup Submitted(ln, dt, db)

ViolDelayConn(ln) ==
    LET o == ln.out  td == ln.in.td  p == ln.in.p
        passed == D!ConnDelayPassed(o.now, o.nowH, o.procT, o.procH, td, p) IN
    IF ln.res # "ok" THEN {<<"X", "evaluation-failed">>}
    ELSE   Flag("C19", "accepted-only-after-both-delays", o.accepted /\ ~passed)
      \cup Flag("C19", "delay-boundaries-are-inclusive", passed /\ o.status = "Active" /\ ~o.accepted)
      \cup Flag("X", "expected-value-altered", ~D!IsBlockDelay(ln.in.bd, td, p))
      \cup Submitted(ln, td, ln.in.bd)

Viol(ln) == CASE ln.fn = "BlockDelay" -> ViolBlockDelay(ln)
              [] ln.fn = "DelayTM" -> ViolDelayTM(ln)
              [] ln.fn = "DelayConn" -> ViolDelayConn(ln)
              [] OTHER -> {<<"X", "unknown-function">>}

Report(ln, viol) == \A v \in viol : PrintT(<<"MONFAIL", ln.tr, ln.i, v>>)

TraceInit == l = 0
TraceNext == /\ l < Len(Trace)
             /\ Report(Trace[l + 1], Viol(Trace[l + 1]))
             /\ l' = l + 1
             /\ (l + 1 = Len(Trace) => PrintT(<<"CONSUMED", l + 1>>))
TraceSpec == TraceInit /\ [][TraceNext]_l
=============================================================================
