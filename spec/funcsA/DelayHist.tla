------------------------------ MODULE DelayHist ------------------------------
(***************************************************************************)
(* C19, history part: a connection with time delay TD (ns) on a chain      *)
(* whose expected time per block is P (ns).  t and h are the time and the  *)
(* number of blocks since the consensus state was processed (the client    *)
(* update transaction is t = 0, h = 0).  Every transaction is one block.   *)
(* A receive of a not yet received, correctly proven packet is accepted    *)
(* exactly when both delays have passed, boundaries inclusive.             *)
(* The configuration (TD, P) is a parameter of every operator so that one  *)
(* TLC run can cover several connections.                                  *)
(***************************************************************************)
EXTENDS Integers

BDof(TD, P) == IF P = 0 THEN 0 ELSE (TD + P - 1) \div P
Passed(TD, P, t, h) == (TD = 0 \/ t >= TD) /\ (BDof(TD, P) = 0 \/ h >= BDof(TD, P))

InitState == [t |-> 0, h |-> 0, n |-> 0]

\* a = [a |-> "Block" | "Recv", dt |-> ns since the previous block (>= 1)]
Step(TD, P, S, a) ==
    LET S1 == [S EXCEPT !.t = S.t + a.dt, !.h = S.h + 1] IN
    IF a.a = "Block" THEN [res |-> "ok", S |-> S1]
    ELSE IF Passed(TD, P, S1.t, S1.h) THEN [res |-> "ok", S |-> [S1 EXCEPT !.n = S.n + 1]]
    ELSE [res |-> "err", S |-> S1]

\* time steps: one nanosecond, or exactly onto / just before / just after the moment the time delay has passed
EdgeDts(TD, S) == { d \in {1, 2, TD - 1 - S.t, TD - S.t, TD + 1 - S.t} : d >= 1 }
Acts(TD, S) == { [a |-> k, dt |-> d] : k \in {"Block", "Recv"}, d \in EdgeDts(TD, S) }

\* configurations travel through cfg files as one integer TD * 1000 + P
TDof(c) == c \div 1000
Pof(c)  == c % 1000
=============================================================================
