----------------------------- MODULE MC_DelayHist -----------------------------
(* Exhaustive exploration of DelayHist for the configurations CONFIGS (each     *)
(* TD * 1000 + P): vacuity witnesses for all four boundary situations, and the  *)
(* safety statement of the property as an action property.                      *)
EXTENDS DelayHist, TLC
CONSTANT CONFIGS
VARIABLES cfg, S

TD == TDof(cfg)
P  == Pof(cfg)
BD == BDof(TD, P)

Kinds == <<"accepted-at-exact-time", "rejected-one-ns-early", "accepted-at-exact-height", "rejected-one-block-early",
           "no-block-delay", "no-delay-at-all">>
Idx(name) == CHOOSE i \in DOMAIN Kinds : Kinds[i] = name
Witness(name) == IF TLCGet(Idx(name)) = 0 THEN TLCSet(Idx(name), 1) /\ PrintT(<<"WITNESS", name>>) ELSE TRUE
Observe(a, r) ==
    a.a = "Recv" =>
      /\ (r.res = "ok"  /\ TD > 0 /\ r.S.t = TD => Witness("accepted-at-exact-time"))
      /\ (r.res = "err" /\ TD > 0 /\ r.S.t = TD - 1 /\ r.S.h >= BD => Witness("rejected-one-ns-early"))
      /\ (r.res = "ok"  /\ BD > 0 /\ r.S.h = BD => Witness("accepted-at-exact-height"))
      /\ (r.res = "err" /\ BD > 1 /\ r.S.h = BD - 1 /\ r.S.t >= TD => Witness("rejected-one-block-early"))
      /\ (r.res = "ok"  /\ TD > 0 /\ BD = 0 /\ r.S.h = 1 => Witness("no-block-delay"))
      /\ (r.res = "ok"  /\ TD = 0 /\ r.S.h = 1 => Witness("no-delay-at-all"))

Init == cfg \in CONFIGS /\ S = InitState /\ \A i \in DOMAIN Kinds : TLCSet(i, 0)
Next == \E a \in Acts(TD, S) : LET r == Step(TD, P, S, a) IN S' = r.S /\ cfg' = cfg /\ Observe(a, r)
Spec == Init /\ [][Next]_<<cfg, S>>
Bound == S.t <= TD + 3 /\ S.h <= BD + 3

OnlyAfterBothDelays == [][S'.n > S.n => /\ (TD = 0 \/ S'.t >= TD)
                                        /\ (P = 0 \/ TD = 0 \/ S'.h * P >= TD)]_<<cfg, S>>
=============================================================================
